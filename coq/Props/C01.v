(** C01 — property theorems only (proved in DD/Canon*.v). *)
From Coq Require Import List NArith.
From OxiVerif Require Import DD.Table DD.TableExtra DD.TableProofs
  DD.Canon DD.CanonBcdd DD.CanonZbdd DD.CanonAll.

(* all kinds: two handles hold the same edge iff they mean the same function *)
Theorem C01_canon_handles : forall s, WF s /\ terms_kind s ->
  forall h1 h2, In h1 (s_handles s) -> In h2 (s_handles s) ->
  (snd h1 = snd h2 <->
   forall c, (forall l, c l < arity (s_kind s)) ->
     sem_edge s (snd h1) c = sem_edge s (snd h2) c).
Proof. exact canon_handles. Qed.
Print Assumptions C01_canon_handles.

(* all kinds: the same for arbitrary existing edges *)
Theorem C01_canon_edges : forall s, WF s /\ terms_kind s ->
  forall e1 e2, ref_ok s (eref e1) -> ref_ok s (eref e2) ->
  (s_kind s <> KBcdd -> etag e1 = false /\ etag e2 = false) ->
  (e1 = e2 <->
   forall c, (forall l, c l < arity (s_kind s)) -> sem_edge s e1 c = sem_edge s e2 c).
Proof. exact canon_edges. Qed.
Print Assumptions C01_canon_edges.

(* k-ary kinds (BDD, MTBDD, TDD): references with equal meaning are equal *)
Theorem C01_canon_kary : forall s, WF s -> s_kind s <> KBcdd /\ s_kind s <> KZbdd ->
  forall r1 r2, ref_ok s r1 -> ref_ok s r2 ->
  (r1 = r2 <->
   forall c, (forall l, c l < arity (s_kind s)) ->
     semk s (S (nlevels s)) r1 c = semk s (S (nlevels s)) r2 c).
Proof. exact canon_kary. Qed.
Print Assumptions C01_canon_kary.

Theorem C01_canon_kary_handles : forall s, WF s -> s_kind s <> KBcdd /\ s_kind s <> KZbdd ->
  forall h1 h2, In h1 (s_handles s) -> In h2 (s_handles s) ->
  (snd h1 = snd h2 <->
   forall c, (forall l, c l < arity (s_kind s)) ->
     sem_edge s (snd h1) c = sem_edge s (snd h2) c).
Proof. exact canon_kary_handles. Qed.
Print Assumptions C01_canon_kary_handles.

(* BCDD: edges (reference and complement tag) with equal meaning are equal *)
Theorem C01_canon_bcdd : forall s, WF s -> s_kind s = KBcdd -> terms_kind s ->
  forall e1 e2, ref_ok s (eref e1) -> ref_ok s (eref e2) ->
  (e1 = e2 <->
   forall c, (forall l, c l < arity (s_kind s)) ->
     semc s (S (nlevels s)) e1 c = semc s (S (nlevels s)) e2 c).
Proof. exact canon_bcdd. Qed.
Print Assumptions C01_canon_bcdd.

Theorem C01_canon_bcdd_handles : forall s, WF s -> s_kind s = KBcdd -> terms_kind s ->
  forall h1 h2, In h1 (s_handles s) -> In h2 (s_handles s) ->
  (snd h1 = snd h2 <->
   forall c, (forall l, c l < arity (s_kind s)) ->
     sem_edge s (snd h1) c = sem_edge s (snd h2) c).
Proof. exact canon_bcdd_handles. Qed.
Print Assumptions C01_canon_bcdd_handles.

(* ZBDD: references with equal Boolean view over all levels are equal *)
Theorem C01_canon_zbdd : forall s, WF s -> s_kind s = KZbdd -> terms_kind s ->
  forall r1 r2, ref_ok s r1 -> ref_ok s r2 ->
  (r1 = r2 <->
   forall c, (forall l, c l < arity (s_kind s)) ->
     semz s (S (nlevels s)) 0 r1 c = semz s (S (nlevels s)) 0 r2 c).
Proof. exact canon_zbdd. Qed.
Print Assumptions C01_canon_zbdd.

(* ZBDD, generalised to the view from any common level *)
Theorem C01_canon_zbdd_from : forall s, WF s -> s_kind s = KZbdd -> terms_kind s ->
  forall lvl r1 r2, ref_ok s r1 -> ref_ok s r2 ->
  lvl <= rlevel s r1 -> lvl <= rlevel s r2 ->
  (r1 = r2 <->
   forall c, (forall l, c l < arity (s_kind s)) ->
     semz s (S (nlevels s)) lvl r1 c = semz s (S (nlevels s)) lvl r2 c).
Proof. exact canon_zbdd_from. Qed.
Print Assumptions C01_canon_zbdd_from.

Theorem C01_canon_zbdd_handles : forall s, WF s -> s_kind s = KZbdd -> terms_kind s ->
  forall h1 h2, In h1 (s_handles s) -> In h2 (s_handles s) ->
  (snd h1 = snd h2 <->
   forall c, (forall l, c l < arity (s_kind s)) ->
     sem_edge s (snd h1) c = sem_edge s (snd h2) c).
Proof. exact canon_zbdd_handles. Qed.
Print Assumptions C01_canon_zbdd_handles.

(* the BCDD / ZBDD hypotheses are satisfiable (concrete snapshots with inner nodes) *)
Theorem C01_example_bcdd : WF ex_bcdd /\ terms_kind ex_bcdd.
Proof. exact (proj1 (wf_full_b_spec ex_bcdd) (proj1 ex_bcdd_ok)). Qed.
Print Assumptions C01_example_bcdd.

Theorem C01_example_zbdd : WF ex_zbdd /\ terms_kind ex_zbdd.
Proof. exact (proj1 (wf_full_b_spec ex_zbdd) (proj1 ex_zbdd_ok)). Qed.
Print Assumptions C01_example_zbdd.

Theorem C01_example_bdd : WF ex_snap /\ terms_kind ex_snap.
Proof. exact ex_snap_WFfull. Qed.
Print Assumptions C01_example_bdd.

(** ** ALL histories (HIST): canonicity after any sequence of operations, handle drops,
    garbage collections, variable additions and reorderings (the manager state machine of
    Mgr/History.v; plain BDD kind; any operand order, any lossy cache) *)
From OxiVerif Require Import DD.Sem DD.Build DD.Apply DD.ApplyProofs DD.ApplyEvalProofs DD.ConfigApply DD.Quant
  DD.QuantSpecProofs Mgr.History Mgr.HistoryProofs Mgr.HistoryThms Mgr.HistorySpec Mgr.HistoryExamples.

(* two handle slots hold the same edge IFF they denote the same function of the variables *)
Theorem C01_hist_canonical :
  forall (gt : ref -> ref -> bool) (C : Type) (cget : C -> N -> list ref -> option ref)
         (cadd : C -> N -> list ref -> ref -> C), lossy cget cadd ->
  forall cempty : C, (forall k a, cget cempty k a = None) ->
  forall n st, hreach gt C cget cadd cempty n st ->
  forall x y ex ey,
    hget (s_handles (h_s C st)) x = Some ex -> hget (s_handles (h_s C st)) y = Some ey ->
    (ex = ey <-> forall a, bfun_of (h_s C st) (eref ex) a = bfun_of (h_s C st) (eref ey) a).
Proof. exact hist_canonical. Qed.
Print Assumptions C01_hist_canonical.

(* the same for every state satisfying the invariant *)
Theorem C01_hist_inv_canonical :
  forall (C : Type) (cget : C -> N -> list ref -> option ref) (st : hstate C), HInv C cget st ->
  forall x y ex ey,
    hget (s_handles (h_s C st)) x = Some ex -> hget (s_handles (h_s C st)) y = Some ey ->
    (ex = ey <-> forall a, bfun_of (h_s C st) (eref ex) a = bfun_of (h_s C st) (eref ey) a).
Proof. exact hinv_canonical. Qed.
Print Assumptions C01_hist_inv_canonical.

(* result correctness along histories: the destination holds the spec function [F] that [hspec]
   reads off the operands' FUNCTIONS at the time of the call *)
Theorem C01_hist_spec :
  forall (gt : ref -> ref -> bool) (C : Type) (cget : C -> N -> list ref -> option ref)
         (cadd : C -> N -> list ref -> ref -> C), lossy cget cadd ->
  forall cempty : C, (forall k a, cget cempty k a = None) ->
  forall (st : hstate C) o d F, HInv C cget st -> hspec C st o d F ->
  exists st', hstep gt C cget cadd cempty st o = Some st' /\ HInv C cget st' /\
              hframe C st o st' /\ holds C st' d F.
Proof. exact hstep_spec. Qed.
Print Assumptions C01_hist_spec.

(* inside one manager the returned edge is determined by that function: every slot holding it
   holds the very same edge *)
Theorem C01_hist_result_unique :
  forall (gt : ref -> ref -> bool) (C : Type) (cget : C -> N -> list ref -> option ref)
         (cadd : C -> N -> list ref -> ref -> C), lossy cget cadd ->
  forall cempty : C, (forall k a, cget cempty k a = None) ->
  forall (st : hstate C) o d F st', HInv C cget st -> hspec C st o d F ->
  hstep gt C cget cadd cempty st o = Some st' ->
  forall y, holds C st' y F ->
  hget (s_handles (h_s C st')) y = hget (s_handles (h_s C st')) d.
Proof. exact hist_result_unique. Qed.
Print Assumptions C01_hist_result_unique.

(* across two managers (different histories, operand orders, cache implementations) with the same
   variable order: same spec function => same function and same node count of the results *)
Theorem C01_hist_result_determined :
  forall (gt1 gt2 : ref -> ref -> bool) (C1 C2 : Type)
         (cget1 : C1 -> N -> list ref -> option ref) (cadd1 : C1 -> N -> list ref -> ref -> C1)
         (cget2 : C2 -> N -> list ref -> option ref) (cadd2 : C2 -> N -> list ref -> ref -> C2),
  lossy cget1 cadd1 -> lossy cget2 cadd2 ->
  forall (ce1 : C1) (ce2 : C2),
  (forall k a, cget1 ce1 k a = None) -> (forall k a, cget2 ce2 k a = None) ->
  forall (st1 : hstate C1) (st2 : hstate C2) o1 o2 d1 d2 F st1' st2',
  HInv C1 cget1 st1 -> HInv C2 cget2 st2 ->
  s_l2v (h_s C1 st1) = s_l2v (h_s C2 st2) -> s_v2l (h_s C1 st1) = s_v2l (h_s C2 st2) ->
  hspec C1 st1 o1 d1 F -> hspec C2 st2 o2 d2 F ->
  hstep gt1 C1 cget1 cadd1 ce1 st1 o1 = Some st1' -> hstep gt2 C2 cget2 cadd2 ce2 st2 o2 = Some st2' ->
  exists r1 r2, hslot C1 st1' d1 = Some r1 /\ hslot C2 st2' d2 = Some r2 /\
    (forall a, bfun_of (h_s C1 st1') r1 a = F a) /\
    (forall a, bfun_of (h_s C2 st2') r2 a = F a) /\
    count_reach (h_s C1 st1') (E r1) = count_reach (h_s C2 st2') (E r2).
Proof. exact hist_result_determined. Qed.
Print Assumptions C01_hist_result_determined.

(* non-vacuity, on the computed state after the 24-call history [ex_ops] (Mgr/HistoryExamples.v):
   a clone holds the same edge; two different edges denote different functions *)
Theorem C01_hist_example :
  hget (s_handles (h_s acache ex_stA)) 5 = hget (s_handles (h_s acache ex_stA)) 14 /\
  forall e5 e7, hget (s_handles (h_s acache ex_stA)) 5 = Some e5 ->
                hget (s_handles (h_s acache ex_stA)) 7 = Some e7 ->
    ~ (forall a, bfun_of (h_s acache ex_stA) (eref e5) a = bfun_of (h_s acache ex_stA) (eref e7) a).
Proof. exact ex_canonA. Qed.
Print Assumptions C01_hist_example.

(* non-vacuity of [hspec] for the quantifier / restrict / substitute calls: instantiated in the
   state after the 24-call history (slot 1 holds the variable set {x1}, slot 10 the cube
   x0 /\ ~x2, substitution object 0 was created 10 calls, one collection and one reordering ago) *)
Theorem C01_hist_example_spec :
  (exists st', hstep gtA acache ac_get ac_add nil ex_stA (HQuant QExists 21 5 1) = Some st' /\
               holds acache st' 21 (exists_s (1 :: nil) fA5)) /\
  (exists st', hstep gtA acache ac_get ac_add nil ex_stA (HRestrict 21 5 10) = Some st' /\
               holds acache st' 21 (restrict_s ((0, true) :: (2, false) :: nil) fA5)) /\
  (exists st', hstep gtA acache ac_get ac_add nil ex_stA (HSubst 21 5 0) = Some st' /\
               length ex_rp = 2 /\
               holds acache st' 21
                 (subst_s (map (fun p : nat * ref => (fst p, bfun_of (h_s acache ex_stA) (snd p))) ex_rp) fA5)).
Proof. exact (conj ex_spec_quant (conj ex_spec_restrict ex_spec_subst)). Qed.
Print Assumptions C01_hist_example_spec.

(** ** ALL histories, complement-edge kind (HISTc): canonicity after any sequence of operations,
    handle drops, garbage collections, variable additions and reorderings (the BCDD manager state
    machine of Mgr/HistoryC.v; any edge order, any lossy cache).  A slot holds an EDGE: node
    reference AND complement tag; [cbfun_of] is [semc] read through [s_l2v]. *)
From OxiVerif Require Import DD.ApplyBcdd DD.ApplyBcddProofs DD.ApplyBcddEval
  Mgr.HistoryC Mgr.HistoryCProofs Mgr.HistoryCThms Mgr.HistoryCSpec Mgr.HistoryCExamples.

(* two handle slots hold the same edge IFF they denote the same function of the variables *)
Theorem C01_histc_canonical :
  forall (lt : edge -> edge -> bool) (C : Type) (cget : C -> N -> list edge -> option edge)
         (cadd : C -> N -> list edge -> edge -> C), lossyC cget cadd ->
  forall cempty : C, (forall k a, cget cempty k a = None) ->
  forall n st, hreach_c lt C cget cadd cempty n st ->
  forall x y ex ey,
    hget (s_handles (hc_s C st)) x = Some ex -> hget (s_handles (hc_s C st)) y = Some ey ->
    (ex = ey <-> forall a, cbfun_of (hc_s C st) ex a = cbfun_of (hc_s C st) ey a).
Proof. exact histc_canonical. Qed.
Print Assumptions C01_histc_canonical.

(* the same for every state satisfying the invariant *)
Theorem C01_histc_inv_canonical :
  forall (C : Type) (cget : C -> N -> list edge -> option edge) (st : hstate_c C), HInvC C cget st ->
  forall x y ex ey,
    hget (s_handles (hc_s C st)) x = Some ex -> hget (s_handles (hc_s C st)) y = Some ey ->
    (ex = ey <-> forall a, cbfun_of (hc_s C st) ex a = cbfun_of (hc_s C st) ey a).
Proof. exact hinvc_canonical. Qed.
Print Assumptions C01_histc_inv_canonical.

(* result correctness along histories: the destination holds the spec function [F] that [hspec_c]
   reads off the operands' FUNCTIONS, whatever happened before *)
Theorem C01_histc_spec :
  forall (lt : edge -> edge -> bool) (C : Type) (cget : C -> N -> list edge -> option edge)
         (cadd : C -> N -> list edge -> edge -> C), lossyC cget cadd ->
  forall cempty : C, (forall k a, cget cempty k a = None) ->
  forall st o d F, HInvC C cget st -> hspec_c C st o d F ->
  exists st', hstep_c lt C cget cadd cempty st o = Some st' /\ HInvC C cget st' /\
              hframe_c C st o st' /\ holds_c C st' d F.
Proof. exact hstep_c_spec. Qed.
Print Assumptions C01_histc_spec.

(* inside one manager: every slot that holds [F] afterwards holds the very edge that was returned *)
Theorem C01_histc_result_unique :
  forall (lt : edge -> edge -> bool) (C : Type) (cget : C -> N -> list edge -> option edge)
         (cadd : C -> N -> list edge -> edge -> C), lossyC cget cadd ->
  forall cempty : C, (forall k a, cget cempty k a = None) ->
  forall st o d F st', HInvC C cget st -> hspec_c C st o d F ->
  hstep_c lt C cget cadd cempty st o = Some st' ->
  forall y, holds_c C st' y F ->
  hget (s_handles (hc_s C st')) y = hget (s_handles (hc_s C st')) d.
Proof. exact histc_result_unique. Qed.
Print Assumptions C01_histc_result_unique.

(* across two managers (different histories, edge orders, cache implementations) with the same
   variable order: same spec function => same function, same complement tag, same node count *)
Theorem C01_histc_result_determined :
  forall (lt1 lt2 : edge -> edge -> bool) (C1 C2 : Type)
         (cget1 : C1 -> N -> list edge -> option edge) (cadd1 : C1 -> N -> list edge -> edge -> C1)
         (cget2 : C2 -> N -> list edge -> option edge) (cadd2 : C2 -> N -> list edge -> edge -> C2),
  lossyC cget1 cadd1 -> lossyC cget2 cadd2 ->
  forall (ce1 : C1) (ce2 : C2), (forall k a, cget1 ce1 k a = None) -> (forall k a, cget2 ce2 k a = None) ->
  forall st1 st2 o1 o2 d1 d2 F st1' st2',
  HInvC C1 cget1 st1 -> HInvC C2 cget2 st2 ->
  s_l2v (hc_s C1 st1) = s_l2v (hc_s C2 st2) -> s_v2l (hc_s C1 st1) = s_v2l (hc_s C2 st2) ->
  hspec_c C1 st1 o1 d1 F -> hspec_c C2 st2 o2 d2 F ->
  hstep_c lt1 C1 cget1 cadd1 ce1 st1 o1 = Some st1' -> hstep_c lt2 C2 cget2 cadd2 ce2 st2 o2 = Some st2' ->
  exists r1 r2, cslot C1 st1' d1 = Some r1 /\ cslot C2 st2' d2 = Some r2 /\
    (forall a, cbfun_of (hc_s C1 st1') r1 a = F a) /\
    (forall a, cbfun_of (hc_s C2 st2') r2 a = F a) /\
    etag r1 = etag r2 /\
    count_reach (hc_s C1 st1') r1 = count_reach (hc_s C2 st2') r2.
Proof. exact histc_result_determined. Qed.
Print Assumptions C01_histc_result_determined.

(* non-vacuity, on the computed state after the 26-call history [exc_ops] (Mgr/HistoryCExamples.v):
   a clone holds the same edge; not (equiv (xor f x3) x3) comes back to the edge of f; its negation
   is the same node with the other tag; two different edges denote different functions *)
Theorem C01_histc_example :
  hget (s_handles (hc_s eacache exc_stA)) 5 = hget (s_handles (hc_s eacache exc_stA)) 14 /\
  hget (s_handles (hc_s eacache exc_stA)) 5 = hget (s_handles (hc_s eacache exc_stA)) 19 /\
  option_map enot (hget (s_handles (hc_s eacache exc_stA)) 5) = hget (s_handles (hc_s eacache exc_stA)) 18 /\
  forall e5 e7, hget (s_handles (hc_s eacache exc_stA)) 5 = Some e5 ->
                hget (s_handles (hc_s eacache exc_stA)) 7 = Some e7 ->
    ~ (forall a, cbfun_of (hc_s eacache exc_stA) e5 a = cbfun_of (hc_s eacache exc_stA) e7 a).
Proof. exact exc_canonA. Qed.
Print Assumptions C01_histc_example.

(* non-vacuity of [hspec_c] for the quantifier / restrict / substitute calls: instantiated in the
   state after the 26-call history (slot 1 holds the variable set {x1}, slot 10 the cube
   x0 /\ ~x2 - a complemented edge -, substitution object 0 - with a complemented replacement
   edge - was created 12 calls, one collection and one reordering ago) *)
Theorem C01_histc_example_spec :
  (exists st', hstep_c ltA eacache eac_get eac_add nil exc_stA (HQuant QExists 21 5 1) = Some st' /\
               holds_c eacache st' 21 (exists_s (1 :: nil) gA5)) /\
  (exists st', hstep_c ltA eacache eac_get eac_add nil exc_stA (HRestrict 21 5 10) = Some st' /\
               holds_c eacache st' 21 (restrict_s ((0, true) :: (2, false) :: nil) gA5)) /\
  (exists st', hstep_c ltA eacache eac_get eac_add nil exc_stA (HSubst 21 5 0) = Some st' /\
               length exc_rp = 2 /\
               existsb (fun vr : nat * edge => etag (snd vr)) exc_rp = true /\
               holds_c eacache st' 21
                 (subst_s (map (fun p : nat * edge => (fst p, cbfun_of (hc_s eacache exc_stA) (snd p))) exc_rp) gA5)).
Proof. exact (conj exc_spec_quant (conj exc_spec_restrict exc_spec_subst)). Qed.
Print Assumptions C01_histc_example_spec.

(** ** ALL histories, ZBDD kind (HISTz, Mgr/HistoryZ.v): canonicity after any history, in terms of the
    function of the variables ([zbfun_of]) and of the family of sets of variables ([vmem]); the result of
    every call is determined by the operator, the operands' functions and the variable order *)
From Coq Require Import Bool List NArith PArith FMapPositive.
From OxiVerif Require Import DD.Sem DD.Build DD.Apply DD.ConfigApply DD.FamSpec DD.ZbddOps DD.ZbddOpsProofs DD.ZbddBool
  DD.ZbddBoolProofs DD.ZbddEvalProofs Mgr.LevelSwapZ Mgr.LevelSwapZProofs Mgr.HistoryExamples
  Mgr.HistoryZ Mgr.HistoryZBase Mgr.HistoryZCache Mgr.HistoryZFam Mgr.HistoryZProofs Mgr.HistoryZThms Mgr.HistoryZSpec Mgr.HistoryZTie
  Mgr.HistoryZExamples.

(* the property: after ANY history two slots hold the same edge iff they denote the same function of the variables *)
Theorem C01_histz_canonical :
  forall (gt : ref -> ref -> bool) (C : Type) (cget : C -> N -> list ref -> list nat -> option ref)
  (cadd : C -> N -> list ref -> list nat -> ref -> C),
  zlossy C cget cadd ->
  forall cempty : C,
  (forall (k : N) (a : list ref) (m : list nat), cget cempty k a m = None) ->
  forall (n : nat) (st : hstate_z C),
  hreach_z gt C cget cadd cempty n st ->
  forall (x y : N) (ex ey : edge),
  hget (s_handles (hz_s C st)) x = Some ex ->
  hget (s_handles (hz_s C st)) y = Some ey ->
  ex = ey <-> (forall a : asg, zbfun_of (hz_s C st) (eref ex) a = zbfun_of (hz_s C st) (eref ey) a).
Proof. exact histz_canonical. Qed.
Print Assumptions C01_histz_canonical.

(* ... iff they denote the same family of sets of variables *)
Theorem C01_histz_canonical_fam :
  forall (gt : ref -> ref -> bool) (C : Type) (cget : C -> N -> list ref -> list nat -> option ref)
  (cadd : C -> N -> list ref -> list nat -> ref -> C),
  zlossy C cget cadd ->
  forall cempty : C,
  (forall (k : N) (a : list ref) (m : list nat), cget cempty k a m = None) ->
  forall (n : nat) (st : hstate_z C),
  hreach_z gt C cget cadd cempty n st ->
  forall (x y : N) (ex ey : edge),
  hget (s_handles (hz_s C st)) x = Some ex ->
  hget (s_handles (hz_s C st)) y = Some ey ->
  ex = ey <-> (forall a : asg, vmem (hz_s C st) (eref ex) a <-> vmem (hz_s C st) (eref ey) a).
Proof. exact histz_canonical_fam. Qed.
Print Assumptions C01_histz_canonical_fam.

Theorem C01_histz_inv_canonical :
  forall (C : Type) (cget : C -> N -> list ref -> list nat -> option ref) (st : hstate_z C),
  HInvZ C cget st ->
  forall (x y : N) (ex ey : edge),
  hget (s_handles (hz_s C st)) x = Some ex ->
  hget (s_handles (hz_s C st)) y = Some ey ->
  ex = ey <-> (forall a : asg, zbfun_of (hz_s C st) (eref ex) a = zbfun_of (hz_s C st) (eref ey) a).
Proof. exact hinvz_canonical. Qed.
Print Assumptions C01_histz_inv_canonical.

(* after any history the destination holds the spec function of the operand FUNCTIONS *)
Theorem C01_histz_spec :
  forall (gt : ref -> ref -> bool) (C : Type) (cget : C -> N -> list ref -> list nat -> option ref)
  (cadd : C -> N -> list ref -> list nat -> ref -> C),
  zlossy C cget cadd ->
  forall cempty : C,
  (forall (k : N) (a : list ref) (m : list nat), cget cempty k a m = None) ->
  forall (st : hstate_z C) (o : zhop) (d : N) (F : bfun),
  HInvZ C cget st ->
  hspec_z C st o d F ->
  exists st' : hstate_z C,
  hstep_z gt C cget cadd cempty st o = Some st' /\ HInvZ C cget st' /\ hframe_z C st o st' /\ zholds C st' d F.
Proof. exact hstep_z_spec. Qed.
Print Assumptions C01_histz_spec.

(* inside one manager every slot holding that function holds the returned edge *)
Theorem C01_histz_result_unique :
  forall (gt : ref -> ref -> bool) (C : Type) (cget : C -> N -> list ref -> list nat -> option ref)
  (cadd : C -> N -> list ref -> list nat -> ref -> C),
  zlossy C cget cadd ->
  forall cempty : C,
  (forall (k : N) (a : list ref) (m : list nat), cget cempty k a m = None) ->
  forall (st : hstate_z C) (o : zhop) (d : N) (F : bfun) (st' : hstate_z C),
  HInvZ C cget st ->
  hspec_z C st o d F ->
  hstep_z gt C cget cadd cempty st o = Some st' ->
  forall y : N, zholds C st' y F -> hget (s_handles (hz_s C st')) y = hget (s_handles (hz_s C st')) d.
Proof. exact histz_result_unique. Qed.
Print Assumptions C01_histz_result_unique.

(* two managers, two configurations, arbitrary histories, the same variable order: same function, same node count *)
Theorem C01_histz_result_determined :
  forall (gt1 gt2 : ref -> ref -> bool) (C1 C2 : Type) (cget1 : C1 -> N -> list ref -> list nat -> option ref)
  (cadd1 : C1 -> N -> list ref -> list nat -> ref -> C1) (cget2 : C2 -> N -> list ref -> list nat -> option ref)
  (cadd2 : C2 -> N -> list ref -> list nat -> ref -> C2),
  zlossy C1 cget1 cadd1 ->
  zlossy C2 cget2 cadd2 ->
  forall (ce1 : C1) (ce2 : C2),
  (forall (k : N) (a : list ref) (m : list nat), cget1 ce1 k a m = None) ->
  (forall (k : N) (a : list ref) (m : list nat), cget2 ce2 k a m = None) ->
  forall (st1 : hstate_z C1) (st2 : hstate_z C2) (o1 o2 : zhop) (d1 d2 : N) (F : bfun) (st1' : hstate_z C1)
  (st2' : hstate_z C2),
  HInvZ C1 cget1 st1 ->
  HInvZ C2 cget2 st2 ->
  s_l2v (hz_s C1 st1) = s_l2v (hz_s C2 st2) ->
  s_v2l (hz_s C1 st1) = s_v2l (hz_s C2 st2) ->
  hspec_z C1 st1 o1 d1 F ->
  hspec_z C2 st2 o2 d2 F ->
  hstep_z gt1 C1 cget1 cadd1 ce1 st1 o1 = Some st1' ->
  hstep_z gt2 C2 cget2 cadd2 ce2 st2 o2 = Some st2' ->
  exists r1 r2 : ref,
  zslot C1 st1' d1 = Some r1 /\
  zslot C2 st2' d2 = Some r2 /\
  (forall a : asg, zbfun_of (hz_s C1 st1') r1 a = F a) /\
  (forall a : asg, zbfun_of (hz_s C2 st2') r2 a = F a) /\
  count_reach (hz_s C1 st1') (E r1) = count_reach (hz_s C2 st2') (E r2).
Proof. exact histz_result_determined. Qed.
Print Assumptions C01_histz_result_determined.

(* non-vacuity: a clone and a restriction recomputed after gc + reordering come back to the same edges; different edges denote different functions *)
Theorem C01_histz_example :
  hget (s_handles (hz_s zacache exz_stA)) 5 = hget (s_handles (hz_s zacache exz_stA)) 21 /\
  hget (s_handles (hz_s zacache exz_stA)) 9 = hget (s_handles (hz_s zacache exz_stA)) 22 /\
  (forall e5 e6 : edge,
  hget (s_handles (hz_s zacache exz_stA)) 5 = Some e5 ->
  hget (s_handles (hz_s zacache exz_stA)) 6 = Some e6 ->
  ~ (forall a : asg, zbfun_of (hz_s zacache exz_stA) (eref e5) a = zbfun_of (hz_s zacache exz_stA) (eref e6) a)).
Proof. exact exz_canonA. Qed.
Print Assumptions C01_histz_example.

(* the hypotheses of the spec for restrict (a cube given as a FUNCTION) and for change are satisfiable *)
Theorem C01_histz_example_spec :
  (exists st', hstep_z zgtA zacache zac_get zac_add nil exz_stA (ZHRestrict 31 5 8) = Some st' /\
  zholds zacache st' 31 (restrict_s ((0, true) :: (2, false) :: (3, false) :: nil) zfA5)) /\
  (exists st', hstep_z zgtA zacache zac_get zac_add nil exz_stA (ZHSub ZChange 31 5 3) = Some st' /\
  zholds zacache st' 31 (zsub_s ZChange 3 zfA5)).
Proof. exact (conj exz_spec_restrict exz_spec_change). Qed.
Print Assumptions C01_histz_example_spec.


(** ** ALL histories, MTBDD kind (HISTz part M, Mgr/HistoryM.v): canonicity after any history in terms of the
    value table over the variables ([mfun_of]); the result of every call is determined by the operator, the
    operands' functions and the variable order *)
From Coq Require Import Bool List NArith ZArith PArith FMapPositive.
From OxiVerif Require Import DD.Sem DD.Build DD.Apply DD.ApplyProofs DD.ConfigApply Num.I64 DD.ApplyMtbdd DD.ApplyMtbddBase
  DD.ApplyMtbddProofs DD.ApplyMtbddTop Mgr.HistoryExamples
  Mgr.HistoryM Mgr.HistoryMBase Mgr.HistoryMProofs Mgr.HistoryMThms Mgr.HistoryMSpec Mgr.HistoryMTie Mgr.HistoryMExamples.

(* the property: after ANY history two slots hold the same edge iff they denote the same function (value table) of the variables *)
Theorem C01_histm_canonical :
  forall (gt : ref -> ref -> bool) (C : Type) (cget : C -> N -> list ref -> option ref)
  (cadd : C -> N -> list ref -> ref -> C),
  lossy cget cadd ->
  forall cempty : C,
  (forall (k : N) (a : list ref), cget cempty k a = None) ->
  forall (n : nat) (st : hstate_m C),
  hreach_m gt C cget cadd cempty n st ->
  forall (x y : N) (ex ey : edge),
  hget (s_handles (hm_s C st)) x = Some ex ->
  hget (s_handles (hm_s C st)) y = Some ey ->
  ex = ey <-> (forall a : asg, mfun_of (hm_s C st) (eref ex) a = mfun_of (hm_s C st) (eref ey) a).
Proof. exact histm_canonical. Qed.
Print Assumptions C01_histm_canonical.

Theorem C01_histm_inv_canonical :
  forall (C : Type) (cget : C -> N -> list ref -> option ref) (st : hstate_m C),
  HInvM C cget st ->
  forall (x y : N) (ex ey : edge),
  hget (s_handles (hm_s C st)) x = Some ex ->
  hget (s_handles (hm_s C st)) y = Some ey ->
  ex = ey <-> (forall a : asg, mfun_of (hm_s C st) (eref ex) a = mfun_of (hm_s C st) (eref ey) a).
Proof. exact hinvm_canonical. Qed.
Print Assumptions C01_histm_inv_canonical.

(* after any history the destination holds the pointwise spec function of the operand FUNCTIONS *)
Theorem C01_histm_spec :
  forall (gt : ref -> ref -> bool) (C : Type) (cget : C -> N -> list ref -> option ref)
  (cadd : C -> N -> list ref -> ref -> C),
  lossy cget cadd ->
  forall cempty : C,
  (forall (k : N) (a : list ref), cget cempty k a = None) ->
  forall (st : hstate_m C) (o : mhop) (d : N) (F : asg -> i64v),
  HInvM C cget st ->
  hspec_m C st o d F ->
  exists st' : hstate_m C,
  hstep_m gt C cget cadd cempty st o = Some st' /\ HInvM C cget st' /\ hframe_m C st o st' /\ mholds C st' d F.
Proof. exact hstep_m_spec. Qed.
Print Assumptions C01_histm_spec.

Theorem C01_histm_result_unique :
  forall (gt : ref -> ref -> bool) (C : Type) (cget : C -> N -> list ref -> option ref)
  (cadd : C -> N -> list ref -> ref -> C),
  lossy cget cadd ->
  forall cempty : C,
  (forall (k : N) (a : list ref), cget cempty k a = None) ->
  forall (st : hstate_m C) (o : mhop) (d : N) (F : asg -> i64v) (st' : hstate_m C),
  HInvM C cget st ->
  hspec_m C st o d F ->
  hstep_m gt C cget cadd cempty st o = Some st' ->
  forall y : N, mholds C st' y F -> hget (s_handles (hm_s C st')) y = hget (s_handles (hm_s C st')) d.
Proof. exact histm_result_unique. Qed.
Print Assumptions C01_histm_result_unique.

(* two managers, two configurations, arbitrary histories, the same variable order: same function, same node count *)
Theorem C01_histm_result_determined :
  forall (gt1 gt2 : ref -> ref -> bool) (C1 C2 : Type) (cget1 : C1 -> N -> list ref -> option ref)
  (cadd1 : C1 -> N -> list ref -> ref -> C1) (cget2 : C2 -> N -> list ref -> option ref)
  (cadd2 : C2 -> N -> list ref -> ref -> C2),
  lossy cget1 cadd1 ->
  lossy cget2 cadd2 ->
  forall (ce1 : C1) (ce2 : C2),
  (forall (k : N) (a : list ref), cget1 ce1 k a = None) ->
  (forall (k : N) (a : list ref), cget2 ce2 k a = None) ->
  forall (st1 : hstate_m C1) (st2 : hstate_m C2) (o1 o2 : mhop) (d1 d2 : N) (F : asg -> i64v) (st1' : hstate_m C1)
  (st2' : hstate_m C2),
  HInvM C1 cget1 st1 ->
  HInvM C2 cget2 st2 ->
  s_l2v (hm_s C1 st1) = s_l2v (hm_s C2 st2) ->
  s_v2l (hm_s C1 st1) = s_v2l (hm_s C2 st2) ->
  hspec_m C1 st1 o1 d1 F ->
  hspec_m C2 st2 o2 d2 F ->
  hstep_m gt1 C1 cget1 cadd1 ce1 st1 o1 = Some st1' ->
  hstep_m gt2 C2 cget2 cadd2 ce2 st2 o2 = Some st2' ->
  exists r1 r2 : ref,
  mslot C1 st1' d1 = Some r1 /\
  mslot C2 st2' d2 = Some r2 /\
  (forall a : asg, mfun_of (hm_s C1 st1') r1 a = F a) /\
  (forall a : asg, mfun_of (hm_s C2 st2') r2 a = F a) /\
  count_reach (hm_s C1 st1') (E r1) = count_reach (hm_s C2 st2') (E r2).
Proof. exact histm_result_determined. Qed.
Print Assumptions C01_histm_result_determined.

(* same function => isomorphic diagrams, in particular the same node count *)
Theorem C01_histm_iso :
  forall s1 s2 : snap,
  MtOK s1 ->
  MtOK s2 ->
  nlevels s1 = nlevels s2 ->
  forall (r1 r2 : ref) (phi : mfun), DenM s1 r1 phi -> DenM s2 r2 phi -> count_reach s1 (E r1) = count_reach s2 (E r2).
Proof. exact count_reach_denm. Qed.
Print Assumptions C01_histm_iso.

Theorem C01_histm_example :
  hget (s_handles (hm_s acache exm_stA)) 5 = hget (s_handles (hm_s acache exm_stA)) 15 /\
  hget (s_handles (hm_s acache exm_stA)) 14 = hget (s_handles (hm_s acache exm_stA)) 16 /\
  (forall e5 e7 : edge,
  hget (s_handles (hm_s acache exm_stA)) 5 = Some e5 ->
  hget (s_handles (hm_s acache exm_stA)) 7 = Some e7 ->
  ~ (forall a : asg, mfun_of (hm_s acache exm_stA) (eref e5) a = mfun_of (hm_s acache exm_stA) (eref e7) a)).
Proof. exact exm_canonA. Qed.
Print Assumptions C01_histm_example.

(* the hypotheses of the spec for restrict are satisfiable (cube x0 * (1 - x2) after the reordering) *)
Theorem C01_histm_example_spec :
  exists (st' : hstate_m acache) (lits : list (nat * bool)),
  cube_lits 5 (hm_s acache exm_stA) (mslot_ref acache exm_stA 13) = Some lits /\
  lits = (0, false) :: (1, true) :: nil /\
  hstep_m mgtA acache ac_get ac_add nil exm_stA (MHRestrict 31 5 13) = Some st' /\
  mholds acache st' 31 (fun a : asg => mfA5 (force_asg (hm_s acache exm_stA) lits a)).
Proof. exact exm_spec_restrict. Qed.
Print Assumptions C01_histm_example_spec.


(** ** TDD (package TDDx): canonicity for three-valued decision diagrams on every snapshot accepted by
    [td_ok_b] (= TdOK: the C03 invariant for ternary nodes + exactly the terminals False / Unknown / True),
    in terms of functions of three-valued assignments of the VARIABLES ([tfun_of], DD/ApplyTddTop.v) and of
    the finite value table [td_vtable] (DD/TddAudit.v) the driver compares; and after ANY history of the TDD
    manager state machine Mgr/TddHist.v (constants, variables, not, the 8 connectives, ite, cofactors,
    clone / drop, gc, add_vars; any edge order, any lossy cache). *)
From Coq Require Import List NArith PArith Bool Arith FMapPositive.
From OxiVerif Require Import DD.Table DD.TableExtra DD.TableProofs DD.Build DD.Apply DD.ApplyProofs DD.ConfigApply
  DD.Tdd DD.ApplyTdd DD.ApplyTddBase DD.ApplyTddProofs DD.ApplyTddTop DD.TddAudit DD.TddAuditProofs
  Mgr.History Mgr.TddHist Mgr.TddHistProofs Mgr.TddHistSim Mgr.TddHistExamples.
Import ListNotations.

(* two references are equal IFF they denote the same three-valued function of the variables *)
Theorem C01_tdd_canon_tfun : forall s r1 r2, TdOK s -> ref_ok s r1 -> ref_ok s r2 ->
  (r1 = r2 <-> forall av : nat -> tri, tfun_of s r1 av = tfun_of s r2 av).
Proof. exact td_canon_tfun. Qed.
Print Assumptions C01_tdd_canon_tfun.

(* ... IFF their value tables over the 3^n assignments of the n variables are equal (the comparison the
   driver performs decides equality of the functions) *)
Theorem C01_tdd_canon_vtable : forall s r1 r2, TdOK s -> ref_ok s r1 -> ref_ok s r2 ->
  (r1 = r2 <-> td_vtable s r1 = td_vtable s r2).
Proof. exact td_vtable_canon. Qed.
Print Assumptions C01_tdd_canon_vtable.

(* handles: == (same edge) iff same value table / same function *)
Theorem C01_tdd_canon_handles : forall s, TdOK s ->
  forall h1 h2, In h1 (s_handles s) -> In h2 (s_handles s) ->
  (snd h1 = snd h2 <-> td_vtable s (eref (snd h1)) = td_vtable s (eref (snd h2))).
Proof. exact td_canon_handles. Qed.
Print Assumptions C01_tdd_canon_handles.

Theorem C01_tdd_canon_handles_tfun : forall s, TdOK s ->
  forall h1 h2, In h1 (s_handles s) -> In h2 (s_handles s) ->
  (snd h1 = snd h2 <-> forall av : nat -> tri, tfun_of s (eref (snd h1)) av = tfun_of s (eref (snd h2)) av).
Proof. exact td_canon_handles_tfun. Qed.
Print Assumptions C01_tdd_canon_handles_tfun.

(* the table: 3^n entries, none undefined, entry i = the value under the assignment whose value at variable v
   is digit v of i in base 3 (0 true, 1 unknown, 2 false); [td_value] is the function [tfun_of] *)
Theorem C01_tdd_vtable_shape : forall s r, TdOK s -> ref_ok s r ->
  length (td_vtable s r) = 3 ^ nlevels s /\ ~ In None (td_vtable s r) /\
  (forall av, td_value s r av = Some (tfun_of s r av)) /\
  forall i, i < 3 ^ nlevels s ->
    exists a, nth_error (td_vtable s r) i = Some (td_value s r a) /\
              forall v, a v = if Nat.ltb v (nlevels s) then tri_of_digit ((i / 3 ^ v) mod 3) else TT.
Proof. exact td_vtable_shape. Qed.
Print Assumptions C01_tdd_vtable_shape.

(* after ANY history from a fresh manager: two slots hold the same edge IFF same function / same table *)
Theorem C01_tdd_hist_canonical :
  forall (gt : ref -> ref -> bool) (C : Type) (cget : C -> N -> list ref -> option ref)
         (cadd : C -> N -> list ref -> ref -> C) (cempty : C),
  lossy cget cadd -> (forall k a, cget cempty k a = None) ->
  forall n st, treach gt C cget cadd cempty n st ->
  forall x y ex ey, hget (s_handles (t_s C st)) x = Some ex -> hget (s_handles (t_s C st)) y = Some ey ->
  (ex = ey <-> forall av : nat -> tri, tfun_of (t_s C st) (eref ex) av = tfun_of (t_s C st) (eref ey) av).
Proof. exact thist_canonical. Qed.
Print Assumptions C01_tdd_hist_canonical.

Theorem C01_tdd_hist_canonical_vtable :
  forall (gt : ref -> ref -> bool) (C : Type) (cget : C -> N -> list ref -> option ref)
         (cadd : C -> N -> list ref -> ref -> C) (cempty : C),
  lossy cget cadd -> (forall k a, cget cempty k a = None) ->
  forall n st, treach gt C cget cadd cempty n st ->
  forall x y ex ey, hget (s_handles (t_s C st)) x = Some ex -> hget (s_handles (t_s C st)) y = Some ey ->
  (ex = ey <-> td_vtable (t_s C st) (eref ex) = td_vtable (t_s C st) (eref ey)).
Proof. exact thist_canonical_vtable. Qed.
Print Assumptions C01_tdd_hist_canonical_vtable.

(* the same for every state satisfying the invariant *)
Theorem C01_tdd_hist_inv_canonical :
  forall (C : Type) (cget : C -> N -> list ref -> option ref) (st : tstate C), TInv C cget st ->
  forall x y ex ey, hget (s_handles (t_s C st)) x = Some ex -> hget (s_handles (t_s C st)) y = Some ey ->
  (ex = ey <-> forall av : nat -> tri, tfun_of (t_s C st) (eref ex) av = tfun_of (t_s C st) (eref ey) av).
Proof. exact tinv_canonical. Qed.
Print Assumptions C01_tdd_hist_inv_canonical.

(* the result of a call is determined by its function: every slot holding that function holds that edge *)
Theorem C01_tdd_hist_result_unique :
  forall (gt : ref -> ref -> bool) (C : Type) (cget : C -> N -> list ref -> option ref)
         (cadd : C -> N -> list ref -> ref -> C) (cempty : C),
  lossy cget cadd -> (forall k a, cget cempty k a = None) ->
  forall (st : tstate C) o st', TInv C cget st -> top_pre C st o ->
  tstep gt C cget cadd cempty st o = Some st' ->
  forall d y ed ey, hget (s_handles (t_s C st')) d = Some ed -> hget (s_handles (t_s C st')) y = Some ey ->
  (forall av : nat -> tri, tfun_of (t_s C st') (eref ey) av = tfun_of (t_s C st') (eref ed) av) -> ey = ed.
Proof. exact thist_result_unique. Qed.
Print Assumptions C01_tdd_hist_result_unique.

(* what every call stores: the connective's fixed table applied to the operands' FUNCTIONS at call time *)
Theorem C01_tdd_hist_spec :
  forall (gt : ref -> ref -> bool) (C : Type) (cget : C -> N -> list ref -> option ref)
         (cadd : C -> N -> list ref -> ref -> C) (cempty : C),
  lossy cget cadd -> (forall k a, cget cempty k a = None) ->
  forall (st : tstate C) o, TInv C cget st -> top_pre C st o ->
  exists st', tstep gt C cget cadd cempty st o = Some st' /\ TInv C cget st' /\
              tframe C st o st' /\ tpost C st o st'.
Proof. exact tstep_ok. Qed.
Print Assumptions C01_tdd_hist_spec.

(* non-vacuity: a hand-written snapshot with two different functions; a 17-call history with every
   constructor: a clone and a second derivation (nand / not and) hold the same edge, different functions
   different edges *)
Theorem C01_tdd_example :
  (td_ok_b ex_t3 = true /\ td_vtable ex_t3 (RN 2) <> td_vtable ex_t3 (RN 1)) /\
  hget (s_handles (t_s _ ex_stA)) 8 = hget (s_handles (t_s _ ex_stA)) 6 /\
  hget (s_handles (t_s _ ex_stA)) 7 = hget (s_handles (t_s _ ex_stA)) 6 /\
  hget (s_handles (t_s _ ex_stA)) 13 <> hget (s_handles (t_s _ ex_stA)) 14.
Proof. exact ex_c01. Qed.
Print Assumptions C01_tdd_example.

(* ------------------------------------------------------------------------------------------------
   STORECONC: the store-level reason why equal ids mean equal nodes.  In the composed model
   Mgr/Core.v (unique table of Conc.v on the store of IndexStore.v on the allocator of Alloc.v) the id
   that `get_or_insert` gives a new node is named by nothing: no table entry, no hash-table edge, no
   token of any thread, no child edge of a stored node, no edge value of the store (ALLOC's
   "a slot handed out held no node" + the link invariant + Conc's invariant) *)
From OxiVerif Require Mgr.IndexStore Mgr.Core Mgr.CoreProofs Mgr.CoreThms.

Theorem C01_core_ids_unambiguous : forall k terms nl c s tid lvl ch s' id rs,
  CoreProofs.KInv k terms nl c s ->
  Core.kstep k terms nl c s (Core.KGoi tid lvl ch) = Some (s', Core.KRNew id, rs) ->
  Conc.cfind (Core.k_cn s) id = None /\ Core.hfind id (Core.k_hd s) = None /\
  (forall x, In x (Core.k_tok s) -> Table.eref (snd (fst x)) <> Table.RN id) /\
  (forall j nd e, Conc.cfind (Core.k_cn s) j = Some nd -> In e (Conc.cch nd) -> Table.eref e <> Table.RN id) /\
  (forall h, RcStore.afind h (IndexStore.i_hs (Core.k_i s)) <> Some (Npos id)) /\
  (exists pa, rs = [IndexStore.IRAdded (Npos id) pa]) /\
  Conc.cfind (Core.k_cn s') id = Some (Conc.mkC lvl ch 1%N).
Proof. exact CoreThms.ids_unambiguous. Qed.
Print Assumptions C01_core_ids_unambiguous.
