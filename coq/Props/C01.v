(** C01 — property theorems only (proved in DD/Canon*.v). *)
From Coq Require Import List NArith.
From OxiVerif Require Import DD.Table DD.TableExtra DD.TableProofs
  DD.Canon DD.CanonBcdd DD.CanonZbdd DD.CanonAll.

(* all kinds: two handles hold the same edge iff they mean the same function *)
Theorem C01_canon_handles : forall s, WF s /\ terms_kind s ->
  forall h1 h2, In h1 (s_handles s) -> In h2 (s_handles s) ->
  (snd h1 = snd h2 <->
   forall c, (forall l, c l < arity (s_kind s)) ->
     sem_edge s (snd h1) c = sem_edge s (snd h2) c).
Proof. exact canon_handles. Qed.
Print Assumptions C01_canon_handles.

(* all kinds: the same for arbitrary existing edges *)
Theorem C01_canon_edges : forall s, WF s /\ terms_kind s ->
  forall e1 e2, ref_ok s (eref e1) -> ref_ok s (eref e2) ->
  (s_kind s <> KBcdd -> etag e1 = false /\ etag e2 = false) ->
  (e1 = e2 <->
   forall c, (forall l, c l < arity (s_kind s)) -> sem_edge s e1 c = sem_edge s e2 c).
Proof. exact canon_edges. Qed.
Print Assumptions C01_canon_edges.

(* k-ary kinds (BDD, MTBDD, TDD): references with equal meaning are equal *)
Theorem C01_canon_kary : forall s, WF s -> s_kind s <> KBcdd /\ s_kind s <> KZbdd ->
  forall r1 r2, ref_ok s r1 -> ref_ok s r2 ->
  (r1 = r2 <->
   forall c, (forall l, c l < arity (s_kind s)) ->
     semk s (S (nlevels s)) r1 c = semk s (S (nlevels s)) r2 c).
Proof. exact canon_kary. Qed.
Print Assumptions C01_canon_kary.

Theorem C01_canon_kary_handles : forall s, WF s -> s_kind s <> KBcdd /\ s_kind s <> KZbdd ->
  forall h1 h2, In h1 (s_handles s) -> In h2 (s_handles s) ->
  (snd h1 = snd h2 <->
   forall c, (forall l, c l < arity (s_kind s)) ->
     sem_edge s (snd h1) c = sem_edge s (snd h2) c).
Proof. exact canon_kary_handles. Qed.
Print Assumptions C01_canon_kary_handles.

(* BCDD: edges (reference and complement tag) with equal meaning are equal *)
Theorem C01_canon_bcdd : forall s, WF s -> s_kind s = KBcdd -> terms_kind s ->
  forall e1 e2, ref_ok s (eref e1) -> ref_ok s (eref e2) ->
  (e1 = e2 <->
   forall c, (forall l, c l < arity (s_kind s)) ->
     semc s (S (nlevels s)) e1 c = semc s (S (nlevels s)) e2 c).
Proof. exact canon_bcdd. Qed.
Print Assumptions C01_canon_bcdd.

Theorem C01_canon_bcdd_handles : forall s, WF s -> s_kind s = KBcdd -> terms_kind s ->
  forall h1 h2, In h1 (s_handles s) -> In h2 (s_handles s) ->
  (snd h1 = snd h2 <->
   forall c, (forall l, c l < arity (s_kind s)) ->
     sem_edge s (snd h1) c = sem_edge s (snd h2) c).
Proof. exact canon_bcdd_handles. Qed.
Print Assumptions C01_canon_bcdd_handles.

(* ZBDD: references with equal Boolean view over all levels are equal *)
Theorem C01_canon_zbdd : forall s, WF s -> s_kind s = KZbdd -> terms_kind s ->
  forall r1 r2, ref_ok s r1 -> ref_ok s r2 ->
  (r1 = r2 <->
   forall c, (forall l, c l < arity (s_kind s)) ->
     semz s (S (nlevels s)) 0 r1 c = semz s (S (nlevels s)) 0 r2 c).
Proof. exact canon_zbdd. Qed.
Print Assumptions C01_canon_zbdd.

(* ZBDD, generalised to the view from any common level *)
Theorem C01_canon_zbdd_from : forall s, WF s -> s_kind s = KZbdd -> terms_kind s ->
  forall lvl r1 r2, ref_ok s r1 -> ref_ok s r2 ->
  lvl <= rlevel s r1 -> lvl <= rlevel s r2 ->
  (r1 = r2 <->
   forall c, (forall l, c l < arity (s_kind s)) ->
     semz s (S (nlevels s)) lvl r1 c = semz s (S (nlevels s)) lvl r2 c).
Proof. exact canon_zbdd_from. Qed.
Print Assumptions C01_canon_zbdd_from.

Theorem C01_canon_zbdd_handles : forall s, WF s -> s_kind s = KZbdd -> terms_kind s ->
  forall h1 h2, In h1 (s_handles s) -> In h2 (s_handles s) ->
  (snd h1 = snd h2 <->
   forall c, (forall l, c l < arity (s_kind s)) ->
     sem_edge s (snd h1) c = sem_edge s (snd h2) c).
Proof. exact canon_zbdd_handles. Qed.
Print Assumptions C01_canon_zbdd_handles.

(* the BCDD / ZBDD hypotheses are satisfiable (concrete snapshots with inner nodes) *)
Theorem C01_example_bcdd : WF ex_bcdd /\ terms_kind ex_bcdd.
Proof. exact (proj1 (wf_full_b_spec ex_bcdd) (proj1 ex_bcdd_ok)). Qed.
Print Assumptions C01_example_bcdd.

Theorem C01_example_zbdd : WF ex_zbdd /\ terms_kind ex_zbdd.
Proof. exact (proj1 (wf_full_b_spec ex_zbdd) (proj1 ex_zbdd_ok)). Qed.
Print Assumptions C01_example_zbdd.

Theorem C01_example_bdd : WF ex_snap /\ terms_kind ex_snap.
Proof. exact ex_snap_WFfull. Qed.
Print Assumptions C01_example_bdd.
