(** C01 — property theorems only (proved in DD/Canon*.v). *)
From Coq Require Import List NArith.
From OxiVerif Require Import DD.Table DD.TableExtra DD.TableProofs DD.Canon.

(* k-ary kinds (BDD, MTBDD, TDD): references with equal meaning are equal *)
Theorem C01_canon_kary : forall s, WF s -> kary (s_kind s) ->
  forall r1 r2, ref_ok s r1 -> ref_ok s r2 ->
  (r1 = r2 <->
   forall c, choice_ok s c -> semk s (S (nlevels s)) r1 c = semk s (S (nlevels s)) r2 c).
Proof. exact canon_kary. Qed.
Print Assumptions C01_canon_kary.

Theorem C01_canon_kary_handles : forall s, WF s -> kary (s_kind s) ->
  forall h1 h2, In h1 (s_handles s) -> In h2 (s_handles s) ->
  (snd h1 = snd h2 <->
   forall c, choice_ok s c -> sem_edge s (snd h1) c = sem_edge s (snd h2) c).
Proof. exact canon_kary_handles. Qed.
Print Assumptions C01_canon_kary_handles.
