(** C02 — property theorems for the plain BDD kind (proved in DD/BuildProofs.v,
    DD/ApplyProofs.v, DD/ApplyEvalProofs.v; models in DD/Build.v, DD/Apply.v). *)
From Coq Require Import List NArith PArith Bool Arith FMapPositive.
From OxiVerif Require Import DD.Table DD.TableProofs DD.Canon DD.Sem DD.Build DD.BuildProofs
  DD.Apply DD.ApplyProofs DD.ApplyEvalProofs DD.ApplyExamples.
Import ListNotations.

(** the spec of [imp_strict] is the strict reading of implication: [a < b] *)
Theorem C02_imp_strict_spec : forall x y, eval_bop OImpStrict x y = negb (implb y x).
Proof. intros [] []; reflexivity. Qed.
Print Assumptions C02_imp_strict_spec.

(** the executable checker decides the invariant assumed below *)
Theorem C02_bdd_ok_b_spec : forall s, bdd_ok_b s = true <-> BddOK s.
Proof. exact bdd_ok_b_spec. Qed.
Print Assumptions C02_bdd_ok_b_spec.

(** node construction ([reduce] + [get_or_insert]) *)
Theorem C02_mk_node_wf : forall s lvl ch s' e,
  WF s -> kary (s_kind s) -> lvl < nlevels s -> children_ok s lvl ch ->
  mk_node s lvl ch = (s', e) ->
  WF s' /\ extends s s' /\ ref_ok s' (eref e) /\ etag e = false /\
  (forall f r c, ref_ok s r -> semk s' f r c = semk s f r c) /\
  (forall c i ci, c lvl = i -> nth_error ch i = Some ci ->
     semk s' (S (nlevels s')) (eref e) c = semk s (S (nlevels s)) (eref ci) c) /\
  lvl <= rlevel s' (eref e).
Proof. exact mk_node_wf. Qed.
Print Assumptions C02_mk_node_wf.

(** every case of [terminal_bin] (all 8 operators, the [f == g] short-cuts,
    operand swaps, [Not] results) agrees with the connective *)
Theorem C02_terminal_bin_sound : forall gt s op f g phi psi,
  BddOK s -> Den s f phi -> Den s g psi ->
  match terminal_bin gt s op f g with
  | TDone r => Den s r (fun c => eval_bop op (phi c) (psi c))
  | TNot r => (r = f \/ r = g) /\
              exists rho, Den s r rho /\
                forall c, bchoice c -> eval_bop op (phi c) (psi c) = negb (rho c)
  | TBin o a b => o = op /\ (exists idf, f = RN idf) /\ (exists idg, g = RN idg) /\
                  ((a = f /\ b = g) \/
                   (a = g /\ b = f /\ forall x y, eval_bop op x y = eval_bop op y x))
  | TFail => False
  end.
Proof. exact terminal_bin_sound. Qed.
Print Assumptions C02_terminal_bin_sound.

(** not *)
Theorem C02_apply_not_sound : forall C cget cadd, lossy cget cadd ->
  forall fuel s (c : C) f,
  BddOK s -> CacheOK cget s c -> ref_ok s f -> S (nlevels s) <= fuel ->
  exists s' c' r, apply_not C cget cadd fuel s c f = Some (s', c', r) /\
    BddOK s' /\ extends s s' /\ CacheOK cget s' c' /\ ref_ok s' r /\
    forall c0, bchoice c0 -> exists x,
      semk s (S (nlevels s)) f c0 = Some (b2c x) /\
      semk s' (S (nlevels s')) r c0 = Some (b2c (negb x)).
Proof. exact apply_not_sound. Qed.
Print Assumptions C02_apply_not_sound.

(** and, or, nand, nor, xor, equiv, imp, imp_strict *)
Theorem C02_apply_bin_sound : forall gt C cget cadd, lossy cget cadd ->
  forall op fuel s (c : C) f g,
  BddOK s -> CacheOK cget s c -> ref_ok s f -> ref_ok s g -> S (nlevels s) <= fuel ->
  exists s' c' r, apply_bin gt C cget cadd fuel s c op f g = Some (s', c', r) /\
    BddOK s' /\ extends s s' /\ CacheOK cget s' c' /\ ref_ok s' r /\
    forall c0, bchoice c0 -> exists x y,
      semk s (S (nlevels s)) f c0 = Some (b2c x) /\
      semk s (S (nlevels s)) g c0 = Some (b2c y) /\
      semk s' (S (nlevels s')) r c0 = Some (b2c (eval_bop op x y)).
Proof. exact apply_bin_sound. Qed.
Print Assumptions C02_apply_bin_sound.

(** ite *)
Theorem C02_apply_ite_sound : forall gt C cget cadd, lossy cget cadd ->
  forall fuel s (c : C) f g h,
  BddOK s -> CacheOK cget s c -> ref_ok s f -> ref_ok s g -> ref_ok s h ->
  S (nlevels s) <= fuel ->
  exists s' c' r, apply_ite gt C cget cadd fuel s c f g h = Some (s', c', r) /\
    BddOK s' /\ extends s s' /\ CacheOK cget s' c' /\ ref_ok s' r /\
    forall c0, bchoice c0 -> exists x y z,
      semk s (S (nlevels s)) f c0 = Some (b2c x) /\
      semk s (S (nlevels s)) g c0 = Some (b2c y) /\
      semk s (S (nlevels s)) h c0 = Some (b2c z) /\
      semk s' (S (nlevels s')) r c0 = Some (b2c (if x then y else z)).
Proof. exact apply_ite_sound. Qed.
Print Assumptions C02_apply_ite_sound.

(** constants *)
Theorem C02_mk_const_sem : forall s b, BddOK s ->
  exists r, mk_const s b = Some r /\ Den s r (fun _ => b).
Proof. exact mk_const_sem. Qed.
Print Assumptions C02_mk_const_sem.

(** the variable constructors ([neg = true]: the negated variable), as Boolean
    functions of assignments *)
Theorem C02_mk_var_bfun : forall s v neg, BddOK s -> v < nlevels s ->
  exists s' r, mk_var s v neg = Some (s', r) /\ BddOK s' /\ extends s s' /\ ref_ok s' r /\
    forall a, bfun_of s' r a = xorb neg (var_s v a).
Proof. exact mk_var_bfun. Qed.
Print Assumptions C02_mk_var_bfun.

(** eval: the walk of [eval_edge] is the node-by-node interpretation *)
Theorem C02_eval_walk_sem : forall s, WF s -> forall fuel r ch,
  eval_walk fuel s r ch =
  option_map (fun v => N.eqb v 1) (semk s fuel r (fun l => if ch l then 1 else 0)).
Proof. exact eval_walk_sem. Qed.
Print Assumptions C02_eval_walk_sem.

Theorem C02_eval_edge_assignment : forall s r (a : asg) args, BddOK s -> ref_ok s r ->
  (forall v b, In (v, b) args -> b = a v /\ v < nlevels s) ->
  (forall v, v < nlevels s -> In v (map fst args)) ->
  eval_edge s r args = Some (bfun_of s r a).
Proof. exact eval_edge_assignment. Qed.
Print Assumptions C02_eval_edge_assignment.

(** cofactors = the two Shannon cofactors w.r.t. the top-most variable *)
Theorem C02_cofactors_cof : forall s r t e, BddOK s -> ref_ok s r ->
  cofactors s r = Some (t, e) ->
  exists v, nth_error (s_l2v s) (rlevel s r) = Some v /\
    forall a, bfun_of s t a = cof (bfun_of s r) v true a /\
              bfun_of s e a = cof (bfun_of s r) v false a.
Proof. exact cofactors_cof. Qed.
Print Assumptions C02_cofactors_cof.

(** the operators in terms of Boolean functions of assignments ([Sem.lift2]) *)
Theorem C02_apply_bin_bfun : forall gt C cget cadd, lossy cget cadd ->
  forall op s (c : C) f g,
  BddOK s -> CacheOK cget s c -> ref_ok s f -> ref_ok s g ->
  exists s' c' r, apply_bin gt C cget cadd (S (nlevels s)) s c op f g = Some (s', c', r) /\
    BddOK s' /\ extends s s' /\
    forall a, bfun_of s' r a = lift2 op (bfun_of s f) (bfun_of s g) a.
Proof. exact apply_bin_bfun. Qed.
Print Assumptions C02_apply_bin_bfun.

(** the hypotheses are satisfiable and the algorithms run *)
Theorem C02_example :
  BddOK ex_snap /\ CacheOK ac_get ex_snap [] /\ lossy ac_get ac_add /\
  nodes_of (apply_bin gt_id acache ac_get ac_add (S (nlevels ex_snap)) ex_snap [] OAnd (RN 3) (RN 1)) =
  Some ([(4%positive, mkNode 0 [E (RN 1); E (RT 0)] 0 0);
         (2%positive, mkNode 1 [E (RT 0); E (RT 1)] 1 1);
         (1%positive, mkNode 1 [E (RT 1); E (RT 0)] 1 1);
         (3%positive, mkNode 0 [E (RN 1); E (RN 2)] 0 1)], RN 4).
Proof. exact (conj ex_snap_bdd_ok (conj ex_cache_ok (conj ac_lossy ex_apply_and))). Qed.
Print Assumptions C02_example.
