(** C02 — property theorems (placeholder until DD/ApplyProofs.v lands). *)
From OxiVerif Require Import DD.Sem.
From Coq Require Import Bool.

(** the spec of [imp_strict] is the strict reading of implication: [a < b] *)
Theorem C02_imp_strict_spec : forall x y, eval_bop OImpStrict x y = negb (implb y x).
Proof. intros [] []; reflexivity. Qed.
Print Assumptions C02_imp_strict_spec.
