(** C02 — property theorems for the plain BDD kind (proved in DD/BuildProofs.v,
    DD/ApplyProofs.v, DD/ApplyEvalProofs.v; models in DD/Build.v, DD/Apply.v). *)
From Coq Require Import List NArith PArith Bool Arith FMapPositive.
From OxiVerif Require Import DD.Table DD.TableProofs DD.Canon DD.Sem DD.Build DD.BuildProofs
  DD.Apply DD.ApplyProofs DD.ApplyEvalProofs DD.ApplyExamples.
Import ListNotations.

(** the spec of [imp_strict] is the strict reading of implication: [a < b] *)
Theorem C02_imp_strict_spec : forall x y, eval_bop OImpStrict x y = negb (implb y x).
Proof. intros [] []; reflexivity. Qed.
Print Assumptions C02_imp_strict_spec.

(** the executable checker decides the invariant assumed below *)
Theorem C02_bdd_ok_b_spec : forall s, bdd_ok_b s = true <-> BddOK s.
Proof. exact bdd_ok_b_spec. Qed.
Print Assumptions C02_bdd_ok_b_spec.

(** node construction ([reduce] + [get_or_insert]) *)
Theorem C02_mk_node_wf : forall s lvl ch s' e,
  WF s -> kary (s_kind s) -> lvl < nlevels s -> children_ok s lvl ch ->
  mk_node s lvl ch = (s', e) ->
  WF s' /\ extends s s' /\ ref_ok s' (eref e) /\ etag e = false /\
  (forall f r c, ref_ok s r -> semk s' f r c = semk s f r c) /\
  (forall c i ci, c lvl = i -> nth_error ch i = Some ci ->
     semk s' (S (nlevels s')) (eref e) c = semk s (S (nlevels s)) (eref ci) c) /\
  lvl <= rlevel s' (eref e).
Proof. exact mk_node_wf. Qed.
Print Assumptions C02_mk_node_wf.

(** every case of [terminal_bin] (all 8 operators, the [f == g] short-cuts,
    operand swaps, [Not] results) agrees with the connective *)
Theorem C02_terminal_bin_sound : forall gt s op f g phi psi,
  BddOK s -> Den s f phi -> Den s g psi ->
  match terminal_bin gt s op f g with
  | TDone r => Den s r (fun c => eval_bop op (phi c) (psi c))
  | TNot r => (r = f \/ r = g) /\
              exists rho, Den s r rho /\
                forall c, bchoice c -> eval_bop op (phi c) (psi c) = negb (rho c)
  | TBin o a b => o = op /\ (exists idf, f = RN idf) /\ (exists idg, g = RN idg) /\
                  ((a = f /\ b = g) \/
                   (a = g /\ b = f /\ forall x y, eval_bop op x y = eval_bop op y x))
  | TFail => False
  end.
Proof. exact terminal_bin_sound. Qed.
Print Assumptions C02_terminal_bin_sound.

(** not *)
Theorem C02_apply_not_sound : forall C cget cadd, lossy cget cadd ->
  forall fuel s (c : C) f,
  BddOK s -> CacheOK cget s c -> ref_ok s f -> S (nlevels s) <= fuel ->
  exists s' c' r, apply_not C cget cadd fuel s c f = Some (s', c', r) /\
    BddOK s' /\ extends s s' /\ CacheOK cget s' c' /\ ref_ok s' r /\
    forall c0, bchoice c0 -> exists x,
      semk s (S (nlevels s)) f c0 = Some (b2c x) /\
      semk s' (S (nlevels s')) r c0 = Some (b2c (negb x)).
Proof. exact apply_not_sound. Qed.
Print Assumptions C02_apply_not_sound.

(** and, or, nand, nor, xor, equiv, imp, imp_strict *)
Theorem C02_apply_bin_sound : forall gt C cget cadd, lossy cget cadd ->
  forall op fuel s (c : C) f g,
  BddOK s -> CacheOK cget s c -> ref_ok s f -> ref_ok s g -> S (nlevels s) <= fuel ->
  exists s' c' r, apply_bin gt C cget cadd fuel s c op f g = Some (s', c', r) /\
    BddOK s' /\ extends s s' /\ CacheOK cget s' c' /\ ref_ok s' r /\
    forall c0, bchoice c0 -> exists x y,
      semk s (S (nlevels s)) f c0 = Some (b2c x) /\
      semk s (S (nlevels s)) g c0 = Some (b2c y) /\
      semk s' (S (nlevels s')) r c0 = Some (b2c (eval_bop op x y)).
Proof. exact apply_bin_sound. Qed.
Print Assumptions C02_apply_bin_sound.

(** ite *)
Theorem C02_apply_ite_sound : forall gt C cget cadd, lossy cget cadd ->
  forall fuel s (c : C) f g h,
  BddOK s -> CacheOK cget s c -> ref_ok s f -> ref_ok s g -> ref_ok s h ->
  S (nlevels s) <= fuel ->
  exists s' c' r, apply_ite gt C cget cadd fuel s c f g h = Some (s', c', r) /\
    BddOK s' /\ extends s s' /\ CacheOK cget s' c' /\ ref_ok s' r /\
    forall c0, bchoice c0 -> exists x y z,
      semk s (S (nlevels s)) f c0 = Some (b2c x) /\
      semk s (S (nlevels s)) g c0 = Some (b2c y) /\
      semk s (S (nlevels s)) h c0 = Some (b2c z) /\
      semk s' (S (nlevels s')) r c0 = Some (b2c (if x then y else z)).
Proof. exact apply_ite_sound. Qed.
Print Assumptions C02_apply_ite_sound.

(** constants *)
Theorem C02_mk_const_sem : forall s b, BddOK s ->
  exists r, mk_const s b = Some r /\ Den s r (fun _ => b).
Proof. exact mk_const_sem. Qed.
Print Assumptions C02_mk_const_sem.

(** the variable constructors ([neg = true]: the negated variable), as Boolean
    functions of assignments *)
Theorem C02_mk_var_bfun : forall s v neg, BddOK s -> v < nlevels s ->
  exists s' r, mk_var s v neg = Some (s', r) /\ BddOK s' /\ extends s s' /\ ref_ok s' r /\
    forall a, bfun_of s' r a = xorb neg (var_s v a).
Proof. exact mk_var_bfun. Qed.
Print Assumptions C02_mk_var_bfun.

(** eval: the walk of [eval_edge] is the node-by-node interpretation *)
Theorem C02_eval_walk_sem : forall s, WF s -> forall fuel r ch,
  eval_walk fuel s r ch =
  option_map (fun v => N.eqb v 1) (semk s fuel r (fun l => if ch l then 1 else 0)).
Proof. exact eval_walk_sem. Qed.
Print Assumptions C02_eval_walk_sem.

Theorem C02_eval_edge_assignment : forall s r (a : asg) args, BddOK s -> ref_ok s r ->
  (forall v b, In (v, b) args -> b = a v /\ v < nlevels s) ->
  (forall v, v < nlevels s -> In v (map fst args)) ->
  eval_edge s r args = Some (bfun_of s r a).
Proof. exact eval_edge_assignment. Qed.
Print Assumptions C02_eval_edge_assignment.

(** cofactors = the two Shannon cofactors w.r.t. the top-most variable *)
Theorem C02_cofactors_cof : forall s r t e, BddOK s -> ref_ok s r ->
  cofactors s r = Some (t, e) ->
  exists v, nth_error (s_l2v s) (rlevel s r) = Some v /\
    forall a, bfun_of s t a = cof (bfun_of s r) v true a /\
              bfun_of s e a = cof (bfun_of s r) v false a.
Proof. exact cofactors_cof. Qed.
Print Assumptions C02_cofactors_cof.

(** the operators in terms of Boolean functions of assignments ([Sem.lift2]) *)
Theorem C02_apply_bin_bfun : forall gt C cget cadd, lossy cget cadd ->
  forall op s (c : C) f g,
  BddOK s -> CacheOK cget s c -> ref_ok s f -> ref_ok s g ->
  exists s' c' r, apply_bin gt C cget cadd (S (nlevels s)) s c op f g = Some (s', c', r) /\
    BddOK s' /\ extends s s' /\
    forall a, bfun_of s' r a = lift2 op (bfun_of s f) (bfun_of s g) a.
Proof. exact apply_bin_bfun. Qed.
Print Assumptions C02_apply_bin_bfun.

(** the hypotheses are satisfiable and the algorithms run *)
Theorem C02_example :
  BddOK ex_snap /\ CacheOK ac_get ex_snap [] /\ lossy ac_get ac_add /\
  nodes_of (apply_bin gt_id acache ac_get ac_add (S (nlevels ex_snap)) ex_snap [] OAnd (RN 3) (RN 1)) =
  Some ([(4%positive, mkNode 0 [E (RN 1); E (RT 0)] 0 0);
         (2%positive, mkNode 1 [E (RT 0); E (RT 1)] 1 1);
         (1%positive, mkNode 1 [E (RT 1); E (RT 0)] 1 1);
         (3%positive, mkNode 0 [E (RN 1); E (RN 2)] 0 1)], RN 4).
Proof. exact (conj ex_snap_bdd_ok (conj ex_cache_ok (conj ac_lossy ex_apply_and))). Qed.
Print Assumptions C02_example.

(** * The complement-edge kind (BCDD)

    Model: DD/ApplyBcdd.v (mirrors complement_edge/mod.rs and
    complement_edge/apply_rec.rs); proofs: DD/ApplyBcddProofs.v,
    DD/ApplyBcddIte.v, DD/ApplyBcddEval.v.  An edge is a reference plus a
    complement tag, its meaning is [semc] (DD/Table.v); [DenC s e phi]: edge
    [e] of table [s] denotes [phi]; [BcOK]: well-formed BCDD table with its
    single terminal. *)
From OxiVerif Require Import DD.ApplyBcdd DD.ApplyBcddProofs DD.ApplyBcddIte DD.ApplyBcddEval
  DD.ApplyBcddExamples.

(** the executable checker decides the invariant assumed below *)
Theorem C02_bcdd_ok_b_spec : forall s, bcok_b s = true <-> BcOK s.
Proof. exact bcok_b_spec. Qed.
Print Assumptions C02_bcdd_ok_b_spec.

(** the interpreter the drivers run on lifted snapshots is [semc] *)
Theorem C02_bcdd_sem_edge : forall s e c, s_kind s = KBcdd ->
  sem_edge s e c = option_map (fun b : bool => if b then 1%N else 0%N) (semc s (S (nlevels s)) e c).
Proof. exact sem_edge_bcdd. Qed.
Print Assumptions C02_bcdd_sem_edge.

(** [reduce]: equal children are merged, the then-edge is stored untagged and
    its complement moved to the else-edge and the returned edge; the result
    denotes the Shannon combination of the two children *)
Theorem C02_bcdd_reduce : forall s lvl t e P0 P1 s' h, BcOK s -> lvl < nlevels s ->
  DenC s t P0 -> DenC s e P1 -> indep P0 (S lvl) -> indep P1 (S lvl) ->
  cmk_node s lvl t e = (s', h) ->
  BcOK s' /\ extends s s' /\
  DenC s' h (fun c => if Nat.eqb (c lvl) 0 then P0 c else P1 c).
Proof. exact cnode_step. Qed.
Print Assumptions C02_bcdd_reduce.

(** every case of [terminal_and] / [terminal_xor] ([f == g], [f == not g],
    terminal operands) agrees with the connective *)
Theorem C02_bcdd_terminal_sound : forall s op f g phi psi, BcOK s -> DenC s f phi -> DenC s g psi ->
  match cterminal s op f g with
  | KDone r => DenC s r (fun c => ceval op (phi c) (psi c))
  | KNodes fn gn => exists idf idg, eref f = RN idf /\ find_node s idf = Some fn /\
                                    eref g = RN idg /\ find_node s idg = Some gn
  | KFail => False
  end.
Proof. exact cterminal_sound. Qed.
Print Assumptions C02_bcdd_terminal_sound.

(** not: the tag flip *)
Theorem C02_bcdd_not_sound : forall C s (c : C) f, BcOK s -> ref_ok s (eref f) ->
  exists r, capply_not C s c f = Some (s, c, r) /\ ref_ok s (eref r) /\
    forall c0, bchoice c0 -> exists x,
      semc s (S (nlevels s)) f c0 = Some x /\ semc s (S (nlevels s)) r c0 = Some (negb x).
Proof. exact capply_not_sound. Qed.
Print Assumptions C02_bcdd_not_sound.

(** and, or, nand, nor, xor, equiv, imp, imp_strict: derived from [apply_bin]
    for And/Xor by tag flips as in the code; for every operand order [lt] and
    every cache that only serves what was added *)
Theorem C02_bcdd_apply_op_sound : forall lt C cget cadd, lossyC cget cadd ->
  forall o fuel s (c : C) f g,
  BcOK s -> CacheOKC cget s c -> ref_ok s (eref f) -> ref_ok s (eref g) -> S (nlevels s) <= fuel ->
  exists s' c' r, capply_op lt C cget cadd fuel s c o f g = Some (s', c', r) /\
    BcOK s' /\ extends s s' /\ CacheOKC cget s' c' /\ ref_ok s' (eref r) /\
    forall c0, bchoice c0 -> exists x y,
      semc s (S (nlevels s)) f c0 = Some x /\
      semc s (S (nlevels s)) g c0 = Some y /\
      semc s' (S (nlevels s')) r c0 = Some (eval_bop o x y).
Proof. exact capply_op_sound. Qed.
Print Assumptions C02_bcdd_apply_op_sound.

(** ite with its terminal short-cuts *)
Theorem C02_bcdd_apply_ite_sound : forall lt C cget cadd, lossyC cget cadd ->
  forall fuel s (c : C) f g h,
  BcOK s -> CacheOKC cget s c -> ref_ok s (eref f) -> ref_ok s (eref g) -> ref_ok s (eref h) ->
  S (nlevels s) <= fuel ->
  exists s' c' r, capply_ite lt C cget cadd fuel s c f g h = Some (s', c', r) /\
    BcOK s' /\ extends s s' /\ CacheOKC cget s' c' /\ ref_ok s' (eref r) /\
    forall c0, bchoice c0 -> exists x y z,
      semc s (S (nlevels s)) f c0 = Some x /\
      semc s (S (nlevels s)) g c0 = Some y /\
      semc s (S (nlevels s)) h c0 = Some z /\
      semc s' (S (nlevels s')) r c0 = Some (if x then y else z).
Proof. exact capply_ite_sound. Qed.
Print Assumptions C02_bcdd_apply_ite_sound.

(** constants *)
Theorem C02_bcdd_mk_const_sem : forall s b, BcOK s ->
  exists r, cmk_const s b = Some r /\ DenC s r (fun _ => b).
Proof. exact cmk_const_sem. Qed.
Print Assumptions C02_bcdd_mk_const_sem.

(** the variable constructors ([neg = true]: the negated variable) *)
Theorem C02_bcdd_mk_var_bfun : forall s v neg, BcOK s -> v < nlevels s ->
  exists s' r, cmk_var s v neg = Some (s', r) /\ BcOK s' /\ extends s s' /\ ref_ok s' (eref r) /\
    forall a, cbfun_of s' r a = xorb neg (var_s v a).
Proof. exact cmk_var_bfun. Qed.
Print Assumptions C02_bcdd_mk_var_bfun.

(** eval: the walk of [eval_edge] with its complement parity is the
    node-by-node interpretation *)
Theorem C02_bcdd_eval_walk_sem : forall s, WF s -> forall fuel e b ch,
  ceval_walk fuel s e b ch =
  option_map (xorb b) (semc s fuel e (fun l => if ch l then 1 else 0)).
Proof. exact ceval_walk_sem. Qed.
Print Assumptions C02_bcdd_eval_walk_sem.

Theorem C02_bcdd_eval_edge_assignment : forall s e (a : asg) args, BcOK s -> ref_ok s (eref e) ->
  (forall v b, In (v, b) args -> b = a v /\ v < nlevels s) ->
  (forall v, v < nlevels s -> In v (map fst args)) ->
  ceval_edge s e args = Some (cbfun_of s e a).
Proof. exact ceval_edge_assignment. Qed.
Print Assumptions C02_bcdd_eval_edge_assignment.

(** cofactors = the two Shannon cofactors w.r.t. the top-most variable (the
    incoming tag is pushed onto both children); [None] exactly for the two
    constant edges *)
Theorem C02_bcdd_cofactors_cof : forall s e t x, BcOK s -> ref_ok s (eref e) ->
  ccofactors s e = Some (t, x) ->
  exists v, nth_error (s_l2v s) (rlevel s (eref e)) = Some v /\
    forall a, cbfun_of s t a = cof (cbfun_of s e) v true a /\
              cbfun_of s x a = cof (cbfun_of s e) v false a.
Proof. exact ccofactors_cof. Qed.
Print Assumptions C02_bcdd_cofactors_cof.

Theorem C02_bcdd_cofactors_none : forall s e, BcOK s -> ref_ok s (eref e) ->
  (ccofactors s e = None <-> exists t, eref e = RT t).
Proof. exact ccofactors_none. Qed.
Print Assumptions C02_bcdd_cofactors_none.

(** the operators in terms of Boolean functions of assignments (DD/Sem.v) *)
Theorem C02_bcdd_not_bfun : forall C s (c : C) f, BcOK s -> ref_ok s (eref f) ->
  exists r, capply_not C s c f = Some (s, c, r) /\ ref_ok s (eref r) /\
    forall a, cbfun_of s r a = lift1 negb (cbfun_of s f) a.
Proof. exact capply_not_bfun. Qed.
Print Assumptions C02_bcdd_not_bfun.

Theorem C02_bcdd_apply_op_bfun : forall lt C cget cadd, lossyC cget cadd ->
  forall o s (c : C) f g,
  BcOK s -> CacheOKC cget s c -> ref_ok s (eref f) -> ref_ok s (eref g) ->
  exists s' c' r, capply_op lt C cget cadd (S (nlevels s)) s c o f g = Some (s', c', r) /\
    BcOK s' /\ extends s s' /\
    forall a, cbfun_of s' r a = lift2 o (cbfun_of s f) (cbfun_of s g) a.
Proof. exact capply_op_bfun. Qed.
Print Assumptions C02_bcdd_apply_op_bfun.

Theorem C02_bcdd_apply_ite_bfun : forall lt C cget cadd, lossyC cget cadd ->
  forall s (c : C) f g h,
  BcOK s -> CacheOKC cget s c -> ref_ok s (eref f) -> ref_ok s (eref g) -> ref_ok s (eref h) ->
  exists s' c' r, capply_ite lt C cget cadd (S (nlevels s)) s c f g h = Some (s', c', r) /\
    BcOK s' /\ extends s s' /\
    forall a, cbfun_of s' r a = ite_s (cbfun_of s f) (cbfun_of s g) (cbfun_of s h) a.
Proof. exact capply_ite_bfun. Qed.
Print Assumptions C02_bcdd_apply_ite_bfun.

(** the returned edge is the unique edge of its function: repeating the
    operation in any later state of the table, with any correct cache of any
    lossy implementation and any operand order, returns the identical edge and
    leaves the table unchanged (what the correspondence run relies on) *)
Theorem C02_bcdd_apply_op_history_independent :
  forall lt1 lt2 C1 C2 cget1 cadd1 cget2 cadd2, lossyC cget1 cadd1 -> lossyC cget2 cadd2 ->
  forall o s (c1 : C1) f g fuel1 s1 c1' r1,
  BcOK s -> CacheOKC cget1 s c1 -> ref_ok s (eref f) -> ref_ok s (eref g) -> S (nlevels s) <= fuel1 ->
  capply_op lt1 C1 cget1 cadd1 fuel1 s c1 o f g = Some (s1, c1', r1) ->
  forall s2 (c2 : C2) fuel2, BcOK s2 -> extends s1 s2 -> CacheOKC cget2 s2 c2 -> S (nlevels s2) <= fuel2 ->
  exists c2', capply_op lt2 C2 cget2 cadd2 fuel2 s2 c2 o f g = Some (s2, c2', r1).
Proof. exact capply_op_history_independent. Qed.
Print Assumptions C02_bcdd_apply_op_history_independent.

Theorem C02_bcdd_apply_ite_history_independent :
  forall lt1 lt2 C1 C2 cget1 cadd1 cget2 cadd2, lossyC cget1 cadd1 -> lossyC cget2 cadd2 ->
  forall s (c1 : C1) f g h fuel1 s1 c1' r1,
  BcOK s -> CacheOKC cget1 s c1 -> ref_ok s (eref f) -> ref_ok s (eref g) -> ref_ok s (eref h) ->
  S (nlevels s) <= fuel1 ->
  capply_ite lt1 C1 cget1 cadd1 fuel1 s c1 f g h = Some (s1, c1', r1) ->
  forall s2 (c2 : C2) fuel2, BcOK s2 -> extends s1 s2 -> CacheOKC cget2 s2 c2 -> S (nlevels s2) <= fuel2 ->
  exists c2', capply_ite lt2 C2 cget2 cadd2 fuel2 s2 c2 f g h = Some (s2, c2', r1).
Proof. exact capply_ite_history_independent. Qed.
Print Assumptions C02_bcdd_apply_ite_history_independent.

(** the hypotheses are satisfiable and the algorithms run; the two cache
    instances used by the correspondence run are lossy *)
Theorem C02_bcdd_example :
  BcOK ex_bcdd /\ CacheOKC eac_get ex_bcdd [] /\ lossyC eac_get eac_add /\ lossyC enc_get enc_add /\
  new_nodes (capply_op lt_id eacache eac_get eac_add 3 ex_bcdd [] OAnd n2 n1) =
  Some ([(3%positive, mkNode 0 [n1; tF] 0 0)], mkEdge (RN 3) false).
Proof. exact (conj ex_bcdd_bcok (conj ex_bcdd_cache_ok (conj eac_lossy (conj enc_lossy ex_c_and)))). Qed.
Print Assumptions C02_bcdd_example.
