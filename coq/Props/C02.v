(** C02 — property theorems for the plain BDD kind (proved in DD/BuildProofs.v,
    DD/ApplyProofs.v, DD/ApplyEvalProofs.v; models in DD/Build.v, DD/Apply.v). *)
From Coq Require Import List NArith PArith Bool Arith FMapPositive.
From OxiVerif Require Import DD.Table DD.TableProofs DD.Canon DD.Sem DD.Build DD.BuildProofs
  DD.Apply DD.ApplyProofs DD.ApplyEvalProofs DD.ApplyExamples.
Import ListNotations.

(** the spec of [imp_strict] is the strict reading of implication: [a < b] *)
Theorem C02_imp_strict_spec : forall x y, eval_bop OImpStrict x y = negb (implb y x).
Proof. intros [] []; reflexivity. Qed.
Print Assumptions C02_imp_strict_spec.

(** the executable checker decides the invariant assumed below *)
Theorem C02_bdd_ok_b_spec : forall s, bdd_ok_b s = true <-> BddOK s.
Proof. exact bdd_ok_b_spec. Qed.
Print Assumptions C02_bdd_ok_b_spec.

(** node construction ([reduce] + [get_or_insert]) *)
Theorem C02_mk_node_wf : forall s lvl ch s' e,
  WF s -> kary (s_kind s) -> lvl < nlevels s -> children_ok s lvl ch ->
  mk_node s lvl ch = (s', e) ->
  WF s' /\ extends s s' /\ ref_ok s' (eref e) /\ etag e = false /\
  (forall f r c, ref_ok s r -> semk s' f r c = semk s f r c) /\
  (forall c i ci, c lvl = i -> nth_error ch i = Some ci ->
     semk s' (S (nlevels s')) (eref e) c = semk s (S (nlevels s)) (eref ci) c) /\
  lvl <= rlevel s' (eref e).
Proof. exact mk_node_wf. Qed.
Print Assumptions C02_mk_node_wf.

(** every case of [terminal_bin] (all 8 operators, the [f == g] short-cuts,
    operand swaps, [Not] results) agrees with the connective *)
Theorem C02_terminal_bin_sound : forall gt s op f g phi psi,
  BddOK s -> Den s f phi -> Den s g psi ->
  match terminal_bin gt s op f g with
  | TDone r => Den s r (fun c => eval_bop op (phi c) (psi c))
  | TNot r => (r = f \/ r = g) /\
              exists rho, Den s r rho /\
                forall c, bchoice c -> eval_bop op (phi c) (psi c) = negb (rho c)
  | TBin o a b => o = op /\ (exists idf, f = RN idf) /\ (exists idg, g = RN idg) /\
                  ((a = f /\ b = g) \/
                   (a = g /\ b = f /\ forall x y, eval_bop op x y = eval_bop op y x))
  | TFail => False
  end.
Proof. exact terminal_bin_sound. Qed.
Print Assumptions C02_terminal_bin_sound.

(** not *)
Theorem C02_apply_not_sound : forall C cget cadd, lossy cget cadd ->
  forall fuel s (c : C) f,
  BddOK s -> CacheOK cget s c -> ref_ok s f -> S (nlevels s) <= fuel ->
  exists s' c' r, apply_not C cget cadd fuel s c f = Some (s', c', r) /\
    BddOK s' /\ extends s s' /\ CacheOK cget s' c' /\ ref_ok s' r /\
    forall c0, bchoice c0 -> exists x,
      semk s (S (nlevels s)) f c0 = Some (b2c x) /\
      semk s' (S (nlevels s')) r c0 = Some (b2c (negb x)).
Proof. exact apply_not_sound. Qed.
Print Assumptions C02_apply_not_sound.

(** and, or, nand, nor, xor, equiv, imp, imp_strict *)
Theorem C02_apply_bin_sound : forall gt C cget cadd, lossy cget cadd ->
  forall op fuel s (c : C) f g,
  BddOK s -> CacheOK cget s c -> ref_ok s f -> ref_ok s g -> S (nlevels s) <= fuel ->
  exists s' c' r, apply_bin gt C cget cadd fuel s c op f g = Some (s', c', r) /\
    BddOK s' /\ extends s s' /\ CacheOK cget s' c' /\ ref_ok s' r /\
    forall c0, bchoice c0 -> exists x y,
      semk s (S (nlevels s)) f c0 = Some (b2c x) /\
      semk s (S (nlevels s)) g c0 = Some (b2c y) /\
      semk s' (S (nlevels s')) r c0 = Some (b2c (eval_bop op x y)).
Proof. exact apply_bin_sound. Qed.
Print Assumptions C02_apply_bin_sound.

(** ite *)
Theorem C02_apply_ite_sound : forall gt C cget cadd, lossy cget cadd ->
  forall fuel s (c : C) f g h,
  BddOK s -> CacheOK cget s c -> ref_ok s f -> ref_ok s g -> ref_ok s h ->
  S (nlevels s) <= fuel ->
  exists s' c' r, apply_ite gt C cget cadd fuel s c f g h = Some (s', c', r) /\
    BddOK s' /\ extends s s' /\ CacheOK cget s' c' /\ ref_ok s' r /\
    forall c0, bchoice c0 -> exists x y z,
      semk s (S (nlevels s)) f c0 = Some (b2c x) /\
      semk s (S (nlevels s)) g c0 = Some (b2c y) /\
      semk s (S (nlevels s)) h c0 = Some (b2c z) /\
      semk s' (S (nlevels s')) r c0 = Some (b2c (if x then y else z)).
Proof. exact apply_ite_sound. Qed.
Print Assumptions C02_apply_ite_sound.

(** constants *)
Theorem C02_mk_const_sem : forall s b, BddOK s ->
  exists r, mk_const s b = Some r /\ Den s r (fun _ => b).
Proof. exact mk_const_sem. Qed.
Print Assumptions C02_mk_const_sem.

(** the variable constructors ([neg = true]: the negated variable), as Boolean
    functions of assignments *)
Theorem C02_mk_var_bfun : forall s v neg, BddOK s -> v < nlevels s ->
  exists s' r, mk_var s v neg = Some (s', r) /\ BddOK s' /\ extends s s' /\ ref_ok s' r /\
    forall a, bfun_of s' r a = xorb neg (var_s v a).
Proof. exact mk_var_bfun. Qed.
Print Assumptions C02_mk_var_bfun.

(** eval: the walk of [eval_edge] is the node-by-node interpretation *)
Theorem C02_eval_walk_sem : forall s, WF s -> forall fuel r ch,
  eval_walk fuel s r ch =
  option_map (fun v => N.eqb v 1) (semk s fuel r (fun l => if ch l then 1 else 0)).
Proof. exact eval_walk_sem. Qed.
Print Assumptions C02_eval_walk_sem.

Theorem C02_eval_edge_assignment : forall s r (a : asg) args, BddOK s -> ref_ok s r ->
  (forall v b, In (v, b) args -> b = a v /\ v < nlevels s) ->
  (forall v, v < nlevels s -> In v (map fst args)) ->
  eval_edge s r args = Some (bfun_of s r a).
Proof. exact eval_edge_assignment. Qed.
Print Assumptions C02_eval_edge_assignment.

(** cofactors = the two Shannon cofactors w.r.t. the top-most variable *)
Theorem C02_cofactors_cof : forall s r t e, BddOK s -> ref_ok s r ->
  cofactors s r = Some (t, e) ->
  exists v, nth_error (s_l2v s) (rlevel s r) = Some v /\
    forall a, bfun_of s t a = cof (bfun_of s r) v true a /\
              bfun_of s e a = cof (bfun_of s r) v false a.
Proof. exact cofactors_cof. Qed.
Print Assumptions C02_cofactors_cof.

(** the operators in terms of Boolean functions of assignments ([Sem.lift2]) *)
Theorem C02_apply_bin_bfun : forall gt C cget cadd, lossy cget cadd ->
  forall op s (c : C) f g,
  BddOK s -> CacheOK cget s c -> ref_ok s f -> ref_ok s g ->
  exists s' c' r, apply_bin gt C cget cadd (S (nlevels s)) s c op f g = Some (s', c', r) /\
    BddOK s' /\ extends s s' /\
    forall a, bfun_of s' r a = lift2 op (bfun_of s f) (bfun_of s g) a.
Proof. exact apply_bin_bfun. Qed.
Print Assumptions C02_apply_bin_bfun.

(** the hypotheses are satisfiable and the algorithms run *)
Theorem C02_example :
  BddOK ex_snap /\ CacheOK ac_get ex_snap [] /\ lossy ac_get ac_add /\
  nodes_of (apply_bin gt_id acache ac_get ac_add (S (nlevels ex_snap)) ex_snap [] OAnd (RN 3) (RN 1)) =
  Some ([(4%positive, mkNode 0 [E (RN 1); E (RT 0)] 0 0);
         (2%positive, mkNode 1 [E (RT 0); E (RT 1)] 1 1);
         (1%positive, mkNode 1 [E (RT 1); E (RT 0)] 1 1);
         (3%positive, mkNode 0 [E (RN 1); E (RN 2)] 0 1)], RN 4).
Proof. exact (conj ex_snap_bdd_ok (conj ex_cache_ok (conj ac_lossy ex_apply_and))). Qed.
Print Assumptions C02_example.

(** * The complement-edge kind (BCDD)

    Model: DD/ApplyBcdd.v (mirrors complement_edge/mod.rs and
    complement_edge/apply_rec.rs); proofs: DD/ApplyBcddProofs.v,
    DD/ApplyBcddIte.v, DD/ApplyBcddEval.v.  An edge is a reference plus a
    complement tag, its meaning is [semc] (DD/Table.v); [DenC s e phi]: edge
    [e] of table [s] denotes [phi]; [BcOK]: well-formed BCDD table with its
    single terminal. *)
From OxiVerif Require Import DD.ApplyBcdd DD.ApplyBcddProofs DD.ApplyBcddIte DD.ApplyBcddEval
  DD.ApplyBcddExamples.

(** the executable checker decides the invariant assumed below *)
Theorem C02_bcdd_ok_b_spec : forall s, bcok_b s = true <-> BcOK s.
Proof. exact bcok_b_spec. Qed.
Print Assumptions C02_bcdd_ok_b_spec.

(** the interpreter the drivers run on lifted snapshots is [semc] *)
Theorem C02_bcdd_sem_edge : forall s e c, s_kind s = KBcdd ->
  sem_edge s e c = option_map (fun b : bool => if b then 1%N else 0%N) (semc s (S (nlevels s)) e c).
Proof. exact sem_edge_bcdd. Qed.
Print Assumptions C02_bcdd_sem_edge.

(** [reduce]: equal children are merged, the then-edge is stored untagged and
    its complement moved to the else-edge and the returned edge; the result
    denotes the Shannon combination of the two children *)
Theorem C02_bcdd_reduce : forall s lvl t e P0 P1 s' h, BcOK s -> lvl < nlevels s ->
  DenC s t P0 -> DenC s e P1 -> indep P0 (S lvl) -> indep P1 (S lvl) ->
  cmk_node s lvl t e = (s', h) ->
  BcOK s' /\ extends s s' /\
  DenC s' h (fun c => if Nat.eqb (c lvl) 0 then P0 c else P1 c).
Proof. exact cnode_step. Qed.
Print Assumptions C02_bcdd_reduce.

(** every case of [terminal_and] / [terminal_xor] ([f == g], [f == not g],
    terminal operands) agrees with the connective *)
Theorem C02_bcdd_terminal_sound : forall s op f g phi psi, BcOK s -> DenC s f phi -> DenC s g psi ->
  match cterminal s op f g with
  | KDone r => DenC s r (fun c => ceval op (phi c) (psi c))
  | KNodes fn gn => exists idf idg, eref f = RN idf /\ find_node s idf = Some fn /\
                                    eref g = RN idg /\ find_node s idg = Some gn
  | KFail => False
  end.
Proof. exact cterminal_sound. Qed.
Print Assumptions C02_bcdd_terminal_sound.

(** not: the tag flip *)
Theorem C02_bcdd_not_sound : forall C s (c : C) f, BcOK s -> ref_ok s (eref f) ->
  exists r, capply_not C s c f = Some (s, c, r) /\ ref_ok s (eref r) /\
    forall c0, bchoice c0 -> exists x,
      semc s (S (nlevels s)) f c0 = Some x /\ semc s (S (nlevels s)) r c0 = Some (negb x).
Proof. exact capply_not_sound. Qed.
Print Assumptions C02_bcdd_not_sound.

(** and, or, nand, nor, xor, equiv, imp, imp_strict: derived from [apply_bin]
    for And/Xor by tag flips as in the code; for every operand order [lt] and
    every cache that only serves what was added *)
Theorem C02_bcdd_apply_op_sound : forall lt C cget cadd, lossyC cget cadd ->
  forall o fuel s (c : C) f g,
  BcOK s -> CacheOKC cget s c -> ref_ok s (eref f) -> ref_ok s (eref g) -> S (nlevels s) <= fuel ->
  exists s' c' r, capply_op lt C cget cadd fuel s c o f g = Some (s', c', r) /\
    BcOK s' /\ extends s s' /\ CacheOKC cget s' c' /\ ref_ok s' (eref r) /\
    forall c0, bchoice c0 -> exists x y,
      semc s (S (nlevels s)) f c0 = Some x /\
      semc s (S (nlevels s)) g c0 = Some y /\
      semc s' (S (nlevels s')) r c0 = Some (eval_bop o x y).
Proof. exact capply_op_sound. Qed.
Print Assumptions C02_bcdd_apply_op_sound.

(** ite with its terminal short-cuts *)
Theorem C02_bcdd_apply_ite_sound : forall lt C cget cadd, lossyC cget cadd ->
  forall fuel s (c : C) f g h,
  BcOK s -> CacheOKC cget s c -> ref_ok s (eref f) -> ref_ok s (eref g) -> ref_ok s (eref h) ->
  S (nlevels s) <= fuel ->
  exists s' c' r, capply_ite lt C cget cadd fuel s c f g h = Some (s', c', r) /\
    BcOK s' /\ extends s s' /\ CacheOKC cget s' c' /\ ref_ok s' (eref r) /\
    forall c0, bchoice c0 -> exists x y z,
      semc s (S (nlevels s)) f c0 = Some x /\
      semc s (S (nlevels s)) g c0 = Some y /\
      semc s (S (nlevels s)) h c0 = Some z /\
      semc s' (S (nlevels s')) r c0 = Some (if x then y else z).
Proof. exact capply_ite_sound. Qed.
Print Assumptions C02_bcdd_apply_ite_sound.

(** constants *)
Theorem C02_bcdd_mk_const_sem : forall s b, BcOK s ->
  exists r, cmk_const s b = Some r /\ DenC s r (fun _ => b).
Proof. exact cmk_const_sem. Qed.
Print Assumptions C02_bcdd_mk_const_sem.

(** the variable constructors ([neg = true]: the negated variable) *)
Theorem C02_bcdd_mk_var_bfun : forall s v neg, BcOK s -> v < nlevels s ->
  exists s' r, cmk_var s v neg = Some (s', r) /\ BcOK s' /\ extends s s' /\ ref_ok s' (eref r) /\
    forall a, cbfun_of s' r a = xorb neg (var_s v a).
Proof. exact cmk_var_bfun. Qed.
Print Assumptions C02_bcdd_mk_var_bfun.

(** eval: the walk of [eval_edge] with its complement parity is the
    node-by-node interpretation *)
Theorem C02_bcdd_eval_walk_sem : forall s, WF s -> forall fuel e b ch,
  ceval_walk fuel s e b ch =
  option_map (xorb b) (semc s fuel e (fun l => if ch l then 1 else 0)).
Proof. exact ceval_walk_sem. Qed.
Print Assumptions C02_bcdd_eval_walk_sem.

Theorem C02_bcdd_eval_edge_assignment : forall s e (a : asg) args, BcOK s -> ref_ok s (eref e) ->
  (forall v b, In (v, b) args -> b = a v /\ v < nlevels s) ->
  (forall v, v < nlevels s -> In v (map fst args)) ->
  ceval_edge s e args = Some (cbfun_of s e a).
Proof. exact ceval_edge_assignment. Qed.
Print Assumptions C02_bcdd_eval_edge_assignment.

(** cofactors = the two Shannon cofactors w.r.t. the top-most variable (the
    incoming tag is pushed onto both children); [None] exactly for the two
    constant edges *)
Theorem C02_bcdd_cofactors_cof : forall s e t x, BcOK s -> ref_ok s (eref e) ->
  ccofactors s e = Some (t, x) ->
  exists v, nth_error (s_l2v s) (rlevel s (eref e)) = Some v /\
    forall a, cbfun_of s t a = cof (cbfun_of s e) v true a /\
              cbfun_of s x a = cof (cbfun_of s e) v false a.
Proof. exact ccofactors_cof. Qed.
Print Assumptions C02_bcdd_cofactors_cof.

Theorem C02_bcdd_cofactors_none : forall s e, BcOK s -> ref_ok s (eref e) ->
  (ccofactors s e = None <-> exists t, eref e = RT t).
Proof. exact ccofactors_none. Qed.
Print Assumptions C02_bcdd_cofactors_none.

(** the operators in terms of Boolean functions of assignments (DD/Sem.v) *)
Theorem C02_bcdd_not_bfun : forall C s (c : C) f, BcOK s -> ref_ok s (eref f) ->
  exists r, capply_not C s c f = Some (s, c, r) /\ ref_ok s (eref r) /\
    forall a, cbfun_of s r a = lift1 negb (cbfun_of s f) a.
Proof. exact capply_not_bfun. Qed.
Print Assumptions C02_bcdd_not_bfun.

Theorem C02_bcdd_apply_op_bfun : forall lt C cget cadd, lossyC cget cadd ->
  forall o s (c : C) f g,
  BcOK s -> CacheOKC cget s c -> ref_ok s (eref f) -> ref_ok s (eref g) ->
  exists s' c' r, capply_op lt C cget cadd (S (nlevels s)) s c o f g = Some (s', c', r) /\
    BcOK s' /\ extends s s' /\
    forall a, cbfun_of s' r a = lift2 o (cbfun_of s f) (cbfun_of s g) a.
Proof. exact capply_op_bfun. Qed.
Print Assumptions C02_bcdd_apply_op_bfun.

Theorem C02_bcdd_apply_ite_bfun : forall lt C cget cadd, lossyC cget cadd ->
  forall s (c : C) f g h,
  BcOK s -> CacheOKC cget s c -> ref_ok s (eref f) -> ref_ok s (eref g) -> ref_ok s (eref h) ->
  exists s' c' r, capply_ite lt C cget cadd (S (nlevels s)) s c f g h = Some (s', c', r) /\
    BcOK s' /\ extends s s' /\
    forall a, cbfun_of s' r a = ite_s (cbfun_of s f) (cbfun_of s g) (cbfun_of s h) a.
Proof. exact capply_ite_bfun. Qed.
Print Assumptions C02_bcdd_apply_ite_bfun.

(** the returned edge is the unique edge of its function: repeating the
    operation in any later state of the table, with any correct cache of any
    lossy implementation and any operand order, returns the identical edge and
    leaves the table unchanged (what the correspondence run relies on) *)
Theorem C02_bcdd_apply_op_history_independent :
  forall lt1 lt2 C1 C2 cget1 cadd1 cget2 cadd2, lossyC cget1 cadd1 -> lossyC cget2 cadd2 ->
  forall o s (c1 : C1) f g fuel1 s1 c1' r1,
  BcOK s -> CacheOKC cget1 s c1 -> ref_ok s (eref f) -> ref_ok s (eref g) -> S (nlevels s) <= fuel1 ->
  capply_op lt1 C1 cget1 cadd1 fuel1 s c1 o f g = Some (s1, c1', r1) ->
  forall s2 (c2 : C2) fuel2, BcOK s2 -> extends s1 s2 -> CacheOKC cget2 s2 c2 -> S (nlevels s2) <= fuel2 ->
  exists c2', capply_op lt2 C2 cget2 cadd2 fuel2 s2 c2 o f g = Some (s2, c2', r1).
Proof. exact capply_op_history_independent. Qed.
Print Assumptions C02_bcdd_apply_op_history_independent.

Theorem C02_bcdd_apply_ite_history_independent :
  forall lt1 lt2 C1 C2 cget1 cadd1 cget2 cadd2, lossyC cget1 cadd1 -> lossyC cget2 cadd2 ->
  forall s (c1 : C1) f g h fuel1 s1 c1' r1,
  BcOK s -> CacheOKC cget1 s c1 -> ref_ok s (eref f) -> ref_ok s (eref g) -> ref_ok s (eref h) ->
  S (nlevels s) <= fuel1 ->
  capply_ite lt1 C1 cget1 cadd1 fuel1 s c1 f g h = Some (s1, c1', r1) ->
  forall s2 (c2 : C2) fuel2, BcOK s2 -> extends s1 s2 -> CacheOKC cget2 s2 c2 -> S (nlevels s2) <= fuel2 ->
  exists c2', capply_ite lt2 C2 cget2 cadd2 fuel2 s2 c2 f g h = Some (s2, c2', r1).
Proof. exact capply_ite_history_independent. Qed.
Print Assumptions C02_bcdd_apply_ite_history_independent.

(** the hypotheses are satisfiable and the algorithms run; the two cache
    instances used by the correspondence run are lossy *)
Theorem C02_bcdd_example :
  BcOK ex_bcdd /\ CacheOKC eac_get ex_bcdd [] /\ lossyC eac_get eac_add /\ lossyC enc_get enc_add /\
  new_nodes (capply_op lt_id eacache eac_get eac_add 3 ex_bcdd [] OAnd n2 n1) =
  Some ([(3%positive, mkNode 0 [n1; tF] 0 0)], mkEdge (RN 3) false).
Proof. exact (conj ex_bcdd_bcok (conj ex_bcdd_cache_ok (conj eac_lossy (conj enc_lossy ex_c_and)))). Qed.
Print Assumptions C02_bcdd_example.

(** ** The ZBDD kind (package C02z; model DD/ZbddBool.v, proofs DD/ZbddBoolProofs.v,
       DD/ZbddXorProofs.v, DD/ZbddIteProofs.v, DD/ZbddEvalProofs.v; set operations: C09)

    Reading.  [zview_of s r c] is the Boolean view of a ZBDD edge over all levels of the manager
    ([semz] from level 0 with fuel [S nlevels] = C09_bool_view of its family), [zbfun_of s r] the
    same as a function of assignments variable |-> bool.  [ZChainOK s] = the tautology chain
    ([ZBDDCache::tautology]) is in the table, decided by [zchain_ok_b]; [ZCacheOKB] = every entry
    the apply cache can serve is correct (all nine operator codes); [zlossy] = the only
    assumption on the cache implementation. *)
From OxiVerif Require Import DD.TableExtra DD.CanonZbdd DD.FamSpec DD.FamSpecProofs DD.ZbddOps DD.ZbddOpsProofs
  DD.ZbddSubsetProofs DD.ZbddSoundProofs DD.ZbddVars DD.ZbddVarsProofs DD.ZbddExamples
  DD.ZbddBool DD.ZbddBoolProofs DD.ZbddXorProofs DD.ZbddIteProofs DD.ZbddEvalProofs DD.ZbddBoolExamples.

(** the tautology chain: [taut(l)] as looked up in the unique table denotes all subsets of
    the levels [l, n) - in the Boolean view: true iff all levels above [l] are false *)
Theorem C02_zbdd_taut_den : forall s l t, ZbddOK s -> ztaut s l = Some t ->
  ZDen s t (fun S => incr_from (Nat.min l (nlevels s)) S /\ Forall (fun x => x < nlevels s) S).
Proof. exact ztaut_den. Qed.
Print Assumptions C02_zbdd_taut_den.

(** ... and whatever edge denotes that family is the one the lookup returns (canonicity), so the
    lookup agrees with the edges the manager stores in [ZBDDCache] *)
Theorem C02_zbdd_taut_canon : forall s l t, ZbddOK s -> l <= nlevels s ->
  ZDen s t (fun S => incr_from l S /\ Forall (fun x => x < nlevels s) S) -> ztaut s l = Some t.
Proof. exact ztaut_of_den. Qed.
Print Assumptions C02_zbdd_taut_canon.

(** the chain is complete after [add_vars] / [post_reorder_mut] (model of C09) and is the chain
    that model built; it survives every extension of the table *)
Theorem C02_zbdd_chain_after_add_vars : forall s k, ZbddOK s ->
  exists s' ch, zadd_vars s k = Some (s', ch) /\ ZbddOK s' /\ zchain_ok_b s' = true /\
    nlevels s' = nlevels s + k /\ forall l, l <= nlevels s' -> ztaut s' l = nth_error ch l.
Proof. exact zchain_after_add_vars. Qed.
Print Assumptions C02_zbdd_chain_after_add_vars.

Theorem C02_zbdd_chain_extends : forall s s', ZbddOK s -> ZbddOK s' -> extends s s' ->
  zchain_ok_b s = true -> zchain_ok_b s' = true.
Proof. exact zchain_extends. Qed.
Print Assumptions C02_zbdd_chain_extends.

Theorem C02_zbdd_chain_total : forall s l, zchain_ok_b s = true -> exists t, ztaut s l = Some t.
Proof. exact ztaut_total. Qed.
Print Assumptions C02_zbdd_chain_total.

(** the family of the result of each connective (the reading of C09): and = intsec, or = union,
    xor = symmetric difference, imp_strict f g = g \ f, nand / nor / equiv = complement w.r.t. all
    subsets, imp = ite(f, g, all subsets) *)
Theorem C02_zbdd_apply_op_families : forall gt C cget cadd, zlossy C cget cadd ->
  forall op fuel s (c : C) f g P Q,
  ZbddOK s -> zchain_ok_b s = true -> ZCacheOKB C cget s c -> ZDen s f P -> ZDen s g Q -> nlevels s < fuel ->
  exists s' c' r, zapply_op gt C cget cadd fuel s c op f g = Some (s', c', r) /\
    ZbddOK s' /\ extends s s' /\ ZCacheOKB C cget s' c' /\
    ZDen s' r (pop (nlevels s) op P Q).
Proof. exact zapply_op_ok. Qed.
Print Assumptions C02_zbdd_apply_op_families.

(** not *)
Theorem C02_zbdd_not_sound : forall gt C cget cadd, zlossy C cget cadd ->
  forall fuel s (c : C) f,
  ZbddOK s -> zchain_ok_b s = true -> ZCacheOKB C cget s c -> ref_ok s f -> S (nlevels s) <= fuel ->
  exists s' c' r, zapply_not gt C cget cadd fuel s c f = Some (s', c', r) /\
    (ZbddOK s' /\ zchain_ok_b s' = true /\ extends s s' /\ ZCacheOKB C cget s' c' /\ ref_ok s' r) /\
    forall c0, choice_ok s c0 ->
      exists bf, zview_of s f c0 = Some bf /\ zview_of s' r c0 = Some (negb bf).
Proof. exact zapply_not_sound. Qed.
Print Assumptions C02_zbdd_not_sound.

(** and, or, nand, nor, xor, equiv, imp, imp_strict: pointwise the propositional connective *)
Theorem C02_zbdd_apply_op_sound : forall gt C cget cadd, zlossy C cget cadd ->
  forall op fuel s (c : C) f g,
  ZbddOK s -> zchain_ok_b s = true -> ZCacheOKB C cget s c -> ref_ok s f -> ref_ok s g ->
  S (nlevels s) <= fuel ->
  exists s' c' r, zapply_op gt C cget cadd fuel s c op f g = Some (s', c', r) /\
    (ZbddOK s' /\ zchain_ok_b s' = true /\ extends s s' /\ ZCacheOKB C cget s' c' /\ ref_ok s' r) /\
    forall c0, choice_ok s c0 ->
      exists bf bg, zview_of s f c0 = Some bf /\ zview_of s g c0 = Some bg /\
        zview_of s' r c0 = Some (eval_bop op bf bg).
Proof. exact zapply_op_sound. Qed.
Print Assumptions C02_zbdd_apply_op_sound.

(** ite with its terminal short-cuts (incl. the level-dependent tautology cases) *)
Theorem C02_zbdd_apply_ite_sound : forall gt C cget cadd, zlossy C cget cadd ->
  forall fuel s (c : C) f g h,
  ZbddOK s -> zchain_ok_b s = true -> ZCacheOKB C cget s c -> ref_ok s f -> ref_ok s g -> ref_ok s h ->
  S (nlevels s) <= fuel ->
  exists s' c' r, zapply_ite gt C cget cadd fuel s c f g h = Some (s', c', r) /\
    (ZbddOK s' /\ zchain_ok_b s' = true /\ extends s s' /\ ZCacheOKB C cget s' c' /\ ref_ok s' r) /\
    forall c0, choice_ok s c0 ->
      exists bf bg bh, zview_of s f c0 = Some bf /\ zview_of s g c0 = Some bg /\ zview_of s h c0 = Some bh /\
        zview_of s' r c0 = Some (if bf then bg else bh).
Proof. exact zapply_ite_sound. Qed.
Print Assumptions C02_zbdd_apply_ite_sound.

(** the same in terms of assignments and the spec layer DD/Sem.v *)
Theorem C02_zbdd_not_bfun : forall gt C cget cadd, zlossy C cget cadd ->
  forall s (c : C) f,
  ZbddOK s -> zchain_ok_b s = true -> ZCacheOKB C cget s c -> ref_ok s f ->
  exists s' c' r, zapply_not gt C cget cadd (S (nlevels s)) s c f = Some (s', c', r) /\
    (ZbddOK s' /\ zchain_ok_b s' = true /\ extends s s' /\ ZCacheOKB C cget s' c' /\ ref_ok s' r) /\
    forall a, zbfun_of s' r a = lift1 negb (zbfun_of s f) a.
Proof. exact zapply_not_bfun. Qed.
Print Assumptions C02_zbdd_not_bfun.

Theorem C02_zbdd_apply_op_bfun : forall gt C cget cadd, zlossy C cget cadd ->
  forall op s (c : C) f g,
  ZbddOK s -> zchain_ok_b s = true -> ZCacheOKB C cget s c -> ref_ok s f -> ref_ok s g ->
  exists s' c' r, zapply_op gt C cget cadd (S (nlevels s)) s c op f g = Some (s', c', r) /\
    (ZbddOK s' /\ zchain_ok_b s' = true /\ extends s s' /\ ZCacheOKB C cget s' c' /\ ref_ok s' r) /\
    forall a, zbfun_of s' r a = lift2 op (zbfun_of s f) (zbfun_of s g) a.
Proof. exact zapply_op_bfun. Qed.
Print Assumptions C02_zbdd_apply_op_bfun.

Theorem C02_zbdd_apply_ite_bfun : forall gt C cget cadd, zlossy C cget cadd ->
  forall s (c : C) f g h,
  ZbddOK s -> zchain_ok_b s = true -> ZCacheOKB C cget s c -> ref_ok s f -> ref_ok s g -> ref_ok s h ->
  exists s' c' r, zapply_ite gt C cget cadd (S (nlevels s)) s c f g h = Some (s', c', r) /\
    (ZbddOK s' /\ zchain_ok_b s' = true /\ extends s s' /\ ZCacheOKB C cget s' c' /\ ref_ok s' r) /\
    forall a, zbfun_of s' r a = ite_s (zbfun_of s f) (zbfun_of s g) (zbfun_of s h) a.
Proof. exact zapply_ite_bfun. Qed.
Print Assumptions C02_zbdd_apply_ite_bfun.

(** constants ([f_edge] = Empty, [t_edge] = taut(0)), variables ([var_edge] with its don't-care
    nodes above), negated variables ([not_var_edge] = not of [var_edge]) *)
Theorem C02_zbdd_const_bfun : forall s b, ZbddOK s -> zchain_ok_b s = true ->
  exists r, zconst s b = Some r /\ ref_ok s r /\ forall a, zbfun_of s r a = const_s b a.
Proof. exact zconst_bfun. Qed.
Print Assumptions C02_zbdd_const_bfun.

Theorem C02_zbdd_var_bfun : forall s var, ZbddOK s -> zchain_ok_b s = true -> var < nlevels s ->
  exists s' r, zvar s var = Some (s', r) /\ ZbddOK s' /\ zchain_ok_b s' = true /\ extends s s' /\ ref_ok s' r /\
    forall a, zbfun_of s' r a = var_s var a.
Proof. exact zvar_bfun. Qed.
Print Assumptions C02_zbdd_var_bfun.

Theorem C02_zbdd_not_var_bfun : forall gt C cget cadd, zlossy C cget cadd ->
  forall s (c : C) var,
  ZbddOK s -> zchain_ok_b s = true -> ZCacheOKB C cget s c -> var < nlevels s ->
  exists s' c' r, znot_var gt C cget cadd (S (nlevels s)) s c var = Some (s', c', r) /\
    (ZbddOK s' /\ zchain_ok_b s' = true /\ extends s s' /\ ZCacheOKB C cget s' c' /\ ref_ok s' r) /\
    forall a, zbfun_of s' r a = negb (var_s var a).
Proof. exact znot_var_bfun. Qed.
Print Assumptions C02_zbdd_not_var_bfun.

(** the result is the only edge with its view: an edge [d] of the (earlier) table with the same
    view is the edge the model returns - what the correspondence run relies on when it replays an
    operation on a snapshot that already contains the real result *)
Theorem C02_zbdd_result_unique : forall s s' r d, ZbddOK s -> ZbddOK s' -> extends s s' ->
  ref_ok s' r -> ref_ok s d ->
  (forall c0, choice_ok s c0 -> zview_of s' r c0 = zview_of s d c0) -> r = d.
Proof. exact zresult_unique. Qed.
Print Assumptions C02_zbdd_result_unique.

(** two runs of an operator with different caches, operand orders and fuel denote the same function *)
Theorem C02_zbdd_apply_op_history_independent :
  forall gt C cget cadd, zlossy C cget cadd -> forall gt2 (C2 : Type) cget2 cadd2, zlossy C2 cget2 cadd2 ->
  forall op fuel fuel2 s (c : C) (c2 : C2) f g s1 c1 r1 s2 c2' r2,
  ZbddOK s -> zchain_ok_b s = true -> ZCacheOKB C cget s c -> ZCacheOKB C2 cget2 s c2 ->
  ref_ok s f -> ref_ok s g -> S (nlevels s) <= fuel -> S (nlevels s) <= fuel2 ->
  zapply_op gt C cget cadd fuel s c op f g = Some (s1, c1, r1) ->
  zapply_op gt2 C2 cget2 cadd2 fuel2 s c2 op f g = Some (s2, c2', r2) ->
  forall c0, choice_ok s c0 -> zview_of s1 r1 c0 = zview_of s2 r2 c0.
Proof. exact zapply_op_history_independent. Qed.
Print Assumptions C02_zbdd_apply_op_history_independent.

(** canonicity in terms of views (C01 for ZBDD references) *)
Theorem C02_zbdd_view_canon : forall s r1 r2, ZbddOK s -> ref_ok s r1 -> ref_ok s r2 ->
  (forall c, choice_ok s c -> zview_of s r1 c = zview_of s r2 c) -> r1 = r2.
Proof. exact zview_canon. Qed.
Print Assumptions C02_zbdd_view_canon.

(** eval: the walk with the level-indexed bit set and the [ones] counter computes the
    node-by-node interpretation and never underflows: started with [ones] = [k] + the number of
    set bits from [lvl] on it returns "[k] = 0 and the view from [lvl] holds" *)
Theorem C02_zbdd_eval_walk_sem : forall s, ZbddOK s -> forall fuel lvl r values k,
  ref_ok s r -> lvl <= rlevel s r -> nlevels s - rlevel s r < fuel ->
  exists b, semz s fuel lvl r (cv values) = Some b /\
    zeval_walk fuel s r values (k + length (true_levels (cv values) lvl (nlevels s - lvl)))
      = Some (Nat.eqb k 0 && b).
Proof. exact zeval_walk_sem. Qed.
Print Assumptions C02_zbdd_eval_walk_sem.

Theorem C02_zbdd_eval_edge_assignment : forall s r (a : asg) args, ZbddOK s -> ref_ok s r ->
  (forall v b, In (v, b) args -> b = a v /\ v < nlevels s) ->
  (forall v, v < nlevels s -> In v (map fst args)) ->
  zeval_edge s r args = Some (zbfun_of s r a).
Proof. exact zeval_edge_assignment. Qed.
Print Assumptions C02_zbdd_eval_edge_assignment.

(** cofactors: the children of the root = (subset1, subset0) w.r.t. the top-most variable in the
    reduced-domain reading: as families, and literally what the C09 model of subset1 / subset0
    returns for that variable *)
Theorem C02_zbdd_cofactors : forall C cget cadd s (c : C) r t e, ZbddOK s -> ref_ok s r ->
  zcofactors s r = Some (t, e) ->
  exists id nd var F Ft Fe,
    r = RN id /\ find_node s id = Some nd /\ rlevel s r = nlevel nd /\
    nth_error (s_l2v s) (nlevel nd) = Some var /\ nth_error (s_v2l s) var = Some (nlevel nd) /\
    ref_ok s t /\ ref_ok s e /\
    fam_of s r = Some F /\ fam_of s t = Some Ft /\ fam_of s e = Some Fe /\
    feq Ft (f_subset1 (nlevel nd) F) /\ feq Fe (f_subset0 (nlevel nd) F) /\
    (forall fuel, zsubset_top C cget cadd (S fuel) s c ZSubset1 r var = Some (s, c, t)) /\
    (forall fuel, zsubset_top C cget cadd (S fuel) s c ZSubset0 r var = Some (s, c, e)).
Proof. exact zcofactors_sound. Qed.
Print Assumptions C02_zbdd_cofactors.

Theorem C02_zbdd_cofactors_none : forall s r, ZbddOK s -> ref_ok s r ->
  (zcofactors s r = None <-> exists t, r = RT t).
Proof. exact zcofactors_none. Qed.
Print Assumptions C02_zbdd_cofactors_none.

(** the hypotheses are satisfiable (a four-level table, order var -> level [1;2;0;3]); the cache
    instances of the correspondence run are lossy and start valid; the model runs *)
Theorem C02_zbdd_example :
  ZbddOK ex_z4 /\ zchain_ok_b ex_z4 = true /\
  (forall s, ZCacheOKB zacache zac_get s []) /\ (forall s c, ZCacheOKB unit znc_get s c) /\
  zlossy zacache zac_get zac_add /\ zlossy unit znc_get znc_add.
Proof. exact (conj ex_z4_ok (conj ex_z4_chain (conj zac_empty_okB (conj znc_okB (conj zac_lossy znc_lossy))))). Qed.
Print Assumptions C02_zbdd_example.

Definition C02_pin_zbdd_run_not := ex_z4_not.
Definition C02_pin_zbdd_run_ops := ex_z4_ops.
Definition C02_pin_zbdd_run_ite := ex_z4_ite.
Definition C02_pin_zbdd_run_vars := ex_z4_vars.
Definition C02_pin_zbdd_run_eval := ex_z4_eval.

(** * Plain BDD kind, EDGE LEVEL (package C02s): what an operation does to the table

    Proved in DD/ApplyBddEdge.v for the algorithms of DD/Apply.v.  The correspondence run
    (ocaml/c02_main.ml) replays every operation of the implementation on the snapshot taken
    BEFORE it, with the direct-mapped cache model, and requires: no old node changed, the new
    nodes of the implementation = the new nodes of the model (up to the names of the new ids),
    the same result edge.  [nreach s r id]: node [id] belongs to the diagram of [r];
    [tight s s' r]: every node of [s'] is a node of [s] or belongs to the diagram of [r]. *)
From OxiVerif Require Import DD.Cache DD.CacheProofs DD.ApplyBddEdge.

(** the reachability relation is the one of C05 ([reachable] from a root list) *)
Theorem C02_bdd_edge_nreach_reachable : forall s r id,
  ApplyBddEdge.nreach s r id -> TableProofs.reachable s [r] (RN id).
Proof. exact nreach_reachable. Qed.
Print Assumptions C02_bdd_edge_nreach_reachable.

(** NO hypothesis (any table, any cache, any operand order, any fuel): an operation only adds
    nodes (old nodes, terminals, order, handles unchanged) and every added node belongs to the
    diagram of the result: no garbage, no intermediate node the result does not use *)
Theorem C02_bdd_edge_not_tight : forall C cget cadd fuel s (c : C) f s' c' r,
  Apply.apply_not C cget cadd fuel s c f = Some (s', c', r) ->
  BuildProofs.extends s s' /\ ApplyBddEdge.tight s s' r.
Proof. exact apply_not_tight. Qed.
Print Assumptions C02_bdd_edge_not_tight.

Theorem C02_bdd_edge_bin_tight : forall gt C cget cadd op fuel s (c : C) f g s' c' r,
  Apply.apply_bin gt C cget cadd fuel s c op f g = Some (s', c', r) ->
  BuildProofs.extends s s' /\ ApplyBddEdge.tight s s' r.
Proof. exact apply_bin_tight. Qed.
Print Assumptions C02_bdd_edge_bin_tight.

Theorem C02_bdd_edge_ite_tight : forall gt C cget cadd fuel s (c : C) f g h s' c' r,
  Apply.apply_ite gt C cget cadd fuel s c f g h = Some (s', c', r) ->
  BuildProofs.extends s s' /\ ApplyBddEdge.tight s s' r.
Proof. exact apply_ite_tight. Qed.
Print Assumptions C02_bdd_edge_ite_tight.

Theorem C02_bdd_edge_var_tight : forall s v neg s' r, Apply.mk_var s v neg = Some (s', r) ->
  BuildProofs.extends s s' /\
  forall id nd, find_node s' id = Some nd -> find_node s id = Some nd \/ r = RN id.
Proof. exact mk_var_tight. Qed.
Print Assumptions C02_bdd_edge_var_tight.

(** the result TABLE and EDGE do not depend on the cache implementation, its content or the
    operand order (two arbitrary lossy caches with correct contents, two arbitrary orders) *)
Theorem C02_bdd_edge_not_deterministic : forall C1 C2 cget1 cadd1 cget2 cadd2,
  ApplyProofs.lossy cget1 cadd1 -> ApplyProofs.lossy cget2 cadd2 ->
  forall fuel s (c1 : C1) (c2 : C2) f,
  ApplyProofs.BddOK s -> ApplyProofs.CacheOK cget1 s c1 -> ApplyProofs.CacheOK cget2 s c2 ->
  ref_ok s f -> ApplyProofs.FUEL s <= fuel ->
  exists s' c1' c2' r,
    Apply.apply_not C1 cget1 cadd1 fuel s c1 f = Some (s', c1', r) /\
    Apply.apply_not C2 cget2 cadd2 fuel s c2 f = Some (s', c2', r).
Proof. exact apply_not_deterministic. Qed.
Print Assumptions C02_bdd_edge_not_deterministic.

Theorem C02_bdd_edge_bin_deterministic : forall gt1 gt2 C1 C2 cget1 cadd1 cget2 cadd2,
  ApplyProofs.lossy cget1 cadd1 -> ApplyProofs.lossy cget2 cadd2 ->
  forall op fuel s (c1 : C1) (c2 : C2) f g,
  ApplyProofs.BddOK s -> ApplyProofs.CacheOK cget1 s c1 -> ApplyProofs.CacheOK cget2 s c2 ->
  ref_ok s f -> ref_ok s g -> ApplyProofs.FUEL s <= fuel ->
  exists s' c1' c2' r,
    Apply.apply_bin gt1 C1 cget1 cadd1 fuel s c1 op f g = Some (s', c1', r) /\
    Apply.apply_bin gt2 C2 cget2 cadd2 fuel s c2 op f g = Some (s', c2', r).
Proof. exact apply_bin_deterministic. Qed.
Print Assumptions C02_bdd_edge_bin_deterministic.

Theorem C02_bdd_edge_ite_deterministic : forall gt1 gt2 C1 C2 cget1 cadd1 cget2 cadd2,
  ApplyProofs.lossy cget1 cadd1 -> ApplyProofs.lossy cget2 cadd2 ->
  forall fuel s (c1 : C1) (c2 : C2) f g h,
  ApplyProofs.BddOK s -> ApplyProofs.CacheOK cget1 s c1 -> ApplyProofs.CacheOK cget2 s c2 ->
  ref_ok s f -> ref_ok s g -> ref_ok s h -> ApplyProofs.FUEL s <= fuel ->
  exists s' c1' c2' r,
    Apply.apply_ite gt1 C1 cget1 cadd1 fuel s c1 f g h = Some (s', c1', r) /\
    Apply.apply_ite gt2 C2 cget2 cadd2 fuel s c2 f g h = Some (s', c2', r).
Proof. exact apply_ite_deterministic. Qed.
Print Assumptions C02_bdd_edge_ite_deterministic.

(** if the result function already has an edge in the table: that very edge, table unchanged *)
Theorem C02_bdd_edge_not_existing : forall C cget cadd, ApplyProofs.lossy cget cadd ->
  forall fuel s (c : C) f phi r0,
  ApplyProofs.BddOK s -> ApplyProofs.CacheOK cget s c -> ApplyProofs.Den s f phi ->
  ApplyProofs.FUEL s <= fuel ->
  ApplyProofs.Den s r0 (fun c0 => negb (phi c0)) ->
  exists c', Apply.apply_not C cget cadd fuel s c f = Some (s, c', r0).
Proof. exact apply_not_existing. Qed.
Print Assumptions C02_bdd_edge_not_existing.

Theorem C02_bdd_edge_bin_existing : forall gt C cget cadd, ApplyProofs.lossy cget cadd ->
  forall op fuel s (c : C) f g phi psi r0,
  ApplyProofs.BddOK s -> ApplyProofs.CacheOK cget s c -> ApplyProofs.Den s f phi -> ApplyProofs.Den s g psi ->
  ApplyProofs.FUEL s <= fuel ->
  ApplyProofs.Den s r0 (fun c0 => eval_bop op (phi c0) (psi c0)) ->
  exists c', Apply.apply_bin gt C cget cadd fuel s c op f g = Some (s, c', r0).
Proof. exact apply_bin_existing. Qed.
Print Assumptions C02_bdd_edge_bin_existing.

Theorem C02_bdd_edge_ite_existing : forall gt C cget cadd, ApplyProofs.lossy cget cadd ->
  forall fuel s (c : C) f g h phi psi theta r0,
  ApplyProofs.BddOK s -> ApplyProofs.CacheOK cget s c ->
  ApplyProofs.Den s f phi -> ApplyProofs.Den s g psi -> ApplyProofs.Den s h theta ->
  ApplyProofs.FUEL s <= fuel ->
  ApplyProofs.Den s r0 (fun c0 => if phi c0 then psi c0 else theta c0) ->
  exists c', Apply.apply_ite gt C cget cadd fuel s c f g h = Some (s, c', r0).
Proof. exact apply_ite_existing. Qed.
Print Assumptions C02_bdd_edge_ite_existing.

(** the instance the driver runs (direct-mapped cache of DD/Cache.v, ANY hash function, bucket
    count and entry capacity, initially empty; any operand order): defined, well-formed
    extension, tight, pointwise correct, and the same table and edge as the cache-free run
    under any other operand order *)
Theorem C02_bdd_edge_not_dm : forall hash nb cap s f, ApplyProofs.BddOK s -> ref_ok s f ->
  exists s' c' r,
    Apply.apply_not dm_cache (dmr_get hash) (dmr_add hash) (ApplyProofs.FUEL s) s (dm_init nb cap) f = Some (s', c', r) /\
    ApplyProofs.BddOK s' /\ BuildProofs.extends s s' /\ ApplyBddEdge.tight s s' r /\ ref_ok s' r /\
    (forall c0, ApplyProofs.bchoice c0 -> exists x,
        ApplyProofs.bvalue s f c0 x /\ ApplyProofs.bvalue s' r c0 (negb x)) /\
    exists c2', Apply.apply_not unit nc_get nc_add (ApplyProofs.FUEL s) s tt f = Some (s', c2', r).
Proof. exact apply_not_dm. Qed.
Print Assumptions C02_bdd_edge_not_dm.

Theorem C02_bdd_edge_bin_dm : forall hash gt gt2 nb cap op s f g,
  ApplyProofs.BddOK s -> ref_ok s f -> ref_ok s g ->
  exists s' c' r,
    Apply.apply_bin gt dm_cache (dmr_get hash) (dmr_add hash) (ApplyProofs.FUEL s) s (dm_init nb cap) op f g
      = Some (s', c', r) /\
    ApplyProofs.BddOK s' /\ BuildProofs.extends s s' /\ ApplyBddEdge.tight s s' r /\ ref_ok s' r /\
    (forall c0, ApplyProofs.bchoice c0 -> exists x y,
        ApplyProofs.bvalue s f c0 x /\ ApplyProofs.bvalue s g c0 y /\
        ApplyProofs.bvalue s' r c0 (eval_bop op x y)) /\
    exists c2', Apply.apply_bin gt2 unit nc_get nc_add (ApplyProofs.FUEL s) s tt op f g = Some (s', c2', r).
Proof. exact apply_bin_dm. Qed.
Print Assumptions C02_bdd_edge_bin_dm.

Theorem C02_bdd_edge_ite_dm : forall hash gt gt2 nb cap s f g h,
  ApplyProofs.BddOK s -> ref_ok s f -> ref_ok s g -> ref_ok s h ->
  exists s' c' r,
    Apply.apply_ite gt dm_cache (dmr_get hash) (dmr_add hash) (ApplyProofs.FUEL s) s (dm_init nb cap) f g h
      = Some (s', c', r) /\
    ApplyProofs.BddOK s' /\ BuildProofs.extends s s' /\ ApplyBddEdge.tight s s' r /\ ref_ok s' r /\
    (forall c0, ApplyProofs.bchoice c0 -> exists x y z,
        ApplyProofs.bvalue s f c0 x /\ ApplyProofs.bvalue s g c0 y /\ ApplyProofs.bvalue s h c0 z /\
        ApplyProofs.bvalue s' r c0 (if x then y else z)) /\
    exists c2', Apply.apply_ite gt2 unit nc_get nc_add (ApplyProofs.FUEL s) s tt f g h = Some (s', c2', r).
Proof. exact apply_ite_dm. Qed.
Print Assumptions C02_bdd_edge_ite_dm.

(** non-vacuity: on [ex_snap], (l0 <-> l1) and l1 creates exactly one node, the result (id 4);
    l1 nand l1 = not l1 exists already: node 2 is returned and the table is unchanged *)
Theorem C02_bdd_edge_example :
  ApplyProofs.BddOK ex_snap /\
  (match Apply.apply_bin edge_gt dm_cache (dmr_get edge_hash) (dmr_add edge_hash) (ApplyProofs.FUEL ex_snap) ex_snap
           (dm_init 4 8) OAnd (RN 3) (RN 1) with
   | Some (s', _, r) =>
     r = RN 4 /\ find_node ex_snap 4 = None /\
     find_node s' 4 = Some (mkNode 0 [Build.E (RN 1); Build.E (RT 0)] 0 0) /\
     length (PositiveMap.elements (s_nodes s')) = 4
   | None => False
   end) /\
  (match Apply.apply_bin edge_gt dm_cache (dmr_get edge_hash) (dmr_add edge_hash) (ApplyProofs.FUEL ex_snap) ex_snap
           (dm_init 4 8) ONand (RN 1) (RN 1) with
   | Some (s', _, r) => r = RN 2 /\ s' = ex_snap
   | None => False
   end).
Proof. exact edge_example. Qed.
Print Assumptions C02_bdd_edge_example.
