(** C03 — property theorems only (proved in DD/TableProofs.v). *)
From Coq Require Import List NArith.
From OxiVerif Require Import DD.Table DD.TableExtra DD.TableProofs.

(* the checker run on every real snapshot decides exactly the invariant WF *)
Theorem C03_wf_b_spec : forall s, wf_b s = true <-> WF s.
Proof. exact wf_b_spec. Qed.
Print Assumptions C03_wf_b_spec.

(* on a well-formed snapshot every existing edge has a meaning (fuel S n suffices) *)
Theorem C03_sem_total : forall s, WF s ->
  forall e c, ref_ok s (eref e) -> choice_ok s c -> exists v, sem_edge s e c = Some v.
Proof. exact sem_total. Qed.
Print Assumptions C03_sem_total.

Theorem C03_semk_total : forall s, WF s ->
  forall f r c, ref_ok s r -> choice_ok s c -> nlevels s - rlevel s r < f ->
  exists v, semk s f r c = Some v.
Proof. exact semk_total. Qed.
Print Assumptions C03_semk_total.

Theorem C03_semc_total : forall s, WF s ->
  forall f e c, ref_ok s (eref e) -> choice_ok s c -> nlevels s - rlevel s (eref e) < f ->
  exists b, semc s f e c = Some b.
Proof. exact semc_total. Qed.
Print Assumptions C03_semc_total.

Theorem C03_semz_total : forall s, WF s ->
  forall f lvl r c, ref_ok s r -> choice_ok s c -> lvl <= rlevel s r ->
  nlevels s - rlevel s r < f -> exists b, semz s f lvl r c = Some b.
Proof. exact semz_total. Qed.
Print Assumptions C03_semz_total.

(* any two sufficient fuels agree *)
Theorem C03_semk_fuel : forall s, WF s ->
  forall f1 f2 r c, ref_ok s r ->
  nlevels s - rlevel s r < f1 -> nlevels s - rlevel s r < f2 ->
  semk s f1 r c = semk s f2 r c.
Proof. exact semk_fuel. Qed.
Print Assumptions C03_semk_fuel.

Theorem C03_semc_fuel : forall s, WF s ->
  forall f1 f2 e c, ref_ok s (eref e) ->
  nlevels s - rlevel s (eref e) < f1 -> nlevels s - rlevel s (eref e) < f2 ->
  semc s f1 e c = semc s f2 e c.
Proof. exact semc_fuel. Qed.
Print Assumptions C03_semc_fuel.

Theorem C03_semz_fuel : forall s, WF s ->
  forall f1 f2 lvl r c, ref_ok s r ->
  nlevels s - rlevel s r < f1 -> nlevels s - rlevel s r < f2 ->
  semz s f1 lvl r c = semz s f2 lvl r c.
Proof. exact semz_fuel. Qed.
Print Assumptions C03_semz_fuel.

(* the kind-specific terminal condition needed by BCDD/ZBDD canonicity is decided too *)
Theorem C03_terms_kind_b_spec : forall s, terms_kind_b s = true <-> terms_kind s.
Proof. exact terms_kind_b_spec. Qed.
Print Assumptions C03_terms_kind_b_spec.

Theorem C03_wf_full_b_spec : forall s, wf_full_b s = true <-> WF s /\ terms_kind s.
Proof. exact wf_full_b_spec. Qed.
Print Assumptions C03_wf_full_b_spec.

(* the hypotheses are satisfiable *)
Theorem C03_example_wf : WF ex_snap.
Proof. exact ex_snap_WF. Qed.
Print Assumptions C03_example_wf.

(** ** ALL histories (HIST): the manager state machine of Mgr/History.v - constants,
    variables, not / binary / ite, the three quantifiers and their fused forms,
    restrict, substitution objects and substitute, clone, drop, gc, add_vars,
    set_var_order - from the empty manager, for every operand order [gt] and every
    cache that only serves what was added ([lossy]) *)
From Coq Require Import FMapPositive.
From OxiVerif Require Import DD.Sem DD.Apply DD.ApplyProofs DD.ApplyEvalProofs DD.Quant DD.QuantLemmas
  Mgr.History Mgr.HistoryProofs Mgr.HistoryThms Mgr.HistoryExamples.

(* what "reachable" means: the state after a history of well-formed requests from the empty manager *)
Theorem C03_hist_reach_unfold :
  forall (gt : ref -> ref -> bool) (C : Type) (cget : C -> N -> list ref -> option ref)
         (cadd : C -> N -> list ref -> ref -> C) (cempty : C) (n : nat) (st : hstate C),
  hreach gt C cget cadd cempty n st <->
  exists ops, hops_pre gt C cget cadd cempty (hinit C cempty n) ops /\
              hrun gt C cget cadd cempty (hinit C cempty n) ops = Some st.
Proof. exact (fun gt C cget cadd cempty n st => iff_refl _). Qed.
Print Assumptions C03_hist_reach_unfold.

(* the invariant that holds whenever no operation is in progress *)
Theorem C03_hist_inv_unfold :
  forall (C : Type) (cget : C -> N -> list ref -> option ref) (st : hstate C),
  HInv C cget st <->
  (BddOK (h_s C st) /\
   QCacheOK cget (hreg_fn (h_reg C st)) (h_s C st) (h_c C st) /\
   (forall id pairs, In (id, pairs) (h_reg C st) ->
      NoDup (map fst pairs) /\
      forall v r, In (v, r) pairs -> v < nlevels (h_s C st) /\ ref_ok (h_s C st) r) /\
   (forall id pairs, In (id, pairs) (h_reg C st) -> N.lt id (h_next C st))).
Proof. exact hinv_unfold. Qed.
Print Assumptions C03_hist_inv_unfold.

Theorem C03_hist_init_inv :
  forall (C : Type) (cget : C -> N -> list ref -> option ref) (cempty : C),
  (forall k a, cget cempty k a = None) -> forall n, HInv C cget (hinit C cempty n).
Proof. exact hinit_inv. Qed.
Print Assumptions C03_hist_init_inv.

(* one call of any kind: completes, re-establishes the invariant, frame, result *)
Theorem C03_hist_step :
  forall (gt : ref -> ref -> bool) (C : Type) (cget : C -> N -> list ref -> option ref)
         (cadd : C -> N -> list ref -> ref -> C), lossy cget cadd ->
  forall cempty : C, (forall k a, cget cempty k a = None) ->
  forall (st : hstate C) (o : hop), HInv C cget st -> hop_pre C st o ->
  exists st', hstep gt C cget cadd cempty st o = Some st' /\
              HInv C cget st' /\ hframe C st o st' /\ hpost C st o st'.
Proof. exact hstep_ok. Qed.
Print Assumptions C03_hist_step.

(* whole histories *)
Theorem C03_hist_run_ok :
  forall (gt : ref -> ref -> bool) (C : Type) (cget : C -> N -> list ref -> option ref)
         (cadd : C -> N -> list ref -> ref -> C), lossy cget cadd ->
  forall cempty : C, (forall k a, cget cempty k a = None) ->
  forall ops st, HInv C cget st -> hops_pre gt C cget cadd cempty st ops ->
  exists st', hrun gt C cget cadd cempty st ops = Some st' /\ HInv C cget st'.
Proof. exact hrun_ok. Qed.
Print Assumptions C03_hist_run_ok.

(* from any reachable state no well-formed request gets stuck, and the state reached is reachable *)
Theorem C03_hist_never_stuck :
  forall (gt : ref -> ref -> bool) (C : Type) (cget : C -> N -> list ref -> option ref)
         (cadd : C -> N -> list ref -> ref -> C), lossy cget cadd ->
  forall cempty : C, (forall k a, cget cempty k a = None) ->
  forall n st o, hreach gt C cget cadd cempty n st -> hop_pre C st o ->
  exists st', hstep gt C cget cadd cempty st o = Some st' /\
              hreach gt C cget cadd cempty n st' /\ hframe C st o st' /\ hpost C st o st'.
Proof. exact hist_progress. Qed.
Print Assumptions C03_hist_never_stuck.

(* the property: after ANY history the table passes the structural checker run on real snapshots *)
Theorem C03_hist_wf :
  forall (gt : ref -> ref -> bool) (C : Type) (cget : C -> N -> list ref -> option ref)
         (cadd : C -> N -> list ref -> ref -> C), lossy cget cadd ->
  forall cempty : C, (forall k a, cget cempty k a = None) ->
  forall n st, hreach gt C cget cadd cempty n st ->
  wf_b (h_s C st) = true /\ bdd_ok_b (h_s C st) = true.
Proof. exact hist_wf. Qed.
Print Assumptions C03_hist_wf.

(* well-formedness of a request is decidable: the executable checker decides it *)
Theorem C03_hist_pre_checker :
  forall (C : Type) (st : hstate C) (o : hop), hop_pre_b C st o = true <-> hop_pre C st o.
Proof. exact hop_pre_b_spec. Qed.
Print Assumptions C03_hist_pre_checker.

Theorem C03_hist_run_checked :
  forall (gt : ref -> ref -> bool) (C : Type) (cget : C -> N -> list ref -> option ref)
         (cadd : C -> N -> list ref -> ref -> C), lossy cget cadd ->
  forall cempty : C, (forall k a, cget cempty k a = None) ->
  forall n ops, hops_pre_b gt C cget cadd cempty (hinit C cempty n) ops = true ->
  exists st, hrun gt C cget cadd cempty (hinit C cempty n) ops = Some st /\
             hreach gt C cget cadd cempty n st.
Proof. exact hrun_checked. Qed.
Print Assumptions C03_hist_run_checked.

(* non-vacuity: a history of 24 calls through all 15 kinds, accepted by the checker, computed *)
Theorem C03_hist_example_cover :
  forallb (fun t => existsb (fun o => Nat.eqb (hop_tag o) t) ex_ops) (seq 0 15) = true /\ length ex_ops = 24.
Proof. exact ex_ops_cover. Qed.
Print Assumptions C03_hist_example_cover.

Theorem C03_hist_example_run :
  hops_pre_b gtA acache ac_get ac_add nil (hinit acache nil 3) ex_ops = true /\
  hrun gtA acache ac_get ac_add nil (hinit acache nil 3) ex_ops = Some ex_stA /\
  PositiveMap.cardinal (s_nodes (h_s acache ex_stA)) = 15 /\
  s_l2v (h_s acache ex_stA) = (2 :: 0 :: 1 :: 3 :: nil) /\
  wf_b (h_s acache ex_stA) = true.
Proof. exact (conj ex_preA (conj ex_runA (conj (proj1 ex_stA_shape)
         (conj (proj1 (proj2 ex_stA_shape)) (proj1 ex_wfA))))). Qed.
Print Assumptions C03_hist_example_run.

(* ---- C03n: "the node count of any handle equals the size of the unique reduced diagram of its
   function under the current order" (DD/BuildCanon.v: build_bdd / build_bcdd / build_zbdd construct the
   reduced diagram of a function of the levels in a table of their own; canonical_count s e = node
   count of the diagram built from e's function under s's order; proofs in DD/BuildCanonProofs.v,
   DD/BuildCanonBcdd.v, DD/BuildCanonZbdd.v, DD/BuildCanonAll.v) ---- *)
From OxiVerif Require Import DD.Build DD.BuildProofs DD.ApplyBcdd DD.ApplyBcddProofs DD.FamSpec DD.ZbddOps DD.ZbddOpsProofs DD.Iso
  DD.BuildCanon DD.BuildCanonProofs DD.BuildCanonBcdd DD.BuildCanonZbdd DD.BuildCanonAll.

(* the statement of the clause, for every snapshot the checker bool_kind_ok_b accepts (well-formed
   BDD / BCDD / ZBDD table) and every existing edge: the diagram can be built and has count_reach nodes *)
Theorem C03_node_count_canonical : forall s e, bool_kind_ok_b s = true -> ref_ok s (eref e) ->
  canonical_count s e = Some (count_reach s e).
Proof. exact node_count_canonical. Qed.
Print Assumptions C03_node_count_canonical.

Theorem C03_node_count_canonical_handles : forall s h, bool_kind_ok_b s = true -> In h (s_handles s) ->
  canonical_count s (snd h) = Some (count_reach s (snd h)).
Proof. exact node_count_canonical_handles. Qed.
Print Assumptions C03_node_count_canonical_handles.

Theorem C03_node_count_canonical_checker : forall s,
  bool_kind_ok_b s = true <-> BddOK s \/ BcOK s \/ ZbddOK s.
Proof. exact bool_kind_ok_b_spec. Qed.
Print Assumptions C03_node_count_canonical_checker.

(* the built table: same kind and order, accepted by the same checker, root exists *)
Theorem C03_node_count_canonical_build_kind : forall s f, bool_kind_ok_b s = true ->
  exists s' e', build_kind (s_kind s) (s_v2l s) (s_l2v s) f = Some (s', e') /\
    bool_kind_ok_b s' = true /\ s_kind s' = s_kind s /\
    s_v2l s' = s_v2l s /\ s_l2v s' = s_l2v s /\ ref_ok s' (eref e').
Proof. exact build_kind_ok. Qed.
Print Assumptions C03_node_count_canonical_build_kind.

(* build yields a well-formed table whose edge denotes the function (restricted to the n levels) *)
Theorem C03_node_count_canonical_build_bdd : forall v2l l2v f, order_ok v2l l2v ->
  exists s e, build_bdd v2l l2v f = Some (s, e) /\ BddOK s /\
    s_v2l s = v2l /\ s_l2v s = l2v /\ s_handles s = nil /\ etag e = false /\
    Den s (eref e) (fun c => f (ctrunc (length l2v) c)).
Proof. exact build_bdd_ok. Qed.
Print Assumptions C03_node_count_canonical_build_bdd.

Theorem C03_node_count_canonical_build_bcdd : forall v2l l2v f, order_ok v2l l2v ->
  exists s e, build_bcdd v2l l2v f = Some (s, e) /\ BcOK s /\
    s_v2l s = v2l /\ s_l2v s = l2v /\ s_handles s = nil /\
    DenC s e (fun c => f (ctrunc (length l2v) c)).
Proof. exact build_bcdd_ok. Qed.
Print Assumptions C03_node_count_canonical_build_bcdd.

(* ZBDD: the family of the sets of true levels on which f holds ... *)
Theorem C03_node_count_canonical_build_zbdd : forall v2l l2v f, order_ok v2l l2v ->
  exists s e, build_zbdd v2l l2v f = Some (s, e) /\ ZbddOK s /\
    s_v2l s = v2l /\ s_l2v s = l2v /\ s_handles s = nil /\ etag e = false /\
    ZDen s (eref e) (PZ f 0 (length l2v) (fun _ => 0)).
Proof. exact build_zbdd_ok. Qed.
Print Assumptions C03_node_count_canonical_build_zbdd.

(* ... i.e. the Boolean view of the root (what sem_edge evaluates) is f *)
Theorem C03_node_count_canonical_build_zbdd_view : forall v2l l2v f, order_ok v2l l2v ->
  exists s e, build_zbdd v2l l2v f = Some (s, e) /\ ZbddOK s /\
    forall c, bchoice c ->
      semz s (S (nlevels s)) 0 (eref e) c = Some (f (ctrunc (length l2v) c)).
Proof. exact build_zbdd_view. Qed.
Print Assumptions C03_node_count_canonical_build_zbdd_view.

(* a function of the n levels only is denoted exactly *)
Theorem C03_node_count_canonical_build_bdd_den : forall v2l l2v f, order_ok v2l l2v ->
  levels_only (length l2v) f ->
  exists s e, build_bdd v2l l2v f = Some (s, e) /\ BddOK s /\ Den s (eref e) f.
Proof. exact build_bdd_den. Qed.
Print Assumptions C03_node_count_canonical_build_bdd_den.

Theorem C03_node_count_canonical_build_bcdd_den : forall v2l l2v f, order_ok v2l l2v ->
  levels_only (length l2v) f ->
  exists s e, build_bcdd v2l l2v f = Some (s, e) /\ BcOK s /\ DenC s e f.
Proof. exact build_bcdd_den. Qed.
Print Assumptions C03_node_count_canonical_build_bcdd_den.

(* construction inside an arbitrary existing table of the kind *)
Theorem C03_node_count_canonical_build_bdd_from : forall cnt s lvl f c0, BddOK s -> lvl + cnt = nlevels s ->
  exists s' r, build_bdd_from s lvl cnt f c0 = Some (s', r) /\ BddOK s' /\ extends s s' /\
    Den s' r (fun c => f (cmerge lvl cnt c0 c)).
Proof. exact build_bdd_from_ok. Qed.
Print Assumptions C03_node_count_canonical_build_bdd_from.

Theorem C03_node_count_canonical_build_bcdd_from : forall cnt s lvl f c0, BcOK s -> lvl + cnt = nlevels s ->
  exists s' e, build_bcdd_from s lvl cnt f c0 = Some (s', e) /\ BcOK s' /\ extends s s' /\
    DenC s' e (fun c => f (cmerge lvl cnt c0 c)).
Proof. exact build_bcdd_from_ok. Qed.
Print Assumptions C03_node_count_canonical_build_bcdd_from.

Theorem C03_node_count_canonical_build_zbdd_from : forall cnt s lvl f c0, ZbddOK s -> lvl + cnt = nlevels s ->
  exists s' r, build_zbdd_from s lvl cnt f c0 = Some (s', r) /\ ZbddOK s' /\ extends s s' /\
    ZDen s' r (PZ f lvl cnt c0).
Proof. exact build_zbdd_from_ok. Qed.
Print Assumptions C03_node_count_canonical_build_zbdd_from.

(* what the leaves of the construction evaluate the function at *)
Theorem C03_node_count_canonical_cmerge : forall cnt lvl c0 c l,
  cmerge lvl cnt c0 c l = if andb (Nat.leb lvl l) (Nat.ltb l (lvl + cnt)) then c l else c0 l.
Proof. exact cmerge_spec. Qed.
Print Assumptions C03_node_count_canonical_cmerge.

(* UNIQUENESS: every reference / edge of every table of the kind (any manager, any history) that
   denotes f has as many nodes as the built diagram, and its sub-diagram is isomorphic to it *)
Theorem C03_node_count_canonical_unique_bdd : forall s r f v2l l2v, BddOK s -> order_ok v2l l2v ->
  length l2v = nlevels s -> Den s r (fun c => f (ctrunc (length l2v) c)) ->
  exists s' e', build_bdd v2l l2v f = Some (s', e') /\ BddOK s' /\
    count_reach s (E r) = count_reach s' e' /\
    exists R, iso s s' R /\ R r (eref e').
Proof. exact bdd_count_is_build. Qed.
Print Assumptions C03_node_count_canonical_unique_bdd.

Theorem C03_node_count_canonical_unique_bcdd : forall s e f v2l l2v, BcOK s -> order_ok v2l l2v ->
  length l2v = nlevels s -> DenC s e (fun c => f (ctrunc (length l2v) c)) ->
  exists s' e', build_bcdd v2l l2v f = Some (s', e') /\ BcOK s' /\
    count_reach s e = count_reach s' e' /\ etag e = etag e' /\
    exists R, iso s s' R /\ R (eref e) (eref e').
Proof. exact bcdd_count_is_build. Qed.
Print Assumptions C03_node_count_canonical_unique_bcdd.

Theorem C03_node_count_canonical_unique_zbdd : forall s r f v2l l2v, ZbddOK s -> order_ok v2l l2v ->
  length l2v = nlevels s -> ZDen s r (PZ f 0 (length l2v) (fun _ => 0)) ->
  exists s' e', build_zbdd v2l l2v f = Some (s', e') /\ ZbddOK s' /\
    count_reach s (E r) = count_reach s' e' /\
    exists R, iso s s' R /\ R r (eref e').
Proof. exact zbdd_count_is_build. Qed.
Print Assumptions C03_node_count_canonical_unique_zbdd.

(* between any two tables of a kind: same denotation => isomorphic sub-diagrams *)
Theorem C03_node_count_canonical_iso_bdd : forall s1 s2 r1 r2 phi, BddOK s1 -> BddOK s2 ->
  nlevels s1 = nlevels s2 -> Den s1 r1 phi -> Den s2 r2 phi ->
  exists R, iso s1 s2 R /\ R r1 r2.
Proof. exact bdd_diagram_unique. Qed.
Print Assumptions C03_node_count_canonical_iso_bdd.

Theorem C03_node_count_canonical_iso_bcdd : forall s1 s2, BcOK s1 -> BcOK s2 -> nlevels s1 = nlevels s2 ->
  forall e1 e2 phi, DenC s1 e1 phi -> DenC s2 e2 phi ->
  etag e1 = etag e2 /\ exists R, iso s1 s2 R /\ R (eref e1) (eref e2).
Proof. exact bcdd_diagram_unique. Qed.
Print Assumptions C03_node_count_canonical_iso_bcdd.

Theorem C03_node_count_canonical_iso_zbdd : forall s1 s2, ZbddOK s1 -> ZbddOK s2 -> nlevels s1 = nlevels s2 ->
  forall r1 r2 P, ZDen s1 r1 P -> ZDen s2 r2 P ->
  exists R, iso s1 s2 R /\ R r1 r2.
Proof. exact zbdd_diagram_unique. Qed.
Print Assumptions C03_node_count_canonical_iso_zbdd.

(* isomorphic sub-diagrams have the same number of nodes *)
Theorem C03_node_count_canonical_iso_count : forall s1 s2 R, iso s1 s2 R -> arity_ok s1 -> arity_ok s2 ->
  forall e1 e2, R (eref e1) (eref e2) -> count_reach s1 e1 = count_reach s2 e2.
Proof. exact iso_count. Qed.
Print Assumptions C03_node_count_canonical_iso_count.

(* in terms of a function of the variables: [lvl_fun (s_v2l s) g] is g under the table's order *)
Theorem C03_node_count_canonical_bfun : forall s r (g : bfun), BddOK s -> ref_ok s r ->
  (forall a, bfun_of s r a = g a) ->
  exists s' e', build_bdd (s_v2l s) (s_l2v s) (lvl_fun (s_v2l s) g) = Some (s', e') /\ BddOK s' /\
    count_reach s (E r) = count_reach s' e'.
Proof. exact bdd_node_count_bfun. Qed.
Print Assumptions C03_node_count_canonical_bfun.

(* the hypotheses are satisfiable, the numbers are the expected ones, the order matters *)
Theorem C03_node_count_canonical_examples :
  bool_kind_ok_b ex_snap = true /\ bool_kind_ok_b ex_bcdd = true /\ bool_kind_ok_b ex_zbdd = true /\
  canonical_count ex_snap (ex_edge (RN 3)) = Some 5%N /\ count_reach ex_snap (ex_edge (RN 3)) = 5%N /\
  canonical_count ex_bcdd (mkEdge (RN 2) true) = Some 3%N /\ count_reach ex_bcdd (mkEdge (RN 2) true) = 3%N /\
  canonical_count ex_zbdd (ex_edge (RN 2)) = Some 4%N /\ count_reach ex_zbdd (ex_edge (RN 2)) = 4%N.
Proof. exact ex_canonical_counts. Qed.
Print Assumptions C03_node_count_canonical_examples.

Theorem C03_node_count_canonical_order_matters :
  size_of (build_bdd (0 :: 1 :: 2 :: 3 :: nil) (0 :: 1 :: 2 :: 3 :: nil) (lvl_fun (0 :: 1 :: 2 :: 3 :: nil) ex_pairs)) = Some 6%N /\
  size_of (build_bdd (0 :: 2 :: 1 :: 3 :: nil) (0 :: 2 :: 1 :: 3 :: nil) (lvl_fun (0 :: 2 :: 1 :: 3 :: nil) ex_pairs)) = Some 8%N /\
  size_of (build_bcdd (0 :: 1 :: 2 :: 3 :: nil) (0 :: 1 :: 2 :: 3 :: nil) (lvl_fun (0 :: 1 :: 2 :: 3 :: nil) ex_pairs)) = Some 5%N /\
  size_of (build_bcdd (0 :: 2 :: 1 :: 3 :: nil) (0 :: 2 :: 1 :: 3 :: nil) (lvl_fun (0 :: 2 :: 1 :: 3 :: nil) ex_pairs)) = Some 7%N /\
  size_of (build_zbdd (0 :: 1 :: 2 :: 3 :: nil) (0 :: 1 :: 2 :: 3 :: nil) (lvl_fun (0 :: 1 :: 2 :: 3 :: nil) ex_pairs)) = Some 9%N /\
  size_of (build_zbdd (0 :: 2 :: 1 :: 3 :: nil) (0 :: 2 :: 1 :: 3 :: nil) (lvl_fun (0 :: 2 :: 1 :: 3 :: nil) ex_pairs)) = Some 10%N.
Proof. exact ex_order_matters. Qed.
Print Assumptions C03_node_count_canonical_order_matters.

(* what count_reach counts: the stored inner nodes and the terminals reachable from the edge, each once *)
From OxiVerif Require Import DD.ReachSpec.
Theorem C03_node_count_canonical_count_reach_spec : forall s, arity_ok s -> forall e,
  exists (ns : list positive) (ts : list N),
  NoDup ns /\ NoDup ts /\
  (forall id, In id ns <-> reachable s (eref e :: nil) (RN id) /\ find_node s id <> None) /\
  (forall t, In t ts <-> reachable s (eref e :: nil) (RT t)) /\
  count_reach s e = N.of_nat (length ns + length ts).
Proof. exact count_reach_spec. Qed.
Print Assumptions C03_node_count_canonical_count_reach_spec.

(* an iso that relates two roots is total and onto between the two reachable sub-diagrams, and single-valued *)
Theorem C03_node_count_canonical_iso_reachable : forall s1 s2 R, iso s1 s2 R -> forall r1 r2, R r1 r2 ->
  (forall x, reachable s1 (r1 :: nil) x -> exists y, reachable s2 (r2 :: nil) y /\ R x y) /\
  (forall y, reachable s2 (r2 :: nil) y -> exists x, reachable s1 (r1 :: nil) x /\ R x y).
Proof. exact iso_reachable. Qed.
Print Assumptions C03_node_count_canonical_iso_reachable.

Theorem C03_node_count_canonical_iso_functional : forall s1 s2 R, bisim s1 s2 R ->
  forall x y y', R x y -> R x y' -> y = y'.
Proof. exact bisim_functional. Qed.
Print Assumptions C03_node_count_canonical_iso_functional.

(* the textbook characterisation (BDD kind): the references reachable from a reference denoting phi are
   exactly the distinct subfunctions of phi (levels above fixed), a node sitting at level L iff its
   subfunction depends on level L; one reference per function by canonicity (C01) *)
From OxiVerif Require Import DD.BuildCanonSub.
Theorem C03_node_count_canonical_reachable_is_sub : forall s, BddOK s -> forall r phi, Den s r phi ->
  forall x, reachable s (r :: nil) x ->
  exists p, bchoice p /\ Den s x (sub phi (rlevel s x) p).
Proof. exact reachable_is_sub. Qed.
Print Assumptions C03_node_count_canonical_reachable_is_sub.

Theorem C03_node_count_canonical_sub_is_reachable : forall s, BddOK s -> forall r phi, Den s r phi ->
  forall L p, L <= nlevels s -> bchoice p ->
  exists x, reachable s (r :: nil) x /\ Den s x (sub phi L p) /\ L <= rlevel s x.
Proof. exact sub_is_reachable. Qed.
Print Assumptions C03_node_count_canonical_sub_is_reachable.

Theorem C03_node_count_canonical_sub_level_iff : forall s, BddOK s -> forall r phi, Den s r phi ->
  forall L p x, L < nlevels s -> bchoice p -> Den s x (sub phi L p) ->
  (rlevel s x = L <-> depends_on (sub phi L p) L).
Proof. exact sub_level_iff. Qed.
Print Assumptions C03_node_count_canonical_sub_level_iff.

(* the textbook count: canon_size_bdd n phi = (sum over the levels L of the number of distinct pairs of
   cofactor tables, w.r.t. level L, of the subfunctions of phi with the levels above L fixed, whose two
   components differ) + (number of distinct values of phi); no diagram is built.  It equals the node
   count of every reference of every well-formed BDD table denoting phi. *)
From OxiVerif Require Import DD.BuildCanonSize.
Theorem C03_node_count_canonical_size : forall s, BddOK s -> forall r phi, Den s r phi ->
  count_reach s (E r) = canon_size_bdd (nlevels s) phi.
Proof. exact bdd_count_is_canon_size. Qed.
Print Assumptions C03_node_count_canonical_size.

Theorem C03_node_count_canonical_size_edge : forall s e, BddOK s -> ref_ok s (eref e) ->
  count_reach s e = canon_size_bdd (nlevels s) (cfun_of s e).
Proof. exact bdd_node_count_canon_size. Qed.
Print Assumptions C03_node_count_canonical_size_edge.

Theorem C03_node_count_canonical_size_build : forall v2l l2v f, order_ok v2l l2v ->
  exists s e, build_bdd v2l l2v f = Some (s, e) /\ BddOK s /\
    count_reach s e = canon_size_bdd (length l2v) (fun c => f (ctrunc (length l2v) c)).
Proof. exact build_bdd_canon_size. Qed.
Print Assumptions C03_node_count_canonical_size_build.

(* the tables list exactly the values on the merged choices *)
Theorem C03_node_count_canonical_size_table : forall cnt lvl f c0 b,
  In b (table lvl cnt f c0) <-> exists q, bchoice q /\ b = f (cmerge lvl cnt c0 q).
Proof. exact table_In. Qed.
Print Assumptions C03_node_count_canonical_size_table.

Theorem C03_node_count_canonical_size_subpairs : forall d lvl k f c0 pr,
  In pr (subpairs lvl d k f c0) <-> exists q, bchoice q /\ pr = pair_at lvl d k f c0 q.
Proof. exact subpairs_In. Qed.
Print Assumptions C03_node_count_canonical_size_subpairs.

Theorem C03_node_count_canonical_size_examples :
  canon_size_bdd (nlevels ex_snap) (cfun_of ex_snap (ex_edge (RN 3))) = 5%N /\
  count_reach ex_snap (ex_edge (RN 3)) = 5%N /\
  canon_size_bdd 4 (lvl_fun (0 :: 1 :: 2 :: 3 :: nil) (fun a => orb (andb (a 0) (a 1)) (andb (a 2) (a 3)))) = 6%N /\
  canon_size_bdd 4 (lvl_fun (0 :: 2 :: 1 :: 3 :: nil) (fun a => orb (andb (a 0) (a 1)) (andb (a 2) (a 3)))) = 8%N /\
  canon_size_bdd 3 (fun _ => true) = 1%N /\
  canon_size_bdd 3 (fun c => Nat.eqb (c 1) 0) = 3%N.
Proof. exact ex_canon_size. Qed.
Print Assumptions C03_node_count_canonical_size_examples.

(* BCDD: the same with subfunctions taken up to complement (the untagged edge to a reference denotes the
   representative that is true on the all-"then" choice); exactly one terminal is reachable *)
From OxiVerif Require Import DD.BuildCanonSizeBcdd.
Theorem C03_node_count_canonical_size_bcdd : forall s, BcOK s -> forall e phi, DenC s e phi ->
  count_reach s e = canon_size_bcdd (nlevels s) phi.
Proof. exact bcdd_count_is_canon_size. Qed.
Print Assumptions C03_node_count_canonical_size_bcdd.

Theorem C03_node_count_canonical_size_bcdd_edge : forall s e, BcOK s -> ref_ok s (eref e) ->
  count_reach s e = canon_size_bcdd (nlevels s) (cfun_of s e).
Proof. exact bcdd_node_count_canon_size. Qed.
Print Assumptions C03_node_count_canonical_size_bcdd_edge.

Theorem C03_node_count_canonical_size_bcdd_build : forall v2l l2v f, order_ok v2l l2v ->
  exists s e, build_bcdd v2l l2v f = Some (s, e) /\ BcOK s /\
    count_reach s e = canon_size_bcdd (length l2v) (fun c => f (ctrunc (length l2v) c)).
Proof. exact build_bcdd_canon_size. Qed.
Print Assumptions C03_node_count_canonical_size_bcdd_build.

Theorem C03_node_count_canonical_bcdd_reachable_is_sub : forall s, BcOK s -> forall e0 phi, DenC s e0 phi ->
  forall x, reachable s (eref e0 :: nil) x ->
  exists p t, bchoice p /\ DenC s (mkEdge x t) (sub phi (rlevel s x) p).
Proof. exact creachable_is_sub. Qed.
Print Assumptions C03_node_count_canonical_bcdd_reachable_is_sub.

Theorem C03_node_count_canonical_bcdd_sub_is_reachable : forall s, BcOK s -> forall e0 phi, DenC s e0 phi ->
  forall L p, L <= nlevels s -> bchoice p ->
  exists x t, reachable s (eref e0 :: nil) x /\ DenC s (mkEdge x t) (sub phi L p) /\ L <= rlevel s x.
Proof. exact csub_is_reachable. Qed.
Print Assumptions C03_node_count_canonical_bcdd_sub_is_reachable.

Theorem C03_node_count_canonical_bcdd_sub_level_iff : forall s, BcOK s -> forall e0 phi, DenC s e0 phi ->
  forall L p e, L < nlevels s -> bchoice p -> DenC s e (sub phi L p) ->
  (rlevel s (eref e) = L <-> depends_on (sub phi L p) L).
Proof. exact csub_level_iff. Qed.
Print Assumptions C03_node_count_canonical_bcdd_sub_level_iff.

Theorem C03_node_count_canonical_size_bcdd_examples :
  canon_size_bcdd (nlevels ex_bcdd) (cfun_of ex_bcdd (mkEdge (RN 2) true)) = 3%N /\
  count_reach ex_bcdd (mkEdge (RN 2) true) = 3%N /\
  canon_size_bcdd 4 (lvl_fun (0 :: 1 :: 2 :: 3 :: nil) (fun a => orb (andb (a 0) (a 1)) (andb (a 2) (a 3)))) = 5%N /\
  canon_size_bcdd 4 (lvl_fun (0 :: 2 :: 1 :: 3 :: nil) (fun a => orb (andb (a 0) (a 1)) (andb (a 2) (a 3)))) = 7%N /\
  canon_size_bcdd 3 (fun _ => false) = 1%N.
Proof. exact ex_canon_size_bcdd. Qed.
Print Assumptions C03_node_count_canonical_size_bcdd_examples.

(* ZBDD: sub-families (levels above L fixed) instead of subfunctions; a node sits at level L iff some member
   of the sub-family contains L; Base is reachable iff the family is non-empty, Empty iff the family is empty
   or some node's else-part is *)
From OxiVerif Require Import DD.BuildCanonSizeZbdd.
Theorem C03_node_count_canonical_size_zbdd : forall s, ZbddOK s -> forall r f,
  levels_only (nlevels s) f -> ZDen s r (PZ f 0 (nlevels s) (fun _ => 0)) ->
  count_reach s (E r) = canon_size_zbdd (nlevels s) f.
Proof. exact zbdd_count_is_canon_size. Qed.
Print Assumptions C03_node_count_canonical_size_zbdd.

Theorem C03_node_count_canonical_size_zbdd_edge : forall s e, ZbddOK s -> ref_ok s (eref e) ->
  count_reach s e = canon_size_zbdd (nlevels s) (cfun_of s e).
Proof. exact zbdd_node_count_canon_size. Qed.
Print Assumptions C03_node_count_canonical_size_zbdd_edge.

Theorem C03_node_count_canonical_size_zbdd_build : forall v2l l2v f, order_ok v2l l2v ->
  levels_only (length l2v) f ->
  exists s e, build_zbdd v2l l2v f = Some (s, e) /\ ZbddOK s /\
    count_reach s e = canon_size_zbdd (length l2v) f.
Proof. exact build_zbdd_canon_size. Qed.
Print Assumptions C03_node_count_canonical_size_zbdd_build.

Theorem C03_node_count_canonical_zbdd_reachable_is_sub : forall s, ZbddOK s -> forall r f,
  levels_only (nlevels s) f -> ZDen s r (PZ f 0 (nlevels s) (fun _ => 0)) ->
  forall x, reachable s (r :: nil) x ->
  exists p, bchoice p /\ ZDen s x (Q s f (rlevel s x) p).
Proof. exact zreachable_is_sub. Qed.
Print Assumptions C03_node_count_canonical_zbdd_reachable_is_sub.

Theorem C03_node_count_canonical_zbdd_sub_is_reachable : forall s, ZbddOK s -> forall r f,
  levels_only (nlevels s) f -> ZDen s r (PZ f 0 (nlevels s) (fun _ => 0)) ->
  forall L p, L <= nlevels s -> bchoice p -> (exists S0, Q s f L p S0) ->
  exists x, reachable s (r :: nil) x /\ ZDen s x (Q s f L p) /\ L <= rlevel s x.
Proof. exact zsub_is_reachable. Qed.
Print Assumptions C03_node_count_canonical_zbdd_sub_is_reachable.

Theorem C03_node_count_canonical_zbdd_sub_level_iff : forall s, ZbddOK s -> forall f L p x,
  L < nlevels s -> ZDen s x (Q s f L p) ->
  (rlevel s x = L <-> exists T, Qc s f L p 0 T).
Proof. exact zsub_level_iff. Qed.
Print Assumptions C03_node_count_canonical_zbdd_sub_level_iff.

Theorem C03_node_count_canonical_size_zbdd_examples :
  canon_size_zbdd (nlevels ex_zbdd) (cfun_of ex_zbdd (ex_edge (RN 2))) = 4%N /\
  count_reach ex_zbdd (ex_edge (RN 2)) = 4%N /\
  canon_size_zbdd 4 (lvl_fun (0 :: 1 :: 2 :: 3 :: nil) (fun a => orb (andb (a 0) (a 1)) (andb (a 2) (a 3)))) = 9%N /\
  canon_size_zbdd 4 (lvl_fun (0 :: 2 :: 1 :: 3 :: nil) (fun a => orb (andb (a 0) (a 1)) (andb (a 2) (a 3)))) = 10%N /\
  canon_size_zbdd 3 (fun _ => false) = 1%N /\
  canon_size_zbdd 3 (fun c => andb (andb (Nat.eqb (c 0) 1) (Nat.eqb (c 1) 1)) (Nat.eqb (c 2) 1)) = 1%N.
Proof. exact ex_canon_size_zbdd. Qed.
Print Assumptions C03_node_count_canonical_size_zbdd_examples.

(** ** ALL histories, complement-edge kind (HISTc): the BCDD manager state machine of
    Mgr/HistoryC.v - the same 15 kinds of calls as above with the BCDD models (DD/ApplyBcdd.v,
    DD/QuantBcdd.v, Mgr/LevelSwapC.v) - from the empty manager, for every edge order [lt] and
    every cache that only serves what was added ([lossyC]).  Slots hold EDGES (reference +
    complement tag). *)
From OxiVerif Require Import DD.ApplyBcdd DD.ApplyBcddProofs DD.ApplyBcddEval DD.QuantBcddLemmas
  Mgr.HistoryC Mgr.HistoryCProofs Mgr.HistoryCThms Mgr.HistoryCExamples.

(* what "reachable" means: the state after a history of well-formed requests from the empty manager *)
Theorem C03_histc_reach_unfold :
  forall (lt : edge -> edge -> bool) (C : Type) (cget : C -> N -> list edge -> option edge)
         (cadd : C -> N -> list edge -> edge -> C) (cempty : C) (n : nat) (st : hstate_c C),
  hreach_c lt C cget cadd cempty n st <->
  exists ops, hops_pre_c lt C cget cadd cempty (hinit_c C cempty n) ops /\
              hrun_c lt C cget cadd cempty (hinit_c C cempty n) ops = Some st.
Proof. exact (fun lt C cget cadd cempty n st => iff_refl _). Qed.
Print Assumptions C03_histc_reach_unfold.

(* the invariant that holds whenever no operation is in progress *)
Theorem C03_histc_inv_unfold :
  forall (C : Type) (cget : C -> N -> list edge -> option edge) (st : hstate_c C),
  HInvC C cget st <->
  (BcOK (hc_s C st) /\
   QCacheOKC cget (creg_fn (hc_reg C st)) (hc_s C st) (hc_c C st) /\
   (forall id pairs, In (id, pairs) (hc_reg C st) ->
      NoDup (map fst pairs) /\
      forall v e, In (v, e) pairs -> v < nlevels (hc_s C st) /\ ref_ok (hc_s C st) (eref e)) /\
   (forall id pairs, In (id, pairs) (hc_reg C st) -> N.lt id (hc_next C st))).
Proof. exact hinvc_unfold. Qed.
Print Assumptions C03_histc_inv_unfold.

Theorem C03_histc_init_inv :
  forall (C : Type) (cget : C -> N -> list edge -> option edge) (cempty : C),
  (forall k a, cget cempty k a = None) -> forall n, HInvC C cget (hinit_c C cempty n).
Proof. exact hinit_c_inv. Qed.
Print Assumptions C03_histc_init_inv.

(* one call of any kind: completes, re-establishes the invariant, frame, result *)
Theorem C03_histc_step :
  forall (lt : edge -> edge -> bool) (C : Type) (cget : C -> N -> list edge -> option edge)
         (cadd : C -> N -> list edge -> edge -> C), lossyC cget cadd ->
  forall cempty : C, (forall k a, cget cempty k a = None) ->
  forall (st : hstate_c C) (o : hop), HInvC C cget st -> hop_pre_c C st o ->
  exists st', hstep_c lt C cget cadd cempty st o = Some st' /\
              HInvC C cget st' /\ hframe_c C st o st' /\ hpost_c C st o st'.
Proof. exact hstep_c_ok. Qed.
Print Assumptions C03_histc_step.

(* whole histories *)
Theorem C03_histc_run_ok :
  forall (lt : edge -> edge -> bool) (C : Type) (cget : C -> N -> list edge -> option edge)
         (cadd : C -> N -> list edge -> edge -> C), lossyC cget cadd ->
  forall cempty : C, (forall k a, cget cempty k a = None) ->
  forall ops st, HInvC C cget st -> hops_pre_c lt C cget cadd cempty st ops ->
  exists st', hrun_c lt C cget cadd cempty st ops = Some st' /\ HInvC C cget st'.
Proof. exact hrun_c_ok. Qed.
Print Assumptions C03_histc_run_ok.

(* from any reachable state no well-formed request gets stuck, and the state reached is reachable *)
Theorem C03_histc_never_stuck :
  forall (lt : edge -> edge -> bool) (C : Type) (cget : C -> N -> list edge -> option edge)
         (cadd : C -> N -> list edge -> edge -> C), lossyC cget cadd ->
  forall cempty : C, (forall k a, cget cempty k a = None) ->
  forall n st o, hreach_c lt C cget cadd cempty n st -> hop_pre_c C st o ->
  exists st', hstep_c lt C cget cadd cempty st o = Some st' /\
              hreach_c lt C cget cadd cempty n st' /\ hframe_c C st o st' /\ hpost_c C st o st'.
Proof. exact histc_progress. Qed.
Print Assumptions C03_histc_never_stuck.

(* the property: after ANY history the BCDD table passes the structural checkers run on real snapshots *)
Theorem C03_histc_wf :
  forall (lt : edge -> edge -> bool) (C : Type) (cget : C -> N -> list edge -> option edge)
         (cadd : C -> N -> list edge -> edge -> C), lossyC cget cadd ->
  forall cempty : C, (forall k a, cget cempty k a = None) ->
  forall n st, hreach_c lt C cget cadd cempty n st ->
  wf_b (hc_s C st) = true /\ bcok_b (hc_s C st) = true.
Proof. exact histc_wf. Qed.
Print Assumptions C03_histc_wf.

(* well-formedness of a request is decidable: the executable checker decides it *)
Theorem C03_histc_pre_checker :
  forall (C : Type) (st : hstate_c C) (o : hop), hop_pre_cb C st o = true <-> hop_pre_c C st o.
Proof. exact hop_pre_cb_spec. Qed.
Print Assumptions C03_histc_pre_checker.

Theorem C03_histc_run_checked :
  forall (lt : edge -> edge -> bool) (C : Type) (cget : C -> N -> list edge -> option edge)
         (cadd : C -> N -> list edge -> edge -> C), lossyC cget cadd ->
  forall cempty : C, (forall k a, cget cempty k a = None) ->
  forall n ops, hops_pre_cb lt C cget cadd cempty (hinit_c C cempty n) ops = true ->
  exists st, hrun_c lt C cget cadd cempty (hinit_c C cempty n) ops = Some st /\
             hreach_c lt C cget cadd cempty n st.
Proof. exact hrun_c_checked. Qed.
Print Assumptions C03_histc_run_checked.

(* non-vacuity: a history of 26 calls through all 15 kinds, accepted by the checker, computed;
   complemented edges occur in slots, in stored nodes and in the substitution object *)
Theorem C03_histc_example_cover :
  forallb (fun t => existsb (fun o => Nat.eqb (hop_tag o) t) exc_ops) (seq 0 15) = true /\ length exc_ops = 26.
Proof. exact exc_ops_cover. Qed.
Print Assumptions C03_histc_example_cover.

Theorem C03_histc_example_run :
  hops_pre_cb ltA eacache eac_get eac_add nil (hinit_c eacache nil 3) exc_ops = true /\
  hrun_c ltA eacache eac_get eac_add nil (hinit_c eacache nil 3) exc_ops = Some exc_stA /\
  PositiveMap.cardinal (s_nodes (hc_s eacache exc_stA)) = 16 /\
  s_l2v (hc_s eacache exc_stA) = (2 :: 0 :: 1 :: 3 :: nil) /\
  wf_b (hc_s eacache exc_stA) = true /\ bcok_b (hc_s eacache exc_stA) = true.
Proof. exact (conj exc_preA (conj exc_runA (conj (proj1 exc_stA_shape)
         (conj (proj1 (proj2 exc_stA_shape)) exc_wfA)))). Qed.
Print Assumptions C03_histc_example_run.

(** ** ALL histories, ZBDD kind (HISTz): the ZBDD manager state machine of Mgr/HistoryZ.v - 17 kinds of
    calls: the Boolean interface (const, var / not_var, not, the 8 connectives, ite, restrict), the
    set-family interface (empty, base, singleton, subset0 / subset1 / change, union / intsec / diff,
    make_node), clone, drop, gc (roots: the handles AND the manager's tautology chain), add_vars (chain
    rebuilt), set_var_order (chain dropped and rebuilt) - from the empty ZBDD manager, for every operand
    order [gt] and every cache that only serves what was added ([zlossy]).  The apply cache is kept by
    add_vars; Restrict entries are keyed by the number of levels in the model of restrict itself
    (DD/ZbddBool.v [zrestrict], as the code since f8637cd), the state machine runs on the plain cache.
    [zcgetN n] / [zcaddN n] is the view through which the un-keyed restrict of the code before the fix
    ([zrestrict_unkeyed]) becomes the model: C03_histz_cache_view_restrict (notes/HISTz.md, notes/SYNCZ.md). *)
From Coq Require Import Bool List NArith PArith FMapPositive.
From OxiVerif Require Import DD.Sem DD.Build DD.Apply DD.ConfigApply DD.FamSpec DD.ZbddOps DD.ZbddOpsProofs DD.ZbddBool
  DD.ZbddBoolProofs DD.ZbddEvalProofs Mgr.LevelSwapZ Mgr.LevelSwapZProofs Mgr.HistoryExamples
  Mgr.HistoryZ Mgr.HistoryZBase Mgr.HistoryZCache Mgr.HistoryZFam Mgr.HistoryZProofs Mgr.HistoryZThms Mgr.HistoryZSpec Mgr.HistoryZTie
  Mgr.HistoryZExamples.

(* what "reachable" means: the state after a history of well-formed requests from the empty ZBDD manager *)
Theorem C03_histz_reach_unfold :
  forall (gt : ref -> ref -> bool) (C : Type) (cget : C -> N -> list ref -> list nat -> option ref)
  (cadd : C -> N -> list ref -> list nat -> ref -> C) (cempty : C) (n : nat) (st : hstate_z C),
  hreach_z gt C cget cadd cempty n st <->
  exists ops, zhops_pre gt C cget cadd cempty (hinit_z C cempty n) ops /\
  hrun_z gt C cget cadd cempty (hinit_z C cempty n) ops = Some st.
Proof. exact (fun gt C cget cadd cempty n st => iff_refl _). Qed.
Print Assumptions C03_histz_reach_unfold.

(* the view of the cache that adds what f8637cd added: Restrict entries carry n as last numeric operand, every other code is untouched *)
Theorem C03_histz_cache_view :
  forall (C : Type) (cget : C -> N -> list ref -> list nat -> option ref)
  (cadd : C -> N -> list ref -> list nat -> ref -> C) (n : nat) (c : C) (code : N) (args : list ref)
  (nums : list nat) (r : ref),
  zcgetN C cget n c zcode_restrict args nums = cget c zcode_restrict args (nums ++ n :: nil) /\
  zcaddN C cadd n c zcode_restrict args nums r = cadd c zcode_restrict args (nums ++ n :: nil) r /\
  (code <> zcode_restrict ->
  zcgetN C cget n c code args nums = cget c code args nums /\ zcaddN C cadd n c code args nums r = cadd c code args nums r).
Proof. exact zkeyN_spec. Qed.
Print Assumptions C03_histz_cache_view.

Theorem C03_histz_cache_view_lossy :
  forall (C : Type) (cget : C -> N -> list ref -> list nat -> option ref)
  (cadd : C -> N -> list ref -> list nat -> ref -> C),
  zlossy C cget cadd -> forall n : nat, zlossy C (zcgetN C cget n) (zcaddN C cadd n).
Proof. exact zlossyN. Qed.
Print Assumptions C03_histz_cache_view_lossy.

(* restrict as it was before f8637cd, on the cache seen through the view at the current number of levels, IS the model of restrict (whose key carries the number of levels) on the plain cache *)
Theorem C03_histz_cache_view_restrict :
  forall (C : Type) (cget : C -> N -> list ref -> list nat -> option ref)
  (cadd : C -> N -> list ref -> list nat -> ref -> C) (fuel : nat) (s : snap) (c : C) (f vars : ref) (level : nat),
  zrestrict_unkeyed C (zcgetN C cget (nlevels s)) (zcaddN C cadd (nlevels s)) fuel s c f vars level =
  zrestrict C cget cadd fuel s c f vars level.
Proof. exact zrestrict_view. Qed.
Print Assumptions C03_histz_cache_view_restrict.

(* no Restrict entry is keyed with a number of levels the manager has not reached *)
Theorem C03_histz_nofuture_unfold :
  forall (C : Type) (cget : C -> N -> list ref -> list nat -> option ref) (n : nat) (c : C),
  znofuture C cget n c <-> (forall a m n' r, cget c zcode_restrict a (m ++ n' :: nil) = Some r -> n' <= n).
Proof. exact (fun C cget n c => iff_refl _). Qed.
Print Assumptions C03_histz_nofuture_unfold.

(* the invariant that holds whenever no operation is in progress: well-formed ZBDD table, complete tautology chain, valid cache (the plain cache: a Restrict entry keyed with the table's number of levels is correct, DD/ZbddBoolProofs.v zentry_x; restated by SYNCZ, equivalent to the former statement about the view at the current number of levels), no Restrict entry of a future number of levels *)
Theorem C03_histz_inv_unfold :
  forall (C : Type) (cget : C -> N -> list ref -> list nat -> option ref) (st : hstate_z C),
  HInvZ C cget st <->
  ZbddOK (hz_s C st) /\
  ZChainOK (hz_s C st) /\
  ZCacheOKB C cget (hz_s C st) (hz_c C st) /\
  znofuture C cget (nlevels (hz_s C st)) (hz_c C st).
Proof. exact hinvz_unfold. Qed.
Print Assumptions C03_histz_inv_unfold.

Theorem C03_histz_init_inv :
  forall (C : Type) (cget : C -> N -> list ref -> list nat -> option ref) (cempty : C),
  (forall (k : N) (a : list ref) (m : list nat), cget cempty k a m = None) ->
  forall n : nat, HInvZ C cget (hinit_z C cempty n).
Proof. exact hinit_z_inv. Qed.
Print Assumptions C03_histz_init_inv.

(* one call of any kind: completes, re-establishes the invariant, frame, result *)
Theorem C03_histz_step :
  forall (gt : ref -> ref -> bool) (C : Type) (cget : C -> N -> list ref -> list nat -> option ref)
  (cadd : C -> N -> list ref -> list nat -> ref -> C),
  zlossy C cget cadd ->
  forall cempty : C,
  (forall (k : N) (a : list ref) (m : list nat), cget cempty k a m = None) ->
  forall (st : hstate_z C) (o : zhop),
  HInvZ C cget st ->
  zhop_pre C st o ->
  exists st' : hstate_z C,
  hstep_z gt C cget cadd cempty st o = Some st' /\ HInvZ C cget st' /\ hframe_z C st o st' /\ hpost_z C st o st'.
Proof. exact hstep_z_ok. Qed.
Print Assumptions C03_histz_step.

(* whole histories *)
Theorem C03_histz_run_ok :
  forall (gt : ref -> ref -> bool) (C : Type) (cget : C -> N -> list ref -> list nat -> option ref)
  (cadd : C -> N -> list ref -> list nat -> ref -> C),
  zlossy C cget cadd ->
  forall cempty : C,
  (forall (k : N) (a : list ref) (m : list nat), cget cempty k a m = None) ->
  forall (ops : list zhop) (st : hstate_z C),
  HInvZ C cget st ->
  zhops_pre gt C cget cadd cempty st ops ->
  exists st' : hstate_z C, hrun_z gt C cget cadd cempty st ops = Some st' /\ HInvZ C cget st'.
Proof. exact hrun_z_ok. Qed.
Print Assumptions C03_histz_run_ok.

(* from any reachable state no well-formed request gets stuck, and the state reached is reachable *)
Theorem C03_histz_never_stuck :
  forall (gt : ref -> ref -> bool) (C : Type) (cget : C -> N -> list ref -> list nat -> option ref)
  (cadd : C -> N -> list ref -> list nat -> ref -> C),
  zlossy C cget cadd ->
  forall cempty : C,
  (forall (k : N) (a : list ref) (m : list nat), cget cempty k a m = None) ->
  forall (n : nat) (st : hstate_z C) (o : zhop),
  hreach_z gt C cget cadd cempty n st ->
  zhop_pre C st o ->
  exists st' : hstate_z C,
  hstep_z gt C cget cadd cempty st o = Some st' /\
  hreach_z gt C cget cadd cempty n st' /\ hframe_z C st o st' /\ hpost_z C st o st'.
Proof. exact histz_progress. Qed.
Print Assumptions C03_histz_never_stuck.

(* the property: after ANY history the ZBDD table passes the structural checkers run on real snapshots, and the manager's tautology chain is complete *)
Theorem C03_histz_wf :
  forall (gt : ref -> ref -> bool) (C : Type) (cget : C -> N -> list ref -> list nat -> option ref)
  (cadd : C -> N -> list ref -> list nat -> ref -> C),
  zlossy C cget cadd ->
  forall cempty : C,
  (forall (k : N) (a : list ref) (m : list nat), cget cempty k a m = None) ->
  forall (n : nat) (st : hstate_z C),
  hreach_z gt C cget cadd cempty n st ->
  wf_b (hz_s C st) = true /\ zbdd_ok_b (hz_s C st) = true /\ zchain_ok_b (hz_s C st) = true.
Proof. exact histz_wf. Qed.
Print Assumptions C03_histz_wf.

(* ... so that the model of pre_reorder_mut finds (and drops) the real chain in every such state *)
Theorem C03_histz_chain_found :
  forall s : snap,
  ZbddOK s -> ZChainOK s -> exists ids : list positive, LevelSwapZ.zchain_ids s = Some ids /\ length ids = nlevels s.
Proof. exact zchain_ids_found. Qed.
Print Assumptions C03_histz_chain_found.

(* the executable request checker is sound for the precondition *)
Theorem C03_histz_pre_checker :
  forall (C : Type) (cget : C -> N -> list ref -> list nat -> option ref) (st : hstate_z C) (o : zhop),
  HInvZ C cget st -> zhop_pre_b C st o = true -> zhop_pre C st o.
Proof. exact zhop_pre_b_sound. Qed.
Print Assumptions C03_histz_pre_checker.

Theorem C03_histz_run_checked :
  forall (gt : ref -> ref -> bool) (C : Type) (cget : C -> N -> list ref -> list nat -> option ref)
  (cadd : C -> N -> list ref -> list nat -> ref -> C),
  zlossy C cget cadd ->
  forall cempty : C,
  (forall (k : N) (a : list ref) (m : list nat), cget cempty k a m = None) ->
  forall (n : nat) (ops : list zhop),
  zhops_pre_b gt C cget cadd cempty (hinit_z C cempty n) ops = true ->
  exists st : hstate_z C,
  hrun_z gt C cget cadd cempty (hinit_z C cempty n) ops = Some st /\ hreach_z gt C cget cadd cempty n st.
Proof. exact hrun_z_checked. Qed.
Print Assumptions C03_histz_run_checked.

(* non-vacuity: a history of 31 calls through all 17 kinds, accepted by the checker, computed *)
Theorem C03_histz_example_cover :
  forallb (fun t => existsb (fun o => Nat.eqb (zhop_tag o) t) exz_ops) (seq 0 17) = true /\ length exz_ops = 31.
Proof. exact exz_ops_cover. Qed.
Print Assumptions C03_histz_example_cover.

Theorem C03_histz_example_run :
  zhops_pre_b zgtA zacache zac_get zac_add nil (hinit_z zacache nil 3) exz_ops = true /\
  hrun_z zgtA zacache zac_get zac_add nil (hinit_z zacache nil 3) exz_ops = Some exz_stA /\
  PositiveMap.cardinal (s_nodes (hz_s zacache exz_stA)) = 39 /\
  s_l2v (hz_s zacache exz_stA) = (2 :: 0 :: 1 :: 3 :: nil) /\
  wf_b (hz_s zacache exz_stA) = true /\ zbdd_ok_b (hz_s zacache exz_stA) = true /\
  zchain_ok_b (hz_s zacache exz_stA) = true.
Proof. exact (conj exz_preA (conj exz_runA (conj (proj1 exz_stA_shape) (conj (proj1 (proj2 exz_stA_shape)) exz_wfA)))). Qed.
Print Assumptions C03_histz_example_run.


(** ** ALL histories, MTBDD kind with integer terminals (HISTz part M): the MTBDD manager state machine of
    Mgr/HistoryM.v - 10 kinds of calls: constant, var, the six binary operators (add, sub, mul, div, min,
    max), ite, restrict, clone, drop, gc (inner nodes AND unreferenced terminals), add_vars,
    set_var_order - from the empty MTBDD manager (no terminal yet), for every operand order [gt] and every
    cache that only serves what was added ([lossy]). *)
From Coq Require Import Bool List NArith ZArith PArith FMapPositive.
From OxiVerif Require Import DD.Sem DD.Build DD.Apply DD.ApplyProofs DD.ConfigApply Num.I64 DD.ApplyMtbdd DD.ApplyMtbddBase
  DD.ApplyMtbddProofs DD.ApplyMtbddTop Mgr.HistoryExamples
  Mgr.HistoryM Mgr.HistoryMBase Mgr.HistoryMProofs Mgr.HistoryMThms Mgr.HistoryMSpec Mgr.HistoryMTie Mgr.HistoryMExamples.

(* what "reachable" means: the state after a history of well-formed requests from the empty MTBDD manager *)
Theorem C03_histm_reach_unfold :
  forall (gt : ref -> ref -> bool) (C : Type) (cget : C -> N -> list ref -> option ref)
  (cadd : C -> N -> list ref -> ref -> C) (cempty : C) (n : nat) (st : hstate_m C),
  hreach_m gt C cget cadd cempty n st <->
  exists ops, mhops_pre gt C cget cadd cempty (hinit_m C cempty n) ops /\
  hrun_m gt C cget cadd cempty (hinit_m C cempty n) ops = Some st.
Proof. exact (fun gt C cget cadd cempty n st => iff_refl _). Qed.
Print Assumptions C03_histm_reach_unfold.

(* the invariant: well-formed MTBDD table (incl. terminal ids and values pairwise distinct, values in the range of I64), valid cache *)
Theorem C03_histm_inv_unfold :
  forall (C : Type) (cget : C -> N -> list ref -> option ref) (st : hstate_m C),
  HInvM C cget st <-> MtOK (hm_s C st) /\ MCacheOK cget (hm_s C st) (hm_c C st).
Proof. exact hinvm_unfold. Qed.
Print Assumptions C03_histm_inv_unfold.

Theorem C03_histm_init_inv :
  forall (C : Type) (cget : C -> N -> list ref -> option ref) (cempty : C),
  (forall (k : N) (a : list ref), cget cempty k a = None) -> forall n : nat, HInvM C cget (hinit_m C cempty n).
Proof. exact hinit_m_inv. Qed.
Print Assumptions C03_histm_init_inv.

(* one call of any kind: completes, re-establishes the invariant, frame, result *)
Theorem C03_histm_step :
  forall (gt : ref -> ref -> bool) (C : Type) (cget : C -> N -> list ref -> option ref)
  (cadd : C -> N -> list ref -> ref -> C),
  lossy cget cadd ->
  forall cempty : C,
  (forall (k : N) (a : list ref), cget cempty k a = None) ->
  forall (st : hstate_m C) (o : mhop),
  HInvM C cget st ->
  mhop_pre C st o ->
  exists st' : hstate_m C,
  hstep_m gt C cget cadd cempty st o = Some st' /\ HInvM C cget st' /\ hframe_m C st o st' /\ hpost_m C st o st'.
Proof. exact hstep_m_ok. Qed.
Print Assumptions C03_histm_step.

Theorem C03_histm_run_ok :
  forall (gt : ref -> ref -> bool) (C : Type) (cget : C -> N -> list ref -> option ref)
  (cadd : C -> N -> list ref -> ref -> C),
  lossy cget cadd ->
  forall cempty : C,
  (forall (k : N) (a : list ref), cget cempty k a = None) ->
  forall (ops : list mhop) (st : hstate_m C),
  HInvM C cget st ->
  mhops_pre gt C cget cadd cempty st ops ->
  exists st' : hstate_m C, hrun_m gt C cget cadd cempty st ops = Some st' /\ HInvM C cget st'.
Proof. exact hrun_m_ok. Qed.
Print Assumptions C03_histm_run_ok.

Theorem C03_histm_never_stuck :
  forall (gt : ref -> ref -> bool) (C : Type) (cget : C -> N -> list ref -> option ref)
  (cadd : C -> N -> list ref -> ref -> C),
  lossy cget cadd ->
  forall cempty : C,
  (forall (k : N) (a : list ref), cget cempty k a = None) ->
  forall (n : nat) (st : hstate_m C) (o : mhop),
  hreach_m gt C cget cadd cempty n st ->
  mhop_pre C st o ->
  exists st' : hstate_m C,
  hstep_m gt C cget cadd cempty st o = Some st' /\
  hreach_m gt C cget cadd cempty n st' /\ hframe_m C st o st' /\ hpost_m C st o st'.
Proof. exact histm_progress. Qed.
Print Assumptions C03_histm_never_stuck.

(* the property: after ANY history the MTBDD table passes the structural checkers run on real snapshots *)
Theorem C03_histm_wf :
  forall (gt : ref -> ref -> bool) (C : Type) (cget : C -> N -> list ref -> option ref)
  (cadd : C -> N -> list ref -> ref -> C),
  lossy cget cadd ->
  forall cempty : C,
  (forall (k : N) (a : list ref), cget cempty k a = None) ->
  forall (n : nat) (st : hstate_m C),
  hreach_m gt C cget cadd cempty n st -> wf_b (hm_s C st) = true /\ mt_ok_b (hm_s C st) = true.
Proof. exact histm_wf. Qed.
Print Assumptions C03_histm_wf.

(* a collection inside a history: slots and functions kept; every kept node and every kept TERMINAL is an old one that is still referenced (no dangling terminal, no garbage) *)
Theorem C03_histm_gc :
  forall (gt : ref -> ref -> bool) (C : Type) (cget : C -> N -> list ref -> option ref)
  (cadd : C -> N -> list ref -> ref -> C),
  lossy cget cadd ->
  forall cempty : C,
  (forall (k : N) (a : list ref), cget cempty k a = None) ->
  forall st st' : hstate_m C,
  HInvM C cget st ->
  hstep_m gt C cget cadd cempty st MHGc = Some st' ->
  HInvM C cget st' /\
  s_handles (hm_s C st') = s_handles (hm_s C st) /\
  (forall (x : N) (e : edge),
  hget (s_handles (hm_s C st)) x = Some e ->
  ref_ok (hm_s C st') (eref e) /\ (forall a : asg, mfun_of (hm_s C st') (eref e) a = mfun_of (hm_s C st) (eref e) a)) /\
  (forall (id : positive) (nd : node),
  find_node (hm_s C st') id = Some nd ->
  find_node (hm_s C st) id = Some nd /\ (exists r : ref, mroot C st r /\ reachable (hm_s C st) (r :: nil) (RN id))) /\
  (forall t c : N,
  term_val (hm_s C st') t = Some c ->
  term_val (hm_s C st) t = Some c /\
  (mroot C st (RT t) \/
  (exists (id : positive) (nd : node) (e : edge),
  find_node (hm_s C st') id = Some nd /\ In e (nchildren nd) /\ eref e = RT t))).
Proof. exact histm_gc. Qed.
Print Assumptions C03_histm_gc.

Theorem C03_histm_pre_checker :
  forall (C : Type) (cget : C -> N -> list ref -> option ref) (st : hstate_m C) (o : mhop),
  HInvM C cget st -> mhop_pre_b C st o = true -> mhop_pre C st o.
Proof. exact mhop_pre_b_sound. Qed.
Print Assumptions C03_histm_pre_checker.

Theorem C03_histm_run_checked :
  forall (gt : ref -> ref -> bool) (C : Type) (cget : C -> N -> list ref -> option ref)
  (cadd : C -> N -> list ref -> ref -> C),
  lossy cget cadd ->
  forall cempty : C,
  (forall (k : N) (a : list ref), cget cempty k a = None) ->
  forall (n : nat) (ops : list mhop),
  mhops_pre_b gt C cget cadd cempty (hinit_m C cempty n) ops = true ->
  exists st : hstate_m C,
  hrun_m gt C cget cadd cempty (hinit_m C cempty n) ops = Some st /\ hreach_m gt C cget cadd cempty n st.
Proof. exact hrun_m_checked. Qed.
Print Assumptions C03_histm_run_checked.

(* non-vacuity: a history of 28 calls through all 10 kinds, accepted by the checker, computed *)
Theorem C03_histm_example_cover :
  forallb (fun t => existsb (fun o => Nat.eqb (mhop_tag o) t) exm_ops) (seq 0 10) = true /\ length exm_ops = 28.
Proof. exact exm_ops_cover. Qed.
Print Assumptions C03_histm_example_cover.

Theorem C03_histm_example_run :
  mhops_pre_b mgtA acache ac_get ac_add nil (hinit_m acache nil 3) exm_ops = true /\
  hrun_m mgtA acache ac_get ac_add nil (hinit_m acache nil 3) exm_ops = Some exm_stA /\
  PositiveMap.cardinal (s_nodes (hm_s acache exm_stA)) = 21 /\
  length (s_terms (hm_s acache exm_stA)) = 6 /\
  wf_b (hm_s acache exm_stA) = true /\ mt_ok_b (hm_s acache exm_stA) = true.
Proof. exact (conj exm_preA (conj exm_runA (conj (proj1 exm_stA_shape) (conj (proj1 (proj2 exm_stA_shape)) exm_wfA)))). Qed.
Print Assumptions C03_histm_example_run.

(* the first collection of that history removes 6 of 19 inner nodes and 2 of 6 terminals *)
Theorem C03_histm_example_gc :
  PositiveMap.cardinal (s_nodes (hm_s acache exm_st19)) = 19 /\
  length (s_terms (hm_s acache exm_st19)) = 6 /\
  PositiveMap.cardinal (s_nodes (hm_s acache exm_st20)) = 13 /\
  length (s_terms (hm_s acache exm_st20)) = 4 /\
  term_val (hm_s acache exm_st19) 6 = Some (code (INum (-1))) /\ term_val (hm_s acache exm_st20) 6 = None.
Proof. exact exm_gc_counts. Qed.
Print Assumptions C03_histm_example_gc.


(** ** TDD (package TDDx): the structural invariant for ternary nodes.  [td_ok_b] (wf_b + kind TDD + exactly the
    terminals False / Unknown / True) and the checker spelled out for ternary nodes [td_wf3_b] (DD/TddAudit.v:
    exactly the children (true, unknown, false), untagged, stored, strictly below, NOT all three equal = the
    rule of TDDRules::reduce, stored level = listed level, per-level uniqueness) are the same Boolean function
    of the snapshot and decide TdOK; the invariant is preserved by every call of the TDD manager state machine
    Mgr/TddHist.v (constants, variables, not, 8 connectives, ite, cofactors, clone / drop, gc, add_vars), hence
    holds after ANY history from a fresh manager. *)
From Coq Require Import List NArith PArith Bool Arith FMapPositive.
From OxiVerif Require Import DD.Table DD.TableExtra DD.TableProofs DD.Build DD.BuildProofs DD.Apply DD.ApplyProofs DD.ConfigApply
  DD.Tdd DD.ApplyTdd DD.ApplyTddBase DD.ApplyTddProofs DD.ApplyTddTop DD.TddAudit DD.TddAuditProofs
  Mgr.History Mgr.OomGc Mgr.TddHist Mgr.TddHistProofs Mgr.TddHistSim Mgr.TddHistExamples.
Import ListNotations.

Theorem C03_tdd_ok_b_spec : forall s, td_ok_b s = true <-> TdOK s.
Proof. exact td_ok_b_spec. Qed.
Print Assumptions C03_tdd_ok_b_spec.

(* the two checkers agree on EVERY snapshot (as booleans) *)
Theorem C03_tdd_wf3_b_ok_b : forall s, td_wf3_b s = td_ok_b s.
Proof. exact td_wf3_b_ok_b. Qed.
Print Assumptions C03_tdd_wf3_b_ok_b.

Theorem C03_tdd_wf3_b_spec : forall s, td_wf3_b s = true <-> TdOK s.
Proof. exact td_wf3_b_spec. Qed.
Print Assumptions C03_tdd_wf3_b_spec.

(* TdOK implies the hypothesis wf_full_b of the generic canonicity / totality / reference-count theorems *)
Theorem C03_tdd_ok_wf_full : forall s, td_ok_b s = true -> wf_full_b s = true.
Proof. exact td_ok_wf_full. Qed.
Print Assumptions C03_tdd_ok_wf_full.

(* every stored node: exactly three untagged children that exist, lie strictly below and are NOT all equal *)
Theorem C03_tdd_node_shape : forall s id nd, TdOK s -> find_node s id = Some nd ->
  exists t u e, nchildren nd = [E t; E u; E e] /\ ~ (t = u /\ u = e) /\
    ref_ok s t /\ ref_ok s u /\ ref_ok s e /\
    nlevel nd < rlevel s t /\ nlevel nd < rlevel s u /\ nlevel nd < rlevel s e /\
    nstored nd = nlevel nd /\ nlevel nd < nlevels s.
Proof. exact td_node3_shape. Qed.
Print Assumptions C03_tdd_node_shape.

(* no duplicates: (level, children) determines the node *)
Theorem C03_tdd_unique_table : forall s id1 id2 n1 n2, TdOK s ->
  find_node s id1 = Some n1 -> find_node s id2 = Some n2 ->
  nlevel n1 = nlevel n2 -> nchildren n1 = nchildren n2 -> id1 = id2.
Proof. exact td_unique_table. Qed.
Print Assumptions C03_tdd_unique_table.

(* a fresh manager satisfies the invariant *)
Theorem C03_tdd_hist_init_inv :
  forall (C : Type) (cget : C -> N -> list ref -> option ref) (cempty : C),
  (forall k a, cget cempty k a = None) -> forall n, TInv C cget (tinit C cempty n).
Proof. exact tinit_inv. Qed.
Print Assumptions C03_tdd_hist_init_inv.

(* every well-formed call: defined, invariant again, frame, post-condition *)
Theorem C03_tdd_hist_step :
  forall (gt : ref -> ref -> bool) (C : Type) (cget : C -> N -> list ref -> option ref)
         (cadd : C -> N -> list ref -> ref -> C) (cempty : C),
  lossy cget cadd -> (forall k a, cget cempty k a = None) ->
  forall (st : tstate C) o, TInv C cget st -> top_pre C st o ->
  exists st', tstep gt C cget cadd cempty st o = Some st' /\ TInv C cget st' /\
              tframe C st o st' /\ tpost C st o st'.
Proof. exact tstep_ok. Qed.
Print Assumptions C03_tdd_hist_step.

Theorem C03_tdd_hist_run_ok :
  forall (gt : ref -> ref -> bool) (C : Type) (cget : C -> N -> list ref -> option ref)
         (cadd : C -> N -> list ref -> ref -> C) (cempty : C),
  lossy cget cadd -> (forall k a, cget cempty k a = None) ->
  forall ops (st : tstate C), TInv C cget st -> tops_pre_b gt C cget cadd cempty st ops = true ->
  exists st', trun gt C cget cadd cempty st ops = Some st' /\ TInv C cget st'.
Proof. exact trun_ok. Qed.
Print Assumptions C03_tdd_hist_run_ok.

(* a run stops only at a request whose precondition fails (empty operand slot, unknown variable) *)
Theorem C03_tdd_hist_never_stuck :
  forall (gt : ref -> ref -> bool) (C : Type) (cget : C -> N -> list ref -> option ref)
         (cadd : C -> N -> list ref -> ref -> C) (cempty : C),
  lossy cget cadd -> (forall k a, cget cempty k a = None) ->
  forall ops (st : tstate C), TInv C cget st -> trun gt C cget cadd cempty st ops = None ->
  exists pre o post st1, ops = pre ++ o :: post /\ trun gt C cget cadd cempty st pre = Some st1 /\
                         TInv C cget st1 /\ top_pre_b C st1 o = false.
Proof. exact trun_never_stuck. Qed.
Print Assumptions C03_tdd_hist_never_stuck.

(* after ANY history the executable checkers accept the table *)
Theorem C03_tdd_hist_wf :
  forall (gt : ref -> ref -> bool) (C : Type) (cget : C -> N -> list ref -> option ref)
         (cadd : C -> N -> list ref -> ref -> C) (cempty : C),
  lossy cget cadd -> (forall k a, cget cempty k a = None) ->
  forall n st, treach gt C cget cadd cempty n st ->
  td_ok_b (t_s C st) = true /\ td_wf3_b (t_s C st) = true /\ wf_full_b (t_s C st) = true.
Proof. exact thist_ok_b. Qed.
Print Assumptions C03_tdd_hist_wf.

(* non-vacuity: a hand-written table is accepted; a node with three equal children, a missing terminal and a
   child that is not below its parent are rejected; the final tables of a 17-call history (every constructor,
   two configurations) are accepted *)
Theorem C03_tdd_example :
  (td_audit_b ex_t3 = true /\ td_ok_b ex_t3 = true /\ rc_exact_b ex_t3 [] = true) /\
  (td_rc_b (mkSnap KTdd (ex_t3_nodes 1) (s_terms ex_t3) [0; 1] [0; 1] (s_handles ex_t3)) = false /\
   td_wf3_b (mkSnap KTdd (PositiveMap.add 4%positive (mkNode 0 [E (RN 1); E (RN 1); E (RN 1)] 0 0) (ex_t3_nodes 0))
                    (s_terms ex_t3) [0; 1] [0; 1] (s_handles ex_t3)) = false /\
   td_wf3_b (mkSnap KTdd (ex_t3_nodes 0) [(0, 0); (2, 2)]%N [0; 1] [0; 1] (s_handles ex_t3)) = false /\
   td_wf3_b (mkSnap KTdd (PositiveMap.add 4%positive (mkNode 1 [E (RN 2); E (RT 1); E (RT 1)] 1 0) (ex_t3_nodes 0))
                    (s_terms ex_t3) [0; 1] [0; 1] (s_handles ex_t3)) = false) /\
  (td_wf3_b (t_s _ ex_stA) = true /\ td_wf3_b (t_s _ ex_stB) = true /\
   nlevels (t_s _ ex_stA) = 3 /\ 4 <= length (PositiveMap.elements (s_nodes (t_s _ ex_stA)))).
Proof. exact (conj ex_t3_audit (conj ex_t3_rejects ex_final_ok)). Qed.
Print Assumptions C03_tdd_example.
