(** C03 — property theorems only (proved in DD/TableProofs.v). *)
From Coq Require Import List NArith.
From OxiVerif Require Import DD.Table DD.TableExtra DD.TableProofs.

(* the checker run on every real snapshot decides exactly the invariant WF *)
Theorem C03_wf_b_spec : forall s, wf_b s = true <-> WF s.
Proof. exact wf_b_spec. Qed.
Print Assumptions C03_wf_b_spec.

(* on a well-formed snapshot every existing edge has a meaning (fuel S n suffices) *)
Theorem C03_sem_total : forall s, WF s ->
  forall e c, ref_ok s (eref e) -> choice_ok s c -> exists v, sem_edge s e c = Some v.
Proof. exact sem_total. Qed.
Print Assumptions C03_sem_total.

Theorem C03_semk_total : forall s, WF s ->
  forall f r c, ref_ok s r -> choice_ok s c -> nlevels s - rlevel s r < f ->
  exists v, semk s f r c = Some v.
Proof. exact semk_total. Qed.
Print Assumptions C03_semk_total.

Theorem C03_semc_total : forall s, WF s ->
  forall f e c, ref_ok s (eref e) -> choice_ok s c -> nlevels s - rlevel s (eref e) < f ->
  exists b, semc s f e c = Some b.
Proof. exact semc_total. Qed.
Print Assumptions C03_semc_total.

Theorem C03_semz_total : forall s, WF s ->
  forall f lvl r c, ref_ok s r -> choice_ok s c -> lvl <= rlevel s r ->
  nlevels s - rlevel s r < f -> exists b, semz s f lvl r c = Some b.
Proof. exact semz_total. Qed.
Print Assumptions C03_semz_total.

(* any two sufficient fuels agree *)
Theorem C03_semk_fuel : forall s, WF s ->
  forall f1 f2 r c, ref_ok s r ->
  nlevels s - rlevel s r < f1 -> nlevels s - rlevel s r < f2 ->
  semk s f1 r c = semk s f2 r c.
Proof. exact semk_fuel. Qed.
Print Assumptions C03_semk_fuel.

Theorem C03_semc_fuel : forall s, WF s ->
  forall f1 f2 e c, ref_ok s (eref e) ->
  nlevels s - rlevel s (eref e) < f1 -> nlevels s - rlevel s (eref e) < f2 ->
  semc s f1 e c = semc s f2 e c.
Proof. exact semc_fuel. Qed.
Print Assumptions C03_semc_fuel.

Theorem C03_semz_fuel : forall s, WF s ->
  forall f1 f2 lvl r c, ref_ok s r ->
  nlevels s - rlevel s r < f1 -> nlevels s - rlevel s r < f2 ->
  semz s f1 lvl r c = semz s f2 lvl r c.
Proof. exact semz_fuel. Qed.
Print Assumptions C03_semz_fuel.

(* the kind-specific terminal condition needed by BCDD/ZBDD canonicity is decided too *)
Theorem C03_terms_kind_b_spec : forall s, terms_kind_b s = true <-> terms_kind s.
Proof. exact terms_kind_b_spec. Qed.
Print Assumptions C03_terms_kind_b_spec.

Theorem C03_wf_full_b_spec : forall s, wf_full_b s = true <-> WF s /\ terms_kind s.
Proof. exact wf_full_b_spec. Qed.
Print Assumptions C03_wf_full_b_spec.

(* the hypotheses are satisfiable *)
Theorem C03_example_wf : WF ex_snap.
Proof. exact ex_snap_WF. Qed.
Print Assumptions C03_example_wf.

(** ** ALL histories (HIST): the manager state machine of Mgr/History.v - constants,
    variables, not / binary / ite, the three quantifiers and their fused forms,
    restrict, substitution objects and substitute, clone, drop, gc, add_vars,
    set_var_order - from the empty manager, for every operand order [gt] and every
    cache that only serves what was added ([lossy]) *)
From Coq Require Import FMapPositive.
From OxiVerif Require Import DD.Sem DD.Apply DD.ApplyProofs DD.ApplyEvalProofs DD.Quant DD.QuantLemmas
  Mgr.History Mgr.HistoryProofs Mgr.HistoryThms Mgr.HistoryExamples.

(* what "reachable" means: the state after a history of well-formed requests from the empty manager *)
Theorem C03_hist_reach_unfold :
  forall (gt : ref -> ref -> bool) (C : Type) (cget : C -> N -> list ref -> option ref)
         (cadd : C -> N -> list ref -> ref -> C) (cempty : C) (n : nat) (st : hstate C),
  hreach gt C cget cadd cempty n st <->
  exists ops, hops_pre gt C cget cadd cempty (hinit C cempty n) ops /\
              hrun gt C cget cadd cempty (hinit C cempty n) ops = Some st.
Proof. exact (fun gt C cget cadd cempty n st => iff_refl _). Qed.
Print Assumptions C03_hist_reach_unfold.

(* the invariant that holds whenever no operation is in progress *)
Theorem C03_hist_inv_unfold :
  forall (C : Type) (cget : C -> N -> list ref -> option ref) (st : hstate C),
  HInv C cget st <->
  (BddOK (h_s C st) /\
   QCacheOK cget (hreg_fn (h_reg C st)) (h_s C st) (h_c C st) /\
   (forall id pairs, In (id, pairs) (h_reg C st) ->
      NoDup (map fst pairs) /\
      forall v r, In (v, r) pairs -> v < nlevels (h_s C st) /\ ref_ok (h_s C st) r) /\
   (forall id pairs, In (id, pairs) (h_reg C st) -> N.lt id (h_next C st))).
Proof. exact hinv_unfold. Qed.
Print Assumptions C03_hist_inv_unfold.

Theorem C03_hist_init_inv :
  forall (C : Type) (cget : C -> N -> list ref -> option ref) (cempty : C),
  (forall k a, cget cempty k a = None) -> forall n, HInv C cget (hinit C cempty n).
Proof. exact hinit_inv. Qed.
Print Assumptions C03_hist_init_inv.

(* one call of any kind: completes, re-establishes the invariant, frame, result *)
Theorem C03_hist_step :
  forall (gt : ref -> ref -> bool) (C : Type) (cget : C -> N -> list ref -> option ref)
         (cadd : C -> N -> list ref -> ref -> C), lossy cget cadd ->
  forall cempty : C, (forall k a, cget cempty k a = None) ->
  forall (st : hstate C) (o : hop), HInv C cget st -> hop_pre C st o ->
  exists st', hstep gt C cget cadd cempty st o = Some st' /\
              HInv C cget st' /\ hframe C st o st' /\ hpost C st o st'.
Proof. exact hstep_ok. Qed.
Print Assumptions C03_hist_step.

(* whole histories *)
Theorem C03_hist_run_ok :
  forall (gt : ref -> ref -> bool) (C : Type) (cget : C -> N -> list ref -> option ref)
         (cadd : C -> N -> list ref -> ref -> C), lossy cget cadd ->
  forall cempty : C, (forall k a, cget cempty k a = None) ->
  forall ops st, HInv C cget st -> hops_pre gt C cget cadd cempty st ops ->
  exists st', hrun gt C cget cadd cempty st ops = Some st' /\ HInv C cget st'.
Proof. exact hrun_ok. Qed.
Print Assumptions C03_hist_run_ok.

(* from any reachable state no well-formed request gets stuck, and the state reached is reachable *)
Theorem C03_hist_never_stuck :
  forall (gt : ref -> ref -> bool) (C : Type) (cget : C -> N -> list ref -> option ref)
         (cadd : C -> N -> list ref -> ref -> C), lossy cget cadd ->
  forall cempty : C, (forall k a, cget cempty k a = None) ->
  forall n st o, hreach gt C cget cadd cempty n st -> hop_pre C st o ->
  exists st', hstep gt C cget cadd cempty st o = Some st' /\
              hreach gt C cget cadd cempty n st' /\ hframe C st o st' /\ hpost C st o st'.
Proof. exact hist_progress. Qed.
Print Assumptions C03_hist_never_stuck.

(* the property: after ANY history the table passes the structural checker run on real snapshots *)
Theorem C03_hist_wf :
  forall (gt : ref -> ref -> bool) (C : Type) (cget : C -> N -> list ref -> option ref)
         (cadd : C -> N -> list ref -> ref -> C), lossy cget cadd ->
  forall cempty : C, (forall k a, cget cempty k a = None) ->
  forall n st, hreach gt C cget cadd cempty n st ->
  wf_b (h_s C st) = true /\ bdd_ok_b (h_s C st) = true.
Proof. exact hist_wf. Qed.
Print Assumptions C03_hist_wf.

(* well-formedness of a request is decidable: the executable checker decides it *)
Theorem C03_hist_pre_checker :
  forall (C : Type) (st : hstate C) (o : hop), hop_pre_b C st o = true <-> hop_pre C st o.
Proof. exact hop_pre_b_spec. Qed.
Print Assumptions C03_hist_pre_checker.

Theorem C03_hist_run_checked :
  forall (gt : ref -> ref -> bool) (C : Type) (cget : C -> N -> list ref -> option ref)
         (cadd : C -> N -> list ref -> ref -> C), lossy cget cadd ->
  forall cempty : C, (forall k a, cget cempty k a = None) ->
  forall n ops, hops_pre_b gt C cget cadd cempty (hinit C cempty n) ops = true ->
  exists st, hrun gt C cget cadd cempty (hinit C cempty n) ops = Some st /\
             hreach gt C cget cadd cempty n st.
Proof. exact hrun_checked. Qed.
Print Assumptions C03_hist_run_checked.

(* non-vacuity: a history of 24 calls through all 15 kinds, accepted by the checker, computed *)
Theorem C03_hist_example_cover :
  forallb (fun t => existsb (fun o => Nat.eqb (hop_tag o) t) ex_ops) (seq 0 15) = true /\ length ex_ops = 24.
Proof. exact ex_ops_cover. Qed.
Print Assumptions C03_hist_example_cover.

Theorem C03_hist_example_run :
  hops_pre_b gtA acache ac_get ac_add nil (hinit acache nil 3) ex_ops = true /\
  hrun gtA acache ac_get ac_add nil (hinit acache nil 3) ex_ops = Some ex_stA /\
  PositiveMap.cardinal (s_nodes (h_s acache ex_stA)) = 15 /\
  s_l2v (h_s acache ex_stA) = (2 :: 0 :: 1 :: 3 :: nil) /\
  wf_b (h_s acache ex_stA) = true.
Proof. exact (conj ex_preA (conj ex_runA (conj (proj1 ex_stA_shape)
         (conj (proj1 (proj2 ex_stA_shape)) (proj1 ex_wfA))))). Qed.
Print Assumptions C03_hist_example_run.
