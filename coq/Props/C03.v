(** C03 — property theorems only (proved in DD/TableProofs.v). *)
From Coq Require Import List NArith.
From OxiVerif Require Import DD.Table DD.TableExtra DD.TableProofs.

(* the checker run on every real snapshot decides exactly the invariant WF *)
Theorem C03_wf_b_spec : forall s, wf_b s = true <-> WF s.
Proof. exact wf_b_spec. Qed.
Print Assumptions C03_wf_b_spec.

(* on a well-formed snapshot every existing edge has a meaning (fuel S n suffices) *)
Theorem C03_sem_total : forall s, WF s ->
  forall e c, ref_ok s (eref e) -> choice_ok s c -> exists v, sem_edge s e c = Some v.
Proof. exact sem_total. Qed.
Print Assumptions C03_sem_total.

Theorem C03_semk_total : forall s, WF s ->
  forall f r c, ref_ok s r -> choice_ok s c -> nlevels s - rlevel s r < f ->
  exists v, semk s f r c = Some v.
Proof. exact semk_total. Qed.
Print Assumptions C03_semk_total.

Theorem C03_semc_total : forall s, WF s ->
  forall f e c, ref_ok s (eref e) -> choice_ok s c -> nlevels s - rlevel s (eref e) < f ->
  exists b, semc s f e c = Some b.
Proof. exact semc_total. Qed.
Print Assumptions C03_semc_total.

Theorem C03_semz_total : forall s, WF s ->
  forall f lvl r c, ref_ok s r -> choice_ok s c -> lvl <= rlevel s r ->
  nlevels s - rlevel s r < f -> exists b, semz s f lvl r c = Some b.
Proof. exact semz_total. Qed.
Print Assumptions C03_semz_total.

(* any two sufficient fuels agree *)
Theorem C03_semk_fuel : forall s, WF s ->
  forall f1 f2 r c, ref_ok s r ->
  nlevels s - rlevel s r < f1 -> nlevels s - rlevel s r < f2 ->
  semk s f1 r c = semk s f2 r c.
Proof. exact semk_fuel. Qed.
Print Assumptions C03_semk_fuel.

Theorem C03_semc_fuel : forall s, WF s ->
  forall f1 f2 e c, ref_ok s (eref e) ->
  nlevels s - rlevel s (eref e) < f1 -> nlevels s - rlevel s (eref e) < f2 ->
  semc s f1 e c = semc s f2 e c.
Proof. exact semc_fuel. Qed.
Print Assumptions C03_semc_fuel.

Theorem C03_semz_fuel : forall s, WF s ->
  forall f1 f2 lvl r c, ref_ok s r ->
  nlevels s - rlevel s r < f1 -> nlevels s - rlevel s r < f2 ->
  semz s f1 lvl r c = semz s f2 lvl r c.
Proof. exact semz_fuel. Qed.
Print Assumptions C03_semz_fuel.

(* the kind-specific terminal condition needed by BCDD/ZBDD canonicity is decided too *)
Theorem C03_terms_kind_b_spec : forall s, terms_kind_b s = true <-> terms_kind s.
Proof. exact terms_kind_b_spec. Qed.
Print Assumptions C03_terms_kind_b_spec.

Theorem C03_wf_full_b_spec : forall s, wf_full_b s = true <-> WF s /\ terms_kind s.
Proof. exact wf_full_b_spec. Qed.
Print Assumptions C03_wf_full_b_spec.

(* the hypotheses are satisfiable *)
Theorem C03_example_wf : WF ex_snap.
Proof. exact ex_snap_WF. Qed.
Print Assumptions C03_example_wf.
