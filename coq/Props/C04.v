(** C04 - quantification, restriction, apply-and-quantify and substitution
    (plain BDD kind; models in DD/Quant.v; proofs in DD/QuantSpecProofs.v,
    DD/QuantLemmas.v, DD/QuantProofs.v, DD/RestrictProofs.v, DD/SubstProofs.v,
    DD/ApplyQuantProofs.v, DD/QuantTopProofs.v; examples in DD/QuantExamples.v).

    Reading guide.  [bfun_of s r] is the Boolean function (of assignments
    variable |-> bool) a reference denotes under the table's variable order;
    [is_varset s vars vs] / [is_cube s vars lits] say that the reference the
    caller passes as variable set / literal cube denotes the conjunction of
    the variables [vs] / the literals [lits]; [QCacheOK cget Sg s c] is the
    apply-cache invariant (every entry that can be served is semantically
    correct; entries of [substitute] belong to the substitution object
    registered under their id in [Sg]); [lossy] is the only assumption on the
    cache implementation (entries may be lost, never invented or mixed up). *)
From Coq Require Import List NArith PArith Bool Arith FMapPositive Permutation.
From OxiVerif Require Import DD.Table DD.TableProofs DD.Canon DD.Sem DD.Build DD.BuildProofs
  DD.Apply DD.ApplyProofs DD.ApplyEvalProofs DD.Quant DD.QuantSpecProofs DD.QuantLemmas
  DD.QuantProofs DD.RestrictProofs DD.SubstProofs DD.ApplyQuantProofs DD.QuantTopProofs
  DD.QuantHistory DD.QuantExamples
  DD.ApplyBcdd DD.ApplyBcddProofs DD.ApplyBcddEval DD.QuantBcdd DD.QuantBcddLemmas DD.QuantBcddProofs
  DD.ApplyQuantBcddProofs DD.RestrictBcddProofs DD.SubstBcddProofs DD.QuantBcddTop DD.QuantBcddExamples.
Import ListNotations.

(** ** Entry points against the spec layer *)

(** exists *)
Theorem C04_exists : forall gt C cget cadd, lossy cget cadd -> forall Sg s (c : C) f vars vs,
  BddOK s -> QCacheOK cget Sg s c -> ref_ok s f -> ref_ok s vars ->
  (forall v, In v vs -> v < nlevels s) -> is_varset s vars vs ->
  exists s' c' r, quant_edge gt C cget cadd s c QExists f vars = Some (s', c', r) /\
    BddOK s' /\ extends s s' /\ QCacheOK cget Sg s' c' /\ ref_ok s' r /\
    forall a, bfun_of s' r a = exists_s vs (bfun_of s f) a.
Proof. exact exists_edge_sound. Qed.
Print Assumptions C04_exists.

(** forall *)
Theorem C04_forall : forall gt C cget cadd, lossy cget cadd -> forall Sg s (c : C) f vars vs,
  BddOK s -> QCacheOK cget Sg s c -> ref_ok s f -> ref_ok s vars ->
  (forall v, In v vs -> v < nlevels s) -> is_varset s vars vs ->
  exists s' c' r, quant_edge gt C cget cadd s c QForall f vars = Some (s', c', r) /\
    BddOK s' /\ extends s s' /\ QCacheOK cget Sg s' c' /\ ref_ok s' r /\
    forall a, bfun_of s' r a = forall_s vs (bfun_of s f) a.
Proof. exact forall_edge_sound. Qed.
Print Assumptions C04_forall.

(** unique (the variable list enumerates the set without repetition) *)
Theorem C04_unique : forall gt C cget cadd, lossy cget cadd -> forall Sg s (c : C) f vars vs,
  BddOK s -> QCacheOK cget Sg s c -> ref_ok s f -> ref_ok s vars ->
  (forall v, In v vs -> v < nlevels s) -> is_varset s vars vs -> NoDup vs ->
  exists s' c' r, quant_edge gt C cget cadd s c QUnique f vars = Some (s', c', r) /\
    BddOK s' /\ extends s s' /\ QCacheOK cget Sg s' c' /\ ref_ok s' r /\
    forall a, bfun_of s' r a = unique_s vs (bfun_of s f) a.
Proof. exact unique_edge_sound. Qed.
Print Assumptions C04_unique.

(** apply_exists = the plain operator followed by exists, for all 8 operators *)
Theorem C04_apply_exists : forall gt C cget cadd, lossy cget cadd -> forall Sg op s (c : C) f g vars vs,
  BddOK s -> QCacheOK cget Sg s c -> ref_ok s f -> ref_ok s g -> ref_ok s vars ->
  (forall v, In v vs -> v < nlevels s) -> is_varset s vars vs ->
  exists s' c' r, apply_quant_edge gt C cget cadd s c QExists op f g vars = Some (s', c', r) /\
    BddOK s' /\ extends s s' /\ QCacheOK cget Sg s' c' /\ ref_ok s' r /\
    forall a, bfun_of s' r a = exists_s vs (lift2 op (bfun_of s f) (bfun_of s g)) a.
Proof. exact apply_exists_edge_sound. Qed.
Print Assumptions C04_apply_exists.

(** apply_forall *)
Theorem C04_apply_forall : forall gt C cget cadd, lossy cget cadd -> forall Sg op s (c : C) f g vars vs,
  BddOK s -> QCacheOK cget Sg s c -> ref_ok s f -> ref_ok s g -> ref_ok s vars ->
  (forall v, In v vs -> v < nlevels s) -> is_varset s vars vs ->
  exists s' c' r, apply_quant_edge gt C cget cadd s c QForall op f g vars = Some (s', c', r) /\
    BddOK s' /\ extends s s' /\ QCacheOK cget Sg s' c' /\ ref_ok s' r /\
    forall a, bfun_of s' r a = forall_s vs (lift2 op (bfun_of s f) (bfun_of s g)) a.
Proof. exact apply_forall_edge_sound. Qed.
Print Assumptions C04_apply_forall.

(** apply_unique *)
Theorem C04_apply_unique : forall gt C cget cadd, lossy cget cadd -> forall Sg op s (c : C) f g vars vs,
  BddOK s -> QCacheOK cget Sg s c -> ref_ok s f -> ref_ok s g -> ref_ok s vars ->
  (forall v, In v vs -> v < nlevels s) -> is_varset s vars vs -> NoDup vs ->
  exists s' c' r, apply_quant_edge gt C cget cadd s c QUnique op f g vars = Some (s', c', r) /\
    BddOK s' /\ extends s s' /\ QCacheOK cget Sg s' c' /\ ref_ok s' r /\
    forall a, bfun_of s' r a = unique_s vs (lift2 op (bfun_of s f) (bfun_of s g)) a.
Proof. exact apply_unique_edge_sound. Qed.
Print Assumptions C04_apply_unique.

(** the fused form and "apply, then quantify" both run to completion and
    denote the same function, whatever the two caches contain *)
Theorem C04_apply_quant_is_apply_then_quant : forall gt C cget cadd, lossy cget cadd ->
  forall Sg q op s (c1 c2 : C) f g vars vs,
  BddOK s -> QCacheOK cget Sg s c1 -> QCacheOK cget Sg s c2 -> ref_ok s f -> ref_ok s g -> ref_ok s vars ->
  (forall v, In v vs -> v < nlevels s) -> is_varset s vars vs -> (q = QUnique -> NoDup vs) ->
  exists s1 c1' r1 s2 c2' h s3 c3' r2,
    apply_quant_edge gt C cget cadd s c1 q op f g vars = Some (s1, c1', r1) /\
    apply_bin gt C cget cadd (S (nlevels s)) s c2 op f g = Some (s2, c2', h) /\
    quant_edge gt C cget cadd s2 c2' q h vars = Some (s3, c3', r2) /\
    forall a, bfun_of s1 r1 a = bfun_of s3 r2 a.
Proof. exact apply_quant_is_apply_then_quant. Qed.
Print Assumptions C04_apply_quant_is_apply_then_quant.

(** restrict = cofactor w.r.t. the partial assignment given as a cube of literals *)
Theorem C04_restrict : forall C cget cadd, lossy cget cadd -> forall Sg s (c : C) f vars lits,
  BddOK s -> QCacheOK cget Sg s c -> ref_ok s f -> ref_ok s vars ->
  NoDup (map fst lits) -> (forall p, In p lits -> fst p < nlevels s) -> is_cube s vars lits ->
  exists s' c' r, restrict_edge C cget cadd s c f vars = Some (s', c', r) /\
    BddOK s' /\ extends s s' /\ QCacheOK cget Sg s' c' /\ ref_ok s' r /\
    forall a, bfun_of s' r a = restrict_s lits (bfun_of s f) a.
Proof. exact restrict_edge_sound. Qed.
Print Assumptions C04_restrict.

(** substitute = simultaneous substitution; holds for every use of every
    registered substitution object, in any order, with whatever the cache has
    accumulated from earlier uses of this or other objects *)
Theorem C04_substitute : forall gt C cget cadd, lossy cget cadd -> forall Sg s (c : C) f pairs id,
  BddOK s -> QCacheOK cget Sg s c -> ref_ok s f -> NoDup (map fst pairs) ->
  (forall v r, In (v, r) pairs -> v < nlevels s /\ ref_ok s r) -> Sg id = Some pairs ->
  exists s' c' r, substitute_edge gt C cget cadd s c f pairs id = Some (s', c', r) /\
    BddOK s' /\ extends s s' /\ QCacheOK cget Sg s' c' /\ ref_ok s' r /\
    forall a, bfun_of s' r a =
              subst_s (map (fun p => (fst p, bfun_of s (snd p))) pairs) (bfun_of s f) a.
Proof. exact substitute_edge_sound. Qed.
Print Assumptions C04_substitute.

(** a new substitution object under a fresh id keeps the cache invariant ... *)
Theorem C04_subst_register : forall C (cget : C -> N -> list ref -> option ref) Sg s c id pairs,
  QCacheOK cget Sg s c -> Sg id = None -> QCacheOK cget (sg_add Sg id pairs) s c.
Proof. exact qcacheok_register. Qed.
Print Assumptions C04_subst_register.

(** ... because nothing can be served under an id that was never handed out *)
Theorem C04_subst_fresh_no_entry : forall C (cget : C -> N -> list ref -> option ref) Sg s c id f r,
  QCacheOK cget Sg s c -> Sg id = None -> cget c (code_subst id) [f] = Some r -> False.
Proof. exact fresh_id_no_entry. Qed.
Print Assumptions C04_subst_fresh_no_entry.

(** the invariant is preserved by table extension, and the empty cache has it *)
Theorem C04_qcacheok_extends : forall C (cget : C -> N -> list ref -> option ref) Sg s s' (c : C),
  BddOK s -> extends s s' -> QCacheOK cget Sg s c -> QCacheOK cget Sg s' c.
Proof. exact qcacheok_extends. Qed.
Print Assumptions C04_qcacheok_extends.

Theorem C04_qcacheok_empty : forall Sg s, QCacheOK ac_get Sg s [].
Proof. exact qcacheok_empty. Qed.
Print Assumptions C04_qcacheok_empty.

(** a cleared cache has the invariant (gc and reordering clear the cache: C06) *)
Theorem C04_qinv_init : forall C (cget : C -> N -> list ref -> option ref) cempty s,
  (forall k a, cget cempty k a = None) -> BddOK s -> QInv C cget (mkQ C s cempty [] 0%N).
Proof. exact qinv_init. Qed.
Print Assumptions C04_qinv_init.

(** histories: in every state satisfying the invariant (table, cache, registry
    of substitution objects, id counter) every operation - the three
    quantifiers, the fused forms, restrict, substitute with any registered
    object, creation of a new object under the next id, clearing the cache -
    runs to completion, re-establishes the invariant, only extends the table
    and returns the spec function of its operands *)
Theorem C04_qstep_ok : forall gt C cget cadd, lossy cget cadd ->
  forall cempty, (forall k a, cget cempty k a = None) ->
  forall st o, QInv C cget st -> op_pre C st o ->
  exists st' res, qstep gt C cget cadd cempty st o = Some (st', res) /\ QInv C cget st' /\
                  extends (q_s C st) (q_s C st') /\ op_post C st o st' res.
Proof. exact qstep_ok. Qed.
Print Assumptions C04_qstep_ok.

(** ... hence whole histories: one substitution object applied any number of
    times, several objects in any interleaving, quantifications and cache
    clears in between *)
Theorem C04_qrun_ok : forall gt C cget cadd, lossy cget cadd ->
  forall cempty, (forall k a, cget cempty k a = None) ->
  forall ops st, QInv C cget st -> ops_pre gt C cget cadd cempty st ops ->
  exists st' rs, qrun gt C cget cadd cempty st ops = Some (st', rs) /\ QInv C cget st' /\
                 extends (q_s C st) (q_s C st') /\ run_post gt C cget cadd cempty st ops rs.
Proof. exact qrun_ok. Qed.
Print Assumptions C04_qrun_ok.

(** ** The recursive algorithms (any sufficient fuel, level-indexed semantics) *)

(** [quant] with [set_pop], the unique rule and its cache *)
Theorem C04_quant_rec_ok : forall gt C cget cadd, lossy cget cadd -> forall Sg q fuel s (c : C) f vars phi L,
  BddOK s -> QCacheOK cget Sg s c -> Den s f phi -> ref_ok s vars -> VChain s vars L ->
  nlevels s - rlevel s f < fuel ->
  qresult_ok cget Sg s (quant_rec gt C cget cadd fuel s c q f vars) (qlevs (qf q) L phi).
Proof. exact quant_rec_ok. Qed.
Print Assumptions C04_quant_rec_ok.

(** [restrict] with its tail-recursive literal walk *)
Theorem C04_restrict_ok : forall C cget cadd, lossy cget cadd -> forall Sg fuel s (c : C) f vars phi M,
  BddOK s -> QCacheOK cget Sg s c -> Den s f phi -> ref_ok s vars -> LChain s vars M ->
  nlevels s - rlevel s f < fuel ->
  qresult_ok cget Sg s (restrict C cget cadd fuel s c f vars) (restr M phi).
Proof. exact restrict_ok. Qed.
Print Assumptions C04_restrict_ok.

(** [substitute_prepare]: the level-indexed vector agrees with the object *)
Theorem C04_prepare_ok : forall s pairs, BddOK s -> NoDup (map fst pairs) ->
  (forall v r, In (v, r) pairs -> v < nlevels s /\ ref_ok s r) ->
  exists s0 sv, substitute_prepare s pairs = Some (s0, sv) /\ BddOK s0 /\ extends s s0 /\
    SvOK s0 sv pairs.
Proof. exact prepare_ok. Qed.
Print Assumptions C04_prepare_ok.

(** [substitute] via ite on the replacement of each level, cached under the id *)
Theorem C04_substitute_ok : forall gt C cget cadd, lossy cget cadd ->
  forall Sg fuel s (c : C) f sv id pairs phi,
  BddOK s -> QCacheOK cget Sg s c -> Den s f phi -> SvOK s sv pairs -> Sg id = Some pairs ->
  nlevels s - rlevel s f < fuel ->
  qresult_ok cget Sg s (substitute gt C cget cadd fuel s c f sv id) (psubst s pairs phi).
Proof. exact substitute_ok. Qed.
Print Assumptions C04_substitute_ok.

(** the fused [apply_quant] *)
Theorem C04_apply_quant_ok : forall gt C cget cadd, lossy cget cadd ->
  forall Sg q op fuel s (c : C) f g vars phi psi L,
  BddOK s -> QCacheOK cget Sg s c -> Den s f phi -> Den s g psi -> ref_ok s vars -> VChain s vars L ->
  nlevels s - Nat.min (rlevel s f) (rlevel s g) < fuel ->
  qresult_ok cget Sg s (apply_quant gt C cget cadd fuel s c q op f g vars)
             (qlevs (qf q) L (fun c0 => eval_bop op (phi c0) (psi c0))).
Proof. exact apply_quant_ok. Qed.
Print Assumptions C04_apply_quant_ok.

(** a reference denoting a cube of literals has that cube as its literal chain *)
Theorem C04_cube_chain : forall s, BddOK s -> forall n r M0,
  nlevels s - rlevel s r < n -> Den s r (cubeL M0) -> NoDup (map fst M0) ->
  (forall p, In p M0 -> fst p < nlevels s) ->
  exists M, LChain s r M /\ Permutation M M0.
Proof. exact cube_chain. Qed.
Print Assumptions C04_cube_chain.

(** ** The complement-edge kind (BCDD): models in DD/QuantBcdd.v after
    complement_edge/apply_rec.rs; [cbfun_of] = the function an edge denotes,
    [is_varsetC] / [is_cubeC] / [QCacheOKC] / [lossyC] as for the plain kind *)

(** exists / forall / unique ([q] = the quantifier; [qfun q] = or / and / xor) *)
Theorem C04_bcdd_quant : forall lt C cget cadd, lossyC cget cadd -> forall Sg q s (c : C) f vars,
  BcOK s -> QCacheOKC cget Sg s c -> ref_ok s (eref f) -> ref_ok s (eref vars) ->
  exists s' c' r, cquant_edge lt C cget cadd s c q f vars = Some (s', c', r) /\
    BcOK s' /\ extends s s' /\ QCacheOKC cget Sg s' c' /\ ref_ok s' (eref r) /\
    forall vs, (forall v, In v vs -> v < nlevels s) -> is_varsetC s vars vs -> (q = QUnique -> NoDup vs) ->
    forall a, cbfun_of s' r a = quant (qfun q) vs (cbfun_of s f) a.
Proof. exact cquant_edge_sound. Qed.
Print Assumptions C04_bcdd_quant.

(** apply_forall / apply_exists / apply_unique through [apply_quant_dispatch::<Q, QN>] and
    [apply_quant_unique_dispatch] (incl. [UniqueNand]), all 8 operators *)
Theorem C04_bcdd_apply_quant : forall lt C cget cadd, lossyC cget cadd -> forall Sg q op s (c : C) f g vars,
  BcOK s -> QCacheOKC cget Sg s c -> ref_ok s (eref f) -> ref_ok s (eref g) -> ref_ok s (eref vars) ->
  exists s' c' r, capply_quant_edge lt C cget cadd s c q op f g vars = Some (s', c', r) /\
    BcOK s' /\ extends s s' /\ QCacheOKC cget Sg s' c' /\ ref_ok s' (eref r) /\
    forall vs, (forall v, In v vs -> v < nlevels s) -> is_varsetC s vars vs -> (q = QUnique -> NoDup vs) ->
    forall a, cbfun_of s' r a = quant (qfun q) vs (lift2 op (cbfun_of s f) (cbfun_of s g)) a.
Proof. exact capply_quant_edge_sound. Qed.
Print Assumptions C04_bcdd_apply_quant.

(** restrict with the [f_neg] / [vars_neg] polarity tracking *)
Theorem C04_bcdd_restrict : forall C cget cadd, lossyC cget cadd -> forall Sg s (c : C) f vars,
  BcOK s -> QCacheOKC cget Sg s c -> ref_ok s (eref f) -> ref_ok s (eref vars) ->
  exists s' c' r, crestrict_edge C cget cadd s c f vars = Some (s', c', r) /\
    BcOK s' /\ extends s s' /\ QCacheOKC cget Sg s' c' /\ ref_ok s' (eref r) /\
    forall lits, NoDup (map fst lits) -> (forall p, In p lits -> fst p < nlevels s) -> is_cubeC s vars lits ->
    forall a, cbfun_of s' r a = restrict_s lits (cbfun_of s f) a.
Proof. exact crestrict_edge_sound. Qed.
Print Assumptions C04_bcdd_restrict.

(** substitute *)
Theorem C04_bcdd_substitute : forall lt C cget cadd, lossyC cget cadd -> forall Sg s (c : C) f pairs id,
  BcOK s -> QCacheOKC cget Sg s c -> ref_ok s (eref f) -> NoDup (map fst pairs) ->
  (forall v r, In (v, r) pairs -> v < nlevels s /\ ref_ok s (eref r)) -> Sg id = Some pairs ->
  exists s' c' r, csubstitute_edge lt C cget cadd s c f pairs id = Some (s', c', r) /\
    BcOK s' /\ extends s s' /\ QCacheOKC cget Sg s' c' /\ ref_ok s' (eref r) /\
    forall a, cbfun_of s' r a =
              subst_s (map (fun p => (fst p, cbfun_of s (snd p))) pairs) (cbfun_of s f) a.
Proof. exact csubstitute_edge_sound. Qed.
Print Assumptions C04_bcdd_substitute.

Theorem C04_bcdd_subst_register : forall C (cget : C -> N -> list edge -> option edge) Sg s c id pairs,
  QCacheOKC cget Sg s c -> Sg id = None -> QCacheOKC cget (csg_add Sg id pairs) s c.
Proof. exact qcacheokc_register. Qed.
Print Assumptions C04_bcdd_subst_register.

Theorem C04_bcdd_subst_fresh_no_entry : forall C (cget : C -> N -> list edge -> option edge) Sg s c id f r,
  QCacheOKC cget Sg s c -> Sg id = None -> cget c (ccode_subst id) [f] = Some r -> False.
Proof. exact cfresh_id_no_entry. Qed.
Print Assumptions C04_bcdd_subst_fresh_no_entry.

(** the recursive algorithms, any sufficient fuel *)
Theorem C04_bcdd_quant_rec_ok : forall lt C cget cadd, lossyC cget cadd -> forall Sg q fuel s (c : C) f vars phi L,
  BcOK s -> QCacheOKC cget Sg s c -> DenC s f phi -> ref_ok s (eref vars) -> VChainC s vars L ->
  nlevels s - rlevel s (eref f) < fuel ->
  qcresult_ok cget Sg s (cquant_rec lt C cget cadd fuel s c q f vars) (qlevs (qf q) L phi).
Proof. exact cquant_rec_ok. Qed.
Print Assumptions C04_bcdd_quant_rec_ok.

Theorem C04_bcdd_apply_quant_ok : forall lt C cget cadd, lossyC cget cadd -> forall Sg q o k,
  caqcode q o = Some k -> forall fuel s (c : C) f g vars phi psi L,
  BcOK s -> QCacheOKC cget Sg s c -> DenC s f phi -> DenC s g psi -> ref_ok s (eref vars) -> VChainC s vars L ->
  nlevels s - Nat.min (rlevel s (eref f)) (rlevel s (eref g)) < fuel ->
  qcresult_ok cget Sg s (capply_quant lt C cget cadd fuel s c q o f g vars)
              (qlevs (qf q) L (fun c0 => aqeval o (phi c0) (psi c0))).
Proof. exact capply_quant_ok. Qed.
Print Assumptions C04_bcdd_apply_quant_ok.

Theorem C04_bcdd_restrict_ok : forall C cget cadd, lossyC cget cadd -> forall Sg fuel s (c : C) f vars phi M,
  BcOK s -> QCacheOKC cget Sg s c -> DenC s f phi -> ref_ok s (eref vars) ->
  LChainC s (eref vars) (etag vars) M -> nlevels s - rlevel s (eref f) < fuel ->
  qcresult_ok cget Sg s (crestrict C cget cadd fuel s c f vars) (restr M phi).
Proof. exact crestrict_ok. Qed.
Print Assumptions C04_bcdd_restrict_ok.

Theorem C04_bcdd_substitute_ok : forall lt C cget cadd, lossyC cget cadd ->
  forall Sg fuel s (c : C) f sv id pairs phi,
  BcOK s -> QCacheOKC cget Sg s c -> DenC s f phi -> SvOKC s sv pairs -> Sg id = Some pairs ->
  nlevels s - rlevel s (eref f) < fuel ->
  qcresult_ok cget Sg s (csubstitute lt C cget cadd fuel s c f sv id) (psubstC s pairs phi).
Proof. exact csubstitute_ok. Qed.
Print Assumptions C04_bcdd_substitute_ok.

(** an edge denoting a cube has that cube as the chain [restrict]'s polarity-tracking walk reads *)
Theorem C04_bcdd_cube_chain : forall s, BcOK s -> forall n r neg M0,
  nlevels s - rlevel s r < n -> DenC s (mkEdge r neg) (cubeL M0) -> NoDup (map fst M0) ->
  (forall p, In p M0 -> fst p < nlevels s) ->
  exists M, LChainC s r neg M /\ Permutation M M0.
Proof. exact cube_chainC. Qed.
Print Assumptions C04_bcdd_cube_chain.

(** ** Spec-layer laws *)

(** order of the variable list (or, and, xor) *)
Theorem C04_quant_perm : forall q vs vs' f, medial q -> aext f -> Permutation vs vs' ->
  forall a, quant q vs f a = quant q vs' f a.
Proof. exact quant_perm. Qed.
Print Assumptions C04_quant_perm.

(** or / and: only the set of variables matters *)
Theorem C04_exists_same_elems : forall vs vs' f, aext f -> (forall v, In v vs <-> In v vs') ->
  forall a, exists_s vs f a = exists_s vs' f a.
Proof. exact exists_same_elems. Qed.
Print Assumptions C04_exists_same_elems.

Theorem C04_forall_same_elems : forall vs vs' f, aext f -> (forall v, In v vs <-> In v vs') ->
  forall a, forall_s vs f a = forall_s vs' f a.
Proof. exact forall_same_elems. Qed.
Print Assumptions C04_forall_same_elems.

Theorem C04_unique_perm : forall vs vs' f, aext f -> Permutation vs vs' ->
  forall a, unique_s vs f a = unique_s vs' f a.
Proof. exact unique_perm. Qed.
Print Assumptions C04_unique_perm.

Theorem C04_unique_dup : forall v vs f, aext f -> In v vs ->
  forall a, unique_s (v :: vs) f a = false.
Proof. exact unique_dup. Qed.
Print Assumptions C04_unique_dup.

(** duality *)
Theorem C04_forall_exists_dual : forall vs f a,
  forall_s vs f a = negb (exists_s vs (lift1 negb f) a).
Proof. exact forall_exists_dual. Qed.
Print Assumptions C04_forall_exists_dual.

Theorem C04_exists_forall_dual : forall vs f a,
  exists_s vs f a = negb (forall_s vs (lift1 negb f) a).
Proof. exact exists_forall_dual. Qed.
Print Assumptions C04_exists_forall_dual.

(** variables outside the support *)
Theorem C04_quant_not_support : forall q vs f, idem q -> (forall v, In v vs -> nodep_s f v) ->
  forall a, quant q vs f a = f a.
Proof. exact quant_not_support. Qed.
Print Assumptions C04_quant_not_support.

Theorem C04_unique_not_support : forall v vs f, aext f -> nodep_s f v ->
  forall a, unique_s (v :: vs) f a = false.
Proof. exact unique_not_support. Qed.
Print Assumptions C04_unique_not_support.

(** restriction is the cofactor w.r.t. the partial assignment *)
Theorem C04_restrict_s_over : forall lits f a, restrict_s lits f a = f (over lits a).
Proof. exact restrict_s_over. Qed.
Print Assumptions C04_restrict_s_over.

Theorem C04_over_spec : forall lits a x, NoDup (map fst lits) ->
  over lits a x = match assoc_nat lits x with Some b => b | None => a x end.
Proof. exact over_spec. Qed.
Print Assumptions C04_over_spec.

Theorem C04_restrict_s_perm : forall lits lits' f, aext f -> NoDup (map fst lits) ->
  Permutation lits lits' -> forall a, restrict_s lits f a = restrict_s lits' f a.
Proof. exact restrict_s_perm. Qed.
Print Assumptions C04_restrict_s_perm.

(** substitution: simultaneous, unlisted variables untouched, identity, unused, Shannon *)
Theorem C04_subst_s_var : forall sub v a,
  subst_s sub (var_s v) a = match assoc_nat sub v with Some g => g a | None => a v end.
Proof. exact subst_s_var. Qed.
Print Assumptions C04_subst_s_var.

Theorem C04_subst_s_lift2 : forall sub o f g a,
  subst_s sub (lift2 o f g) a = lift2 o (subst_s sub f) (subst_s sub g) a.
Proof. exact subst_s_lift2. Qed.
Print Assumptions C04_subst_s_lift2.

Theorem C04_subst_s_id : forall sub f, aext f ->
  (forall v g, assoc_nat sub v = Some g -> forall a, g a = a v) ->
  forall a, subst_s sub f a = f a.
Proof. exact subst_s_id. Qed.
Print Assumptions C04_subst_s_id.

Theorem C04_subst_s_unused : forall sub f v g, aext f -> nodep_s f v ->
  forall a, subst_s ((v, g) :: sub) f a = subst_s sub f a.
Proof. exact subst_s_unused. Qed.
Print Assumptions C04_subst_s_unused.

Theorem C04_subst_s_shannon : forall sub f v, aext f -> forall a,
  subst_s sub f a =
  if (match assoc_nat sub v with Some g => g a | None => a v end)
  then subst_s sub (cof f v true) a else subst_s sub (cof f v false) a.
Proof. exact subst_s_shannon. Qed.
Print Assumptions C04_subst_s_shannon.

(** every function denoted by a reference respects pointwise equality of assignments *)
Theorem C04_aext_bfun_of : forall s, WF s -> forall r, aext (bfun_of s r).
Proof. exact aext_bfun_of. Qed.
Print Assumptions C04_aext_bfun_of.

(** the dispatch tables of the complement-edge kind *)
Theorem C04_bcdd_dispatch_spec : forall q o vs f g a, q <> QUnique ->
  run_row (bcdd_dispatch q o) vs f g a = apply_quant_s q o vs f g a.
Proof. exact bcdd_dispatch_spec. Qed.
Print Assumptions C04_bcdd_dispatch_spec.

Theorem C04_bcdd_unique_dispatch_spec : forall o vs f g a,
  run_row (bcdd_unique_dispatch o) vs f g a = apply_quant_s QUnique o vs f g a.
Proof. exact bcdd_unique_dispatch_spec. Qed.
Print Assumptions C04_bcdd_unique_dispatch_spec.

(** ** The hypotheses are satisfiable (concrete table, DD/QuantExamples.v) *)
Definition C04_pin_hyps := ex_quant_hyps.
Definition C04_pin_subst_hyps := ex_subst_hyps.
Definition C04_pin_run_quant := ex_quant_x0.
Definition C04_pin_run_quant_above := ex_quant_var_above.
Definition C04_pin_run_restrict := ex_restrict.
Definition C04_pin_run_apply_quant := ex_apply_quant.
Definition C04_pin_run_substitute := ex_substitute.
Definition C04_pin_run_history := ex_history.
Definition C04_pin_history_inv := ex_history_inv.
Definition C04_pin_bcdd_hyps := ex_bcdd_quant_hyps.
Definition C04_pin_bcdd_subst_hyps := ex_bcdd_subst_hyps.
Definition C04_pin_bcdd_run_quant := ex_c_quant.
Definition C04_pin_bcdd_run_restrict := ex_c_restrict.
Definition C04_pin_bcdd_run_apply_quant := ex_c_apply_quant.
Definition C04_pin_bcdd_run_substitute := ex_c_substitute.

(** ** The ZBDD kind: [restrict] (package C02z; model DD/ZbddBool.v [zrestrict] / [zrestrict_base],
       proofs DD/ZbddRestrictProofs.v, DD/ZbddRestrictTop.v)

    Reading.  [zbfun_of s r] is the Boolean function of a ZBDD reference over all variables of the
    manager; [zcube_lits] reads the literal list (level, polarity) off the cube handle the way the
    code walks it (a skipped level is a negative literal, a node with equal children no literal, a
    node with lo = Empty a positive one; [None] = not a cube); [lits_vars] renames levels to
    variables; [ZCube s M lvl vars] is the same reading as a relation; [prestr n M lvl P] the
    family of the restriction. *)
From OxiVerif Require Import DD.TableExtra DD.FamSpec DD.FamSpecProofs DD.ZbddOps DD.ZbddOpsProofs
  DD.ZbddVars DD.ZbddVarsProofs DD.ZbddExamples DD.ZbddBool DD.ZbddBoolProofs DD.ZbddEvalProofs
  DD.ZbddRestrictProofs DD.ZbddRestrictTop DD.ZbddBoolExamples.

(** [restrict] = the cofactor w.r.t. the partial assignment given by the cube, and the cube handle
    indeed denotes the conjunction of those literals *)
Theorem C04_zbdd_restrict : forall C cget cadd, zlossy C cget cadd ->
  forall s (c : C) f vars lits,
  ZbddOK s -> zchain_ok_b s = true -> ZCacheOKB C cget s c -> ref_ok s f ->
  zcube_lits (S (nlevels s)) s vars 0 = Some lits ->
  exists s' c' r, zrestrict_edge C cget cadd (S (nlevels s)) s c f vars = Some (s', c', r) /\
    (ZbddOK s' /\ zchain_ok_b s' = true /\ extends s s' /\ ZCacheOKB C cget s' c' /\ ref_ok s' r) /\
    (forall a, zbfun_of s' r a = restrict_s (lits_vars s lits) (zbfun_of s f) a) /\
    (forall a, zbfun_of s vars a =
       forallb (fun p : nat * bool => Bool.eqb (a (fst p)) (snd p)) (lits_vars s lits)).
Proof. exact zrestrict_edge_bfun. Qed.
Print Assumptions C04_zbdd_restrict.

(** per choice (level-indexed): the view of the result at [c0] is the view of the operand at [c0]
    with the literal levels overridden; for any fuel and any reference of cube shape *)
Theorem C04_zbdd_restrict_view : forall C cget cadd, zlossy C cget cadd ->
  forall fuel s (c : C) f vars M,
  ZbddOK s -> zchain_ok_b s = true -> ZCacheOKB C cget s c -> ref_ok s f -> ZCube s M 0 vars ->
  S (nlevels s) <= fuel ->
  exists s' c' r, zrestrict_edge C cget cadd fuel s c f vars = Some (s', c', r) /\
    (ZbddOK s' /\ zchain_ok_b s' = true /\ extends s s' /\ ZCacheOKB C cget s' c' /\ ref_ok s' r) /\
    forall c0, choice_ok s c0 ->
      zview_of s' r c0 =
      zview_of s f (fun l => match M l with Some true => 0 | Some false => 1 | None => c0 l end).
Proof. exact zrestrict_edge_cube. Qed.
Print Assumptions C04_zbdd_restrict_view.

(** the level-threaded recursion, for every level, sufficient fuel, lossy cache *)
Theorem C04_zbdd_restrict_ok : forall C cget cadd, zlossy C cget cadd ->
  forall fuel s (c : C) f vars lvl P M,
  ZbddOK s -> zchain_ok_b s = true -> ZCacheOKB C cget s c -> ZDen s f P -> ZCube s M lvl vars ->
  lvl <= rlevel s f -> nlevels s - lvl < fuel ->
  exists s' c' r, zrestrict C cget cadd fuel s c f vars lvl = Some (s', c', r) /\
    ZbddOK s' /\ extends s s' /\ ZCacheOKB C cget s' c' /\
    ZDen s' r (prestr (nlevels s) M lvl P).
Proof. exact zrestrict_ok. Qed.
Print Assumptions C04_zbdd_restrict_ok.

(** [restrict_base]: the restriction of Base, don't-care nodes re-inserted for the skipped levels *)
Theorem C04_zbdd_restrict_base_ok : forall fuel s vars lvl M,
  ZbddOK s -> zchain_ok_b s = true -> ZCube s M lvl vars -> lvl <= nlevels s -> nlevels s - lvl < fuel ->
  exists s' r, zrestrict_base fuel s vars lvl = Some (s', r) /\
    ZbddOK s' /\ extends s s' /\ ZDen s' r (prestr (nlevels s) M lvl (fun S => S = [])).
Proof. exact zrestrict_base_ok. Qed.
Print Assumptions C04_zbdd_restrict_base_ok.

(** the family of the restriction means: override the literal levels, then ask the operand *)
Theorem C04_zbdd_prestr_spec : forall n M lvl (P : lset -> Prop) S,
  prestr n M lvl P S <->
  incr_from lvl S /\ Forall (fun x => x < n) S /\
  P (true_levels (fun l => match M l with
                           | Some true => 0 | Some false => 1
                           | None => if smem l S then 0 else 1 end) lvl (n - lvl)).
Proof. intros n M lvl P S. reflexivity. Qed.
Print Assumptions C04_zbdd_prestr_spec.

(** the structural reading of the cube is the semantic one: a reference of cube shape denotes
    exactly the sets that contain every positive and no negative literal level *)
Theorem C04_zbdd_cube_den : forall s M lvl vars, ZbddOK s -> ZCube s M lvl vars -> lvl <= nlevels s ->
  ZDen s vars (fun S => incr_from lvl S /\ Forall (fun x => x < nlevels s) S /\
    forall l, lvl <= l < nlevels s -> (M l = Some true -> In l S) /\ (M l = Some false -> ~ In l S)).
Proof. exact zcube_den. Qed.
Print Assumptions C04_zbdd_cube_den.

(** the executable reader (run on real snapshots) returns the literals of a [ZCube], sorted by level *)
Theorem C04_zbdd_cube_lits : forall s, ZbddOK s -> forall fuel vars lvl lits,
  zcube_lits fuel s vars lvl = Some lits -> lvl <= nlevels s ->
  incr_from lvl (map fst lits) /\ Forall (fun x => x < nlevels s) (map fst lits) /\
  ZCube s (fun l => assoc_nat lits l) lvl vars.
Proof. exact zcube_lits_cube. Qed.
Print Assumptions C04_zbdd_cube_lits.

(** the shape determines the literals (used for the cache entries keyed by (f, vars)) *)
Theorem C04_zbdd_cube_agree : forall s M M' lvl vars, WF s -> ZCube s M lvl vars -> ZCube s M' lvl vars ->
  forall l, lvl <= l < nlevels s -> M l = M' l.
Proof. exact zcube_agree. Qed.
Print Assumptions C04_zbdd_cube_agree.

Definition C04_pin_zbdd_hyps := conj ex_z4_ok ex_z4_chain.
Definition C04_pin_zbdd_run_restrict := ex_z4_restrict.

(** *** ... with the semantic hypothesis of the property text (DD/ZbddCubeCanon.v): [vars] is any
    handle whose Boolean function is the conjunction of the literals [lits] (variable, polarity) *)
From OxiVerif Require Import DD.ZbddCubeCanon.

Theorem C04_zbdd_restrict_is_cube : forall C cget cadd, zlossy C cget cadd ->
  forall s (c : C) f vars lits,
  ZbddOK s -> zchain_ok_b s = true -> ZCacheOKB C cget s c -> ref_ok s f -> ref_ok s vars ->
  NoDup (map fst lits) -> (forall v b, In (v, b) lits -> v < nlevels s) ->
  (forall a, zbfun_of s vars a = forallb (fun p : nat * bool => Bool.eqb (a (fst p)) (snd p)) lits) ->
  exists s' c' r, zrestrict_edge C cget cadd (S (nlevels s)) s c f vars = Some (s', c', r) /\
    (ZbddOK s' /\ zchain_ok_b s' = true /\ extends s s' /\ ZCacheOKB C cget s' c' /\ ref_ok s' r) /\
    (forall a, zbfun_of s' r a = restrict_s lits (zbfun_of s f) a) /\
    exists lits', zcube_lits (S (nlevels s)) s vars 0 = Some lits'.
Proof. exact zrestrict_edge_is_cube. Qed.
Print Assumptions C04_zbdd_restrict_is_cube.

(** canonicity for cubes: a reference that denotes the conjunction of the literals [M] (from level
    [lvl] on) has the shape the code walks *)
Theorem C04_zbdd_cube_shape : forall s, ZbddOK s -> forall k lvl vars M,
  nlevels s - lvl <= k -> lvl <= nlevels s ->
  ZDen s vars (fun S => incr_from lvl S /\ Forall (fun x => x < nlevels s) S /\
    forall l, lvl <= l < nlevels s -> (M l = Some true -> In l S) /\ (M l = Some false -> ~ In l S)) ->
  ZCube s M lvl vars.
Proof. exact zcube_of_den. Qed.
Print Assumptions C04_zbdd_cube_shape.

(** the executable reader accepts every reference of cube shape *)
Theorem C04_zbdd_cube_lits_complete : forall s, ZbddOK s -> forall M lvl vars, ZCube s M lvl vars ->
  forall fuel, lvl <= nlevels s -> nlevels s - lvl < fuel ->
  exists lits, zcube_lits fuel s vars lvl = Some lits.
Proof. exact zcube_lits_complete. Qed.
Print Assumptions C04_zbdd_cube_lits_complete.
