(** C05 — property theorems only (proved in DD/TableProofs.v). *)
From Coq Require Import List NArith FMapPositive.
From OxiVerif Require Import DD.Table DD.TableExtra DD.TableProofs.

(* the checker decides: every stored node's count = handles + extra owners + parent edges *)
Theorem C05_rc_exact_b_spec : forall s extra,
  rc_exact_b s extra = true <->
  forall id nd, find_node s id = Some nd ->
    nrc nd = N.of_nat (refs_to id (handle_refs s) + refs_to id (map eref extra)
                       + refs_to id (child_refs s)).
Proof. exact rc_exact_b_spec. Qed.
Print Assumptions C05_rc_exact_b_spec.

(* what child_refs lists: exactly the child edges of stored nodes *)
Theorem C05_child_refs_In : forall s r,
  In r (child_refs s) <->
  exists id nd e, find_node s id = Some nd /\ In e (nchildren nd) /\ eref e = r.
Proof. exact child_refs_In. Qed.
Print Assumptions C05_child_refs_In.

Theorem C05_no_dead_b_spec : forall s,
  no_dead_b s = true <-> forall id nd, find_node s id = Some nd -> nrc nd <> 0%N.
Proof. exact no_dead_b_spec. Qed.
Print Assumptions C05_no_dead_b_spec.

(* exact counts + no zero count => nothing unreachable is stored *)
Theorem C05_no_dead_reachable : forall s extra, WF s ->
  rc_exact_b s extra = true -> no_dead_b s = true ->
  forall id nd, find_node s id = Some nd ->
    reachable s (handle_refs s ++ map eref extra) (RN id).
Proof. exact no_dead_reachable. Qed.
Print Assumptions C05_no_dead_reachable.

(* the hypotheses are satisfiable *)
Theorem C05_example : WF ex_snap /\ rc_exact_b ex_snap nil = true /\ no_dead_b ex_snap = true.
Proof. exact (conj ex_snap_WF (conj ex_snap_rc_exact_b ex_snap_no_dead_b)). Qed.
Print Assumptions C05_example.

(** ** state-machine theorems (interleaving model Mgr/Conc.v, whole collection Mgr/ConcGc.v;
       proved in Mgr/ConcProofs.v, ConcSem.v, ConcGcProofs.v).  [CInv] is spelled out by
       C07_inv_def in Props/C07.v: keys distinct, every stored node passes node_pre_b,
       per-level uniqueness, owned edges valid, crc = owners + parents.  For ZBDDs the
       manager's tautology chain is an owner like any other: its edges are tokens of a
       pseudo-thread in [cown]. *)
From Coq Require Import PArith Bool Arith.
From OxiVerif Require Import Mgr.Conc Mgr.ConcBase Mgr.ConcProofs Mgr.ConcSnap Mgr.ConcSem
  Mgr.ConcExamples Mgr.ConcGc Mgr.ConcGcProofs Mgr.ConcGcExamples.
Import ListNotations.

(* counts are exact (and the table well-formed) after ANY schedule of any threads *)
Theorem C05_sm_counts_exact_any_history : forall k terms nl sched s,
  terms_unique_b terms = true -> run k terms nl cempty sched = Some s ->
  WF (to_snap k terms nl s) /\ rc_exact_b (to_snap k terms nl s) [] = true.
Proof. exact run_counts_exact. Qed.
Print Assumptions C05_sm_counts_exact_any_history.

(* a stored node disappears only when neither a handle nor another stored node refers to it *)
Theorem C05_sm_gc_only_unreferenced : forall k terms nl s id s' r, CInv k terms nl s ->
  step k terms nl s (AGcNode id) = Some (s', r) ->
  owners (cown s) id = 0 /\ parents (cn s) id = 0 /\
  (forall o, In o (cown s) -> eref (snd o) <> RN id) /\
  (forall j nd e, cfind (cn s) j = Some nd -> In e (cch nd) -> eref e <> RN id) /\
  cfind (cn s') id = None.
Proof. exact gc_safe. Qed.
Print Assumptions C05_sm_gc_only_unreferenced.

(* no other action removes or alters a node that is in use *)
Theorem C05_sm_in_use_kept : forall k terms nl s a s' r id nd, CInv k terms nl s ->
  step k terms nl s a = Some (s', r) ->
  cfind (cn s) id = Some nd -> crc nd <> 0%N ->
  exists nd', cfind (cn s') id = Some nd' /\ cl nd' = cl nd /\ cch nd' = cch nd.
Proof. exact step_frame. Qed.
Print Assumptions C05_sm_in_use_kept.

Theorem C05_sm_release_never_underflows : forall k terms nl s tid e id, CInv k terms nl s ->
  In (tid, e) (cown s) -> eref e = RN id ->
  exists nd s', cfind (cn s) id = Some nd /\ crc nd <> 0%N /\
                step k terms nl s (ARelease tid e) = Some (s', None) /\
                exists nd', cfind (cn s') id = Some nd' /\ crc nd' = N.pred (crc nd).
Proof. exact release_safe. Qed.
Print Assumptions C05_sm_release_never_underflows.

(* every edge in use denotes the same function before and after any single action *)
Theorem C05_sm_handles_keep_function : forall k terms nl s a s' r e c, CInv k terms nl s ->
  step k terms nl s a = Some (s', r) ->
  (forall id, eref e = RN id -> exists nd, cfind (cn s) id = Some nd /\ crc nd <> 0%N) ->
  sem_edge (to_snap k terms nl s') e c = sem_edge (to_snap k terms nl s) e c.
Proof. exact step_sem_preserved. Qed.
Print Assumptions C05_sm_handles_keep_function.

(* (a) a whole collection (Manager::gc: levels top-down, per level every entry whose count
   is 0 when visited) is a schedule of collector actions of the model *)
Theorem C05_sm_collect_is_schedule : forall k terms nl s,
  run k terms nl s (collect_sched k terms nl s) = Some (collect k terms nl s) /\
  forall a, In a (collect_sched k terms nl s) -> exists id, a = AGcNode id.
Proof. exact collect_is_run. Qed.
Print Assumptions C05_sm_collect_is_schedule.

Theorem C05_sm_collect_wf : forall k terms nl s, CInv k terms nl s -> terms_unique_b terms = true ->
  CInv k terms nl (collect k terms nl s) /\ WF (to_snap k terms nl (collect k terms nl s)) /\
  rc_exact_b (to_snap k terms nl (collect k terms nl s)) [] = true.
Proof. exact collect_wf. Qed.
Print Assumptions C05_sm_collect_wf.

(* (b) the collection frees EXACTLY the unreferenced nodes: a node is stored afterwards iff
   it was stored before and is reachable from an owned edge; survivors keep level and children *)
Theorem C05_sm_collect_exact : forall k terms nl s id, CInv k terms nl s ->
  ((exists nd', cfind (cn (collect k terms nl s)) id = Some nd') <->
   (exists nd, cfind (cn s) id = Some nd) /\
   (exists o, In o (cown s) /\ creach (cn s) (eref (snd o)) (RN id))) /\
  (forall nd', cfind (cn (collect k terms nl s)) id = Some nd' ->
     exists nd, cfind (cn s) id = Some nd /\ cl nd' = cl nd /\ cch nd' = cch nd).
Proof. exact collect_exact. Qed.
Print Assumptions C05_sm_collect_exact.

(* the executable reachability test decides "reachable from an owned edge" *)
Theorem C05_sm_reach_checker : forall k terms nl s id, CInv k terms nl s ->
  (reach_own_b nl s id = true <->
   exists o, In o (cown s) /\ creach (cn s) (eref (snd o)) (RN id)).
Proof. exact reach_own_b_spec. Qed.
Print Assumptions C05_sm_reach_checker.

(* (c) all owner tokens are unchanged and every owned edge denotes the same function *)
Theorem C05_sm_collect_keeps : forall k terms nl s, CInv k terms nl s ->
  cown (collect k terms nl s) = cown s /\
  forall tid e c, In (tid, e) (cown s) ->
    sem_edge (to_snap k terms nl (collect k terms nl s)) e c = sem_edge (to_snap k terms nl s) e c.
Proof. exact collect_keeps. Qed.
Print Assumptions C05_sm_collect_keeps.

(* (d) no node with count 0 is left *)
Theorem C05_sm_collect_no_dead : forall k terms nl s, CInv k terms nl s ->
  forall j nd, cfind (cn (collect k terms nl s)) j = Some nd -> crc nd <> 0%N.
Proof. exact collect_no_dead. Qed.
Print Assumptions C05_sm_collect_no_dead.

Theorem C05_sm_collect_no_dead_b : forall k terms nl s, CInv k terms nl s ->
  no_dead_b (to_snap k terms nl (collect k terms nl s)) = true.
Proof. exact collect_no_dead_b. Qed.
Print Assumptions C05_sm_collect_no_dead_b.

(* (e) all handles dropped: the collection returns the manager to its initial, empty state *)
Theorem C05_sm_collect_all_dropped : forall k terms nl s, CInv k terms nl s -> cown s = [] ->
  collect k terms nl s = cempty.
Proof. exact collect_all_dropped. Qed.
Print Assumptions C05_sm_collect_all_dropped.

(* (f) idempotence; a collection is a no-op iff there is nothing to free *)
Theorem C05_sm_collect_idem : forall k terms nl s, CInv k terms nl s ->
  collect k terms nl (collect k terms nl s) = collect k terms nl s.
Proof. exact collect_idem. Qed.
Print Assumptions C05_sm_collect_idem.

Theorem C05_sm_collect_noop_iff : forall k terms nl s, CInv k terms nl s ->
  (collect k terms nl s = s <-> forall j nd, cfind (cn s) j = Some nd -> crc nd <> 0%N).
Proof. exact collect_noop_iff. Qed.
Print Assumptions C05_sm_collect_noop_iff.

(* histories: actions of any threads interleaved with whole collections at arbitrary points *)
Theorem C05_sm_history_counts_exact : forall k terms nl hist s, terms_unique_b terms = true ->
  hrun k terms nl cempty hist = Some s ->
  CInv k terms nl s /\ WF (to_snap k terms nl s) /\ rc_exact_b (to_snap k terms nl s) [] = true.
Proof. exact history_counts_exact. Qed.
Print Assumptions C05_sm_history_counts_exact.

(* a handle that is held (by some thread, in every state of the history) denotes at the end
   what it denoted when it was obtained *)
Theorem C05_sm_history_sem : forall k terms nl hist s s' e c, CInv k terms nl s ->
  hrun k terms nl s hist = Some s' -> held_through k terms nl s hist e ->
  sem_edge (to_snap k terms nl s') e c = sem_edge (to_snap k terms nl s) e c.
Proof. exact history_sem. Qed.
Print Assumptions C05_sm_history_sem.

(* non-vacuity: a reachable state with a dead chain of two nodes on different levels (node 3
   on level 0 unreferenced, node 1 on level 1 referenced only by node 3) and one live node;
   the collection removes exactly the chain; sweeping bottom-up would not *)
Theorem C05_sm_example :
  CInv KBdd ex_terms 2 gc_ex /\
  collect KBdd ex_terms 2 gc_ex = gc_ex_after /\
  collect_sched KBdd ex_terms 2 gc_ex = [AGcNode 3; AGcNode 1] /\
  (reach_own_b 2 gc_ex 2 = true /\ reach_own_b 2 gc_ex 1 = false /\ reach_own_b 2 gc_ex 3 = false) /\
  hrun KBdd ex_terms 2 gc_ex [HCollect; HAct (ARelease 1 (E 2)); HCollect] = Some cempty /\
  held_through KBdd ex_terms 2 gc_ex gc_hist (E 2).
Proof.
  exact (conj gc_ex_inv (conj gc_ex_collect (conj gc_ex_sched (conj gc_ex_reach
          (conj gc_ex_all_dropped gc_hist_held))))).
Qed.
Print Assumptions C05_sm_example.
