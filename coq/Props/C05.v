(** C05 — property theorems only (proved in DD/TableProofs.v). *)
From Coq Require Import List NArith FMapPositive.
From OxiVerif Require Import DD.Table DD.TableExtra DD.TableProofs.

(* the checker decides: every stored node's count = handles + extra owners + parent edges *)
Theorem C05_rc_exact_b_spec : forall s extra,
  rc_exact_b s extra = true <->
  forall id nd, find_node s id = Some nd ->
    nrc nd = N.of_nat (refs_to id (handle_refs s) + refs_to id (map eref extra)
                       + refs_to id (child_refs s)).
Proof. exact rc_exact_b_spec. Qed.
Print Assumptions C05_rc_exact_b_spec.

(* what child_refs lists: exactly the child edges of stored nodes *)
Theorem C05_child_refs_In : forall s r,
  In r (child_refs s) <->
  exists id nd e, find_node s id = Some nd /\ In e (nchildren nd) /\ eref e = r.
Proof. exact child_refs_In. Qed.
Print Assumptions C05_child_refs_In.

Theorem C05_no_dead_b_spec : forall s,
  no_dead_b s = true <-> forall id nd, find_node s id = Some nd -> nrc nd <> 0%N.
Proof. exact no_dead_b_spec. Qed.
Print Assumptions C05_no_dead_b_spec.

(* exact counts + no zero count => nothing unreachable is stored *)
Theorem C05_no_dead_reachable : forall s extra, WF s ->
  rc_exact_b s extra = true -> no_dead_b s = true ->
  forall id nd, find_node s id = Some nd ->
    reachable s (handle_refs s ++ map eref extra) (RN id).
Proof. exact no_dead_reachable. Qed.
Print Assumptions C05_no_dead_reachable.

(* the hypotheses are satisfiable *)
Theorem C05_example : WF ex_snap /\ rc_exact_b ex_snap nil = true /\ no_dead_b ex_snap = true.
Proof. exact (conj ex_snap_WF (conj ex_snap_rc_exact_b ex_snap_no_dead_b)). Qed.
Print Assumptions C05_example.
