(** C05 — property theorems only (proved in DD/TableProofs.v). *)
From Coq Require Import List NArith FMapPositive.
From OxiVerif Require Import DD.Table DD.TableExtra DD.TableProofs.

(* the checker decides: every stored node's count = handles + extra owners + parent edges *)
Theorem C05_rc_exact_b_spec : forall s extra,
  rc_exact_b s extra = true <->
  forall id nd, find_node s id = Some nd ->
    nrc nd = N.of_nat (refs_to id (handle_refs s) + refs_to id (map eref extra)
                       + refs_to id (child_refs s)).
Proof. exact rc_exact_b_spec. Qed.
Print Assumptions C05_rc_exact_b_spec.

(* what child_refs lists: exactly the child edges of stored nodes *)
Theorem C05_child_refs_In : forall s r,
  In r (child_refs s) <->
  exists id nd e, find_node s id = Some nd /\ In e (nchildren nd) /\ eref e = r.
Proof. exact child_refs_In. Qed.
Print Assumptions C05_child_refs_In.

Theorem C05_no_dead_b_spec : forall s,
  no_dead_b s = true <-> forall id nd, find_node s id = Some nd -> nrc nd <> 0%N.
Proof. exact no_dead_b_spec. Qed.
Print Assumptions C05_no_dead_b_spec.

(* exact counts + no zero count => nothing unreachable is stored *)
Theorem C05_no_dead_reachable : forall s extra, WF s ->
  rc_exact_b s extra = true -> no_dead_b s = true ->
  forall id nd, find_node s id = Some nd ->
    reachable s (handle_refs s ++ map eref extra) (RN id).
Proof. exact no_dead_reachable. Qed.
Print Assumptions C05_no_dead_reachable.

(* the hypotheses are satisfiable *)
Theorem C05_example : WF ex_snap /\ rc_exact_b ex_snap nil = true /\ no_dead_b ex_snap = true.
Proof. exact (conj ex_snap_WF (conj ex_snap_rc_exact_b ex_snap_no_dead_b)). Qed.
Print Assumptions C05_example.

(** ** state-machine theorems (interleaving model Mgr/Conc.v, whole collection Mgr/ConcGc.v;
       proved in Mgr/ConcProofs.v, ConcSem.v, ConcGcProofs.v).  [CInv] is spelled out by
       C07_inv_def in Props/C07.v: keys distinct, every stored node passes node_pre_b,
       per-level uniqueness, owned edges valid, crc = owners + parents.  For ZBDDs the
       manager's tautology chain is an owner like any other: its edges are tokens of a
       pseudo-thread in [cown]. *)
From Coq Require Import PArith Bool Arith.
From OxiVerif Require Import Mgr.Conc Mgr.ConcBase Mgr.ConcProofs Mgr.ConcSnap Mgr.ConcSem
  Mgr.ConcExamples Mgr.ConcGc Mgr.ConcGcProofs Mgr.ConcGcExamples.
Import ListNotations.

(* counts are exact (and the table well-formed) after ANY schedule of any threads *)
Theorem C05_sm_counts_exact_any_history : forall k terms nl sched s,
  terms_unique_b terms = true -> run k terms nl cempty sched = Some s ->
  WF (to_snap k terms nl s) /\ rc_exact_b (to_snap k terms nl s) [] = true.
Proof. exact run_counts_exact. Qed.
Print Assumptions C05_sm_counts_exact_any_history.

(* a stored node disappears only when neither a handle nor another stored node refers to it *)
Theorem C05_sm_gc_only_unreferenced : forall k terms nl s id s' r, CInv k terms nl s ->
  step k terms nl s (AGcNode id) = Some (s', r) ->
  owners (cown s) id = 0 /\ parents (cn s) id = 0 /\
  (forall o, In o (cown s) -> eref (snd o) <> RN id) /\
  (forall j nd e, cfind (cn s) j = Some nd -> In e (cch nd) -> eref e <> RN id) /\
  cfind (cn s') id = None.
Proof. exact gc_safe. Qed.
Print Assumptions C05_sm_gc_only_unreferenced.

(* no other action removes or alters a node that is in use *)
Theorem C05_sm_in_use_kept : forall k terms nl s a s' r id nd, CInv k terms nl s ->
  step k terms nl s a = Some (s', r) ->
  cfind (cn s) id = Some nd -> crc nd <> 0%N ->
  exists nd', cfind (cn s') id = Some nd' /\ cl nd' = cl nd /\ cch nd' = cch nd.
Proof. exact step_frame. Qed.
Print Assumptions C05_sm_in_use_kept.

Theorem C05_sm_release_never_underflows : forall k terms nl s tid e id, CInv k terms nl s ->
  In (tid, e) (cown s) -> eref e = RN id ->
  exists nd s', cfind (cn s) id = Some nd /\ crc nd <> 0%N /\
                step k terms nl s (ARelease tid e) = Some (s', None) /\
                exists nd', cfind (cn s') id = Some nd' /\ crc nd' = N.pred (crc nd).
Proof. exact release_safe. Qed.
Print Assumptions C05_sm_release_never_underflows.

(* every edge in use denotes the same function before and after any single action *)
Theorem C05_sm_handles_keep_function : forall k terms nl s a s' r e c, CInv k terms nl s ->
  step k terms nl s a = Some (s', r) ->
  (forall id, eref e = RN id -> exists nd, cfind (cn s) id = Some nd /\ crc nd <> 0%N) ->
  sem_edge (to_snap k terms nl s') e c = sem_edge (to_snap k terms nl s) e c.
Proof. exact step_sem_preserved. Qed.
Print Assumptions C05_sm_handles_keep_function.

(* (a) a whole collection (Manager::gc: levels top-down, per level every entry whose count
   is 0 when visited) is a schedule of collector actions of the model *)
Theorem C05_sm_collect_is_schedule : forall k terms nl s,
  run k terms nl s (collect_sched k terms nl s) = Some (collect k terms nl s) /\
  forall a, In a (collect_sched k terms nl s) -> exists id, a = AGcNode id.
Proof. exact collect_is_run. Qed.
Print Assumptions C05_sm_collect_is_schedule.

Theorem C05_sm_collect_wf : forall k terms nl s, CInv k terms nl s -> terms_unique_b terms = true ->
  CInv k terms nl (collect k terms nl s) /\ WF (to_snap k terms nl (collect k terms nl s)) /\
  rc_exact_b (to_snap k terms nl (collect k terms nl s)) [] = true.
Proof. exact collect_wf. Qed.
Print Assumptions C05_sm_collect_wf.

(* (b) the collection frees EXACTLY the unreferenced nodes: a node is stored afterwards iff
   it was stored before and is reachable from an owned edge; survivors keep level and children *)
Theorem C05_sm_collect_exact : forall k terms nl s id, CInv k terms nl s ->
  ((exists nd', cfind (cn (collect k terms nl s)) id = Some nd') <->
   (exists nd, cfind (cn s) id = Some nd) /\
   (exists o, In o (cown s) /\ creach (cn s) (eref (snd o)) (RN id))) /\
  (forall nd', cfind (cn (collect k terms nl s)) id = Some nd' ->
     exists nd, cfind (cn s) id = Some nd /\ cl nd' = cl nd /\ cch nd' = cch nd).
Proof. exact collect_exact. Qed.
Print Assumptions C05_sm_collect_exact.

(* the executable reachability test decides "reachable from an owned edge" *)
Theorem C05_sm_reach_checker : forall k terms nl s id, CInv k terms nl s ->
  (reach_own_b nl s id = true <->
   exists o, In o (cown s) /\ creach (cn s) (eref (snd o)) (RN id)).
Proof. exact reach_own_b_spec. Qed.
Print Assumptions C05_sm_reach_checker.

(* (c) all owner tokens are unchanged and every owned edge denotes the same function *)
Theorem C05_sm_collect_keeps : forall k terms nl s, CInv k terms nl s ->
  cown (collect k terms nl s) = cown s /\
  forall tid e c, In (tid, e) (cown s) ->
    sem_edge (to_snap k terms nl (collect k terms nl s)) e c = sem_edge (to_snap k terms nl s) e c.
Proof. exact collect_keeps. Qed.
Print Assumptions C05_sm_collect_keeps.

(* (d) no node with count 0 is left *)
Theorem C05_sm_collect_no_dead : forall k terms nl s, CInv k terms nl s ->
  forall j nd, cfind (cn (collect k terms nl s)) j = Some nd -> crc nd <> 0%N.
Proof. exact collect_no_dead. Qed.
Print Assumptions C05_sm_collect_no_dead.

Theorem C05_sm_collect_no_dead_b : forall k terms nl s, CInv k terms nl s ->
  no_dead_b (to_snap k terms nl (collect k terms nl s)) = true.
Proof. exact collect_no_dead_b. Qed.
Print Assumptions C05_sm_collect_no_dead_b.

(* (e) all handles dropped: the collection returns the manager to its initial, empty state *)
Theorem C05_sm_collect_all_dropped : forall k terms nl s, CInv k terms nl s -> cown s = [] ->
  collect k terms nl s = cempty.
Proof. exact collect_all_dropped. Qed.
Print Assumptions C05_sm_collect_all_dropped.

(* (f) idempotence; a collection is a no-op iff there is nothing to free *)
Theorem C05_sm_collect_idem : forall k terms nl s, CInv k terms nl s ->
  collect k terms nl (collect k terms nl s) = collect k terms nl s.
Proof. exact collect_idem. Qed.
Print Assumptions C05_sm_collect_idem.

Theorem C05_sm_collect_noop_iff : forall k terms nl s, CInv k terms nl s ->
  (collect k terms nl s = s <-> forall j nd, cfind (cn s) j = Some nd -> crc nd <> 0%N).
Proof. exact collect_noop_iff. Qed.
Print Assumptions C05_sm_collect_noop_iff.

(* histories: actions of any threads interleaved with whole collections at arbitrary points *)
Theorem C05_sm_history_counts_exact : forall k terms nl hist s, terms_unique_b terms = true ->
  hrun k terms nl cempty hist = Some s ->
  CInv k terms nl s /\ WF (to_snap k terms nl s) /\ rc_exact_b (to_snap k terms nl s) [] = true.
Proof. exact history_counts_exact. Qed.
Print Assumptions C05_sm_history_counts_exact.

(* a handle that is held (by some thread, in every state of the history) denotes at the end
   what it denoted when it was obtained *)
Theorem C05_sm_history_sem : forall k terms nl hist s s' e c, CInv k terms nl s ->
  hrun k terms nl s hist = Some s' -> held_through k terms nl s hist e ->
  sem_edge (to_snap k terms nl s') e c = sem_edge (to_snap k terms nl s) e c.
Proof. exact history_sem. Qed.
Print Assumptions C05_sm_history_sem.

(* non-vacuity: a reachable state with a dead chain of two nodes on different levels (node 3
   on level 0 unreferenced, node 1 on level 1 referenced only by node 3) and one live node;
   the collection removes exactly the chain; sweeping bottom-up would not *)
Theorem C05_sm_example :
  CInv KBdd ex_terms 2 gc_ex /\
  collect KBdd ex_terms 2 gc_ex = gc_ex_after /\
  collect_sched KBdd ex_terms 2 gc_ex = [AGcNode 3; AGcNode 1] /\
  (reach_own_b 2 gc_ex 2 = true /\ reach_own_b 2 gc_ex 1 = false /\ reach_own_b 2 gc_ex 3 = false) /\
  hrun KBdd ex_terms 2 gc_ex [HCollect; HAct (ARelease 1 (E 2)); HCollect] = Some cempty /\
  held_through KBdd ex_terms 2 gc_ex gc_hist (E 2).
Proof.
  exact (conj gc_ex_inv (conj gc_ex_collect (conj gc_ex_sched (conj gc_ex_reach
          (conj gc_ex_all_dropped gc_hist_held))))).
Qed.
Print Assumptions C05_sm_example.

(** ** the reference-counted terminals of MTBDDs: the dynamic terminal manager
       (model Mgr/Terminals.v mirroring crates/oxidd-manager-index/src/terminal_manager/dynamic.rs
       and its callers in manager.rs; proved in Mgr/TerminalsProofs.v, TerminalsThms.v,
       TerminalsGc.v).  State [tst] = inner nodes and owned inner edges of Mgr/Conc.v
       ([ts_c]) + the terminal table id |-> (value, count) ([ts_tt]) + the free chain of the
       [cap] slots ([ts_free]) + the multiset of owned terminal edges (thread, id) ([ts_own]).
       [trc] excludes the unique table's own reference (stored value - 1). *)
From OxiVerif Require Import Mgr.Terminals Mgr.TerminalsBase Mgr.TerminalsProofs Mgr.TerminalsThms
  Mgr.TerminalsGc Mgr.TerminalsExamples.
From Coq Require Import Permutation.

(* the invariant spelled out: ids distinct, values distinct (hash consing), ids and free chain
   partition the slots, owned edges valid, count = owner tokens + parent edges of stored nodes *)
Theorem C05_term_inv_def : forall k nl cap s, MInv k nl cap s <->
  (CInv k (tterms (ts_tt s)) nl (ts_c s) /\
   (forall o, In o (cown (ts_c s)) -> exists id, eref (snd o) = RN id) /\
   NoDup (map (fun p => tval (snd p)) (ts_tt s)) /\
   NoDup (map fst (ts_tt s) ++ ts_free s) /\
   (forall x, In x (map fst (ts_tt s) ++ ts_free s) -> (x < N.of_nat cap)%N) /\
   length (ts_tt s) + length (ts_free s) = cap /\
   (forall o, In o (ts_own s) -> exists nd, tfind (ts_tt s) (snd o) = Some nd) /\
   (forall x nd, tfind (ts_tt s) x = Some nd ->
      trc nd = N.of_nat (towners (ts_own s) x + tparents (cn (ts_c s)) x))).
Proof.
  intros k nl cap s. split.
  - intros [H1 H2 H3 H4 H5 H6 H7 H8]. auto 10.
  - intros [H1 [H2 [H3 [H4 [H5 [H6 [H7 H8]]]]]]]. constructor; assumption.
Qed.
Print Assumptions C05_term_inv_def.

(* what is counted: the child edges of stored inner nodes / the owned edges that point to x *)
Theorem C05_term_counting : forall t own x,
  (0 < tparents t x <-> exists j nd e, In (j, nd) t /\ In e (cch nd) /\ eref e = RT x) /\
  (0 < towners own x <-> exists o, In o own /\ snd o = x).
Proof.
  intros t own x. split; split.
  - apply tparents_pos_In.
  - intros [j [nd [e [H1 [H2 H3]]]]]. eapply In_tparents_pos; eauto.
  - apply towners_pos_In.
  - intros [o [H1 H2]]. eapply In_towners_pos; eauto.
Qed.
Print Assumptions C05_term_counting.

(* the executable checker is sound *)
Theorem C05_term_inv_checker : forall k nl cap s, minv_b k nl cap s = true -> MInv k nl cap s.
Proof. exact minv_b_sound. Qed.
Print Assumptions C05_term_inv_checker.

(* preserved by every enabled action of every thread and of the collector, hence by every
   interleaving, from the fresh manager of any capacity *)
Theorem C05_term_step_inv : forall k nl cap s a s' r, MInv k nl cap s ->
  tstep k nl s a = Some (s', r) -> MInv k nl cap s'.
Proof. exact tstep_inv. Qed.
Print Assumptions C05_term_step_inv.

Theorem C05_term_run_inv : forall k nl cap sched s s', MInv k nl cap s ->
  trun k nl s sched = Some s' -> MInv k nl cap s'.
Proof. exact trun_inv. Qed.
Print Assumptions C05_term_run_inv.

Theorem C05_term_reachable_inv : forall k nl cap sched s,
  trun k nl (tinit cap) sched = Some s -> MInv k nl cap s.
Proof. exact treachable_inv. Qed.
Print Assumptions C05_term_reachable_inv.

(* ... also when whole collections (Manager::gc) are interleaved at arbitrary points *)
Theorem C05_term_history_inv : forall k nl cap hist s,
  thrun k nl (tinit cap) hist = Some s -> MInv k nl cap s.
Proof. exact thistory_inv. Qed.
Print Assumptions C05_term_history_inv.

(* hash consing *)
Theorem C05_term_canonical : forall k nl cap s x y nx ny, MInv k nl cap s ->
  tfind (ts_tt s) x = Some nx -> tfind (ts_tt s) y = Some ny -> tval nx = tval ny -> x = y.
Proof. exact terminals_canonical. Qed.
Print Assumptions C05_term_canonical.

(* a terminal disappears only when neither an owned edge nor a stored node refers to it *)
Theorem C05_term_gc_only_unreferenced : forall k nl cap s x s' r, MInv k nl cap s ->
  tstep k nl s (TGcTerm x) = Some (s', r) ->
  towners (ts_own s) x = 0 /\ tparents (cn (ts_c s)) x = 0 /\
  (forall o, In o (ts_own s) -> snd o <> x) /\
  (forall j nd e, cfind (cn (ts_c s)) j = Some nd -> In e (cch nd) -> eref e <> RT x) /\
  tfind (ts_tt s') x = None /\ In x (ts_free s') /\
  ts_c s' = ts_c s /\ ts_own s' = ts_own s.
Proof. exact tgc_term_safe. Qed.
Print Assumptions C05_term_gc_only_unreferenced.

Theorem C05_term_gc_enabled : forall k nl cap s x nd, MInv k nl cap s -> tfind (ts_tt s) x = Some nd ->
  (trc nd = 0%N <-> towners (ts_own s) x = 0 /\ tparents (cn (ts_c s)) x = 0) /\
  (trc nd = 0%N -> exists s', tstep k nl s (TGcTerm x) = Some (s', TRnone)).
Proof. exact tgc_term_enabled. Qed.
Print Assumptions C05_term_gc_enabled.

(* no action removes or changes the value of a terminal that is in use; only the collector's
   action on x itself removes x *)
Theorem C05_term_in_use_kept : forall k nl cap s a s' r x nd, MInv k nl cap s ->
  tstep k nl s a = Some (s', r) -> tfind (ts_tt s) x = Some nd -> trc nd <> 0%N ->
  exists nd', tfind (ts_tt s') x = Some nd' /\ tval nd' = tval nd.
Proof. exact tstep_frame. Qed.
Print Assumptions C05_term_in_use_kept.

Theorem C05_term_only_gc_removes : forall k nl cap s a s' r x nd, MInv k nl cap s ->
  tstep k nl s a = Some (s', r) -> a <> TGcTerm x -> tfind (ts_tt s) x = Some nd ->
  exists nd', tfind (ts_tt s') x = Some nd' /\ tval nd' = tval nd.
Proof. exact tstep_keeps. Qed.
Print Assumptions C05_term_only_gc_removes.

(* an owner's release finds a positive count; a borrowable terminal edge has a positive count *)
Theorem C05_term_release_never_underflows : forall k nl cap s tid x b, MInv k nl cap s ->
  In (tid, x) (ts_own s) ->
  exists nd s', tfind (ts_tt s) x = Some nd /\ trc nd <> 0%N /\
    tstep k nl s (TIn (ARelease tid (mkEdge (RT x) b))) = Some (s', TRnone) /\
    tfind (ts_tt s') x = Some (mkT (tval nd) (N.pred (trc nd))).
Proof. exact t_release_safe. Qed.
Print Assumptions C05_term_release_never_underflows.

Theorem C05_term_borrow_live : forall k nl cap s e x, MInv k nl cap s -> eref e = RT x ->
  t_can_borrow_b nl s e x = true -> exists nd, tfind (ts_tt s) x = Some nd /\ trc nd <> 0%N.
Proof. exact t_borrow_live. Qed.
Print Assumptions C05_term_borrow_live.

(* get_edge: out of memory (state unchanged) iff the value is absent and all cap slots are in
   use; otherwise the caller owns an edge to THE terminal with the value: the stored one
   (count + 1) or, only if there is none, a newly written entry with count 1 in the slot at
   the head of the free chain *)
Theorem C05_term_get_result : forall k nl cap s tid v s' r, MInv k nl cap s ->
  tstep k nl s (TGet tid v) = Some (s', r) ->
  (r = TRoom /\ s' = s /\ tfind_val (ts_tt s) v = None /\ length (ts_tt s) = cap) \/
  (exists x, r = TRterm x /\ In (tid, x) (ts_own s') /\ ts_c s' = ts_c s /\
     ((exists nd, tfind (ts_tt s) x = Some nd /\ tval nd = v /\
                  tfind (ts_tt s') x = Some (mkT v (N.succ (trc nd))) /\ ts_free s' = ts_free s) \/
      (tfind_val (ts_tt s) v = None /\ tfind (ts_tt s) x = None /\
       ts_free s = x :: ts_free s' /\ ts_tt s' = (x, mkT v 1%N) :: ts_tt s))).
Proof. exact tget_result. Qed.
Print Assumptions C05_term_get_result.

Theorem C05_term_get_oom_iff : forall k nl cap s tid v, MInv k nl cap s ->
  (tstep k nl s (TGet tid v) = Some (s, TRoom) <->
   tfind_val (ts_tt s) v = None /\ length (ts_tt s) = cap).
Proof. exact tget_oom_iff. Qed.
Print Assumptions C05_term_get_oom_iff.

Theorem C05_term_get_agree : forall k nl cap s x nd tid, MInv k nl cap s ->
  tfind (ts_tt s) x = Some nd -> exists s', tstep k nl s (TGet tid (tval nd)) = Some (s', TRterm x).
Proof. exact tget_agree. Qed.
Print Assumptions C05_term_get_agree.

Theorem C05_term_get_twice : forall k nl cap s t1 t2 v1 v2 s1 s2 x1 x2, MInv k nl cap s ->
  tstep k nl s (TGet t1 v1) = Some (s1, TRterm x1) -> tstep k nl s1 (TGet t2 v2) = Some (s2, TRterm x2) ->
  (x1 = x2 <-> v1 = v2).
Proof. exact tget_twice. Qed.
Print Assumptions C05_term_get_twice.

(* the same value yields the same id until that terminal is collected, whatever all threads
   do in between; in particular while some thread sits on an edge to it *)
Theorem C05_term_get_stable : forall k nl cap sched s s' v x, MInv k nl cap s ->
  tfind_val (ts_tt s) v = Some x -> trun k nl s sched = Some s' -> ~ In (TGcTerm x) sched ->
  tfind_val (ts_tt s') v = Some x /\
  forall tid, exists s'', tstep k nl s' (TGet tid v) = Some (s'', TRterm x).
Proof. exact trun_get_stable. Qed.
Print Assumptions C05_term_get_stable.

Theorem C05_term_get_idle : forall k nl cap sched s s' tid x nd, MInv k nl cap s ->
  trun k nl s sched = Some s' -> (forall a, In a sched -> tact_tid a <> Some tid) ->
  In (tid, x) (ts_own s) -> tfind (ts_tt s) x = Some nd ->
  In (tid, x) (ts_own s') /\
  (exists nd', tfind (ts_tt s') x = Some nd' /\ tval nd' = tval nd /\ trc nd' <> 0%N) /\
  forall t, exists s'', tstep k nl s' (TGet t (tval nd)) = Some (s'', TRterm x).
Proof. exact trun_get_idle. Qed.
Print Assumptions C05_term_get_idle.

(* re-creation of a collected value: a newly written entry with count 1 *)
Theorem C05_term_get_after_gc_fresh : forall k nl cap s x nd s1 r1 tid, MInv k nl cap s ->
  tfind (ts_tt s) x = Some nd -> tstep k nl s (TGcTerm x) = Some (s1, r1) ->
  tfind_val (ts_tt s1) (tval nd) = None /\
  exists s2, tstep k nl s1 (TGet tid (tval nd)) = Some (s2, TRterm x) /\
             ts_tt s2 = (x, mkT (tval nd) 1%N) :: ts_tt s1 /\ ts_free s2 = ts_free s.
Proof. exact tget_after_gc_fresh. Qed.
Print Assumptions C05_term_get_after_gc_fresh.

(* DynamicTerminalManager::gc, entries visited in any order covering the table: removes
   exactly the terminals without owner and parent, everything else is unchanged *)
Theorem C05_term_gc_exact : forall k nl cap ord s, MInv k nl cap s ->
  (forall x, In x (map fst (ts_tt s)) -> In x ord) ->
  MInv k nl cap (tgc_in k nl s ord) /\ ts_c (tgc_in k nl s ord) = ts_c s /\
  ts_own (tgc_in k nl s ord) = ts_own s /\
  (forall x nd, tfind (ts_tt (tgc_in k nl s ord)) x = Some nd <->
                tfind (ts_tt s) x = Some nd /\ trc nd <> 0%N) /\
  (forall x, (exists nd, tfind (ts_tt (tgc_in k nl s ord)) x = Some nd) <->
             (exists nd, tfind (ts_tt s) x = Some nd) /\
             (0 < towners (ts_own s) x \/ 0 < tparents (cn (ts_c s)) x)).
Proof. exact tgc_in_spec. Qed.
Print Assumptions C05_term_gc_exact.

Theorem C05_term_gc_idem : forall k nl cap s, MInv k nl cap s -> tgc k nl (tgc k nl s) = tgc k nl s.
Proof. exact tgc_idem. Qed.
Print Assumptions C05_term_gc_idem.

(* its return value = number of removed entries = number of slots given back *)
Theorem C05_term_gc_count : forall k nl cap s, MInv k nl cap s ->
  length (ts_tt s) = length (ts_tt (tgc k nl s)) + tgc_count k nl s /\
  length (ts_free (tgc k nl s)) = length (ts_free s) + tgc_count k nl s.
Proof. exact tgc_count_free. Qed.
Print Assumptions C05_term_gc_count.

(* Manager::gc = sweep of the inner levels (exactly `collect` of Mgr/ConcGc.v on the inner
   nodes; terminal ids, values, free chain and tokens untouched) followed by the terminal
   manager's gc; it is a schedule of collector actions of the model *)
Theorem C05_term_collect_inner : forall k nl s,
  ts_c (tcollect_inner k nl s) = collect k (tterms (ts_tt s)) nl (ts_c s) /\
  tterms (ts_tt (tcollect_inner k nl s)) = tterms (ts_tt s) /\
  map fst (ts_tt (tcollect_inner k nl s)) = map fst (ts_tt s) /\
  ts_own (tcollect_inner k nl s) = ts_own s /\ ts_free (tcollect_inner k nl s) = ts_free s /\
  (forall x, option_map tval (tfind (ts_tt (tcollect_inner k nl s)) x) = option_map tval (tfind (ts_tt s) x)).
Proof. exact tcollect_inner_c. Qed.
Print Assumptions C05_term_collect_inner.

Theorem C05_term_collect_is_schedule : forall k nl s,
  exists sched, trun k nl s sched = Some (tcollect k nl s) /\
    forall a, In a sched -> (exists id, a = TIn (AGcNode id)) \/ (exists x, a = TGcTerm x).
Proof. exact tcollect_is_run. Qed.
Print Assumptions C05_term_collect_is_schedule.

(* a terminal survives Manager::gc iff an owned terminal edge points to it or it is a child
   of an inner node reachable from an owned edge; survivors keep id and value *)
Theorem C05_term_collect_exact : forall k nl cap s x, MInv k nl cap s ->
  ((exists nd', tfind (ts_tt (tcollect k nl s)) x = Some nd') <->
   (exists nd, tfind (ts_tt s) x = Some nd) /\
   (0 < towners (ts_own s) x \/
    exists j nd e, cfind (cn (ts_c s)) j = Some nd /\
                   (exists o, In o (cown (ts_c s)) /\ creach (cn (ts_c s)) (eref (snd o)) (RN j)) /\
                   In e (cch nd) /\ eref e = RT x)) /\
  (forall nd', tfind (ts_tt (tcollect k nl s)) x = Some nd' ->
     exists nd, tfind (ts_tt s) x = Some nd /\ tval nd' = tval nd).
Proof. exact tcollect_exact. Qed.
Print Assumptions C05_term_collect_exact.

Theorem C05_term_collect_keeps : forall k nl cap s, MInv k nl cap s ->
  ts_own (tcollect k nl s) = ts_own s /\ cown (ts_c (tcollect k nl s)) = cown (ts_c s) /\
  ts_c (tcollect k nl s) = collect k (tterms (ts_tt s)) nl (ts_c s) /\
  forall tid x nd, In (tid, x) (ts_own s) -> tfind (ts_tt s) x = Some nd ->
    exists nd', tfind (ts_tt (tcollect k nl s)) x = Some nd' /\ tval nd' = tval nd.
Proof. exact tcollect_keeps. Qed.
Print Assumptions C05_term_collect_keeps.

Theorem C05_term_collect_inv : forall k nl cap s, MInv k nl cap s -> MInv k nl cap (tcollect k nl s).
Proof. exact tcollect_inv. Qed.
Print Assumptions C05_term_collect_inv.

(* the return value of Manager::gc = number of removed inner nodes + number of removed terminals *)
Theorem C05_term_collect_count : forall k nl s,
  tcollect_count k nl s =
  (length (cn (ts_c s)) - length (cn (ts_c (tcollect k nl s)))) +
  (length (ts_tt s) - length (ts_tt (tcollect k nl s))).
Proof. exact tcollect_count_spec. Qed.
Print Assumptions C05_term_collect_count.

(* all handles dropped: no inner node, no terminal, all cap slots free again *)
Theorem C05_term_collect_all_dropped : forall k nl cap s, MInv k nl cap s ->
  cown (ts_c s) = [] -> ts_own s = [] ->
  ts_c (tcollect k nl s) = cempty /\ ts_tt (tcollect k nl s) = [] /\ ts_own (tcollect k nl s) = [] /\
  length (ts_free (tcollect k nl s)) = cap /\
  Permutation (ts_free (tcollect k nl s)) (ts_free (tinit cap)).
Proof. exact tcollect_all_dropped. Qed.
Print Assumptions C05_term_collect_all_dropped.

(* the iterator yields every stored terminal once (len() many); its retain and the
   consumer's drop_edge cancel exactly -- per item, for a complete iteration, and in the
   interleaved pattern `for t in m.terminals() { ..; m.drop_edge(t) }` *)
Theorem C05_term_iter_ids : forall k nl cap s, MInv k nl cap s ->
  NoDup (titer_ids s) /\ length (titer_ids s) = tlen s /\
  forall x, In x (titer_ids s) <-> exists nd, tfind (ts_tt s) x = Some nd.
Proof. exact titer_ids_spec. Qed.
Print Assumptions C05_term_iter_ids.

Theorem C05_term_iter_item_release : forall k nl s tid x s1 r b,
  tstep k nl s (TIterItem tid x) = Some (s1, r) ->
  r = TRterm x /\ tstep k nl s1 (TIn (ARelease tid (mkEdge (RT x) b))) = Some (s, TRnone).
Proof. exact titer_item_release. Qed.
Print Assumptions C05_term_iter_item_release.

Theorem C05_term_iter_all_release : forall k nl xs s tid,
  (forall x, In x xs -> exists nd, tfind (ts_tt s) x = Some nd) ->
  trun k nl s (iter_acts tid xs ++ drop_acts tid (rev xs)) = Some s.
Proof. exact titer_all_release. Qed.
Print Assumptions C05_term_iter_all_release.

Theorem C05_term_iter_interleaved_release : forall k nl xs s tid,
  (forall x, In x xs -> exists nd, tfind (ts_tt s) x = Some nd) ->
  trun k nl s (flat_map (fun x => [TIterItem tid x; TIn (ARelease tid (mkEdge (RT x) false))]) xs) = Some s.
Proof. exact titer_interleaved_release. Qed.
Print Assumptions C05_term_iter_interleaved_release.

(* non-vacuity: a reachable MTBDD state (3 slots, all in use: values 5, 7 held by a handle and
   an inner node, value 9 unreferenced): get of a new value fails, get of a stored one finds
   it, the collector may free only the unreferenced terminal, Manager::gc frees exactly it,
   the value is re-created in the freed slot, and after dropping everything the manager is
   empty with all slots free *)
Theorem C05_term_example :
  trun KMtbdd 1 (tinit 3) tex_sched = Some tex /\ MInv KMtbdd 1 3 tex /\ minv_b KMtbdd 1 3 tex = true /\
  tstep KMtbdd 1 tex (TGet 3 11) = Some (tex, TRoom) /\
  (exists s', tstep KMtbdd 1 tex (TGet 3 7) = Some (s', TRterm 1)) /\
  (tstep KMtbdd 1 tex (TGcTerm 0) = None /\ tstep KMtbdd 1 tex (TGcTerm 1) = None /\
   exists s', tstep KMtbdd 1 tex (TGcTerm 2) = Some (s', TRnone)) /\
  (tcollect KMtbdd 1 tex = tex_after /\ tgc_count KMtbdd 1 tex = 1) /\
  (exists s', tstep KMtbdd 1 tex_after (TGet 2 9) = Some (s', TRterm 2) /\
              tfind (ts_tt s') 2 = Some (mkT 9 1)) /\
  thrun KMtbdd 1 (tinit 3) tex_hist = Some (mkTst cempty [] [0%N; 1%N; 2%N] []).
Proof.
  exact (conj tex_run (conj tex_inv (conj tex_inv_b (conj tex_oom (conj tex_found
          (conj tex_gc_enabled (conj tex_collect (conj tex_recreate tex_all_dropped)))))))).
Qed.
Print Assumptions C05_term_example.

(* ---- package C02s / gap B: the return value of a collection; the collection of a LIFTED SNAPSHOT
        (proved in Mgr/ConcGcCount.v).  The driver ocaml/c05s_main.ml lifts the snapshot taken
        before every explicit gc() with the extracted [of_snap] (handles = tokens of thread 0,
        the ZBDD manager's chain edges = [extra] = tokens of thread 1), evaluates [cinv_b] on it,
        runs the extracted [collect] and compares ids, counts and gc()'s return value with the
        snapshot taken afterwards. *)
From OxiVerif Require Import Mgr.ConcGcCount.

(* the ids stored after a collection = the stored ids the reachability test accepts *)
Theorem C05_sm_collect_keys : forall k terms nl s, CInv k terms nl s ->
  NoDup (map fst (cn (collect k terms nl s))) /\
  forall id, In id (map fst (cn (collect k terms nl s))) <-> In id (survivors nl s).
Proof. exact collect_keys. Qed.
Print Assumptions C05_sm_collect_keys.

(* the number of freed nodes (the return value of Manager::gc for static terminals) = the
   number of stored nodes that no owned edge reaches *)
Theorem C05_sm_collect_count : forall k terms nl s, CInv k terms nl s ->
  length (cn s) = length (cn (collect k terms nl s)) + length (garbage nl s) /\
  collected k terms nl s = length (garbage nl s).
Proof. exact collect_count. Qed.
Print Assumptions C05_sm_collect_count.

(* the lifted table is the snapshot's node map; reachability from an owned edge of the lifted
   state is [reachable] (the relation of C05_no_dead_reachable) from handles + extra owners *)
Theorem C05_gc_snap_lift : forall s extra id,
  cfind (cn (of_snap s extra)) id = option_map to_c (find_node s id) /\
  (reach_own (of_snap s extra) id <-> reachable s (handle_refs s ++ map eref extra) (RN id)).
Proof. intros s extra id. exact (conj (cfind_of_snap s extra id) (reach_own_of_snap s extra id)). Qed.
Print Assumptions C05_gc_snap_lift.

(* on a snapshot that passes the executable hypothesis: a node is stored after the collection iff
   it was stored and is reachable from a handle or an extra owner; survivors keep level and
   children; the owners are untouched *)
Theorem C05_gc_snap_exact : forall s extra id,
  cinv_b (s_kind s) (s_terms s) (nlevels s) (of_snap s extra) = true ->
  let s' := collect (s_kind s) (s_terms s) (nlevels s) (of_snap s extra) in
  ((exists nd', cfind (cn s') id = Some nd') <->
   (exists nd, find_node s id = Some nd) /\ reachable s (handle_refs s ++ map eref extra) (RN id)) /\
  (forall nd', cfind (cn s') id = Some nd' ->
     exists nd, find_node s id = Some nd /\ cl nd' = nlevel nd /\ cch nd' = nchildren nd) /\
  cown s' = cown (of_snap s extra).
Proof. exact gc_snap_exact. Qed.
Print Assumptions C05_gc_snap_exact.

(* gc()'s return value on such a snapshot = the number of stored, unreachable nodes *)
Theorem C05_gc_snap_count : forall s extra,
  cinv_b (s_kind s) (s_terms s) (nlevels s) (of_snap s extra) = true ->
  collected (s_kind s) (s_terms s) (nlevels s) (of_snap s extra) =
  length (garbage (nlevels s) (of_snap s extra)) /\
  forall id, In id (garbage (nlevels s) (of_snap s extra)) <->
    (exists nd, find_node s id = Some nd) /\ ~ reachable s (handle_refs s ++ map eref extra) (RN id).
Proof. exact gc_snap_count. Qed.
Print Assumptions C05_gc_snap_count.

(* non-vacuity: a snapshot with a dead chain of two nodes and one handle *)
Theorem C05_gc_snap_example :
  cinv_b KBdd (s_terms gc_snap_ex) (nlevels gc_snap_ex) (of_snap gc_snap_ex []) = true /\
  collected KBdd (s_terms gc_snap_ex) (nlevels gc_snap_ex) (of_snap gc_snap_ex []) = 2 /\
  garbage (nlevels gc_snap_ex) (of_snap gc_snap_ex []) = [1%positive; 3%positive] /\
  cn (collect KBdd (s_terms gc_snap_ex) (nlevels gc_snap_ex) (of_snap gc_snap_ex [])) =
    [(2%positive, mkC 1 [mkEdge (RT 0%N) false; mkEdge (RT 1%N) false] 1%N)].
Proof. exact gc_snap_example. Qed.
Print Assumptions C05_gc_snap_example.

(** ** TDD (package TDDx): the reference-count audit for ternary nodes.  [td_rc_b] (DD/TddAudit.v) decides
    "count reported by InnerNode::ref_count = handles holding the node + (true, unknown, false) child slots of
    stored nodes pointing to it"; on a TdOK table it is the generic audit [rc_exact_b s []]; with no zero count
    (the state right after a collection) every stored node is reachable from a handle, and with no handle
    nothing is stored.  Collections of the TDD manager state machine Mgr/TddHist.v. *)
From Coq Require Import List NArith PArith Bool Arith FMapPositive.
From OxiVerif Require Import DD.Table DD.TableExtra DD.TableProofs DD.Build DD.BuildProofs DD.Apply DD.ApplyProofs DD.ConfigApply
  DD.Tdd DD.ApplyTdd DD.ApplyTddBase DD.ApplyTddProofs DD.ApplyTddTop DD.TddAudit DD.TddAuditProofs
  Mgr.History Mgr.OomGc Mgr.TddHist Mgr.TddHistProofs Mgr.TddHistSim Mgr.TddHistExamples.
Import ListNotations.

(* the ternary audit decides the counting equation (every snapshot, no hypothesis) *)
Theorem C05_tdd_rc_b_spec : forall s,
  td_rc_b s = true <->
  forall id nd, find_node s id = Some nd ->
    nrc nd = N.of_nat (td_handles_to s id + td_parents_to s id).
Proof. exact td_rc_b_spec. Qed.
Print Assumptions C05_tdd_rc_b_spec.

(* on a TDD table it IS the generic audit (as booleans) *)
Theorem C05_tdd_rc_b_exact : forall s, TdOK s -> td_rc_b s = rc_exact_b s [].
Proof. exact td_rc_b_exact. Qed.
Print Assumptions C05_tdd_rc_b_exact.

(* in terms of owners: handle entries and child edges of stored nodes *)
Theorem C05_tdd_rc_owners : forall s, TdOK s -> td_rc_b s = true ->
  forall id nd, find_node s id = Some nd ->
    nrc nd = N.of_nat (refs_to id (handle_refs s) + refs_to id (child_refs s)).
Proof. exact td_rc_owners. Qed.
Print Assumptions C05_tdd_rc_owners.

(* exact counts + no zero count => nothing unreachable is stored *)
Theorem C05_tdd_no_dead_reachable : forall s, TdOK s -> td_rc_b s = true -> no_dead_b s = true ->
  forall id nd, find_node s id = Some nd -> reachable s (handle_refs s) (RN id).
Proof. exact td_no_dead_reachable. Qed.
Print Assumptions C05_tdd_no_dead_reachable.

(* "drop every handle; gc()": an empty store *)
Theorem C05_tdd_dropall_empty : forall s, TdOK s -> td_rc_b s = true -> no_dead_b s = true ->
  s_handles s = [] -> forall id, find_node s id = None.
Proof. exact td_dropall_empty. Qed.
Print Assumptions C05_tdd_dropall_empty.

Theorem C05_tdd_no_handles_empty_b_spec : forall s,
  td_no_handles_empty_b s = true <-> s_handles s = [] /\ forall id, find_node s id = None.
Proof. exact td_no_handles_empty_b_spec. Qed.
Print Assumptions C05_tdd_no_handles_empty_b_spec.

(* a collection (restriction to what the handles reach) of a TdOK table: TdOK again, a sub-table, every handle
   valid, every surviving reference denotes what it denoted, nothing unreachable is left *)
Theorem C05_tdd_collected_ok : forall s sg, TdOK s -> collected s sg ->
  TdOK sg /\ extends sg s /\
  (forall h, In h (s_handles s) -> ref_ok sg (eref (snd h))) /\
  (forall r phi, ref_ok sg r -> (DenT sg r phi <-> DenT s r phi)) /\
  (forall r av, ref_ok sg r -> tfun_of sg r av = tfun_of s r av) /\
  (forall id nd, find_node sg id = Some nd -> reachable sg (handle_refs sg) (RN id)).
Proof. exact td_collected_ok. Qed.
Print Assumptions C05_tdd_collected_ok.

(* gc() inside any history: the invariant, the same handles, exactly the reachable nodes survive, every slot
   keeps its function *)
Theorem C05_tdd_hist_gc :
  forall (gt : ref -> ref -> bool) (C : Type) (cget : C -> N -> list ref -> option ref)
         (cadd : C -> N -> list ref -> ref -> C) (cempty : C),
  lossy cget cadd -> (forall k a, cget cempty k a = None) ->
  forall st st' : tstate C, TInv C cget st -> tstep gt C cget cadd cempty st TGc = Some st' ->
  TInv C cget st' /\ s_handles (t_s C st') = s_handles (t_s C st) /\
  (forall id nd, find_node (t_s C st') id = Some nd ->
     find_node (t_s C st) id = Some nd /\ reachable (t_s C st') (handle_refs (t_s C st')) (RN id)) /\
  (forall id nd, find_node (t_s C st) id = Some nd -> reachable (t_s C st) (handle_refs (t_s C st)) (RN id) ->
     find_node (t_s C st') id = Some nd) /\
  (forall x r, tslot (t_s C st) x = Some r ->
     ref_ok (t_s C st') r /\ forall av : nat -> tri, tfun_of (t_s C st') r av = tfun_of (t_s C st) r av).
Proof. exact thist_gc. Qed.
Print Assumptions C05_tdd_hist_gc.

Theorem C05_tdd_hist_dropall_gc :
  forall (gt : ref -> ref -> bool) (C : Type) (cget : C -> N -> list ref -> option ref)
         (cadd : C -> N -> list ref -> ref -> C) (cempty : C),
  lossy cget cadd -> (forall k a, cget cempty k a = None) ->
  forall st st' : tstate C, TInv C cget st -> s_handles (t_s C st) = [] ->
  tstep gt C cget cadd cempty st TGc = Some st' -> forall id, find_node (t_s C st') id = None.
Proof. exact thist_dropall_gc. Qed.
Print Assumptions C05_tdd_hist_dropall_gc.

(* non-vacuity: exact counts incl. an unreferenced node; after the collection it is gone, the handles are the
   same; (gc_model does not maintain counters: the audit notices the stale count) *)
Theorem C05_tdd_example :
  (td_audit_b ex_t3 = true /\ td_ok_b ex_t3 = true /\ rc_exact_b ex_t3 [] = true) /\
  no_dead_b ex_t3 = false /\
  (td_wf3_b ex_t3_collected = true /\ td_rc_b ex_t3_collected = false /\ no_dead_b ex_t3_collected = true /\
   find_node ex_t3_collected 3 = None /\ s_handles ex_t3_collected = s_handles ex_t3).
Proof. exact (conj ex_t3_audit (conj ex_t3_dead ex_t3_collected_ok)). Qed.
Print Assumptions C05_tdd_example.

(* ---------------------------------------------------------------------------------------------
   Package ALLOC: the slot allocator of the index-based manager (free lists / allocated / chunks /
   node count), interleaving model coq/Mgr/Alloc.v, for every schedule of any number of threads.
   (Qualified names: the model's identifiers are not imported into this file.) *)
From Coq Require Import ZArith Permutation.
From OxiVerif Require Mgr.Alloc Mgr.AllocProofs Mgr.AllocThms Mgr.AllocExamples.
Import ListNotations.

(* "reachable": the state after ANY list of actions of any threads, from a new manager *)
Theorem C05_alloc_reachable_def : forall c s,
  AllocThms.reachable c s <->
  exists n sched os, (1 <= Alloc.chunk c)%N /\ (1 <= Alloc.term c)%N /\
    Alloc.run c Alloc.good (Alloc.init c n) sched = Some (s, os).
Proof. intros. reflexivity. Qed.
Print Assumptions C05_alloc_reachable_def.

Theorem C05_alloc_reachable_closed : forall c sched s s' os,
  AllocThms.reachable c s -> Alloc.run c Alloc.good s sched = Some (s', os) -> AllocThms.reachable c s'.
Proof. exact AllocThms.reachable_run. Qed.
Print Assumptions C05_alloc_reachable_closed.

(* (a) SAFETY: live slots, slots of the shared lists, of the threads' local lists, of the threads'
   pre-allocated ranges and the never-allocated rest are pairwise disjoint, duplicate-free and
   together exactly the slot IDs TERMINALS .. TERMINALS + capacity *)
Theorem C05_alloc_partition : forall c s, AllocThms.reachable c s ->
  NoDup (Alloc.live_slots c s ++ Alloc.shared_slots c s ++ Alloc.local_slots c s ++
         Alloc.range_slots c s ++ Alloc.unalloc_slots c s) /\
  Permutation (Alloc.live_slots c s ++ Alloc.shared_slots c s ++ Alloc.local_slots c s ++
               Alloc.range_slots c s ++ Alloc.unalloc_slots c s) (Alloc.ids c).
Proof. exact AllocThms.r_partition. Qed.
Print Assumptions C05_alloc_partition.

(* a slot handed out by add_node lies inside the slot array, was in a free list / range and held no
   node; afterwards it holds a node and is in no list or range *)
Theorem C05_alloc_handout_safe : forall c s t s' id p, AllocThms.reachable c s ->
  Alloc.step c Alloc.good s (Alloc.AAlloc t) = Some (s', Alloc.OAlloc (Some id) p) ->
  (Alloc.term c <= id < Alloc.term c + Alloc.cap c)%N /\ In id (Alloc.free_slots c s) /\
  ~ In id (Alloc.live_slots c s) /\ In id (Alloc.live_slots c s') /\ ~ In id (Alloc.free_slots c s').
Proof. exact AllocThms.r_alloc_safe. Qed.
Print Assumptions C05_alloc_handout_safe.

(* ... and it is the head of the list / the first slot of the range that belongs to the path taken *)
Theorem C05_alloc_handout_source : forall c s t l s' id p, AllocThms.reachable c s ->
  nth_error (Alloc.th s) t = Some l ->
  Alloc.step c Alloc.good s (Alloc.AAlloc t) = Some (s', Alloc.OAlloc (Some id) p) ->
  match p with
  | Alloc.PLocalList => exists r, Alloc.lchain c (Alloc.sl s) l = id :: r
  | Alloc.PLocalRange => exists r, Alloc.lrange c l = id :: r
  | Alloc.PSharedList | Alloc.PNonLocalList =>
    exists h rest r, Alloc.s_free (Alloc.sh s) = h :: rest /\
                     Alloc.chainl (Alloc.fuel c) (Alloc.sl s) h = id :: r
  | Alloc.PSharedChunk | Alloc.PSharedBump | Alloc.PNonLocalBump => exists r, Alloc.unalloc_slots c s = id :: r
  | Alloc.POom => False
  end.
Proof. exact AllocThms.r_alloc_source. Qed.
Print Assumptions C05_alloc_handout_source.

(* never handed out twice: while a slot holds a node and no thread frees it, no add_node of any
   thread returns it, under every schedule *)
Theorem C05_alloc_no_double_handout : forall c sched s s' os id, AllocThms.reachable c s ->
  In id (Alloc.live_slots c s) -> Alloc.run c Alloc.good s sched = Some (s', os) ->
  AllocProofs.frees_slot sched id = false ->
  In id (Alloc.live_slots c s') /\ forall p, ~ In (Alloc.OAlloc (Some id) p) os.
Proof. exact AllocThms.r_no_double_handout. Qed.
Print Assumptions C05_alloc_no_double_handout.

(* every list head stored in the state heads a well-formed list of free slots ending in 0 *)
Theorem C05_alloc_chains_ok : forall c s, AllocThms.reachable c s ->
  Forall (fun h => h <> 0%N /\ Alloc.chain_ok (Alloc.fuel c) (Alloc.sl s) h = true) (Alloc.s_free (Alloc.sh s)) /\
  Forall (fun l => Alloc.is_this (Alloc.l_cur l) = true ->
                   Alloc.chain_ok (Alloc.fuel c) (Alloc.sl s) (Alloc.l_next l) = true) (Alloc.th s).
Proof. exact AllocThms.r_chains_ok. Qed.
Print Assumptions C05_alloc_chains_ok.

(* (d) node count bookkeeping: shared count + the threads' deltas = number of slots holding a node *)
Theorem C05_alloc_count_exact : forall c s, AllocThms.reachable c s ->
  (Alloc.s_count (Alloc.sh s) + Alloc.sum_delta s)%Z = Z.of_nat (Alloc.nlive c s).
Proof. exact AllocThms.r_count_exact. Qed.
Print Assumptions C05_alloc_count_exact.

(* the number get_slot_from_shared compares with the high-water mark = #live (new node included)
   minus the OTHER threads' pending deltas *)
Theorem C05_alloc_trigger_count : forall c s t l s' id p, AllocThms.reachable c s ->
  nth_error (Alloc.th s) t = Some l ->
  Alloc.step c Alloc.good s (Alloc.AAlloc t) = Some (s', Alloc.OAlloc (Some id) p) ->
  match p with Alloc.PLocalList | Alloc.PLocalRange => True | _ =>
    (Alloc.s_count (Alloc.sh s') = Z.of_nat (Alloc.nlive c s') - (Alloc.sum_delta s - Alloc.l_delta l))%Z
  end.
Proof. exact AllocThms.r_trigger_count. Qed.
Print Assumptions C05_alloc_trigger_count.

(* (b) NO LEAK: #live + #free = capacity, always *)
Theorem C05_alloc_free_count : forall c s, AllocThms.reachable c s ->
  (Alloc.nlive c s + length (Alloc.free_slots c s))%nat = N.to_nat (Alloc.cap c).
Proof. exact AllocThms.r_free_count. Qed.
Print Assumptions C05_alloc_free_count.

(* at quiescence (no thread holds a slot: guards dropped, collector epilogue done) every slot without
   a node is reachable from the shared state *)
Theorem C05_alloc_quiescent_no_leak : forall c s, AllocThms.reachable c s ->
  (forall t l, nth_error (Alloc.th s) t = Some l -> AllocProofs.holds_nothing c l) ->
  Alloc.free_slots c s = Alloc.shared_slots c s ++ Alloc.unalloc_slots c s /\
  (Alloc.nlive c s + length (Alloc.shared_slots c s) + length (Alloc.unalloc_slots c s))%nat = N.to_nat (Alloc.cap c).
Proof. exact AllocThms.r_quiescent_no_leak. Qed.
Print Assumptions C05_alloc_quiescent_no_leak.

Theorem C05_alloc_quiescent_count : forall c s, AllocThms.reachable c s ->
  (forall t l, nth_error (Alloc.th s) t = Some l -> Alloc.is_this (Alloc.l_cur l) = false) ->
  Alloc.s_count (Alloc.sh s) = Z.of_nat (Alloc.nlive c s).
Proof. exact AllocThms.r_quiescent_count. Qed.
Print Assumptions C05_alloc_quiescent_count.

(* the capacity probe: when no other thread holds a slot, thread t creates exactly capacity - #live
   nodes before OutOfMemory (after "drop all + gc", #live = 0: every slot can be allocated again) *)
Theorem C05_alloc_capacity_probe : forall c k s t l, AllocThms.reachable c s ->
  nth_error (Alloc.th s) t = Some l -> AllocProofs.others_idle_p c s t ->
  (Alloc.nlive c s + k = N.to_nat (Alloc.cap c))%nat ->
  exists s' ids, AllocProofs.allocs c s t k = Some (s', ids) /\ length ids = k /\ AllocThms.reachable c s' /\
    Alloc.nlive c s' = N.to_nat (Alloc.cap c) /\
    exists s'', Alloc.step c Alloc.good s' (Alloc.AAlloc t) = Some (s'', Alloc.OAlloc None Alloc.POom).
Proof. exact AllocThms.r_capacity_probe. Qed.
Print Assumptions C05_alloc_capacity_probe.

(* non-vacuity: 2-3 threads, chunk size 2, capacity 6: two schedules through every action and every
   path; the reached states satisfy the invariant (all 6 slots live) *)
Theorem C05_alloc_example :
  exists sa sb,
    Alloc.run AllocExamples.ex_cfg Alloc.good (Alloc.init AllocExamples.ex_cfg 2) AllocExamples.ex_sched_a
      = Some (sa, AllocExamples.ex_obs_a) /\
    Alloc.run AllocExamples.ex_cfg Alloc.good (Alloc.init AllocExamples.ex_cfg 2) AllocExamples.ex_sched_b
      = Some (sb, AllocExamples.ex_obs_b) /\
    AllocInv.AInv AllocExamples.ex_cfg sa /\ AllocInv.AInv AllocExamples.ex_cfg sb /\
    Alloc.ainv_b AllocExamples.ex_cfg sa = true /\ Alloc.ainv_b AllocExamples.ex_cfg sb = true /\
    Alloc.live_slots AllocExamples.ex_cfg sa = [2; 3; 4; 5; 6; 7]%N /\
    Alloc.live_slots AllocExamples.ex_cfg sb = [2; 3; 4; 5; 6; 7]%N /\
    forallb (fun p => existsb (AllocExamples.path_eqb p)
                        (AllocExamples.paths_of (AllocExamples.ex_obs_a ++ AllocExamples.ex_obs_b)))
            AllocExamples.all_paths = true.
Proof. exact AllocExamples.example_runs. Qed.
Print Assumptions C05_alloc_example.

(* seeded C01e (hand-over without resetting the local list head): slot 3 is handed out while it heads
   a shared list; it holds a node AND is in a free list, the next request to the shared state is
   stuck on it; the code as it is hands out slot 5 *)
Theorem C05_alloc_no_reset_refuted :
  AllocExamples.summary AllocExamples.ex_cfg
    (Alloc.run AllocExamples.ex_cfg Alloc.var_no_reset (Alloc.init AllocExamples.ex_cfg 2) AllocExamples.sched_no_reset) =
    Some (Alloc.OAlloc (Some 3%N) Alloc.PLocalList, [3%N], 1%Z, 1%Z, 2%nat, [2%N; 0%N], [3%N; 4%N],
          ([], [2%N], [5%N], [6%N; 7%N]), false) /\
  Alloc.run AllocExamples.ex_cfg Alloc.var_no_reset (Alloc.init AllocExamples.ex_cfg 2)
    (AllocExamples.sched_no_reset ++ [Alloc.ABind 1; Alloc.AAlloc 1]) = None /\
  AllocExamples.summary AllocExamples.ex_cfg
    (Alloc.run AllocExamples.ex_cfg Alloc.good (Alloc.init AllocExamples.ex_cfg 2) AllocExamples.sched_no_reset) =
    Some (Alloc.OAlloc (Some 5%N) Alloc.PLocalRange, [3%N], 1%Z, 1%Z, 2%nat, [0%N; 0%N], [4%N; 5%N],
          ([3%N; 2%N], [], [], [6%N; 7%N]), true).
Proof. exact AllocExamples.no_reset_refuted. Qed.
Print Assumptions C05_alloc_no_reset_refuted.

(* seeded C05c (guard drop terminates the chunk list with 0): slot 2 is lost: 9 free + 0 live <> 10 *)
Theorem C05_alloc_tail_zero_refuted :
  AllocExamples.summary AllocExamples.lk_cfg
    (Alloc.run AllocExamples.lk_cfg Alloc.var_tail_zero (Alloc.init AllocExamples.lk_cfg 1) AllocExamples.sched_tail_zero) =
    Some (Alloc.ODrop true 3%N, [3%N], 0%Z, 0%Z, 0%nat, [2%N], [],
          ([3%N; 4%N; 5%N], [], [], [6%N; 7%N; 8%N; 9%N; 10%N; 11%N]), false) /\
  AllocExamples.summary AllocExamples.lk_cfg
    (Alloc.run AllocExamples.lk_cfg Alloc.good (Alloc.init AllocExamples.lk_cfg 1) AllocExamples.sched_tail_zero) =
    Some (Alloc.ODrop true 3%N, [3%N], 0%Z, 0%Z, 0%nat, [2%N], [],
          ([3%N; 4%N; 5%N; 2%N], [], [], [6%N; 7%N; 8%N; 9%N; 10%N; 11%N]), true).
Proof. exact AllocExamples.tail_zero_refuted. Qed.
Print Assumptions C05_alloc_tail_zero_refuted.

(* seeded C07b (prepare_local_state does not reset next_free): a list returned at guard drop is used
   again by its former owner: slot 3 handed out while it heads the shared list *)
Theorem C05_alloc_no_prep_reset_refuted :
  AllocExamples.summary AllocExamples.sm_cfg
    (Alloc.run AllocExamples.sm_cfg Alloc.var_no_prep_reset (Alloc.init AllocExamples.sm_cfg 2) AllocExamples.sched_no_prep_reset) =
    Some (Alloc.OAlloc (Some 3%N) Alloc.PLocalList, [3%N], 0%Z, 1%Z, 1%nat, [2%N; 0%N], [3%N],
          ([], [2%N], [], [4%N]), false) /\
  Alloc.run AllocExamples.sm_cfg Alloc.var_no_prep_reset (Alloc.init AllocExamples.sm_cfg 2)
    (AllocExamples.sched_no_prep_reset ++ [Alloc.ABind 1; Alloc.AAlloc 1]) = None /\
  AllocExamples.summary AllocExamples.sm_cfg
    (Alloc.run AllocExamples.sm_cfg Alloc.good (Alloc.init AllocExamples.sm_cfg 2) AllocExamples.sched_no_prep_reset) =
    Some (Alloc.OAlloc (Some 3%N) Alloc.PSharedList, [2%N], 1%Z, 0%Z, 1%nat, [0%N; 0%N], [3%N],
          ([2%N], [], [], [4%N]), true).
Proof. exact AllocExamples.no_prep_reset_refuted. Qed.
Print Assumptions C05_alloc_no_prep_reset_refuted.

(* the code before the fix "the freed node that triggers the hand-over is counted": count 2, 1 live slot *)
Theorem C05_alloc_ho_drift_refuted :
  AllocExamples.summary AllocExamples.ex_cfg
    (Alloc.run AllocExamples.ex_cfg Alloc.var_ho_drift (Alloc.init AllocExamples.ex_cfg 1) AllocExamples.sched_ho_drift) =
    Some (Alloc.ODrop true 5%N, [5%N; 3%N], 2%Z, 0%Z, 1%nat, [0%N], [4%N],
          ([5%N; 3%N; 2%N], [], [], [6%N; 7%N]), false) /\
  AllocExamples.summary AllocExamples.ex_cfg
    (Alloc.run AllocExamples.ex_cfg Alloc.good (Alloc.init AllocExamples.ex_cfg 1) AllocExamples.sched_ho_drift) =
    Some (Alloc.ODrop true 5%N, [5%N; 3%N], 1%Z, 0%Z, 1%nat, [0%N], [4%N],
          ([5%N; 3%N; 2%N], [], [], [6%N; 7%N]), true).
Proof. exact AllocExamples.ho_drift_refuted. Qed.
Print Assumptions C05_alloc_ho_drift_refuted.

(* ---------------------------------------------------------------------------------------------
   Package ARCSLAB: the node store of the pointer-based manager (crate arcslab: pages of slots,
   ONE free list through the slots, reference-counted items, IntHandle / ExtHandle, the slab's own
   count), model coq/Tbl/ArcSlab.v.  spp = slots per page (>= 1).  "reachable" = the state after
   ANY script of client operations on a new slab.  (Qualified names: nothing is imported.) *)
From Coq Require Import List NArith Bool Arith.
From OxiVerif Require Tbl.ArcSlab Tbl.ArcSlabProofsBase Tbl.ArcSlabProofs Tbl.ArcSlabProofsStep Tbl.ArcSlabThms
  Tbl.ArcSlabReach Tbl.ArcSlabExamples.
Import ListNotations.

Theorem C05_arcslab_reachable_def : forall spp y,
  ArcSlabThms.reachable spp y <-> exists ops outs, ArcSlab.run spp (ArcSlab.init spp) ops = Some (y, outs).
Proof. intros. reflexivity. Qed.
Print Assumptions C05_arcslab_reachable_def.

Theorem C05_arcslab_reachable_closed : forall spp y o y' out,
  ArcSlabThms.reachable spp y -> ArcSlab.step spp y o = ArcSlab.Done y' out -> ArcSlabThms.reachable spp y'.
Proof. exact ArcSlabThms.reachable_step. Qed.
Print Assumptions C05_arcslab_reachable_closed.

(* no reachable state makes an operation meet an inconsistent structure (free-list head that is
   not a free slot, a handle whose slot holds no item): every script runs to its end *)
Theorem C05_arcslab_never_broken : forall spp, (1 <= spp)%nat -> forall y o,
  ArcSlabThms.reachable spp y -> ArcSlab.step spp y o <> ArcSlab.Broken.
Proof. exact ArcSlabThms.reachable_never_broken. Qed.
Print Assumptions C05_arcslab_never_broken.

Theorem C05_arcslab_run_total : forall spp, (1 <= spp)%nat -> forall ops,
  exists yf outs, ArcSlab.run spp (ArcSlab.init spp) ops = Some (yf, outs) /\ ArcSlabProofs.YInv spp yf.
Proof. exact ArcSlabProofsStep.run_init_inv. Qed.
Print Assumptions C05_arcslab_run_total.

(* (a) the slots of the allocated pages are partitioned into items, recycled free slots ([stack],
   most recently freed first) and never-used free slots (a suffix of the newest page); the free
   list is exactly stack ++ never-used, duplicate-free, its head is `free_slot`; num_items counts
   the items *)
Theorem C05_arcslab_partition : forall spp, (1 <= spp)%nat -> forall y sl,
  ArcSlabThms.reachable spp y -> ArcSlab.y_slab y = ArcSlab.Alive sl ->
  exists stack k,
    let pgs := ArcSlab.pl_pages (ArcSlab.sl_pl sl) in
    let never := ArcSlabProofsBase.fresh spp (length pgs) k in
    (k <= spp)%nat /\ pgs <> [] /\
    NoDup (stack ++ never) /\
    hd_error (stack ++ never) = Some (ArcSlab.pl_free (ArcSlab.sl_pl sl)) /\
    ArcSlabProofsBase.linked pgs (stack ++ never) /\
    (forall a, ArcSlabProofsBase.valid spp pgs a ->
       ((exists p rc, ArcSlab.get_at pgs a = Some (ArcSlab.Item p rc)) /\ ~ In a stack /\ ~ In a never) \/
       ((exists nx, ArcSlab.get_at pgs a = Some (ArcSlab.Free nx)) /\ In a stack /\ ~ In a never) \/
       ((exists nx, ArcSlab.get_at pgs a = Some (ArcSlab.Free nx)) /\ ~ In a stack /\ In a never)) /\
    (forall a, In a (stack ++ never) -> ArcSlabProofsBase.valid spp pgs a) /\
    ArcSlab.sl_items sl = N.of_nat (ArcSlabProofsBase.cnt pgs).
Proof. exact ArcSlabReach.r_partition. Qed.
Print Assumptions C05_arcslab_partition.

(* no slot is handed out while its item is alive: the slot add_item returns is the head of the free
   list, a free slot without item and without handle; only that slot changes *)
Theorem C05_arcslab_add_fresh : forall spp, (1 <= spp)%nat -> forall y sl h p y' out,
  ArcSlabThms.reachable spp y -> ArcSlab.y_slab y = ArcSlab.Alive sl ->
  ArcSlab.step spp y (ArcSlab.OAdd h p) = ArcSlab.Done y' out ->
  exists a sl',
    out = ArcSlab.mkOut (ArcSlab.RAddr a) [] /\
    y' = ArcSlab.mkSys (ArcSlab.Alive sl') ((h, ArcSlab.mkH a ArcSlab.KInt) :: ArcSlab.y_hs y) (ArcSlab.y_refs y) (ArcSlab.y_tok y) /\
    a = ArcSlab.pl_free (ArcSlab.sl_pl sl) /\
    (exists nx, ArcSlab.get_at (ArcSlab.pl_pages (ArcSlab.sl_pl sl)) a = Some (ArcSlab.Free nx)) /\
    ArcSlab.slot_read sl a = None /\ ArcSlabProofs.hcount a (ArcSlab.y_hs y) = 0%nat /\
    (forall b, ArcSlab.slot_read sl' b = if ArcSlab.addr_eqb a b then Some (p, 1%N) else ArcSlab.slot_read sl b) /\
    ArcSlab.sl_items sl' = (ArcSlab.sl_items sl + 1)%N.
Proof. exact ArcSlabReach.r_add_fresh. Qed.
Print Assumptions C05_arcslab_add_fresh.

(* (b) the count stored in an item = the number of handle variables that refer to it, never 0; a slot
   without item has no handle; every handle variable refers to a live item (no use after free) *)
Theorem C05_arcslab_rc_exact : forall spp, (1 <= spp)%nat -> forall y sl a p rc,
  ArcSlabThms.reachable spp y -> ArcSlab.y_slab y = ArcSlab.Alive sl -> ArcSlab.slot_read sl a = Some (p, rc) ->
  rc = N.of_nat (ArcSlabProofs.hcount a (ArcSlab.y_hs y)) /\ (1 <= rc)%N.
Proof. exact ArcSlabReach.r_rc_exact. Qed.
Print Assumptions C05_arcslab_rc_exact.

Theorem C05_arcslab_free_slot_no_handle : forall spp, (1 <= spp)%nat -> forall y sl a,
  ArcSlabThms.reachable spp y -> ArcSlab.y_slab y = ArcSlab.Alive sl -> ArcSlab.slot_read sl a = None ->
  ArcSlabProofs.hcount a (ArcSlab.y_hs y) = 0%nat.
Proof. exact ArcSlabReach.r_free_slot_no_handle. Qed.
Print Assumptions C05_arcslab_free_slot_no_handle.

Theorem C05_arcslab_no_dangling : forall spp, (1 <= spp)%nat -> forall y sl h hd,
  ArcSlabThms.reachable spp y -> ArcSlab.y_slab y = ArcSlab.Alive sl -> ArcSlab.hfind h (ArcSlab.y_hs y) = Some hd ->
  exists p rc, ArcSlab.slot_read sl (ArcSlab.h_addr hd) = Some (p, rc) /\ (1 <= rc)%N.
Proof. exact ArcSlabReach.r_no_dangling. Qed.
Print Assumptions C05_arcslab_no_dangling.

(* the end of a handle (drop / drop_with / into_inner, IntHandle or ExtHandle): the item leaves its slot
   (Drop logged / closure called, then Drop / Some returned) exactly when the handle is the LAST one that
   refers to it, else only the count goes down; the slot then is the head of the free list; an ExtHandle
   gives up its slab reference AFTER the item, and the slab is destroyed (D logged last) exactly when
   that was the only reference (ArcSlabRefs + raw references + ExtHandles = 1) *)
Theorem C05_arcslab_end_spec : forall spp, (1 <= spp)%nat -> forall y sl o h hd,
  ArcSlabThms.reachable spp y -> ArcSlab.y_slab y = ArcSlab.Alive sl -> ArcSlabProofsStep.is_end o h ->
  ArcSlab.hfind h (ArcSlab.y_hs y) = Some hd ->
  exists p rc y' out,
    ArcSlab.slot_read sl (ArcSlab.h_addr hd) = Some (p, rc) /\
    rc = N.of_nat (ArcSlabProofs.hcount (ArcSlab.h_addr hd) (ArcSlab.y_hs y)) /\
    ArcSlab.step spp y o = ArcSlab.Done y' out /\
    ArcSlab.y_hs y' = ArcSlab.hremove h (ArcSlab.y_hs y) /\ ArcSlab.y_refs y' = ArcSlab.y_refs y /\
    ArcSlab.y_tok y' = ArcSlab.y_tok y /\
    let last := (ArcSlabProofs.hcount (ArcSlab.h_addr hd) (ArcSlab.y_hs y) =? 1)%nat in
    let d := if last then Some p else None in
    let dies := ArcSlab.is_ext (ArcSlab.h_kind hd) && (ArcSlabProofsStep.slab_count y =? 1)%N in
    ArcSlab.o_res out = ArcSlabProofsStep.end_res o d /\
    ArcSlab.o_log out = ArcSlabProofsStep.end_log o d ++ (if dies then [ArcSlab.EvData] else []) /\
    ArcSlabProofsStep.live y' = (if last then ArcSlabProofsStep.live y - 1 else ArcSlabProofsStep.live y)%N /\
    (last = true -> (1 <= ArcSlabProofsStep.live y)%N) /\
    if dies then ArcSlab.y_slab y' = ArcSlab.Destroyed (ArcSlabProofsStep.live y')
    else exists sl', ArcSlab.y_slab y' = ArcSlab.Alive sl' /\
           length (ArcSlab.pl_pages (ArcSlab.sl_pl sl')) = length (ArcSlab.pl_pages (ArcSlab.sl_pl sl)) /\
           (forall b, ArcSlab.slot_read sl' b =
                      if ArcSlab.addr_eqb (ArcSlab.h_addr hd) b then (if last then None else Some (p, (rc - 1)%N))
                      else ArcSlab.slot_read sl b) /\
           (last = true -> ArcSlab.pl_free (ArcSlab.sl_pl sl') = ArcSlab.h_addr hd).
Proof. exact ArcSlabReach.r_end_spec. Qed.
Print Assumptions C05_arcslab_end_spec.

(* the outputs named above, spelled out *)
Theorem C05_arcslab_end_outputs : forall h p,
  ArcSlabProofsStep.end_res (ArcSlab.OIntoInner h) (Some p) = ArcSlab.RSome p /\
  ArcSlabProofsStep.end_res (ArcSlab.OIntoInner h) None = ArcSlab.RNone /\
  ArcSlabProofsStep.end_log (ArcSlab.ODrop h) (Some p) = [ArcSlab.EvDrop p] /\
  ArcSlabProofsStep.end_log (ArcSlab.ODropWith h) (Some p) = [ArcSlab.EvFn p; ArcSlab.EvDrop p] /\
  ArcSlabProofsStep.end_log (ArcSlab.OIntoInner h) (Some p) = [] /\
  ArcSlabProofsStep.end_log (ArcSlab.ODrop h) None = [] /\ ArcSlabProofsStep.end_log (ArcSlab.ODropWith h) None = [] /\
  (forall o, ArcSlabProofsStep.is_end o h <-> o = ArcSlab.ODrop h \/ o = ArcSlab.ODropWith h \/ o = ArcSlab.OIntoInner h).
Proof. intros. repeat split; auto. Qed.
Print Assumptions C05_arcslab_end_outputs.

(* force_into_inner of the last IntHandle: the item, the slot freed; clone: the item's count (and for an
   ExtHandle the slab's count) + 1 *)
Theorem C05_arcslab_force_spec : forall spp, (1 <= spp)%nat -> forall y sl h a,
  ArcSlabThms.reachable spp y -> ArcSlab.y_slab y = ArcSlab.Alive sl ->
  ArcSlab.hfind h (ArcSlab.y_hs y) = Some (ArcSlab.mkH a ArcSlab.KInt) -> ArcSlabProofs.hcount a (ArcSlab.y_hs y) = 1%nat ->
  exists p sl',
    ArcSlab.slot_read sl a = Some (p, 1%N) /\
    ArcSlab.step spp y (ArcSlab.OForce h) =
      ArcSlab.Done (ArcSlab.mkSys (ArcSlab.Alive sl') (ArcSlab.hremove h (ArcSlab.y_hs y)) (ArcSlab.y_refs y) (ArcSlab.y_tok y))
                   (ArcSlab.mkOut (ArcSlab.RSome p) []) /\
    (forall b, ArcSlab.slot_read sl' b = if ArcSlab.addr_eqb a b then None else ArcSlab.slot_read sl b) /\
    ArcSlab.sl_items sl' = (ArcSlab.sl_items sl - 1)%N /\ (1 <= ArcSlab.sl_items sl)%N /\
    ArcSlab.pl_free (ArcSlab.sl_pl sl') = a /\
    length (ArcSlab.pl_pages (ArcSlab.sl_pl sl')) = length (ArcSlab.pl_pages (ArcSlab.sl_pl sl)).
Proof. exact ArcSlabReach.r_force_spec. Qed.
Print Assumptions C05_arcslab_force_spec.

Theorem C05_arcslab_clone_spec : forall spp, (1 <= spp)%nat -> forall y sl h h2 hd,
  ArcSlabThms.reachable spp y -> ArcSlab.y_slab y = ArcSlab.Alive sl ->
  ArcSlab.hfind h (ArcSlab.y_hs y) = Some hd -> ArcSlab.hfind h2 (ArcSlab.y_hs y) = None ->
  exists p rc sl',
    ArcSlab.slot_read sl (ArcSlab.h_addr hd) = Some (p, rc) /\
    ArcSlab.step spp y (ArcSlab.OClone h h2) =
      ArcSlab.Done (ArcSlab.mkSys (ArcSlab.Alive sl') ((h2, hd) :: ArcSlab.y_hs y) (ArcSlab.y_refs y) (ArcSlab.y_tok y))
                   (ArcSlab.mkOut (ArcSlab.RNum (rc + 1)%N) []) /\
    (forall b, ArcSlab.slot_read sl' b = if ArcSlab.addr_eqb (ArcSlab.h_addr hd) b then Some (p, (rc + 1)%N) else ArcSlab.slot_read sl b) /\
    ArcSlab.sl_items sl' = ArcSlab.sl_items sl /\
    length (ArcSlab.pl_pages (ArcSlab.sl_pl sl')) = length (ArcSlab.pl_pages (ArcSlab.sl_pl sl)) /\
    ArcSlab.sl_rc sl' = (ArcSlab.sl_rc sl + N.of_nat (ArcSlabProofsBase.b2n (ArcSlab.is_ext (ArcSlab.h_kind hd))))%N.
Proof. exact ArcSlabReach.r_clone_spec. Qed.
Print Assumptions C05_arcslab_clone_spec.

(* every operation: (items in slots afterwards) + (items dropped or returned) = (items in slots before)
   + (items added); D is logged exactly by the operation that destroys the slab, which happens only
   when the slab's count was 1 *)
Theorem C05_arcslab_step_conservation : forall spp, (1 <= spp)%nat -> forall y o y' out,
  ArcSlabThms.reachable spp y -> ArcSlab.step spp y o = ArcSlab.Done y' out ->
  (ArcSlabProofsStep.live y' + ArcSlabThms.gone out = ArcSlabProofsStep.live y + ArcSlabThms.added out)%N /\
  (In ArcSlab.EvData (ArcSlab.o_log out) <-> ArcSlab.obs_alive y' = false) /\
  (ArcSlab.obs_alive y' = false -> ArcSlabProofsStep.slab_count y = 1%N).
Proof. exact ArcSlabReach.r_step_delta. Qed.
Print Assumptions C05_arcslab_step_conservation.

(* whole scripts from a new slab: every item that was ever added has been dropped / returned exactly
   once or is still in its slot (after the destruction: was, = leaked); with no handle variable left
   nothing is in a slot and nothing was leaked *)
Theorem C05_arcslab_conservation : forall spp, (1 <= spp)%nat -> forall ops,
  exists yf outs, ArcSlab.run spp (ArcSlab.init spp) ops = Some (yf, outs) /\ ArcSlabProofs.YInv spp yf /\
    ArcSlabThms.total ArcSlabThms.added outs = (ArcSlabThms.total ArcSlabThms.gone outs + ArcSlabProofsStep.live yf)%N /\
    (ArcSlab.y_hs yf = [] -> ArcSlabThms.total ArcSlabThms.added outs = ArcSlabThms.total ArcSlabThms.gone outs).
Proof. exact ArcSlabThms.run_init_conservation. Qed.
Print Assumptions C05_arcslab_conservation.

(* (c) no leak: without handles no item is left and every slot of every page is on the free list *)
Theorem C05_arcslab_no_leak : forall spp, (1 <= spp)%nat -> forall y sl,
  ArcSlabThms.reachable spp y -> ArcSlab.y_slab y = ArcSlab.Alive sl -> ArcSlab.y_hs y = [] ->
  ArcSlab.sl_items sl = 0%N /\
  exists ch, NoDup ch /\ hd_error ch = Some (ArcSlab.pl_free (ArcSlab.sl_pl sl)) /\
             ArcSlabProofsBase.linked (ArcSlab.pl_pages (ArcSlab.sl_pl sl)) ch /\
             forall a, ArcSlabProofsBase.valid spp (ArcSlab.pl_pages (ArcSlab.sl_pl sl)) a <-> In a ch.
Proof. exact ArcSlabReach.r_no_handles_all_free. Qed.
Print Assumptions C05_arcslab_no_leak.

Theorem C05_arcslab_destroyed_leak_free : forall spp, (1 <= spp)%nat -> forall y n,
  ArcSlabThms.reachable spp y -> ArcSlab.y_slab y = ArcSlab.Destroyed n -> ArcSlab.y_hs y = [] -> n = 0%N.
Proof. exact ArcSlabReach.r_destroyed_leak_free. Qed.
Print Assumptions C05_arcslab_destroyed_leak_free.

(* the slab is alive exactly as long as ArcSlabRefs + raw references + ExtHandles is not 0: not
   destroyed before, not kept after *)
Theorem C05_arcslab_alive_iff_count : forall spp, (1 <= spp)%nat -> forall y,
  ArcSlabThms.reachable spp y ->
  (ArcSlab.obs_alive y = true <-> (1 <= ArcSlabProofsStep.slab_count y)%N) /\
  (ArcSlab.obs_alive y = false <-> ArcSlabProofsStep.slab_count y = 0%N).
Proof. exact ArcSlabReach.r_alive_iff_count. Qed.
Print Assumptions C05_arcslab_alive_iff_count.

Theorem C05_arcslab_slab_count_def : forall y,
  ArcSlabProofsStep.slab_count y =
  (ArcSlab.y_refs y + ArcSlab.y_tok y + N.of_nat (ArcSlabProofs.ecount (ArcSlab.y_hs y)))%N /\
  ArcSlabProofsStep.live y = match ArcSlab.y_slab y with ArcSlab.Alive sl => ArcSlab.sl_items sl | ArcSlab.Destroyed n => n end.
Proof. intros. split; reflexivity. Qed.
Print Assumptions C05_arcslab_slab_count_def.

(* re-use order: LIFO - the slot whose item has just left is handed out next *)
Theorem C05_arcslab_lifo : forall spp, (1 <= spp)%nat -> forall y sl o h hd y' out h2 p2,
  ArcSlabThms.reachable spp y -> ArcSlab.y_slab y = ArcSlab.Alive sl -> ArcSlabProofsStep.is_end o h ->
  ArcSlab.hfind h (ArcSlab.y_hs y) = Some hd -> ArcSlabProofs.hcount (ArcSlab.h_addr hd) (ArcSlab.y_hs y) = 1%nat ->
  ArcSlab.step spp y o = ArcSlab.Done y' out -> ArcSlab.obs_alive y' = true -> ArcSlab.hfind h2 (ArcSlab.y_hs y') = None ->
  exists y'', ArcSlab.step spp y' (ArcSlab.OAdd h2 p2) = ArcSlab.Done y'' (ArcSlab.mkOut (ArcSlab.RAddr (ArcSlab.h_addr hd)) []).
Proof. exact ArcSlabReach.r_lifo_reuse. Qed.
Print Assumptions C05_arcslab_lifo.

(* the address policy in full: the slab is represented by (stack of recycled slots, number k of used
   slots of the newest page); a new slab is ([], 0); add_item takes the top of the stack, else slot k of
   the newest page, and adds a page exactly when that was the last free slot; free_slot pushes *)
Theorem C05_arcslab_policy_rep : forall spp, (1 <= spp)%nat -> forall y sl,
  ArcSlabThms.reachable spp y -> ArcSlab.y_slab y = ArcSlab.Alive sl -> exists stack k, ArcSlabProofsBase.SRep spp sl stack k.
Proof. exact ArcSlabReach.r_rep. Qed.
Print Assumptions C05_arcslab_policy_rep.

Theorem C05_arcslab_policy_new : forall spp, (1 <= spp)%nat ->
  ArcSlabProofsBase.SRep spp (ArcSlab.slab_new spp) [] 0.
Proof. exact ArcSlabProofs.slab_new_rep. Qed.
Print Assumptions C05_arcslab_policy_new.

Theorem C05_arcslab_policy_add : forall spp, (1 <= spp)%nat -> forall sl stack k p,
  ArcSlabProofsBase.SRep spp sl stack k ->
  exists sl',
    ArcSlab.add_item spp sl p = Some (ArcSlabProofsBase.pop_addr (ArcSlab.pl_pages (ArcSlab.sl_pl sl)) stack k, sl') /\
    ArcSlabProofsBase.SRep spp sl' (ArcSlabProofs.add_stack spp stack k) (ArcSlabProofs.add_k spp stack k) /\
    ArcSlabProofsBase.pop_addr (ArcSlab.pl_pages (ArcSlab.sl_pl sl)) stack k = ArcSlab.pl_free (ArcSlab.sl_pl sl) /\
    length (ArcSlab.pl_pages (ArcSlab.sl_pl sl')) =
      (if ArcSlabProofs.add_new_page spp stack k then S (length (ArcSlab.pl_pages (ArcSlab.sl_pl sl)))
       else length (ArcSlab.pl_pages (ArcSlab.sl_pl sl))) /\
    ArcSlab.slot_read sl (ArcSlab.pl_free (ArcSlab.sl_pl sl)) = None /\
    (forall b, ArcSlab.slot_read sl' b = if ArcSlab.addr_eqb (ArcSlab.pl_free (ArcSlab.sl_pl sl)) b then Some (p, 1%N) else ArcSlab.slot_read sl b) /\
    ArcSlab.sl_rc sl' = ArcSlab.sl_rc sl /\ ArcSlab.sl_items sl' = (ArcSlab.sl_items sl + 1)%N.
Proof. exact ArcSlabProofs.add_item_rep. Qed.
Print Assumptions C05_arcslab_policy_add.

Theorem C05_arcslab_policy_defs : forall spp pgs stack k,
  ArcSlabProofsBase.pop_addr pgs stack k = match stack with s :: _ => s | [] => (length pgs - 1, k)%nat end /\
  ArcSlabProofsBase.pop_k stack k = match stack with _ :: _ => k | [] => S k end /\
  ArcSlabProofs.add_new_page spp stack k =
    match tl stack with [] => (spp <=? ArcSlabProofsBase.pop_k stack k)%nat | _ :: _ => false end /\
  ArcSlabProofs.add_stack spp stack k = (if ArcSlabProofs.add_new_page spp stack k then [] else tl stack) /\
  ArcSlabProofs.add_k spp stack k = (if ArcSlabProofs.add_new_page spp stack k then 0%nat else ArcSlabProofsBase.pop_k stack k).
Proof. intros. repeat split; reflexivity. Qed.
Print Assumptions C05_arcslab_policy_defs.

Theorem C05_arcslab_policy_free : forall spp, (1 <= spp)%nat -> forall sl stack k a p rc,
  ArcSlabProofsBase.SRep spp sl stack k -> ArcSlab.slot_read sl a = Some (p, rc) ->
  ArcSlabProofsBase.SRep spp (ArcSlab.free_slot sl a) (a :: stack) k /\
  (forall b, ArcSlab.slot_read (ArcSlab.free_slot sl a) b = if ArcSlab.addr_eqb a b then None else ArcSlab.slot_read sl b) /\
  ArcSlab.pl_free (ArcSlab.sl_pl (ArcSlab.free_slot sl a)) = a /\
  ArcSlab.sl_items (ArcSlab.free_slot sl a) = (ArcSlab.sl_items sl - 1)%N /\ (1 <= ArcSlab.sl_items sl)%N.
Proof. exact ArcSlabProofs.free_slot_rep. Qed.
Print Assumptions C05_arcslab_policy_free.

(* non-vacuity: a script over pages of 3 slots (second page, LIFO re-use, an ExtHandle that keeps the slab
   alive, destruction with two IntHandles left: 2 items leaked), its intermediate state, pages of 1 slot *)
Theorem C05_arcslab_example :
  (exists yf outs, ArcSlab.run 3 (ArcSlab.init 3) ArcSlabExamples.ex_ops = Some (yf, outs) /\
     map ArcSlabExamples.view outs = ArcSlabExamples.ex_results /\
     ArcSlab.y_slab yf = ArcSlab.Destroyed 2 /\ map fst (ArcSlab.y_hs yf) = [5; 3]%nat /\
     ArcSlab.y_refs yf = 0%N /\ ArcSlab.y_tok yf = 0%N) /\
  (exists y sl outs, ArcSlab.run 3 (ArcSlab.init 3) ArcSlabExamples.ex_mid_ops = Some (y, outs) /\
     ArcSlab.y_slab y = ArcSlab.Alive sl /\ ArcSlabThms.reachable 3 y /\
     ArcSlab.sl_items sl = 3%N /\ length (ArcSlab.pl_pages (ArcSlab.sl_pl sl)) = 2%nat /\
     ArcSlab.pl_free (ArcSlab.sl_pl sl) = (0, 2)%nat /\
     ArcSlab.get_at (ArcSlab.pl_pages (ArcSlab.sl_pl sl)) (0, 2)%nat = Some (ArcSlab.Free (Some (1, 1)%nat)) /\
     ArcSlab.get_at (ArcSlab.pl_pages (ArcSlab.sl_pl sl)) (1, 1)%nat = Some (ArcSlab.Free (Some (1, 2)%nat)) /\
     ArcSlab.get_at (ArcSlab.pl_pages (ArcSlab.sl_pl sl)) (1, 2)%nat = Some (ArcSlab.Free None) /\
     ArcSlab.slot_read sl (0, 0)%nat = Some (6, 1)%N /\ ArcSlab.slot_read sl (0, 1)%nat = Some (2, 1)%N /\
     ArcSlab.slot_read sl (1, 0)%nat = Some (4, 1)%N /\ ArcSlabProofsStep.slab_count y = 1%N) /\
  (exists y outs, ArcSlab.run 1 (ArcSlab.init 1) [ArcSlab.OAdd 0 7; ArcSlab.OAdd 1 8; ArcSlab.ODrop 0; ArcSlab.OAdd 2 9] = Some (y, outs) /\
     map ArcSlabExamples.view outs =
       [Some (ArcSlab.RAddr (0, 0)%nat, []); Some (ArcSlab.RAddr (1, 0)%nat, []); Some (ArcSlab.RUnit, [ArcSlab.EvDrop 7]);
        Some (ArcSlab.RAddr (0, 0)%nat, [])] /\
     ArcSlab.obs_pages y = 3%nat /\ ArcSlab.obs_items y = Some 2%N).
Proof. exact (conj ArcSlabExamples.ex_run (conj ArcSlabExamples.ex_mid ArcSlabExamples.ex_one_slot)). Qed.
Print Assumptions C05_arcslab_example.

(* ================================================================================================
   STOREREF — the counts of the index-based manager's node store (coq/Mgr/IndexStore.v = ALLOC's slot
   allocator x payloads / stored counts x edge values; see the STOREREF section of Props/C20.v).  In every
   state that satisfies the store invariant (every state reachable from a new manager under any interleaving
   of `add_node` / `clone_edge` / `drop_edge` / removals / allocator-internal actions of any threads that stays
   inside `drop_edge`'s assumption): a slot has a payload iff the allocator counts it as a node; its STORED
   count = number of edge values held by clients (thread-local edges, `Function`s, the unique table's entry)
   + number of child edges stored in nodes that point to it, and is never 0; nothing points to a slot without
   node; every child edge is an edge value and its holder is a live node.  (Qualified names.) *)
From OxiVerif Require Tbl.RcStore Mgr.Alloc Mgr.AllocInv Mgr.IndexStore Mgr.IndexStoreProofs.

Theorem C05_index_store_counts : forall c s, IndexStoreProofs.IInv c s ->
  (forall id, match IndexStore.nget (IndexStore.i_nodes s) id with
              | Some (p, rc) => rc = N.of_nat (IndexStore.nclient s id + IndexStore.nparent s id) /\ (1 <= rc)%N /\
                                Alloc.sget (Alloc.sl (IndexStore.i_al s)) id = Alloc.SNode
              | None => IndexStore.nclient s id = 0%nat /\ IndexStore.nparent s id = 0%nat /\
                        Alloc.sget (Alloc.sl (IndexStore.i_al s)) id <> Alloc.SNode
              end) /\
  (forall k pid, In (k, pid) (IndexStore.i_own s) ->
     exists id, RcStore.afind k (IndexStore.i_hs s) = Some id /\ IndexStore.nget (IndexStore.i_nodes s) pid <> None).
Proof. exact IndexStoreProofs.index_store_counts. Qed.
Print Assumptions C05_index_store_counts.

Theorem C05_index_store_counts_def : forall s id,
  IndexStore.nclient s id =
    length (filter (fun e => (snd e =? id)%N && negb (IndexStore.bound (IndexStore.i_own s) (fst e))) (IndexStore.i_hs s)) /\
  IndexStore.nparent s id =
    length (filter (fun e => (snd e =? id)%N && IndexStore.bound (IndexStore.i_own s) (fst e)) (IndexStore.i_hs s)) /\
  (forall hs h, IndexStore.bound hs h = match RcStore.afind h hs with Some _ => true | None => false end).
Proof. intros. repeat split; reflexivity. Qed.
Print Assumptions C05_index_store_counts_def.

(* preserved by the store layer: every operation of every thread (inside the assumption), every run *)
Theorem C05_index_store_step_inv : forall c s o s' r,
  IndexStoreProofs.IInv c s -> IndexStore.istep c s o = Some (s', r) -> IndexStore.leaked r = false ->
  IndexStoreProofs.IInv c s'.
Proof. intros c s o s' r HI H Hl. exact (proj1 (IndexStoreProofs.istep_refines c s o s' r HI H Hl)). Qed.
Print Assumptions C05_index_store_step_inv.

Theorem C05_index_store_counts_reachable : forall c s n ops rs id p rc,
  (1 <= Alloc.chunk c)%N -> (1 <= Alloc.term c)%N ->
  IndexStore.irun c (IndexStore.iinit c n) ops = Some (s, rs) -> IndexStoreProofs.no_leak rs = true ->
  IndexStore.nget (IndexStore.i_nodes s) id = Some (p, rc) ->
  rc = N.of_nat (IndexStore.nclient s id + IndexStore.nparent s id) /\ (1 <= rc)%N /\
  In id (Alloc.live_slots c (IndexStore.i_al s)).
Proof.
  intros c s n ops rs id p rc Hc Ht H Hnl Hn.
  assert (HI : IndexStoreProofs.IInv c s) by (apply IndexStoreProofs.ireachable_inv; exists n, ops, rs; auto).
  destruct (IndexStoreProofs.index_store_counts c s HI) as [Hcnt _]. specialize (Hcnt id). rewrite Hn in Hcnt.
  destruct Hcnt as (E & P & L). split; [exact E|]. split; [exact P|].
  apply (proj2 (IndexStoreProofs.live_listing c s HI)). cbn. rewrite Hn. discriminate.
Qed.
Print Assumptions C05_index_store_counts_reachable.

(* ------------------------------------------------------------------------------------------------
   STORECONC: the step that STOREREF had to exclude never happens.  In every state of the composed
   model Mgr/Core.v that is reachable from a new manager, no store operation of any action of any
   thread (`drop_edge` of a token, of the consumed child edges of `get_or_insert` (found / failed),
   of the child edges of a collected node) meets a node's last edge: the unique table's own edge
   value keeps the stored count >= 1 until the collector removes the node *)
From OxiVerif Require Mgr.Core Mgr.CoreProofs Mgr.CoreThms.

Theorem C05_core_no_leaking_drop : forall k terms nl c s a s' r rs,
  CoreProofs.kreachable k terms nl c s -> Core.kstep k terms nl c s a = Some (s', r, rs) ->
  forall x, In x rs -> IndexStore.leaked x = false.
Proof. exact CoreThms.core_no_leaking_drop. Qed.
Print Assumptions C05_core_no_leaking_drop.

Theorem C05_core_reachable_inv : forall k terms nl c s,
  CoreProofs.kreachable k terms nl c s -> CoreProofs.KInv k terms nl c s.
Proof. exact CoreProofs.kreachable_inv. Qed.
Print Assumptions C05_core_reachable_inv.

(* whole schedules: no leak anywhere, the projection is a run of Conc.v *)
Theorem C05_core_run : forall k terms nl c sched s s' xs rs,
  CoreProofs.KInv k terms nl c s -> Core.krun k terms nl c s sched = Some (s', xs, rs) ->
  IndexStoreProofs.no_leak rs = true /\
  Conc.run k terms nl (Core.kproj s) (Core.kacts_list sched xs) = Some (Core.kproj s') /\
  CoreProofs.KInv k terms nl c s' /\ length xs = length sched.
Proof. intros k terms nl c sched. exact (CoreProofs.krun_spec k terms nl c sched). Qed.
Print Assumptions C05_core_run.

(* ------------------------------------------------------------------------------------------------
   STORECONC2: progress of the composed model Mgr/Core.v.  [Core.kstep] = [kops] (Conc's guard + the
   store script) ; [irun] of the script ; [kfin].  (1) The [None] branches of [kfin] (a result shape
   that the script does not produce; slot id 0 for a new node) are unreachable: in every state that
   satisfies the invariant -- in particular in every state reachable from a new manager -- an action
   whose guard holds and whose script the store accepts yields a state.  The invariant carries
   [1 <= term c] (precondition of [kinit], part of the allocator's invariant): the terminal slots come
   first (`TERMINALS`), the id of every new node lies behind them *)
From OxiVerif Require Mgr.CoreProgress Mgr.CoreProgressExamples.

Theorem C05_core_step_total : forall k terms nl c s a ops i' rs,
  CoreProofs.kreachable k terms nl c s ->
  Core.kops k terms nl s a = Some ops -> IndexStore.irun c (Core.k_i s) ops = Some (i', rs) ->
  exists s' r, Core.kfin s a i' rs = Some (s', r) /\ Core.kstep k terms nl c s a = Some (s', r, rs).
Proof.
  intros k terms nl c s a ops i' rs HR. apply CoreProgress.kstep_total. apply CoreProofs.kreachable_inv. exact HR.
Qed.
Print Assumptions C05_core_step_total.

Theorem C05_core_step_total_inv : forall k terms nl c s a ops i' rs,
  CoreProofs.KInv k terms nl c s ->
  Core.kops k terms nl s a = Some ops -> IndexStore.irun c (Core.k_i s) ops = Some (i', rs) ->
  exists s' r, Core.kfin s a i' rs = Some (s', r) /\ Core.kstep k terms nl c s a = Some (s', r, rs).
Proof. exact CoreProgress.kstep_total. Qed.
Print Assumptions C05_core_step_total_inv.

Theorem C05_core_new_id_in_array : forall k terms nl c s tid lvl ch s' id rs,
  CoreProofs.KInv k terms nl c s ->
  Core.kstep k terms nl c s (Core.KGoi tid lvl ch) = Some (s', Core.KRNew id, rs) ->
  (1 <= Alloc.term c /\ Alloc.term c <= Npos id < Alloc.term c + Alloc.cap c)%N.
Proof. exact CoreProgress.knew_id_in_array. Qed.
Print Assumptions C05_core_new_id_in_array.

(* (2) the script itself is refused only by the ALLOCATOR: every guard inside [istep] that is about
   edge values, counts and nodes holds in a KInv state.  [kalloc_ok]: the thread of an allocation
   (`get_or_insert` of a node that is not in the table) exists, the collector thread of a step that
   frees a slot exists, an allocator-internal action is internal and enabled.  A step happens IFF
   Conc's guard holds and the allocator consents *)
Theorem C05_core_kalloc_ok_def : forall c s a,
  CoreProgress.kalloc_ok c s a =
  match a with
  | Core.KGoi tid lvl ch => Conc.find_shape (Core.k_cn s) lvl ch = None -> tid < CoreProgress.nthreads s
  | Core.KGc t id => (exists nd, Conc.cfind (Core.k_cn s) id = Some nd /\ Conc.crc nd = 0%N) -> t < CoreProgress.nthreads s
  | Core.KInternal a => IndexStore.internal a = true /\ Alloc.step c Alloc.good (IndexStore.i_al (Core.k_i s)) a <> None
  | _ => True
  end.
Proof. reflexivity. Qed.
Print Assumptions C05_core_kalloc_ok_def.

Theorem C05_core_step_progress : forall k terms nl c s a,
  CoreProofs.KInv k terms nl c s ->
  ((exists s' r rs, Core.kstep k terms nl c s a = Some (s', r, rs)) <->
   Core.kops k terms nl s a <> None /\ CoreProgress.kalloc_ok c s a).
Proof. exact CoreProgress.kstep_some_iff. Qed.
Print Assumptions C05_core_step_progress.

(* the collector's step: enabled for every table entry when the thread exists; the entry is removed
   iff its reported count is 0 (`load_rc == 1`) *)
Theorem C05_core_gc_progress : forall k terms nl c s t id nd,
  CoreProofs.KInv k terms nl c s -> t < CoreProgress.nthreads s -> Conc.cfind (Core.k_cn s) id = Some nd ->
  exists s' r rs, Core.kstep k terms nl c s (Core.KGc t id) = Some (s', r, rs) /\
    CoreProgress.nthreads s' = CoreProgress.nthreads s /\
    (if N.eqb (Conc.crc nd) 0 then r = Core.KRRemoved else r = Core.KRKept /\ s' = s).
Proof. exact CoreProgress.kgc_progress. Qed.
Print Assumptions C05_core_gc_progress.

(* non-vacuity: a reachable state in which Conc's guard of a `get_or_insert` holds for threads 0 and 7,
   the allocator consents for thread 0 (the step happens) and refuses thread 7 (3 threads exist) *)
Theorem C05_core_progress_example :
  exists s, CoreProofs.kreachable Table.KBdd CoreExamples.kx_terms 4 AllocExamples.ex_cfg s /\
    CoreProgress.nthreads s = 3 /\
    Core.kops Table.KBdd CoreExamples.kx_terms 4 s (Core.KGoi 7 0 [CoreExamples.KT0; CoreExamples.KT1]) <> None /\
    ~ CoreProgress.kalloc_ok AllocExamples.ex_cfg s (Core.KGoi 7 0 [CoreExamples.KT0; CoreExamples.KT1]) /\
    Core.kstep Table.KBdd CoreExamples.kx_terms 4 AllocExamples.ex_cfg s (Core.KGoi 7 0 [CoreExamples.KT0; CoreExamples.KT1]) = None /\
    Core.kops Table.KBdd CoreExamples.kx_terms 4 s (Core.KGoi 0 0 [CoreExamples.KT0; CoreExamples.KT1]) <> None /\
    CoreProgress.kalloc_ok AllocExamples.ex_cfg s (Core.KGoi 0 0 [CoreExamples.KT0; CoreExamples.KT1]) /\
    Core.kstep Table.KBdd CoreExamples.kx_terms 4 AllocExamples.ex_cfg s (Core.KGoi 0 0 [CoreExamples.KT0; CoreExamples.KT1]) <> None.
Proof. exact CoreProgressExamples.kx_progress. Qed.
Print Assumptions C05_core_progress_example.

(* BCDD: [KNot] (complement of an owned edge: a tag flip of the token, no store operation) in a run
   with every other action; the run projects to a run of Conc.v that contains the [ANot] *)
Theorem C05_core_bcdd_example :
  exists s, Core.krun Table.KBcdd ConcExamples.bc_terms 2 CoreProgressExamples.kb_cfg
              (Core.kinit CoreProgressExamples.kb_cfg 2) CoreProgressExamples.kb_sched =
            Some (s, CoreProgressExamples.kb_results, CoreProgressExamples.kb_store_results) /\
    CoreProofs.kreachable Table.KBcdd ConcExamples.bc_terms 2 CoreProgressExamples.kb_cfg s /\
    CoreProofs.KInv Table.KBcdd ConcExamples.bc_terms 2 CoreProgressExamples.kb_cfg s /\
    Core.klink_b s = true /\ Conc.cinv_b Table.KBcdd ConcExamples.bc_terms 2 (Core.kproj s) = true /\
    IndexStore.iinv_b CoreProgressExamples.kb_cfg (Core.k_i s) = true /\
    IndexStoreProofs.no_leak CoreProgressExamples.kb_store_results = true /\
    Core.kproj s = Conc.mkCst [(1%positive, Conc.mkC 1 [ConcExamples.BT false; ConcExamples.BT true] 1%N)] [(0, ConcExamples.B 1 true)] /\
    In (Conc.ANot 0 (ConcExamples.B 1 false)) (Core.kacts_list CoreProgressExamples.kb_sched CoreProgressExamples.kb_results) /\
    Conc.run Table.KBcdd ConcExamples.bc_terms 2 Conc.cempty
      (Core.kacts_list CoreProgressExamples.kb_sched CoreProgressExamples.kb_results) = Some (Core.kproj s).
Proof. exact CoreProgressExamples.kb_run. Qed.
Print Assumptions C05_core_bcdd_example.

(** ** GCTHREAD: the background-collector protocol of the index-based manager (Mgr/GcThread.v,
    notes/GCTHREAD.md): interleaving model of gc_signal / gc_state / gc_ongoing / the manager lock *)
From Coq Require Import List ZArith NArith.
From OxiVerif Require Mgr.Alloc Mgr.GcThread Mgr.GcThreadProofs Mgr.GcThreadThms Mgr.GcThreadExamples.

(* the trigger rule of this model is the one of the allocator model (which the ALLOC run compares with the real `gc_state` after `get_slot_from_shared`) *)
Theorem C05_gcthread_trigger_rule_alloc : forall c v s t l d s' o,
  Alloc.get_slot_from_shared c v s t l d = Some (s', o) ->
  Alloc.s_gc (Alloc.sh s') = GcThread.trigger_rule c (Alloc.s_gc (Alloc.sh s)) (Alloc.s_count (Alloc.sh s')).
Proof. exact GcThreadProofs.trigger_rule_alloc. Qed.
Print Assumptions C05_gcthread_trigger_rule_alloc.

(* the reset rule is the one of the allocator model's collector epilogue *)
Theorem C05_gcthread_reset_rule_alloc : forall c s t l,
  Alloc.s_gc (Alloc.sh (fst (Alloc.gc_flush c s t l))) =
  GcThread.reset_rule c (Alloc.s_gc (Alloc.sh s)) (Alloc.s_count (Alloc.sh (fst (Alloc.gc_flush c s t l)))).
Proof. exact GcThreadProofs.reset_rule_alloc. Qed.
Print Assumptions C05_gcthread_reset_rule_alloc.

(* (c) `gc_state` becomes `Triggered` iff a `get_slot_from_shared` finds the state `Init` and the count at or above `gc_hwm` *)
Theorem C05_gcthread_trigger_iff : forall c s a s', GcThread.step c s a = Some s' ->
  ((GcThread.g_gc s <> Alloc.GTriggered /\ GcThread.g_gc s' = Alloc.GTriggered) <->
   exists t d, a = GcThread.AAlloc t d /\ GcThread.g_gc s = Alloc.GInit /\ (Alloc.hwm c <= GcThread.g_cnt s + d)%Z).
Proof. exact GcThreadThms.trigger_iff. Qed.
Print Assumptions C05_gcthread_trigger_iff.

(* (c) the sleeping collector is woken exactly by that allocation or by the `Quit` of the last handle *)
Theorem C05_gcthread_wake_iff : forall c s a s', GcThread.step c s a = Some s' -> GcThread.g_cpc s = GcThread.CWaiting ->
  (GcThread.g_cpc s' = GcThread.CWoken <->
   (exists t d, a = GcThread.AAlloc t d /\ GcThread.g_gc s = Alloc.GInit /\ (Alloc.hwm c <= GcThread.g_cnt s + d)%Z) \/
   (a = GcThread.ADropBegin /\ GcThread.g_refs s = 1)).
Proof. exact GcThreadThms.wake_iff. Qed.
Print Assumptions C05_gcthread_wake_iff.

(* (c) `notify_one` while the collector is not inside `wait` is lost *)
Theorem C05_gcthread_notify_lost : forall c s t d s', GcThread.step c s (GcThread.AAlloc t d) = Some s' -> GcThread.g_cpc s <> GcThread.CWaiting ->
  GcThread.g_cpc s' = GcThread.g_cpc s.
Proof. exact GcThreadThms.notify_lost. Qed.
Print Assumptions C05_gcthread_notify_lost.

(* (b/c) from its wake-up test to the end of its epilogue the collector sees `gc_state == Triggered` *)
Theorem C05_gcthread_coll_active_triggered : forall c s, GcThreadProofs.reachable c s -> GcThread.active s = true -> GcThread.g_gc s = Alloc.GTriggered.
Proof. exact GcThreadThms.coll_active_triggered. Qed.
Print Assumptions C05_gcthread_coll_active_triggered.

(* (d) `gc_state` returns to `Init` iff the collector's epilogue finds the count below `gc_lwm` *)
Theorem C05_gcthread_reset_iff : forall c s a s', GcThread.step c s a = Some s' ->
  ((GcThread.g_gc s <> Alloc.GInit /\ GcThread.g_gc s' = Alloc.GInit) <->
   exists d, a = GcThread.CEpilogue d /\ GcThread.g_cpc s = GcThread.CEpi /\ GcThread.g_gc s = Alloc.GTriggered /\ (GcThread.g_cnt s + d < Alloc.lwm c)%Z).
Proof. exact GcThreadThms.reset_iff. Qed.
Print Assumptions C05_gcthread_reset_iff.

(* (d) from `Triggered` to `Init`: the schedule contains such an epilogue *)
Theorem C05_gcthread_resume_needs_epilogue : forall c sched s s', GcThread.run c s sched = Some s' ->
  GcThread.g_gc s = Alloc.GTriggered -> GcThread.g_gc s' = Alloc.GInit ->
  exists pre d post s1 s2, sched = pre ++ GcThread.CEpilogue d :: post /\ GcThread.run c s pre = Some s1 /\
    GcThread.step c s1 (GcThread.CEpilogue d) = Some s2 /\ GcThread.g_cpc s1 = GcThread.CEpi /\ GcThread.g_gc s1 = Alloc.GTriggered /\
    (GcThread.g_cnt s1 + d < Alloc.lwm c)%Z /\ GcThread.g_gc s2 = Alloc.GInit.
Proof. exact GcThreadThms.resume_needs_epilogue. Qed.
Print Assumptions C05_gcthread_resume_needs_epilogue.

(* (d) in `Triggered` the collector is on its way to an epilogue or the state is stuck *)
Theorem C05_gcthread_triggered_dichotomy : forall s, GcThread.g_gc s = Alloc.GTriggered -> GcThread.active s = true \/ GcThread.stuck s = true.
Proof. exact GcThreadThms.triggered_dichotomy. Qed.
Print Assumptions C05_gcthread_triggered_dichotomy.

(* (d) stuck is absorbing: `gc_state` stays `Triggered`, the collector never starts a collection again, whatever any thread does *)
Theorem C05_gcthread_stuck_forever : forall c sched s s', GcThread.stuck s = true -> GcThread.run c s sched = Some s' ->
  GcThread.stuck s' = true /\ GcThread.g_gc s' = Alloc.GTriggered /\ GcThread.g_bgcount s' = GcThread.g_bgcount s.
Proof. exact GcThreadThms.stuck_forever. Qed.
Print Assumptions C05_gcthread_stuck_forever.

(* (d) the ways into a stuck state: lost notification, epilogue at or above `gc_lwm`, quit *)
Theorem C05_gcthread_stuck_entry : forall c s a s', GcThreadProofs.Inv c s -> GcThread.step c s a = Some s' ->
  GcThread.stuck s = false -> GcThread.stuck s' = true ->
  (exists t d, a = GcThread.AAlloc t d /\ GcThread.g_gc s = Alloc.GInit /\ (Alloc.hwm c <= GcThread.g_cnt s + d)%Z /\
     (GcThread.g_cpc s <> GcThread.CWaiting \/ GcThread.g_sig s = GcThread.SQuit)) \/
  (exists d, a = GcThread.CEpilogue d /\ GcThread.g_gc s = Alloc.GTriggered /\ (Alloc.lwm c <= GcThread.g_cnt s + d)%Z) \/
  (a = GcThread.CCheck /\ GcThread.g_sig s = GcThread.SQuit) \/
  (a = GcThread.ADropBegin /\ GcThread.g_refs s = 1 /\ GcThread.g_cpc s = GcThread.CWoken).
Proof. exact GcThreadThms.stuck_entry. Qed.
Print Assumptions C05_gcthread_stuck_entry.

(* (d) OBSERVATION (outside the property texts): "automatic collection eventually runs again" is false of the code: after a sweep that ends at or above `gc_lwm` the state stays `Triggered` although the count falls to 0 and reaches `gc_hwm` again; control run next to it *)
Theorem C05_gcthread_auto_gc_resumes_refuted :
  GcThread.run GcThreadExamples.gx_cfg (GcThread.init GcThreadExamples.gx_cfg 1) GcThreadExamples.gx_sched_off = Some GcThreadExamples.gx_off_end /\
  GcThreadProofs.reachable GcThreadExamples.gx_cfg GcThreadExamples.gx_off_end /\
  (* the count was 0 < gc_lwm in between and is 195 >= gc_hwm now *)
  (exists s, GcThread.run GcThreadExamples.gx_cfg (GcThread.init GcThreadExamples.gx_cfg 1) (firstn 13 GcThreadExamples.gx_sched_off) = Some s /\ GcThread.g_cnt s = 0%Z /\
             GcThread.g_gc s = Alloc.GTriggered) /\
  GcThread.stuck GcThreadExamples.gx_off_end = true /\ GcThread.g_cpc GcThreadExamples.gx_off_end = GcThread.CWaiting /\ GcThread.g_bgcount GcThreadExamples.gx_off_end = 1%N /\
  (* for ever: whatever any thread does, `gc_state` stays `Triggered` and the collector thread
     never starts another collection *)
  (forall sched s', GcThread.run GcThreadExamples.gx_cfg GcThreadExamples.gx_off_end sched = Some s' ->
     GcThread.g_gc s' = Alloc.GTriggered /\ GcThread.g_bgcount s' = 1%N) /\
  (* the control GcThread.run: the collector is woken a second time *)
  GcThread.run GcThreadExamples.gx_cfg (GcThread.init GcThreadExamples.gx_cfg 1) GcThreadExamples.gx_sched_on = Some GcThreadExamples.gx_on_end /\ GcThread.active GcThreadExamples.gx_on_end = true.
Proof. exact GcThreadExamples.gx_auto_gc_off. Qed.
Print Assumptions C05_gcthread_auto_gc_resumes_refuted.

(* (d) OBSERVATION: a trigger while the collector is not inside `wait` (before its first `wait`, or between epilogue and `wait`) is lost for good *)
Theorem C05_gcthread_trigger_wakes_refuted :
  GcThread.run GcThreadExamples.gx_cfg (GcThread.init GcThreadExamples.gx_cfg 1) GcThreadExamples.gx_sched_lost = Some GcThreadExamples.gx_lost_end /\ GcThread.stuck GcThreadExamples.gx_lost_end = true /\
  (forall sched s', GcThread.run GcThreadExamples.gx_cfg GcThreadExamples.gx_lost_end sched = Some s' -> GcThread.g_gc s' = Alloc.GTriggered /\ GcThread.g_bgcount s' = 0%N) /\
  GcThread.run GcThreadExamples.gx_cfg (GcThread.init GcThreadExamples.gx_cfg 1) GcThreadExamples.gx_sched_lost2 = Some GcThreadExamples.gx_lost2_end /\ GcThread.stuck GcThreadExamples.gx_lost2_end = true /\
  (forall sched s', GcThread.run GcThreadExamples.gx_cfg GcThreadExamples.gx_lost2_end sched = Some s' -> GcThread.g_gc s' = Alloc.GTriggered /\ GcThread.g_bgcount s' = 1%N).
Proof. exact GcThreadExamples.gx_lost_wakeup. Qed.
Print Assumptions C05_gcthread_trigger_wakes_refuted.

(* (e) `Quit` is stored iff a handle is dropped that sees `strong_count == 2` *)
Theorem C05_gcthread_quit_sent_iff : forall c s a s', GcThread.step c s a = Some s' -> GcThread.g_sig s = GcThread.SRun ->
  (GcThread.g_sig s' = GcThread.SQuit <-> a = GcThread.ADropBegin /\ GcThread.g_refs s = 1).
Proof. exact GcThreadThms.quit_sent_iff. Qed.
Print Assumptions C05_gcthread_quit_sent_iff.

(* (e) the exact condition under which the quit is seen: the collector is inside `wait` (or notified) at the moment of the quit's `notify_one`; otherwise it is missed *)
Theorem C05_gcthread_quit_outcome : forall c s s', GcThreadProofs.Inv c s -> GcThread.step c s GcThread.ADropBegin = Some s' ->
  GcThread.g_sig s = GcThread.SRun -> GcThread.g_refs s = 1 ->
  GcThread.g_sig s' = GcThread.SQuit /\ GcThread.usable s' = 0 /\
  (GcThread.quit_seen s' = true <-> (GcThread.g_cpc s = GcThread.CWaiting \/ GcThread.g_cpc s = GcThread.CWoken)) /\
  (GcThread.quit_missed s' = true <-> ~ (GcThread.g_cpc s = GcThread.CWaiting \/ GcThread.g_cpc s = GcThread.CWoken)).
Proof. exact GcThreadThms.quit_outcome. Qed.
Print Assumptions C05_gcthread_quit_outcome.

(* (e) seen is absorbing *)
Theorem C05_gcthread_quit_seen_forever : forall c sched s s', GcThread.quit_seen s = true -> GcThread.run c s sched = Some s' ->
  GcThread.quit_seen s' = true.
Proof. exact GcThreadThms.quit_seen_forever. Qed.
Print Assumptions C05_gcthread_quit_seen_forever.

(* (e) ... and the collector's only step is the `break` *)
Theorem C05_gcthread_quit_seen_exits : forall c s, GcThread.quit_seen s = true -> GcThread.g_cpc s = GcThread.CWoken ->
  (exists s', GcThread.step c s GcThread.CCheck = Some s' /\ GcThread.g_cpc s' = GcThread.CExit) /\
  (forall a, GcThread.is_coll a = true -> a <> GcThread.CCheck -> GcThread.step c s a = None).
Proof. exact GcThreadThms.quit_seen_exits. Qed.
Print Assumptions C05_gcthread_quit_seen_exits.

(* (e) missed is absorbing: the collector never terminates *)
Theorem C05_gcthread_quit_missed_forever : forall c sched s s', GcThread.quit_missed s = true -> GcThread.run c s sched = Some s' ->
  GcThread.quit_missed s' = true /\ GcThread.g_cpc s' <> GcThread.CExit.
Proof. exact GcThreadThms.quit_missed_forever. Qed.
Print Assumptions C05_gcthread_quit_missed_forever.

(* (e) a collector inside `wait` has no step of its own *)
Theorem C05_gcthread_waiting_no_coll_step : forall c s a, GcThread.g_cpc s = GcThread.CWaiting -> GcThread.is_coll a = true -> GcThread.step c s a = None.
Proof. exact GcThreadThms.waiting_no_coll_step. Qed.
Print Assumptions C05_gcthread_waiting_no_coll_step.

(* (e) no usable handle and the collector inside `wait`: it sleeps for ever *)
Theorem C05_gcthread_asleep_forever : forall c sched s s', GcThread.usable s = 0 -> GcThread.g_cpc s = GcThread.CWaiting ->
  GcThread.run c s sched = Some s' -> GcThread.g_cpc s' = GcThread.CWaiting /\ GcThread.usable s' = 0 /\ GcThread.g_sig s' = GcThread.g_sig s.
Proof. exact GcThreadThms.asleep_forever. Qed.
Print Assumptions C05_gcthread_asleep_forever.

(* (e) OBSERVATION: the last handle dropped before the collector waits / while it collects: thread and store leak; control run *)
Theorem C05_gcthread_quit_seen_refuted :
  GcThread.run GcThreadExamples.gx_cfg (GcThread.init GcThreadExamples.gx_cfg 0) GcThreadExamples.gx_sched_quit_early = Some GcThreadExamples.gx_quit_early_end /\
  GcThread.quit_missed GcThreadExamples.gx_quit_early_end = true /\
  (forall sched s', GcThread.run GcThreadExamples.gx_cfg GcThreadExamples.gx_quit_early_end sched = Some s' ->
     GcThread.g_cpc s' = GcThread.CWaiting /\ GcThread.g_sig s' = GcThread.SQuit /\ GcThread.usable s' = 0) /\
  GcThread.run GcThreadExamples.gx_cfg (GcThread.init GcThreadExamples.gx_cfg 1) GcThreadExamples.gx_sched_quit_busy = Some GcThreadExamples.gx_quit_busy_end /\
  GcThread.quit_missed GcThreadExamples.gx_quit_busy_end = true /\
  (forall sched s', GcThread.run GcThreadExamples.gx_cfg GcThreadExamples.gx_quit_busy_end sched = Some s' ->
     GcThread.g_cpc s' = GcThread.CWaiting /\ GcThread.g_sig s' = GcThread.SQuit /\ GcThread.usable s' = 0) /\
  GcThread.run GcThreadExamples.gx_cfg (GcThread.init GcThreadExamples.gx_cfg 0) GcThreadExamples.gx_sched_quit_ok = Some GcThreadExamples.gx_quit_ok_end /\ GcThread.g_cpc GcThreadExamples.gx_quit_ok_end = GcThread.CExit.
Proof. exact GcThreadExamples.gx_missed_quit. Qed.
Print Assumptions C05_gcthread_quit_seen_refuted.

(* (e) OBSERVATION: two handles dropped concurrently both read `strong_count == 3`: `Quit` is never stored *)
Theorem C05_gcthread_drop_quit_refuted :
  GcThread.run GcThreadExamples.gx_cfg (GcThread.init GcThreadExamples.gx_cfg 0) GcThreadExamples.gx_sched_drop_race = Some GcThreadExamples.gx_drop_race_end /\
  (forall sched s', GcThread.run GcThreadExamples.gx_cfg GcThreadExamples.gx_drop_race_end sched = Some s' ->
     GcThread.g_cpc s' = GcThread.CWaiting /\ GcThread.g_sig s' = GcThread.SRun /\ GcThread.usable s' = 0).
Proof. exact GcThreadExamples.gx_drop_race. Qed.
Print Assumptions C05_gcthread_drop_quit_refuted.
