(** C06 — property theorems for the plain BDD kind (proved in DD/ApplyProofs.v,
    DD/CacheProofs.v, DD/ApplyExamples.v; models in DD/Apply.v, DD/Cache.v).

    The apply cache is any type with a lookup and an insertion such that a
    lookup after an insertion returns the inserted entry or what it returned
    before ([lossy]: entries may vanish at any time - eviction, overwriting,
    clearing, bounded capacity - but are never invented or mixed up).  The
    direct-mapped cache model satisfies this for every bucket count, entry
    capacity and hash function ([C06_dmr_lossy]). *)
From Coq Require Import List NArith PArith Bool Arith FMapPositive.
From OxiVerif Require Import DD.Table DD.TableProofs DD.Canon DD.Sem DD.Build DD.BuildProofs
  DD.Apply DD.ApplyProofs DD.Cache DD.CacheProofs DD.ApplyExamples.
Import ListNotations.

(** (a1) same table, two arbitrary correct caches (of arbitrary, possibly
    different implementations) and operand orders: the results denote the same
    function *)
Theorem C06_apply_bin_cache_transparent_sem :
  forall gt1 gt2 C1 C2 cget1 cadd1 cget2 cadd2,
  lossy cget1 cadd1 -> lossy cget2 cadd2 ->
  forall op s (c1 : C1) (c2 : C2) f g fuel1 fuel2 s1 c1' r1 s2 c2' r2,
  BddOK s -> CacheOK cget1 s c1 -> CacheOK cget2 s c2 -> ref_ok s f -> ref_ok s g ->
  S (nlevels s) <= fuel1 -> S (nlevels s) <= fuel2 ->
  apply_bin gt1 C1 cget1 cadd1 fuel1 s c1 op f g = Some (s1, c1', r1) ->
  apply_bin gt2 C2 cget2 cadd2 fuel2 s c2 op f g = Some (s2, c2', r2) ->
  forall c0, bchoice c0 -> semk s1 (S (nlevels s1)) r1 c0 = semk s2 (S (nlevels s2)) r2 c0.
Proof. exact apply_bin_cache_transparent_sem. Qed.
Print Assumptions C06_apply_bin_cache_transparent_sem.

(** (a2) in its result table the returned reference is the only reference
    with the result's meaning *)
Theorem C06_apply_bin_result_unique : forall gt C cget cadd, lossy cget cadd ->
  forall op fuel s (c : C) f g s' c' r,
  BddOK s -> CacheOK cget s c -> ref_ok s f -> ref_ok s g -> S (nlevels s) <= fuel ->
  apply_bin gt C cget cadd fuel s c op f g = Some (s', c', r) ->
  forall r0, ref_ok s' r0 ->
    (forall c0, bchoice c0 -> exists x y,
        semk s (S (nlevels s)) f c0 = Some (b2c x) /\
        semk s (S (nlevels s)) g c0 = Some (b2c y) /\
        semk s' (S (nlevels s')) r0 c0 = Some (b2c (eval_bop op x y))) ->
    r0 = r.
Proof. exact apply_bin_result_unique. Qed.
Print Assumptions C06_apply_bin_result_unique.

(** (a3) the handle is determined by operator, operands and order alone:
    repeating the operation in any later state of the table (anything may have
    been added by other operations), with any correct cache of any
    implementation, capacity and content, and any operand order, returns the
    identical reference and leaves the table unchanged *)
Theorem C06_apply_bin_history_independent :
  forall gt1 gt2 C1 C2 cget1 cadd1 cget2 cadd2,
  lossy cget1 cadd1 -> lossy cget2 cadd2 ->
  forall op s (c1 : C1) f g fuel1 s1 c1' r1,
  BddOK s -> CacheOK cget1 s c1 -> ref_ok s f -> ref_ok s g -> S (nlevels s) <= fuel1 ->
  apply_bin gt1 C1 cget1 cadd1 fuel1 s c1 op f g = Some (s1, c1', r1) ->
  forall s2 (c2 : C2) fuel2,
  BddOK s2 -> extends s1 s2 -> CacheOK cget2 s2 c2 -> S (nlevels s2) <= fuel2 ->
  exists c2', apply_bin gt2 C2 cget2 cadd2 fuel2 s2 c2 op f g = Some (s2, c2', r1).
Proof. exact apply_bin_history_independent. Qed.
Print Assumptions C06_apply_bin_history_independent.

Theorem C06_apply_not_history_independent :
  forall C1 C2 cget1 cadd1 cget2 cadd2,
  lossy cget1 cadd1 -> lossy cget2 cadd2 ->
  forall s (c1 : C1) f fuel1 s1 c1' r1,
  BddOK s -> CacheOK cget1 s c1 -> ref_ok s f -> S (nlevels s) <= fuel1 ->
  apply_not C1 cget1 cadd1 fuel1 s c1 f = Some (s1, c1', r1) ->
  forall s2 (c2 : C2) fuel2,
  BddOK s2 -> extends s1 s2 -> CacheOK cget2 s2 c2 -> S (nlevels s2) <= fuel2 ->
  exists c2', apply_not C2 cget2 cadd2 fuel2 s2 c2 f = Some (s2, c2', r1).
Proof. exact apply_not_history_independent. Qed.
Print Assumptions C06_apply_not_history_independent.

Theorem C06_apply_ite_history_independent :
  forall gt1 gt2 C1 C2 cget1 cadd1 cget2 cadd2,
  lossy cget1 cadd1 -> lossy cget2 cadd2 ->
  forall s (c1 : C1) f g h fuel1 s1 c1' r1,
  BddOK s -> CacheOK cget1 s c1 -> ref_ok s f -> ref_ok s g -> ref_ok s h ->
  S (nlevels s) <= fuel1 ->
  apply_ite gt1 C1 cget1 cadd1 fuel1 s c1 f g h = Some (s1, c1', r1) ->
  forall s2 (c2 : C2) fuel2,
  BddOK s2 -> extends s1 s2 -> CacheOK cget2 s2 c2 -> S (nlevels s2) <= fuel2 ->
  exists c2', apply_ite gt2 C2 cget2 cadd2 fuel2 s2 c2 f g h = Some (s2, c2', r1).
Proof. exact apply_ite_history_independent. Qed.
Print Assumptions C06_apply_ite_history_independent.

(** (a3) for the direct-mapped cache model: any bucket counts, entry
    capacities, hash functions, contents *)
Theorem C06_dm_history_independent : forall gt1 gt2 hash1 hash2 op s c1 f g fuel1 s1 c1' r1,
  BddOK s -> CacheOK (dmr_get hash1) s c1 -> ref_ok s f -> ref_ok s g -> S (nlevels s) <= fuel1 ->
  apply_bin gt1 dm_cache (dmr_get hash1) (dmr_add hash1) fuel1 s c1 op f g = Some (s1, c1', r1) ->
  forall s2 c2 fuel2, BddOK s2 -> extends s1 s2 -> CacheOK (dmr_get hash2) s2 c2 ->
  S (nlevels s2) <= fuel2 ->
  exists c2', apply_bin gt2 dm_cache (dmr_get hash2) (dmr_add hash2) fuel2 s2 c2 op f g
              = Some (s2, c2', r1).
Proof. exact dm_history_independent. Qed.
Print Assumptions C06_dm_history_independent.

(** (b1) direct-mapped cache: after any history of insertions and clears, a
    hit for key [k] (operator, edge operands, numeric operands) with value
    arities [ne], [nn] returns a value that was inserted under exactly [k]
    after the last clear, and no accepted insertion hit that bucket since *)
Theorem C06_dm_get_sound : forall hash nb cap ops k ne nn v,
  dm_get hash (dm_run hash (dm_init nb cap) ops) k ne nn = Some v ->
  exists pre post, ops = pre ++ DAdd k v :: post /\
    length (v_edges v) = ne /\ length (v_nums v) = nn /\
    Forall (fun o =>
      match o with
      | DClear => False
      | DAdd k2 v2 =>
        key_fits cap k2 (length (v_edges v2)) (length (v_nums v2)) = true ->
        bucket_ix hash nb k2 <> bucket_ix hash nb k
      end) post.
Proof. exact dm_get_sound. Qed.
Print Assumptions C06_dm_get_sound.

(** (b2) one step: what a lookup can see after an insertion *)
Theorem C06_dm_get_add : forall hash c k v k' ne nn v',
  dm_get hash (dm_add hash c k v) k' ne nn = Some v' ->
  (key_fits (dm_cap c) k (length (v_edges v)) (length (v_nums v)) = false /\
   dm_get hash c k' ne nn = Some v') \/
  (key_fits (dm_cap c) k (length (v_edges v)) (length (v_nums v)) = true /\
   k' = k /\ v' = v /\ ne = length (v_edges v) /\ nn = length (v_nums v)) \/
  (key_fits (dm_cap c) k (length (v_edges v)) (length (v_nums v)) = true /\
   bucket_ix hash (dm_nb c) k <> bucket_ix hash (dm_nb c) k' /\
   dm_get hash c k' ne nn = Some v').
Proof. exact dm_get_add. Qed.
Print Assumptions C06_dm_get_add.

(** (b3) an insertion into an occupied bucket evicts the other key *)
Theorem C06_dm_add_evicts : forall hash c k v k' ne nn,
  key_fits (dm_cap c) k (length (v_edges v)) (length (v_nums v)) = true ->
  bucket_ix hash (dm_nb c) k' = bucket_ix hash (dm_nb c) k -> k' <> k ->
  dm_get hash (dm_add hash c k v) k' ne nn = None.
Proof. exact dm_add_evicts. Qed.
Print Assumptions C06_dm_add_evicts.

(** (b4) the direct-mapped cache meets the assumption of the theorems above *)
Theorem C06_dmr_lossy : forall hash, lossy (dmr_get hash) (dmr_add hash).
Proof. exact dmr_lossy. Qed.
Print Assumptions C06_dmr_lossy.

(** (c) nothing memoised survives a clear (what the manager does before a
    garbage collection / reordering): no lookup hits, and the cleared cache is
    correct for every table whatsoever *)
Theorem C06_dm_get_clear : forall hash c k ne nn, dm_get hash (dm_clear c) k ne nn = None.
Proof. exact dm_get_clear. Qed.
Print Assumptions C06_dm_get_clear.

Theorem C06_dm_cacheok_clear : forall hash s c, CacheOK (dmr_get hash) s (dm_clear c).
Proof. exact dm_cacheok_clear. Qed.
Print Assumptions C06_dm_cacheok_clear.

(** correct caches stay correct when a correct entry is inserted *)
Theorem C06_dm_cacheok_add : forall hash s c code args r,
  CacheOK (dmr_get hash) s c -> entry_ok s code args r ->
  CacheOK (dmr_get hash) s (dmr_add hash c code args r).
Proof. exact dm_cacheok_add. Qed.
Print Assumptions C06_dm_cacheok_add.

(** the hypotheses are satisfiable; runs with no cache, a 1-bucket and an
    8-bucket direct-mapped cache and the unbounded cache agree *)
Theorem C06_example :
  BddOK ex_snap /\ CacheOK (dmr_get hash_op) ex_snap (dm_init 1 4) /\
  (let r0 := apply_bin gt_id acache ac_get ac_add 3 ex_snap [] OAnd (RN 3) (RN 1) in
   let r1 := apply_bin gt_id unit nc_get nc_add 3 ex_snap tt OAnd (RN 3) (RN 1) in
   let r2 := apply_bin gt_id dm_cache (dmr_get hash_op) (dmr_add hash_op) 3 ex_snap
                       (dm_init 1 4) OAnd (RN 3) (RN 1) in
   let r3 := apply_bin gt_id dm_cache (dmr_get hash_op) (dmr_add hash_op) 3 ex_snap
                       (dm_init 8 4) OAnd (RN 3) (RN 1) in
   let out {C} (r : option (snap * C * ref)) :=
     match r with Some (s, _, r) => Some (PositiveMap.elements (s_nodes s), r) | None => None end in
   out r0 = out r1 /\ out r0 = out r2 /\ out r0 = out r3 /\ out r0 <> None).
Proof. exact (conj ex_snap_bdd_ok (conj (dm_cacheok_init hash_op ex_snap 1 4) ex_apply_and_caches)). Qed.
Print Assumptions C06_example.

(** ** The other kinds: the same transparency statements for the complement-edge BDD (DD/ApplyBcdd*.v),
    the ZBDD Boolean interface (DD/ZbddBool*.v), MTBDD arithmetic (DD/ApplyMtbdd*.v) and the caches of
    quantification / substitution (DD/Quant*.v).  Re-exported here under C06 names; the proofs are those of
    Props/C02.v, Props/C10.v, Props/C04.v. *)

From OxiVerif Require Import DD.ApplyBcdd DD.ApplyBcddProofs DD.ApplyBcddIte DD.ApplyBcddEval.

Theorem C06_bcdd_apply_op_history_independent :
  forall lt1 lt2 C1 C2 cget1 cadd1 cget2 cadd2, lossyC cget1 cadd1 -> lossyC cget2 cadd2 ->
  forall o s (c1 : C1) f g fuel1 s1 c1' r1,
  BcOK s -> CacheOKC cget1 s c1 -> ref_ok s (eref f) -> ref_ok s (eref g) -> S (nlevels s) <= fuel1 ->
  capply_op lt1 C1 cget1 cadd1 fuel1 s c1 o f g = Some (s1, c1', r1) ->
  forall s2 (c2 : C2) fuel2, BcOK s2 -> extends s1 s2 -> CacheOKC cget2 s2 c2 -> S (nlevels s2) <= fuel2 ->
  exists c2', capply_op lt2 C2 cget2 cadd2 fuel2 s2 c2 o f g = Some (s2, c2', r1).
Proof. exact capply_op_history_independent. Qed.
Print Assumptions C06_bcdd_apply_op_history_independent.


Theorem C06_bcdd_apply_ite_history_independent :
  forall lt1 lt2 C1 C2 cget1 cadd1 cget2 cadd2, lossyC cget1 cadd1 -> lossyC cget2 cadd2 ->
  forall s (c1 : C1) f g h fuel1 s1 c1' r1,
  BcOK s -> CacheOKC cget1 s c1 -> ref_ok s (eref f) -> ref_ok s (eref g) -> ref_ok s (eref h) ->
  S (nlevels s) <= fuel1 ->
  capply_ite lt1 C1 cget1 cadd1 fuel1 s c1 f g h = Some (s1, c1', r1) ->
  forall s2 (c2 : C2) fuel2, BcOK s2 -> extends s1 s2 -> CacheOKC cget2 s2 c2 -> S (nlevels s2) <= fuel2 ->
  exists c2', capply_ite lt2 C2 cget2 cadd2 fuel2 s2 c2 f g h = Some (s2, c2', r1).
Proof. exact capply_ite_history_independent. Qed.
Print Assumptions C06_bcdd_apply_ite_history_independent.


From OxiVerif Require Import DD.TableExtra DD.CanonZbdd DD.FamSpec DD.FamSpecProofs DD.ZbddOps DD.ZbddOpsProofs
  DD.ZbddSubsetProofs DD.ZbddSoundProofs DD.ZbddVars DD.ZbddVarsProofs
  DD.ZbddBool DD.ZbddBoolProofs DD.ZbddXorProofs DD.ZbddIteProofs DD.ZbddEvalProofs.

Theorem C06_zbdd_result_unique : forall s s' r d, ZbddOK s -> ZbddOK s' -> extends s s' ->
  ref_ok s' r -> ref_ok s d ->
  (forall c0, choice_ok s c0 -> zview_of s' r c0 = zview_of s d c0) -> r = d.
Proof. exact zresult_unique. Qed.
Print Assumptions C06_zbdd_result_unique.


Theorem C06_zbdd_apply_op_history_independent :
  forall gt C cget cadd, zlossy C cget cadd -> forall gt2 (C2 : Type) cget2 cadd2, zlossy C2 cget2 cadd2 ->
  forall op fuel fuel2 s (c : C) (c2 : C2) f g s1 c1 r1 s2 c2' r2,
  ZbddOK s -> zchain_ok_b s = true -> ZCacheOKB C cget s c -> ZCacheOKB C2 cget2 s c2 ->
  ref_ok s f -> ref_ok s g -> S (nlevels s) <= fuel -> S (nlevels s) <= fuel2 ->
  zapply_op gt C cget cadd fuel s c op f g = Some (s1, c1, r1) ->
  zapply_op gt2 C2 cget2 cadd2 fuel2 s c2 op f g = Some (s2, c2', r2) ->
  forall c0, choice_ok s c0 -> zview_of s1 r1 c0 = zview_of s2 r2 c0.
Proof. exact zapply_op_history_independent. Qed.
Print Assumptions C06_zbdd_apply_op_history_independent.


From OxiVerif Require Import DD.ApplyMtbdd DD.ApplyMtbddBase DD.ApplyMtbddProofs DD.ApplyMtbddIte DD.ApplyMtbddRestrict
  DD.ApplyMtbddTop.

Theorem C06_mt_cache_transparent :
  forall gt1 gt2 (C1 C2 : Type) cget1 cadd1 cget2 cadd2,
  lossy cget1 cadd1 -> lossy cget2 cadd2 ->
  forall op s (c1 : C1) (c2 : C2) f g fuel1 fuel2 s1 c1' r1 s2 c2' r2,
  MtOK s -> MCacheOK cget1 s c1 -> MCacheOK cget2 s c2 -> ref_ok s f -> ref_ok s g ->
  FUEL s <= fuel1 -> FUEL s <= fuel2 ->
  mt_apply_bin gt1 C1 cget1 cadd1 fuel1 s c1 op f g = Some (s1, c1', r1) ->
  mt_apply_bin gt2 C2 cget2 cadd2 fuel2 s c2 op f g = Some (s2, c2', r2) ->
  forall c0, bchoice c0 -> semk s1 (FUEL s1) r1 c0 = semk s2 (FUEL s2) r2 c0.
Proof. exact mt_apply_bin_cache_transparent. Qed.
Print Assumptions C06_mt_cache_transparent.


Theorem C06_mt_apply_bin_history_independent :
  forall gt1 gt2 (C1 C2 : Type) cget1 cadd1 cget2 cadd2,
  lossy cget1 cadd1 -> lossy cget2 cadd2 ->
  forall op s (c1 : C1) f g fuel1 s1 c1' r1,
  MtOK s -> MCacheOK cget1 s c1 -> ref_ok s f -> ref_ok s g -> FUEL s <= fuel1 ->
  mt_apply_bin gt1 C1 cget1 cadd1 fuel1 s c1 op f g = Some (s1, c1', r1) ->
  forall s2 (c2 : C2) fuel2, MtOK s2 -> mext s1 s2 -> MCacheOK cget2 s2 c2 -> FUEL s2 <= fuel2 ->
  exists c2', mt_apply_bin gt2 C2 cget2 cadd2 fuel2 s2 c2 op f g = Some (s2, c2', r1).
Proof. exact mt_apply_bin_history_independent. Qed.
Print Assumptions C06_mt_apply_bin_history_independent.


Theorem C06_mt_ite_history_independent :
  forall (C1 C2 : Type) cget1 cadd1 cget2 cadd2,
  lossy cget1 cadd1 -> lossy cget2 cadd2 ->
  forall s (c1 : C1) f g h fuel1 s1 c1' r1,
  MtOK s -> MCacheOK cget1 s c1 -> ref_ok s f -> ref_ok s g -> ref_ok s h -> FUEL s <= fuel1 ->
  mt_apply_ite C1 cget1 cadd1 fuel1 s c1 f g h = Some (s1, c1', r1) ->
  forall s2 (c2 : C2) fuel2, MtOK s2 -> mext s1 s2 -> MCacheOK cget2 s2 c2 -> FUEL s2 <= fuel2 ->
  exists c2', mt_apply_ite C2 cget2 cadd2 fuel2 s2 c2 f g h = Some (s2, c2', r1).
Proof. exact mt_apply_ite_history_independent. Qed.
Print Assumptions C06_mt_ite_history_independent.


Theorem C06_mt_restrict_history_independent :
  forall (C1 C2 : Type) cget1 cadd1 cget2 cadd2,
  lossy cget1 cadd1 -> lossy cget2 cadd2 ->
  forall s (c1 : C1) f vars lits fuel1 s1 c1' r1,
  MtOK s -> MCacheOK cget1 s c1 -> ref_ok s f -> Cube s vars lits -> FUEL s <= fuel1 ->
  mt_restrict C1 cget1 cadd1 fuel1 s c1 f vars = Some (s1, c1', r1) ->
  forall s2 (c2 : C2) fuel2, MtOK s2 -> mext s1 s2 -> MCacheOK cget2 s2 c2 -> FUEL s2 <= fuel2 ->
  exists c2', mt_restrict C2 cget2 cadd2 fuel2 s2 c2 f vars = Some (s2, c2', r1).
Proof. exact mt_restrict_history_independent. Qed.
Print Assumptions C06_mt_restrict_history_independent.


Theorem C06_mt_result_unique :
  forall gt (C : Type) cget cadd, lossy cget cadd ->
  forall op fuel s (c : C) f g s' c' r,
  MtOK s -> MCacheOK cget s c -> ref_ok s f -> ref_ok s g -> FUEL s <= fuel ->
  mt_apply_bin gt C cget cadd fuel s c op f g = Some (s', c', r) ->
  forall r0, ref_ok s' r0 ->
    (forall c0, bchoice c0 -> exists x y,
        mvalue s f c0 x /\ mvalue s g c0 y /\ mvalue s' r0 c0 (mop_eval op x y)) ->
    r0 = r.
Proof. exact mt_apply_bin_result_unique. Qed.
Print Assumptions C06_mt_result_unique.


From OxiVerif Require Import DD.Quant DD.QuantSpecProofs DD.QuantLemmas DD.QuantProofs DD.RestrictProofs DD.SubstProofs
  DD.ApplyQuantProofs DD.QuantTopProofs DD.QuantHistory DD.QuantExamples.

Theorem C06_subst_fresh_no_entry : forall C (cget : C -> N -> list ref -> option ref) Sg s c id f r,
  QCacheOK cget Sg s c -> Sg id = None -> cget c (code_subst id) [f] = Some r -> False.
Proof. exact fresh_id_no_entry. Qed.
Print Assumptions C06_subst_fresh_no_entry.


Theorem C06_subst_register : forall C (cget : C -> N -> list ref -> option ref) Sg s c id pairs,
  QCacheOK cget Sg s c -> Sg id = None -> QCacheOK cget (sg_add Sg id pairs) s c.
Proof. exact qcacheok_register. Qed.
Print Assumptions C06_subst_register.


Theorem C06_qcacheok_empty : forall Sg s, QCacheOK ac_get Sg s [].
Proof. exact qcacheok_empty. Qed.
Print Assumptions C06_qcacheok_empty.

(** ** TDD (package TDDx): cache transparency for the three-valued apply algorithms (DD/ApplyTdd.v:
    apply_not / apply_bin::<OP> / apply_ite_rec with the cache keys of the code), per operation and for whole
    histories of the TDD manager state machine Mgr/TddHist.v: two managers in ANY two configurations (operand
    order of terminal_bin, cache implementation incl. none and the direct-mapped cache of DD/Cache.v with any
    hash / capacity, cache cleared by every collection) fed the same calls are observationally equal. *)
From Coq Require Import List NArith PArith Bool Arith FMapPositive.
From OxiVerif Require Import DD.Table DD.TableExtra DD.TableProofs DD.Build DD.BuildProofs DD.Apply DD.ApplyProofs DD.Cache DD.CacheProofs
  DD.ConfigApply DD.Tdd DD.ApplyTdd DD.ApplyTddBase DD.ApplyTddProofs DD.ApplyTddTop DD.TddAudit DD.TddAuditProofs
  Mgr.History Mgr.TddHist Mgr.TddHistProofs Mgr.TddHistSim Mgr.TddHistExamples.
Import ListNotations.

(* whatever two correct caches contain: the same value under every three-valued assignment *)
Theorem C06_tdd_apply_bin_cache_transparent :
  forall (gt1 gt2 : ref -> ref -> bool) (C1 C2 : Type) (cget1 : C1 -> N -> list ref -> option ref)
         (cadd1 : C1 -> N -> list ref -> ref -> C1) (cget2 : C2 -> N -> list ref -> option ref)
         (cadd2 : C2 -> N -> list ref -> ref -> C2),
  lossy cget1 cadd1 -> lossy cget2 cadd2 ->
  forall op s c1 c2 f g fuel1 fuel2 s1 c1' r1 s2 c2' r2,
  TdOK s -> TCacheOK cget1 s c1 -> TCacheOK cget2 s c2 -> ref_ok s f -> ref_ok s g ->
  FUEL s <= fuel1 -> FUEL s <= fuel2 ->
  td_apply_bin gt1 C1 cget1 cadd1 fuel1 s c1 op f g = Some (s1, c1', r1) ->
  td_apply_bin gt2 C2 cget2 cadd2 fuel2 s c2 op f g = Some (s2, c2', r2) ->
  forall a : assignment, semk s1 (FUEL s1) r1 (chc a) = semk s2 (FUEL s2) r2 (chc a).
Proof. exact td_apply_bin_cache_transparent. Qed.
Print Assumptions C06_tdd_apply_bin_cache_transparent.

(* repeating the operation in any later state of the table (more nodes, any correct cache of any
   implementation, any edge order) returns the identical reference and creates nothing *)
Theorem C06_tdd_apply_not_history_independent :
  forall (C1 C2 : Type) (cget1 : C1 -> N -> list ref -> option ref)
         (cadd1 : C1 -> N -> list ref -> ref -> C1) (cget2 : C2 -> N -> list ref -> option ref)
         (cadd2 : C2 -> N -> list ref -> ref -> C2),
  lossy cget1 cadd1 -> lossy cget2 cadd2 ->
  forall s c1 f fuel1 s1 c1' r1,
  TdOK s -> TCacheOK cget1 s c1 -> ref_ok s f -> FUEL s <= fuel1 ->
  td_apply_not C1 cget1 cadd1 fuel1 s c1 f = Some (s1, c1', r1) ->
  forall s2 c2 fuel2, TdOK s2 -> extends s1 s2 -> TCacheOK cget2 s2 c2 -> FUEL s2 <= fuel2 ->
  exists c2', td_apply_not C2 cget2 cadd2 fuel2 s2 c2 f = Some (s2, c2', r1).
Proof. exact td_apply_not_history_independent. Qed.
Print Assumptions C06_tdd_apply_not_history_independent.

Theorem C06_tdd_apply_bin_history_independent :
  forall (gt1 gt2 : ref -> ref -> bool) (C1 C2 : Type) (cget1 : C1 -> N -> list ref -> option ref)
         (cadd1 : C1 -> N -> list ref -> ref -> C1) (cget2 : C2 -> N -> list ref -> option ref)
         (cadd2 : C2 -> N -> list ref -> ref -> C2),
  lossy cget1 cadd1 -> lossy cget2 cadd2 ->
  forall op s c1 f g fuel1 s1 c1' r1,
  TdOK s -> TCacheOK cget1 s c1 -> ref_ok s f -> ref_ok s g -> FUEL s <= fuel1 ->
  td_apply_bin gt1 C1 cget1 cadd1 fuel1 s c1 op f g = Some (s1, c1', r1) ->
  forall s2 c2 fuel2, TdOK s2 -> extends s1 s2 -> TCacheOK cget2 s2 c2 -> FUEL s2 <= fuel2 ->
  exists c2', td_apply_bin gt2 C2 cget2 cadd2 fuel2 s2 c2 op f g = Some (s2, c2', r1).
Proof. exact td_apply_bin_history_independent. Qed.
Print Assumptions C06_tdd_apply_bin_history_independent.

Theorem C06_tdd_apply_ite_history_independent :
  forall (gt1 gt2 : ref -> ref -> bool) (C1 C2 : Type) (cget1 : C1 -> N -> list ref -> option ref)
         (cadd1 : C1 -> N -> list ref -> ref -> C1) (cget2 : C2 -> N -> list ref -> option ref)
         (cadd2 : C2 -> N -> list ref -> ref -> C2),
  lossy cget1 cadd1 -> lossy cget2 cadd2 ->
  forall s c1 f g h fuel1 s1 c1' r1,
  TdOK s -> TCacheOK cget1 s c1 -> ref_ok s f -> ref_ok s g -> ref_ok s h -> FUEL s <= fuel1 ->
  td_apply_ite gt1 C1 cget1 cadd1 fuel1 s c1 f g h = Some (s1, c1', r1) ->
  forall s2 c2 fuel2, TdOK s2 -> extends s1 s2 -> TCacheOK cget2 s2 c2 -> FUEL s2 <= fuel2 ->
  exists c2', td_apply_ite gt2 C2 cget2 cadd2 fuel2 s2 c2 f g h = Some (s2, c2', r1).
Proof. exact td_apply_ite_history_independent. Qed.
Print Assumptions C06_tdd_apply_ite_history_independent.

(* in its result table the returned reference is THE reference with the result's meaning *)
Theorem C06_tdd_apply_bin_result_unique :
  forall (gt : ref -> ref -> bool) (C : Type) (cget : C -> N -> list ref -> option ref)
         (cadd : C -> N -> list ref -> ref -> C), lossy cget cadd ->
  forall op fuel s (c : C) f g s' c' r,
  TdOK s -> TCacheOK cget s c -> ref_ok s f -> ref_ok s g -> FUEL s <= fuel ->
  td_apply_bin gt C cget cadd fuel s c op f g = Some (s', c', r) ->
  forall r0, ref_ok s' r0 ->
    (forall a : assignment, exists x y,
        tvalue s f (chc a) x /\ tvalue s g (chc a) y /\ tvalue s' r0 (chc a) (table op x y)) ->
    r0 = r.
Proof. exact td_apply_bin_result_unique. Qed.
Print Assumptions C06_tdd_apply_bin_result_unique.

Theorem C06_tdd_apply_ite_result_unique :
  forall (gt : ref -> ref -> bool) (C : Type) (cget : C -> N -> list ref -> option ref)
         (cadd : C -> N -> list ref -> ref -> C), lossy cget cadd ->
  forall fuel s (c : C) f g h s' c' r,
  TdOK s -> TCacheOK cget s c -> ref_ok s f -> ref_ok s g -> ref_ok s h -> FUEL s <= fuel ->
  td_apply_ite gt C cget cadd fuel s c f g h = Some (s', c', r) ->
  forall r0, ref_ok s' r0 ->
    (forall a : assignment, exists x y z,
        tvalue s f (chc a) x /\ tvalue s g (chc a) y /\ tvalue s h (chc a) z /\
        tvalue s' r0 (chc a) (ite3 x y z)) ->
    r0 = r.
Proof. exact td_apply_ite_result_unique. Qed.
Print Assumptions C06_tdd_apply_ite_result_unique.

(* the direct-mapped cache model (any hash): fresh and cleared caches satisfy the cache invariant *)
Theorem C06_tdd_dm_cache_ok : forall hash s,
  (forall nb cap, TCacheOK (dmr_get hash) s (dm_init nb cap)) /\
  (forall c, TCacheOK (dmr_get hash) s (dm_clear c)).
Proof. exact (fun hash s => conj (tdm_init_ok hash s) (tdm_clear_ok hash s)). Qed.
Print Assumptions C06_tdd_dm_cache_ok.

(* whole histories: one call keeps two arbitrarily configured managers related ... *)
Theorem C06_tdd_hist_step :
  forall (gt1 gt2 : ref -> ref -> bool) (C1 C2 : Type) (cget1 : C1 -> N -> list ref -> option ref)
         (cadd1 : C1 -> N -> list ref -> ref -> C1) (cget2 : C2 -> N -> list ref -> option ref)
         (cadd2 : C2 -> N -> list ref -> ref -> C2) (ce1 : C1) (ce2 : C2),
  lossy cget1 cadd1 -> lossy cget2 cadd2 ->
  (forall k a, cget1 ce1 k a = None) -> (forall k a, cget2 ce2 k a = None) ->
  forall (st1 : tstate C1) (st2 : tstate C2) o, tsim C1 C2 cget1 cget2 st1 st2 -> top_pre_b C1 st1 o = true ->
  exists st1' st2', tstep gt1 C1 cget1 cadd1 ce1 st1 o = Some st1' /\
                    tstep gt2 C2 cget2 cadd2 ce2 st2 o = Some st2' /\ tsim C1 C2 cget1 cget2 st1' st2'.
Proof. exact tsim_step. Qed.
Print Assumptions C06_tdd_hist_step.

(* ... so do call lists from fresh managers *)
Theorem C06_tdd_hist_cache_independent :
  forall (gt1 gt2 : ref -> ref -> bool) (C1 C2 : Type) (cget1 : C1 -> N -> list ref -> option ref)
         (cadd1 : C1 -> N -> list ref -> ref -> C1) (cget2 : C2 -> N -> list ref -> option ref)
         (cadd2 : C2 -> N -> list ref -> ref -> C2) (ce1 : C1) (ce2 : C2),
  lossy cget1 cadd1 -> lossy cget2 cadd2 ->
  (forall k a, cget1 ce1 k a = None) -> (forall k a, cget2 ce2 k a = None) ->
  forall n ops, tops_pre_b gt1 C1 cget1 cadd1 ce1 (tinit C1 ce1 n) ops = true ->
  exists st1 st2, trun gt1 C1 cget1 cadd1 ce1 (tinit C1 ce1 n) ops = Some st1 /\
                  trun gt2 C2 cget2 cadd2 ce2 (tinit C2 ce2 n) ops = Some st2 /\
                  tsim C1 C2 cget1 cget2 st1 st2.
Proof. exact thist_config_independent. Qed.
Print Assumptions C06_tdd_hist_cache_independent.

(* what related states share: occupied slots, the value of every slot under every assignment, the value
   tables (= the driver's digest), and the answer of slot x == slot y *)
Theorem C06_tdd_hist_observe :
  forall (C1 C2 : Type) (cget1 : C1 -> N -> list ref -> option ref) (cget2 : C2 -> N -> list ref -> option ref)
         (st1 : tstate C1) (st2 : tstate C2), tsim C1 C2 cget1 cget2 st1 st2 ->
  (forall x, occupied (t_s C1 st1) x = occupied (t_s C2 st2) x) /\
  (forall x r1 r2, tslot (t_s C1 st1) x = Some r1 -> tslot (t_s C2 st2) x = Some r2 ->
     (forall av : nat -> tri, tfun_of (t_s C1 st1) r1 av = tfun_of (t_s C2 st2) r2 av) /\
     td_vtable (t_s C1 st1) r1 = td_vtable (t_s C2 st2) r2) /\
  (forall x y e1 e1' e2 e2',
     hget (s_handles (t_s C1 st1)) x = Some e1 -> hget (s_handles (t_s C1 st1)) y = Some e1' ->
     hget (s_handles (t_s C2 st2)) x = Some e2 -> hget (s_handles (t_s C2 st2)) y = Some e2' ->
     (e1 = e1' <-> e2 = e2')).
Proof. exact tsim_observe. Qed.
Print Assumptions C06_tdd_hist_observe.

(* the direct-mapped cache with any hash, bucket count and capacity against a manager without cache *)
Theorem C06_tdd_hist_dm_cache_transparent :
  forall (gt1 gt2 : ref -> ref -> bool) (hash : dm_key -> N) nb cap n ops,
  tops_pre_b gt1 dm_cache (dmr_get hash) (dmr_add hash) (dm_init nb cap) (tinit dm_cache (dm_init nb cap) n) ops = true ->
  exists st1 st2,
    trun gt1 dm_cache (dmr_get hash) (dmr_add hash) (dm_init nb cap) (tinit dm_cache (dm_init nb cap) n) ops = Some st1 /\
    trun gt2 unit nc_get nc_add tt (tinit unit tt n) ops = Some st2 /\
    tsim dm_cache unit (dmr_get hash) nc_get st1 st2.
Proof. exact thist_dm_cache_transparent. Qed.
Print Assumptions C06_tdd_hist_dm_cache_transparent.

(* non-vacuity: the 17-call history (every constructor) run with an unbounded cache + swapping edge order and
   with no cache + no swapping: all requests well-formed, both runs defined, the final states related *)
Theorem C06_tdd_example :
  tops_pre_b gtA acache ac_get ac_add [] (tinit acache [] 2) ex_ops = true /\
  (ex_runA = Some ex_stA /\ ex_runB = Some ex_stB) /\
  tsim acache unit ac_get nc_get ex_stA ex_stB.
Proof. exact (conj ex_ops_pre (conj ex_runs_defined ex_sim)). Qed.
Print Assumptions C06_tdd_example.
