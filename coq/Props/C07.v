(** C07 — property theorems only (proved in Mgr/Conc*.v).

    Model: Mgr/Conc.v ([step] = one atomic action of one thread or of the collector on
    the shared unique table + reference counts + the multiset of edges owned by the
    threads; a schedule is ANY list of actions).  [CInv] is spelled out by
    [C07_inv_def]. *)
From Coq Require Import List NArith PArith Bool Arith Relations.
From OxiVerif Require Import DD.Table DD.TableExtra DD.TableProofs
  Mgr.Conc Mgr.ConcBase Mgr.ConcProofs Mgr.ConcSnap Mgr.ConcSem Mgr.ConcLock Mgr.ConcExamples.
Import ListNotations.

(* the invariant, clause by clause *)
Theorem C07_inv_def : forall k terms nl s,
  CInv k terms nl s <->
  (NoDup (map fst (cn s)) /\
   (forall id nd, cfind (cn s) id = Some nd -> node_pre_b k terms nl (cn s) (cl nd) (cch nd) = true) /\
   (forall i1 i2 n1 n2, cfind (cn s) i1 = Some n1 -> cfind (cn s) i2 = Some n2 ->
      cl n1 = cl n2 -> cch n1 = cch n2 -> i1 = i2) /\
   (forall o, In o (cown s) -> edge_ok_b k terms (cn s) (snd o) = true) /\
   (forall id nd, cfind (cn s) id = Some nd ->
      crc nd = N.of_nat (owners (cown s) id + parents (cn s) id))).
Proof. exact CInv_flat. Qed.
Print Assumptions C07_inv_def.

(* the executable checker decides the invariant *)
Theorem C07_inv_checker : forall k terms nl s, cinv_b k terms nl s = true <-> CInv k terms nl s.
Proof. exact cinv_b_spec. Qed.
Print Assumptions C07_inv_checker.

(* 1. every enabled action of every thread (and of the collector) preserves the invariant *)
Theorem C07_step_inv : forall k terms nl s a s' r,
  CInv k terms nl s -> step k terms nl s a = Some (s', r) -> CInv k terms nl s'.
Proof. exact step_inv. Qed.
Print Assumptions C07_step_inv.

(* 2. ... hence every interleaving (= any list of actions), from any state satisfying it,
   in particular from the empty manager *)
Theorem C07_run_inv : forall k terms nl sched s s',
  CInv k terms nl s -> run k terms nl s sched = Some s' -> CInv k terms nl s'.
Proof. exact run_inv. Qed.
Print Assumptions C07_run_inv.

Theorem C07_empty_inv : forall k terms nl, CInv k terms nl cempty.
Proof. exact CInv_empty. Qed.
Print Assumptions C07_empty_inv.

(* 3. every state satisfying the invariant is a well-formed snapshot (C03) with exact
   reference counts (C05) *)
Theorem C07_conc_wf : forall k terms nl s, CInv k terms nl s -> terms_unique_b terms = true ->
  WF (to_snap k terms nl s) /\ rc_exact_b (to_snap k terms nl s) [] = true.
Proof. exact conc_wf. Qed.
Print Assumptions C07_conc_wf.

(* 4. in every state reachable under any schedule: well-formed, counts exact, and any two
   owned edges (of any two threads) with the same denotation are the same edge *)
Theorem C07_conc_canonical : forall k terms nl sched s, terms_ok k terms ->
  run k terms nl cempty sched = Some s ->
  WF (to_snap k terms nl s) /\ rc_exact_b (to_snap k terms nl s) [] = true /\
  forall t1 t2 e1 e2, In (t1, e1) (cown s) -> In (t2, e2) (cown s) ->
  (forall c, (forall l, c l < arity k) ->
     sem_edge (to_snap k terms nl s) e1 c = sem_edge (to_snap k terms nl s) e2 c) ->
  e1 = e2.
Proof. exact conc_canonical. Qed.
Print Assumptions C07_conc_canonical.

(* the same for arbitrary valid edge values in any state satisfying the invariant *)
Theorem C07_conc_canonical_edges : forall k terms nl s, CInv k terms nl s -> terms_ok k terms ->
  forall e1 e2, edge_ok_b k terms (cn s) e1 = true -> edge_ok_b k terms (cn s) e2 = true ->
  (forall c, (forall l, c l < arity k) ->
     sem_edge (to_snap k terms nl s) e1 c = sem_edge (to_snap k terms nl s) e2 c) ->
  e1 = e2.
Proof. exact conc_canonical_edges. Qed.
Print Assumptions C07_conc_canonical_edges.

(* owned edges always have a denotation *)
Theorem C07_conc_sem_total : forall k terms nl s, CInv k terms nl s -> terms_unique_b terms = true ->
  forall tid e c, In (tid, e) (cown s) -> (forall l, c l < arity k) ->
  exists v, sem_edge (to_snap k terms nl s) e c = Some v.
Proof. exact conc_sem_total. Qed.
Print Assumptions C07_conc_sem_total.

(* 5. get_or_insert returns a stored node with exactly the requested level and children,
   owned by the caller; a new slot is used only if no such node was stored *)
Theorem C07_goi_result : forall k terms nl s tid lvl ch fr s' r, CInv k terms nl s ->
  step k terms nl s (AGoi tid lvl ch fr) = Some (s', r) ->
  exists id nd, r = Some id /\ cfind (cn s') id = Some nd /\ cl nd = lvl /\ cch nd = ch /\
                In (tid, mkEdge (RN id) false) (cown s') /\
                (find_shape (cn s) lvl ch = None -> id = fr /\ cfind (cn s) fr = None).
Proof. exact goi_result. Qed.
Print Assumptions C07_goi_result.

(* whenever a node of that shape is stored, every thread gets exactly its id, whatever
   slot the allocator proposes; the table's shape does not change *)
Theorem C07_goi_agree : forall k terms nl s tid lvl ch fr s' r id nd, CInv k terms nl s ->
  cfind (cn s) id = Some nd -> cl nd = lvl -> cch nd = ch ->
  step k terms nl s (AGoi tid lvl ch fr) = Some (s', r) ->
  r = Some id /\ cn_shape (cn s') = cn_shape (cn s).
Proof. exact goi_agree. Qed.
Print Assumptions C07_goi_agree.

Theorem C07_goi_twice : forall k terms nl s t1 t2 lvl ch f1 f2 s1 s2 r1 r2, CInv k terms nl s ->
  step k terms nl s (AGoi t1 lvl ch f1) = Some (s1, r1) ->
  step k terms nl s1 (AGoi t2 lvl ch f2) = Some (s2, r2) -> r2 = r1.
Proof. exact goi_twice. Qed.
Print Assumptions C07_goi_twice.

(* the returned handle denotes "the child selected at level lvl", the children read in the
   state BEFORE the action: the result is a function of the caller's arguments only, found
   or created, whatever the other threads do (BDD/MTBDD/TDD; BCDD; ZBDD) *)
Theorem C07_goi_sem_kary : forall k terms nl s tid lvl ch fr s' id c, CInv k terms nl s ->
  terms_unique_b terms = true -> k <> KBcdd -> k <> KZbdd ->
  step k terms nl s (AGoi tid lvl ch fr) = Some (s', Some id) ->
  sem_edge (to_snap k terms nl s') (mkEdge (RN id) false) c =
  match nth_error ch (c lvl) with
  | Some x => sem_edge (to_snap k terms nl s) x c
  | None => None
  end.
Proof. exact goi_sem_kary. Qed.
Print Assumptions C07_goi_sem_kary.

Theorem C07_goi_sem_bcdd : forall k terms nl s tid lvl ch fr s' id c, CInv k terms nl s ->
  terms_unique_b terms = true -> k = KBcdd ->
  step k terms nl s (AGoi tid lvl ch fr) = Some (s', Some id) ->
  sem_edge (to_snap k terms nl s') (mkEdge (RN id) false) c =
  match nth_error ch (c lvl) with
  | Some x => sem_edge (to_snap k terms nl s) x c
  | None => None
  end.
Proof. exact goi_sem_bcdd. Qed.
Print Assumptions C07_goi_sem_bcdd.

Theorem C07_goi_sem_zbdd : forall k terms nl s tid lvl ch fr s' id c, CInv k terms nl s ->
  terms_unique_b terms = true ->
  step k terms nl s (AGoi tid lvl ch fr) = Some (s', Some id) ->
  semz (to_snap k terms nl s') (S nl) 0 (RN id) c =
  if all_lo c 0 lvl then
    match nth_error ch (c lvl) with
    | Some x => semz (to_snap k terms nl s) (S nl) (S lvl) (eref x) c
    | None => None
    end
  else Some false.
Proof. exact goi_sem_zbdd. Qed.
Print Assumptions C07_goi_sem_zbdd.

(* 6. frame: no action removes or alters a node that is owned or has a parent *)
Theorem C07_step_frame : forall k terms nl s a s' r id nd, CInv k terms nl s ->
  step k terms nl s a = Some (s', r) ->
  cfind (cn s) id = Some nd -> crc nd <> 0%N ->
  exists nd', cfind (cn s') id = Some nd' /\ cl nd' = cl nd /\ cch nd' = cch nd.
Proof. exact step_frame. Qed.
Print Assumptions C07_step_frame.

(* the other threads and the collector never take away a handle *)
Theorem C07_step_keeps_token : forall k terms nl s a s' r tid e,
  step k terms nl s a = Some (s', r) ->
  act_tid a <> Some tid -> In (tid, e) (cown s) -> In (tid, e) (cown s').
Proof. exact step_keeps_token. Qed.
Print Assumptions C07_step_keeps_token.

(* while a thread sits on a handle, whatever the others and the collector do: the handle
   and every node reachable from it stay stored with unchanged level and children ... *)
Theorem C07_run_frame_idle : forall k terms nl sched s s' tid e, CInv k terms nl s ->
  run k terms nl s sched = Some s' ->
  (forall a, In a sched -> act_tid a <> Some tid) ->
  In (tid, e) (cown s) ->
  In (tid, e) (cown s') /\
  forall r, creach (cn s) (eref e) r ->
    creach (cn s') (eref e) r /\
    forall id nd, r = RN id -> cfind (cn s) id = Some nd ->
      exists nd', cfind (cn s') id = Some nd' /\ cl nd' = cl nd /\ cch nd' = cch nd.
Proof. exact run_frame_idle. Qed.
Print Assumptions C07_run_frame_idle.

(* ... and the handle denotes the same function *)
Theorem C07_run_sem_idle : forall k terms nl sched s s' tid e c, CInv k terms nl s ->
  run k terms nl s sched = Some s' ->
  (forall a, In a sched -> act_tid a <> Some tid) ->
  In (tid, e) (cown s) ->
  In (tid, e) (cown s') /\
  sem_edge (to_snap k terms nl s') e c = sem_edge (to_snap k terms nl s) e c.
Proof. exact run_sem_idle. Qed.
Print Assumptions C07_run_sem_idle.

(* no corruption, one action: the denotation of every edge whose target is in use (owned by
   any thread, or child of a stored node) is unchanged by any action of anybody *)
Theorem C07_step_sem_preserved : forall k terms nl s a s' r e c, CInv k terms nl s ->
  step k terms nl s a = Some (s', r) ->
  (forall id, eref e = RN id -> exists nd, cfind (cn s) id = Some nd /\ crc nd <> 0%N) ->
  sem_edge (to_snap k terms nl s') e c = sem_edge (to_snap k terms nl s) e c.
Proof. exact step_sem_preserved. Qed.
Print Assumptions C07_step_sem_preserved.

(* 7. the collector removes only nodes that nobody owns and nothing refers to ... *)
Theorem C07_gc_safe : forall k terms nl s id s' r, CInv k terms nl s ->
  step k terms nl s (AGcNode id) = Some (s', r) ->
  owners (cown s) id = 0 /\ parents (cn s) id = 0 /\
  (forall o, In o (cown s) -> eref (snd o) <> RN id) /\
  (forall j nd e, cfind (cn s) j = Some nd -> In e (cch nd) -> eref e <> RN id) /\
  cfind (cn s') id = None.
Proof. exact gc_safe. Qed.
Print Assumptions C07_gc_safe.

(* ... and can remove every such node *)
Theorem C07_gc_enabled : forall k terms nl s id nd, CInv k terms nl s -> cfind (cn s) id = Some nd ->
  (crc nd = 0%N <-> owners (cown s) id = 0 /\ parents (cn s) id = 0) /\
  (crc nd = 0%N -> exists s', step k terms nl s (AGcNode id) = Some (s', None)).
Proof. exact gc_enabled. Qed.
Print Assumptions C07_gc_enabled.

(* a release never underflows: the owner finds a positive count *)
Theorem C07_release_safe : forall k terms nl s tid e id, CInv k terms nl s ->
  In (tid, e) (cown s) -> eref e = RN id ->
  exists nd s', cfind (cn s) id = Some nd /\ crc nd <> 0%N /\
                step k terms nl s (ARelease tid e) = Some (s', None) /\
                exists nd', cfind (cn s') id = Some nd' /\ crc nd' = N.pred (crc nd).
Proof. exact release_safe. Qed.
Print Assumptions C07_release_safe.

(* cloning is enabled for the owner and for everybody who can borrow from an owned edge
   (the edge itself or a child edge of a node reachable from it) *)
Theorem C07_retain_enabled : forall k terms nl s tid o e id, In o (cown s) ->
  borrow_b (cn s) nl (snd o) e = true -> eref e = RN id ->
  exists s', step k terms nl s (ARetain tid e) = Some (s', None) /\ In (tid, e) (cown s') /\
             cn s' = rc_inc id (cn s).
Proof. exact retain_enabled. Qed.
Print Assumptions C07_retain_enabled.

(* 8. the table-only projection (what is replayed on the implementation's log) simulates
   the full model *)
Theorem C07_erase_sim : forall k terms nl s a s' r, CInv k terms nl s ->
  step k terms nl s a = Some (s', r) ->
  match erase a with
  | Some ta => step_tbl k terms nl (cn_shape (cn s)) ta = Some (cn_shape (cn s'), r)
  | None => cn_shape (cn s') = cn_shape (cn s) /\ r = None
  end.
Proof. exact erase_sim. Qed.
Print Assumptions C07_erase_sim.

Theorem C07_run_erase_sim : forall k terms nl sched s s', CInv k terms nl s ->
  run k terms nl s sched = Some s' ->
  run_tbl k terms nl (cn_shape (cn s)) (erase_list sched) = Some (cn_shape (cn s')).
Proof. exact run_erase_sim. Qed.
Print Assumptions C07_run_erase_sim.

(* 8'. the count-tracking projection (table with counts, no ownership) reproduces the
   table of the full model exactly, counts included *)
Theorem C07_erase_rc_sim : forall k terms nl s a s' r, CInv k terms nl s ->
  step k terms nl s a = Some (s', r) ->
  match erase_rc a with
  | Some ra => step_rc k terms nl (cn s) ra = Some (cn s', r)
  | None => cn s' = cn s /\ r = None
  end.
Proof. exact erase_rc_sim. Qed.
Print Assumptions C07_erase_rc_sim.

Theorem C07_run_erase_rc_sim : forall k terms nl sched s s', CInv k terms nl s ->
  run k terms nl s sched = Some s' ->
  run_rc k terms nl (cn s) (erase_rc_list sched) = Some (cn s').
Proof. exact run_erase_rc_sim. Qed.
Print Assumptions C07_run_erase_rc_sim.

(* the replay alone keeps the structural table invariant *)
Theorem C07_step_tbl_inv : forall k terms nl t a t' r,
  TInv k terms nl t -> step_tbl k terms nl t a = Some (t', r) -> TInv k terms nl t'.
Proof. exact step_tbl_inv. Qed.
Print Assumptions C07_step_tbl_inv.

(* 9. ordered locking: the wait-for graph is acyclic (abstract; instance = the acquisition
   order manager lock < gc_ongoing < cache buckets ascending < one level mutex < store mutex) *)
Theorem C07_wait_for_acyclic : forall (thread lock : Type) (before : lock -> lock -> Prop),
  (forall a b c, before a b -> before b c -> before a c) -> (forall a, ~ before a a) ->
  forall (holds waits : thread -> lock -> Prop) (ahead : thread -> thread -> Prop),
  (forall a b c, ahead a b -> ahead b c -> ahead a c) -> (forall a, ~ ahead a a) ->
  (forall t l l', waits t l -> waits t l' -> l = l') ->
  (forall t l l', waits t l -> holds t l' -> before l' l) ->
  forall t, ~ clos_trans thread (blocked_by thread lock holds waits ahead) t t.
Proof. exact wait_for_acyclic. Qed.
Print Assumptions C07_wait_for_acyclic.

Theorem C07_oxidd_no_deadlock : forall (thread : Type)
  (holds waits : thread -> olock -> Prop) (ahead : thread -> thread -> Prop),
  (forall a b c, ahead a b -> ahead b c -> ahead a c) -> (forall a, ~ ahead a a) ->
  (forall t l l', waits t l -> waits t l' -> l = l') ->
  (forall t l l', waits t l -> holds t l' -> oxidd_order l' l) ->
  forall t, ~ clos_trans thread (blocked_by thread olock holds waits ahead) t t.
Proof. exact oxidd_no_deadlock. Qed.
Print Assumptions C07_oxidd_no_deadlock.

(* non-vacuity: concrete two-thread schedules (BDD and BCDD) run to completion, the
   invariant holds by the theorem and by computation *)
Theorem C07_example_run :
  run KBdd ex_terms 2 cempty ex_sched = Some ex_final /\
  CInv KBdd ex_terms 2 ex_final /\ cinv_b KBdd ex_terms 2 ex_final = true /\
  CInv KBdd ex_terms 2 ex_mid /\ terms_ok KBdd ex_terms.
Proof. exact (conj ex_run (conj ex_final_inv (conj ex_final_inv_b (conj ex_mid_inv ex_terms_ok)))). Qed.
Print Assumptions C07_example_run.

Theorem C07_example_bcdd :
  run KBcdd bc_terms 2 cempty bc_sched = Some bc_final /\
  CInv KBcdd bc_terms 2 bc_final /\ terms_ok KBcdd bc_terms.
Proof. exact (conj bc_run (conj bc_final_inv bc_terms_ok)). Qed.
Print Assumptions C07_example_bcdd.

(* ------------------------------------------------------------------------------------------
   C07k: the apply cache's WEAK references and the collector's cache protocol
   (model Mgr/ConcCache.v: [kstep p] = one atomic action on table + counts + tokens + cache
   buckets with lock bits + collector phase; [good] = the code's protocol; proofs in
   Mgr/ConcCacheProofs.v, ConcCacheThms.v, ConcCacheLog.v, ConcCacheExamples.v)
   ------------------------------------------------------------------------------------------ *)
From OxiVerif Require Import Mgr.ConcCache Mgr.ConcCacheProofs Mgr.ConcCacheThms Mgr.ConcCacheLog
  Mgr.ConcCacheExamples.

(* the invariant, clause by clause: CInv + NO DANGLING WEAK EDGE in any bucket + buckets held by
   the collector are empty, locked and free of workers + one worker per bucket + exact lock bits *)
Theorem C07_cache_inv_def : forall k terms nl s,
  KInv k terms nl s <->
  (CInv k terms nl (kc s) /\
   (forall b bk c e, nth_error (kb s) b = Some bk -> b_ent bk = Some c -> In e (ce_edges c) ->
      edge_ok_b k terms (cn (kc s)) e = true) /\
   (forall b bk, nth_error (kb s) b = Some bk ->
      gc_claimed_b (kph s) (knext s) (length (kb s)) b = true ->
      b_ent bk = None /\ b_bit bk = true /\ ~ In b (map snd (kwk s))) /\
   NoDup (map snd (kwk s)) /\
   (forall tid b, In (tid, b) (kwk s) -> exists bk, nth_error (kb s) b = Some bk /\ b_bit bk = true) /\
   (forall b bk, nth_error (kb s) b = Some bk -> b_bit bk = true ->
      gc_claimed_b (kph s) (knext s) (length (kb s)) b = true \/ In b (map snd (kwk s))) /\
   knext s <= length (kb s)).
Proof. exact KInv_flat. Qed.
Print Assumptions C07_cache_inv_def.

Theorem C07_cache_init_inv : forall k terms nl nb, KInv k terms nl (kinit nb).
Proof. exact KInv_init. Qed.
Print Assumptions C07_cache_init_inv.

(* every enabled action of every thread (table, counts, cache try_lock / set / get / unlock) and
   of the collector (begin, lock+clear a bucket, sweep one node, unlock a bucket, end) preserves
   the invariant *)
Theorem C07_cache_step_inv : forall k terms nl s a s' r,
  KInv k terms nl s -> kstep k terms nl good s a = Some (s', r) -> KInv k terms nl s'.
Proof. exact kstep_inv. Qed.
Print Assumptions C07_cache_step_inv.

(* ... hence every schedule *)
Theorem C07_cache_run_inv : forall k terms nl sched s s',
  KInv k terms nl s -> krun k terms nl good s sched = Some s' -> KInv k terms nl s'.
Proof. exact krun_inv. Qed.
Print Assumptions C07_cache_run_inv.

Theorem C07_cache_reachable_inv : forall k terms nl nb sched s,
  krun k terms nl good (kinit nb) sched = Some s -> KInv k terms nl s.
Proof. exact kreachable_inv. Qed.
Print Assumptions C07_cache_reachable_inv.

(* the executable checkers find no dangling entry, in particular none in an unlocked bucket *)
Theorem C07_cache_no_dangling : forall k terms nl s, KInv k terms nl s -> no_dangling_b k terms s = true.
Proof. exact no_dangling. Qed.
Print Assumptions C07_cache_no_dangling.

Theorem C07_cache_no_dangling_unlocked : forall k terms nl s,
  KInv k terms nl s -> dangling_unlocked_b k terms s = false.
Proof. exact no_dangling_unlocked. Qed.
Print Assumptions C07_cache_no_dangling_unlocked.

(* a hit returns the value edges of the matching entry; each is valid, the thread owns a token
   for it, its node is stored with a positive count; the invariant still holds *)
Theorem C07_cache_hit_valid : forall k terms nl s tid b op args nums s' vals vnums, KInv k terms nl s ->
  kstep k terms nl good s (CGet tid b op args nums) = Some (s', KRHit vals vnums) ->
  exists c, kent s b = Some c /\ key_match op args nums c = true /\
    vals = ce_vals c /\ vnums = ce_vnums c /\
    (forall e, In e vals -> edge_ok_b k terms (cn (kc s')) e = true) /\
    (forall e id, In e vals -> eref e = RN id ->
       In (tid, e) (cown (kc s')) /\ exists nd, cfind (cn (kc s')) id = Some nd /\ crc nd <> 0%N) /\
    KInv k terms nl s'.
Proof. exact cache_hit_valid. Qed.
Print Assumptions C07_cache_hit_valid.

(* whenever the collector removes a node: sweep phase, no worker inside any bucket, every bucket
   empty and locked; the node has no owner, no parent and no cache entry names it *)
Theorem C07_cache_gc_node_cache_empty : forall k terms nl s id s' r, KInv k terms nl s ->
  kstep k terms nl good s (KBase (AGcNode id)) = Some (s', r) ->
  kph s = GSweep /\ kwk s = [] /\
  forall b bk, nth_error (kb s) b = Some bk -> b_ent bk = None /\ b_bit bk = true.
Proof. exact gc_node_cache_empty. Qed.
Print Assumptions C07_cache_gc_node_cache_empty.

Theorem C07_cache_gc_node_safe : forall k terms nl s id s' r, KInv k terms nl s ->
  kstep k terms nl good s (KBase (AGcNode id)) = Some (s', r) ->
  owners (cown (kc s)) id = 0 /\ parents (cn (kc s)) id = 0 /\
  forall b c e, kent s b = Some c -> In e (ce_edges c) -> eref e <> RN id.
Proof. exact gc_node_safe. Qed.
Print Assumptions C07_cache_gc_node_safe.

(* no action of a thread removes or alters a stored node, whatever its count (weak edges may point
   to nodes with count 0) *)
Theorem C07_cache_step_keeps_shape : forall k terms nl s a s' r id nd,
  step k terms nl s a = Some (s', r) -> is_gc_act a = false -> cfind (cn s) id = Some nd ->
  exists nd', cfind (cn s') id = Some nd' /\ cl nd' = cl nd /\ cch nd' = cch nd.
Proof. exact step_keeps_shape. Qed.
Print Assumptions C07_cache_step_keeps_shape.

(* an entry changes only by an insertion into its bucket or the collector's clear (any protocol) *)
Theorem C07_cache_entry_cases : forall k terms nl p s a s' r b,
  kstep k terms nl p s a = Some (s', r) ->
  kent s' b = kent s b \/
  (exists tid c, a = CAdd tid b c /\ kent s' b = Some c) \/
  (a = GcLockBucket b /\ kent s' b = None).
Proof. exact kstep_ent_cases. Qed.
Print Assumptions C07_cache_entry_cases.

(* as long as an entry is there, all its operand and value edges denote what they denoted *)
Theorem C07_cache_entry_sem : forall k terms nl sched s s' b c c', KInv k terms nl s ->
  krun k terms nl good s sched = Some s' ->
  (forall a, In a sched -> forall tid c0, a <> CAdd tid b c0) ->
  kent s b = Some c -> kent s' b = Some c' ->
  c' = c /\ forall e cfg, In e (ce_edges c) ->
     sem_edge (to_snap k terms nl (kc s')) e cfg = sem_edge (to_snap k terms nl (kc s)) e cfg.
Proof. exact krun_entry_sem. Qed.
Print Assumptions C07_cache_entry_sem.

(* a hit yields the memoised function: the entry written by ANY thread, after ANY schedule of all
   threads and the collector without another insertion into the bucket *)
Theorem C07_cache_hit_memo : forall k terms nl s0 tid0 b c s1 r0 sched s2 tid op args nums s3 vals vnums,
  KInv k terms nl s0 -> kstep k terms nl good s0 (CAdd tid0 b c) = Some (s1, r0) ->
  krun k terms nl good s1 sched = Some s2 ->
  (forall a, In a sched -> forall t c0, a <> CAdd t b c0) ->
  kstep k terms nl good s2 (CGet tid b op args nums) = Some (s3, KRHit vals vnums) ->
  op = ce_op c /\ args = ce_args c /\ vals = ce_vals c /\ vnums = ce_vnums c /\
  (forall e, In e vals -> edge_ok_b k terms (cn (kc s3)) e = true) /\
  forall e cfg, In e (ce_edges c) ->
    sem_edge (to_snap k terms nl (kc s3)) e cfg = sem_edge (to_snap k terms nl (kc s1)) e cfg.
Proof. exact cache_hit_memo. Qed.
Print Assumptions C07_cache_hit_memo.

(* tie: the log-level replay [lstep] (what ocaml/c07_main.ml runs on the hooks' event log)
   accepts the projection of every behaviour of the model ... *)
Theorem C07_cache_log_sim : forall k terms nl s l a s' r, KInv k terms nl s -> labs s l ->
  kstep k terms nl good s a = Some (s', r) ->
  match kerase s a r with
  | Some la => exists l', lstep k terms nl l la = Some l' /\ labs s' l'
  | None => labs s' l
  end.
Proof. exact ksim. Qed.
Print Assumptions C07_cache_log_sim.

Theorem C07_cache_trace_sim : forall k terms nl sched s l s' log, KInv k terms nl s -> labs s l ->
  ktrace k terms nl s sched = Some (s', log) ->
  exists l', lrun k terms nl l log = Some l' /\ labs s' l'.
Proof. exact ktrace_sim. Qed.
Print Assumptions C07_cache_trace_sim.

Theorem C07_cache_labs_of_state : forall s, labs s (labs_unknown s).
Proof. exact labs_of_state. Qed.
Print Assumptions C07_cache_labs_of_state.

(* ... and every log it accepts keeps all determined entries free of dangling edges and the
   buckets held by the collector empty *)
Theorem C07_cache_log_inv : forall k terms nl l a l',
  LInv k terms nl l -> lstep k terms nl l a = Some l' -> LInv k terms nl l'.
Proof. exact lstep_inv. Qed.
Print Assumptions C07_cache_log_inv.

Theorem C07_cache_log_run_inv : forall k terms nl log l l',
  LInv k terms nl l -> lrun k terms nl l log = Some l' -> LInv k terms nl l'.
Proof. exact lrun_inv. Qed.
Print Assumptions C07_cache_log_run_inv.

Theorem C07_cache_log_start : forall k terms nl t nb,
  TInv k terms nl t -> LInv k terms nl (mkL t (repeat LUnknown nb) GIdle 0).
Proof. exact LInv_start. Qed.
Print Assumptions C07_cache_log_start.

Theorem C07_cache_log_hit_no_dangling : forall k terms nl l b a v l' e,
  lstep k terms nl l (LHit b a v) = Some l' -> In e (a ++ v) -> edge_ok_b k terms (lt l) e = true.
Proof. exact lhit_no_dangling. Qed.
Print Assumptions C07_cache_log_hit_no_dangling.

(* REFUTATIONS (computed witnesses).  pre_gc leaves empty buckets unlocked: a schedule reaches a
   state with a dangling entry in an unlocked bucket; the next get returns the dangling edge and
   CInv is violated; the schedule is not a behaviour of the code's protocol *)
Theorem C07_cache_refute_skip_empty :
  krun KBdd ex_terms 2 proto_skip_empty (kinit 2) skip_sched = Some skip_final /\
  dangling_unlocked_b KBdd ex_terms skip_final = true /\
  no_dangling_b KBdd ex_terms skip_final = false.
Proof. exact skip_empty_dangling. Qed.
Print Assumptions C07_cache_refute_skip_empty.

Theorem C07_cache_refute_skip_empty_hit :
  exists s, krun KBdd ex_terms 2 proto_skip_empty skip_final [CTryLock 1 1; CGet 1 1 7 [E 1; T1] []] = Some s /\
            In (1, E 1) (cown (kc s)) /\ cfind (cn (kc s)) 1%positive = None /\
            cinv_b KBdd ex_terms 2 (kc s) = false.
Proof. exact skip_empty_hit_corrupts. Qed.
Print Assumptions C07_cache_refute_skip_empty_hit.

Theorem C07_cache_skip_sched_impossible : krun KBdd ex_terms 2 good (kinit 2) skip_sched = None.
Proof. exact skip_sched_impossible. Qed.
Print Assumptions C07_cache_skip_sched_impossible.

(* a lock() that does not look at the swapped value: collector and worker both hold the bucket *)
Theorem C07_cache_refute_blind_lock :
  krun KBdd ex_terms 2 proto_blind_lock (kinit 1) blind_sched = Some blind_final /\
  dangling_unlocked_b KBdd ex_terms blind_final = true /\
  no_dangling_b KBdd ex_terms blind_final = false.
Proof. exact blind_lock_dangling. Qed.
Print Assumptions C07_cache_refute_blind_lock.

Theorem C07_cache_refute_blind_lock_hit :
  exists s, krun KBdd ex_terms 2 proto_blind_lock blind_final [CTryLock 1 0; CGet 1 0 7 [E 1; T1] []] = Some s /\
            In (1, E 1) (cown (kc s)) /\ cfind (cn (kc s)) 1%positive = None /\
            cinv_b KBdd ex_terms 2 (kc s) = false.
Proof. exact blind_lock_hit_corrupts. Qed.
Print Assumptions C07_cache_refute_blind_lock_hit.

Theorem C07_cache_blind_sched_impossible : krun KBdd ex_terms 2 good (kinit 1) blind_sched = None.
Proof. exact blind_sched_impossible. Qed.
Print Assumptions C07_cache_blind_sched_impossible.

Theorem C07_cache_broken_logs_rejected :
  lrun KBdd ex_terms 2 (labs_unknown (kinit 2))
    [ LTbl (TGoi 1 [T1; T0] 1); LPreGc 2; LSweep ] = None /\
  lrun KBdd ex_terms 2 (labs_unknown (kinit 1))
    [ LTbl (TGoi 1 [T1; T0] 1); LPreGc 1; LLock 0; LAdd 0 [E 1; T1] [E 1] ] = None.
Proof. exact broken_logs_rejected. Qed.
Print Assumptions C07_cache_broken_logs_rejected.

(* non-vacuity: a schedule of the code's protocol (insert, hit by another thread, a full
   collection with busy / miss lookups alongside) runs to completion; the intermediate state
   with an occupied bucket satisfies the invariant; the projected log is accepted *)
Theorem C07_cache_example :
  krun KBdd ex_terms 2 good (kinit 2) ok_sched = Some ok_final /\
  krun KBdd ex_terms 2 good (kinit 2) (firstn 7 ok_sched) = Some ok_mid /\
  KInv KBdd ex_terms 2 ok_mid /\
  (no_dangling_b KBdd ex_terms ok_mid = true /\ dangling_unlocked_b KBdd ex_terms ok_mid = false /\
   cinv_b KBdd ex_terms 2 (kc ok_mid) = true).
Proof. exact (conj ok_run (conj ok_mid_run (conj ok_mid_inv ok_mid_checks))). Qed.
Print Assumptions C07_cache_example.

(* the compressed log (runs of consecutive buckets locked / unlocked by the collector are one
   line of the harness' log): the compressed replay IS the plain replay of the expanded log, hence
   accepts only logs that keep the log-level invariant *)
Theorem C07_cache_clog_expand : forall k terms nl log l, (forall a, In a log -> cwf a) ->
  clrun k terms nl l log = lrun k terms nl l (flat_map cexpand log).
Proof. exact clrun_expand. Qed.
Print Assumptions C07_cache_clog_expand.

Theorem C07_cache_clog_inv : forall k terms nl log l l',
  LInv k terms nl l -> clrun k terms nl l log = Some l' -> LInv k terms nl l'.
Proof. exact clrun_inv. Qed.
Print Assumptions C07_cache_clog_inv.

(* ------------------------------------------------------------------------------------------ *)
(* C07m -- reference-counted TERMINALS (MTBDD: DynamicTerminalManager) next to the apply cache
   and the collector.  Model: Mgr/ConcTerm.v ([xstep late] = one atomic action of one holder of
   counted edges (threads, handles, stored inner nodes) or of the collector on the terminal
   table keyed by value + the counted-edge tokens + the cache buckets with the terminal ids of
   their WEAK operand / value edges + the collector's phase; [late = false] = the code: the
   terminal collection [XGcTerm] is enabled only between `pre_gc` and `post_gc`; a schedule is
   ANY list of actions). *)
From OxiVerif Require Import Mgr.ConcTerm Mgr.ConcTermProofs Mgr.ConcTermThms Mgr.ConcTermExamples.

(* the invariant, clause by clause: ids and values pairwise distinct (hash consing), the free
   chain disjoint from the table, stored count = number of counted edges, every counted edge
   and EVERY weak edge of EVERY cache bucket points to a stored terminal, the buckets the
   collector holds are empty and carry its lock *)
Theorem C07_term_inv_def : forall s,
  XInv s <->
  (NoDup (map fst (ct_tt s)) /\
   NoDup (map (fun p => tn_val (snd p)) (ct_tt s)) /\
   NoDup (ct_free s) /\
   (forall x, In x (ct_free s) -> tfind (ct_tt s) x = None) /\
   (forall x nd, tfind (ct_tt s) x = Some nd -> N.to_nat (tn_rc nd) = xowners (ct_own s) x) /\
   (forall o, In o (ct_own s) -> stored_b (ct_tt s) (snd o) = true) /\
   (forall b bk e x, nth_error (ct_b s) b = Some bk -> tb_ent bk = Some e ->
                     In x (te_args e ++ te_vals e) -> stored_b (ct_tt s) x = true) /\
   (forall b bk, nth_error (ct_b s) b = Some bk -> claimed_b (ct_ph s) (ct_next s) b = true ->
                 tb_ent bk = None /\ tb_lock bk = LCollector)).
Proof. exact XInv_flat. Qed.
Print Assumptions C07_term_inv_def.

(* the executable checker decides the invariant *)
Theorem C07_term_inv_checker : forall s, tinv_b s = true <-> XInv s.
Proof. intros s; split; [apply tinv_b_sound | apply tinv_b_complete]. Qed.
Print Assumptions C07_term_inv_checker.

(* (a) every action of every holder and of the collector preserves the invariant, hence every
   interleaving of get_terminal / retain / drop / move / cache add / cache lookup / collector
   steps, from the empty manager with any terminal capacity and any number of buckets *)
Theorem C07_term_step_inv : forall s a s' r, XInv s -> xstep false s a = Some (s', r) -> XInv s'.
Proof. exact xstep_inv. Qed.
Print Assumptions C07_term_step_inv.

Theorem C07_term_run_inv : forall sched s s', XInv s -> xrun false s sched = Some s' -> XInv s'.
Proof. exact xrun_inv. Qed.
Print Assumptions C07_term_run_inv.

Theorem C07_term_init_inv : forall cap nb, XInv (ctinit cap nb).
Proof. exact ctinit_inv. Qed.
Print Assumptions C07_term_init_inv.

Theorem C07_term_reachable_inv : forall cap nb s,
  (exists sched, xrun false (ctinit cap nb) sched = Some s) -> XInv s.
Proof. exact xreachable_inv. Qed.
Print Assumptions C07_term_reachable_inv.

(* no weak edge to a terminal dangles, the terminal table is duplicate free, the counts are exact *)
Theorem C07_term_reachable_checks : forall cap nb s,
  (exists sched, xrun false (ctinit cap nb) sched = Some s) ->
  xno_dangling_b s = true /\ xterms_unique_b s = true /\ counts_exact_b s = true.
Proof. exact xreachable_checks. Qed.
Print Assumptions C07_term_reachable_checks.

(* a cache hit returns the entry's value edges: stored terminals carrying the value they carried
   before the hit, with a positive count, owned by the thread; the invariant is kept *)
Theorem C07_term_hit_valid : forall s tid b args s' vals,
  XInv s -> xstep false s (XLookup tid b args) = Some (s', XRhit vals) ->
  XInv s' /\
  (exists bk e, nth_error (ct_b s) b = Some bk /\ tb_lock bk = LWorker tid /\ tb_ent bk = Some e /\
                args = te_args e /\ vals = te_vals e) /\
  (forall x, In x vals ->
     In (tid, x) (ct_own s') /\
     exists nd nd', tfind (ct_tt s) x = Some nd /\ tfind (ct_tt s') x = Some nd' /\
                    tn_val nd' = tn_val nd /\ (0 < tn_rc nd')%N).
Proof. exact xhit_valid. Qed.
Print Assumptions C07_term_hit_valid.

(* whenever the collector frees a terminal: phase = sweep (between pre_gc and post_gc), EVERY
   bucket is empty and held by the collector, nobody owns a counted edge to it *)
Theorem C07_term_gc_safe : forall s x s',
  XInv s -> xstep false s (XGcTerm x) = Some (s', XRfreed) ->
  ct_ph s = PSweep /\
  (forall b bk, nth_error (ct_b s) b = Some bk -> tb_ent bk = None /\ tb_lock bk = LCollector) /\
  xowners (ct_own s) x = 0 /\
  (forall o, In o (ct_own s) -> snd o <> x) /\
  XInv s' /\ tfind (ct_tt s') x = None /\ In x (ct_free s').
Proof. exact xgc_term_safe. Qed.
Print Assumptions C07_term_gc_safe.

Theorem C07_term_gc_keeps_owned : forall s x s' r y,
  XInv s -> xstep false s (XGcTerm x) = Some (s', r) -> 0 < xowners (ct_own s) y ->
  tfind (ct_tt s') y = tfind (ct_tt s) y.
Proof. exact xgc_term_keeps_owned. Qed.
Print Assumptions C07_term_gc_keeps_owned.

(* no action removes or re-values a terminal that a cache entry names or somebody owns *)
Theorem C07_term_value_stable : forall s a s' r x nd,
  XInv s -> xstep false s a = Some (s', r) -> tfind (ct_tt s) x = Some nd ->
  (exists b bk e, nth_error (ct_b s) b = Some bk /\ tb_ent bk = Some e /\ In x (te_args e ++ te_vals e))
  \/ 0 < xowners (ct_own s) x ->
  exists nd', tfind (ct_tt s') x = Some nd' /\ tn_val nd' = tn_val nd.
Proof. exact xstep_value_stable. Qed.
Print Assumptions C07_term_value_stable.

(* an entry changes only by an insertion into its bucket or the collector's clear (both variants) *)
Theorem C07_term_entry_cases : forall late s a s' r b bk,
  xstep late s a = Some (s', r) -> nth_error (ct_b s) b = Some bk ->
  exists bk', nth_error (ct_b s') b = Some bk' /\
    (tb_ent bk' = tb_ent bk \/ (exists tid e, a = XAdd tid b e) \/ a = XGcLockBucket b).
Proof. exact xstep_entry_cases. Qed.
Print Assumptions C07_term_entry_cases.

(* as long as an entry is neither overwritten nor cleared -- under every schedule -- it stays and
   every terminal it names stays stored with its value; a lookup of the memoised key by any
   thread is then a hit returning exactly the memoised value edges with the memoised values *)
Theorem C07_term_entry_memo : forall sched s s' b bk e,
  XInv s -> nth_error (ct_b s) b = Some bk -> tb_ent bk = Some e ->
  Forall (fun a => match a with XAdd _ b' _ => b' <> b | XGcLockBucket b' => b' <> b | _ => True end) sched ->
  xrun false s sched = Some s' ->
  XInv s' /\
  (exists bk', nth_error (ct_b s') b = Some bk' /\ tb_ent bk' = Some e) /\
  (forall x, In x (te_args e ++ te_vals e) ->
     exists nd nd', tfind (ct_tt s) x = Some nd /\ tfind (ct_tt s') x = Some nd' /\ tn_val nd' = tn_val nd).
Proof. exact xrun_entry_memo. Qed.
Print Assumptions C07_term_entry_memo.

Theorem C07_term_hit_memo : forall sched s s1 b bk e tid s2 r,
  XInv s -> nth_error (ct_b s) b = Some bk -> tb_ent bk = Some e ->
  Forall (fun a => match a with XAdd _ b' _ => b' <> b | XGcLockBucket b' => b' <> b | _ => True end) sched ->
  xrun false s sched = Some s1 ->
  xstep false s1 (XLookup tid b (te_args e)) = Some (s2, r) ->
  r = XRhit (te_vals e) /\
  (forall x, In x (te_vals e) ->
     exists nd nd', tfind (ct_tt s) x = Some nd /\ tfind (ct_tt s2) x = Some nd' /\ tn_val nd' = tn_val nd).
Proof. exact xhit_memo. Qed.
Print Assumptions C07_term_hit_memo.

(* the end-state audit of ocaml/c07_main.ml: the lifted snapshot satisfies the invariant iff the
   listed terminals have pairwise distinct ids and values and every handle / child edge names one *)
Theorem C07_term_lift_inv : forall terms refs nb,
  NoDup (map fst terms) -> NoDup (map snd terms) ->
  (forall o, In o refs -> In (snd o) (map fst terms)) ->
  XInv (lift_terms terms refs nb).
Proof. exact lift_terms_inv. Qed.
Print Assumptions C07_term_lift_inv.

(* non-vacuity: insertion of an entry with a terminal operand and a terminal value, hit by
   another thread, both results dropped, a complete collection (busy lookup, the terminal freed
   during the sweep, its slot reused by a new constant); the state with the occupied bucket
   satisfies the invariant and names terminal 0 *)
Theorem C07_term_example :
  xrun false (ctinit 4 2) tok_sched = Some tok_final /\
  xrun false (ctinit 4 2) (firstn 8 tok_sched) = Some tok_mid /\
  XInv tok_mid /\
  (exists b bk e, nth_error (ct_b tok_mid) b = Some bk /\ tb_ent bk = Some e /\ In 0%N (te_args e ++ te_vals e)) /\
  option_map snd (xrun_results false (ctinit 4 2) tok_sched) =
  Some [ XRterm 0; XRterm 1; XRunit; XRunit; XRunit; XRunit; XRhit [0%N]; XRunit; XRunit; XRunit;
         XRunit; XRunit; XRbusy; XRunit; XRunit; XRfreed; XRkept; XRterm 0;
         XRunit; XRunit; XRunit; XRunit ].
Proof. exact (conj tok_run (conj tok_mid_run (conj tok_mid_inv (conj tok_mid_named tok_results)))). Qed.
Print Assumptions C07_term_example.

(* (b) REFUTED by a computed schedule: `terminal_manager.gc()` AFTER `post_gc` ([xstep true]).
   post_gc has unlocked the bucket; an operation inserts an entry whose value is a fresh terminal
   and drops its result; the late terminal collection frees it: a dangling weak edge in an
   UNLOCKED bucket while no collection runs ... *)
Theorem C07_term_refute_late_gc :
  xrun true (ctinit 2 1) late_sched = Some late_bad /\
  xno_dangling_b late_bad = false /\ tfind (ct_tt late_bad) 0 = None /\ ct_ph late_bad = PIdle /\
  nth_error (ct_b late_bad) 0 = Some (mkTB (Some key_res) LFree) /\ tinv_b late_bad = false.
Proof. exact (conj late_run late_dangling). Qed.
Print Assumptions C07_term_refute_late_gc.

(* ... the next lookup of the memoised key is a hit that hands out the freed slot (a counted
   edge to a terminal that is not stored) ... *)
Theorem C07_term_refute_late_gc_hit :
  exists s, xrun_results true late_bad [ XTryLock 1 0; XLookup 1 0 [1%N] ] = Some (s, [ XRunit; XRhit [0%N] ]) /\
            tfind (ct_tt s) 0 = None /\ In (1, 0%N) (ct_own s) /\ counts_exact_b s = false.
Proof. exact late_hit_dangling. Qed.
Print Assumptions C07_term_refute_late_gc_hit.

(* ... or, once another thread has created a new constant in the reused slot, a terminal carrying
   9 where 7 was memoised: a wrong result *)
Theorem C07_term_refute_late_gc_wrong_value :
  exists s nd, xrun_results true late_bad [ XGet 2 9; XTryLock 1 0; XLookup 1 0 [1%N] ]
               = Some (s, [ XRterm 0; XRunit; XRhit [0%N] ]) /\
            tfind (ct_tt s) 0 = Some nd /\ tn_val nd = 9%N.
Proof. exact late_hit_wrong_value. Qed.
Print Assumptions C07_term_refute_late_gc_wrong_value.

(* the schedule is not a behaviour of the code's protocol; with the terminal collection where the
   code performs it the insertion finds its bucket busy *)
Theorem C07_term_late_sched_impossible :
  xrun false (ctinit 2 1) late_sched = None /\
  xrun false (ctinit 2 1) good_order_sched = None /\
  option_map snd (xrun_results false (ctinit 2 1) (firstn 6 good_order_sched)) =
  Some [ XRunit; XRunit; XRunit; XRterm 0; XRterm 1; XRbusy ].
Proof. exact (conj late_sched_impossible good_order_add_refused). Qed.
Print Assumptions C07_term_late_sched_impossible.

(* ------------------------------------------------------------------------------------------ *)
(* C07t -- trace replay for the dynamic terminal manager.  Model: Mgr/ConcTermLog.v ([ystep] = the
   projection of [xstep false] to what the terminal manager hooks of /repo log: terminal table
   id |-> (value hash, count), free chain, collector phase, reference count increments owed per
   thread after a `found` / cache hit / iterator item; the ownership tokens, holders and cache
   buckets of ConcTerm.v are erased).  [xlabs s a r] = the log of action [a] with result [r],
   [xtrace] = the log of a schedule; the driver ocaml/c07_main.ml runs the extracted [ystep] on
   the logged events of the mtbdd / mtbddf cases (inside parallel blocks: C07, outside: C05). *)
From OxiVerif Require Import Mgr.ConcTermLog Mgr.ConcTermLogProofs.

(* the replay accepts the log of every action of every holder and of the collector, in every
   state that satisfies the invariant, and ends in the projection of the model's next state ... *)
Theorem C07_term_log_sim : forall s a s' r, XInv s -> xstep false s a = Some (s', r) ->
  yrun (yproj s) (xlabs s a r) = Some (yproj s').
Proof. exact ysim. Qed.
Print Assumptions C07_term_log_sim.

(* ... hence the log of every schedule ... *)
Theorem C07_term_log_trace_sim : forall sched s s' log, XInv s -> xtrace s sched = Some (s', log) ->
  yrun (yproj s) log = Some (yproj s').
Proof. exact ytrace_sim. Qed.
Print Assumptions C07_term_log_trace_sim.

(* ... from a new manager of any terminal capacity and any number of cache buckets: the replay,
   started in [yinit cap], accepts the log of every behaviour of the model *)
Theorem C07_term_log_reachable_accepted : forall cap nb sched s',
  xrun false (ctinit cap nb) sched = Some s' ->
  exists log, xtrace (ctinit cap nb) sched = Some (s', log) /\
              yrun (yinit cap) log = Some (yproj s').
Proof. exact yreachable_accepted. Qed.
Print Assumptions C07_term_log_reachable_accepted.

Theorem C07_term_log_init : forall cap nb, yinit cap = yproj (ctinit cap nb).
Proof. exact yinit_proj. Qed.
Print Assumptions C07_term_log_init.

(* whatever the replay accepts keeps ids and values pairwise distinct (hash consing), the free
   chain duplicate free and disjoint from the table; [yinv_b] decides it *)
Theorem C07_term_log_inv_def : forall y, YInv y <->
  NoDup (map fst (y_tt y)) /\ NoDup (map tvalf (y_tt y)) /\ NoDup (y_free y) /\
  (forall x, In x (y_free y) -> tfind (y_tt y) x = None).
Proof. exact YInv_def. Qed.
Print Assumptions C07_term_log_inv_def.

Theorem C07_term_log_inv : forall y l y', YInv y -> ystep y l = Some y' -> YInv y'.
Proof. exact ystep_inv. Qed.
Print Assumptions C07_term_log_inv.

Theorem C07_term_log_run_inv : forall log cap y, yrun (yinit cap) log = Some y -> YInv y.
Proof. exact yrun_init_inv. Qed.
Print Assumptions C07_term_log_run_inv.

Theorem C07_term_log_inv_checker : forall y, yinv_b y = true <-> YInv y.
Proof. exact yinv_b_spec. Qed.
Print Assumptions C07_term_log_inv_checker.

(* the decisions: a removal is accepted only in the sweep phase for a stored terminal without a
   counted edge (then the terminal is gone and its slot heads the free chain); the scan of the
   terminal collection only in the sweep phase *)
Theorem C07_term_log_free : forall y x y', YInv y -> ystep y (YFree x) = Some y' ->
  y_ph y = PSweep /\ (exists nd, tfind (y_tt y) x = Some nd /\ tn_rc nd = 0%N) /\
  tfind (y_tt y') x = None /\ y_free y' = x :: y_free y.
Proof. exact yfree_spec. Qed.
Print Assumptions C07_term_log_free.

Theorem C07_term_log_scan : forall y y', ystep y YScan = Some y' -> y_ph y = PSweep /\ y' = y.
Proof. exact yscan_spec. Qed.
Print Assumptions C07_term_log_scan.

(* `found`: the value is stored under exactly this id; `new`: the value is not stored, the id is the
   head of the free chain and not in use, the entry starts with one counted edge *)
Theorem C07_term_log_found : forall y t v x y', YInv y -> ystep y (YFound t v x) = Some y' ->
  exists nd, tfind (y_tt y) x = Some nd /\ tn_val nd = v.
Proof. exact yfound_spec. Qed.
Print Assumptions C07_term_log_found.

Theorem C07_term_log_new : forall y t v x y', YInv y -> ystep y (YNew t v x) = Some y' ->
  ~ In v (map tvalf (y_tt y)) /\ tfind (y_tt y) x = None /\
  (exists fr, y_free y = x :: fr /\ y_free y' = fr) /\
  tfind (y_tt y') x = Some (mkTN v 1).
Proof. exact ynew_spec. Qed.
Print Assumptions C07_term_log_new.

(* count changes: only on stored terminals; a decrement, and an increment that no `found` / hit /
   iterator item announced, need a counted edge *)
Theorem C07_term_log_retain : forall y t x y', ystep y (YRetain t x) = Some y' ->
  exists nd, tfind (y_tt y) x = Some nd /\
             (yowes (y_pend y) t = false -> (0 < tn_rc nd)%N) /\
             tfind (y_tt y') x = Some (mkTN (tn_val nd) (N.succ (tn_rc nd))).
Proof. exact yretain_spec. Qed.
Print Assumptions C07_term_log_retain.

Theorem C07_term_log_release : forall y t x y', ystep y (YRelease t x) = Some y' ->
  exists nd, tfind (y_tt y) x = Some nd /\ (0 < tn_rc nd)%N /\
             tfind (y_tt y') x = Some (mkTN (tn_val nd) (N.pred (tn_rc nd))).
Proof. exact yrelease_spec. Qed.
Print Assumptions C07_term_log_release.

(* the comparison with the snapshot after a block / an operation: it accepts every state of the
   model (with the model's own tokens as the counted edges) ... *)
Theorem C07_term_log_match_proj : forall s, XInv s ->
  ymatch_b (yproj s) (map fst (ct_tt s)) (ct_own s) = true.
Proof. exact ymatch_proj. Qed.
Print Assumptions C07_term_log_match_proj.

(* ... and a replayed state that passes it makes up, with the counted edges the snapshot shows
   (handles, child edges of stored nodes) as tokens, a state of the full model that satisfies the
   invariant XInv: exact counts, no dangling counted edge, hash consing; the listed ids are exactly
   the replayed ones and no increment is owed *)
Theorem C07_term_log_match_lift : forall y ids refs nb, YInv y -> ymatch_b y ids refs = true ->
  XInv (ylift y refs nb) /\
  (forall x, In x ids <-> exists nd, tfind (y_tt y) x = Some nd) /\ y_pend y = [].
Proof. exact ymatch_lift. Qed.
Print Assumptions C07_term_log_match_lift.

(* non-vacuity: a log through every label (new, found + increment, clone, drop, iterator item, hit,
   a complete collection that frees a slot in the sweep, slot reuse, out of memory) is accepted and
   its end state passes the invariant and the snapshot comparison *)
Theorem C07_term_log_example :
  yrun (yinit 2) ylog_ok = Some (mkY [(1%N, mkTN 5 1); (0%N, mkTN 7 2)] [] PIdle []) /\
  (forall y, yrun (yinit 2) ylog_ok = Some y ->
     YInv y /\ ymatch_b y [0%N; 1%N] [(0, 0%N); (1, 0%N); (2, 1%N)] = true).
Proof. exact (conj ylog_ok_accepted ylog_ok_state_inv). Qed.
Print Assumptions C07_term_log_example.

(* the logs of the defects are refused: scan / removal after post_gc began (seeded C07e), removal of
   a terminal with a counted edge, `found` of a collected slot, a new id that is in use, a second
   slot for a stored value, clone / release without a counted edge, an iterator item without its
   increment (seeded C05) *)
Theorem C07_term_log_refused :
  yrun (yinit 2) [YNew 0 7 0; YRelease 0 0; YPreGc; YSweep; YPostGc; YScan] = None /\
  yrun (yinit 2) [YNew 0 7 0; YRelease 0 0; YPreGc; YSweep; YPostGc; YFree 0] = None /\
  yrun (yinit 2) [YNew 0 7 0; YPreGc; YSweep; YFree 0] = None /\
  yrun (yinit 2) [YNew 0 7 0; YRelease 0 0; YPreGc; YSweep; YFree 0; YFound 1 7 0] = None /\
  yrun (yinit 2) [YNew 0 7 0; YNew 1 9 0] = None /\
  yrun (yinit 2) [YNew 0 7 0; YNew 1 7 1] = None /\
  yrun (yinit 2) [YNew 0 7 0; YRelease 0 0; YRetain 1 0] = None /\
  yrun (yinit 2) [YNew 0 7 0; YRelease 0 0; YRelease 1 0] = None /\
  yrun (yinit 2) [YNew 0 7 0; YIter 1 0; YRelease 1 0] = None.
Proof. exact ylog_late_refused. Qed.
Print Assumptions C07_term_log_refused.

(* ------------------------------------------------------------------------------------------------
   STORECONC: the unique table and the counts of Mgr/Conc.v RUNNING ON the node store of
   Mgr/IndexStore.v (on the slot allocator of Mgr/Alloc.v): Mgr/Core.v.  [AGoi]'s id argument is no
   oracle any more: it is the slot id that `Store::add_node` (IAdd) returned. *)
From OxiVerif Require Mgr.Alloc Mgr.AllocExamples Mgr.IndexStore Mgr.IndexStoreProofs Mgr.Core Mgr.CoreLink Mgr.CoreProofs
  Mgr.CoreThms Mgr.CoreExamples.

(* the Conc.v actions one action of the core stands for: the id of [AGoi] is the id in the result
   (found: the table's; new: the store's); a failed `get_or_insert` is the release of the consumed
   child edges; collector step on a referenced node and allocator-internal actions: nothing *)
Theorem C07_core_kacts_def : forall a r,
  Core.kacts a r =
  match a, r with
  | Core.KGoi tid lvl ch, Core.KRFound id => [Conc.AGoi tid lvl ch id]
  | Core.KGoi tid lvl ch, Core.KRNew id => [Conc.AGoi tid lvl ch id]
  | Core.KGoi tid _ ch, Core.KROom => map (Conc.ARelease tid) ch
  | Core.KRetain tid e, _ => [Conc.ARetain tid e]
  | Core.KRelease tid e, _ => [Conc.ARelease tid e]
  | Core.KMove tid tid' e, _ => [Conc.AMove tid tid' e]
  | Core.KNot tid e, _ => [Conc.ANot tid e]
  | Core.KGc _ id, Core.KRRemoved => [Conc.AGcNode id]
  | _, _ => []
  end.
Proof. intros; reflexivity. Qed.
Print Assumptions C07_core_kacts_def.

(* the invariant of the composition: the store's, Conc's on the projection, and the link: one
   hash-table edge value per stored node, every token's edge value points to its node, all edge
   values distinct, stored count = reported count + 1, the edge values inside a node = its inner
   child edges in order *)
Theorem C07_core_inv_def : forall k terms nl c s,
  CoreProofs.KInv k terms nl c s <->
  IndexStoreProofs.IInv c (Core.k_i s) /\ ConcProofs.CInv k terms nl (Core.kproj s) /\
  CoreLink.KLinkP (IndexStore.i_hs (Core.k_i s)) (IndexStore.i_own (Core.k_i s)) (IndexStore.i_nodes (Core.k_i s))
                  (Core.k_cn s) (Core.k_tok s) (Core.k_hd s).
Proof. intros; reflexivity. Qed.
Print Assumptions C07_core_inv_def.

(* every action of every thread: no `drop_edge` meets a last edge, the store component runs the
   script of store operations, the projection is a run of Conc.v, the invariant is kept *)
Theorem C07_core_step : forall k terms nl c s a s' r rs,
  CoreProofs.KInv k terms nl c s -> Core.kstep k terms nl c s a = Some (s', r, rs) ->
  IndexStoreProofs.no_leak rs = true /\
  IndexStore.irun c (Core.k_i s) (Core.kstep_ops k terms nl s a) = Some (Core.k_i s', rs) /\
  Conc.run k terms nl (Core.kproj s) (Core.kacts a r) = Some (Core.kproj s') /\
  CoreProofs.KInv k terms nl c s'.
Proof. exact CoreProofs.kstep_spec. Qed.
Print Assumptions C07_core_step.

(* erasing the store component of any run from a new manager gives a run of Conc.v from [cempty] *)
Theorem C07_core_sim : forall k terms nl c n sched s xs rs, (1 <= Alloc.chunk c)%N -> (1 <= Alloc.term c)%N ->
  Core.krun k terms nl c (Core.kinit c n) sched = Some (s, xs, rs) ->
  Conc.run k terms nl Conc.cempty (Core.kacts_list sched xs) = Some (Core.kproj s) /\ length xs = length sched.
Proof. exact CoreThms.core_sim. Qed.
Print Assumptions C07_core_sim.

(* the transfer: whatever holds in every reachable state of Conc.v (all C07_* / C05_sm_* theorems
   stated over [run cempty] / [CInv]) holds for the projection of every reachable state of the core *)
Theorem C07_core_transfer : forall k terms nl c (P : Conc.cst -> Prop),
  (forall sched s, Conc.run k terms nl Conc.cempty sched = Some s -> P s) ->
  forall s, CoreProofs.kreachable k terms nl c s -> P (Core.kproj s).
Proof. exact CoreThms.core_transfer. Qed.
Print Assumptions C07_core_transfer.

(* non-vacuity: capacity 6, chunk 2, threads 0 / 1 + collector 2, 25 actions through every action
   (KNot is BCDD-only), OutOfMemory, kept and removed entry, retry in the freed slot *)
Theorem C07_core_example :
  exists s, Core.krun Table.KBdd CoreExamples.kx_terms 4 AllocExamples.ex_cfg (Core.kinit AllocExamples.ex_cfg 3)
              CoreExamples.kx_sched = Some (s, CoreExamples.kx_results, CoreExamples.kx_store_results) /\
    CoreProofs.kreachable Table.KBdd CoreExamples.kx_terms 4 AllocExamples.ex_cfg s /\
    CoreProofs.KInv Table.KBdd CoreExamples.kx_terms 4 AllocExamples.ex_cfg s /\ Core.klink_b s = true /\
    nth_error CoreExamples.kx_results 4 = Some (Core.KRFound 2) /\ nth_error CoreExamples.kx_results 19 = Some Core.KROom /\
    nth_error CoreExamples.kx_results 21 = Some Core.KRKept /\ nth_error CoreExamples.kx_results 22 = Some Core.KRRemoved /\
    nth_error CoreExamples.kx_results 24 = Some (Core.KRNew 6).
Proof.
  destruct CoreExamples.kx_run as (s & A & B & C & D & _). exists s.
  split; [exact A|]. split; [exact B|]. split; [exact C|]. split; [exact D|]. repeat split.
Qed.
Print Assumptions C07_core_example.

(** ** GCTHREAD: the background-collector protocol of the index-based manager (Mgr/GcThread.v,
    notes/GCTHREAD.md): interleaving model of gc_signal / gc_state / gc_ongoing / the manager lock *)
From Coq Require Import List ZArith NArith.
From OxiVerif Require Mgr.Alloc Mgr.GcThread Mgr.GcThreadProofs Mgr.GcThreadThms Mgr.GcThreadExamples.

(* the states the theorems quantify over *)
Theorem C07_gcthread_reachable_def : forall c s,
  GcThreadProofs.reachable c s <-> exists n sched, GcThread.run c (GcThread.init c n) sched = Some s.
Proof. exact GcThreadThms.reachable_def. Qed.
Print Assumptions C07_gcthread_reachable_def.

(* (a) in every reachable state at most one sweep is in progress, over all threads; exactly when `gc_ongoing` is set *)
Theorem C07_gcthread_at_most_one_sweep : forall c s, GcThreadProofs.reachable c s ->
  GcThread.sweeps s <= 1 /\ (GcThread.sweeps s = 1 <-> GcThread.g_ongoing s = true).
Proof. exact GcThreadThms.at_most_one_sweep. Qed.
Print Assumptions C07_gcthread_at_most_one_sweep.

(* (a) while the collector thread sweeps no application thread is inside a sweep *)
Theorem C07_gcthread_coll_sweep_excludes_app : forall c s t p, GcThreadProofs.reachable c s -> GcThread.g_cpc s = GcThread.CSweep ->
  nth_error (GcThread.g_app s) t = Some p -> GcThread.a_sweeping p = false.
Proof. exact GcThreadThms.coll_sweep_excludes_app. Qed.
Print Assumptions C07_gcthread_coll_sweep_excludes_app.

(* (a) two application threads are never both inside a sweep *)
Theorem C07_gcthread_app_sweeps_exclusive : forall c s t1 t2 p1 p2, GcThreadProofs.reachable c s -> t1 <> t2 ->
  nth_error (GcThread.g_app s) t1 = Some p1 -> nth_error (GcThread.g_app s) t2 = Some p2 ->
  GcThread.a_sweeping p1 = true -> GcThread.a_sweeping p2 = false.
Proof. exact GcThreadThms.app_sweeps_exclusive. Qed.
Print Assumptions C07_gcthread_app_sweeps_exclusive.

(* (b) the sweeping collector holds the try-lock and a read lock: no writer exists (no reordering, no exclusive-lock gc) and `gc_state` is `Triggered` *)
Theorem C07_gcthread_coll_sweep_holds : forall c s, GcThreadProofs.reachable c s -> GcThread.g_cpc s = GcThread.CSweep ->
  GcThread.g_ongoing s = true /\ 1 <= GcThread.g_readers s /\ GcThread.g_writer s = false /\ GcThread.g_gc s = Alloc.GTriggered /\
  (forall t p, nth_error (GcThread.g_app s) t = Some p -> GcThread.a_holds_x p = false).
Proof. exact GcThreadThms.coll_sweep_holds. Qed.
Print Assumptions C07_gcthread_coll_sweep_holds.

(* (b) an application thread sweeping under the read lock *)
Theorem C07_gcthread_app_sweep_shared_holds : forall c s t, GcThreadProofs.reachable c s -> nth_error (GcThread.g_app s) t = Some GcThread.PSweepS ->
  GcThread.g_ongoing s = true /\ 1 <= GcThread.g_readers s /\ GcThread.g_writer s = false /\ GcThread.g_cpc s <> GcThread.CSweep.
Proof. exact GcThreadThms.app_sweep_shared_holds. Qed.
Print Assumptions C07_gcthread_app_sweep_shared_holds.

(* (b) an application thread sweeping under the write lock: the collector is not inside the manager *)
Theorem C07_gcthread_app_sweep_excl_holds : forall c s t, GcThreadProofs.reachable c s -> nth_error (GcThread.g_app s) t = Some GcThread.PSweepX ->
  GcThread.g_ongoing s = true /\ GcThread.g_writer s = true /\ GcThread.g_readers s = 0 /\ GcThread.c_holds (GcThread.g_cpc s) = false.
Proof. exact GcThreadThms.app_sweep_excl_holds. Qed.
Print Assumptions C07_gcthread_app_sweep_excl_holds.

(* non-vacuity: every action once; thread 0 sweeps while thread 1 and the collector fail to get `gc_ongoing`; orderly termination *)
Theorem C07_gcthread_all :
  GcThread.run GcThreadExamples.gx_cfg (GcThread.init GcThreadExamples.gx_cfg 1) (firstn 10 GcThreadExamples.gx_sched_all) = Some GcThreadExamples.gx_all_mid /\
  GcThread.run GcThreadExamples.gx_cfg (GcThread.init GcThreadExamples.gx_cfg 1) GcThreadExamples.gx_sched_all = Some GcThreadExamples.gx_all_end /\
  GcThreadProofs.reachable GcThreadExamples.gx_cfg GcThreadExamples.gx_all_mid /\ GcThreadProofs.reachable GcThreadExamples.gx_cfg GcThreadExamples.gx_all_end /\
  GcThread.sweeps GcThreadExamples.gx_all_mid = 1 /\ GcThread.quit_seen GcThreadExamples.gx_all_end = true.
Proof. exact GcThreadExamples.gx_all. Qed.
Print Assumptions C07_gcthread_all.
