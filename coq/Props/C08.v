(** C08 — property theorems only (proved in Mgr/SortOrderProofs.v and Mgr/LevelSwapProofs.v). *)
From Coq Require Import List Arith Permutation.
From OxiVerif Require Import Mgr.SortOrder Mgr.SortOrderProofs.
Import ListNotations.

(** ** sort_order: from the requested relative order to a target permutation *)

(* the result is a permutation of [0, n) (current level |-> target level) *)
Theorem C08_sort_order_perm : forall n order,
  valid_order n order -> Permutation (sort_order n order) (seq 0 n).
Proof. exact sort_order_perm. Qed.
Print Assumptions C08_sort_order_perm.

(* every pair of named levels ends up in the requested relative order *)
Theorem C08_sort_order_respects : forall n order,
  valid_order n order ->
  forall i j, i < j < length order ->
    nth (nth i order 0) (sort_order n order) 0 < nth (nth j order 0) (sort_order n order) 0.
Proof. exact sort_order_respects. Qed.
Print Assumptions C08_sort_order_respects.

(* the number of inversions (= adjacent swaps needed) is minimal among all
   permutations that respect the request *)
Theorem C08_sort_order_min_inversions : forall n order u,
  valid_order n order -> Permutation u (seq 0 n) -> respects order u ->
  inv (sort_order n order) <= inv u.
Proof. exact sort_order_min_inversions. Qed.
Print Assumptions C08_sort_order_min_inversions.

(* unnamed levels keep their mutual order *)
Theorem C08_sort_order_keeps_unmentioned : forall n order,
  valid_order n order ->
  forall a b, a < b < n -> ~ In a order -> ~ In b order ->
    nth a (sort_order n order) 0 < nth b (sort_order n order) 0.
Proof. exact sort_order_keeps_unmentioned. Qed.
Print Assumptions C08_sort_order_keeps_unmentioned.

(* what [cost] means: inversions of an unnamed level with the named ones *)
Theorem C08_cost_meaning : forall n order u j,
  valid_order n order -> Permutation u (seq 0 n) -> respects order u ->
  j < n -> ~ In j order ->
  sumn n (fun k => if existsb (Nat.eqb k) order
                   then b2n ((k <? j) && (nth j u 0 <? nth k u 0))
                        + b2n ((j <? k) && (nth k u 0 <? nth j u 0))
                   else 0)
  = cost n order j (gap_in order u j).
Proof. exact cost_meaning. Qed.
Print Assumptions C08_cost_meaning.

(* every unnamed level takes the top-most cost-minimal gap *)
Theorem C08_sort_order_topmost : forall n order,
  valid_order n order ->
  forall j g', j < n -> ~ In j order -> g' <= length order ->
    let g := gap_in order (sort_order n order) j in
    cost n order j g <= cost n order j g' /\ (g' < g -> cost n order j g < cost n order j g').
Proof. exact sort_order_topmost. Qed.
Print Assumptions C08_sort_order_topmost.

Theorem C08_sort_order_meets_spec : forall n order,
  valid_order n order -> sort_order_spec n order (sort_order n order).
Proof. exact sort_order_meets_spec. Qed.
Print Assumptions C08_sort_order_meets_spec.

(* the Rust unit-test vectors; the hypotheses above are satisfiable *)
Theorem C08_sort_order_vectors :
  sort_order 4 [0;1;2;3] = [0;1;2;3] /\ sort_order 4 [1;0;2;3] = [1;0;2;3]
  /\ sort_order 4 [0;2;3;1] = [0;3;1;2] /\ sort_order 3 [2;0] = [2;0;1]
  /\ sort_order 10 [6;3;0;4;1;9] = [3;5;0;2;4;6;1;7;8;9]
  /\ sort_order 8 [7;3;0;5;6;1] = [3;7;0;2;4;5;6;1]
  /\ valid_order 10 [6;3;0;4;1;9].
Proof.
  exact (conj sort_order_ex1 (conj sort_order_ex2 (conj sort_order_ex3 (conj sort_order_ex4
        (conj sort_order_ex5 (conj sort_order_ex6 valid_order_ex)))))).
Qed.
Print Assumptions C08_sort_order_vectors.

(** ** bubble_sort: only adjacent, strictly out-of-order swaps *)

Theorem C08_bubble_sort_correct : forall s,
  let '(s', sw) := bubble_sort s in
  sorted s' /\ Permutation s' s
  /\ valid_swaps s sw /\ replay sw s = s'
  /\ length sw = inv s.
Proof. exact bubble_sort_correct. Qed.
Print Assumptions C08_bubble_sort_correct.

Theorem C08_bubble_sort_replay : forall (A : Type) (key : A -> nat) (xs : list A),
  let '(s', sw) := bubble_sort (map key xs) in
  map key (replay sw xs) = s' /\ Permutation (replay sw xs) xs.
Proof. exact @bubble_sort_replay. Qed.
Print Assumptions C08_bubble_sort_replay.

(** ** concurrent_bubble_sort: the task state machine *)

Theorem C08_no_overlap : forall s0 st,
  cb_reach s0 st ->
  NoDup (pairs (cb_inflight st))
  /\ forall i, In i (cb_inflight st) ->
       nth i (cb_blocked st) false = true /\ nth (S i) (cb_blocked st) false = true.
Proof. exact no_overlap. Qed.
Print Assumptions C08_no_overlap.

Theorem C08_no_overlap_pairwise : forall s0 st a b i j,
  cb_reach s0 st -> a <> b ->
  nth_error (cb_inflight st) a = Some i -> nth_error (cb_inflight st) b = Some j ->
  i <> j /\ i <> S j /\ S i <> j.
Proof. exact no_overlap_pairwise. Qed.
Print Assumptions C08_no_overlap_pairwise.

Theorem C08_cb_swap_valid : forall s0 st i,
  cb_reach s0 st -> In i (cb_inflight st) ->
  S i < length (cb_seq st) /\ nth (S i) (cb_seq st) 0 < nth i (cb_seq st) 0.
Proof. exact cb_swap_valid. Qed.
Print Assumptions C08_cb_swap_valid.

(* partial correctness (termination of the worker loop is not modelled) *)
Theorem C08_cb_done_sorted : forall s0 st,
  cb_reach s0 st -> cb_tasks st = [] -> cb_inflight st = [] ->
  sorted (cb_seq st) /\ Permutation (cb_seq st) s0.
Proof. exact cb_done_sorted. Qed.
Print Assumptions C08_cb_done_sorted.
