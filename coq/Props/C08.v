(** C08 — property theorems only (proved in Mgr/SortOrderProofs.v and Mgr/LevelSwap{Inv,WF,Sem,Proofs,Order}.v). *)
From Coq Require Import List Arith Permutation NArith PArith FMapPositive.
From OxiVerif Require Import Mgr.SortOrder Mgr.SortOrderProofs.
From OxiVerif Require Import DD.Table DD.TableProofs Mgr.LevelSwap Mgr.LevelSwapBase Mgr.LevelSwapSem Mgr.LevelSwapProofs Mgr.LevelSwapOrder.
From OxiVerif Require Import Mgr.LevelSwapC Mgr.LevelSwapCProofs Mgr.LevelSwapCOrder.
Import ListNotations.

(** ** sort_order: from the requested relative order to a target permutation *)

(* the result is a permutation of [0, n) (current level |-> target level) *)
Theorem C08_sort_order_perm : forall n order,
  valid_order n order -> Permutation (sort_order n order) (seq 0 n).
Proof. exact sort_order_perm. Qed.
Print Assumptions C08_sort_order_perm.

(* every pair of named levels ends up in the requested relative order *)
Theorem C08_sort_order_respects : forall n order,
  valid_order n order ->
  forall i j, i < j < length order ->
    nth (nth i order 0) (sort_order n order) 0 < nth (nth j order 0) (sort_order n order) 0.
Proof. exact sort_order_respects. Qed.
Print Assumptions C08_sort_order_respects.

(* the number of inversions (= adjacent swaps needed) is minimal among all
   permutations that respect the request *)
Theorem C08_sort_order_min_inversions : forall n order u,
  valid_order n order -> Permutation u (seq 0 n) -> respects order u ->
  inv (sort_order n order) <= inv u.
Proof. exact sort_order_min_inversions. Qed.
Print Assumptions C08_sort_order_min_inversions.

(* unnamed levels keep their mutual order *)
Theorem C08_sort_order_keeps_unmentioned : forall n order,
  valid_order n order ->
  forall a b, a < b < n -> ~ In a order -> ~ In b order ->
    nth a (sort_order n order) 0 < nth b (sort_order n order) 0.
Proof. exact sort_order_keeps_unmentioned. Qed.
Print Assumptions C08_sort_order_keeps_unmentioned.

(* what [cost] means: inversions of an unnamed level with the named ones *)
Theorem C08_cost_meaning : forall n order u j,
  valid_order n order -> Permutation u (seq 0 n) -> respects order u ->
  j < n -> ~ In j order ->
  sumn n (fun k => if existsb (Nat.eqb k) order
                   then b2n ((k <? j) && (nth j u 0 <? nth k u 0))
                        + b2n ((j <? k) && (nth k u 0 <? nth j u 0))
                   else 0)
  = cost n order j (gap_in order u j).
Proof. exact cost_meaning. Qed.
Print Assumptions C08_cost_meaning.

(* every unnamed level takes the top-most cost-minimal gap *)
Theorem C08_sort_order_topmost : forall n order,
  valid_order n order ->
  forall j g', j < n -> ~ In j order -> g' <= length order ->
    let g := gap_in order (sort_order n order) j in
    cost n order j g <= cost n order j g' /\ (g' < g -> cost n order j g < cost n order j g').
Proof. exact sort_order_topmost. Qed.
Print Assumptions C08_sort_order_topmost.

Theorem C08_sort_order_meets_spec : forall n order,
  valid_order n order -> sort_order_spec n order (sort_order n order).
Proof. exact sort_order_meets_spec. Qed.
Print Assumptions C08_sort_order_meets_spec.

(* the Rust unit-test vectors; the hypotheses above are satisfiable *)
Theorem C08_sort_order_vectors :
  sort_order 4 [0;1;2;3] = [0;1;2;3] /\ sort_order 4 [1;0;2;3] = [1;0;2;3]
  /\ sort_order 4 [0;2;3;1] = [0;3;1;2] /\ sort_order 3 [2;0] = [2;0;1]
  /\ sort_order 10 [6;3;0;4;1;9] = [3;5;0;2;4;6;1;7;8;9]
  /\ sort_order 8 [7;3;0;5;6;1] = [3;7;0;2;4;5;6;1]
  /\ valid_order 10 [6;3;0;4;1;9].
Proof.
  exact (conj sort_order_ex1 (conj sort_order_ex2 (conj sort_order_ex3 (conj sort_order_ex4
        (conj sort_order_ex5 (conj sort_order_ex6 valid_order_ex)))))).
Qed.
Print Assumptions C08_sort_order_vectors.

(** ** bubble_sort: only adjacent, strictly out-of-order swaps *)

Theorem C08_bubble_sort_correct : forall s,
  let '(s', sw) := bubble_sort s in
  sorted s' /\ Permutation s' s
  /\ valid_swaps s sw /\ replay sw s = s'
  /\ length sw = inv s.
Proof. exact bubble_sort_correct. Qed.
Print Assumptions C08_bubble_sort_correct.

Theorem C08_bubble_sort_replay : forall (A : Type) (key : A -> nat) (xs : list A),
  let '(s', sw) := bubble_sort (map key xs) in
  map key (replay sw xs) = s' /\ Permutation (replay sw xs) xs.
Proof. exact @bubble_sort_replay. Qed.
Print Assumptions C08_bubble_sort_replay.

(** ** concurrent_bubble_sort: the task state machine *)

Theorem C08_no_overlap : forall s0 st,
  cb_reach s0 st ->
  NoDup (pairs (cb_inflight st))
  /\ forall i, In i (cb_inflight st) ->
       nth i (cb_blocked st) false = true /\ nth (S i) (cb_blocked st) false = true.
Proof. exact no_overlap. Qed.
Print Assumptions C08_no_overlap.

Theorem C08_no_overlap_pairwise : forall s0 st a b i j,
  cb_reach s0 st -> a <> b ->
  nth_error (cb_inflight st) a = Some i -> nth_error (cb_inflight st) b = Some j ->
  i <> j /\ i <> S j /\ S i <> j.
Proof. exact no_overlap_pairwise. Qed.
Print Assumptions C08_no_overlap_pairwise.

Theorem C08_cb_swap_valid : forall s0 st i,
  cb_reach s0 st -> In i (cb_inflight st) ->
  S i < length (cb_seq st) /\ nth (S i) (cb_seq st) 0 < nth i (cb_seq st) 0.
Proof. exact cb_swap_valid. Qed.
Print Assumptions C08_cb_swap_valid.

(* partial correctness (termination of the worker loop is not modelled) *)
Theorem C08_cb_done_sorted : forall s0 st,
  cb_reach s0 st -> cb_tasks st = [] -> cb_inflight st = [] ->
  sorted (cb_seq st) /\ Permutation (cb_seq st) s0.
Proof. exact cb_done_sorted. Qed.
Print Assumptions C08_cb_done_sorted.

(** ** level_swap / level_down on two adjacent levels of a BDD or MTBDD (model: Mgr/LevelSwap.v;
    [bink k] = [k = KBdd \/ k = KMtbdd]: binary nodes, no complement tags, rule "children equal") *)

(* the table after the swap is well-formed again: ordered, reduced, per-level unique,
   stored level numbers up to date, variable/level maps mutually inverse permutations *)
Theorem C08_level_swap_wf : forall s i,
  WF s -> bink (s_kind s) -> S i < nlevels s -> WF (level_swap s i).
Proof. exact level_swap_wf. Qed.
Print Assumptions C08_level_swap_wf.

(* the maps are those of before with the entries of levels i and i+1 exchanged *)
Theorem C08_level_swap_maps : forall s i, S i < nlevels s ->
  s_l2v (level_swap s i) = swap_adj i (s_l2v s)
  /\ s_v2l (level_swap s i) = map (swap_idx i) (s_v2l s)
  /\ (forall l, nth_error (s_l2v (level_swap s i)) l = nth_error (s_l2v s) (swap_idx i l))
  /\ (forall v, nth_error (s_v2l (level_swap s i)) v = option_map (swap_idx i) (nth_error (s_v2l s) v)).
Proof. exact level_swap_maps. Qed.
Print Assumptions C08_level_swap_maps.

(* the handle list is unchanged and every handle's node is still stored under its id *)
Theorem C08_level_swap_handles : forall s i,
  WF s -> bink (s_kind s) -> S i < nlevels s ->
  s_handles (level_swap s i) = s_handles s
  /\ forall h, In h (s_handles s) -> ref_ok (level_swap s i) (eref (snd h)).
Proof.
  exact (fun s i H Hk Hi => conj (level_swap_handles s i) (level_swap_handle_ok s i H Hk Hi)).
Qed.
Print Assumptions C08_level_swap_handles.

(* nothing but the two levels is touched: nodes of the other levels keep id, level and
   children, and no node appears there *)
Theorem C08_level_swap_untouched : forall s i,
  WF s -> bink (s_kind s) -> S i < nlevels s ->
  forall id nd, nlevel nd <> i -> nlevel nd <> S i ->
    (find_node s id = Some nd <-> find_node (level_swap s i) id = Some nd).
Proof.
  exact (fun s i H Hk Hi id nd A B =>
           conj (fun E => level_swap_untouched s i H Hk Hi id nd E A B)
                (fun E => level_swap_untouched_rev s i H Hk Hi id nd E A B)).
Qed.
Print Assumptions C08_level_swap_untouched.

(* the only nodes that disappear are nodes of the old lower level that were children of
   rewritten nodes and are referenced by no stored node and no handle afterwards *)
Theorem C08_level_swap_removed_only : forall s i,
  WF s -> bink (s_kind s) -> S i < nlevels s ->
  forall id nd, find_node s id = Some nd -> find_node (level_swap s i) id = None ->
    nlevel nd = S i /\ In id (dropped_children s i)
    /\ referenced (swap_nodes s i) (s_handles s) id = false.
Proof. exact level_swap_removed_only. Qed.
Print Assumptions C08_level_swap_removed_only.

(* whatever a stored node of the result refers to is stored in the result *)
Theorem C08_level_swap_child_ok : forall s i,
  WF s -> bink (s_kind s) -> S i < nlevels s ->
  forall id nd e, find_node (level_swap s i) id = Some nd -> In e (nchildren nd) ->
    ref_ok (level_swap s i) (eref e).
Proof. exact level_swap_child_ok. Qed.
Print Assumptions C08_level_swap_child_ok.

(* every edge stored before and after denotes the same function of the LEVELS, with the
   entries of the two levels exchanged *)
Theorem C08_level_swap_sem_levels : forall s i,
  WF s -> bink (s_kind s) -> S i < nlevels s ->
  forall e c, ref_ok s (eref e) -> ref_ok (level_swap s i) (eref e) -> choice_ok s c ->
    sem_edge (level_swap s i) e (swap_choice i c) = sem_edge s e c.
Proof. exact level_swap_sem_levels. Qed.
Print Assumptions C08_level_swap_sem_levels.

(* headline: the Boolean function over the VARIABLES is unchanged *)
Theorem C08_level_swap_sem_vars : forall s i,
  WF s -> bink (s_kind s) -> S i < nlevels s ->
  forall e (a : nat -> bool), ref_ok s (eref e) -> ref_ok (level_swap s i) (eref e) ->
    eval_vars (level_swap s i) e a = eval_vars s e a.
Proof. exact level_swap_sem_vars. Qed.
Print Assumptions C08_level_swap_sem_vars.

(* in particular every handle (its value is defined) *)
Theorem C08_level_swap_handles_vars : forall s i,
  WF s -> bink (s_kind s) -> S i < nlevels s ->
  forall h (a : nat -> bool), In h (s_handles s) ->
    eval_vars (level_swap s i) (snd h) a = eval_vars s (snd h) a
    /\ exists v, eval_vars s (snd h) a = Some v.
Proof. exact level_swap_handles_vars. Qed.
Print Assumptions C08_level_swap_handles_vars.

(** ** sequences of adjacent swaps; set_var_order *)

Theorem C08_swaps_fold : forall sw s,
  WF s -> bink (s_kind s) -> Forall (fun k => S k < nlevels s) sw ->
  let s' := fold_left level_swap sw s in
  WF s' /\ s_kind s' = s_kind s /\ nlevels s' = nlevels s /\ s_handles s' = s_handles s
  /\ s_l2v s' = replay sw (s_l2v s)
  /\ (forall h a, In h (s_handles s) ->
        eval_vars s' (snd h) a = eval_vars s (snd h) a /\ exists v, eval_vars s (snd h) a = Some v).
Proof. exact swaps_fold. Qed.
Print Assumptions C08_swaps_fold.

(* set_var_order as sort_order + bubble_sort + one level swap per reported index: the result is
   well-formed, every handle denotes the same function of the variables, every variable sits on
   the level sort_order assigns to its old level, and the number of swaps is the number of
   inversions of that target (minimal: C08_sort_order_min_inversions) *)
Theorem C08_set_var_order_model_correct : forall s order,
  WF s -> bink (s_kind s) -> NoDup order -> Forall (fun v => v < nlevels s) order ->
  let s' := set_var_order_model s order in
  let target := sort_order (nlevels s) (map (fun v => nth v (s_v2l s) 0) order) in
  WF s' /\ s_kind s' = s_kind s /\ nlevels s' = nlevels s /\ s_handles s' = s_handles s
  /\ (forall h a, In h (s_handles s) ->
        eval_vars s' (snd h) a = eval_vars s (snd h) a /\ exists v, eval_vars s (snd h) a = Some v)
  /\ (forall v, v < nlevels s -> nth v (s_v2l s') 0 = nth (nth v (s_v2l s) 0) target 0)
  /\ length (snd (bubble_sort target)) = inv target.
Proof. exact set_var_order_model_correct. Qed.
Print Assumptions C08_set_var_order_model_correct.

(* the variables named in the request end up in the requested relative order *)
Theorem C08_set_var_order_model_respects : forall s order,
  WF s -> bink (s_kind s) -> NoDup order -> Forall (fun v => v < nlevels s) order ->
  forall a b, a < b < length order ->
    nth (nth a order 0) (s_v2l (set_var_order_model s order)) 0
    < nth (nth b order 0) (s_v2l (set_var_order_model s order)) 0.
Proof. exact set_var_order_model_respects. Qed.
Print Assumptions C08_set_var_order_model_respects.

(* the reordered diagram is canonical: handles are the same edge iff they denote the same function *)
Theorem C08_set_var_order_model_canonical : forall s order,
  WF s -> bink (s_kind s) -> NoDup order -> Forall (fun v => v < nlevels s) order ->
  forall h1 h2, In h1 (s_handles s) -> In h2 (s_handles s) ->
    (snd h1 = snd h2 <->
     forall c, choice_ok (set_var_order_model s order) c ->
       sem_edge (set_var_order_model s order) (snd h1) c = sem_edge (set_var_order_model s order) (snd h2) c).
Proof. exact set_var_order_model_canonical. Qed.
Print Assumptions C08_set_var_order_model_canonical.

(* the hypotheses are satisfiable and the swap does something: three variables, two handles;
   swapping levels 0 and 1 rewrites both nodes of level 0, creates two nodes and removes two *)
Theorem C08_level_swap_example :
  WF ex_swap /\ bink (s_kind ex_swap) /\ 1 < nlevels ex_swap
  /\ dep_ids ex_swap 0 = [5; 3]%positive
  /\ find_node (level_swap ex_swap 0) 2 = None
  /\ find_node (level_swap ex_swap 0) 3 = Some (mkNode 0 [ex_e (RN 7); ex_e (RN 1)] 0 1)
  /\ find_node (level_swap ex_swap 0) 7 = Some (mkNode 1 [ex_e (RT 1); ex_e (RN 1)] 1 0)
  /\ s_v2l (set_var_order_model ex_swap [2; 1; 0]) = [2; 1; 0]
  /\ NoDup [2; 1; 0] /\ Forall (fun v => v < nlevels ex_swap) [2; 1; 0].
Proof. exact ex_swap_all. Qed.
Print Assumptions C08_level_swap_example.

(** ** the same for BCDDs (complement edges; model: Mgr/LevelSwapC.v) *)

Theorem C08_bcdd_level_swap_wf : forall s i,
  WF s -> s_kind s = KBcdd -> S i < nlevels s -> WF (level_swap_c s i).
Proof. exact level_swap_wf_c. Qed.
Print Assumptions C08_bcdd_level_swap_wf.

Theorem C08_bcdd_level_swap_maps : forall s i, S i < nlevels s ->
  s_l2v (level_swap_c s i) = swap_adj i (s_l2v s)
  /\ s_v2l (level_swap_c s i) = map (swap_idx i) (s_v2l s)
  /\ (forall l, nth_error (s_l2v (level_swap_c s i)) l = nth_error (s_l2v s) (swap_idx i l))
  /\ (forall v, nth_error (s_v2l (level_swap_c s i)) v = option_map (swap_idx i) (nth_error (s_v2l s) v)).
Proof. exact level_swap_maps_c. Qed.
Print Assumptions C08_bcdd_level_swap_maps.

Theorem C08_bcdd_level_swap_handles : forall s i,
  WF s -> s_kind s = KBcdd -> S i < nlevels s ->
  s_handles (level_swap_c s i) = s_handles s
  /\ forall h, In h (s_handles s) -> ref_ok (level_swap_c s i) (eref (snd h)).
Proof.
  exact (fun s i H Hk Hi => conj (level_swap_handles_c s i) (level_swap_handle_ok_c s i H Hk Hi)).
Qed.
Print Assumptions C08_bcdd_level_swap_handles.

Theorem C08_bcdd_level_swap_untouched : forall s i,
  WF s -> s_kind s = KBcdd -> S i < nlevels s ->
  forall id nd, nlevel nd <> i -> nlevel nd <> S i ->
    (find_node s id = Some nd <-> find_node (level_swap_c s i) id = Some nd).
Proof.
  exact (fun s i H Hk Hi id nd A B =>
           conj (fun E => level_swap_untouched_c s i H Hk Hi id nd E A B)
                (fun E => level_swap_untouched_rev_c s i H Hk Hi id nd E A B)).
Qed.
Print Assumptions C08_bcdd_level_swap_untouched.

Theorem C08_bcdd_level_swap_removed_only : forall s i,
  WF s -> s_kind s = KBcdd -> S i < nlevels s ->
  forall id nd, find_node s id = Some nd -> find_node (level_swap_c s i) id = None ->
    nlevel nd = S i /\ In id (dropped_children s i)
    /\ referenced (swap_nodes_c s i) (s_handles s) id = false.
Proof. exact level_swap_removed_only_c. Qed.
Print Assumptions C08_bcdd_level_swap_removed_only.

Theorem C08_bcdd_level_swap_child_ok : forall s i,
  WF s -> s_kind s = KBcdd -> S i < nlevels s ->
  forall id nd e, find_node (level_swap_c s i) id = Some nd -> In e (nchildren nd) ->
    ref_ok (level_swap_c s i) (eref e).
Proof. exact level_swap_child_ok_c. Qed.
Print Assumptions C08_bcdd_level_swap_child_ok.

Theorem C08_bcdd_level_swap_sem_levels : forall s i,
  WF s -> s_kind s = KBcdd -> S i < nlevels s ->
  forall e c, ref_ok s (eref e) -> ref_ok (level_swap_c s i) (eref e) -> choice_ok s c ->
    sem_edge (level_swap_c s i) e (swap_choice i c) = sem_edge s e c.
Proof. exact level_swap_sem_levels_c. Qed.
Print Assumptions C08_bcdd_level_swap_sem_levels.

(* headline for BCDDs: the Boolean function over the VARIABLES is unchanged *)
Theorem C08_bcdd_level_swap_sem_vars : forall s i,
  WF s -> s_kind s = KBcdd -> S i < nlevels s ->
  forall e (a : nat -> bool), ref_ok s (eref e) -> ref_ok (level_swap_c s i) (eref e) ->
    eval_vars (level_swap_c s i) e a = eval_vars s e a.
Proof. exact level_swap_sem_vars_c. Qed.
Print Assumptions C08_bcdd_level_swap_sem_vars.

Theorem C08_bcdd_level_swap_handles_vars : forall s i,
  WF s -> s_kind s = KBcdd -> S i < nlevels s ->
  forall h (a : nat -> bool), In h (s_handles s) ->
    eval_vars (level_swap_c s i) (snd h) a = eval_vars s (snd h) a
    /\ exists v, eval_vars s (snd h) a = Some v.
Proof. exact level_swap_handles_vars_c. Qed.
Print Assumptions C08_bcdd_level_swap_handles_vars.

Theorem C08_bcdd_swaps_fold : forall sw s,
  WF s -> s_kind s = KBcdd -> Forall (fun k => S k < nlevels s) sw ->
  let s' := fold_left level_swap_c sw s in
  WF s' /\ s_kind s' = s_kind s /\ nlevels s' = nlevels s /\ s_handles s' = s_handles s
  /\ s_l2v s' = replay sw (s_l2v s)
  /\ (forall h a, In h (s_handles s) ->
        eval_vars s' (snd h) a = eval_vars s (snd h) a /\ exists v, eval_vars s (snd h) a = Some v).
Proof. exact swaps_fold_c. Qed.
Print Assumptions C08_bcdd_swaps_fold.

Theorem C08_bcdd_set_var_order_model_correct : forall s order,
  WF s -> s_kind s = KBcdd -> NoDup order -> Forall (fun v => v < nlevels s) order ->
  let s' := set_var_order_model_c s order in
  let target := sort_order (nlevels s) (map (fun v => nth v (s_v2l s) 0) order) in
  WF s' /\ s_kind s' = s_kind s /\ nlevels s' = nlevels s /\ s_handles s' = s_handles s
  /\ (forall h a, In h (s_handles s) ->
        eval_vars s' (snd h) a = eval_vars s (snd h) a /\ exists v, eval_vars s (snd h) a = Some v)
  /\ (forall v, v < nlevels s -> nth v (s_v2l s') 0 = nth (nth v (s_v2l s) 0) target 0)
  /\ length (snd (bubble_sort target)) = inv target.
Proof. exact set_var_order_model_correct_c. Qed.
Print Assumptions C08_bcdd_set_var_order_model_correct.

Theorem C08_bcdd_set_var_order_model_respects : forall s order,
  WF s -> s_kind s = KBcdd -> NoDup order -> Forall (fun v => v < nlevels s) order ->
  forall a b, a < b < length order ->
    nth (nth a order 0) (s_v2l (set_var_order_model_c s order)) 0
    < nth (nth b order 0) (s_v2l (set_var_order_model_c s order)) 0.
Proof. exact set_var_order_model_respects_c. Qed.
Print Assumptions C08_bcdd_set_var_order_model_respects.

Theorem C08_bcdd_set_var_order_model_canonical : forall s order,
  WF s -> s_kind s = KBcdd -> NoDup order -> Forall (fun v => v < nlevels s) order ->
  terms_kind s ->
  forall h1 h2, In h1 (s_handles s) -> In h2 (s_handles s) ->
    (snd h1 = snd h2 <->
     forall c, choice_ok (set_var_order_model_c s order) c ->
       sem_edge (set_var_order_model_c s order) (snd h1) c = sem_edge (set_var_order_model_c s order) (snd h2) c).
Proof. exact set_var_order_model_canonical_c. Qed.
Print Assumptions C08_bcdd_set_var_order_model_canonical.

(* hypotheses satisfiable; the swap of the example takes the branch in which the rebuilt child is a
   node of the old upper level that has just moved down, reached through a COMPLEMENTED edge *)
Theorem C08_bcdd_level_swap_example :
  WF ex_swap_c /\ s_kind ex_swap_c = KBcdd /\ terms_kind ex_swap_c /\ 1 < nlevels ex_swap_c
  /\ dep_ids ex_swap_c 0 = [4]%positive
  /\ find_node (level_swap_c ex_swap_c 0) 4 = Some (mkNode 0 [ex_t; mkEdge (RN 2) true] 0 1)
  /\ find_node (level_swap_c ex_swap_c 0) 2 = Some (mkNode 1 [ex_t; ex_f] 1 1)
  /\ find_node (level_swap_c ex_swap_c 0) 1 = None
  /\ s_v2l (set_var_order_model_c ex_swap_c [2; 1; 0]) = [2; 1; 0]
  /\ wf_b (set_var_order_model_c ex_swap_c [2; 1; 0]) = true.
Proof. exact ex_swap_c_all. Qed.
Print Assumptions C08_bcdd_level_swap_example.

(** ** ALL histories (HIST): reordering inside the manager state machine of Mgr/History.v,
    and "subsequent operations behave as on a freshly built diagram" *)
From OxiVerif Require Import DD.Sem DD.Build DD.Apply DD.ApplyProofs DD.ApplyEvalProofs DD.ConfigApply DD.Quant
  DD.QuantSpecProofs Mgr.History Mgr.HistoryProofs Mgr.HistoryThms Mgr.HistorySpec Mgr.HistoryExamples.

(* [set_var_order] in any state the invariant holds in (so: after any history): invariant again,
   same slots, same functions of the variables, the requested relative order *)
Theorem C08_hist_reorder_keeps :
  forall (gt : ref -> ref -> bool) (C : Type) (cget : C -> N -> list ref -> option ref)
         (cadd : C -> N -> list ref -> ref -> C), lossy cget cadd ->
  forall cempty : C, (forall k a, cget cempty k a = None) ->
  forall (st : hstate C) order st', HInv C cget st ->
  hop_pre C st (HSetVarOrder order) -> hstep gt C cget cadd cempty st (HSetVarOrder order) = Some st' ->
  HInv C cget st' /\
  nlevels (h_s C st') = nlevels (h_s C st) /\
  s_handles (h_s C st') = s_handles (h_s C st) /\
  (forall x e, hget (s_handles (h_s C st)) x = Some e ->
     ref_ok (h_s C st') (eref e) /\
     forall a, bfun_of (h_s C st') (eref e) a = bfun_of (h_s C st) (eref e) a) /\
  (forall a b, a < b < length order ->
     nth (nth a order 0) (s_v2l (h_s C st')) 0 < nth (nth b order 0) (s_v2l (h_s C st')) 0).
Proof. exact hist_reorder_keeps. Qed.
Print Assumptions C08_hist_reorder_keeps.

(* every call (operations, collections, further reorderings) after a reordering - after any
   history - keeps every other slot: same edge, same function *)
Theorem C08_hist_frame :
  forall (gt : ref -> ref -> bool) (C : Type) (cget : C -> N -> list ref -> option ref)
         (cadd : C -> N -> list ref -> ref -> C), lossy cget cadd ->
  forall cempty : C, (forall k a, cget cempty k a = None) ->
  forall (st : hstate C) o st', HInv C cget st -> hop_pre C st o ->
  hstep gt C cget cadd cempty st o = Some st' ->
  forall x e, hdst o <> Some x -> hget (s_handles (h_s C st)) x = Some e ->
  hget (s_handles (h_s C st')) x = Some e /\
  ref_ok (h_s C st') (eref e) /\
  forall a, bfun_of (h_s C st') (eref e) a = bfun_of (h_s C st) (eref e) a.
Proof. exact hist_frame_slots. Qed.
Print Assumptions C08_hist_frame.

(* ... and the replacement functions inside substitution objects *)
Theorem C08_hist_frame_subst :
  forall (gt : ref -> ref -> bool) (C : Type) (cget : C -> N -> list ref -> option ref)
         (cadd : C -> N -> list ref -> ref -> C), lossy cget cadd ->
  forall cempty : C, (forall k a, cget cempty k a = None) ->
  forall (st : hstate C) o st', HInv C cget st -> hop_pre C st o ->
  hstep gt C cget cadd cempty st o = Some st' ->
  forall id pairs v r, In (id, pairs) (h_reg C st) -> In (v, r) pairs ->
  ref_ok (h_s C st') r /\ forall a, bfun_of (h_s C st') r a = bfun_of (h_s C st) r a.
Proof. exact hist_frame_subst. Qed.
Print Assumptions C08_hist_frame_subst.

(* "as on a freshly built diagram": [ops1] any history (reorderings, collections, ...), [ops2] any
   other one, e.g. the shortest that builds the operands in a fresh manager with the same
   variable order; the same call gives the same function and the same node count *)
Theorem C08_hist_fresh_equiv :
  forall (gt1 gt2 : ref -> ref -> bool) (C1 C2 : Type)
         (cget1 : C1 -> N -> list ref -> option ref) (cadd1 : C1 -> N -> list ref -> ref -> C1)
         (cget2 : C2 -> N -> list ref -> option ref) (cadd2 : C2 -> N -> list ref -> ref -> C2),
  lossy cget1 cadd1 -> lossy cget2 cadd2 ->
  forall (ce1 : C1) (ce2 : C2),
  (forall k a, cget1 ce1 k a = None) -> (forall k a, cget2 ce2 k a = None) ->
  forall n1 n2 ops1 ops2 (st1 : hstate C1) (st2 : hstate C2) o1 o2 d1 d2 F,
  hops_pre gt1 C1 cget1 cadd1 ce1 (hinit C1 ce1 n1) ops1 ->
  hrun gt1 C1 cget1 cadd1 ce1 (hinit C1 ce1 n1) ops1 = Some st1 ->
  hops_pre gt2 C2 cget2 cadd2 ce2 (hinit C2 ce2 n2) ops2 ->
  hrun gt2 C2 cget2 cadd2 ce2 (hinit C2 ce2 n2) ops2 = Some st2 ->
  s_l2v (h_s C1 st1) = s_l2v (h_s C2 st2) -> s_v2l (h_s C1 st1) = s_v2l (h_s C2 st2) ->
  hspec C1 st1 o1 d1 F -> hspec C2 st2 o2 d2 F ->
  exists st1' st2' r1 r2,
    hstep gt1 C1 cget1 cadd1 ce1 st1 o1 = Some st1' /\ hstep gt2 C2 cget2 cadd2 ce2 st2 o2 = Some st2' /\
    hslot C1 st1' d1 = Some r1 /\ hslot C2 st2' d2 = Some r2 /\
    (forall a, bfun_of (h_s C1 st1') r1 a = F a) /\
    (forall a, bfun_of (h_s C2 st2') r2 a = F a) /\
    count_reach (h_s C1 st1') (E r1) = count_reach (h_s C2 st2') (E r2) /\
    wf_b (h_s C1 st1') = true /\ wf_b (h_s C2 st2') = true.
Proof. exact hist_fresh_equiv. Qed.
Print Assumptions C08_hist_fresh_equiv.

(* non-vacuity: the long-lived manager of Mgr/HistoryExamples.v (24 calls incl. a reordering to
   [2;0;1], two collections, an added variable; unbounded cache, operands swapped) against a fresh
   one (reordered while empty, no cache) *)
Theorem C08_hist_example_fresh :
  exists stA' stB' r1 r2,
    hstep gtA acache ac_get ac_add nil ex_stA (HBin OAnd 20 5 7) = Some stA' /\
    hstep gtB unit nc_get nc_add tt ex_stB (HBin OAnd 6 4 5) = Some stB' /\
    hslot acache stA' 20 = Some r1 /\ hslot unit stB' 6 = Some r2 /\
    (forall a, bfun_of (h_s acache stA') r1 a = lift2 OAnd fA5 fA7 a) /\
    (forall a, bfun_of (h_s unit stB') r2 a = lift2 OAnd fA5 fA7 a) /\
    count_reach (h_s acache stA') (E r1) = count_reach (h_s unit stB') (E r2) /\
    wf_b (h_s acache stA') = true /\ wf_b (h_s unit stB') = true.
Proof. exact ex_fresh_equiv. Qed.
Print Assumptions C08_hist_example_fresh.

Theorem C08_hist_example_state :
  PositiveMap.cardinal (s_nodes (h_s acache ex_stA)) = 15 /\
  s_l2v (h_s acache ex_stA) = (2 :: 0 :: 1 :: 3 :: nil) /\
  s_v2l (h_s acache ex_stA) = (1 :: 2 :: 0 :: 3 :: nil) /\
  length (s_handles (h_s acache ex_stA)) = 17 /\
  h_next acache ex_stA = 1%N /\
  wf_b (h_s acache ex_stA) = true.
Proof. exact ex_stA_shape. Qed.
Print Assumptions C08_hist_example_state.

(* along a whole history (operations, collections, FURTHER reorderings, added variables, any cache
   behaviour): a slot that no call overwrites keeps its edge and its function of the variables *)
Theorem C08_hist_slot_stable :
  forall (gt : ref -> ref -> bool) (C : Type) (cget : C -> N -> list ref -> option ref)
         (cadd : C -> N -> list ref -> ref -> C), lossy cget cadd ->
  forall cempty : C, (forall k a, cget cempty k a = None) ->
  forall ops (st st' : hstate C), HInv C cget st -> hops_pre gt C cget cadd cempty st ops ->
  hrun gt C cget cadd cempty st ops = Some st' ->
  forall x e, (forall o, In o ops -> hdst o <> Some x) ->
  hget (s_handles (h_s C st)) x = Some e ->
  hget (s_handles (h_s C st')) x = Some e /\
  ref_ok (h_s C st') (eref e) /\
  forall a, bfun_of (h_s C st') (eref e) a = bfun_of (h_s C st) (eref e) a.
Proof. exact hist_slot_stable. Qed.
Print Assumptions C08_hist_slot_stable.

(** ** ALL histories, complement-edge kind (HISTc): reordering inside the BCDD manager state
    machine of Mgr/HistoryC.v ([set_var_order_model_c] = adjacent [level_swap_c]s with the
    complement-edge [cofactors] / [reduce]), frame of every call, "as on a freshly built diagram" *)
From OxiVerif Require Import DD.ApplyBcdd DD.ApplyBcddProofs DD.ApplyBcddEval
  Mgr.HistoryC Mgr.HistoryCProofs Mgr.HistoryCThms Mgr.HistoryCSpec Mgr.HistoryCExamples.

(* [set_var_order] in any state the invariant holds in (so: after any history): invariant again,
   same slots (edges incl. tags), same functions of the variables, requested relative order *)
Theorem C08_histc_reorder_keeps :
  forall (lt : edge -> edge -> bool) (C : Type) (cget : C -> N -> list edge -> option edge)
         (cadd : C -> N -> list edge -> edge -> C), lossyC cget cadd ->
  forall cempty : C, (forall k a, cget cempty k a = None) ->
  forall (st : hstate_c C) order (st' : hstate_c C), HInvC C cget st ->
  hop_pre_c C st (HSetVarOrder order) -> hstep_c lt C cget cadd cempty st (HSetVarOrder order) = Some st' ->
  HInvC C cget st' /\
  nlevels (hc_s C st') = nlevels (hc_s C st) /\
  s_handles (hc_s C st') = s_handles (hc_s C st) /\
  (forall x e, hget (s_handles (hc_s C st)) x = Some e ->
     ref_ok (hc_s C st') (eref e) /\
     forall a, cbfun_of (hc_s C st') e a = cbfun_of (hc_s C st) e a) /\
  (forall a b, a < b < length order ->
     nth (nth a order 0) (s_v2l (hc_s C st')) 0 < nth (nth b order 0) (s_v2l (hc_s C st')) 0).
Proof. exact histc_reorder_keeps. Qed.
Print Assumptions C08_histc_reorder_keeps.

(* every call - operations, collection, reordering, added variables - in any state reached by any
   history - keeps every other slot: same edge, same function *)
Theorem C08_histc_frame :
  forall (lt : edge -> edge -> bool) (C : Type) (cget : C -> N -> list edge -> option edge)
         (cadd : C -> N -> list edge -> edge -> C), lossyC cget cadd ->
  forall cempty : C, (forall k a, cget cempty k a = None) ->
  forall (st : hstate_c C) o (st' : hstate_c C), HInvC C cget st -> hop_pre_c C st o ->
  hstep_c lt C cget cadd cempty st o = Some st' ->
  forall x e, hdst o <> Some x -> hget (s_handles (hc_s C st)) x = Some e ->
  hget (s_handles (hc_s C st')) x = Some e /\
  ref_ok (hc_s C st') (eref e) /\
  forall a, cbfun_of (hc_s C st') e a = cbfun_of (hc_s C st) e a.
Proof. exact histc_frame_slots. Qed.
Print Assumptions C08_histc_frame.

(* ... and every function owned by a substitution object *)
Theorem C08_histc_frame_subst :
  forall (lt : edge -> edge -> bool) (C : Type) (cget : C -> N -> list edge -> option edge)
         (cadd : C -> N -> list edge -> edge -> C), lossyC cget cadd ->
  forall cempty : C, (forall k a, cget cempty k a = None) ->
  forall (st : hstate_c C) o (st' : hstate_c C), HInvC C cget st -> hop_pre_c C st o ->
  hstep_c lt C cget cadd cempty st o = Some st' ->
  forall id pairs v e, In (id, pairs) (hc_reg C st) -> In (v, e) pairs ->
  ref_ok (hc_s C st') (eref e) /\ forall a, cbfun_of (hc_s C st') e a = cbfun_of (hc_s C st) e a.
Proof. exact histc_frame_subst. Qed.
Print Assumptions C08_histc_frame_subst.

(* "as on a freshly built diagram": [ops1] any history (reorderings, collections, ...), [ops2] any
   other one (e.g. the shortest that builds the operands in a fresh manager with the same order):
   the same call returns the same function, the same complement tag, the same number of nodes *)
Theorem C08_histc_fresh_equiv :
  forall (lt1 lt2 : edge -> edge -> bool) (C1 C2 : Type)
         (cget1 : C1 -> N -> list edge -> option edge) (cadd1 : C1 -> N -> list edge -> edge -> C1)
         (cget2 : C2 -> N -> list edge -> option edge) (cadd2 : C2 -> N -> list edge -> edge -> C2),
  lossyC cget1 cadd1 -> lossyC cget2 cadd2 ->
  forall (ce1 : C1) (ce2 : C2), (forall k a, cget1 ce1 k a = None) -> (forall k a, cget2 ce2 k a = None) ->
  forall n1 n2 ops1 ops2 st1 st2 o1 o2 d1 d2 F,
  hops_pre_c lt1 C1 cget1 cadd1 ce1 (hinit_c C1 ce1 n1) ops1 ->
  hrun_c lt1 C1 cget1 cadd1 ce1 (hinit_c C1 ce1 n1) ops1 = Some st1 ->
  hops_pre_c lt2 C2 cget2 cadd2 ce2 (hinit_c C2 ce2 n2) ops2 ->
  hrun_c lt2 C2 cget2 cadd2 ce2 (hinit_c C2 ce2 n2) ops2 = Some st2 ->
  s_l2v (hc_s C1 st1) = s_l2v (hc_s C2 st2) -> s_v2l (hc_s C1 st1) = s_v2l (hc_s C2 st2) ->
  hspec_c C1 st1 o1 d1 F -> hspec_c C2 st2 o2 d2 F ->
  exists st1' st2' r1 r2,
    hstep_c lt1 C1 cget1 cadd1 ce1 st1 o1 = Some st1' /\ hstep_c lt2 C2 cget2 cadd2 ce2 st2 o2 = Some st2' /\
    cslot C1 st1' d1 = Some r1 /\ cslot C2 st2' d2 = Some r2 /\
    (forall a, cbfun_of (hc_s C1 st1') r1 a = F a) /\
    (forall a, cbfun_of (hc_s C2 st2') r2 a = F a) /\
    etag r1 = etag r2 /\
    count_reach (hc_s C1 st1') r1 = count_reach (hc_s C2 st2') r2 /\
    wf_b (hc_s C1 st1') = true /\ wf_b (hc_s C2 st2') = true.
Proof. exact histc_fresh_equiv. Qed.
Print Assumptions C08_histc_fresh_equiv.

(* non-vacuity: the long-lived BCDD manager of Mgr/HistoryCExamples.v (26 calls incl. a reordering
   to [2;0;1], two collections, an added variable; unbounded cache, "f < g" always) against a
   fresh one (reordered while empty, no cache, "f < g" never); the result is a complemented edge
   over 3 inner nodes in both, with different node ids *)
Theorem C08_histc_example_fresh :
  (exists stA' stB' r1 r2,
    hstep_c ltA eacache eac_get eac_add nil exc_stA (HBin OXor 20 5 7) = Some stA' /\
    hstep_c ltB unit enc_get enc_add tt exc_stB (HBin OXor 6 4 5) = Some stB' /\
    cslot eacache stA' 20 = Some r1 /\ cslot unit stB' 6 = Some r2 /\
    (forall a, cbfun_of (hc_s eacache stA') r1 a = lift2 OXor gA5 gA7 a) /\
    (forall a, cbfun_of (hc_s unit stB') r2 a = lift2 OXor gA5 gA7 a) /\
    etag r1 = etag r2 /\
    count_reach (hc_s eacache stA') r1 = count_reach (hc_s unit stB') r2 /\
    wf_b (hc_s eacache stA') = true /\ wf_b (hc_s unit stB') = true) /\
  exc_fresh_observed = (4%N, 4%N, true, true, false).
Proof. exact (conj exc_fresh_equiv exc_fresh_values). Qed.
Print Assumptions C08_histc_example_fresh.

Theorem C08_histc_example_state :
  PositiveMap.cardinal (s_nodes (hc_s eacache exc_stA)) = 16 /\
  s_l2v (hc_s eacache exc_stA) = (2 :: 0 :: 1 :: 3 :: nil) /\
  s_v2l (hc_s eacache exc_stA) = (1 :: 2 :: 0 :: 3 :: nil) /\
  length (s_handles (hc_s eacache exc_stA)) = 19 /\
  hc_next eacache exc_stA = 1%N /\
  wf_b (hc_s eacache exc_stA) = true /\
  existsb (fun h : N * edge => etag (snd h)) (s_handles (hc_s eacache exc_stA)) = true /\
  existsb (fun p : positive * node => existsb etag (nchildren (snd p)))
          (PositiveMap.elements (s_nodes (hc_s eacache exc_stA))) = true /\
  existsb (fun p : N * cpairs => existsb (fun vr : nat * edge => etag (snd vr)) (snd p))
          (hc_reg eacache exc_stA) = true.
Proof. exact exc_stA_shape. Qed.
Print Assumptions C08_histc_example_state.

(* along a whole history (operations, collections, FURTHER reorderings, added variables, any cache
   behaviour): a slot no call names as its destination keeps its edge and its function *)
Theorem C08_histc_slot_stable :
  forall (lt : edge -> edge -> bool) (C : Type) (cget : C -> N -> list edge -> option edge)
         (cadd : C -> N -> list edge -> edge -> C), lossyC cget cadd ->
  forall cempty : C, (forall k a, cget cempty k a = None) ->
  forall ops (st st' : hstate_c C), HInvC C cget st -> hops_pre_c lt C cget cadd cempty st ops ->
  hrun_c lt C cget cadd cempty st ops = Some st' ->
  forall x e, (forall o, In o ops -> hdst o <> Some x) ->
  hget (s_handles (hc_s C st)) x = Some e ->
  hget (s_handles (hc_s C st')) x = Some e /\
  ref_ok (hc_s C st') (eref e) /\
  forall a, cbfun_of (hc_s C st') e a = cbfun_of (hc_s C st) e a.
Proof. exact histc_slot_stable. Qed.
Print Assumptions C08_histc_slot_stable.

(** ** ZBDD level swaps and reorderings (package C08z: Mgr/LevelSwapZ*.v)

    [level_swap_zc s i] = [level_down(m, i)] with the ZBDD rules ([cofactor_skipped]: hi = Empty;
    [reduce]: hi = Empty -> lo) inside a [reorder] bracket; [level_swap_z s i] =
    [m.reorder(|m| level_down(m, i))] = tautology chain dropped ([zchain_drop] = [pre_reorder_mut]),
    swap, chain rebuilt ([zchain_rebuild] = [post_reorder_mut]); [set_var_order_model_z] = [set_var_order].
    [ZbddOK] = well-formed ZBDD table with the terminals Empty and Base. *)
From OxiVerif Require Import DD.Build DD.BuildProofs DD.FamSpec DD.FamSpecProofs DD.ZbddOps DD.ZbddOpsProofs DD.ZbddVars DD.ZbddVarsProofs.
From OxiVerif Require Import Mgr.LevelSwapZ Mgr.LevelSwapZSem Mgr.LevelSwapZSub Mgr.LevelSwapZProofs Mgr.LevelSwapZChain
  Mgr.LevelSwapZOrder Mgr.LevelSwapZFam Mgr.LevelSwapZFind.

(* (a) one swap inside the bracket keeps the ZBDD invariant (ordered, zero-suppressed, unique, maps inverse) *)
Theorem C08_zbdd_swap_core_ok : forall s i,
  ZbddOpsProofs.ZbddOK s -> S i < nlevels s -> ZbddOpsProofs.ZbddOK (level_swap_zc s i).
Proof. exact zc_ok. Qed.
Print Assumptions C08_zbdd_swap_core_ok.

Theorem C08_zbdd_swap_core_maps : forall s i,
  ZbddOpsProofs.ZbddOK s -> S i < nlevels s ->
  s_l2v (level_swap_zc s i) = swap_adj i (s_l2v s)
  /\ s_v2l (level_swap_zc s i) = map (swap_idx i) (s_v2l s)
  /\ (forall l, nth_error (s_l2v (level_swap_zc s i)) l = nth_error (s_l2v s) (swap_idx i l))
  /\ (forall v, nth_error (s_v2l (level_swap_zc s i)) v = option_map (swap_idx i) (nth_error (s_v2l s) v)).
Proof. exact zc_maps. Qed.
Print Assumptions C08_zbdd_swap_core_maps.

(* (c) handle list unchanged, every handle's node keeps its id *)
Theorem C08_zbdd_swap_core_handles : forall s i,
  ZbddOpsProofs.ZbddOK s -> S i < nlevels s ->
  s_handles (level_swap_zc s i) = s_handles s
  /\ forall h, In h (s_handles s) -> ref_ok (level_swap_zc s i) (eref (snd h)).
Proof. exact zc_handles_both. Qed.
Print Assumptions C08_zbdd_swap_core_handles.

(* (d) the other levels are not touched, in both directions *)
Theorem C08_zbdd_swap_core_untouched : forall s i,
  ZbddOpsProofs.ZbddOK s -> S i < nlevels s ->
  forall id nd, nlevel nd <> i -> nlevel nd <> S i ->
    (find_node s id = Some nd <-> find_node (level_swap_zc s i) id = Some nd).
Proof. exact zc_untouched_iff. Qed.
Print Assumptions C08_zbdd_swap_core_untouched.

Theorem C08_zbdd_swap_core_removed_only : forall s i,
  ZbddOpsProofs.ZbddOK s -> S i < nlevels s ->
  forall id nd, find_node s id = Some nd -> find_node (level_swap_zc s i) id = None ->
  nlevel nd = S i /\ In id (dropped_children s i)
  /\ forall k kd e, find_node (level_swap_zc s i) k = Some kd -> In e (nchildren kd) -> eref e <> RN id.
Proof. exact zc_removed_only. Qed.
Print Assumptions C08_zbdd_swap_core_removed_only.

(* (b) the Boolean view of every reference stored before and after, also of the edges inside nodes
   (seen from any level that is not between the swapped ones), over LEVELS with the two entries exchanged *)
Theorem C08_zbdd_swap_core_view : forall s i,
  ZbddOpsProofs.ZbddOK s -> S i < nlevels s ->
  forall r lvl c, ref_ok s r -> ref_ok (level_swap_zc s i) r -> choice_ok s c ->
  lvl <= rlevel s r -> (lvl <= i \/ S (S i) <= lvl) ->
  semz (level_swap_zc s i) (S (nlevels (level_swap_zc s i))) lvl r (swap_choice i c)
  = semz s (S (nlevels s)) lvl r c.
Proof. exact zc_view. Qed.
Print Assumptions C08_zbdd_swap_core_view.

Theorem C08_zbdd_swap_core_sem_levels : forall s i,
  ZbddOpsProofs.ZbddOK s -> S i < nlevels s ->
  forall e c, ref_ok s (eref e) -> ref_ok (level_swap_zc s i) (eref e) -> choice_ok s c ->
  sem_edge (level_swap_zc s i) e (swap_choice i c) = sem_edge s e c.
Proof. exact zc_sem_levels. Qed.
Print Assumptions C08_zbdd_swap_core_sem_levels.

(* (b) over the VARIABLES: unchanged *)
Theorem C08_zbdd_swap_core_sem_vars : forall s i,
  ZbddOpsProofs.ZbddOK s -> S i < nlevels s ->
  forall e a, ref_ok s (eref e) -> ref_ok (level_swap_zc s i) (eref e) ->
  eval_vars (level_swap_zc s i) e a = eval_vars s e a.
Proof. exact zc_sem_vars. Qed.
Print Assumptions C08_zbdd_swap_core_sem_vars.

(* (b) the same family over the variables: a set [a] of variables is a member before iff afterwards *)
Theorem C08_zbdd_swap_core_fam_vars : forall s i,
  ZbddOpsProofs.ZbddOK s -> S i < nlevels s ->
  forall e, ref_ok s (eref e) -> ref_ok (level_swap_zc s i) (eref e) ->
  exists F F', fam_of s (eref e) = Some F /\ fam_of (level_swap_zc s i) (eref e) = Some F'
    /\ forall a, fmem (set_levels (level_swap_zc s i) a) F' = fmem (set_levels s a) F.
Proof. exact zc_fam_vars. Qed.
Print Assumptions C08_zbdd_swap_core_fam_vars.

(* how a set of variables is written as a member list, and that every member is such a list *)
Theorem C08_zbdd_set_levels_spec : forall s a l,
  In l (set_levels s a) <-> l < nlevels s /\ a (nth l (s_l2v s) 0) = true.
Proof. exact set_levels_spec. Qed.
Print Assumptions C08_zbdd_set_levels_spec.

Theorem C08_zbdd_fam_member_is_set : forall s r F S, WF s -> s_kind s = KZbdd ->
  fam_of s r = Some F -> In S F -> set_levels s (vset s S) = S.
Proof. exact fam_member_is_set. Qed.
Print Assumptions C08_zbdd_fam_member_is_set.

(* the tautology chain: [pre_reorder_mut] removes only nodes nothing else refers to ... *)
Theorem C08_zbdd_chain_drop : forall s, ZbddOpsProofs.ZbddOK s ->
  ZbddOpsProofs.ZbddOK (zchain_drop s)
  /\ s_l2v (zchain_drop s) = s_l2v s /\ s_v2l (zchain_drop s) = s_v2l s /\ s_handles (zchain_drop s) = s_handles s
  /\ (forall id nd, find_node (zchain_drop s) id = Some nd -> find_node s id = Some nd)
  /\ (forall h, In h (s_handles s) -> ref_ok (zchain_drop s) (eref (snd h)))
  /\ (forall e a, ref_ok (zchain_drop s) (eref e) -> eval_vars (zchain_drop s) e a = eval_vars s e a)
  /\ (forall id nd, find_node s id = Some nd -> find_node (zchain_drop s) id = None ->
        (exists x, nchildren nd = [x; x])
        /\ (forall k kd e, find_node (zchain_drop s) k = Some kd -> In e (nchildren kd) -> eref e <> RN id)
        /\ (forall h, In h (s_handles s) -> eref (snd h) <> RN id)).
Proof. exact zchain_drop_all. Qed.
Print Assumptions C08_zbdd_chain_drop.

(* ... and [post_reorder_mut] only adds nodes and completes the chain: taut(l) = all subsets of the levels l.. *)
Theorem C08_zbdd_chain_rebuild : forall s, ZbddOpsProofs.ZbddOK s ->
  ZbddOpsProofs.ZbddOK (zchain_rebuild s) /\ extends s (zchain_rebuild s)
  /\ exists ch, ztaut_chain s = Some (zchain_rebuild s, ch) /\ length ch = nlevels s + 1
     /\ forall l t, nth_error ch l = Some t ->
          ref_ok (zchain_rebuild s) t
          /\ exists F, fam_of (zchain_rebuild s) t = Some F /\ feq F (f_powerset l (nlevels s - l)).
Proof. exact zchain_rebuild_ok. Qed.
Print Assumptions C08_zbdd_chain_rebuild.

(* the whole [reorder(level_down(i))] *)
Theorem C08_zbdd_level_swap_ok : forall s i,
  ZbddOpsProofs.ZbddOK s -> S i < nlevels s -> ZbddOpsProofs.ZbddOK (level_swap_z s i).
Proof. exact level_swap_z_ok. Qed.
Print Assumptions C08_zbdd_level_swap_ok.

Theorem C08_zbdd_level_swap_maps : forall s i,
  ZbddOpsProofs.ZbddOK s -> S i < nlevels s ->
  s_l2v (level_swap_z s i) = swap_adj i (s_l2v s)
  /\ s_v2l (level_swap_z s i) = map (swap_idx i) (s_v2l s)
  /\ (forall l, nth_error (s_l2v (level_swap_z s i)) l = nth_error (s_l2v s) (swap_idx i l))
  /\ (forall v, nth_error (s_v2l (level_swap_z s i)) v = option_map (swap_idx i) (nth_error (s_v2l s) v)).
Proof. exact level_swap_z_maps. Qed.
Print Assumptions C08_zbdd_level_swap_maps.

Theorem C08_zbdd_level_swap_handles : forall s i,
  ZbddOpsProofs.ZbddOK s -> S i < nlevels s ->
  s_handles (level_swap_z s i) = s_handles s
  /\ forall h, In h (s_handles s) -> survives s i (snd h) /\ ref_ok (level_swap_z s i) (eref (snd h)).
Proof. exact level_swap_z_handles_both. Qed.
Print Assumptions C08_zbdd_level_swap_handles.

(* (b) headline: every edge that is stored throughout denotes the same Boolean function of the variables *)
Theorem C08_zbdd_level_swap_sem_vars : forall s i,
  ZbddOpsProofs.ZbddOK s -> S i < nlevels s ->
  forall e a, survives s i e -> eval_vars (level_swap_z s i) e a = eval_vars s e a.
Proof. exact level_swap_z_sem_vars. Qed.
Print Assumptions C08_zbdd_level_swap_sem_vars.

Theorem C08_zbdd_level_swap_handles_vars : forall s i,
  ZbddOpsProofs.ZbddOK s -> S i < nlevels s ->
  forall h a, In h (s_handles s) ->
  eval_vars (level_swap_z s i) (snd h) a = eval_vars s (snd h) a
  /\ exists v, eval_vars s (snd h) a = Some v.
Proof. exact level_swap_z_handles_vars. Qed.
Print Assumptions C08_zbdd_level_swap_handles_vars.

(* (b) headline: ... and the same family of sets of variables: membership of every variable set, and the
   members of either family, read as sets of variables, are the members of the other *)
Theorem C08_zbdd_level_swap_fam_vars : forall s i,
  ZbddOpsProofs.ZbddOK s -> S i < nlevels s ->
  forall e, survives s i e ->
  exists F F', fam_of s (eref e) = Some F /\ fam_of (level_swap_z s i) (eref e) = Some F'
    /\ forall a, fmem (set_levels (level_swap_z s i) a) F' = fmem (set_levels s a) F.
Proof. exact level_swap_z_fam_vars. Qed.
Print Assumptions C08_zbdd_level_swap_fam_vars.

Theorem C08_zbdd_level_swap_fam_image : forall s i e,
  ZbddOpsProofs.ZbddOK s -> S i < nlevels s -> survives s i e ->
  exists F F', fam_of s (eref e) = Some F /\ fam_of (level_swap_z s i) (eref e) = Some F'
    /\ (forall S, In S F -> In (set_levels (level_swap_z s i) (vset s S)) F')
    /\ (forall S', In S' F' -> In (set_levels s (vset (level_swap_z s i) S')) F).
Proof. exact level_swap_z_fam_image. Qed.
Print Assumptions C08_zbdd_level_swap_fam_image.

(* the chain is complete again after the bracket *)
Theorem C08_zbdd_level_swap_chain : forall s i,
  ZbddOpsProofs.ZbddOK s -> S i < nlevels s ->
  exists ch, ztaut_chain (level_swap_zc (zchain_drop s) i) = Some (level_swap_z s i, ch)
    /\ length ch = nlevels s + 1
    /\ forall l t, nth_error ch l = Some t ->
         ref_ok (level_swap_z s i) t
         /\ exists F, fam_of (level_swap_z s i) t = Some F /\ feq F (f_powerset l (nlevels s - l)).
Proof. exact level_swap_z_chain. Qed.
Print Assumptions C08_zbdd_level_swap_chain.

(* any sequence of in-range swaps inside one bracket *)
Theorem C08_zbdd_swaps_fold : forall sw s,
  ZbddOpsProofs.ZbddOK s -> Forall (fun k => S k < nlevels s) sw ->
  let s' := fold_left level_swap_zc sw s in
  ZbddOpsProofs.ZbddOK s' /\ nlevels s' = nlevels s /\ s_handles s' = s_handles s
  /\ s_l2v s' = replay sw (s_l2v s) /\ s_v2l s' = fold_left (fun v k => map (swap_idx k) v) sw (s_v2l s)
  /\ (forall h a, In h (s_handles s) ->
        eval_vars s' (snd h) a = eval_vars s (snd h) a /\ exists v, eval_vars s (snd h) a = Some v).
Proof. exact zswaps_fold. Qed.
Print Assumptions C08_zbdd_swaps_fold.

(* set_var_order on a ZBDD manager *)
Theorem C08_zbdd_set_var_order_model_correct : forall s order,
  ZbddOpsProofs.ZbddOK s -> NoDup order -> Forall (fun v => v < nlevels s) order ->
  let target := sort_order (nlevels s) (map (fun v => nth v (s_v2l s) 0) order) in
  let s' := set_var_order_model_z s order in
  ZbddOpsProofs.ZbddOK s' /\ s_kind s' = s_kind s /\ nlevels s' = nlevels s /\ s_handles s' = s_handles s
  /\ (forall h a, In h (s_handles s) ->
        eval_vars s' (snd h) a = eval_vars s (snd h) a /\ exists v, eval_vars s (snd h) a = Some v)
  /\ (forall v, v < nlevels s -> nth v (s_v2l s') 0 = nth (nth v (s_v2l s) 0) target 0)
  /\ length (snd (bubble_sort target)) = inv target.
Proof. exact set_var_order_model_z_correct. Qed.
Print Assumptions C08_zbdd_set_var_order_model_correct.

Theorem C08_zbdd_set_var_order_model_respects : forall s order,
  ZbddOpsProofs.ZbddOK s -> NoDup order -> Forall (fun v => v < nlevels s) order ->
  forall a b, a < b < length order ->
    nth (nth a order 0) (s_v2l (set_var_order_model_z s order)) 0
    < nth (nth b order 0) (s_v2l (set_var_order_model_z s order)) 0.
Proof. exact set_var_order_model_z_respects. Qed.
Print Assumptions C08_zbdd_set_var_order_model_respects.

Theorem C08_zbdd_set_var_order_model_canonical : forall s order,
  ZbddOpsProofs.ZbddOK s -> NoDup order -> Forall (fun v => v < nlevels s) order ->
  forall h1 h2, In h1 (s_handles s) -> In h2 (s_handles s) ->
  (snd h1 = snd h2 <->
   forall c, choice_ok (set_var_order_model_z s order) c ->
     sem_edge (set_var_order_model_z s order) (snd h1) c = sem_edge (set_var_order_model_z s order) (snd h2) c).
Proof. exact set_var_order_model_z_canonical. Qed.
Print Assumptions C08_zbdd_set_var_order_model_canonical.

Theorem C08_zbdd_set_var_order_model_fam : forall s order h,
  ZbddOpsProofs.ZbddOK s -> NoDup order -> Forall (fun v => v < nlevels s) order -> In h (s_handles s) ->
  exists F F', fam_of s (eref (snd h)) = Some F /\ fam_of (set_var_order_model_z s order) (eref (snd h)) = Some F'
    /\ (forall a, fmem (set_levels (set_var_order_model_z s order) a) F' = fmem (set_levels s a) F)
    /\ (forall S, In S F -> In (set_levels (set_var_order_model_z s order) (vset s S)) F')
    /\ (forall S', In S' F' -> In (set_levels s (vset (set_var_order_model_z s order) S')) F).
Proof. exact set_var_order_model_z_fam_all. Qed.
Print Assumptions C08_zbdd_set_var_order_model_fam.

Theorem C08_zbdd_set_var_order_model_chain : forall s order,
  ZbddOpsProofs.ZbddOK s -> NoDup order -> Forall (fun v => v < nlevels s) order ->
  snd (bubble_sort (sort_order (nlevels s) (map (fun v => nth v (s_v2l s) 0) order))) <> [] ->
  exists ch, length ch = nlevels s + 1
    /\ forall l t, nth_error ch l = Some t ->
         ref_ok (set_var_order_model_z s order) t
         /\ exists F, fam_of (set_var_order_model_z s order) t = Some F /\ feq F (f_powerset l (nlevels s - l)).
Proof. exact set_var_order_model_z_chain. Qed.
Print Assumptions C08_zbdd_set_var_order_model_chain.

(* the hypotheses are satisfiable; on the example the chain is dropped and rebuilt, the loop takes the
   cofactor_skipped branch and the zero-suppression branch of reduce, creates a node and removes one *)
Theorem C08_zbdd_level_swap_example :
  ZbddOpsProofs.ZbddOK zex_swap /\ 1 < nlevels zex_swap
  /\ zchain_ids zex_swap = Some [3; 2; 1]%positive
  /\ PositiveMap.cardinal (s_nodes (zchain_drop zex_swap)) = 4
  /\ dep_ids (zchain_drop zex_swap) 0 = [5]%positive
  /\ (let z := level_swap_zc (zchain_drop zex_swap) 0 in
      find_node z 5 = Some (mkNode 0 [zex_e (RT 1); zex_e (RN 8)] 0 1)
      /\ find_node z 8 = Some (mkNode 1 [zex_e (RT 1); zex_e (RT 0)] 1 0)
      /\ find_node z 4 = None
      /\ find_node z 6 = Some (mkNode 1 [zex_e (RN 7); zex_e (RT 1)] 1 1)
      /\ PositiveMap.cardinal (s_nodes z) = 4)
  /\ (let z := level_swap_z zex_swap 0 in
      s_v2l z = [1; 0; 2] /\ s_l2v z = [1; 0; 2]
      /\ PositiveMap.cardinal (s_nodes z) = 7
      /\ option_map (@length positive) (zchain_ids z) = Some 3)
  /\ s_v2l (set_var_order_model_z zex_swap [2; 1; 0]) = [2; 1; 0]
  /\ set_var_order_model_z zex_swap [0; 1; 2] = zex_swap
  /\ NoDup [2; 1; 0] /\ Forall (fun v => v < nlevels zex_swap) [2; 1; 0].
Proof. exact zex_swap_all. Qed.
Print Assumptions C08_zbdd_level_swap_example.

(* the structural search for the chain ([zchain_ids], what the model's next [pre_reorder_mut] acts on)
   succeeds on every table that [post_reorder_mut] has completed *)

Theorem C08_zbdd_chain_rebuild_found : forall s, ZbddOpsProofs.ZbddOK s ->
  exists ids, zchain_ids (zchain_rebuild s) = Some ids /\ length ids = nlevels s.
Proof. exact zchain_rebuild_found. Qed.
Print Assumptions C08_zbdd_chain_rebuild_found.

Theorem C08_zbdd_level_swap_chain_found : forall s i,
  ZbddOpsProofs.ZbddOK s -> S i < nlevels s ->
  exists ids, zchain_ids (level_swap_z s i) = Some ids /\ length ids = nlevels s.
Proof. exact level_swap_z_found. Qed.
Print Assumptions C08_zbdd_level_swap_chain_found.

(** ** TDD level swaps and reorderings (package C08z, part T: Mgr/LevelSwapT*.v)

    Ternary nodes (children true, unknown, false), rule "all three children equal", interpreter [semk].
    A variable assignment is ternary: [a v] = 0 (true), 1 (unknown), 2 (false); [teval_vars s e a] is the
    value code (0 False, 1 Unknown, 2 True) of [e] under [a]. *)
From OxiVerif Require Import Mgr.LevelSwapT Mgr.LevelSwapTProofs Mgr.LevelSwapTOrder.

Theorem C08_tdd_level_swap_wf : forall s i,
  WF s -> s_kind s = KTdd -> S i < nlevels s -> WF (level_swap_t s i).
Proof. exact level_swap_t_wf. Qed.
Print Assumptions C08_tdd_level_swap_wf.

Theorem C08_tdd_level_swap_maps : forall s i,
  WF s -> s_kind s = KTdd -> S i < nlevels s ->
  s_l2v (level_swap_t s i) = swap_adj i (s_l2v s)
  /\ s_v2l (level_swap_t s i) = map (swap_idx i) (s_v2l s)
  /\ (forall l, nth_error (s_l2v (level_swap_t s i)) l = nth_error (s_l2v s) (swap_idx i l))
  /\ (forall v, nth_error (s_v2l (level_swap_t s i)) v = option_map (swap_idx i) (nth_error (s_v2l s) v)).
Proof. exact level_swap_t_maps_all. Qed.
Print Assumptions C08_tdd_level_swap_maps.

Theorem C08_tdd_level_swap_handles : forall s i,
  WF s -> s_kind s = KTdd -> S i < nlevels s ->
  forall h, In h (s_handles s) ->
    In h (s_handles (level_swap_t s i)) /\ ref_ok (level_swap_t s i) (eref (snd h)).
Proof. exact level_swap_t_handles_both. Qed.
Print Assumptions C08_tdd_level_swap_handles.

Theorem C08_tdd_level_swap_untouched : forall s i,
  WF s -> s_kind s = KTdd -> S i < nlevels s ->
  forall id nd, find_node s id = Some nd -> nlevel nd <> i -> nlevel nd <> S i ->
    find_node (level_swap_t s i) id = Some nd.
Proof. exact level_swap_t_untouched. Qed.
Print Assumptions C08_tdd_level_swap_untouched.

Theorem C08_tdd_level_swap_untouched_rev : forall s i,
  WF s -> s_kind s = KTdd -> S i < nlevels s ->
  forall id nd, find_node (level_swap_t s i) id = Some nd -> nlevel nd <> i -> nlevel nd <> S i ->
    find_node s id = Some nd.
Proof. exact level_swap_t_untouched_rev. Qed.
Print Assumptions C08_tdd_level_swap_untouched_rev.

Theorem C08_tdd_level_swap_removed_only : forall s i,
  WF s -> s_kind s = KTdd -> S i < nlevels s ->
  forall id nd, find_node s id = Some nd -> find_node (level_swap_t s i) id = None ->
  nlevel nd = S i /\ In id (dropped_children s i)
  /\ referenced (swap_nodes_t s i) (s_handles s) id = false.
Proof. exact level_swap_t_removed_only. Qed.
Print Assumptions C08_tdd_level_swap_removed_only.

Theorem C08_tdd_level_swap_child_ok : forall s i,
  WF s -> s_kind s = KTdd -> S i < nlevels s ->
  forall id nd e, find_node (level_swap_t s i) id = Some nd -> In e (nchildren nd) ->
    ref_ok (level_swap_t s i) (eref e).
Proof. exact level_swap_t_child_ok. Qed.
Print Assumptions C08_tdd_level_swap_child_ok.

Theorem C08_tdd_level_swap_sem_levels : forall s i,
  WF s -> s_kind s = KTdd -> S i < nlevels s ->
  forall e c, ref_ok s (eref e) -> ref_ok (level_swap_t s i) (eref e) -> choice_ok s c ->
  sem_edge (level_swap_t s i) e (swap_choice i c) = sem_edge s e c.
Proof. exact level_swap_t_sem_levels. Qed.
Print Assumptions C08_tdd_level_swap_sem_levels.

(* headline: every edge stored before and after denotes the same three-valued function of the variables *)
Theorem C08_tdd_level_swap_sem_vars : forall s i,
  WF s -> s_kind s = KTdd -> S i < nlevels s ->
  forall e a, tasg_ok a -> ref_ok s (eref e) -> ref_ok (level_swap_t s i) (eref e) ->
  teval_vars (level_swap_t s i) e a = teval_vars s e a.
Proof. exact level_swap_t_sem_vars. Qed.
Print Assumptions C08_tdd_level_swap_sem_vars.

Theorem C08_tdd_level_swap_handles_vars : forall s i,
  WF s -> s_kind s = KTdd -> S i < nlevels s ->
  forall h a, tasg_ok a -> In h (s_handles s) ->
  teval_vars (level_swap_t s i) (snd h) a = teval_vars s (snd h) a
  /\ exists v, teval_vars s (snd h) a = Some v.
Proof. exact level_swap_t_handles_vars. Qed.
Print Assumptions C08_tdd_level_swap_handles_vars.

Theorem C08_tdd_swaps_fold : forall sw s,
  WF s -> s_kind s = KTdd -> Forall (fun k => S k < nlevels s) sw ->
  let s' := fold_left level_swap_t sw s in
  WF s' /\ s_kind s' = s_kind s /\ nlevels s' = nlevels s /\ s_handles s' = s_handles s
  /\ s_l2v s' = replay sw (s_l2v s)
  /\ (forall h a, tasg_ok a -> In h (s_handles s) ->
        teval_vars s' (snd h) a = teval_vars s (snd h) a /\ exists v, teval_vars s (snd h) a = Some v).
Proof. exact tswaps_fold. Qed.
Print Assumptions C08_tdd_swaps_fold.

Theorem C08_tdd_set_var_order_model_correct : forall s order,
  WF s -> s_kind s = KTdd -> NoDup order -> Forall (fun v => v < nlevels s) order ->
  let target := sort_order (nlevels s) (map (fun v => nth v (s_v2l s) 0) order) in
  let s' := set_var_order_model_t s order in
  WF s' /\ s_kind s' = s_kind s /\ nlevels s' = nlevels s /\ s_handles s' = s_handles s
  /\ (forall h a, tasg_ok a -> In h (s_handles s) ->
        teval_vars s' (snd h) a = teval_vars s (snd h) a /\ exists v, teval_vars s (snd h) a = Some v)
  /\ (forall v, v < nlevels s -> nth v (s_v2l s') 0 = nth (nth v (s_v2l s) 0) target 0)
  /\ length (snd (bubble_sort target)) = inv target.
Proof. exact set_var_order_model_t_correct. Qed.
Print Assumptions C08_tdd_set_var_order_model_correct.

Theorem C08_tdd_set_var_order_model_respects : forall s order,
  WF s -> s_kind s = KTdd -> NoDup order -> Forall (fun v => v < nlevels s) order ->
  forall a b, a < b < length order ->
    nth (nth a order 0) (s_v2l (set_var_order_model_t s order)) 0
    < nth (nth b order 0) (s_v2l (set_var_order_model_t s order)) 0.
Proof. exact set_var_order_model_t_respects. Qed.
Print Assumptions C08_tdd_set_var_order_model_respects.

Theorem C08_tdd_set_var_order_model_canonical : forall s order,
  WF s -> s_kind s = KTdd -> NoDup order -> Forall (fun v => v < nlevels s) order ->
  forall h1 h2, In h1 (s_handles s) -> In h2 (s_handles s) ->
  (snd h1 = snd h2 <->
   forall c, choice_ok (set_var_order_model_t s order) c ->
     sem_edge (set_var_order_model_t s order) (snd h1) c = sem_edge (set_var_order_model_t s order) (snd h2) c).
Proof. exact set_var_order_model_t_canonical. Qed.
Print Assumptions C08_tdd_set_var_order_model_canonical.

(* the hypotheses are satisfiable; on the example the loop rewrites a node one of whose children lies on the
   lower level while two skip it, creates three nodes and removes one *)
Theorem C08_tdd_level_swap_example :
  WF tex_swap /\ s_kind tex_swap = KTdd /\ 1 < nlevels tex_swap
  /\ dep_ids tex_swap 0 = [3]%positive
  /\ (let z := level_swap_t tex_swap 0 in
      find_node z 3 = Some (mkNode 0 [tex_e (RN 4); tex_e (RN 5); tex_e (RN 6)] 0 1)
      /\ find_node z 4 = Some (mkNode 1 [tex_e (RN 1); tex_e (RT 1); tex_e (RN 1)] 1 0)
      /\ find_node z 5 = Some (mkNode 1 [tex_e (RT 1); tex_e (RT 1); tex_e (RN 1)] 1 0)
      /\ find_node z 6 = Some (mkNode 1 [tex_e (RT 0); tex_e (RT 1); tex_e (RN 1)] 1 0)
      /\ find_node z 2 = None
      /\ find_node z 1 = Some (mkNode 2 [tex_e (RT 2); tex_e (RT 1); tex_e (RT 0)] 2 3)
      /\ PositiveMap.cardinal (s_nodes z) = 5
      /\ s_v2l z = [1; 0; 2] /\ s_l2v z = [1; 0; 2])
  /\ s_v2l (set_var_order_model_t tex_swap [2; 1; 0]) = [2; 1; 0]
  /\ NoDup [2; 1; 0] /\ Forall (fun v => v < nlevels tex_swap) [2; 1; 0].
Proof. exact tex_swap_all. Qed.
Print Assumptions C08_tdd_level_swap_example.

(** ** ALL histories, ZBDD kind (HISTz, Mgr/HistoryZ.v): reordering inside a history (chain dropped and
    rebuilt), the frame of every call, "as on a freshly built diagram" *)
From Coq Require Import Bool List NArith PArith FMapPositive.
From OxiVerif Require Import DD.Sem DD.Build DD.Apply DD.ConfigApply DD.FamSpec DD.ZbddOps DD.ZbddOpsProofs DD.ZbddBool
  DD.ZbddBoolProofs DD.ZbddEvalProofs Mgr.LevelSwapZ Mgr.LevelSwapZProofs Mgr.HistoryExamples
  Mgr.HistoryZ Mgr.HistoryZBase Mgr.HistoryZCache Mgr.HistoryZFam Mgr.HistoryZProofs Mgr.HistoryZThms Mgr.HistoryZSpec Mgr.HistoryZTie
  Mgr.HistoryZExamples.

(* set_var_order in any state of any history: invariant, same slots, same functions and families, requested relative order *)
Theorem C08_histz_reorder_keeps :
  forall (gt : ref -> ref -> bool) (C : Type) (cget : C -> N -> list ref -> list nat -> option ref)
  (cadd : C -> N -> list ref -> list nat -> ref -> C),
  zlossy C cget cadd ->
  forall cempty : C,
  (forall (k : N) (a : list ref) (m : list nat), cget cempty k a m = None) ->
  forall (st : hstate_z C) (order : list nat) (st' : hstate_z C),
  HInvZ C cget st ->
  zhop_pre C st (ZHSetVarOrder order) ->
  hstep_z gt C cget cadd cempty st (ZHSetVarOrder order) = Some st' ->
  HInvZ C cget st' /\
  nlevels (hz_s C st') = nlevels (hz_s C st) /\
  s_handles (hz_s C st') = s_handles (hz_s C st) /\
  (forall (x : N) (e : edge),
  hget (s_handles (hz_s C st)) x = Some e ->
  ref_ok (hz_s C st') (eref e) /\
  (forall a : asg, zbfun_of (hz_s C st') (eref e) a = zbfun_of (hz_s C st) (eref e) a) /\
  (forall a : asg, vmem (hz_s C st') (eref e) a <-> vmem (hz_s C st) (eref e) a)) /\
  (forall a b : nat,
  a < b < length order -> nth (nth a order 0) (s_v2l (hz_s C st')) 0 < nth (nth b order 0) (s_v2l (hz_s C st')) 0).
Proof. exact histz_reorder_keeps. Qed.
Print Assumptions C08_histz_reorder_keeps.

(* no call changes a slot other than its destination; the edge keeps its family; its Boolean view gains "new variables false" *)
Theorem C08_histz_frame :
  forall (gt : ref -> ref -> bool) (C : Type) (cget : C -> N -> list ref -> list nat -> option ref)
  (cadd : C -> N -> list ref -> list nat -> ref -> C),
  zlossy C cget cadd ->
  forall cempty : C,
  (forall (k : N) (a : list ref) (m : list nat), cget cempty k a m = None) ->
  forall (st : hstate_z C) (o : zhop) (st' : hstate_z C),
  HInvZ C cget st ->
  zhop_pre C st o ->
  hstep_z gt C cget cadd cempty st o = Some st' ->
  forall (x : N) (e : edge),
  zhdst o <> Some x ->
  hget (s_handles (hz_s C st)) x = Some e ->
  hget (s_handles (hz_s C st')) x = Some e /\
  ref_ok (hz_s C st') (eref e) /\
  nlevels (hz_s C st) <= nlevels (hz_s C st') /\
  (forall a : asg, vmem (hz_s C st') (eref e) a <-> vmem (hz_s C st) (eref e) a) /\
  (forall a : asg,
  zbfun_of (hz_s C st') (eref e) a =
  zbfun_of (hz_s C st) (eref e) a && newfalse (nlevels (hz_s C st)) (nlevels (hz_s C st')) a).
Proof. exact histz_frame_slots. Qed.
Print Assumptions C08_histz_frame.

(* along whole histories *)
Theorem C08_histz_slot_stable :
  forall (gt : ref -> ref -> bool) (C : Type) (cget : C -> N -> list ref -> list nat -> option ref)
  (cadd : C -> N -> list ref -> list nat -> ref -> C),
  zlossy C cget cadd ->
  forall cempty : C,
  (forall (k : N) (a : list ref) (m : list nat), cget cempty k a m = None) ->
  forall (ops : list zhop) (st st' : hstate_z C),
  HInvZ C cget st ->
  zhops_pre gt C cget cadd cempty st ops ->
  hrun_z gt C cget cadd cempty st ops = Some st' ->
  forall (x : N) (e : edge),
  (forall o : zhop, In o ops -> zhdst o <> Some x) ->
  hget (s_handles (hz_s C st)) x = Some e ->
  hget (s_handles (hz_s C st')) x = Some e /\
  ref_ok (hz_s C st') (eref e) /\
  nlevels (hz_s C st) <= nlevels (hz_s C st') /\
  (forall a : asg, vmem (hz_s C st') (eref e) a <-> vmem (hz_s C st) (eref e) a) /\
  (forall a : asg,
  zbfun_of (hz_s C st') (eref e) a =
  zbfun_of (hz_s C st) (eref e) a && newfalse (nlevels (hz_s C st)) (nlevels (hz_s C st')) a).
Proof. exact histz_slot_stable. Qed.
Print Assumptions C08_histz_slot_stable.

(* a call after an arbitrary history and the same call in a freshly built manager with the same order: same function, same node count *)
Theorem C08_histz_fresh_equiv :
  forall (gt1 gt2 : ref -> ref -> bool) (C1 C2 : Type) (cget1 : C1 -> N -> list ref -> list nat -> option ref)
  (cadd1 : C1 -> N -> list ref -> list nat -> ref -> C1) (cget2 : C2 -> N -> list ref -> list nat -> option ref)
  (cadd2 : C2 -> N -> list ref -> list nat -> ref -> C2),
  zlossy C1 cget1 cadd1 ->
  zlossy C2 cget2 cadd2 ->
  forall (ce1 : C1) (ce2 : C2),
  (forall (k : N) (a : list ref) (m : list nat), cget1 ce1 k a m = None) ->
  (forall (k : N) (a : list ref) (m : list nat), cget2 ce2 k a m = None) ->
  forall (n1 n2 : nat) (ops1 ops2 : list zhop) (st1 : hstate_z C1) (st2 : hstate_z C2) (o1 o2 : zhop) (d1 d2 : N) (F : bfun),
  zhops_pre gt1 C1 cget1 cadd1 ce1 (hinit_z C1 ce1 n1) ops1 ->
  hrun_z gt1 C1 cget1 cadd1 ce1 (hinit_z C1 ce1 n1) ops1 = Some st1 ->
  zhops_pre gt2 C2 cget2 cadd2 ce2 (hinit_z C2 ce2 n2) ops2 ->
  hrun_z gt2 C2 cget2 cadd2 ce2 (hinit_z C2 ce2 n2) ops2 = Some st2 ->
  s_l2v (hz_s C1 st1) = s_l2v (hz_s C2 st2) ->
  s_v2l (hz_s C1 st1) = s_v2l (hz_s C2 st2) ->
  hspec_z C1 st1 o1 d1 F ->
  hspec_z C2 st2 o2 d2 F ->
  exists (st1' : hstate_z C1) (st2' : hstate_z C2) (r1 r2 : ref),
  hstep_z gt1 C1 cget1 cadd1 ce1 st1 o1 = Some st1' /\
  hstep_z gt2 C2 cget2 cadd2 ce2 st2 o2 = Some st2' /\
  zslot C1 st1' d1 = Some r1 /\
  zslot C2 st2' d2 = Some r2 /\
  (forall a : asg, zbfun_of (hz_s C1 st1') r1 a = F a) /\
  (forall a : asg, zbfun_of (hz_s C2 st2') r2 a = F a) /\
  count_reach (hz_s C1 st1') (E r1) = count_reach (hz_s C2 st2') (E r2) /\
  wf_b (hz_s C1 st1') = true /\ wf_b (hz_s C2 st2') = true.
Proof. exact histz_fresh_equiv. Qed.
Print Assumptions C08_histz_fresh_equiv.

(* instantiated: 31-call history (cache, swapped operands) vs. fresh 4-variable manager (no cache) *)
Theorem C08_histz_example_fresh :
  exists (stA' : hstate_z zacache) (stB' : hstate_z unit) (r1 r2 : ref),
  hstep_z zgtA zacache zac_get zac_add nil exz_stA (ZHSet ZUnion 30 5 6) = Some stA' /\
  hstep_z zgtB unit znc_get znc_add tt exz_stB (ZHSet ZUnion 9 6 8) = Some stB' /\
  zslot zacache stA' 30 = Some r1 /\
  zslot unit stB' 9 = Some r2 /\
  (forall a : asg, zbfun_of (hz_s zacache stA') r1 a = zop_s ZUnion zfA5 zfA6 a) /\
  (forall a : asg, zbfun_of (hz_s unit stB') r2 a = zop_s ZUnion zfA5 zfA6 a) /\
  count_reach (hz_s zacache stA') (E r1) = count_reach (hz_s unit stB') (E r2) /\
  wf_b (hz_s zacache stA') = true /\ wf_b (hz_s unit stB') = true.
Proof. exact exz_fresh_equiv. Qed.
Print Assumptions C08_histz_example_fresh.

Theorem C08_histz_example_state :
  PositiveMap.cardinal (s_nodes (hz_s zacache exz_stA)) = 39 /\
  s_l2v (hz_s zacache exz_stA) = 2 :: 0 :: 1 :: 3 :: nil /\
  s_v2l (hz_s zacache exz_stA) = 1 :: 2 :: 0 :: 3 :: nil /\
  length (s_handles (hz_s zacache exz_stA)) = 25 /\
  wf_b (hz_s zacache exz_stA) = true /\ zbdd_ok_b (hz_s zacache exz_stA) = true /\ zchain_ok_b (hz_s zacache exz_stA) = true.
Proof. exact exz_stA_shape. Qed.
Print Assumptions C08_histz_example_state.


(** ** ALL histories, MTBDD kind (HISTz part M, Mgr/HistoryM.v): reordering inside a history, the frame of
    every call, "as on a freshly built diagram" *)
From Coq Require Import Bool List NArith ZArith PArith FMapPositive.
From OxiVerif Require Import DD.Sem DD.Build DD.Apply DD.ApplyProofs DD.ConfigApply Num.I64 DD.ApplyMtbdd DD.ApplyMtbddBase
  DD.ApplyMtbddProofs DD.ApplyMtbddTop Mgr.HistoryExamples
  Mgr.HistoryM Mgr.HistoryMBase Mgr.HistoryMProofs Mgr.HistoryMThms Mgr.HistoryMSpec Mgr.HistoryMTie Mgr.HistoryMExamples.

Theorem C08_histm_reorder_keeps :
  forall (gt : ref -> ref -> bool) (C : Type) (cget : C -> N -> list ref -> option ref)
  (cadd : C -> N -> list ref -> ref -> C),
  lossy cget cadd ->
  forall cempty : C,
  (forall (k : N) (a : list ref), cget cempty k a = None) ->
  forall (st : hstate_m C) (order : list nat) (st' : hstate_m C),
  HInvM C cget st ->
  mhop_pre C st (MHSetVarOrder order) ->
  hstep_m gt C cget cadd cempty st (MHSetVarOrder order) = Some st' ->
  HInvM C cget st' /\
  nlevels (hm_s C st') = nlevels (hm_s C st) /\
  s_handles (hm_s C st') = s_handles (hm_s C st) /\
  s_terms (hm_s C st') = s_terms (hm_s C st) /\
  (forall (x : N) (e : edge),
  hget (s_handles (hm_s C st)) x = Some e ->
  ref_ok (hm_s C st') (eref e) /\ (forall a : asg, mfun_of (hm_s C st') (eref e) a = mfun_of (hm_s C st) (eref e) a)) /\
  (forall a b : nat,
  a < b < length order -> nth (nth a order 0) (s_v2l (hm_s C st')) 0 < nth (nth b order 0) (s_v2l (hm_s C st')) 0).
Proof. exact histm_reorder_keeps. Qed.
Print Assumptions C08_histm_reorder_keeps.

Theorem C08_histm_frame :
  forall (gt : ref -> ref -> bool) (C : Type) (cget : C -> N -> list ref -> option ref)
  (cadd : C -> N -> list ref -> ref -> C),
  lossy cget cadd ->
  forall cempty : C,
  (forall (k : N) (a : list ref), cget cempty k a = None) ->
  forall (st : hstate_m C) (o : mhop) (st' : hstate_m C),
  HInvM C cget st ->
  mhop_pre C st o ->
  hstep_m gt C cget cadd cempty st o = Some st' ->
  forall (x : N) (e : edge),
  mhdst o <> Some x ->
  hget (s_handles (hm_s C st)) x = Some e ->
  hget (s_handles (hm_s C st')) x = Some e /\
  ref_ok (hm_s C st') (eref e) /\ (forall a : asg, mfun_of (hm_s C st') (eref e) a = mfun_of (hm_s C st) (eref e) a).
Proof. exact histm_frame_slots. Qed.
Print Assumptions C08_histm_frame.

Theorem C08_histm_slot_stable :
  forall (gt : ref -> ref -> bool) (C : Type) (cget : C -> N -> list ref -> option ref)
  (cadd : C -> N -> list ref -> ref -> C),
  lossy cget cadd ->
  forall cempty : C,
  (forall (k : N) (a : list ref), cget cempty k a = None) ->
  forall (ops : list mhop) (st st' : hstate_m C),
  HInvM C cget st ->
  mhops_pre gt C cget cadd cempty st ops ->
  hrun_m gt C cget cadd cempty st ops = Some st' ->
  forall (x : N) (e : edge),
  (forall o : mhop, In o ops -> mhdst o <> Some x) ->
  hget (s_handles (hm_s C st)) x = Some e ->
  hget (s_handles (hm_s C st')) x = Some e /\
  ref_ok (hm_s C st') (eref e) /\ (forall a : asg, mfun_of (hm_s C st') (eref e) a = mfun_of (hm_s C st) (eref e) a).
Proof. exact histm_slot_stable. Qed.
Print Assumptions C08_histm_slot_stable.

Theorem C08_histm_fresh_equiv :
  forall (gt1 gt2 : ref -> ref -> bool) (C1 C2 : Type) (cget1 : C1 -> N -> list ref -> option ref)
  (cadd1 : C1 -> N -> list ref -> ref -> C1) (cget2 : C2 -> N -> list ref -> option ref)
  (cadd2 : C2 -> N -> list ref -> ref -> C2),
  lossy cget1 cadd1 ->
  lossy cget2 cadd2 ->
  forall (ce1 : C1) (ce2 : C2),
  (forall (k : N) (a : list ref), cget1 ce1 k a = None) ->
  (forall (k : N) (a : list ref), cget2 ce2 k a = None) ->
  forall (n1 n2 : nat) (ops1 ops2 : list mhop) (st1 : hstate_m C1) (st2 : hstate_m C2) (o1 o2 : mhop)
  (d1 d2 : N) (F : asg -> i64v),
  mhops_pre gt1 C1 cget1 cadd1 ce1 (hinit_m C1 ce1 n1) ops1 ->
  hrun_m gt1 C1 cget1 cadd1 ce1 (hinit_m C1 ce1 n1) ops1 = Some st1 ->
  mhops_pre gt2 C2 cget2 cadd2 ce2 (hinit_m C2 ce2 n2) ops2 ->
  hrun_m gt2 C2 cget2 cadd2 ce2 (hinit_m C2 ce2 n2) ops2 = Some st2 ->
  s_l2v (hm_s C1 st1) = s_l2v (hm_s C2 st2) ->
  s_v2l (hm_s C1 st1) = s_v2l (hm_s C2 st2) ->
  hspec_m C1 st1 o1 d1 F ->
  hspec_m C2 st2 o2 d2 F ->
  exists (st1' : hstate_m C1) (st2' : hstate_m C2) (r1 r2 : ref),
  hstep_m gt1 C1 cget1 cadd1 ce1 st1 o1 = Some st1' /\
  hstep_m gt2 C2 cget2 cadd2 ce2 st2 o2 = Some st2' /\
  mslot C1 st1' d1 = Some r1 /\
  mslot C2 st2' d2 = Some r2 /\
  (forall a : asg, mfun_of (hm_s C1 st1') r1 a = F a) /\
  (forall a : asg, mfun_of (hm_s C2 st2') r2 a = F a) /\
  count_reach (hm_s C1 st1') (E r1) = count_reach (hm_s C2 st2') (E r2) /\
  wf_b (hm_s C1 st1') = true /\ wf_b (hm_s C2 st2') = true.
Proof. exact histm_fresh_equiv. Qed.
Print Assumptions C08_histm_fresh_equiv.

(* instantiated: 28-call history (cache, swapped operands, two collections, reordering, added variable) vs. fresh 4-variable manager (no cache) *)
Theorem C08_histm_example_fresh :
  exists (stA' : hstate_m acache) (stB' : hstate_m unit) (r1 r2 : ref),
  hstep_m mgtA acache ac_get ac_add nil exm_stA (MHBin MMul 30 5 17) = Some stA' /\
  hstep_m mgtB unit nc_get nc_add tt exm_stB (MHBin MMul 9 5 2) = Some stB' /\
  mslot acache stA' 30 = Some r1 /\
  mslot unit stB' 9 = Some r2 /\
  (forall a : asg, mfun_of (hm_s acache stA') r1 a = mop_eval MMul (mfA5 a) (mfA17 a)) /\
  (forall a : asg, mfun_of (hm_s unit stB') r2 a = mop_eval MMul (mfA5 a) (mfA17 a)) /\
  count_reach (hm_s acache stA') (E r1) = count_reach (hm_s unit stB') (E r2) /\
  wf_b (hm_s acache stA') = true /\ wf_b (hm_s unit stB') = true.
Proof. exact exm_fresh_equiv. Qed.
Print Assumptions C08_histm_example_fresh.

