(** C09 -- ZBDD set-family operations match set semantics: property theorems
    (proved in DD/FamSpecProofs.v, DD/ZbddOpsProofs.v, DD/ZbddSubsetProofs.v,
    DD/ZbddSoundProofs.v; spec layer DD/FamSpec.v, model DD/ZbddOps.v,
    examples DD/ZbddExamples.v).

    Reading: [fam_of s r] is the family of the edge [r] in table [s] as a list
    of strictly increasing lists of *levels* ([famz], DD/Table.v);
    [f_union], [f_subset1], ... are the documented set expressions
    (DD/FamSpec.v); [feq R F] says that [R] and [F] have the same members. *)
From Coq Require Import List NArith PArith Bool Arith FMapPositive.
From OxiVerif Require Import DD.Table DD.TableExtra DD.TableProofs DD.Build DD.BuildProofs
  DD.FamSpec DD.FamSpecProofs DD.ZbddOps DD.ZbddOpsProofs DD.ZbddSubsetProofs DD.ZbddSoundProofs
  DD.ZbddVars DD.ZbddVarsProofs DD.ZbddExamples DD.ZbddThms.
Import ListNotations.

(** the executable checker run on real snapshots decides the invariant assumed below *)
Theorem C09_zbdd_ok_b_spec : forall s, zbdd_ok_b s = true <-> ZbddOK s.
Proof. exact zbdd_ok_b_spec. Qed.
Print Assumptions C09_zbdd_ok_b_spec.

(** the set expressions of the spec layer mean what the documentation says *)
Theorem C09_set_expressions : forall (F G : fam) (v : nat) (S : lset),
  (In S f_empty <-> False) /\ (In S f_base <-> S = []) /\ (In S (f_singleton v) <-> S = [v]) /\
  (In S (f_union F G) <-> In S F \/ In S G) /\
  (In S (f_intsec F G) <-> In S F /\ In S G) /\
  (In S (f_diff F G) <-> In S F /\ ~ In S G) /\
  (In S (f_subset0 v F) <-> In S F /\ ~ In v S) /\
  (In S (f_subset1 v F) <-> exists S0, In S0 F /\ In v S0 /\ S = sremove v S0) /\
  (In S (f_change v F) <->
     (exists S0, In S0 F /\ ~ In v S0 /\ S = sinsert v S0) \/
     (exists S0, In S0 F /\ In v S0 /\ S = sremove v S0)) /\
  (In S (f_make_node v F G) <-> In S G \/ exists S0, In S0 F /\ S = sinsert v S0).
Proof. exact c09_set_expressions_thm. Qed.
Print Assumptions C09_set_expressions.

(** [sremove] / [sinsert] are set difference / union with a singleton (on increasing lists) *)
Theorem C09_set_ops : forall v S x,
  (In x (sremove v S) <-> In x S /\ x <> v) /\ (In x (sinsert v S) <-> x = v \/ In x S) /\
  (forall lo, incr_from lo S -> incr_from lo (sremove v S)) /\
  (forall lo, incr_from lo S -> lo <= v -> incr_from lo (sinsert v S)).
Proof. exact c09_set_ops_thm. Qed.
Print Assumptions C09_set_ops.

(** the comparison used by the driver decides "same members" *)
Theorem C09_feq_b_spec : forall F G, feq_b F G = true <-> (forall S, In S F <-> In S G).
Proof. exact feq_b_spec. Qed.
Print Assumptions C09_feq_b_spec.

(** families of well-formed ZBDD edges: defined, members are strictly
    increasing lists of levels between the root's level and [nlevels], no duplicates *)
Theorem C09_fam_total : forall s, WF s -> s_kind s = KZbdd ->
  forall r, ref_ok s r -> exists F, fam_of s r = Some F.
Proof. exact fam_of_total. Qed.
Print Assumptions C09_fam_total.

Theorem C09_fam_members : forall s, WF s -> s_kind s = KZbdd ->
  forall r F S, fam_of s r = Some F -> In S F ->
  incr_from (rlevel s r) S /\ Forall (fun x => x < nlevels s) S.
Proof. exact fam_of_members. Qed.
Print Assumptions C09_fam_members.

Theorem C09_fam_nodup : forall s, WF s -> s_kind s = KZbdd ->
  forall f r F, famz s f r = Some F -> NoDup F.
Proof. exact famz_nodup. Qed.
Print Assumptions C09_fam_nodup.

(** the variable reading: variable [v] belongs to the variable set of [S] iff its level belongs to [S] *)
Theorem C09_var_view_mem : forall s v vl S, WF s ->
  nth_error (s_v2l s) v = Some vl -> Forall (fun x => x < nlevels s) S ->
  (In v (map (fun l => nth l (s_l2v s) 0) S) <-> In vl S).
Proof. exact var_view_mem. Qed.
Print Assumptions C09_var_view_mem.

(** bool_view: the Boolean-function view (membership = satisfying assignment
    over all levels of the manager) is the characteristic function of the family view *)
Theorem C09_bool_view : forall s, WF s -> s_kind s = KZbdd ->
  forall r c F, ref_ok s r -> choice_ok s c -> fam_of s r = Some F ->
  semz s (S (nlevels s)) 0 r c = Some (fmem (true_levels c 0 (nlevels s)) F).
Proof. exact bool_view. Qed.
Print Assumptions C09_bool_view.

Theorem C09_bool_view_sem_edge : forall s, WF s -> s_kind s = KZbdd ->
  forall e c F, ref_ok s (eref e) -> choice_ok s c -> fam_of s (eref e) = Some F ->
  sem_edge s e c = Some (if fam_bool (nlevels s) F c then 1%N else 0%N).
Proof. exact bool_view_sem_edge. Qed.
Print Assumptions C09_bool_view_sem_edge.

(** [reduce] with the zero-suppression rule: the table stays well-formed
    (zero-suppressed, unique), is only extended, and the result denotes
    lo u { lvl :: T | T in hi } *)
Theorem C09_zmk_node_ok : forall s lvl hi lo PA PB s' r,
  ZbddOK s -> lvl < nlevels s -> ZDen s hi PA -> ZDen s lo PB ->
  lvl < rlevel s hi -> lvl < rlevel s lo ->
  zmk_node s lvl hi lo = (s', r) ->
  ZbddOK s' /\ extends s s' /\
  ZDen s' r (fun S => (exists T, S = lvl :: T /\ PA T) \/ PB S) /\ lvl <= rlevel s' r.
Proof. exact zmk_node_ok. Qed.
Print Assumptions C09_zmk_node_ok.

(** edges of the old table keep their families when the table is extended *)
Theorem C09_extends_fam : forall s s' r, ZbddOK s -> extends s s' -> ref_ok s r ->
  fam_of s' r = fam_of s r.
Proof. exact fam_of_extends. Qed.
Print Assumptions C09_extends_fam.

(** union, intsec, diff *)
Theorem C09_apply_sound : forall gt C cget cadd, zlossy C cget cadd ->
  forall op fuel s (c : C) f g,
  ZbddOK s -> ZCacheOK C cget s c -> ref_ok s f -> ref_ok s g -> S (nlevels s) <= fuel ->
  exists s' c' r F G R,
    zapply gt C cget cadd fuel s c op f g = Some (s', c', r) /\
    ZbddOK s' /\ extends s s' /\ ZCacheOK C cget s' c' /\ ref_ok s' r /\
    fam_of s f = Some F /\ fam_of s g = Some G /\ fam_of s' r = Some R /\
    feq R (match op with
           | ZUnion => f_union F G
           | ZIntsec => f_intsec F G
           | ZDiff => f_diff F G
           end).
Proof. exact c09_apply_sound_thm. Qed.
Print Assumptions C09_apply_sound.

(** subset0, subset1, change ([vl] = level of variable [var]) *)
Theorem C09_subset_sound : forall C cget cadd, zlossy C cget cadd ->
  forall op fuel s (c : C) f var,
  ZbddOK s -> ZCacheOK C cget s c -> ref_ok s f -> var < length (s_v2l s) ->
  S (nlevels s) <= fuel ->
  exists vl s' c' r F R,
    nth_error (s_v2l s) var = Some vl /\
    zsubset_top C cget cadd fuel s c op f var = Some (s', c', r) /\
    ZbddOK s' /\ extends s s' /\ ZCacheOK C cget s' c' /\ ref_ok s' r /\
    fam_of s f = Some F /\ fam_of s' r = Some R /\
    feq R (match op with
           | ZSubset0 => f_subset0 vl F
           | ZSubset1 => f_subset1 vl F
           | ZChange => f_change vl F
           end).
Proof. exact c09_subset_sound_thm. Qed.
Print Assumptions C09_subset_sound.

(** empty, base *)
Theorem C09_empty_sound : forall s, ZbddOK s ->
  exists r, zempty s = Some r /\ ref_ok s r /\ fam_of s r = Some f_empty.
Proof. exact zempty_sound. Qed.
Print Assumptions C09_empty_sound.

Theorem C09_base_sound : forall s, ZbddOK s ->
  exists r, zbase s = Some r /\ ref_ok s r /\ fam_of s r = Some f_base.
Proof. exact zbase_sound. Qed.
Print Assumptions C09_base_sound.

(** singleton *)
Theorem C09_singleton_sound : forall s var, ZbddOK s -> var < length (s_v2l s) ->
  exists vl s' r R,
    nth_error (s_v2l s) var = Some vl /\ zsingleton s var = Some (s', r) /\
    ZbddOK s' /\ extends s s' /\ ref_ok s' r /\
    fam_of s' r = Some R /\ feq R (f_singleton vl).
Proof. exact zsingleton_sound. Qed.
Print Assumptions C09_singleton_sound.

(** make_node under its documented precondition *)
Theorem C09_make_node_sound : forall s var hi lo Fv L,
  ZbddOK s -> ref_ok s var -> ref_ok s hi -> ref_ok s lo ->
  fam_of s var = Some Fv -> feq Fv (f_singleton L) ->
  L < rlevel s hi -> L < rlevel s lo ->
  exists s' r A Bf R,
    zmake_node s var hi lo = Some (s', r) /\
    ZbddOK s' /\ extends s s' /\ ref_ok s' r /\
    fam_of s hi = Some A /\ fam_of s lo = Some Bf /\ fam_of s' r = Some R /\
    feq R (f_make_node L A Bf).
Proof. exact zmake_node_sound. Qed.
Print Assumptions C09_make_node_sound.

(** the cache instances satisfy the only assumption made about caches *)
Theorem C09_caches : zlossy zacache zac_get zac_add /\ zlossy unit znc_get znc_add /\
  (forall s, ZCacheOK zacache zac_get s []) /\ (forall s c, ZCacheOK unit znc_get s c).
Proof. exact c09_caches_thm. Qed.
Print Assumptions C09_caches.

(** add_vars / any growth that keeps the nodes: families are stable ... *)
Theorem C09_grows_fam : forall s s' r, WF s -> s_kind s = KZbdd -> grows s s' -> ref_ok s r ->
  fam_of s' r = fam_of s r.
Proof. exact grows_fam. Qed.
Print Assumptions C09_grows_fam.

(** ... and the Boolean view gains "new variables false" *)
Theorem C09_grows_bool_view : forall s s' r c F,
  WF s -> s_kind s = KZbdd -> WF s' -> s_kind s' = KZbdd -> grows s s' ->
  ref_ok s r -> ref_ok s' r -> choice_ok s' c -> fam_of s r = Some F ->
  semz s' (S (nlevels s')) 0 r c =
    Some (fam_bool (nlevels s) F c && all_lo c (nlevels s) (nlevels s' - nlevels s)).
Proof. exact grows_bool_view. Qed.
Print Assumptions C09_grows_bool_view.

(** add_vars of a ZBDD manager (levels appended below, identity on the new
    variables, tautology chain rebuilt): well-formedness kept, every node and
    every family kept, [taut(l)] = all subsets of the levels [l, nlevels) *)
Theorem C09_add_vars_ok : forall s k, ZbddOK s ->
  exists s' ch, zadd_vars s k = Some (s', ch) /\ ZbddOK s' /\ grows s s' /\
    nlevels s' = nlevels s + k /\
    s_v2l s' = s_v2l s ++ seq (nlevels s) k /\ s_l2v s' = s_l2v s ++ seq (nlevels s) k /\
    (forall r, ref_ok s r -> fam_of s' r = fam_of s r) /\
    length ch = nlevels s' + 1 /\
    forall l t, nth_error ch l = Some t ->
      ref_ok s' t /\ exists F, fam_of s' t = Some F /\ feq F (f_powerset l (nlevels s' - l)).
Proof. exact zadd_vars_ok. Qed.
Print Assumptions C09_add_vars_ok.

(** the chain rebuilt by [ZBDDCache::post_reorder_mut] (init, add_vars, reorder) *)
Theorem C09_taut_chain_ok : forall s, ZbddOK s ->
  exists s' ch, ztaut_chain s = Some (s', ch) /\ ZbddOK s' /\ extends s s' /\
    length ch = nlevels s + 1 /\
    forall l t, nth_error ch l = Some t ->
      ref_ok s' t /\ exists F, fam_of s' t = Some F /\ feq F (f_powerset l (nlevels s - l)).
Proof. exact ztaut_chain_ok. Qed.
Print Assumptions C09_taut_chain_ok.

(** [f_powerset] lists all subsets; as a Boolean function taut(0) is constant true *)
Theorem C09_powerset : forall cnt from S,
  In S (f_powerset from cnt) <-> incr_from from S /\ Forall (fun x => x < from + cnt) S.
Proof. exact in_f_powerset. Qed.
Print Assumptions C09_powerset.

Theorem C09_taut_true : forall s t F c, ZbddOK s -> ref_ok s t -> choice_ok s c ->
  fam_of s t = Some F -> feq F (f_powerset 0 (nlevels s)) ->
  semz s (S (nlevels s)) 0 t c = Some true.
Proof. exact ztaut_true. Qed.
Print Assumptions C09_taut_true.

(** the hypotheses are satisfiable and the model runs (order var -> level = [1; 2; 0]) *)
Theorem C09_example :
  ZbddOK ex_z3 /\ ZCacheOK zacache zac_get ex_z3 [] /\
  fam_of ex_z3 (RN 3) = Some [[0; 2]; [1]; [2]] /\
  zout (zapply zgt_id zacache zac_get zac_add (S (nlevels ex_z3)) ex_z3 [] ZDiff (RN 3) (RN 2))
    = Some (4, RN 4, Some [[0; 2]]) /\
  zout (zsubset_top zacache zac_get zac_add (S (nlevels ex_z3)) ex_z3 [] ZChange (RN 2) 2)
    = Some (4, RN 4, Some [[0; 1]; [0; 2]]) /\
  zout (zsubset_top zacache zac_get zac_add (S (nlevels ex_z3)) ex_z3 [] ZChange (RN 3) 1)
    = Some (5, RN 5, Some [[0]; [1; 2]; []]) /\
  ZbddOK ex_z4 /\ grows ex_z3 ex_z4.
Proof. exact c09_example_thm. Qed.
Print Assumptions C09_example.

(** ** ALL histories, ZBDD kind (HISTz, Mgr/HistoryZ.v): the family of an untouched handle is unchanged by
    EVERY call - operations, gc, reordering, and add_vars: the family of sets of variables is stable, the
    Boolean view of the handle gains "every new variable false" *)
From Coq Require Import Bool List NArith PArith FMapPositive.
From OxiVerif Require Import DD.Sem DD.Build DD.Apply DD.ConfigApply DD.FamSpec DD.ZbddOps DD.ZbddOpsProofs DD.ZbddBool
  DD.ZbddBoolProofs DD.ZbddEvalProofs Mgr.LevelSwapZ Mgr.LevelSwapZProofs Mgr.HistoryExamples
  Mgr.HistoryZ Mgr.HistoryZBase Mgr.HistoryZCache Mgr.HistoryZFam Mgr.HistoryZProofs Mgr.HistoryZThms Mgr.HistoryZSpec Mgr.HistoryZTie
  Mgr.HistoryZExamples.

(* the family of sets of variables of an edge ([vmem]: the set [a] of variables, false outside the manager's variables, is a member) in terms of the level lists of C09 *)
Theorem C09_histz_vmem_fam :
  forall (s : snap) (r : ref) (F : fam) (a : asg),
  ZbddOK s -> ref_ok s r -> fam_of s r = Some F -> vmem s r a <-> supp (nlevels s) a /\ In (set_levels s a) F.
Proof. exact vmem_fam. Qed.
Print Assumptions C09_histz_vmem_fam.

(* the Boolean view over the variables is the membership test of the set of true variables *)
Theorem C09_histz_bool_view :
  forall (s : snap) (r : ref) (F : fam) (a : asg),
  ZbddOK s -> ref_ok s r -> fam_of s r = Some F -> zbfun_of s r a = fmem (set_levels s a) F.
Proof. exact zbfun_fam. Qed.
Print Assumptions C09_histz_bool_view.

(* one call of any kind, add_vars included *)
Theorem C09_histz_frame_family :
  forall (C : Type) (st : hstate_z C) (o : zhop) (st' : hstate_z C),
  hframe_z C st o st' -> forall r : ref, zroot C st r -> forall a : asg, vmem (hz_s C st') r a <-> vmem (hz_s C st) r a.
Proof. exact hframe_z_family. Qed.
Print Assumptions C09_histz_frame_family.

(* along ANY history: the untouched slot keeps its edge and its family, read in the respective orders *)
Theorem C09_histz_family_fixed :
  forall (gt : ref -> ref -> bool) (C : Type) (cget : C -> N -> list ref -> list nat -> option ref)
  (cadd : C -> N -> list ref -> list nat -> ref -> C),
  zlossy C cget cadd ->
  forall cempty : C,
  (forall (k : N) (a : list ref) (m : list nat), cget cempty k a m = None) ->
  forall (ops : list zhop) (st st' : hstate_z C),
  HInvZ C cget st ->
  zhops_pre gt C cget cadd cempty st ops ->
  hrun_z gt C cget cadd cempty st ops = Some st' ->
  forall (x : N) (e : edge),
  (forall o : zhop, In o ops -> zhdst o <> Some x) ->
  hget (s_handles (hz_s C st)) x = Some e ->
  hget (s_handles (hz_s C st')) x = Some e /\
  (exists F F' : fam,
  fam_of (hz_s C st) (eref e) = Some F /\
  fam_of (hz_s C st') (eref e) = Some F' /\
  (forall a : asg,
  supp (nlevels (hz_s C st')) a ->
  In (set_levels (hz_s C st') a) F' <-> supp (nlevels (hz_s C st)) a /\ In (set_levels (hz_s C st) a) F)).
Proof. exact histz_family_fixed. Qed.
Print Assumptions C09_histz_family_fixed.

(* ... and its Boolean view is the old one and "all variables added since are false" *)
Theorem C09_histz_slot_stable :
  forall (gt : ref -> ref -> bool) (C : Type) (cget : C -> N -> list ref -> list nat -> option ref)
  (cadd : C -> N -> list ref -> list nat -> ref -> C),
  zlossy C cget cadd ->
  forall cempty : C,
  (forall (k : N) (a : list ref) (m : list nat), cget cempty k a m = None) ->
  forall (ops : list zhop) (st st' : hstate_z C),
  HInvZ C cget st ->
  zhops_pre gt C cget cadd cempty st ops ->
  hrun_z gt C cget cadd cempty st ops = Some st' ->
  forall (x : N) (e : edge),
  (forall o : zhop, In o ops -> zhdst o <> Some x) ->
  hget (s_handles (hz_s C st)) x = Some e ->
  hget (s_handles (hz_s C st')) x = Some e /\
  ref_ok (hz_s C st') (eref e) /\
  nlevels (hz_s C st) <= nlevels (hz_s C st') /\
  (forall a : asg, vmem (hz_s C st') (eref e) a <-> vmem (hz_s C st) (eref e) a) /\
  (forall a : asg,
  zbfun_of (hz_s C st') (eref e) a =
  zbfun_of (hz_s C st) (eref e) a && newfalse (nlevels (hz_s C st)) (nlevels (hz_s C st')) a).
Proof. exact histz_slot_stable. Qed.
Print Assumptions C09_histz_slot_stable.

(* add_vars: every node, every family (the same level lists) kept; Boolean view = old view and new variables false; the chain is complete *)
Theorem C09_histz_add_vars :
  forall (gt : ref -> ref -> bool) (C : Type) (cget : C -> N -> list ref -> list nat -> option ref)
  (cadd : C -> N -> list ref -> list nat -> ref -> C),
  zlossy C cget cadd ->
  forall cempty : C,
  (forall (k : N) (a : list ref) (m : list nat), cget cempty k a m = None) ->
  forall (st : hstate_z C) (k : nat) (st' : hstate_z C),
  HInvZ C cget st ->
  hstep_z gt C cget cadd cempty st (ZHAddVars k) = Some st' ->
  HInvZ C cget st' /\
  nlevels (hz_s C st') = nlevels (hz_s C st) + k /\
  s_handles (hz_s C st') = s_handles (hz_s C st) /\
  (forall (id : positive) (nd : node), find_node (hz_s C st) id = Some nd -> find_node (hz_s C st') id = Some nd) /\
  (forall v : nat, v < nlevels (hz_s C st) -> nth_error (s_v2l (hz_s C st')) v = nth_error (s_v2l (hz_s C st)) v) /\
  (forall i : nat, i < k -> nth_error (s_v2l (hz_s C st')) (nlevels (hz_s C st) + i) = Some (nlevels (hz_s C st) + i)) /\
  (forall r : ref,
  ref_ok (hz_s C st) r ->
  ref_ok (hz_s C st') r /\
  fam_of (hz_s C st') r = fam_of (hz_s C st) r /\
  (forall a : asg, vmem (hz_s C st') r a <-> vmem (hz_s C st) r a) /\
  (forall a : asg,
  zbfun_of (hz_s C st') r a = zbfun_of (hz_s C st) r a && newfalse (nlevels (hz_s C st)) (nlevels (hz_s C st')) a)).
Proof. exact histz_add_vars. Qed.
Print Assumptions C09_histz_add_vars.

(* the set-family operations after any history, as functions of the variables ([zop_s], [zsub_s], [singleton_s], [base_s], [mknode_s]) *)
Theorem C09_histz_set_ops_spec :
  forall (gt : ref -> ref -> bool) (C : Type) (cget : C -> N -> list ref -> list nat -> option ref)
  (cadd : C -> N -> list ref -> list nat -> ref -> C),
  zlossy C cget cadd ->
  forall cempty : C,
  (forall (k : N) (a : list ref) (m : list nat), cget cempty k a m = None) ->
  forall (st : hstate_z C) (o : zhop) (d : N) (F : bfun),
  HInvZ C cget st ->
  hspec_z C st o d F ->
  exists st' : hstate_z C,
  hstep_z gt C cget cadd cempty st o = Some st' /\ HInvZ C cget st' /\ hframe_z C st o st' /\ zholds C st' d F.
Proof. exact hstep_z_spec. Qed.
Print Assumptions C09_histz_set_ops_spec.

