(** C10 (scalar / terminal level) — property theorems only.
    Proved in Num/I64Proofs.v and Num/F64Proofs.v; models in Num/I64.v, Num/F64.v.
    The function-level (diagram) part of C10 is a separate package. *)
From Coq Require Import ZArith Bool Reals.
From Flocq Require Import Core.Core IEEE754.BinarySingleNaN IEEE754.Binary IEEE754.Bits.
From OxiVerif Require Import Num.I64 Num.I64Proofs Num.F64 Num.F64Proofs.
Local Open Scope Z_scope.

(** * I64: add, sub, mul return the exact integer result when it is
    representable and otherwise the infinity of the exact result's sign;
    undefined forms give NaN ([ext_add] etc. are exact arithmetic on
    Z ∪ {±∞, NaN}, [clamp] is the saturation) *)

Theorem C10_i64_add_exact :
  forall a b, wf a -> wf b -> i64_add a b = clamp (ext_add a b).
Proof. exact i64_add_spec. Qed.
Print Assumptions C10_i64_add_exact.

Theorem C10_i64_sub_exact :
  forall a b, wf a -> wf b -> i64_sub a b = clamp (ext_sub a b).
Proof. exact i64_sub_spec. Qed.
Print Assumptions C10_i64_sub_exact.

Theorem C10_i64_mul_exact :
  forall a b, wf a -> wf b -> i64_mul a b = clamp (ext_mul a b).
Proof. exact i64_mul_spec. Qed.
Print Assumptions C10_i64_mul_exact.

(** div truncates toward zero, x/0 = ±∞ by the sign of x, MIN / -1 = +∞ *)
Theorem C10_i64_div_exact :
  forall a b, wf a -> wf b -> i64_div a b = clamp (ext_div a b).
Proof. exact i64_div_spec. Qed.
Print Assumptions C10_i64_div_exact.

Theorem C10_i64_div_trunc :
  forall x y,
  in_i64 x -> in_i64 y -> y <> 0 -> ~ (x = i64_MIN /\ y = -1) ->
  i64_div (INum x) (INum y) = INum (Z.quot x y) /\ in_i64 (Z.quot x y) /\
  Z.quot x y = Z.sgn x * Z.sgn y * (Z.abs x / Z.abs y).
Proof. exact i64_div_trunc. Qed.
Print Assumptions C10_i64_div_trunc.

Theorem C10_i64_div_clauses :
  (forall x, i64_div (INum x) (INum 0) =
             if x <? 0 then IMinusInf else if x =? 0 then INaN else IPlusInf) /\
  i64_div (INum i64_MIN) (INum (-1)) = IPlusInf /\
  (forall x, i64_div (INum x) IPlusInf = INum 0 /\ i64_div (INum x) IMinusInf = INum 0) /\
  (forall y, i64_div IPlusInf (INum y) = (if y <? 0 then IMinusInf else IPlusInf) /\
             i64_div IMinusInf (INum y) = (if y <? 0 then IPlusInf else IMinusInf)).
Proof. exact i64_div_clauses. Qed.
Print Assumptions C10_i64_div_clauses.

Theorem C10_i64_undefined_forms :
  i64_add IPlusInf IMinusInf = INaN /\ i64_add IMinusInf IPlusInf = INaN /\
  i64_sub IPlusInf IPlusInf = INaN /\ i64_sub IMinusInf IMinusInf = INaN /\
  i64_mul (INum 0) IPlusInf = INaN /\ i64_mul (INum 0) IMinusInf = INaN /\
  i64_mul IPlusInf (INum 0) = INaN /\ i64_mul IMinusInf (INum 0) = INaN /\
  i64_div (INum 0) (INum 0) = INaN /\
  i64_div IPlusInf IPlusInf = INaN /\ i64_div IPlusInf IMinusInf = INaN /\
  i64_div IMinusInf IPlusInf = INaN /\ i64_div IMinusInf IMinusInf = INaN.
Proof. exact i64_undefined_forms. Qed.
Print Assumptions C10_i64_undefined_forms.

(** results are again values of the Rust type *)
Theorem C10_i64_closed :
  forall a b, wf a -> wf b ->
  wf (i64_add a b) /\ wf (i64_sub a b) /\ wf (i64_mul a b) /\ wf (i64_div a b) /\
  wf (i64_min a b) /\ wf (i64_max a b).
Proof. exact i64_closed. Qed.
Print Assumptions C10_i64_closed.

(** partial_cmp is the order of the extended integers, NaN comparable only with itself *)
Theorem C10_i64_cmp_is_ext_order :
  forall a b, i64_partial_cmp a b = ext_cmp a b.
Proof. exact i64_partial_cmp_spec. Qed.
Print Assumptions C10_i64_cmp_is_ext_order.

Theorem C10_i64_cmp_nan_incomparable :
  forall a b,
  i64_partial_cmp a b = None <-> ((a = INaN /\ b <> INaN) \/ (a <> INaN /\ b = INaN)).
Proof. exact i64_cmp_none_iff. Qed.
Print Assumptions C10_i64_cmp_nan_incomparable.

Theorem C10_i64_cmp_partial_order :
  (forall a, i64_partial_cmp a a = Some Eq) /\
  (forall a b, i64_partial_cmp a b = Some Eq <-> a = b) /\
  (forall a b, i64_partial_cmp b a = option_map CompOpp (i64_partial_cmp a b)) /\
  (forall a b c, i64_partial_cmp a b = Some Lt -> i64_partial_cmp b c = Some Lt ->
                 i64_partial_cmp a c = Some Lt).
Proof. exact i64_cmp_partial_order. Qed.
Print Assumptions C10_i64_cmp_partial_order.

(** min / max (terminal arm of terminal_bin) pick the smaller / larger operand *)
Theorem C10_i64_minmax_bounds :
  forall a b, a <> INaN -> b <> INaN ->
  (ext_le (i64_min a b) a /\ ext_le (i64_min a b) b /\ (i64_min a b = a \/ i64_min a b = b)) /\
  (ext_le a (i64_max a b) /\ ext_le b (i64_max a b) /\ (i64_max a b = a \/ i64_max a b = b)).
Proof. exact i64_minmax_bounds. Qed.
Print Assumptions C10_i64_minmax_bounds.

(** the short-cut arms of terminal_bin that are laws *)
Theorem C10_i64_shortcut_laws :
  forall t x, wf x ->
  (i64_is_zero t = true -> i64_add t x = x /\ i64_add x t = x /\ i64_sub x t = x) /\
  (i64_is_one t = true -> i64_mul t x = x /\ i64_mul x t = x /\ i64_div x t = x).
Proof. exact i64_shortcut_laws. Qed.
Print Assumptions C10_i64_shortcut_laws.

Theorem C10_i64_nan_absorbing :
  forall t x, i64_is_nan t = true ->
  i64_add t x = i64_nan /\ i64_add x t = i64_nan /\
  i64_sub t x = i64_nan /\ i64_sub x t = i64_nan /\
  i64_mul t x = i64_nan /\ i64_mul x t = i64_nan /\
  i64_div t x = i64_nan /\ i64_div x t = i64_nan /\
  i64_min t x = i64_nan /\ i64_min x t = i64_nan /\
  i64_max t x = i64_nan /\ i64_max x t = i64_nan.
Proof. exact i64_nan_absorbing. Qed.
Print Assumptions C10_i64_nan_absorbing.

Theorem C10_i64_swap_laws :
  forall a b,
  i64_add a b = i64_add b a /\ i64_mul a b = i64_mul b a /\
  i64_min a b = i64_min b a /\ i64_max a b = i64_max b a.
Proof. exact i64_swap_laws. Qed.
Print Assumptions C10_i64_swap_laws.

Theorem C10_i64_minmax_idem :
  forall a, i64_min a a = a /\ i64_max a a = a.
Proof. exact i64_minmax_idem. Qed.
Print Assumptions C10_i64_minmax_idem.

(** short-cut arms of terminal_bin that are NOT laws *)
Theorem C10_i64_sub_zero_l_refuted :
  exists t x, i64_is_zero t = true /\ wf x /\ i64_sub t x <> x.
Proof. exact i64_sub_zero_l_refuted. Qed.
Print Assumptions C10_i64_sub_zero_l_refuted.

Theorem C10_i64_max_as_min_refuted :
  exists a b, wf a /\ wf b /\ i64_max a b <> i64_min a b.
Proof. exact i64_max_as_min_refuted. Qed.
Print Assumptions C10_i64_max_as_min_refuted.

(** * F64: IEEE-754 binary64 (Flocq) followed by the normalisation of NaN and -0 *)

Theorem C10_f64_ops_ieee :
  forall a b,
  f64_add a b = bits_of_b64 (f64_norm (b64_plus mode_NE (b64_of_bits a) (b64_of_bits b))) /\
  f64_sub a b = bits_of_b64 (f64_norm (b64_minus mode_NE (b64_of_bits a) (b64_of_bits b))) /\
  f64_mul a b = bits_of_b64 (f64_norm (b64_mult mode_NE (b64_of_bits a) (b64_of_bits b))) /\
  f64_div a b = bits_of_b64 (f64_norm (b64_div mode_NE (b64_of_bits a) (b64_of_bits b))).
Proof. exact f64_ops_ieee. Qed.
Print Assumptions C10_f64_ops_ieee.

(** finite operands without overflow: the correctly rounded exact result *)
Theorem C10_f64_round_correct :
  forall a b,
  let fin x := is_finite 53 1024 (b64_of_bits x) = true in
  let rnd r := round radix2 (SpecFloat.fexp 53 1024) (round_mode mode_NE) r in
  let no_ovf (r : R) := (Rabs (rnd r) < bpow radix2 1024)%R in
  let R_of x := B2R 53 1024 (b64_of_bits x) in
  (fin a -> fin b -> no_ovf (R_of a + R_of b)%R -> R_of (f64_add a b) = rnd (R_of a + R_of b)%R) /\
  (fin a -> fin b -> no_ovf (R_of a - R_of b)%R -> R_of (f64_sub a b) = rnd (R_of a - R_of b)%R) /\
  (no_ovf (R_of a * R_of b)%R -> R_of (f64_mul a b) = rnd (R_of a * R_of b)%R) /\
  (R_of b <> 0%R -> no_ovf (R_of a / R_of b)%R -> R_of (f64_div a b) = rnd (R_of a / R_of b)%R).
Proof. exact f64_round_correct. Qed.
Print Assumptions C10_f64_round_correct.

Theorem C10_f64_norm_idempotent :
  forall x, f64_from_bits (f64_from_bits x) = f64_from_bits x.
Proof. exact f64_from_bits_idem. Qed.
Print Assumptions C10_f64_norm_idempotent.

Theorem C10_f64_normal_char :
  forall x,
  f64_normal x <->
  (0 <= x < 2 ^ 64 /\ x <> f64_NEG_ZERO_bits /\
   (is_nan 53 1024 (b64_of_bits x) = true -> x = f64_NAN_bits)).
Proof. exact f64_normal_char. Qed.
Print Assumptions C10_f64_normal_char.

Theorem C10_f64_results_normal :
  forall a b,
  f64_normal (f64_add a b) /\ f64_normal (f64_sub a b) /\
  f64_normal (f64_mul a b) /\ f64_normal (f64_div a b) /\
  (f64_normal a -> f64_normal b -> f64_normal (f64_min a b) /\ f64_normal (f64_max a b)).
Proof. exact f64_closed. Qed.
Print Assumptions C10_f64_results_normal.

Theorem C10_f64_undefined_forms :
  f64_add f64_INF f64_NINF = f64_nan /\ f64_add f64_NINF f64_INF = f64_nan /\
  f64_sub f64_INF f64_INF = f64_nan /\ f64_sub f64_NINF f64_NINF = f64_nan /\
  f64_mul f64_zero f64_INF = f64_nan /\ f64_mul f64_NINF f64_zero = f64_nan /\
  f64_div f64_zero f64_zero = f64_nan /\
  f64_div f64_INF f64_INF = f64_nan /\ f64_div f64_INF f64_NINF = f64_nan /\
  f64_div f64_NINF f64_INF = f64_nan /\ f64_div f64_NINF f64_NINF = f64_nan.
Proof. exact f64_undefined_forms. Qed.
Print Assumptions C10_f64_undefined_forms.

Theorem C10_f64_div_zero :
  forall x s m e H,
  b64_of_bits x = B754_finite 53 1024 s m e H ->
  f64_div x f64_zero = if s then f64_NINF else f64_INF.
Proof. exact f64_div_zero. Qed.
Print Assumptions C10_f64_div_zero.

Theorem C10_f64_shortcut_laws :
  forall t x, f64_normal x ->
  (f64_is_zero t = true -> f64_add t x = x /\ f64_add x t = x /\ f64_sub x t = x) /\
  (f64_is_one t = true -> f64_mul t x = x /\ f64_mul x t = x /\ f64_div x t = x).
Proof. exact f64_shortcut_laws. Qed.
Print Assumptions C10_f64_shortcut_laws.

Theorem C10_f64_nan_absorbing :
  forall t x, f64_is_nan t = true ->
  f64_add t x = f64_nan /\ f64_add x t = f64_nan /\
  f64_sub t x = f64_nan /\ f64_sub x t = f64_nan /\
  f64_mul t x = f64_nan /\ f64_mul x t = f64_nan /\
  f64_div t x = f64_nan /\ f64_div x t = f64_nan /\
  f64_min t x = f64_nan /\ f64_min x t = f64_nan /\
  f64_max t x = f64_nan /\ f64_max x t = f64_nan.
Proof. exact f64_nan_absorbing. Qed.
Print Assumptions C10_f64_nan_absorbing.

Theorem C10_f64_swap_laws :
  forall a b,
  f64_add a b = f64_add b a /\ f64_mul a b = f64_mul b a /\
  (f64_normal a -> f64_normal b ->
   f64_min a b = f64_min b a /\ f64_max a b = f64_max b a).
Proof. exact f64_swap_laws. Qed.
Print Assumptions C10_f64_swap_laws.

Theorem C10_f64_minmax_idem :
  forall a, f64_normal a -> f64_min a a = a /\ f64_max a a = a.
Proof. exact f64_minmax_idem. Qed.
Print Assumptions C10_f64_minmax_idem.

Theorem C10_f64_cmp_order :
  (forall a, f64_normal a -> f64_partial_cmp a a = Some Eq) /\
  (forall a b, f64_normal a -> f64_normal b -> (f64_partial_cmp a b = Some Eq <-> a = b)) /\
  (forall a b, f64_partial_cmp b a = option_map CompOpp (f64_partial_cmp a b)) /\
  (forall a b, f64_normal a -> f64_normal b ->
     (f64_partial_cmp a b = None <->
      ((a = f64_nan /\ b <> f64_nan) \/ (a <> f64_nan /\ b = f64_nan)))).
Proof. exact f64_cmp_order. Qed.
Print Assumptions C10_f64_cmp_order.

Theorem C10_f64_cmp_finite_real :
  forall a b,
  is_finite 53 1024 (b64_of_bits a) = true -> is_finite 53 1024 (b64_of_bits b) = true ->
  a <> f64_nan ->
  f64_partial_cmp a b =
  Some (Rcompare (B2R 53 1024 (b64_of_bits a)) (B2R 53 1024 (b64_of_bits b))).
Proof. exact f64_cmp_finite. Qed.
Print Assumptions C10_f64_cmp_finite_real.

Theorem C10_f64_sub_zero_l_refuted :
  exists t x, f64_is_zero t = true /\ f64_normal x /\ f64_sub t x <> x.
Proof. exact f64_sub_zero_l_refuted. Qed.
Print Assumptions C10_f64_sub_zero_l_refuted.

Theorem C10_f64_max_as_min_refuted :
  exists a b, f64_normal a /\ f64_normal b /\ f64_max a b <> f64_min a b.
Proof. exact f64_max_as_min_refuted. Qed.
Print Assumptions C10_f64_max_as_min_refuted.
