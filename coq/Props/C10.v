(** C10 (scalar / terminal level) — property theorems only.
    Proved in Num/I64Proofs.v and Num/F64Proofs.v; models in Num/I64.v, Num/F64.v.
    The function-level (diagram) part of C10 is a separate package. *)
From Coq Require Import ZArith Bool Reals.
From Flocq Require Import Core.Core IEEE754.BinarySingleNaN IEEE754.Binary IEEE754.Bits.
From OxiVerif Require Import Num.I64 Num.I64Proofs Num.F64 Num.F64Proofs.
Local Open Scope Z_scope.

(** * I64: add, sub, mul return the exact integer result when it is
    representable and otherwise the infinity of the exact result's sign;
    undefined forms give NaN ([ext_add] etc. are exact arithmetic on
    Z ∪ {±∞, NaN}, [clamp] is the saturation) *)

Theorem C10_i64_add_exact :
  forall a b, wf a -> wf b -> i64_add a b = clamp (ext_add a b).
Proof. exact i64_add_spec. Qed.
Print Assumptions C10_i64_add_exact.

Theorem C10_i64_sub_exact :
  forall a b, wf a -> wf b -> i64_sub a b = clamp (ext_sub a b).
Proof. exact i64_sub_spec. Qed.
Print Assumptions C10_i64_sub_exact.

Theorem C10_i64_mul_exact :
  forall a b, wf a -> wf b -> i64_mul a b = clamp (ext_mul a b).
Proof. exact i64_mul_spec. Qed.
Print Assumptions C10_i64_mul_exact.

(** div truncates toward zero, x/0 = ±∞ by the sign of x, MIN / -1 = +∞ *)
Theorem C10_i64_div_exact :
  forall a b, wf a -> wf b -> i64_div a b = clamp (ext_div a b).
Proof. exact i64_div_spec. Qed.
Print Assumptions C10_i64_div_exact.

Theorem C10_i64_div_trunc :
  forall x y,
  in_i64 x -> in_i64 y -> y <> 0 -> ~ (x = i64_MIN /\ y = -1) ->
  i64_div (INum x) (INum y) = INum (Z.quot x y) /\ in_i64 (Z.quot x y) /\
  Z.quot x y = Z.sgn x * Z.sgn y * (Z.abs x / Z.abs y).
Proof. exact i64_div_trunc. Qed.
Print Assumptions C10_i64_div_trunc.

Theorem C10_i64_div_clauses :
  (forall x, i64_div (INum x) (INum 0) =
             if x <? 0 then IMinusInf else if x =? 0 then INaN else IPlusInf) /\
  i64_div (INum i64_MIN) (INum (-1)) = IPlusInf /\
  (forall x, i64_div (INum x) IPlusInf = INum 0 /\ i64_div (INum x) IMinusInf = INum 0) /\
  (forall y, i64_div IPlusInf (INum y) = (if y <? 0 then IMinusInf else IPlusInf) /\
             i64_div IMinusInf (INum y) = (if y <? 0 then IPlusInf else IMinusInf)).
Proof. exact i64_div_clauses. Qed.
Print Assumptions C10_i64_div_clauses.

Theorem C10_i64_undefined_forms :
  i64_add IPlusInf IMinusInf = INaN /\ i64_add IMinusInf IPlusInf = INaN /\
  i64_sub IPlusInf IPlusInf = INaN /\ i64_sub IMinusInf IMinusInf = INaN /\
  i64_mul (INum 0) IPlusInf = INaN /\ i64_mul (INum 0) IMinusInf = INaN /\
  i64_mul IPlusInf (INum 0) = INaN /\ i64_mul IMinusInf (INum 0) = INaN /\
  i64_div (INum 0) (INum 0) = INaN /\
  i64_div IPlusInf IPlusInf = INaN /\ i64_div IPlusInf IMinusInf = INaN /\
  i64_div IMinusInf IPlusInf = INaN /\ i64_div IMinusInf IMinusInf = INaN.
Proof. exact i64_undefined_forms. Qed.
Print Assumptions C10_i64_undefined_forms.

(** results are again values of the Rust type *)
Theorem C10_i64_closed :
  forall a b, wf a -> wf b ->
  wf (i64_add a b) /\ wf (i64_sub a b) /\ wf (i64_mul a b) /\ wf (i64_div a b) /\
  wf (i64_min a b) /\ wf (i64_max a b).
Proof. exact i64_closed. Qed.
Print Assumptions C10_i64_closed.

(** partial_cmp is the order of the extended integers, NaN comparable only with itself *)
Theorem C10_i64_cmp_is_ext_order :
  forall a b, i64_partial_cmp a b = ext_cmp a b.
Proof. exact i64_partial_cmp_spec. Qed.
Print Assumptions C10_i64_cmp_is_ext_order.

Theorem C10_i64_cmp_nan_incomparable :
  forall a b,
  i64_partial_cmp a b = None <-> ((a = INaN /\ b <> INaN) \/ (a <> INaN /\ b = INaN)).
Proof. exact i64_cmp_none_iff. Qed.
Print Assumptions C10_i64_cmp_nan_incomparable.

Theorem C10_i64_cmp_partial_order :
  (forall a, i64_partial_cmp a a = Some Eq) /\
  (forall a b, i64_partial_cmp a b = Some Eq <-> a = b) /\
  (forall a b, i64_partial_cmp b a = option_map CompOpp (i64_partial_cmp a b)) /\
  (forall a b c, i64_partial_cmp a b = Some Lt -> i64_partial_cmp b c = Some Lt ->
                 i64_partial_cmp a c = Some Lt).
Proof. exact i64_cmp_partial_order. Qed.
Print Assumptions C10_i64_cmp_partial_order.

(** min / max (terminal arm of terminal_bin) pick the smaller / larger operand *)
Theorem C10_i64_minmax_bounds :
  forall a b, a <> INaN -> b <> INaN ->
  (ext_le (i64_min a b) a /\ ext_le (i64_min a b) b /\ (i64_min a b = a \/ i64_min a b = b)) /\
  (ext_le a (i64_max a b) /\ ext_le b (i64_max a b) /\ (i64_max a b = a \/ i64_max a b = b)).
Proof. exact i64_minmax_bounds. Qed.
Print Assumptions C10_i64_minmax_bounds.

(** the short-cut arms of terminal_bin that are laws *)
Theorem C10_i64_shortcut_laws :
  forall t x, wf x ->
  (i64_is_zero t = true -> i64_add t x = x /\ i64_add x t = x /\ i64_sub x t = x) /\
  (i64_is_one t = true -> i64_mul t x = x /\ i64_mul x t = x /\ i64_div x t = x).
Proof. exact i64_shortcut_laws. Qed.
Print Assumptions C10_i64_shortcut_laws.

Theorem C10_i64_nan_absorbing :
  forall t x, i64_is_nan t = true ->
  i64_add t x = i64_nan /\ i64_add x t = i64_nan /\
  i64_sub t x = i64_nan /\ i64_sub x t = i64_nan /\
  i64_mul t x = i64_nan /\ i64_mul x t = i64_nan /\
  i64_div t x = i64_nan /\ i64_div x t = i64_nan /\
  i64_min t x = i64_nan /\ i64_min x t = i64_nan /\
  i64_max t x = i64_nan /\ i64_max x t = i64_nan.
Proof. exact i64_nan_absorbing. Qed.
Print Assumptions C10_i64_nan_absorbing.

Theorem C10_i64_swap_laws :
  forall a b,
  i64_add a b = i64_add b a /\ i64_mul a b = i64_mul b a /\
  i64_min a b = i64_min b a /\ i64_max a b = i64_max b a.
Proof. exact i64_swap_laws. Qed.
Print Assumptions C10_i64_swap_laws.

Theorem C10_i64_minmax_idem :
  forall a, i64_min a a = a /\ i64_max a a = a.
Proof. exact i64_minmax_idem. Qed.
Print Assumptions C10_i64_minmax_idem.

(** short-cut arms of terminal_bin that are NOT laws *)
Theorem C10_i64_sub_zero_l_refuted :
  exists t x, i64_is_zero t = true /\ wf x /\ i64_sub t x <> x.
Proof. exact i64_sub_zero_l_refuted. Qed.
Print Assumptions C10_i64_sub_zero_l_refuted.

Theorem C10_i64_max_as_min_refuted :
  exists a b, wf a /\ wf b /\ i64_max a b <> i64_min a b.
Proof. exact i64_max_as_min_refuted. Qed.
Print Assumptions C10_i64_max_as_min_refuted.

(** * F64: IEEE-754 binary64 (Flocq) followed by the normalisation of NaN and -0 *)

Theorem C10_f64_ops_ieee :
  forall a b,
  f64_add a b = bits_of_b64 (f64_norm (b64_plus mode_NE (b64_of_bits a) (b64_of_bits b))) /\
  f64_sub a b = bits_of_b64 (f64_norm (b64_minus mode_NE (b64_of_bits a) (b64_of_bits b))) /\
  f64_mul a b = bits_of_b64 (f64_norm (b64_mult mode_NE (b64_of_bits a) (b64_of_bits b))) /\
  f64_div a b = bits_of_b64 (f64_norm (b64_div mode_NE (b64_of_bits a) (b64_of_bits b))).
Proof. exact f64_ops_ieee. Qed.
Print Assumptions C10_f64_ops_ieee.

(** finite operands without overflow: the correctly rounded exact result *)
Theorem C10_f64_round_correct :
  forall a b,
  let fin x := is_finite 53 1024 (b64_of_bits x) = true in
  let rnd r := round radix2 (SpecFloat.fexp 53 1024) (round_mode mode_NE) r in
  let no_ovf (r : R) := (Rabs (rnd r) < bpow radix2 1024)%R in
  let R_of x := B2R 53 1024 (b64_of_bits x) in
  (fin a -> fin b -> no_ovf (R_of a + R_of b)%R -> R_of (f64_add a b) = rnd (R_of a + R_of b)%R) /\
  (fin a -> fin b -> no_ovf (R_of a - R_of b)%R -> R_of (f64_sub a b) = rnd (R_of a - R_of b)%R) /\
  (no_ovf (R_of a * R_of b)%R -> R_of (f64_mul a b) = rnd (R_of a * R_of b)%R) /\
  (R_of b <> 0%R -> no_ovf (R_of a / R_of b)%R -> R_of (f64_div a b) = rnd (R_of a / R_of b)%R).
Proof. exact f64_round_correct. Qed.
Print Assumptions C10_f64_round_correct.

Theorem C10_f64_norm_idempotent :
  forall x, f64_from_bits (f64_from_bits x) = f64_from_bits x.
Proof. exact f64_from_bits_idem. Qed.
Print Assumptions C10_f64_norm_idempotent.

Theorem C10_f64_normal_char :
  forall x,
  f64_normal x <->
  (0 <= x < 2 ^ 64 /\ x <> f64_NEG_ZERO_bits /\
   (is_nan 53 1024 (b64_of_bits x) = true -> x = f64_NAN_bits)).
Proof. exact f64_normal_char. Qed.
Print Assumptions C10_f64_normal_char.

Theorem C10_f64_results_normal :
  forall a b,
  f64_normal (f64_add a b) /\ f64_normal (f64_sub a b) /\
  f64_normal (f64_mul a b) /\ f64_normal (f64_div a b) /\
  (f64_normal a -> f64_normal b -> f64_normal (f64_min a b) /\ f64_normal (f64_max a b)).
Proof. exact f64_closed. Qed.
Print Assumptions C10_f64_results_normal.

Theorem C10_f64_undefined_forms :
  f64_add f64_INF f64_NINF = f64_nan /\ f64_add f64_NINF f64_INF = f64_nan /\
  f64_sub f64_INF f64_INF = f64_nan /\ f64_sub f64_NINF f64_NINF = f64_nan /\
  f64_mul f64_zero f64_INF = f64_nan /\ f64_mul f64_NINF f64_zero = f64_nan /\
  f64_div f64_zero f64_zero = f64_nan /\
  f64_div f64_INF f64_INF = f64_nan /\ f64_div f64_INF f64_NINF = f64_nan /\
  f64_div f64_NINF f64_INF = f64_nan /\ f64_div f64_NINF f64_NINF = f64_nan.
Proof. exact f64_undefined_forms. Qed.
Print Assumptions C10_f64_undefined_forms.

Theorem C10_f64_div_zero :
  forall x s m e H,
  b64_of_bits x = B754_finite 53 1024 s m e H ->
  f64_div x f64_zero = if s then f64_NINF else f64_INF.
Proof. exact f64_div_zero. Qed.
Print Assumptions C10_f64_div_zero.

Theorem C10_f64_shortcut_laws :
  forall t x, f64_normal x ->
  (f64_is_zero t = true -> f64_add t x = x /\ f64_add x t = x /\ f64_sub x t = x) /\
  (f64_is_one t = true -> f64_mul t x = x /\ f64_mul x t = x /\ f64_div x t = x).
Proof. exact f64_shortcut_laws. Qed.
Print Assumptions C10_f64_shortcut_laws.

Theorem C10_f64_nan_absorbing :
  forall t x, f64_is_nan t = true ->
  f64_add t x = f64_nan /\ f64_add x t = f64_nan /\
  f64_sub t x = f64_nan /\ f64_sub x t = f64_nan /\
  f64_mul t x = f64_nan /\ f64_mul x t = f64_nan /\
  f64_div t x = f64_nan /\ f64_div x t = f64_nan /\
  f64_min t x = f64_nan /\ f64_min x t = f64_nan /\
  f64_max t x = f64_nan /\ f64_max x t = f64_nan.
Proof. exact f64_nan_absorbing. Qed.
Print Assumptions C10_f64_nan_absorbing.

Theorem C10_f64_swap_laws :
  forall a b,
  f64_add a b = f64_add b a /\ f64_mul a b = f64_mul b a /\
  (f64_normal a -> f64_normal b ->
   f64_min a b = f64_min b a /\ f64_max a b = f64_max b a).
Proof. exact f64_swap_laws. Qed.
Print Assumptions C10_f64_swap_laws.

Theorem C10_f64_minmax_idem :
  forall a, f64_normal a -> f64_min a a = a /\ f64_max a a = a.
Proof. exact f64_minmax_idem. Qed.
Print Assumptions C10_f64_minmax_idem.

Theorem C10_f64_cmp_order :
  (forall a, f64_normal a -> f64_partial_cmp a a = Some Eq) /\
  (forall a b, f64_normal a -> f64_normal b -> (f64_partial_cmp a b = Some Eq <-> a = b)) /\
  (forall a b, f64_partial_cmp b a = option_map CompOpp (f64_partial_cmp a b)) /\
  (forall a b, f64_normal a -> f64_normal b ->
     (f64_partial_cmp a b = None <->
      ((a = f64_nan /\ b <> f64_nan) \/ (a <> f64_nan /\ b = f64_nan)))).
Proof. exact f64_cmp_order. Qed.
Print Assumptions C10_f64_cmp_order.

Theorem C10_f64_cmp_finite_real :
  forall a b,
  is_finite 53 1024 (b64_of_bits a) = true -> is_finite 53 1024 (b64_of_bits b) = true ->
  a <> f64_nan ->
  f64_partial_cmp a b =
  Some (Rcompare (B2R 53 1024 (b64_of_bits a)) (B2R 53 1024 (b64_of_bits b))).
Proof. exact f64_cmp_finite. Qed.
Print Assumptions C10_f64_cmp_finite_real.

Theorem C10_f64_sub_zero_l_refuted :
  exists t x, f64_is_zero t = true /\ f64_normal x /\ f64_sub t x <> x.
Proof. exact f64_sub_zero_l_refuted. Qed.
Print Assumptions C10_f64_sub_zero_l_refuted.

Theorem C10_f64_max_as_min_refuted :
  exists a b, f64_normal a /\ f64_normal b /\ f64_max a b <> f64_min a b.
Proof. exact f64_max_as_min_refuted. Qed.
Print Assumptions C10_f64_max_as_min_refuted.

(** * Function level: the MTBDD operations of oxidd-rules-mtbdd (I64 terminals)
    are the pointwise lifting of the scalar operations above.
    Model: DD/ApplyMtbdd.v ([mt_tb] = terminal_bin, [mt_apply_bin], [mt_apply_ite],
    [mt_restrict], [mt_const], [mt_var], [mt_eval]); proofs: DD/ApplyMtbdd*.v.
    Every theorem of this part is closed under the global context. *)
From Coq Require Import List NArith PArith Arith FMapPositive.
From OxiVerif Require Import DD.Table DD.TableProofs DD.Sem DD.Build DD.BuildProofs
  DD.Apply DD.ApplyProofs DD.ApplyEvalProofs DD.Cache DD.CacheProofs
  DD.ApplyMtbdd DD.ApplyMtbddBase DD.ApplyMtbddProofs DD.ApplyMtbddIte DD.ApplyMtbddRestrict
  DD.ApplyMtbddTop DD.ApplyMtbddExamples.
Import ListNotations.
Local Close Scope Z_scope.

(** terminal values <-> value codes of the snapshot: a bijection *)
Theorem C10_mt_code_bijection :
  (forall v, decode (code v) = v) /\ (forall n, code (decode n) = n).
Proof. exact mt_code_bijection. Qed.
Print Assumptions C10_mt_code_bijection.

(** the invariant [MtOK] (well-formed MTBDD table, terminal values in the i64
    range) is what the executable checker decides *)
Theorem C10_mt_invariant_checker :
  forall s, mt_ok_b s = true <->
    (WF s /\ s_kind s = KMtbdd /\ forall t c, term_val s t = Some c -> wf (decode c)).
Proof. exact mt_invariant_checker. Qed.
Print Assumptions C10_mt_invariant_checker.

(** hash-consing of terminal values: [get_terminal] (= constant) *)
Theorem C10_mt_constant :
  forall s v s' r, MtOK s -> wf v -> mt_const s v = (s', r) ->
  MtOK s' /\ mext s s' /\ DenM s' r (fun _ => v) /\
  (forall r0, DenM s r0 (fun _ => v) -> s' = s /\ r = r0).
Proof. exact mt_const_ok. Qed.
Print Assumptions C10_mt_constant.

Theorem C10_mt_constant_assignments :
  forall s v s' r, MtOK s -> wf v -> mt_const s v = (s', r) ->
  MtOK s' /\ mext s s' /\ ref_ok s' r /\ forall a, mfun_of s' r a = v.
Proof. exact mt_const_mfun. Qed.
Print Assumptions C10_mt_constant_assignments.

Theorem C10_mt_var :
  forall s v, MtOK s -> v < nlevels s ->
  exists lvl s' r, nth_error (s_v2l s) v = Some lvl /\ mt_var s v = Some (s', r) /\
    MtOK s' /\ mext s s' /\
    DenM s' r (fun c => if Nat.eqb (c lvl) 0 then i64_one else i64_zero).
Proof. exact mt_var_ok. Qed.
Print Assumptions C10_mt_var.

Theorem C10_mt_var_assignments :
  forall s v, MtOK s -> v < nlevels s ->
  exists s' r, mt_var s v = Some (s', r) /\ MtOK s' /\ mext s s' /\ ref_ok s' r /\
    forall a, mfun_of s' r a = if a v then i64_one else i64_zero.
Proof. exact mt_var_mfun. Qed.
Print Assumptions C10_mt_var_assignments.

(** every arm of terminal_bin: a finished result denotes the pointwise
    operation (and nothing is created if that function already has a
    reference); the normalised triple has the operator that was asked for and
    the operands as given, or swapped for a commutative operator *)
Theorem C10_mt_terminal_bin_sound :
  forall gt s op f g vf vg phi psi, MtOK s ->
  DenM s f phi -> DenM s g psi -> mt_view s f = Some vf -> mt_view s g = Some vg ->
  match mt_tb gt s op f g vf vg with
  | MDone s' r =>
    MtOK s' /\ mext s s' /\ DenM s' r (fun c => mop_eval op (phi c) (psi c)) /\
    (forall r0, DenM s r0 (fun c => mop_eval op (phi c) (psi c)) -> s' = s /\ r = r0)
  | MBin o a b =>
    o = op /\ ((exists nd, vf = MI nd) \/ (exists nd, vg = MI nd)) /\
    ((a = f /\ b = g) \/
     (a = g /\ b = f /\ forall x y, mop_eval op x y = mop_eval op y x))
  end.
Proof. exact mt_tb_sound. Qed.
Print Assumptions C10_mt_terminal_bin_sound.

(** add, sub, mul, div, min, max: for every MtOK table, every correct cache of
    any implementation that only serves what was added, every operand order
    and sufficient fuel, the result denotes the pointwise operation; the table
    is only extended; invariant and cache correctness are preserved; if the
    result function already has a reference, that reference is returned and
    the table is unchanged *)
Theorem C10_mt_apply_bin_lifts :
  forall gt (C : Type) cget cadd, lossy cget cadd ->
  forall op fuel s (c : C) f g phi psi,
  MtOK s -> MCacheOK cget s c -> DenM s f phi -> DenM s g psi ->
  nlevels s - Nat.min (rlevel s f) (rlevel s g) < fuel ->
  exists s' c' r, mt_apply_bin gt C cget cadd fuel s c op f g = Some (s', c', r) /\
    MtOK s' /\ mext s s' /\ MCacheOK cget s' c' /\
    DenM s' r (fun c0 => mop_eval op (phi c0) (psi c0)) /\
    (forall r0, DenM s r0 (fun c0 => mop_eval op (phi c0) (psi c0)) -> s' = s /\ r = r0).
Proof. exact mt_apply_bin_ok. Qed.
Print Assumptions C10_mt_apply_bin_lifts.

(** the same in terms of the interpreter only: value of the result under every
    choice = operation applied to the operands' values *)
Theorem C10_mt_apply_bin_pointwise :
  forall gt (C : Type) cget cadd, lossy cget cadd ->
  forall op fuel s (c : C) f g,
  MtOK s -> MCacheOK cget s c -> ref_ok s f -> ref_ok s g -> FUEL s <= fuel ->
  exists s' c' r, mt_apply_bin gt C cget cadd fuel s c op f g = Some (s', c', r) /\
    MtOK s' /\ mext s s' /\ MCacheOK cget s' c' /\ ref_ok s' r /\
    forall c0, bchoice c0 -> exists x y,
      mvalue s f c0 x /\ mvalue s g c0 y /\ mvalue s' r c0 (mop_eval op x y).
Proof. exact mt_apply_bin_sound. Qed.
Print Assumptions C10_mt_apply_bin_pointwise.

(** ... and in terms of assignments (variable |-> bool) *)
Theorem C10_mt_apply_bin_assignments :
  forall gt (C : Type) cget cadd, lossy cget cadd ->
  forall op s (c : C) f g,
  MtOK s -> MCacheOK cget s c -> ref_ok s f -> ref_ok s g ->
  exists s' c' r, mt_apply_bin gt C cget cadd (FUEL s) s c op f g = Some (s', c', r) /\
    MtOK s' /\ mext s s' /\ ref_ok s' r /\
    forall a, mfun_of s' r a = mop_eval op (mfun_of s f a) (mfun_of s g a).
Proof. exact mt_apply_bin_mfun. Qed.
Print Assumptions C10_mt_apply_bin_assignments.

(** ite: the else-operand where the condition is 0, the then-operand elsewhere *)
Theorem C10_mt_ite_lifts :
  forall (C : Type) cget cadd, lossy cget cadd ->
  forall fuel s (c : C) f g h phi psi theta,
  MtOK s -> MCacheOK cget s c -> DenM s f phi -> DenM s g psi -> DenM s h theta ->
  nlevels s - Nat.min (Nat.min (rlevel s f) (rlevel s g)) (rlevel s h) < fuel ->
  exists s' c' r, mt_apply_ite C cget cadd fuel s c f g h = Some (s', c', r) /\
    MtOK s' /\ mext s s' /\ MCacheOK cget s' c' /\
    DenM s' r (fun c0 => if i64_is_zero (phi c0) then theta c0 else psi c0) /\
    (forall r0, DenM s r0 (fun c0 => if i64_is_zero (phi c0) then theta c0 else psi c0) ->
                s' = s /\ r = r0).
Proof. exact mt_apply_ite_ok. Qed.
Print Assumptions C10_mt_ite_lifts.

(** for a 0-1-valued condition: then-operand where it is 1, else-operand where it is 0 *)
Theorem C10_mt_ite_select :
  forall (C : Type) cget cadd, lossy cget cadd ->
  forall fuel s (c : C) f g h phi psi theta,
  MtOK s -> MCacheOK cget s c -> DenM s f phi -> DenM s g psi -> DenM s h theta ->
  nlevels s - Nat.min (Nat.min (rlevel s f) (rlevel s g)) (rlevel s h) < fuel ->
  exists s' c' r, mt_apply_ite C cget cadd fuel s c f g h = Some (s', c', r) /\
    MtOK s' /\ mext s s' /\ MCacheOK cget s' c' /\
    exists rho, DenM s' r rho /\
      forall c0, bchoice c0 ->
        (phi c0 = i64_one -> rho c0 = psi c0) /\ (phi c0 = i64_zero -> rho c0 = theta c0) /\
        (phi c0 <> i64_zero -> rho c0 = psi c0).
Proof. exact mt_apply_ite_select. Qed.
Print Assumptions C10_mt_ite_select.

Theorem C10_mt_ite_pointwise :
  forall (C : Type) cget cadd, lossy cget cadd ->
  forall fuel s (c : C) f g h,
  MtOK s -> MCacheOK cget s c -> ref_ok s f -> ref_ok s g -> ref_ok s h -> FUEL s <= fuel ->
  exists s' c' r, mt_apply_ite C cget cadd fuel s c f g h = Some (s', c', r) /\
    MtOK s' /\ mext s s' /\ MCacheOK cget s' c' /\ ref_ok s' r /\
    forall c0, bchoice c0 -> exists x y z,
      mvalue s f c0 x /\ mvalue s g c0 y /\ mvalue s h c0 z /\
      mvalue s' r c0 (if i64_is_zero x then z else y).
Proof. exact mt_apply_ite_sound. Qed.
Print Assumptions C10_mt_ite_pointwise.

Theorem C10_mt_ite_assignments :
  forall (C : Type) cget cadd, lossy cget cadd ->
  forall s (c : C) f g h,
  MtOK s -> MCacheOK cget s c -> ref_ok s f -> ref_ok s g -> ref_ok s h ->
  exists s' c' r, mt_apply_ite C cget cadd (FUEL s) s c f g h = Some (s', c', r) /\
    MtOK s' /\ mext s s' /\ ref_ok s' r /\
    forall a, mfun_of s' r a =
      if i64_is_zero (mfun_of s f a) then mfun_of s h a else mfun_of s g a.
Proof. exact mt_apply_ite_mfun. Qed.
Print Assumptions C10_mt_ite_assignments.

(** restrict: the tail-recursive walk down the cube *)
Theorem C10_mt_restrict_walk :
  forall fuel s idf fnode idv vnode phi lits,
  MtOK s -> find_node s idf = Some fnode -> find_node s idv = Some vnode ->
  DenM s (RN idf) phi -> Cube s (RN idv) lits ->
  (nlevels s - nlevel fnode) + (nlevels s - nlevel vnode) < fuel ->
  exists res, mt_restrict_inner fuel s (RN idf) fnode (nlevel fnode) (RN idv) vnode = Some res /\
    match res with
    | RDone r => DenM s r (fun c => phi (ovr lits c))
    | RRec vars' f' fnode' =>
      exists id' phi' lits', f' = RN id' /\ find_node s id' = Some fnode' /\ DenM s f' phi' /\
        Cube s vars' lits' /\ nlevel fnode' < rlevel s vars' /\ nlevel fnode <= nlevel fnode' /\
        (forall c, bchoice c -> phi' (ovr lits' c) = phi (ovr lits c))
    end.
Proof. exact mt_restrict_inner_ok. Qed.
Print Assumptions C10_mt_restrict_walk.

(** restrict by a cube = the operand's function with the literals' levels forced *)
Theorem C10_mt_restrict_lifts :
  forall (C : Type) cget cadd, lossy cget cadd ->
  forall fuel s (c : C) f vars phi lits,
  MtOK s -> MCacheOK cget s c -> DenM s f phi -> Cube s vars lits ->
  nlevels s - rlevel s f < fuel ->
  exists s' c' r, mt_restrict C cget cadd fuel s c f vars = Some (s', c', r) /\
    MtOK s' /\ mext s s' /\ MCacheOK cget s' c' /\
    DenM s' r (fun c0 => phi (ovr lits c0)) /\
    (forall r0, DenM s r0 (fun c0 => phi (ovr lits c0)) -> s' = s /\ r = r0).
Proof. exact mt_restrict_ok. Qed.
Print Assumptions C10_mt_restrict_lifts.

Theorem C10_mt_restrict_pointwise :
  forall (C : Type) cget cadd, lossy cget cadd ->
  forall fuel s (c : C) f vars lits,
  MtOK s -> MCacheOK cget s c -> ref_ok s f -> Cube s vars lits -> FUEL s <= fuel ->
  exists s' c' r, mt_restrict C cget cadd fuel s c f vars = Some (s', c', r) /\
    MtOK s' /\ mext s s' /\ MCacheOK cget s' c' /\ ref_ok s' r /\
    forall c0, bchoice c0 -> exists x,
      mvalue s f (ovr lits c0) x /\ mvalue s' r c0 x.
Proof. exact mt_restrict_sound. Qed.
Print Assumptions C10_mt_restrict_pointwise.

(** in terms of assignments: the variables of the cube's literals are forced *)
Theorem C10_mt_restrict_assignments :
  forall (C : Type) cget cadd, lossy cget cadd ->
  forall s (c : C) f vars lits,
  MtOK s -> MCacheOK cget s c -> ref_ok s f -> Cube s vars lits ->
  exists s' c' r, mt_restrict C cget cadd (FUEL s) s c f vars = Some (s', c', r) /\
    MtOK s' /\ mext s s' /\ ref_ok s' r /\
    forall a, mfun_of s' r a =
      mfun_of s f (fun v => match nth_error (s_v2l s) v with
                            | Some l => match assoc_nat lits l with Some b => b | None => a v end
                            | None => a v
                            end).
Proof. exact mt_restrict_mfun. Qed.
Print Assumptions C10_mt_restrict_assignments.

(** what a cube is: it denotes the product of its literals, and the executable
    checker run on real snapshots establishes the predicate *)
Theorem C10_mt_cube_product :
  forall s r lits, MtOK s -> Cube s r lits ->
  DenM s r (fun c => if lits_hold lits c then i64_one else i64_zero).
Proof. exact cube_den. Qed.
Print Assumptions C10_mt_cube_product.

Theorem C10_mt_cube_checker :
  forall s, MtOK s -> forall fuel r lits, cube_lits fuel s r = Some lits -> Cube s r lits.
Proof. exact cube_lits_sound. Qed.
Print Assumptions C10_mt_cube_checker.

(** eval: the walk computes the interpreter; with an argument list that fixes
    every variable it returns the value of the handle's function *)
Theorem C10_mt_eval_walk :
  forall s, WF s -> forall fuel r ch,
  mt_eval_walk fuel s r ch =
  option_map decode (semk s fuel r (fun l => if ch l then 1 else 0)).
Proof. exact mt_eval_walk_sem. Qed.
Print Assumptions C10_mt_eval_walk.

Theorem C10_mt_eval_assignment :
  forall s r (a : asg) args, MtOK s -> ref_ok s r ->
  (forall v b, In (v, b) args -> b = a v /\ v < nlevels s) ->
  (forall v, v < nlevels s -> In v (map fst args)) ->
  mt_eval s r args = Some (mfun_of s r a).
Proof. exact mt_eval_assignment. Qed.
Print Assumptions C10_mt_eval_assignment.

(** cache transparency and history independence (any two cache implementations
    and operand orders; later states of the table with more nodes and terminals) *)
Theorem C10_mt_cache_transparent :
  forall gt1 gt2 (C1 C2 : Type) cget1 cadd1 cget2 cadd2,
  lossy cget1 cadd1 -> lossy cget2 cadd2 ->
  forall op s (c1 : C1) (c2 : C2) f g fuel1 fuel2 s1 c1' r1 s2 c2' r2,
  MtOK s -> MCacheOK cget1 s c1 -> MCacheOK cget2 s c2 -> ref_ok s f -> ref_ok s g ->
  FUEL s <= fuel1 -> FUEL s <= fuel2 ->
  mt_apply_bin gt1 C1 cget1 cadd1 fuel1 s c1 op f g = Some (s1, c1', r1) ->
  mt_apply_bin gt2 C2 cget2 cadd2 fuel2 s c2 op f g = Some (s2, c2', r2) ->
  forall c0, bchoice c0 -> semk s1 (FUEL s1) r1 c0 = semk s2 (FUEL s2) r2 c0.
Proof. exact mt_apply_bin_cache_transparent. Qed.
Print Assumptions C10_mt_cache_transparent.

Theorem C10_mt_apply_bin_history_independent :
  forall gt1 gt2 (C1 C2 : Type) cget1 cadd1 cget2 cadd2,
  lossy cget1 cadd1 -> lossy cget2 cadd2 ->
  forall op s (c1 : C1) f g fuel1 s1 c1' r1,
  MtOK s -> MCacheOK cget1 s c1 -> ref_ok s f -> ref_ok s g -> FUEL s <= fuel1 ->
  mt_apply_bin gt1 C1 cget1 cadd1 fuel1 s c1 op f g = Some (s1, c1', r1) ->
  forall s2 (c2 : C2) fuel2, MtOK s2 -> mext s1 s2 -> MCacheOK cget2 s2 c2 -> FUEL s2 <= fuel2 ->
  exists c2', mt_apply_bin gt2 C2 cget2 cadd2 fuel2 s2 c2 op f g = Some (s2, c2', r1).
Proof. exact mt_apply_bin_history_independent. Qed.
Print Assumptions C10_mt_apply_bin_history_independent.

Theorem C10_mt_ite_history_independent :
  forall (C1 C2 : Type) cget1 cadd1 cget2 cadd2,
  lossy cget1 cadd1 -> lossy cget2 cadd2 ->
  forall s (c1 : C1) f g h fuel1 s1 c1' r1,
  MtOK s -> MCacheOK cget1 s c1 -> ref_ok s f -> ref_ok s g -> ref_ok s h -> FUEL s <= fuel1 ->
  mt_apply_ite C1 cget1 cadd1 fuel1 s c1 f g h = Some (s1, c1', r1) ->
  forall s2 (c2 : C2) fuel2, MtOK s2 -> mext s1 s2 -> MCacheOK cget2 s2 c2 -> FUEL s2 <= fuel2 ->
  exists c2', mt_apply_ite C2 cget2 cadd2 fuel2 s2 c2 f g h = Some (s2, c2', r1).
Proof. exact mt_apply_ite_history_independent. Qed.
Print Assumptions C10_mt_ite_history_independent.

Theorem C10_mt_restrict_history_independent :
  forall (C1 C2 : Type) cget1 cadd1 cget2 cadd2,
  lossy cget1 cadd1 -> lossy cget2 cadd2 ->
  forall s (c1 : C1) f vars lits fuel1 s1 c1' r1,
  MtOK s -> MCacheOK cget1 s c1 -> ref_ok s f -> Cube s vars lits -> FUEL s <= fuel1 ->
  mt_restrict C1 cget1 cadd1 fuel1 s c1 f vars = Some (s1, c1', r1) ->
  forall s2 (c2 : C2) fuel2, MtOK s2 -> mext s1 s2 -> MCacheOK cget2 s2 c2 -> FUEL s2 <= fuel2 ->
  exists c2', mt_restrict C2 cget2 cadd2 fuel2 s2 c2 f vars = Some (s2, c2', r1).
Proof. exact mt_restrict_history_independent. Qed.
Print Assumptions C10_mt_restrict_history_independent.

Theorem C10_mt_result_unique :
  forall gt (C : Type) cget cadd, lossy cget cadd ->
  forall op fuel s (c : C) f g s' c' r,
  MtOK s -> MCacheOK cget s c -> ref_ok s f -> ref_ok s g -> FUEL s <= fuel ->
  mt_apply_bin gt C cget cadd fuel s c op f g = Some (s', c', r) ->
  forall r0, ref_ok s' r0 ->
    (forall c0, bchoice c0 -> exists x y,
        mvalue s f c0 x /\ mvalue s g c0 y /\ mvalue s' r0 c0 (mop_eval op x y)) ->
    r0 = r.
Proof. exact mt_apply_bin_result_unique. Qed.
Print Assumptions C10_mt_result_unique.

(** the cache instances the theorems are used with: association list, no
    cache, the direct-mapped cache of DD/Cache.v (any bucket count, entry
    capacity and hash function) *)
Theorem C10_mt_cache_instances :
  lossy ac_get ac_add /\ lossy nc_get nc_add /\
  (forall hash, lossy (dmr_get hash) (dmr_add hash)) /\
  (forall s, MCacheOK ac_get s []) /\ (forall s c, MCacheOK nc_get s c).
Proof. exact (conj ac_lossy (conj nc_lossy (conj dmr_lossy (conj mac_empty_ok mnc_ok)))). Qed.
Print Assumptions C10_mt_cache_instances.

(** the hypotheses are satisfiable: the fresh two-variable manager and the
    table the model builds from it (x0, x1, f = 3 * x0 + x1) *)
Theorem C10_mt_hypotheses_satisfiable :
  MtOK ex0 /\ MtOK ex1 /\ MCacheOK ac_get ex1 [] /\
  ref_ok ex1 ex_f /\ ref_ok ex1 ex_x0 /\ Cube ex1 ex_x0 [(0, true)] /\
  vt ex1 ex_f = [Some (INum 0); Some (INum 3); Some (INum 1); Some (INum 4)].
Proof. exact mt_hypotheses_satisfiable. Qed.
Print Assumptions C10_mt_hypotheses_satisfiable.

(** short-cuts that are not laws cannot be proved: the two defects that were
    fixed in oxidd-rules-mtbdd/src/lib.rs, at the diagram level *)
Theorem C10_mt_sub_zero_shortcut_unsound :
  exists s f g phi psi, MtOK s /\ DenM s f phi /\ DenM s g psi /\
    (forall c, phi c = i64_zero) /\
    ~ DenM s g (fun c => i64_sub (phi c) (psi c)).
Proof. exact sub_zero_shortcut_unsound. Qed.
Print Assumptions C10_mt_sub_zero_shortcut_unsound.

Theorem C10_mt_max_under_min_key_unsound :
  exists s f g r phi psi, MtOK s /\ DenM s f phi /\ DenM s g psi /\
    DenM s r (fun c => i64_max (phi c) (psi c)) /\
    ~ mentry_ok s (mop_code MMin) [f; g] r.
Proof. exact max_under_min_key_unsound. Qed.
Print Assumptions C10_mt_max_under_min_key_unsound.

(** * Function level for every terminal type, and for MTBDD<F64> (package C10f)

    The apply algorithms of oxidd-rules-mtbdd are generic in [T: NumberBase];
    DD/MtG.v is the model of DD/ApplyMtbdd.v with the terminal type abstracted
    (class [talg]), DD/MtG*.v prove the function-level theorems from the scalar
    laws collected in the class [tlaws].  [C10_mtg_*]: for EVERY terminal
    algebra that satisfies the laws (no axioms).  [C10_f64_*]: the float
    terminal type [F64] (normalised binary64, Num/F64.v) satisfies the laws
    ([C10_f64_laws]; Flocq, hence the classical axioms of the reals), and the
    theorems read for MTBDD<F64>.  The names of DD/MtG*.v shadow those of
    DD/ApplyMtbdd*.v inside the module only. *)

From OxiVerif Require DD.MtG DD.MtGBase DD.MtGProofs DD.MtGIte DD.MtGRestrict DD.MtGTop
  DD.MtI64 DD.MtF64 DD.MtF64Laws DD.MtF64Proofs.

Module C10F.
Import MtG MtGBase MtGProofs MtGIte MtGRestrict MtGTop MtF64 MtF64Laws MtF64Proofs.

(** ** generic: any terminal type with the laws of [tlaws] *)

(** every arm of [terminal_bin] *)
Theorem C10_mtg_terminal_bin_sound :
  forall (TA : talg), tlaws TA ->
  forall gt s op f g vf vg phi psi, MtOK s ->
  DenM s f phi -> DenM s g psi -> mt_view s f = Some vf -> mt_view s g = Some vg ->
  tb_post s op f g vf vg phi psi (mt_tb gt s op f g vf vg).
Proof. exact @mt_tb_sound. Qed.
Print Assumptions C10_mtg_terminal_bin_sound.

(** [apply_bin]: the pointwise lifting, table only extended, invariants kept,
    an existing reference of the result function returned unchanged *)
Theorem C10_mtg_apply_bin_lifts :
  forall (TA : talg), tlaws TA ->
  forall gt (C : Type) cget cadd, lossy cget cadd ->
  forall op fuel s (c : C) f g phi psi,
  MtOK s -> MCacheOK cget s c -> DenM s f phi -> DenM s g psi ->
  nlevels s - Nat.min (rlevel s f) (rlevel s g) < fuel ->
  exists s' c' r, mt_apply_bin gt C cget cadd fuel s c op f g = Some (s', c', r) /\
    MtOK s' /\ mext s s' /\ MCacheOK cget s' c' /\
    DenM s' r (fun c0 => mop_eval op (phi c0) (psi c0)) /\
    (forall r0, DenM s r0 (fun c0 => mop_eval op (phi c0) (psi c0)) -> s' = s /\ r = r0).
Proof. exact @mt_apply_bin_ok. Qed.
Print Assumptions C10_mtg_apply_bin_lifts.

Theorem C10_mtg_ite_lifts :
  forall (TA : talg), tlaws TA ->
  forall (C : Type) cget cadd, lossy cget cadd ->
  forall fuel s (c : C) f g h phi psi theta,
  MtOK s -> MCacheOK cget s c -> DenM s f phi -> DenM s g psi -> DenM s h theta ->
  nlevels s - Nat.min (Nat.min (rlevel s f) (rlevel s g)) (rlevel s h) < fuel ->
  exists s' c' r, mt_apply_ite C cget cadd fuel s c f g h = Some (s', c', r) /\
    MtOK s' /\ mext s s' /\ MCacheOK cget s' c' /\
    DenM s' r (fun c0 => if t_is_zero (phi c0) then theta c0 else psi c0) /\
    (forall r0, DenM s r0 (fun c0 => if t_is_zero (phi c0) then theta c0 else psi c0) ->
       s' = s /\ r = r0).
Proof. exact @mt_apply_ite_ok. Qed.
Print Assumptions C10_mtg_ite_lifts.

Theorem C10_mtg_restrict_lifts :
  forall (TA : talg), tlaws TA ->
  forall (C : Type) cget cadd, lossy cget cadd ->
  forall fuel s (c : C) f vars phi lits,
  MtOK s -> MCacheOK cget s c -> DenM s f phi -> Cube s vars lits ->
  nlevels s - rlevel s f < fuel ->
  exists s' c' r, mt_restrict C cget cadd fuel s c f vars = Some (s', c', r) /\
    MtOK s' /\ mext s s' /\ MCacheOK cget s' c' /\
    DenM s' r (fun c0 => phi (ovr lits c0)) /\
    (forall r0, DenM s r0 (fun c0 => phi (ovr lits c0)) -> s' = s /\ r = r0).
Proof. exact @mt_restrict_ok. Qed.
Print Assumptions C10_mtg_restrict_lifts.

(** canonicity inside one table *)
Theorem C10_mtg_canonical :
  forall (TA : talg) s r1 r2 phi, MtOK s -> DenM s r1 phi -> DenM s r2 phi -> r1 = r2.
Proof. exact @denm_canon. Qed.
Print Assumptions C10_mtg_canonical.

(** the laws are satisfiable without axioms: the integer terminal type [I64] *)
Theorem C10_mtg_i64_laws : tlaws MtI64.i64_alg.
Proof. exact MtI64.i64_laws. Qed.
Print Assumptions C10_mtg_i64_laws.

(** ** MTBDD<F64> *)

(** the float terminal type as the code defines it satisfies every scalar law
    the function-level development needs *)
Theorem C10_f64_laws : tlaws f64_alg.
Proof. exact f64_laws. Qed.
Print Assumptions C10_f64_laws.

(** the operators of the model at [f64_alg] are the operations of Num/F64.v
    (Flocq binary64, round to nearest even, then the normalisation of [F64::from]) *)
Theorem C10_f64_operators :
  forall o (x y : N), Z.of_N (mop_eval (TA := f64_alg) o x y) = f64_mop o (Z.of_N x) (Z.of_N y).
Proof. exact f64_mop_eval. Qed.
Print Assumptions C10_f64_operators.

(** a short-cut the code does not have would not be a law: x * 0 = 0 fails
    for x = +infinity (NaN), also on normalised values; and the zero
    short-cuts it has would fail on the operand -0.0, which the normalisation
    rules out *)
Theorem C10_f64_mul_zero_not_law :
  exists t x : N, t_is_zero (talg := f64_alg) t = true /\ twf (A := f64_alg) x /\
    t_mul (talg := f64_alg) x t <> t /\ t_mul (talg := f64_alg) t x <> t /\
    t_mul (talg := f64_alg) x t = t_nan (talg := f64_alg).
Proof. exact f64_mul_zero_not_law. Qed.
Print Assumptions C10_f64_mul_zero_not_law.

Theorem C10_f64_zero_shortcut_needs_normalisation :
  let negz := Z.to_N f64_NEG_ZERO_bits in
  (twf (A := f64_alg) negz -> False) /\
  t_add (talg := f64_alg) negz t_zero <> negz /\ t_sub (talg := f64_alg) negz t_zero <> negz.
Proof.
  exact (conj f64_zero_shortcuts_need_normalisation (proj2 f64_zero_shortcut_fails_on_negzero)).
Qed.
Print Assumptions C10_f64_zero_shortcut_needs_normalisation.

(** the invariant of MTBDD<F64> tables and its checker *)
Theorem C10_f64_invariant :
  forall s,
  (f64m_ok_b s = true <-> MtOK (TA := f64_alg) s) /\
  (MtOK (TA := f64_alg) s <->
   (WF s /\ s_kind s = KMtbdd /\ forall t c, term_val s t = Some c -> f64_normal (Z.of_N c))).
Proof. exact f64_invariant. Qed.
Print Assumptions C10_f64_invariant.

(** apply = pointwise lifting of the IEEE-754 operation + normalisation *)
Theorem C10_f64_apply_pointwise :
  forall gt (C : Type) cget cadd, lossy cget cadd ->
  forall op fuel s (c : C) f g,
  MtOK (TA := f64_alg) s -> MCacheOK (TA := f64_alg) cget s c -> ref_ok s f -> ref_ok s g ->
  FUEL s <= fuel ->
  exists s' c' r,
    mt_apply_bin (TA := f64_alg) gt C cget cadd fuel s c op f g = Some (s', c', r) /\
    MtOK (TA := f64_alg) s' /\ mext s s' /\ MCacheOK (TA := f64_alg) cget s' c' /\ ref_ok s' r /\
    forall c0, bchoice c0 -> exists x y z : N,
      fvalue s f c0 x /\ fvalue s g c0 y /\ fvalue s' r c0 z /\
      Z.of_N z = f64_mop op (Z.of_N x) (Z.of_N y).
Proof. exact f64_apply_pointwise. Qed.
Print Assumptions C10_f64_apply_pointwise.

(** in terms of assignments (variable order applied) *)
Theorem C10_f64_apply_assignments :
  forall gt (C : Type) cget cadd, lossy cget cadd ->
  forall op s (c : C) f g,
  MtOK (TA := f64_alg) s -> MCacheOK (TA := f64_alg) cget s c -> ref_ok s f -> ref_ok s g ->
  exists s' c' r, mt_apply_bin (TA := f64_alg) gt C cget cadd (FUEL s) s c op f g = Some (s', c', r) /\
    MtOK (TA := f64_alg) s' /\ mext s s' /\ ref_ok s' r /\
    forall a, mfun_of (TA := f64_alg) s' r a
              = mop_eval (TA := f64_alg) op (mfun_of (TA := f64_alg) s f a) (mfun_of (TA := f64_alg) s g a).
Proof. exact (mt_apply_bin_mfun (TA := f64_alg)). Qed.
Print Assumptions C10_f64_apply_assignments.

(** the result does not depend on the cache contents, the cache
    implementation or the operand order ... *)
Theorem C10_f64_cache_transparent :
  forall gt1 gt2 (C1 C2 : Type) cget1 cadd1 cget2 cadd2,
  lossy cget1 cadd1 -> lossy cget2 cadd2 ->
  forall op s (c1 : C1) (c2 : C2) f g fuel1 fuel2 s1 c1' r1 s2 c2' r2,
  MtOK (TA := f64_alg) s -> MCacheOK (TA := f64_alg) cget1 s c1 -> MCacheOK (TA := f64_alg) cget2 s c2 ->
  ref_ok s f -> ref_ok s g -> FUEL s <= fuel1 -> FUEL s <= fuel2 ->
  mt_apply_bin (TA := f64_alg) gt1 C1 cget1 cadd1 fuel1 s c1 op f g = Some (s1, c1', r1) ->
  mt_apply_bin (TA := f64_alg) gt2 C2 cget2 cadd2 fuel2 s c2 op f g = Some (s2, c2', r2) ->
  forall c0, bchoice c0 -> semk s1 (FUEL s1) r1 c0 = semk s2 (FUEL s2) r2 c0.
Proof. exact (mt_apply_bin_cache_transparent (TA := f64_alg)). Qed.
Print Assumptions C10_f64_cache_transparent.

(** ... nor on the history: repeated in any later state of the table it
    returns the identical reference and creates nothing *)
Theorem C10_f64_history_independent :
  forall gt1 gt2 (C1 C2 : Type) cget1 cadd1 cget2 cadd2,
  lossy cget1 cadd1 -> lossy cget2 cadd2 ->
  forall op s (c1 : C1) f g fuel1 s1 c1' r1,
  MtOK (TA := f64_alg) s -> MCacheOK (TA := f64_alg) cget1 s c1 -> ref_ok s f -> ref_ok s g ->
  FUEL s <= fuel1 ->
  mt_apply_bin (TA := f64_alg) gt1 C1 cget1 cadd1 fuel1 s c1 op f g = Some (s1, c1', r1) ->
  forall s2 (c2 : C2) fuel2, MtOK (TA := f64_alg) s2 -> mext s1 s2 ->
  MCacheOK (TA := f64_alg) cget2 s2 c2 -> FUEL s2 <= fuel2 ->
  exists c2', mt_apply_bin (TA := f64_alg) gt2 C2 cget2 cadd2 fuel2 s2 c2 op f g = Some (s2, c2', r1).
Proof. exact (mt_apply_bin_history_independent (TA := f64_alg)). Qed.
Print Assumptions C10_f64_history_independent.

(** canonicity of MTBDD<F64>: equal values under all choices = equal
    references; the result of an operation is THE reference of its meaning *)
Theorem C10_f64_canonical :
  (forall s r1 r2,
     MtOK (TA := f64_alg) s -> ref_ok s r1 -> ref_ok s r2 ->
     (forall c0, bchoice c0 -> semk s (FUEL s) r1 c0 = semk s (FUEL s) r2 c0) -> r1 = r2) /\
  (forall gt (C : Type) cget cadd, lossy cget cadd ->
   forall op fuel s (c : C) f g s' c' r,
   MtOK (TA := f64_alg) s -> MCacheOK (TA := f64_alg) cget s c -> ref_ok s f -> ref_ok s g ->
   FUEL s <= fuel ->
   mt_apply_bin (TA := f64_alg) gt C cget cadd fuel s c op f g = Some (s', c', r) ->
   forall r0, ref_ok s' r0 ->
     (forall c0, bchoice c0 -> exists x y,
         mvalue (TA := f64_alg) s f c0 x /\ mvalue (TA := f64_alg) s g c0 y /\
         mvalue (TA := f64_alg) s' r0 c0 (mop_eval (TA := f64_alg) op x y)) ->
     r0 = r).
Proof. exact (conj f64_canonical (mt_apply_bin_result_unique (TA := f64_alg))). Qed.
Print Assumptions C10_f64_canonical.

(** NaN propagates pointwise *)
Theorem C10_f64_nan :
  forall gt (C : Type) cget cadd, lossy cget cadd ->
  forall op fuel s (c : C) f g s' c' r,
  MtOK (TA := f64_alg) s -> MCacheOK (TA := f64_alg) cget s c -> ref_ok s f -> ref_ok s g ->
  FUEL s <= fuel ->
  mt_apply_bin (TA := f64_alg) gt C cget cadd fuel s c op f g = Some (s', c', r) ->
  forall c0, bchoice c0 ->
    (fvalue s f c0 (Z.to_N f64_nan) \/ fvalue s g c0 (Z.to_N f64_nan)) ->
    fvalue s' r c0 (Z.to_N f64_nan).
Proof. exact f64_apply_nan. Qed.
Print Assumptions C10_f64_nan.

(** every terminal stored is normalised: no -0.0, a single NaN pattern, one
    terminal per value - in every table satisfying the invariant, in
    particular in the result table of every operation *)
Theorem C10_f64_normalised :
  (forall s, MtOK (TA := f64_alg) s ->
     (forall t c, term_val s t = Some c ->
        f64_normal (Z.of_N c) /\ Z.of_N c <> f64_NEG_ZERO_bits /\
        (is_nan 53 1024 (b64_of_bits (Z.of_N c)) = true -> Z.of_N c = f64_NAN_bits)) /\
     (forall t1 t2 c, term_val s t1 = Some c -> term_val s t2 = Some c -> t1 = t2) /\
     (forall t1 t2 c1 c2, term_val s t1 = Some c1 -> term_val s t2 = Some c2 ->
        is_nan 53 1024 (b64_of_bits (Z.of_N c1)) = true ->
        is_nan 53 1024 (b64_of_bits (Z.of_N c2)) = true -> t1 = t2)) /\
  (forall gt (C : Type) cget cadd, lossy cget cadd ->
   forall op fuel s (c : C) f g s' c' r,
   MtOK (TA := f64_alg) s -> MCacheOK (TA := f64_alg) cget s c -> ref_ok s f -> ref_ok s g ->
   FUEL s <= fuel ->
   mt_apply_bin (TA := f64_alg) gt C cget cadd fuel s c op f g = Some (s', c', r) ->
   f64_terms_normalised s').
Proof. exact (conj f64_ok_terms_normalised f64_apply_normalised). Qed.
Print Assumptions C10_f64_normalised.

(** ite: the else-operand where the condition is 0, the then-operand elsewhere
    (the code's release behaviour for conditions that are not 0-1-valued:
    every non-zero value, including NaN, selects the then-operand) *)
Theorem C10_f64_ite :
  forall (C : Type) cget cadd, lossy cget cadd ->
  forall s (c : C) f g h,
  MtOK (TA := f64_alg) s -> MCacheOK (TA := f64_alg) cget s c -> ref_ok s f -> ref_ok s g -> ref_ok s h ->
  exists s' c' r, mt_apply_ite (TA := f64_alg) C cget cadd (FUEL s) s c f g h = Some (s', c', r) /\
    MtOK (TA := f64_alg) s' /\ mext s s' /\ ref_ok s' r /\
    forall a, mfun_of (TA := f64_alg) s' r a =
      if f64_is_zero (Z.of_N (mfun_of (TA := f64_alg) s f a))
      then mfun_of (TA := f64_alg) s h a else mfun_of (TA := f64_alg) s g a.
Proof. exact (mt_apply_ite_mfun (TA := f64_alg)). Qed.
Print Assumptions C10_f64_ite.

(** restrict: the operand's function with the cube's variables forced *)
Theorem C10_f64_restrict :
  forall (C : Type) cget cadd, lossy cget cadd ->
  forall s (c : C) f vars lits,
  MtOK (TA := f64_alg) s -> MCacheOK (TA := f64_alg) cget s c -> ref_ok s f ->
  Cube (TA := f64_alg) s vars lits ->
  exists s' c' r, mt_restrict (TA := f64_alg) C cget cadd (FUEL s) s c f vars = Some (s', c', r) /\
    MtOK (TA := f64_alg) s' /\ mext s s' /\ ref_ok s' r /\
    forall a, mfun_of (TA := f64_alg) s' r a = mfun_of (TA := f64_alg) s f (force_asg s lits a).
Proof. exact (mt_restrict_mfun (TA := f64_alg)). Qed.
Print Assumptions C10_f64_restrict.

(** ite and restrict return the identical reference in every later state *)
Theorem C10_f64_ite_restrict_history_independent :
  (forall (C1 C2 : Type) cget1 cadd1 cget2 cadd2, lossy cget1 cadd1 -> lossy cget2 cadd2 ->
   forall s (c1 : C1) f g h fuel1 s1 c1' r1,
   MtOK (TA := f64_alg) s -> MCacheOK (TA := f64_alg) cget1 s c1 -> ref_ok s f -> ref_ok s g -> ref_ok s h ->
   FUEL s <= fuel1 ->
   mt_apply_ite (TA := f64_alg) C1 cget1 cadd1 fuel1 s c1 f g h = Some (s1, c1', r1) ->
   forall s2 (c2 : C2) fuel2, MtOK (TA := f64_alg) s2 -> mext s1 s2 ->
   MCacheOK (TA := f64_alg) cget2 s2 c2 -> FUEL s2 <= fuel2 ->
   exists c2', mt_apply_ite (TA := f64_alg) C2 cget2 cadd2 fuel2 s2 c2 f g h = Some (s2, c2', r1)) /\
  (forall (C1 C2 : Type) cget1 cadd1 cget2 cadd2, lossy cget1 cadd1 -> lossy cget2 cadd2 ->
   forall s (c1 : C1) f vars lits fuel1 s1 c1' r1,
   MtOK (TA := f64_alg) s -> MCacheOK (TA := f64_alg) cget1 s c1 -> ref_ok s f ->
   Cube (TA := f64_alg) s vars lits -> FUEL s <= fuel1 ->
   mt_restrict (TA := f64_alg) C1 cget1 cadd1 fuel1 s c1 f vars = Some (s1, c1', r1) ->
   forall s2 (c2 : C2) fuel2, MtOK (TA := f64_alg) s2 -> mext s1 s2 ->
   MCacheOK (TA := f64_alg) cget2 s2 c2 -> FUEL s2 <= fuel2 ->
   exists c2', mt_restrict (TA := f64_alg) C2 cget2 cadd2 fuel2 s2 c2 f vars = Some (s2, c2', r1)).
Proof.
  exact (conj (mt_apply_ite_history_independent (TA := f64_alg))
              (mt_restrict_history_independent (TA := f64_alg))).
Qed.
Print Assumptions C10_f64_ite_restrict_history_independent.

(** cubes: the checker establishes [Cube]; a cube denotes the product of its literals *)
Theorem C10_f64_cube :
  (forall s, MtOK (TA := f64_alg) s -> forall fuel r lits,
     f64m_cube_lits fuel s r = Some lits -> Cube (TA := f64_alg) s r lits) /\
  (forall s r lits, MtOK (TA := f64_alg) s -> Cube (TA := f64_alg) s r lits ->
     DenM (TA := f64_alg) s r (fun c => if lits_hold lits c then Z.to_N f64_one else Z.to_N f64_zero)).
Proof. exact (conj (cube_lits_sound (TA := f64_alg)) (cube_den (TA := f64_alg))). Qed.
Print Assumptions C10_f64_cube.

(** constant (through [F64::from]), var, eval *)
Theorem C10_f64_const :
  forall s x s' r, MtOK (TA := f64_alg) s -> f64m_const s x = (s', r) ->
  MtOK (TA := f64_alg) s' /\ mext s s' /\ ref_ok s' r /\
  (forall c0, fvalue s' r c0 (Z.to_N (f64_from_bits x))) /\
  Z.of_N (Z.to_N (f64_from_bits x)) = f64_from_bits x /\
  (forall r0, DenM (TA := f64_alg) s r0 (fun _ => Z.to_N (f64_from_bits x)) -> s' = s /\ r = r0).
Proof. exact f64_const_ok. Qed.
Print Assumptions C10_f64_const.

Theorem C10_f64_var :
  forall s v, MtOK (TA := f64_alg) s -> v < nlevels s ->
  exists lvl s' r, nth_error (s_v2l s) v = Some lvl /\ f64m_var s v = Some (s', r) /\
    MtOK (TA := f64_alg) s' /\ mext s s' /\ ref_ok s' r /\
    forall c0, bchoice c0 ->
      fvalue s' r c0 (if Nat.eqb (c0 lvl) 0 then Z.to_N f64_one else Z.to_N f64_zero).
Proof. exact f64_var_ok. Qed.
Print Assumptions C10_f64_var.

Theorem C10_f64_eval :
  forall s r (a : asg) args, MtOK (TA := f64_alg) s -> ref_ok s r ->
  (forall v b, In (v, b) args -> b = a v /\ v < nlevels s) ->
  (forall v, v < nlevels s -> In v (map fst args)) ->
  f64m_eval s r args = Some (mfun_of (TA := f64_alg) s r a).
Proof. exact (mt_eval_assignment (TA := f64_alg)). Qed.
Print Assumptions C10_f64_eval.

(** the hypotheses are satisfiable: the fresh two-variable manager and the
    table the model builds from it (x0, x1, f = 0.5 * x0 + x1) *)
Theorem C10_f64_hypotheses_satisfiable :
  MtOK (TA := f64_alg) exf0 /\ MtOK (TA := f64_alg) exf1 /\ MCacheOK (TA := f64_alg) ac_get exf1 [] /\
  ref_ok exf1 exf_f /\ ref_ok exf1 exf_x0 /\ Cube (TA := f64_alg) exf1 exf_x0 [(0, true)] /\
  fvt exf1 exf_f = [Some f64_zero; Some f64_HALF; Some f64_one; Some f64_1P5].
Proof. exact f64_hypotheses_satisfiable. Qed.
Print Assumptions C10_f64_hypotheses_satisfiable.

End C10F.
