(** C11 — TDD: one fixed three-valued logic.  Property theorems only
    (proved in DD/TddProofs.v over the model DD/Tdd.v). *)
From Coq Require Import Bool Arith List.
From OxiVerif Require Import DD.Tdd DD.TddProofs.
Import ListNotations.

(** The fixed tables: Kleene's strong not/and/or are 1-x / min / max over
    F < U < T, Lukasiewicz's imp/equiv are min(1,1-a+b) / 1-|a-b| (ranks scaled
    by 2), the derived connectives are derived as the property says, and the
    27-entry [ite3] table is the rule of the property text. *)
Theorem C11_tables :
  (forall a, rank (k_not a) = 2 - rank a) /\
  (forall a b, rank (k_and a b) = Nat.min (rank a) (rank b)) /\
  (forall a b, rank (k_or a b) = Nat.max (rank a) (rank b)) /\
  (forall a b, rank (l_imp a b) = Nat.min 2 (2 - rank a + rank b)) /\
  (forall a b, rank (l_equiv a b) = 2 - (Nat.max (rank a) (rank b) - Nat.min (rank a) (rank b))) /\
  (forall a b, table Nand a b = k_not (k_and a b) /\ table Nor a b = k_not (k_or a b) /\
               table Xor a b = k_not (l_equiv a b) /\ table ImpStrict a b = k_not (l_imp b a) /\
               table And a b = k_and a b /\ table Or a b = k_or a b /\
               table Imp a b = l_imp a b /\ table Equiv a b = l_equiv a b) /\
  (forall a b c, ite3 a b c = ite3_text a b c).
Proof.
  repeat split; auto using k_not_rank, k_and_rank, k_or_rank, l_imp_rank, l_equiv_rank, ite3_is_text.
Qed.
Print Assumptions C11_tables.

(** Every arm of [terminal_bin] (all 8 binary operators, including the
    [f == g] short-cuts and the operand normalisation, for any edge order
    [gt]) denotes the operator's fixed table, for operands of any shape. *)
Theorem C11_terminal_bin : forall (gt : tdd -> tdd -> bool) op f g a,
  op_denotes (terminal_bin gt op f g) a = table op (sem f a) (sem g a).
Proof. exact terminal_bin_sound. Qed.
Print Assumptions C11_terminal_bin.

Theorem C11_terminal_bin_leaves : forall (gt : tdd -> tdd -> bool) op x y,
  match terminal_bin gt op (Leaf x) (Leaf y) with
  | Done r => r = Leaf (table op x y)
  | ONot r => apply_not r = Leaf (table op x y)
  | Binary _ _ _ => False
  end.
Proof. exact terminal_bin_leaves. Qed.
Print Assumptions C11_terminal_bin_leaves.

(** The normalised operand pair is a sound cache key. *)
Theorem C11_terminal_bin_key : forall (gt : tdd -> tdd -> bool) op f g o x y,
  terminal_bin gt op f g = Binary o x y ->
  o = op /\
  ((x = f /\ y = g) \/ (x = g /\ y = f /\ commutative op = true)) /\
  (is_terminal f = false \/ is_terminal g = false) /\
  f <> g.
Proof. exact terminal_bin_key_sound. Qed.
Print Assumptions C11_terminal_bin_key.

(** Every terminal short-cut of [apply_ite_rec] denotes [ite3]. *)
Theorem C11_ite_shortcuts : forall f g h a v,
  sc_denotes (ite_shortcut f g h) a = Some v -> v = ite3 (sem f a) (sem g a) (sem h a).
Proof. exact ite_shortcut_sound. Qed.
Print Assumptions C11_ite_shortcuts.

(** Constants and variables. *)
Theorem C11_constants_var :
  (forall a, sem tdd_f a = TF /\ sem tdd_t a = TT /\ sem tdd_u a = TU) /\
  (forall l a, sem (tdd_var l) a = a l) /\
  (forall v, ordered (Leaf v) /\ reduced (Leaf v)) /\
  (forall l, ordered (tdd_var l) /\ reduced (tdd_var l) /\ below (S l) (tdd_var l)).
Proof.
  split; [exact const_sem|]. split; [exact var_sem|]. exact const_var_wf.
Qed.
Print Assumptions C11_constants_var.

(** Negation, for all diagrams. *)
Theorem C11_not : forall f,
  (forall a, sem (apply_not f) a = k_not (sem f a)) /\
  (forall n, ordered_from n f -> ordered_from n (apply_not f)) /\
  (reduced f -> reduced (apply_not f)) /\
  (forall n, below n f -> below n (apply_not f)).
Proof.
  intros f. repeat split.
  - apply apply_not_sem.
  - intros n. apply apply_not_ordered.
  - apply apply_not_reduced.
  - intros n. apply apply_not_below.
Qed.
Print Assumptions C11_not.

(** Lifting of the binary connectives to ALL diagrams and ALL assignments
    (induction on the expansion, any edge order): the run from the public entry
    point terminates normally and returns the diagram of the pointwise table;
    ordered / reduced / level-bounded operands give such a result. *)
Theorem C11_apply_bin : forall (gt : tdd -> tdd -> bool) op f g,
  exists r, apply_bin_auto gt op f g = Some r /\
    (forall a, sem r a = table op (sem f a) (sem g a)) /\
    (forall n, ordered_from n f -> ordered_from n g -> ordered_from n r) /\
    (reduced f -> reduced g -> reduced r) /\
    (forall n, below n f -> below n g -> below n r).
Proof. exact apply_bin_auto_correct. Qed.
Print Assumptions C11_apply_bin.

(** The same for if-then-else against [ite3]. *)
Theorem C11_apply_ite : forall (gt : tdd -> tdd -> bool) f g h,
  exists r, apply_ite_auto gt f g h = Some r /\
    (forall a, sem r a = ite3 (sem f a) (sem g a) (sem h a)) /\
    (forall n, ordered_from n f -> ordered_from n g -> ordered_from n h -> ordered_from n r) /\
    (reduced f -> reduced g -> reduced h -> reduced r) /\
    (forall n, below n f -> below n g -> below n h -> below n r).
Proof. exact apply_ite_auto_correct. Qed.
Print Assumptions C11_apply_ite.

(** [eval] follows the true / unknown / false child: on every complete
    assignment (all [n] levels given, any order) it is [sem]. *)
Theorem C11_eval : forall f n a args,
  below n f ->
  (forall x v, In (x, v) args -> v = a x) ->
  (forall l, l < n -> In l (map fst args)) ->
  eval f args = sem f a.
Proof. exact eval_complete. Qed.
Print Assumptions C11_eval.

(** The cofactors are the children in the order true, unknown, false; for
    ordered diagrams they are the three restrictions w.r.t. the top variable,
    which (reduced diagrams) is a variable the function really depends on. *)
Theorem C11_cofactors : forall f,
  match f with
  | Leaf _ => cofactors f = None
  | Node l t u e =>
    cofactors f = Some (t, u, e) /\
    (forall n, ordered_from n f ->
      forall a, sem t a = sem f (upd a l TT) /\ sem u a = sem f (upd a l TU) /\
                sem e a = sem f (upd a l TF)) /\
    (ordered f -> reduced f -> ~ (forall a v w, sem f (upd a l v) = sem f (upd a l w))) /\
    (forall n, ordered_from n f -> forall a x v, x < l -> sem f (upd a x v) = sem f a)
  end.
Proof.
  intros f. pose proof (cofactors_spec f) as H. destruct f as [v|l t u e]; [exact H|].
  destruct H as [H1 H2]. repeat split; auto.
  - apply H2 with n; assumption.
  - apply H2 with n; assumption.
  - apply H2 with n; assumption.
  - apply top_level_essential.
  - intros n Ho a x v Hx. apply sem_indep with l; [|assumption].
    destruct Ho as (_ & Ho). simpl. split; [apply le_n|exact Ho].
Qed.
Print Assumptions C11_cofactors.

(** Canonicity: handle equality is equality of functions. *)
Theorem C11_canonical : forall f g,
  ordered f -> reduced f -> ordered g -> reduced g ->
  (tdd_eqb f g = true <-> forall a, sem f a = sem g a).
Proof. exact tdd_eqb_iff_sem. Qed.
Print Assumptions C11_canonical.

(** Every (extensional) function of finitely many levels has a reduced ordered
    diagram: the hypotheses above are satisfiable for every function. *)
Theorem C11_representable : forall ls fn a n, fn_ext fn -> incr_from n ls ->
  ordered_from n (tdd_of_fun ls fn a) /\ reduced (tdd_of_fun ls fn a) /\
  (forall b, sem (tdd_of_fun ls fn a) b = fn (override ls a b)).
Proof.
  intros ls fn a n Hext Hinc. destruct (tdd_of_fun_wf ls fn a n Hinc) as (H1 & H2 & _).
  repeat split; auto. intros b. apply tdd_of_fun_sem with n; assumption.
Qed.
Print Assumptions C11_representable.

(** The default method [TVLFunction::ite_edge] of oxidd-core (not reachable
    through TDD handles, which override it) is NOT the ite of the property. *)
Theorem C11_default_ite_refuted : forall (gt : tdd -> tdd -> bool), exists f g h r a,
  apply_ite_default gt f g h = Some r /\ sem r a <> ite3 (sem f a) (sem g a) (sem h a).
Proof. exact apply_ite_default_refuted. Qed.
Print Assumptions C11_default_ite_refuted.

Definition C11_pin_1 : forall (gt : tdd -> tdd -> bool) op f g,
  exists r, apply_bin_auto gt op f g = Some r /\
    (forall a, sem r a = table op (sem f a) (sem g a)) /\
    (forall n, ordered_from n f -> ordered_from n g -> ordered_from n r) /\
    (reduced f -> reduced g -> reduced r) /\
    (forall n, below n f -> below n g -> below n r) := C11_apply_bin.
Definition C11_pin_2 : forall f g h a v,
  sc_denotes (ite_shortcut f g h) a = Some v -> v = ite3 (sem f a) (sem g a) (sem h a) := C11_ite_shortcuts.

(** The bit-packed choices vector of [eval_edge] (two bits per level, sixteen
    levels per u32 block, [(val << shift) | (block & !(0b11 << shift))]) reads
    back exactly what the abstract level -> child map holds. *)
Theorem C11_eval_packed : forall n f args,
  below n f -> (forall l v, In (l, v) args -> l < n) -> eval_packed n f args = eval f args.
Proof. exact eval_packed_eq. Qed.
Print Assumptions C11_eval_packed.

(* ======================================================================== *)
(** * C11 on hash-consed tables (snapshot-level model)

    The theorems above are about the TREE model DD/Tdd.v.  The theorems below
    are about the same Rust functions modelled on the manager's state: a node
    table [snap] (DD/Table.v) with unique table ([mk_node] = [reduce] "all three
    children equal" + [get_or_insert]), the three hash-consed terminals, an
    abstract apply cache keyed by ([TDDOp] code, normalised operands) and the
    unobservable edge order [gt] (model: DD/ApplyTdd.v; proofs: DD/ApplyTdd*.v).
    The logic is the one defined above: [tri], [k_not], [table], [ite3] of
    DD/Tdd.v and their pointwise liftings [fn_not], [fn_bin], [fn_ite];
    [DenT s r phi] = reference [r] of table [s] denotes [phi : tfun], i.e. the
    interpreter [semk] returns the code of [phi a] under every three-valued
    assignment [a] of the levels.  The extracted model is replayed on snapshots
    of real TDD managers with the real operand edges (./check C11, stage 2). *)
From Coq Require Import NArith PArith FMapPositive.
From OxiVerif Require Import DD.Table DD.TableProofs DD.Build DD.BuildProofs
  DD.Apply DD.ApplyProofs DD.Cache DD.CacheProofs
  DD.ApplyTdd DD.ApplyTddBase DD.ApplyTddProofs DD.ApplyTddIte DD.ApplyTddTop DD.ApplyTddEval
  DD.ApplyTddTree DD.ApplyTddExamples.

(** the invariant [TdOK] (well-formed TDD table with exactly the terminals
    False / Unknown / True) is what the extracted checker decides *)
Theorem C11_snap_invariant_checker :
  forall s, td_ok_b s = true <-> TdOK s.
Proof. exact td_ok_b_spec. Qed.
Print Assumptions C11_snap_invariant_checker.

(** the hypotheses are satisfiable: the fresh two-variable manager, and a table
    with 8 inner nodes built by the model itself together with the non-empty
    cache the run left behind *)
Theorem C11_snap_hypotheses_satisfiable :
  TdOK tex0 /\ TCacheOK ac_get tex0 [] /\
  TdOK tex1 /\ PositiveMap.cardinal (s_nodes tex1) = 8 /\
  TCacheOK ac_get tex1 tex_c /\ tex_c <> [].
Proof.
  exact (conj tex0_ok (conj tex0_cache_ok (conj tex1_ok
          (conj (proj1 (proj2 (proj2 (proj2 (proj2 (proj2 (proj2 tex_build_runs))))))) tex_cache_ok)))).
Qed.
Print Assumptions C11_snap_hypotheses_satisfiable.

(** every stored reference denotes exactly one three-valued function, and two
    references of one table that denote the same function are the same
    reference (canonicity: handle equality = function equality) *)
Theorem C11_snap_denotation :
  (forall s r, TdOK s -> ref_ok s r -> exists phi, DenT s r phi) /\
  (forall s r phi phi', DenT s r phi -> DenT s r phi' -> forall a, phi a = phi' a) /\
  (forall s r1 r2 phi, TdOK s -> DenT s r1 phi -> DenT s r2 phi -> r1 = r2).
Proof. exact (conj dent_exists (conj dent_unique dent_canon)). Qed.
Print Assumptions C11_snap_denotation.

(** constants f / u / t: the terminal with that value, which is THE reference of
    the constant function *)
Theorem C11_snap_constants : forall s v, TdOK s ->
  exists t, td_const s v = Some (RT t) /\ DenT s (RT t) (fn_const v) /\
    forall r0, DenT s r0 (fn_const v) -> r0 = RT t.
Proof. exact td_const_ok. Qed.
Print Assumptions C11_snap_constants.

(** var: the node (level of the variable; True, Unknown, False) denotes the
    projection; nothing is created if it exists *)
Theorem C11_snap_var : forall s v, TdOK s -> v < nlevels s ->
  exists lvl s' r, nth_error (s_v2l s) v = Some lvl /\ nth_error (s_l2v s) lvl = Some v /\
    td_var s v = Some (s', r) /\ TdOK s' /\ extends s s' /\ DenT s' r (fn_var lvl) /\
    (forall r0, DenT s r0 (fn_var lvl) -> s' = s /\ r = r0).
Proof. exact td_var_ok. Qed.
Print Assumptions C11_snap_var.

(** every arm of [terminal_bin] on table references (8 operators, [f == g]
    short-cuts, terminal short-cuts, operand normalisation, any edge order)
    agrees with the operator's fixed table *)
Theorem C11_snap_terminal_bin_sound :
  forall (gt : ref -> ref -> bool) s op f g vf vg phi psi, TdOK s ->
  DenT s f phi -> DenT s g psi -> td_view s f = Some vf -> td_view s g = Some vg ->
  match td_tb gt s op f g vf vg with
  | DDone r => DenT s r (fn_bin op phi psi)
  | DNot r =>
    (r = f /\ forall a, fn_bin op phi psi a = k_not (phi a)) \/
    (r = g /\ forall a, fn_bin op phi psi a = k_not (psi a))
  | DBin o a b =>
    o = op /\ (is_term vf = false \/ is_term vg = false) /\ f <> g /\
    ((a = f /\ b = g) \/ (a = g /\ b = f /\ commutative op = true))
  | DFail => False
  end.
Proof. exact td_tb_sound. Qed.
Print Assumptions C11_snap_terminal_bin_sound.

(** every terminal short-cut of [apply_ite_rec] after the three equality tests
    agrees with [ite3]; "no short-cut" only if not all operands are terminals *)
Theorem C11_snap_ite_shortcuts_sound :
  forall s f g h vf vg vh phi psi theta, TdOK s ->
  DenT s f phi -> DenT s g psi -> DenT s h theta ->
  td_view s f = Some vf -> td_view s g = Some vg -> td_view s h = Some vh ->
  g <> h -> f <> g -> f <> h ->
  match td_ite_sc s f g h vf vg vh with
  | IDone r => DenT s r (fn_ite phi psi theta)
  | IBin op a b =>
    (a = f /\ b = g /\ forall x, fn_ite phi psi theta x = fn_bin op phi psi x) \/
    (a = f /\ b = h /\ forall x, fn_ite phi psi theta x = fn_bin op phi theta x)
  | INot a => a = f /\ forall x, fn_ite phi psi theta x = fn_not phi x
  | IRec => is_term vf = false \/ is_term vg = false \/ is_term vh = false
  | IFail => False
  end.
Proof. exact td_ite_sc_sound. Qed.
Print Assumptions C11_snap_ite_shortcuts_sound.

(** not: for every TdOK table, every correct cache of ANY implementation that
    only serves what was added, and sufficient fuel, the run returns (never
    fails) a reference denoting the pointwise Kleene negation; the table is
    only extended; invariant and cache correctness are preserved; if the
    result function already has a reference, that reference is returned and
    the table is unchanged *)
Theorem C11_snap_not_lifts :
  forall (C : Type) cget cadd, lossy cget cadd ->
  forall fuel s (c : C) f phi,
  TdOK s -> TCacheOK cget s c -> DenT s f phi -> nlevels s - rlevel s f < fuel ->
  exists s' c' r, td_apply_not C cget cadd fuel s c f = Some (s', c', r) /\
    TdOK s' /\ extends s s' /\ TCacheOK cget s' c' /\ DenT s' r (fn_not phi) /\
    (forall r0, DenT s r0 (fn_not phi) -> s' = s /\ r = r0).
Proof. exact td_apply_not_ok. Qed.
Print Assumptions C11_snap_not_lifts.

(** and, or, nand, nor, xor, equiv, imp, imp_strict: the same against
    [table op], for every edge order *)
Theorem C11_snap_apply_bin_lifts :
  forall (gt : ref -> ref -> bool) (C : Type) cget cadd, lossy cget cadd ->
  forall op fuel s (c : C) f g phi psi,
  TdOK s -> TCacheOK cget s c -> DenT s f phi -> DenT s g psi ->
  nlevels s - Nat.min (rlevel s f) (rlevel s g) < fuel ->
  exists s' c' r, td_apply_bin gt C cget cadd fuel s c op f g = Some (s', c', r) /\
    TdOK s' /\ extends s s' /\ TCacheOK cget s' c' /\ DenT s' r (fn_bin op phi psi) /\
    (forall r0, DenT s r0 (fn_bin op phi psi) -> s' = s /\ r = r0).
Proof. exact td_apply_bin_ok. Qed.
Print Assumptions C11_snap_apply_bin_lifts.

(** ite against [ite3] *)
Theorem C11_snap_apply_ite_lifts :
  forall (gt : ref -> ref -> bool) (C : Type) cget cadd, lossy cget cadd ->
  forall fuel s (c : C) f g h phi psi theta,
  TdOK s -> TCacheOK cget s c -> DenT s f phi -> DenT s g psi -> DenT s h theta ->
  nlevels s - Nat.min (Nat.min (rlevel s f) (rlevel s g)) (rlevel s h) < fuel ->
  exists s' c' r, td_apply_ite gt C cget cadd fuel s c f g h = Some (s', c', r) /\
    TdOK s' /\ extends s s' /\ TCacheOK cget s' c' /\ DenT s' r (fn_ite phi psi theta) /\
    (forall r0, DenT s r0 (fn_ite phi psi theta) -> s' = s /\ r = r0).
Proof. exact td_apply_ite_ok. Qed.
Print Assumptions C11_snap_apply_ite_lifts.

(** the same in terms of the interpreter only: the value of the result under
    every three-valued assignment is the fixed table applied to the operands'
    values *)
Theorem C11_snap_not_pointwise :
  forall (C : Type) cget cadd, lossy cget cadd ->
  forall fuel s (c : C) f,
  TdOK s -> TCacheOK cget s c -> ref_ok s f -> FUEL s <= fuel ->
  exists s' c' r, td_apply_not C cget cadd fuel s c f = Some (s', c', r) /\
    TdOK s' /\ extends s s' /\ TCacheOK cget s' c' /\ ref_ok s' r /\
    forall a : assignment, exists x,
      tvalue s f (chc a) x /\ tvalue s' r (chc a) (k_not x).
Proof. exact td_apply_not_sound. Qed.
Print Assumptions C11_snap_not_pointwise.

Theorem C11_snap_apply_bin_pointwise :
  forall (gt : ref -> ref -> bool) (C : Type) cget cadd, lossy cget cadd ->
  forall op fuel s (c : C) f g,
  TdOK s -> TCacheOK cget s c -> ref_ok s f -> ref_ok s g -> FUEL s <= fuel ->
  exists s' c' r, td_apply_bin gt C cget cadd fuel s c op f g = Some (s', c', r) /\
    TdOK s' /\ extends s s' /\ TCacheOK cget s' c' /\ ref_ok s' r /\
    forall a : assignment, exists x y,
      tvalue s f (chc a) x /\ tvalue s g (chc a) y /\ tvalue s' r (chc a) (table op x y).
Proof. exact td_apply_bin_sound. Qed.
Print Assumptions C11_snap_apply_bin_pointwise.

Theorem C11_snap_apply_ite_pointwise :
  forall (gt : ref -> ref -> bool) (C : Type) cget cadd, lossy cget cadd ->
  forall fuel s (c : C) f g h,
  TdOK s -> TCacheOK cget s c -> ref_ok s f -> ref_ok s g -> ref_ok s h -> FUEL s <= fuel ->
  exists s' c' r, td_apply_ite gt C cget cadd fuel s c f g h = Some (s', c', r) /\
    TdOK s' /\ extends s s' /\ TCacheOK cget s' c' /\ ref_ok s' r /\
    forall a : assignment, exists x y z,
      tvalue s f (chc a) x /\ tvalue s g (chc a) y /\ tvalue s h (chc a) z /\
      tvalue s' r (chc a) (ite3 x y z).
Proof. exact td_apply_ite_sound. Qed.
Print Assumptions C11_snap_apply_ite_pointwise.

(** ... and in terms of three-valued assignments of the VARIABLES under the
    table's variable order ([tfun_of s r] : (variable -> tri) -> tri) *)
Theorem C11_snap_handles_assignments :
  (forall s v, TdOK s ->
     exists r, td_const s v = Some r /\ ref_ok s r /\ forall av, tfun_of s r av = v) /\
  (forall s v, TdOK s -> v < nlevels s ->
     exists s' r, td_var s v = Some (s', r) /\ TdOK s' /\ extends s s' /\ ref_ok s' r /\
       forall av, tfun_of s' r av = av v) /\
  (forall (C : Type) cget cadd, lossy cget cadd -> forall s (c : C) f,
     TdOK s -> TCacheOK cget s c -> ref_ok s f ->
     exists s' c' r, td_apply_not C cget cadd (FUEL s) s c f = Some (s', c', r) /\
       TdOK s' /\ extends s s' /\ ref_ok s' r /\
       forall av, tfun_of s' r av = k_not (tfun_of s f av)) /\
  (forall (gt : ref -> ref -> bool) (C : Type) cget cadd, lossy cget cadd -> forall op s (c : C) f g,
     TdOK s -> TCacheOK cget s c -> ref_ok s f -> ref_ok s g ->
     exists s' c' r, td_apply_bin gt C cget cadd (FUEL s) s c op f g = Some (s', c', r) /\
       TdOK s' /\ extends s s' /\ ref_ok s' r /\
       forall av, tfun_of s' r av = table op (tfun_of s f av) (tfun_of s g av)) /\
  (forall (gt : ref -> ref -> bool) (C : Type) cget cadd, lossy cget cadd -> forall s (c : C) f g h,
     TdOK s -> TCacheOK cget s c -> ref_ok s f -> ref_ok s g -> ref_ok s h ->
     exists s' c' r, td_apply_ite gt C cget cadd (FUEL s) s c f g h = Some (s', c', r) /\
       TdOK s' /\ extends s s' /\ ref_ok s' r /\
       forall av, tfun_of s' r av = ite3 (tfun_of s f av) (tfun_of s g av) (tfun_of s h av)).
Proof.
  exact (conj td_const_tfun (conj td_var_tfun (conj td_apply_not_tfun
          (conj td_apply_bin_tfun td_apply_ite_tfun)))).
Qed.
Print Assumptions C11_snap_handles_assignments.

(** cofactors are the children in the order true, unknown, false = the three
    restrictions w.r.t. the root's level, which is a level the function
    depends on while it ignores all levels above it *)
Theorem C11_snap_cofactors : forall s r phi, TdOK s -> DenT s r phi ->
  match r with
  | RT _ => td_cofactors s r = None
  | RN id =>
    exists nd t u e, find_node s id = Some nd /\ td_cofactors s r = Some (t, u, e) /\
      DenT s t (fn_restrict phi (nlevel nd) TT) /\
      DenT s u (fn_restrict phi (nlevel nd) TU) /\
      DenT s e (fn_restrict phi (nlevel nd) TF) /\
      ~ (t = u /\ u = e) /\ indepT phi (nlevel nd) /\
      nlevel nd < rlevel s t /\ nlevel nd < rlevel s u /\ nlevel nd < rlevel s e
  end.
Proof. exact td_cofactors_ok. Qed.
Print Assumptions C11_snap_cofactors.

(** eval: the walk over the bit-packed choices vector of [eval_edge] equals the
    walk over the abstract level -> child map, which computes the function of
    the reference under the assignment denoted by the argument list; for a
    complete, consistent argument list (any order, repetitions) this is the
    value of the handle's function at that assignment of the variables *)
Theorem C11_snap_eval :
  (forall s r args, WF s -> td_eval s r args = td_eval_abs s r args) /\
  (forall s r phi args largs, TdOK s -> DenT s r phi -> td_level_args s args = Some largs ->
     td_eval s r args = Some (phi (assignment_of largs (fun _ => TT)))) /\
  (forall s r (av : nat -> tri) args, TdOK s -> ref_ok s r ->
     (forall v x, In (v, x) args -> x = av v /\ v < nlevels s) ->
     (forall v, v < nlevels s -> In v (map fst args)) ->
     td_eval s r args = Some (tfun_of s r av)).
Proof. exact (conj td_eval_packed_eq (conj td_eval_ok td_eval_assignment)). Qed.
Print Assumptions C11_snap_eval.

(** cache transparency: two runs on the same table with arbitrary correct
    caches of arbitrary implementations and arbitrary edge orders return
    results with the same meaning *)
Theorem C11_snap_cache_transparent :
  forall (gt1 gt2 : ref -> ref -> bool) (C1 C2 : Type) cget1 cadd1 cget2 cadd2,
  lossy cget1 cadd1 -> lossy cget2 cadd2 ->
  forall op s (c1 : C1) (c2 : C2) f g fuel1 fuel2 s1 c1' r1 s2 c2' r2,
  TdOK s -> TCacheOK cget1 s c1 -> TCacheOK cget2 s c2 -> ref_ok s f -> ref_ok s g ->
  FUEL s <= fuel1 -> FUEL s <= fuel2 ->
  td_apply_bin gt1 C1 cget1 cadd1 fuel1 s c1 op f g = Some (s1, c1', r1) ->
  td_apply_bin gt2 C2 cget2 cadd2 fuel2 s c2 op f g = Some (s2, c2', r2) ->
  forall a : assignment, semk s1 (FUEL s1) r1 (chc a) = semk s2 (FUEL s2) r2 (chc a).
Proof. exact td_apply_bin_cache_transparent. Qed.
Print Assumptions C11_snap_cache_transparent.

(** history independence: repeating the operation in ANY later state of the
    table (more nodes, any correct cache of any implementation, any edge
    order) returns the identical reference and leaves the table unchanged *)
Theorem C11_snap_not_history_independent :
  forall (C1 C2 : Type) cget1 cadd1 cget2 cadd2, lossy cget1 cadd1 -> lossy cget2 cadd2 ->
  forall s (c1 : C1) f fuel1 s1 c1' r1,
  TdOK s -> TCacheOK cget1 s c1 -> ref_ok s f -> FUEL s <= fuel1 ->
  td_apply_not C1 cget1 cadd1 fuel1 s c1 f = Some (s1, c1', r1) ->
  forall s2 (c2 : C2) fuel2, TdOK s2 -> extends s1 s2 -> TCacheOK cget2 s2 c2 -> FUEL s2 <= fuel2 ->
  exists c2', td_apply_not C2 cget2 cadd2 fuel2 s2 c2 f = Some (s2, c2', r1).
Proof. exact td_apply_not_history_independent. Qed.
Print Assumptions C11_snap_not_history_independent.

Theorem C11_snap_apply_bin_history_independent :
  forall (gt1 gt2 : ref -> ref -> bool) (C1 C2 : Type) cget1 cadd1 cget2 cadd2,
  lossy cget1 cadd1 -> lossy cget2 cadd2 ->
  forall op s (c1 : C1) f g fuel1 s1 c1' r1,
  TdOK s -> TCacheOK cget1 s c1 -> ref_ok s f -> ref_ok s g -> FUEL s <= fuel1 ->
  td_apply_bin gt1 C1 cget1 cadd1 fuel1 s c1 op f g = Some (s1, c1', r1) ->
  forall s2 (c2 : C2) fuel2, TdOK s2 -> extends s1 s2 -> TCacheOK cget2 s2 c2 -> FUEL s2 <= fuel2 ->
  exists c2', td_apply_bin gt2 C2 cget2 cadd2 fuel2 s2 c2 op f g = Some (s2, c2', r1).
Proof. exact td_apply_bin_history_independent. Qed.
Print Assumptions C11_snap_apply_bin_history_independent.

Theorem C11_snap_apply_ite_history_independent :
  forall (gt1 gt2 : ref -> ref -> bool) (C1 C2 : Type) cget1 cadd1 cget2 cadd2,
  lossy cget1 cadd1 -> lossy cget2 cadd2 ->
  forall s (c1 : C1) f g h fuel1 s1 c1' r1,
  TdOK s -> TCacheOK cget1 s c1 -> ref_ok s f -> ref_ok s g -> ref_ok s h -> FUEL s <= fuel1 ->
  td_apply_ite gt1 C1 cget1 cadd1 fuel1 s c1 f g h = Some (s1, c1', r1) ->
  forall s2 (c2 : C2) fuel2, TdOK s2 -> extends s1 s2 -> TCacheOK cget2 s2 c2 -> FUEL s2 <= fuel2 ->
  exists c2', td_apply_ite gt2 C2 cget2 cadd2 fuel2 s2 c2 f g h = Some (s2, c2', r1).
Proof. exact td_apply_ite_history_independent. Qed.
Print Assumptions C11_snap_apply_ite_history_independent.

(** result uniqueness: in its result table the returned reference is THE
    reference whose value under every assignment is the table's value *)
Theorem C11_snap_result_unique :
  (forall (gt : ref -> ref -> bool) (C : Type) cget cadd, lossy cget cadd ->
   forall op fuel s (c : C) f g s' c' r,
   TdOK s -> TCacheOK cget s c -> ref_ok s f -> ref_ok s g -> FUEL s <= fuel ->
   td_apply_bin gt C cget cadd fuel s c op f g = Some (s', c', r) ->
   forall r0, ref_ok s' r0 ->
     (forall a : assignment, exists x y,
         tvalue s f (chc a) x /\ tvalue s g (chc a) y /\ tvalue s' r0 (chc a) (table op x y)) ->
     r0 = r) /\
  (forall (gt : ref -> ref -> bool) (C : Type) cget cadd, lossy cget cadd ->
   forall fuel s (c : C) f g h s' c' r,
   TdOK s -> TCacheOK cget s c -> ref_ok s f -> ref_ok s g -> ref_ok s h -> FUEL s <= fuel ->
   td_apply_ite gt C cget cadd fuel s c f g h = Some (s', c', r) ->
   forall r0, ref_ok s' r0 ->
     (forall a : assignment, exists x y z,
         tvalue s f (chc a) x /\ tvalue s g (chc a) y /\ tvalue s h (chc a) z /\
         tvalue s' r0 (chc a) (ite3 x y z)) ->
     r0 = r).
Proof. exact (conj td_apply_bin_result_unique td_apply_ite_result_unique). Qed.
Print Assumptions C11_snap_result_unique.

(** the cache models are instances of the abstract cache: the unbounded
    association list, the cache that stores nothing, and the direct-mapped
    lossy cache of oxidd-cache (DD/Cache.v) for any hash function; their empty
    states are correct caches *)
Theorem C11_snap_cache_instances :
  lossy ac_get ac_add /\ lossy nc_get nc_add /\
  (forall hash, lossy (dmr_get hash) (dmr_add hash)) /\
  (forall s, TCacheOK ac_get s []) /\ (forall s c, TCacheOK nc_get s c) /\
  (forall hash s nb cap, TCacheOK (dmr_get hash) s (dm_init nb cap)) /\
  (forall hash s c, TCacheOK (dmr_get hash) s (dm_clear c)).
Proof.
  exact (conj ac_lossy (conj nc_lossy (conj dmr_lossy (conj tac_empty_ok (conj tnc_ok
          (conj tdm_init_ok tdm_clear_ok)))))).
Qed.
Print Assumptions C11_snap_cache_instances.

(** the tree model of the first part is the unfolding of the table model:
    every reference unfolds to an ordered, reduced, level-bounded tree with the
    reference's function; the tree determines the reference (hash-consing =
    structural equality of the trees) *)
Theorem C11_snap_unfold :
  (forall s r phi, TdOK s -> DenT s r phi ->
     exists t, unfoldT s r = Some t /\ (forall a, Tdd.sem t a = phi a) /\
       TddBasic.ordered t /\ TddBasic.reduced t /\ TddBasic.below (nlevels s) t) /\
  (forall s r1 r2 t, TdOK s -> ref_ok s r1 -> ref_ok s r2 ->
     unfoldT s r1 = Some t -> unfoldT s r2 = Some t -> r1 = r2) /\
  (forall s s' r, TdOK s -> TdOK s' -> extends s s' -> ref_ok s r -> unfoldT s' r = unfoldT s r).
Proof. exact (conj unfoldT_ok (conj td_unfold_inj td_unfold_extends)). Qed.
Print Assumptions C11_snap_unfold.

(** ... and the table algorithms commute with unfolding: the result of the
    table algorithm (any cache, any cache contents, any edge order) unfolds to
    the result of the tree algorithm of DD/Tdd.v (any tree edge order) on the
    unfolded operands *)
Theorem C11_snap_tree_model :
  forall (gt : ref -> ref -> bool) (gtt : tdd -> tdd -> bool) (C : Type) cget cadd, lossy cget cadd ->
  (forall fuel s (c : C) f s' c' r,
     TdOK s -> TCacheOK cget s c -> ref_ok s f -> FUEL s <= fuel ->
     td_apply_not C cget cadd fuel s c f = Some (s', c', r) ->
     exists tf, unfoldT s f = Some tf /\ unfoldT s' r = Some (Tdd.apply_not tf)) /\
  (forall op fuel s (c : C) f g s' c' r,
     TdOK s -> TCacheOK cget s c -> ref_ok s f -> ref_ok s g -> FUEL s <= fuel ->
     td_apply_bin gt C cget cadd fuel s c op f g = Some (s', c', r) ->
     exists tf tg, unfoldT s f = Some tf /\ unfoldT s g = Some tg /\
       unfoldT s' r = Tdd.apply_bin_auto gtt op tf tg) /\
  (forall fuel s (c : C) f g h s' c' r,
     TdOK s -> TCacheOK cget s c -> ref_ok s f -> ref_ok s g -> ref_ok s h -> FUEL s <= fuel ->
     td_apply_ite gt C cget cadd fuel s c f g h = Some (s', c', r) ->
     exists tf tg th, unfoldT s f = Some tf /\ unfoldT s g = Some tg /\ unfoldT s h = Some th /\
       unfoldT s' r = Tdd.apply_ite_auto gtt tf tg th).
Proof.
  exact (fun gt gtt C cget cadd L =>
    conj (td_apply_not_tree C cget cadd L)
      (conj (td_apply_bin_tree gt gtt C cget cadd L) (td_apply_ite_tree gt gtt C cget cadd L))).
Qed.
Print Assumptions C11_snap_tree_model.

Definition C11_pin_3 : forall (gt : ref -> ref -> bool) (C : Type) cget cadd, lossy cget cadd ->
  forall op fuel s (c : C) f g phi psi,
  TdOK s -> TCacheOK cget s c -> DenT s f phi -> DenT s g psi ->
  nlevels s - Nat.min (rlevel s f) (rlevel s g) < fuel ->
  exists s' c' r, td_apply_bin gt C cget cadd fuel s c op f g = Some (s', c', r) /\
    TdOK s' /\ extends s s' /\ TCacheOK cget s' c' /\ DenT s' r (fn_bin op phi psi) /\
    (forall r0, DenT s r0 (fn_bin op phi psi) -> s' = s /\ r = r0) := C11_snap_apply_bin_lifts.
