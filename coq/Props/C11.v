(** C11 — TDD: one fixed three-valued logic.  Property theorems only
    (proved in DD/TddProofs.v over the model DD/Tdd.v). *)
From Coq Require Import Bool Arith List.
From OxiVerif Require Import DD.Tdd DD.TddProofs.
Import ListNotations.

(** The fixed tables: Kleene's strong not/and/or are 1-x / min / max over
    F < U < T, Lukasiewicz's imp/equiv are min(1,1-a+b) / 1-|a-b| (ranks scaled
    by 2), the derived connectives are derived as the property says, and the
    27-entry [ite3] table is the rule of the property text. *)
Theorem C11_tables :
  (forall a, rank (k_not a) = 2 - rank a) /\
  (forall a b, rank (k_and a b) = Nat.min (rank a) (rank b)) /\
  (forall a b, rank (k_or a b) = Nat.max (rank a) (rank b)) /\
  (forall a b, rank (l_imp a b) = Nat.min 2 (2 - rank a + rank b)) /\
  (forall a b, rank (l_equiv a b) = 2 - (Nat.max (rank a) (rank b) - Nat.min (rank a) (rank b))) /\
  (forall a b, table Nand a b = k_not (k_and a b) /\ table Nor a b = k_not (k_or a b) /\
               table Xor a b = k_not (l_equiv a b) /\ table ImpStrict a b = k_not (l_imp b a) /\
               table And a b = k_and a b /\ table Or a b = k_or a b /\
               table Imp a b = l_imp a b /\ table Equiv a b = l_equiv a b) /\
  (forall a b c, ite3 a b c = ite3_text a b c).
Proof.
  repeat split; auto using k_not_rank, k_and_rank, k_or_rank, l_imp_rank, l_equiv_rank, ite3_is_text.
Qed.
Print Assumptions C11_tables.

(** Every arm of [terminal_bin] (all 8 binary operators, including the
    [f == g] short-cuts and the operand normalisation, for any edge order
    [gt]) denotes the operator's fixed table, for operands of any shape. *)
Theorem C11_terminal_bin : forall (gt : tdd -> tdd -> bool) op f g a,
  op_denotes (terminal_bin gt op f g) a = table op (sem f a) (sem g a).
Proof. exact terminal_bin_sound. Qed.
Print Assumptions C11_terminal_bin.

Theorem C11_terminal_bin_leaves : forall (gt : tdd -> tdd -> bool) op x y,
  match terminal_bin gt op (Leaf x) (Leaf y) with
  | Done r => r = Leaf (table op x y)
  | ONot r => apply_not r = Leaf (table op x y)
  | Binary _ _ _ => False
  end.
Proof. exact terminal_bin_leaves. Qed.
Print Assumptions C11_terminal_bin_leaves.

(** The normalised operand pair is a sound cache key. *)
Theorem C11_terminal_bin_key : forall (gt : tdd -> tdd -> bool) op f g o x y,
  terminal_bin gt op f g = Binary o x y ->
  o = op /\
  ((x = f /\ y = g) \/ (x = g /\ y = f /\ commutative op = true)) /\
  (is_terminal f = false \/ is_terminal g = false) /\
  f <> g.
Proof. exact terminal_bin_key_sound. Qed.
Print Assumptions C11_terminal_bin_key.

(** Every terminal short-cut of [apply_ite_rec] denotes [ite3]. *)
Theorem C11_ite_shortcuts : forall f g h a v,
  sc_denotes (ite_shortcut f g h) a = Some v -> v = ite3 (sem f a) (sem g a) (sem h a).
Proof. exact ite_shortcut_sound. Qed.
Print Assumptions C11_ite_shortcuts.

(** Constants and variables. *)
Theorem C11_constants_var :
  (forall a, sem tdd_f a = TF /\ sem tdd_t a = TT /\ sem tdd_u a = TU) /\
  (forall l a, sem (tdd_var l) a = a l) /\
  (forall v, ordered (Leaf v) /\ reduced (Leaf v)) /\
  (forall l, ordered (tdd_var l) /\ reduced (tdd_var l) /\ below (S l) (tdd_var l)).
Proof.
  split; [exact const_sem|]. split; [exact var_sem|]. exact const_var_wf.
Qed.
Print Assumptions C11_constants_var.

(** Negation, for all diagrams. *)
Theorem C11_not : forall f,
  (forall a, sem (apply_not f) a = k_not (sem f a)) /\
  (forall n, ordered_from n f -> ordered_from n (apply_not f)) /\
  (reduced f -> reduced (apply_not f)) /\
  (forall n, below n f -> below n (apply_not f)).
Proof.
  intros f. repeat split.
  - apply apply_not_sem.
  - intros n. apply apply_not_ordered.
  - apply apply_not_reduced.
  - intros n. apply apply_not_below.
Qed.
Print Assumptions C11_not.

(** Lifting of the binary connectives to ALL diagrams and ALL assignments
    (induction on the expansion, any edge order): the run from the public entry
    point terminates normally and returns the diagram of the pointwise table;
    ordered / reduced / level-bounded operands give such a result. *)
Theorem C11_apply_bin : forall (gt : tdd -> tdd -> bool) op f g,
  exists r, apply_bin_auto gt op f g = Some r /\
    (forall a, sem r a = table op (sem f a) (sem g a)) /\
    (forall n, ordered_from n f -> ordered_from n g -> ordered_from n r) /\
    (reduced f -> reduced g -> reduced r) /\
    (forall n, below n f -> below n g -> below n r).
Proof. exact apply_bin_auto_correct. Qed.
Print Assumptions C11_apply_bin.

(** The same for if-then-else against [ite3]. *)
Theorem C11_apply_ite : forall (gt : tdd -> tdd -> bool) f g h,
  exists r, apply_ite_auto gt f g h = Some r /\
    (forall a, sem r a = ite3 (sem f a) (sem g a) (sem h a)) /\
    (forall n, ordered_from n f -> ordered_from n g -> ordered_from n h -> ordered_from n r) /\
    (reduced f -> reduced g -> reduced h -> reduced r) /\
    (forall n, below n f -> below n g -> below n h -> below n r).
Proof. exact apply_ite_auto_correct. Qed.
Print Assumptions C11_apply_ite.

(** [eval] follows the true / unknown / false child: on every complete
    assignment (all [n] levels given, any order) it is [sem]. *)
Theorem C11_eval : forall f n a args,
  below n f ->
  (forall x v, In (x, v) args -> v = a x) ->
  (forall l, l < n -> In l (map fst args)) ->
  eval f args = sem f a.
Proof. exact eval_complete. Qed.
Print Assumptions C11_eval.

(** The cofactors are the children in the order true, unknown, false; for
    ordered diagrams they are the three restrictions w.r.t. the top variable,
    which (reduced diagrams) is a variable the function really depends on. *)
Theorem C11_cofactors : forall f,
  match f with
  | Leaf _ => cofactors f = None
  | Node l t u e =>
    cofactors f = Some (t, u, e) /\
    (forall n, ordered_from n f ->
      forall a, sem t a = sem f (upd a l TT) /\ sem u a = sem f (upd a l TU) /\
                sem e a = sem f (upd a l TF)) /\
    (ordered f -> reduced f -> ~ (forall a v w, sem f (upd a l v) = sem f (upd a l w))) /\
    (forall n, ordered_from n f -> forall a x v, x < l -> sem f (upd a x v) = sem f a)
  end.
Proof.
  intros f. pose proof (cofactors_spec f) as H. destruct f as [v|l t u e]; [exact H|].
  destruct H as [H1 H2]. repeat split; auto.
  - apply H2 with n; assumption.
  - apply H2 with n; assumption.
  - apply H2 with n; assumption.
  - apply top_level_essential.
  - intros n Ho a x v Hx. apply sem_indep with l; [|assumption].
    destruct Ho as (_ & Ho). simpl. split; [apply le_n|exact Ho].
Qed.
Print Assumptions C11_cofactors.

(** Canonicity: handle equality is equality of functions. *)
Theorem C11_canonical : forall f g,
  ordered f -> reduced f -> ordered g -> reduced g ->
  (tdd_eqb f g = true <-> forall a, sem f a = sem g a).
Proof. exact tdd_eqb_iff_sem. Qed.
Print Assumptions C11_canonical.

(** Every (extensional) function of finitely many levels has a reduced ordered
    diagram: the hypotheses above are satisfiable for every function. *)
Theorem C11_representable : forall ls fn a n, fn_ext fn -> incr_from n ls ->
  ordered_from n (tdd_of_fun ls fn a) /\ reduced (tdd_of_fun ls fn a) /\
  (forall b, sem (tdd_of_fun ls fn a) b = fn (override ls a b)).
Proof.
  intros ls fn a n Hext Hinc. destruct (tdd_of_fun_wf ls fn a n Hinc) as (H1 & H2 & _).
  repeat split; auto. intros b. apply tdd_of_fun_sem with n; assumption.
Qed.
Print Assumptions C11_representable.

(** The default method [TVLFunction::ite_edge] of oxidd-core (not reachable
    through TDD handles, which override it) is NOT the ite of the property. *)
Theorem C11_default_ite_refuted : forall (gt : tdd -> tdd -> bool), exists f g h r a,
  apply_ite_default gt f g h = Some r /\ sem r a <> ite3 (sem f a) (sem g a) (sem h a).
Proof. exact apply_ite_default_refuted. Qed.
Print Assumptions C11_default_ite_refuted.

Definition C11_pin_1 : forall (gt : tdd -> tdd -> bool) op f g,
  exists r, apply_bin_auto gt op f g = Some r /\
    (forall a, sem r a = table op (sem f a) (sem g a)) /\
    (forall n, ordered_from n f -> ordered_from n g -> ordered_from n r) /\
    (reduced f -> reduced g -> reduced r) /\
    (forall n, below n f -> below n g -> below n r) := C11_apply_bin.
Definition C11_pin_2 : forall f g h a v,
  sc_denotes (ite_shortcut f g h) a = Some v -> v = ite3 (sem f a) (sem g a) (sem h a) := C11_ite_shortcuts.

(** The bit-packed choices vector of [eval_edge] (two bits per level, sixteen
    levels per u32 block, [(val << shift) | (block & !(0b11 << shift))]) reads
    back exactly what the abstract level -> child map holds. *)
Theorem C11_eval_packed : forall n f args,
  below n f -> (forall l v, In (l, v) args -> l < n) -> eval_packed n f args = eval f args.
Proof. exact eval_packed_eq. Qed.
Print Assumptions C11_eval_packed.
