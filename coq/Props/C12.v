(** C12 -- property theorems, number types part (theorem names C12_nat_..., C12_sat_...).
    The sat_count theorems are added to this file by the DD package. *)
From OxiVerif Require Import Num.Natural Num.Saturating.
From Coq Require Import List NArith.

(* placeholder until Num/NaturalProofs.v lands *)
Theorem C12_nat_zero_not_nan : is_nan ZERO = false.
Proof. reflexivity. Qed.
Print Assumptions C12_nat_zero_not_nan.
