(** C12 -- property theorems only.

    Part 1 (C12_nat_...): the arbitrary-precision [Natural]
    (model: Num/Natural.v, mirroring crates/oxidd-core/src/util/num/bigint.rs;
    proofs: Num/NaturalProofs.v, NaturalAddProofs.v, NaturalCmpProofs.v,
    NaturalDigitsProofs.v, NaturalExamples.v).
    Vocabulary:
    - [val n]    the number a value denotes: [None] for the error value NaN
                 (exponent [u64::MAX]), otherwise [mantissa * 2^exponent] with
                 the mantissa given by the little-endian u64 digit list;
    - [Inv n]    the representation invariant (digits are u64, at least one digit,
                 exponent is a u64, mantissa odd or zero, zero has exponent 0 or is
                 NaN, an array of two or more digits holds a mantissa above
                 [u64::MAX] with at most one zero digit at the top, below which the
                 top bit is set); [inv_b] decides it;
    - [norm v]   what an operation with exact result [v] returns: [Some v] if
                 [v = 0] or the number of trailing zero bits of [v] (the exponent
                 of its representation) is below [u64::MAX], NaN otherwise.

    Part 2 (C12_su_...): [Saturating<u64>] / [Saturating<u128>]
    (model Num/Saturating.v, proofs Num/SaturatingProofs.v); [sval] is [None]
    for the out-of-bounds marker [T::MAX].

    Part 3 (C12_sat_...): model counting (model DD/SatCount.v mirroring the three
    [sat_count_edge] and [SatCountCache]; proofs DD/SatCountProofs.v,
    DD/SatQueryProofs.v).  [count_levels n f] is the number of assignments of
    the [n] levels satisfying [f]; [fun_bdd] / [fun_bcdd] / [fun_zbdd] are the
    Boolean functions denoted by an edge (DD/Sem.v semantics). *)
From Coq Require Import List NArith PArith Bool Arith FMapPositive.
From OxiVerif Require Import Num.Natural Num.NatBase Num.NaturalProofs Num.NaturalAddProofs
  Num.NaturalCmpProofs Num.NaturalDigitsProofs Num.NaturalFmtProofs Num.NaturalExamples
  Num.Saturating Num.SaturatingProofs.
From OxiVerif Require Import DD.Table DD.TableExtra DD.TableProofs DD.SatCount DD.SatCountProofs DD.SatQueryProofs
  DD.SatBcddSatProofs.
Import ListNotations.

(** * Part 1: Natural *)

(** the invariant implies the code's own [check_inv], and is decidable *)
Theorem C12_nat_inv_check_inv : forall n, Inv n -> check_inv n = true.
Proof. exact Inv_check_inv. Qed.
Print Assumptions C12_nat_inv_check_inv.

Theorem C12_nat_inv_decidable : forall n, inv_b n = true <-> Inv n.
Proof. exact inv_b_spec. Qed.
Print Assumptions C12_nat_inv_decidable.

Theorem C12_nat_zero : Inv ZERO /\ val ZERO = Some 0%N.
Proof. exact (conj Inv_ZERO val_ZERO). Qed.
Print Assumptions C12_nat_zero.

Theorem C12_nat_nan : Inv NAN /\ val NAN = None.
Proof. exact (conj Inv_NAN val_NAN). Qed.
Print Assumptions C12_nat_nan.

(** every denoted number is representable: it is 0 or its number of trailing
    zero bits is a valid exponent *)
Theorem C12_nat_val_representable : forall n v, Inv n -> val n = Some v -> norm v = Some v.
Proof. exact val_norm. Qed.
Print Assumptions C12_nat_val_representable.

(** [bit_width()] is [1 + floor(log2 v)] (0 for 0) *)
Theorem C12_nat_bit_width : forall n v, Inv n -> val n = Some v -> bit_width n = N.size v.
Proof. exact bit_width_val. Qed.
Print Assumptions C12_nat_bit_width.

(** [From<u8>], [From<u16>], [From<u32>], [From<u64>], [From<u128>] *)
Theorem C12_nat_from_u8 : forall v, (v < 2 ^ 8)%N -> Inv (from_u8 v) /\ val (from_u8 v) = Some v.
Proof. exact from_u8_spec. Qed.
Print Assumptions C12_nat_from_u8.

Theorem C12_nat_from_u16 : forall v, (v < 2 ^ 16)%N -> Inv (from_u16 v) /\ val (from_u16 v) = Some v.
Proof. exact from_u16_spec. Qed.
Print Assumptions C12_nat_from_u16.

Theorem C12_nat_from_u32 : forall v, (v < 2 ^ 32)%N -> Inv (from_u32 v) /\ val (from_u32 v) = Some v.
Proof. exact from_u32_spec. Qed.
Print Assumptions C12_nat_from_u32.

Theorem C12_nat_from_u64 : forall v, (v < B64)%N -> Inv (from_u64 v) /\ val (from_u64 v) = Some v.
Proof. exact from_u64_spec. Qed.
Print Assumptions C12_nat_from_u64.

Theorem C12_nat_from_u128 : forall v, (v < B128)%N -> Inv (from_u128 v) /\ val (from_u128 v) = Some v.
Proof. exact from_u128_spec. Qed.
Print Assumptions C12_nat_from_u128.

(** [from_le_digits]: any list of u64 digits *)
Theorem C12_nat_from_le_digits : forall ds, Forall (fun d => (d < B64)%N) ds ->
  Inv (from_le_digits ds) /\ val (from_le_digits ds) = norm (digits_val ds).
Proof. exact from_le_digits_spec. Qed.
Print Assumptions C12_nat_from_le_digits.

(** [Add]: the exact sum; NaN iff an operand is NaN or the exponent of the sum
    is not below [u64::MAX] *)
Theorem C12_nat_add : forall a b, Inv a -> Inv b ->
  Inv (nat_add a b) /\
  val (nat_add a b) =
    match val a, val b with
    | Some x, Some y => norm (x + y)
    | _, _ => None
    end.
Proof. exact nat_add_spec. Qed.
Print Assumptions C12_nat_add.

(** [Shl<u64>] ([Shl<u32>] forwards to it): [a * 2^k]; NaN iff [a] is NaN or the
    exponent leaves the range *)
Theorem C12_nat_shl : forall a k, Inv a -> (k <= U64MAX)%N ->
  Inv (nat_shl a k) /\
  val (nat_shl a k) = match val a with Some x => norm (x * 2 ^ k) | None => None end.
Proof. exact nat_shl_spec. Qed.
Print Assumptions C12_nat_shl.

(** [Shr<u64>]: the exact quotient; NaN iff [a] is NaN or a 1 bit would be
    shifted out *)
Theorem C12_nat_shr : forall a k, Inv a -> (k <= U64MAX)%N ->
  Inv (nat_shr a k) /\
  val (nat_shr a k) =
    match val a with
    | Some x => if (x mod 2 ^ k =? 0)%N then Some (x / 2 ^ k)%N else None
    | None => None
    end.
Proof. exact nat_shr_spec. Qed.
Print Assumptions C12_nat_shr.

(** [PartialEq] / [Hash]: the representation is canonical (NaN equals NaN) *)
Theorem C12_nat_eq : forall a b, Inv a -> Inv b -> (nat_eqb a b = true <-> val a = val b).
Proof. exact nat_eqb_spec. Qed.
Print Assumptions C12_nat_eq.

Theorem C12_nat_hash : forall a b, Inv a -> Inv b -> (hash_key a = hash_key b <-> val a = val b).
Proof. exact hash_key_spec. Qed.
Print Assumptions C12_nat_hash.

(** [PartialOrd]: the order of the denoted numbers; [None] iff an operand is NaN *)
Theorem C12_nat_partial_cmp : forall a b, Inv a -> Inv b ->
  partial_cmp a b =
    match val a, val b with
    | Some x, Some y => Some (x ?= y)%N
    | _, _ => None
    end.
Proof. exact partial_cmp_spec. Qed.
Print Assumptions C12_nat_partial_cmp.

(** [TryFrom<&Natural> for u64 / u128]: [Ok] iff the number fits *)
Theorem C12_nat_try_into_u64 : forall a, Inv a ->
  try_into_u64 a = match val a with
                   | Some x => if (x <? B64)%N then Some x else None
                   | None => None
                   end.
Proof. exact try_into_u64_spec. Qed.
Print Assumptions C12_nat_try_into_u64.

Theorem C12_nat_try_into_u128 : forall a, Inv a ->
  try_into_u128 a = match val a with
                    | Some x => if (x <? B128)%N then Some x else None
                    | None => None
                    end.
Proof. exact try_into_u128_spec. Qed.
Print Assumptions C12_nat_try_into_u128.

(** [fmt::Binary]: [?] (modelled as [None]) exactly for NaN; otherwise the bits
    of the number, most significant first, no leading zeros ([bits_val] reads a
    list of binary digits) *)
Theorem C12_nat_fmt_bin : forall a, Inv a ->
  match val a with
  | None => fmt_bin a = None
  | Some v =>
    exists bs, fmt_bin a = Some bs /\ bits_val bs = v /\ is_bits bs /\
      (v = 0%N -> bs = [0%N]) /\ (v <> 0%N -> hd 0%N bs = 1%N /\ N.of_nat (length bs) = N.size v)
  end.
Proof. exact fmt_bin_spec. Qed.
Print Assumptions C12_nat_fmt_bin.

Theorem C12_nat_example_fmt_bin :
  fmt_bin (from_u64 10) = Some [1; 0; 1; 0]%N /\ fmt_bin (from_u64 0) = Some [0%N] /\
  fmt_bin (mkNat [3%N] U64MAX) = None /\
  option_map (@length N) (fmt_bin (from_u128 (2 ^ 100 + 1))) = Some 101.
Proof. exact ex_fmt_bin. Qed.
Print Assumptions C12_nat_example_fmt_bin.

(** non-vacuity: values of every shape satisfy the invariant; concrete sums,
    shifts, comparisons; NaN arises from numbers exactly at the exponent bound *)
Theorem C12_nat_example_inv : Inv ex_heap /\ Inv ex_inline /\ Inv ex_nan3 /\
  val ex_heap = Some ((1 + 2 ^ 127) * 32)%N /\ bit_width ex_heap = 133%N /\
  val ex_nan3 = None /\ check_inv ex_heap = true.
Proof. exact ex_inv. Qed.
Print Assumptions C12_nat_example_inv.

Theorem C12_nat_example_add :
  nat_add (from_u64 (2 ^ 64 - 1)) (from_u64 1) = mkNat [1%N] 64 /\
  val (nat_add (from_u128 (2 ^ 100 + 1)) (from_u128 (2 ^ 100 - 1))) = Some (2 ^ 101)%N /\
  nat_add (from_u128 (2 ^ 100 + 1)) (from_u128 (2 ^ 100 - 1)) = mkNat [1%N] 101 /\
  val (nat_add (nat_shl (from_u64 3) 200) (from_u64 5)) = Some (3 * 2 ^ 200 + 5)%N /\
  Inv (nat_add (nat_shl (from_u64 3) 200) (from_u64 5)).
Proof. exact ex_add. Qed.
Print Assumptions C12_nat_example_add.

Theorem C12_nat_example_add_overflow :
  let x := nat_shl (from_u64 1) (U64MAX - 1) in
  Inv x /\ val x = Some (2 ^ (U64MAX - 1))%N /\ val (nat_add x x) = None /\
  val (nat_add x (from_u64 1)) = Some (2 ^ (U64MAX - 1) + 1)%N.
Proof. exact ex_add_overflow. Qed.
Print Assumptions C12_nat_example_add_overflow.

Theorem C12_nat_example_shifts :
  val (nat_shr (from_u64 12) 2) = Some 3%N /\ val (nat_shr (from_u64 12) 3) = None /\
  val (nat_shr (from_u64 0) 7) = Some 0%N /\
  val (nat_shl (from_u64 5) (U64MAX - 1)) = Some (5 * 2 ^ (U64MAX - 1))%N /\
  val (nat_shl (from_u64 6) (U64MAX - 1)) = None /\ val (nat_shl (from_u64 0) U64MAX) = Some 0%N.
Proof. exact ex_shifts. Qed.
Print Assumptions C12_nat_example_shifts.

Theorem C12_nat_example_cmp :
  partial_cmp (from_u128 (2 ^ 100 + 1)) (nat_shl (from_u64 1) 100) = Some Gt /\
  partial_cmp (from_u64 7) (nat_shl (from_u64 1) 3) = Some Lt /\
  partial_cmp ex_heap ex_heap = Some Eq /\
  partial_cmp ex_nan3 (from_u64 1) = None /\
  nat_eqb (mkNat [1; 2 ^ 63; 0]%N 5) (mkNat [1; 2 ^ 63]%N 5) = true /\
  nat_eqb ex_nan3 NAN = true /\ nat_eqb (from_u64 4) (from_u64 2) = false /\
  try_into_u64 (from_u128 (2 ^ 64)) = None /\ try_into_u64 (nat_shl (from_u64 3) 62) = Some (3 * 2 ^ 62)%N /\
  try_into_u128 (from_u64 4) = Some 4%N /\
  from_le_digits [0; 0; 12; 0]%N = mkNat [3%N] 130.
Proof. exact ex_cmp. Qed.
Print Assumptions C12_nat_example_cmp.

(** * Part 2: Saturating<u64> / Saturating<u128> ([w] = 64, 128) *)

Theorem C12_su_add : forall w, (1 <= w)%N -> forall a b, (a <= su_max w)%N -> (b <= su_max w)%N ->
  (su_add w a b <= su_max w)%N /\
  sval w (su_add w a b) =
    match sval w a, sval w b with
    | Some x, Some y => sfit w (x + y)
    | _, _ => None
    end.
Proof. exact su_add_spec. Qed.
Print Assumptions C12_su_add.

(** [<<]: the marker as soon as a 1 bit would be shifted out *)
Theorem C12_su_shl : forall w, (1 <= w)%N -> forall a k, (a <= su_max w)%N ->
  (su_shl w a k <= su_max w)%N /\
  sval w (su_shl w a k) =
    match sval w a with
    | Some x => sfit w (x * 2 ^ k)
    | None => None
    end.
Proof. exact su_shl_spec. Qed.
Print Assumptions C12_su_shl.

Theorem C12_su_shr : forall w, (1 <= w)%N -> forall a k, (a <= su_max w)%N -> (k < w)%N ->
  (su_shr w a k <= su_max w)%N /\
  sval w (su_shr w a k) =
    match sval w a with
    | Some x => Some (x / 2 ^ k)%N
    | None => None
    end.
Proof. exact su_shr_spec. Qed.
Print Assumptions C12_su_shr.

Theorem C12_su_sub : forall w, (1 <= w)%N -> forall a b, (a <= su_max w)%N -> (b <= a)%N ->
  (su_sub w a b <= su_max w)%N /\
  sval w (su_sub w a b) =
    match sval w a with
    | Some x => Some (x - b)%N
    | None => None
    end.
Proof. exact su_sub_spec. Qed.
Print Assumptions C12_su_sub.

Theorem C12_su_example :
  su_shl 64 3 63 = su_max 64 /\ su_shl 64 1 63 = (2 ^ 63)%N /\ su_shl 64 0 200 = 0%N /\
  su_shl 128 5 126 = su_max 128 /\ su_add 64 (2 ^ 63) (2 ^ 63) = su_max 64 /\
  su_shr 64 (su_max 64) 1 = su_max 64 /\ su_shr 64 12 2 = 3%N /\ su_sub 64 (su_max 64) 5 = su_max 64.
Proof. exact ex_su. Qed.
Print Assumptions C12_su_example.

(** * Part 3: sat_count *)

(** exact arithmetic (what a correct arbitrary-precision type computes): the
    halving recursion from the terminal value [2^vars] returns the number of
    satisfying assignments over [vars >= levels] variables *)
Theorem C12_sat_bdd_exact : forall s vars r, WF s -> s_kind s = KBdd -> nlevels s <= vars ->
  ref_ok s r ->
  sat_bdd s (S (nlevels s)) vars r =
  Some (2 ^ N.of_nat (vars - nlevels s) * count_levels (nlevels s) (fun_bdd s r))%N.
Proof. exact sat_bdd_correct. Qed.
Print Assumptions C12_sat_bdd_exact.

Theorem C12_sat_bcdd_exact : forall s vars e, WF s -> s_kind s = KBcdd -> nlevels s <= vars ->
  ref_ok s (eref e) ->
  sat_bcdd s (S (nlevels s)) vars e =
  Some (2 ^ N.of_nat (vars - nlevels s) * count_levels (nlevels s) (fun_bcdd s e))%N.
Proof. exact sat_bcdd_correct. Qed.
Print Assumptions C12_sat_bcdd_exact.

Theorem C12_sat_zbdd_paths : forall s r, WF s -> s_kind s = KZbdd -> ref_ok s r ->
  paths_zbdd s (S (nlevels s)) r = Some (count_levels (nlevels s) (fun_zbdd s r)).
Proof. exact paths_zbdd_correct. Qed.
Print Assumptions C12_sat_zbdd_paths.

Theorem C12_sat_zbdd_exact : forall s vars r, WF s -> s_kind s = KZbdd -> nlevels s <= vars ->
  ref_ok s r ->
  sat_zbdd s (S (nlevels s)) vars r =
  Some (2 ^ N.of_nat (vars - nlevels s) * count_levels (nlevels s) (fun_zbdd s r))%N.
Proof. exact sat_zbdd_correct. Qed.
Print Assumptions C12_sat_zbdd_exact.

(** every halving [(a + b) >> 1] of the recursion is exact (no 1 bit is shifted
    out: [Natural]'s [>>] never yields NaN there) *)
Theorem C12_sat_bdd_halving_exact : forall s vars id nd e0 e1 a b,
  WF s -> s_kind s = KBdd -> nlevels s <= vars ->
  find_node s id = Some nd -> nchildren nd = [e0; e1] ->
  sat_bdd s (S (nlevels s)) vars (eref e0) = Some a ->
  sat_bdd s (S (nlevels s)) vars (eref e1) = Some b ->
  ((a + b) mod 2 = 0 /\ sat_bdd s (S (nlevels s)) vars (RN id) = Some ((a + b) / 2) /\
   2 * ((a + b) / 2) = a + b)%N.
Proof. exact sat_bdd_halving_exact. Qed.
Print Assumptions C12_sat_bdd_halving_exact.

Theorem C12_sat_bcdd_halving_exact : forall s vars id tag nd e0 e1 a b,
  WF s -> s_kind s = KBcdd -> nlevels s <= vars ->
  find_node s id = Some nd -> nchildren nd = [e0; e1] ->
  sat_bcdd s (S (nlevels s)) vars (mkEdge (eref e0) (xorb tag (etag e0))) = Some a ->
  sat_bcdd s (S (nlevels s)) vars (mkEdge (eref e1) (xorb tag (etag e1))) = Some b ->
  ((a + b) mod 2 = 0 /\ sat_bcdd s (S (nlevels s)) vars (mkEdge (RN id) tag) = Some ((a + b) / 2) /\
   2 * ((a + b) / 2) = a + b)%N.
Proof. exact sat_bcdd_halving_exact. Qed.
Print Assumptions C12_sat_bcdd_halving_exact.

(** the value of a reference of level [l] is a multiple of [2^(vars - levels + l)] *)
Theorem C12_sat_bdd_divisible : forall s vars r, WF s -> s_kind s = KBdd -> nlevels s <= vars ->
  ref_ok s r ->
  sat_bdd s (S (nlevels s)) vars r =
  Some (2 ^ N.of_nat (vars - nlevels s + rlevel s r) *
        cnt (nlevels s - rlevel s r) (rlevel s r) (fun_bdd s r))%N.
Proof. exact sat_bdd_divisible. Qed.
Print Assumptions C12_sat_bdd_divisible.

(** the cache inside one call, for every number type and each of the three
    recursion schemes: a map whose entries are the values of the uncached
    recursion ([cache_ok]) makes the cached recursion return the uncached value
    and stays such a map *)
Theorem C12_sat_cache_sound : forall (A : Type) (sch : scheme A) (s : snap), WF s ->
  (forall t t' id id', sc_tagok sch t = true -> sc_tagok sch t' = true ->
     sc_key sch t id = sc_key sch t' id' -> id = id' /\ t = t') ->
  (forall t ct, sc_tagok sch t = true -> sc_tagok sch (sc_tag sch t ct) = true) ->
  forall f all r tag m v, ref_ok s r -> sc_tagok sch tag = true ->
  cache_ok sch s m -> walk sch s f r tag = Some v ->
  exists m', walkc sch s f all r tag m = Some (v, m') /\ cache_ok sch s m'.
Proof. exact @walkc_sound. Qed.
Print Assumptions C12_sat_cache_sound.

(** cache validity across calls, for every number type [o]: an entry is used
    only under the [(gc_count, vars)] it was stored under ... *)
Theorem C12_sat_query_clears : forall (A : Type) (o : numops A) (c : scache) epoch s vars e,
  c_epoch c <> epoch \/ c_vars c <> vars ->
  sat_query o c epoch s vars e =
  sat_query o (mkCache epoch vars (PositiveMap.empty A) (c_all c)) epoch s vars e.
Proof. exact @sat_query_clears. Qed.
Print Assumptions C12_sat_query_clears.

(** ... a call on a cache that is valid for the current table (or gets cleared)
    returns the value of the uncached computation and leaves a valid cache ... *)
Theorem C12_sat_query_sound : forall (A : Type) (o : numops A) c epoch s vars e v,
  WF s -> binary (s_kind s) -> ref_ok s (eref e) ->
  (c_epoch c = epoch -> c_vars c = vars -> cache_valid o c s) ->
  sat_ref o s vars e = Some v ->
  exists c', sat_query o c epoch s vars e = Some (v, c') /\
    c_epoch c' = epoch /\ c_vars c' = vars /\ c_all c' = c_all c /\ cache_valid o c' s.
Proof. exact @sat_query_sound. Qed.
Print Assumptions C12_sat_query_sound.

(** ... hence any history of calls sharing one cache object, with arbitrary
    changes of the manager in between (other handles, collections, reorderings,
    added variables, other [vars]) subject only to the epoch discipline
    [hist_ok] (equal [gc_count] of consecutive calls = the node table was only
    extended), returns call by call the values of the uncached computation *)
Theorem C12_sat_history_transparent : forall (A : Type) (o : numops A) q qs,
  qok q -> hist_ok q qs ->
  exists vs c', run_queries o (@cache_default A) (q :: qs) = Some (vs, c') /\ refs_of o (q :: qs) vs.
Proof. exact @run_queries_correct. Qed.
Print Assumptions C12_sat_history_transparent.

(** ... which in exact arithmetic are the model counts *)
Theorem C12_sat_history_exact : forall q qs,
  qok q -> hist_ok q qs -> counting (q :: qs) ->
  exists c', run_queries exact_ops (@cache_default N) (q :: qs) =
             Some (map (fun q => exact_count (q_snap q) (q_vars q) (q_edge q)) (q :: qs), c').
Proof. exact run_queries_exact. Qed.
Print Assumptions C12_sat_history_exact.

(** Saturating<uW>: BDD -- exact while [2^vars] is representable, otherwise the
    marker (0 stays 0) *)
Theorem C12_sat_saturating_bdd : forall w, (2 <= w)%N -> forall s vars r,
  WF s -> s_kind s = KBdd -> nlevels s <= vars -> ref_ok s r ->
  sat_bdd_sat w s (S (nlevels s)) vars r =
  option_map (saturate w vars) (sat_bdd s (S (nlevels s)) vars r).
Proof. exact sat_bdd_saturating. Qed.
Print Assumptions C12_sat_saturating_bdd.

Theorem C12_sat_saturating_bdd_exact : forall w, (2 <= w)%N -> forall s vars r,
  WF s -> s_kind s = KBdd -> nlevels s <= vars -> (N.of_nat vars < w)%N -> ref_ok s r ->
  sat_bdd_sat w s (S (nlevels s)) vars r =
  Some (2 ^ N.of_nat (vars - nlevels s) * count_levels (nlevels s) (fun_bdd s r))%N.
Proof. exact sat_bdd_saturating_exact. Qed.
Print Assumptions C12_sat_saturating_bdd_exact.

(** ... BCDD likewise ([terms_kind]: a BCDD has one terminal) *)
Theorem C12_sat_saturating_bcdd : forall w, (2 <= w)%N -> forall s vars e,
  WF s -> s_kind s = KBcdd -> terms_kind s -> nlevels s <= vars -> ref_ok s (eref e) ->
  sat_bcdd_sat w s (S (nlevels s)) vars e =
  option_map (saturate w vars) (sat_bcdd s (S (nlevels s)) vars e).
Proof. exact sat_bcdd_saturating. Qed.
Print Assumptions C12_sat_saturating_bcdd.

Theorem C12_sat_saturating_bcdd_exact : forall w, (2 <= w)%N -> forall s vars e,
  WF s -> s_kind s = KBcdd -> terms_kind s -> nlevels s <= vars -> (N.of_nat vars < w)%N ->
  ref_ok s (eref e) ->
  sat_bcdd_sat w s (S (nlevels s)) vars e =
  Some (2 ^ N.of_nat (vars - nlevels s) * count_levels (nlevels s) (fun_bcdd s e))%N.
Proof. exact sat_bcdd_saturating_exact. Qed.
Print Assumptions C12_sat_saturating_bcdd_exact.

Theorem C12_sat_example_saturating_bcdd :
  wf_full_b ex_sat_bcdd = true /\
  sat_bcdd_sat 64 ex_sat_bcdd 4 63 (mkEdge (RN 4) false) = Some (5 * 2 ^ 60)%N /\
  sat_bcdd_sat 64 ex_sat_bcdd 4 63 (mkEdge (RN 4) true) = Some (3 * 2 ^ 60)%N /\
  sat_bcdd_sat 64 ex_sat_bcdd 4 64 (mkEdge (RN 4) true) = Some (sat_max 64) /\
  sat_bcdd_sat 64 ex_sat_bcdd 4 64 (mkEdge (RT 0) true) = Some 0%N.
Proof. exact ex_sat_bcdd_u64. Qed.
Print Assumptions C12_sat_example_saturating_bcdd.

(** ZBDD -- the exact count while it is representable, otherwise the marker *)
Theorem C12_sat_saturating_zbdd : forall w, (2 <= w)%N -> forall s vars r,
  WF s -> s_kind s = KZbdd -> nlevels s <= vars -> (N.of_nat (nlevels s) < w)%N -> ref_ok s r ->
  sat_zbdd_sat w s (S (nlevels s)) vars r =
  Some (sat_fit w (2 ^ N.of_nat (vars - nlevels s) * count_levels (nlevels s) (fun_zbdd s r)))%N.
Proof. exact sat_zbdd_saturating. Qed.
Print Assumptions C12_sat_saturating_zbdd.

Theorem C12_sat_saturating_zbdd_exact : forall w, (2 <= w)%N -> forall s vars r,
  WF s -> s_kind s = KZbdd -> nlevels s <= vars -> (N.of_nat vars < w)%N -> ref_ok s r ->
  sat_zbdd_sat w s (S (nlevels s)) vars r =
  Some (2 ^ N.of_nat (vars - nlevels s) * count_levels (nlevels s) (fun_zbdd s r))%N.
Proof. exact sat_zbdd_saturating_exact. Qed.
Print Assumptions C12_sat_saturating_zbdd_exact.

(** non-vacuity: (x0 /\ x1) \/ x2 has 5 models over 3 and 10 over 4 variables;
    a history with a cache hit, a change of [vars] and a collection; saturation *)
Theorem C12_sat_example_bdd :
  sat_bdd ex_sat_bdd 4 3 (RN 4) = Some 5%N /\
  sat_bdd ex_sat_bdd 4 4 (RN 4) = Some 10%N /\
  count_levels 3 (fun_bdd ex_sat_bdd (RN 4)) = 5%N /\
  sat_bdd ex_sat_bdd 4 3 (RT 0) = Some 0%N /\ sat_bdd ex_sat_bdd 4 3 (RT 1) = Some 8%N.
Proof. exact ex_sat_bdd_count. Qed.
Print Assumptions C12_sat_example_bdd.

Theorem C12_sat_example_history_ok :
  match ex_history with
  | q :: qs => qok q /\ hist_ok q qs /\ counting (q :: qs)
  | [] => False
  end.
Proof. exact ex_history_ok. Qed.
Print Assumptions C12_sat_example_history_ok.

Theorem C12_sat_example_history_run :
  match run_queries exact_ops (@cache_default N) ex_history with
  | Some (vs, c) => vs = [5; 6; 10; 8]%N /\ c_epoch c = 1%N /\ c_vars c = 4
  | None => False
  end.
Proof. exact ex_history_run. Qed.
Print Assumptions C12_sat_example_history_run.

Theorem C12_sat_example_saturating :
  sat_bdd_sat 64 ex_sat_bdd 4 63 (RN 4) = Some (5 * 2 ^ 60)%N /\
  sat_bdd_sat 64 ex_sat_bdd 4 64 (RN 4) = Some (sat_max 64) /\
  sat_bdd_sat 64 ex_sat_bdd 4 64 (RT 0) = Some 0%N.
Proof. exact ex_sat_bdd_u64. Qed.
Print Assumptions C12_sat_example_saturating.

(** * Part 1b: text output of a Natural (Num/NaturalTextProofs.v, Num/NaturalDec.v,
      Num/NaturalDecProofs.v)

    The output of the [fmt] traits is modelled as the list of digit values,
    most significant first; [None] is the text [?].  [base_val b ds] is the
    number written by the digits [ds] in base [b]; [is_digits b ds]: every
    digit is below [b].  Padding flags (width, fill, alignment, [#], [+], [0])
    are covered by the correspondence run only. *)
From OxiVerif Require Import Num.NaturalTextProofs Num.NaturalDec Num.NaturalDecProofs.

(** [fmt::Octal]: [?] exactly for NaN; otherwise the octal digits of the number,
    no leading zero ([[0]] for 0), as many as announced to [pad_integral] *)
Theorem C12_nat_fmt_oct : forall a, Inv a ->
  match val a with
  | None => fmt_oct a = None
  | Some v =>
    exists ds, fmt_oct a = Some ds /\ base_val 8 ds = v /\ is_digits 8 ds /\
      (v = 0%N -> ds = [0%N]) /\
      (v <> 0%N -> hd 0%N ds <> 0%N /\ N.of_nat (length ds) = fmt_digit_count 3 a /\
                   fmt_digit_count 3 a = div_ceil (N.size v) 3)
  end.
Proof. exact fmt_oct_spec. Qed.
Print Assumptions C12_nat_fmt_oct.

(** [fmt::LowerHex] / [fmt::UpperHex] (they differ in the character table only) *)
Theorem C12_nat_fmt_hex : forall a, Inv a ->
  match val a with
  | None => fmt_hex a = None
  | Some v =>
    exists ds, fmt_hex a = Some ds /\ base_val 16 ds = v /\ is_digits 16 ds /\
      (v = 0%N -> ds = [0%N]) /\
      (v <> 0%N -> hd 0%N ds <> 0%N /\ N.of_nat (length ds) = fmt_digit_count 4 a /\
                   fmt_digit_count 4 a = div_ceil (N.size v) 4)
  end.
Proof. exact fmt_hex_spec. Qed.
Print Assumptions C12_nat_fmt_hex.

(** the digit loop [fmt_pow2] for any number of bits per digit *)
Theorem C12_nat_fmt_pow2 : forall bpd a, (1 <= bpd)%N -> (bpd <= 63)%N -> Inv a ->
  match val a with
  | None => fmt_pow2 bpd a = None
  | Some v =>
    exists ds, fmt_pow2 bpd a = Some ds /\ base_val (2 ^ bpd) ds = v /\ is_digits (2 ^ bpd) ds /\
      (v = 0%N -> ds = [0%N]) /\
      (v <> 0%N -> hd 0%N ds <> 0%N /\ N.of_nat (length ds) = fmt_digit_count bpd a /\
                   fmt_digit_count bpd a = div_ceil (N.size v) bpd)
  end.
Proof. exact fmt_pow2_spec. Qed.
Print Assumptions C12_nat_fmt_pow2.

(** [fmt::Display]: the number handed to [dashu_int::UBig] is the denoted number;
    [?] for NaN and for exponents above 2^40 (the limit in
    [TryFrom<&Natural> for UBig]) ... *)
Theorem C12_nat_fmt_dec : forall a, Inv a ->
  fmt_dec a = match val a with
              | Some v => if (expo a <=? 2 ^ 40)%N then Some v else None
              | None => None
              end.
Proof. exact fmt_dec_spec. Qed.
Print Assumptions C12_nat_fmt_dec.

(** ... and the text is its decimal digits ([dec_digits]: the specification of
    UBig's [Display], an external library) *)
Theorem C12_nat_fmt_dec_digits : forall a, Inv a ->
  match val a with
  | None => fmt_dec_digits a = None
  | Some v =>
    if (expo a <=? 2 ^ 40)%N then
      exists ds, fmt_dec_digits a = Some ds /\ base_val 10 ds = v /\ is_digits 10 ds /\
        (v = 0%N -> ds = [0%N]) /\ (v <> 0%N -> hd 0%N ds <> 0%N)
    else fmt_dec_digits a = None
  end.
Proof. exact fmt_dec_digits_spec. Qed.
Print Assumptions C12_nat_fmt_dec_digits.

Theorem C12_nat_dec_digits : forall v,
  base_val 10 (dec_digits v) = v /\ is_digits 10 (dec_digits v) /\
  (v = 0%N -> dec_digits v = [0%N]) /\ (v <> 0%N -> hd 0%N (dec_digits v) <> 0%N).
Proof. exact dec_digits_spec. Qed.
Print Assumptions C12_nat_dec_digits.

Theorem C12_nat_example_text :
  (fmt_oct (from_u64 10) = Some [1; 2]%N /\ fmt_hex (from_u64 0) = Some [0%N] /\
   fmt_oct (mkNat [3%N] U64MAX) = None /\ fmt_hex (mkNat [3%N] U64MAX) = None /\
   fmt_hex (mkNat [3%N] 5) = Some [6; 0]%N /\ fmt_oct (mkNat [5%N] 7) = Some [1; 2; 0; 0]%N) /\
  (fmt_dec_digits (from_u64 1200) = Some [1; 2; 0; 0]%N /\ fmt_dec_digits (from_u64 0) = Some [0%N] /\
   fmt_dec_digits (mkNat [3%N] U64MAX) = None /\ fmt_dec_digits (mkNat [1%N] (2 ^ 40 + 1)) = None /\
   fmt_dec_digits (mkNat [3%N] 5) = Some [9; 6]%N) /\
  (Inv (mkNat [1; 1; 1]%N 2) /\ val (mkNat [1; 1; 1]%N 2) = Some ((1 + 2 ^ 64 + 2 ^ 128) * 4)%N).
Proof. exact ex_text. Qed.
Print Assumptions C12_nat_example_text.

(** * Part 3b (package C12s; C12_cache_..., C12_sat_natural..., C12_sat_small_vars...):
      [SatCountCache] objects kept over the life of a manager, the counting
      recursion over the model of [Natural], and [vars] below the number of levels

    Models: DD/SatCache.v (manager events [EGrow] / [EGc] / [EReorder] / [ECount],
    the counters as [Manager::gc] / [Manager::reorder] maintain them, a table
    of cache objects, [nat_ops], [uni_counts]); proofs DD/SatCacheProofs.v,
    DD/SatNatProofs.v, DD/SatIntProofs.v, DD/SatSmallVars.v.
    - [mgr_ok m]: the manager holds a well-formed binary diagram;
    - [hist_valid m evs]: every event is possible ([EGrow]: no node disappears
      and no child list changes; [EGc] / [EReorder]: ANY well-formed table of
      the same kind -- node ids may be freed and re-used for other functions by
      later events; [ECount]: the edge exists);
    - [run_events o alls m cs evs]: the values the [ECount] events return, each
      call going through [clear_if_invalid] + the cached recursion on the cache
      object named by the event; [ref_events]: the same calls on fresh caches
      without caching; [exact_events]: the numbers of satisfying assignments. *)
From OxiVerif Require Import DD.SatCache DD.SatCacheProofs DD.SatNatProofs DD.SatIntProofs DD.SatSmallVars.
From OxiVerif Require DD.Pick.

(** the epoch discipline is decidable on two snapshots ... *)
Theorem C12_cache_same_table_decidable : forall s s', same_table_b s s' = true <-> same_table s s'.
Proof. exact same_table_b_spec. Qed.
Print Assumptions C12_cache_same_table_decidable.

(** ... and follows from the step relation: an unchanged [gc_count] means that
    the table was only extended (the hypothesis [hist_ok] of the C12_sat_history theorems) *)
Theorem C12_cache_same_gc_same_table : forall evs m, WF (m_snap m) -> hist_valid m evs ->
  m_gc (final_mgr m evs) = m_gc m -> same_table (m_snap m) (m_snap (final_mgr m evs)).
Proof. exact hist_same_gc. Qed.
Print Assumptions C12_cache_same_gc_same_table.

(** what the correspondence run checks between consecutive snapshots of the
    real manager: counters do not decrease, a reordering shows in [gc_count],
    unchanged [gc_count] = only growth *)
Theorem C12_cache_obs_ok : forall evs m, WF (m_snap m) -> hist_valid m evs ->
  obs_ok_b m (final_mgr m evs) = true.
Proof. exact obs_ok_of_history. Qed.
Print Assumptions C12_cache_obs_ok.

(** kept caches are transparent, for every number type, any number of cache
    objects, any history *)
Theorem C12_cache_history_correct : forall (A : Type) (o : numops A) (alls : positive -> bool) evs m,
  mgr_ok m -> hist_valid m evs ->
  exists vs cs', run_events o alls m (PositiveMap.empty _) evs = Some (vs, final_mgr m evs, cs') /\
    map Some vs = ref_events o true m evs.
Proof. exact @cache_history_correct. Qed.
Print Assumptions C12_cache_history_correct.

(** exact arithmetic: every served count is the number of satisfying assignments *)
Theorem C12_cache_history_exact : forall alls evs m, mgr_ok m -> hist_valid m evs -> counting_hist m evs ->
  exists cs', run_events exact_ops alls m (PositiveMap.empty _) evs =
              Some (exact_events m evs, final_mgr m evs, cs').
Proof. exact cache_history_exact. Qed.
Print Assumptions C12_cache_history_exact.

(** [Natural] (the model of bigint.rs in the recursion): a well-formed number
    holding exactly the count, never NaN *)
Theorem C12_cache_history_natural : forall alls evs m,
  mgr_ok m -> hist_valid m evs -> counting_hist m evs -> u32_hist evs ->
  exists vs cs', run_events nat_ops alls m (PositiveMap.empty _) evs = Some (vs, final_mgr m evs, cs') /\
    Forall2 (fun x a => Inv x /\ val x = Some a) vs (exact_events m evs).
Proof. exact cache_history_nat. Qed.
Print Assumptions C12_cache_history_natural.

(** [Saturating<uW>]: the count, or the marker exactly when the type cannot hold
    [2^vars] (ZBDD: the count) *)
Theorem C12_cache_history_saturating : forall w, (2 <= w)%N -> forall alls evs m,
  mgr_ok m -> hist_valid m evs -> counting_hist m evs -> sat_hist w m evs ->
  exists cs', run_events (sat_ops w) alls m (PositiveMap.empty _) evs =
              Some (sat_events w m evs, final_mgr m evs, cs').
Proof. exact cache_history_saturating. Qed.
Print Assumptions C12_cache_history_saturating.

(** after a collection or a reordering no entry stored before it is read *)
Theorem C12_cache_stale_entries_never_read : forall (A : Type) (o : numops A) m ev (c : scache) vars e,
  (exists s', ev = EGc s' \/ ev = EReorder s') -> (c_epoch c <= m_gc m)%N ->
  sat_query o c (m_gc (mgr_step m ev)) (m_snap (mgr_step m ev)) vars e =
  sat_query o (mkCache (m_gc (mgr_step m ev)) vars (PositiveMap.empty A) (c_all c))
            (m_gc (mgr_step m ev)) (m_snap (mgr_step m ev)) vars e.
Proof. exact @stale_entries_never_read. Qed.
Print Assumptions C12_cache_stale_entries_never_read.

(** [pick_cube_uniform_edge]: the two counts its closure obtains through the
    caller's cache are those of the cofactors (C13: branch probability) *)
Theorem C12_cache_uni_counts : forall (A : Type) (o : numops A) view m c e l t x, mgr_ok m -> cinv o m c ->
  view (m_snap m) e = Pick.CNode l t x -> ref_ok (m_snap m) (eref t) -> ref_ok (m_snap m) (eref x) ->
  exists ct ce c', uni_counts o view c (m_gc m) (m_snap m) e = Some (ct, ce, c') /\
    sat_ref o (m_snap m) (nlevels (m_snap m)) t = Some ct /\
    sat_ref o (m_snap m) (nlevels (m_snap m)) x = Some ce /\ cinv o m c'.
Proof. exact @uni_counts_sound. Qed.
Print Assumptions C12_cache_uni_counts.

(** ... and in exact arithmetic they are the branch weights [count_bdd] / [count_bcdd] / [count_zbdd] of the
    uniform-picking theorems (C13_*_uniform_prob) *)
Theorem C12_cache_uni_counts_pick : forall s e v, sat_ref exact_ops s (nlevels s) e = Some v ->
  match s_kind s with
  | KBdd => Pick.count_bdd s e = v
  | KBcdd => Pick.count_bcdd s e = v
  | KZbdd => Pick.count_zbdd s e = v
  | _ => True
  end.
Proof. exact sat_ref_pick_count. Qed.
Print Assumptions C12_cache_uni_counts_pick.

Theorem C12_cache_example_uniform :
  cinv exact_ops ex_mgr0 (cache_new true) /\
  Pick.view_plain ex_sat_bdd (xe (RN 4)) = Pick.CNode 0 (xe (RN 3)) (xe (RN 2)) /\
  match uni_counts exact_ops Pick.view_plain (cache_new true) 0%N ex_sat_bdd (xe (RN 4)) with
  | Some (ct, ce, c) => ct = 6%N /\ ce = 4%N /\ Pick.count_bdd ex_sat_bdd (xe (RN 3)) = 6%N /\
                        PositiveMap.find 2%positive (c_map c) = Some 4%N
  | None => False
  end.
Proof. exact ex_uni_counts. Qed.
Print Assumptions C12_cache_example_uniform.

(** the tag rule is necessary: each weakening has a history with a wrong count *)
Theorem C12_cache_rule_without_gc_count_refuted :
  exists m evs, mgr_ok m /\ hist_valid m evs /\ counting_hist m evs /\
    exists vs m' cs', run_events_with exact_ops (@clear_vars_only N) true (fun _ => true) m (PositiveMap.empty _) evs
                      = Some (vs, m', cs') /\ vs <> exact_events m evs.
Proof. exact rule_without_gc_count_refuted. Qed.
Print Assumptions C12_cache_rule_without_gc_count_refuted.

Theorem C12_cache_reorder_without_gc_bump_refuted :
  exists m evs, mgr_ok m /\ hist_valid m evs /\ counting_hist m evs /\
    exists vs m' cs', run_events_with exact_ops (@clear_if_invalid N) false (fun _ => true) m (PositiveMap.empty _) evs
                      = Some (vs, m', cs') /\ vs <> exact_events m evs.
Proof. exact reorder_without_gc_bump_refuted. Qed.
Print Assumptions C12_cache_reorder_without_gc_bump_refuted.

Theorem C12_cache_rule_without_vars_refuted :
  exists m evs, mgr_ok m /\ hist_valid m evs /\ counting_hist m evs /\
    exists vs m' cs', run_events_with exact_ops (@clear_epoch_only N) true (fun _ => true) m (PositiveMap.empty _) evs
                      = Some (vs, m', cs') /\ vs <> exact_events m evs.
Proof. exact rule_without_vars_refuted. Qed.
Print Assumptions C12_cache_rule_without_vars_refuted.

(** non-vacuity: count, drop, collect, build another function on the freed id 2, count *)
Theorem C12_cache_example :
  mgr_ok ex_mgr0 /\ hist_valid ex_mgr0 ex_reuse_events /\ counting_hist ex_mgr0 ex_reuse_events /\
  exact_events ex_mgr0 ex_reuse_events = [5; 2]%N /\
  match run_events exact_ops (fun _ => true) ex_mgr0 (PositiveMap.empty _) ex_reuse_events with
  | Some (vs, m', _) => vs = [5; 2]%N /\ m_gc m' = 1%N
  | None => False
  end.
Proof. exact ex_reuse_exact. Qed.
Print Assumptions C12_cache_example.

Theorem C12_cache_example_types :
  (u32_hist ex_reuse_events /\
   match run_events nat_ops (fun _ => true) ex_mgr0 (PositiveMap.empty _) ex_reuse_events with
   | Some (vs, _, _) => map val vs = [Some 5%N; Some 2%N]
   | None => False
   end) /\
  (sat_hist 64 ex_mgr0 ex_reuse_events /\
   match run_events (sat_ops 64) (fun _ => true) ex_mgr0 (PositiveMap.empty _) ex_reuse_events with
   | Some (vs, _, _) => vs = [5; 2]%N
   | None => False
   end /\
   sat_ref (sat_ops 64) ex_sat_bdd 64 (xe (RN 4)) = Some (sat_max 64) /\
   sat_ref (sat_ops 64) ex_sat_bdd 63 (xe (RN 4)) = Some (5 * 2 ^ 60)%N).
Proof. exact (conj ex_reuse_nat ex_reuse_u64). Qed.
Print Assumptions C12_cache_example_types.

(** one call over [Natural] / [Saturating<uW>] *)
Theorem C12_sat_natural : forall s vars e, WF s -> counting_kind (s_kind s) -> nlevels s <= vars ->
  (N.of_nat vars < 2 ^ 32)%N -> ref_ok s (eref e) ->
  exists x, sat_ref nat_ops s vars e = Some x /\ Inv x /\ val x = Some (exact_count s vars e).
Proof. exact sat_ref_nat. Qed.
Print Assumptions C12_sat_natural.

Theorem C12_sat_saturating_query : forall w, (2 <= w)%N -> forall s vars e,
  WF s -> counting_kind (s_kind s) -> (s_kind s = KBcdd -> terms_kind s) ->
  (s_kind s = KZbdd -> (N.of_nat (nlevels s) < w)%N) ->
  nlevels s <= vars -> ref_ok s (eref e) ->
  sat_ref (sat_ops w) s vars e = Some (sat_expected w (s_kind s) vars (exact_count s vars e)).
Proof. exact sat_ref_saturating. Qed.
Print Assumptions C12_sat_saturating_query.

Theorem C12_sat_ops_saturating : forall w a b k,
  n_zero (sat_ops w) = su_from_u32 0 /\ n_one (sat_ops w) = su_from_u32 1 /\
  n_add (sat_ops w) a b = su_add w a b /\
  n_shl (sat_ops w) a k = su_shl w a (N.of_nat k) /\
  ((N.of_nat k < w)%N -> n_shr (sat_ops w) a k = su_shr w a (N.of_nat k)).
Proof. exact sat_ops_saturating. Qed.
Print Assumptions C12_sat_ops_saturating.

(** [vars] below the number of levels (any [vars]): BDD / BCDD exact as long as
    no path visits more than [vars] nodes -- in particular whenever the function
    depends on at most [vars] variables; ZBDD: the quotient, exact iff the
    power of two divides the number of models *)
Theorem C12_sat_small_vars : forall s vars e, WF s -> s_kind s = KBdd \/ s_kind s = KBcdd ->
  ref_ok s (eref e) -> height_of s (eref e) <= vars ->
  exists v, sat_ref exact_ops s vars e = Some v /\
    (v * 2 ^ N.of_nat (nlevels s) =
     2 ^ N.of_nat vars * count_levels (nlevels s) (match s_kind s with KBcdd => fun_bcdd s e | _ => fun_bdd s (eref e) end))%N.
Proof. exact sat_ref_small_vars. Qed.
Print Assumptions C12_sat_small_vars.

Theorem C12_sat_small_vars_quotient : forall s vars e v, WF s -> s_kind s = KBdd \/ s_kind s = KBcdd ->
  ref_ok s (eref e) -> height_of s (eref e) <= vars -> vars <= nlevels s ->
  sat_ref exact_ops s vars e = Some v ->
  (v * 2 ^ N.of_nat (nlevels s - vars) =
   count_levels (nlevels s) (match s_kind s with KBcdd => fun_bcdd s e | _ => fun_bdd s (eref e) end))%N.
Proof. exact sat_ref_small_vars_quotient. Qed.
Print Assumptions C12_sat_small_vars_quotient.

Theorem C12_sat_small_vars_height : forall s, WF s -> binary (s_kind s) -> forall f r, ref_ok s r ->
  height s f r <= nlevels s - rlevel s r.
Proof. exact height_le_levels. Qed.
Print Assumptions C12_sat_small_vars_height.

Theorem C12_sat_small_vars_zbdd : forall s vars r, WF s -> s_kind s = KZbdd -> ref_ok s r ->
  vars < nlevels s ->
  sat_zbdd s (S (nlevels s)) vars r =
  Some (count_levels (nlevels s) (fun_zbdd s r) / 2 ^ N.of_nat (nlevels s - vars))%N.
Proof. exact sat_zbdd_small_vars. Qed.
Print Assumptions C12_sat_small_vars_zbdd.

Theorem C12_sat_small_vars_zbdd_exact : forall s vars r v, WF s -> s_kind s = KZbdd -> ref_ok s r ->
  vars < nlevels s ->
  sat_zbdd s (S (nlevels s)) vars r = Some v ->
  ((v * 2 ^ N.of_nat (nlevels s - vars) = count_levels (nlevels s) (fun_zbdd s r))%N <->
   (count_levels (nlevels s) (fun_zbdd s r) mod 2 ^ N.of_nat (nlevels s - vars) = 0)%N).
Proof. exact sat_zbdd_small_vars_exact. Qed.
Print Assumptions C12_sat_small_vars_zbdd_exact.

Theorem C12_sat_small_vars_example :
  height_of ex_sat_bdd (RN 4) = 3 /\ height_of ex_sat_bdd (RN 2) = 1 /\
  sat_ref exact_ops ex_sat_bdd 1 (xe (RN 2)) = Some 1%N /\
  sat_ref exact_ops ex_sat_bdd 2 (xe (RN 2)) = Some 2%N /\
  sat_ref exact_ops ex_sat_bdd 2 (xe (RN 4)) = Some 2%N /\
  sat_ref exact_ops ex_sat_zbdd 2 (xe (RN 6)) = Some 2%N.
Proof. exact ex_small_vars. Qed.
Print Assumptions C12_sat_small_vars_example.

(** * Part 4 (C12_nat_to_f64_..., C12_f64_..., C12_sat_f64_...): floating point

    [Natural -> f64] (model [to_f64_bits], Num/Natural.v; proofs
    Num/NaturalF64Proofs.v) and the counting type [F64] (models Num/F64Count.v,
    DD/SatCountF64.v; proofs Num/F64CountProofs.v, DD/SatF64Proofs.v).
    [f64] is Flocq's [binary64]; [f64_of_N v] is Flocq's correctly rounded
    (nearest, ties to even, overflow to +inf) conversion of the integer [v]:
    [binary_normalize 53 1024 _ _ mode_NE (Z.of_N v) 0 false].
    These theorems (and only these) depend on the classical axioms of Coq's
    real numbers that Flocq uses. *)
From Coq Require Import ZArith Reals.
From Flocq Require Import Core.Core IEEE754.Binary IEEE754.Bits.
From OxiVerif Require Import Num.F64Count Num.F64CountProofs Num.NaturalF64Proofs DD.SatCountF64 DD.SatF64Proofs.

(** [From<&Natural> for f64]: the bit pattern of the correctly rounded value;
    [f64::NAN] for NaN *)
Theorem C12_nat_to_f64 : forall a, Inv a ->
  match val a with
  | None => to_f64_bits a = F64_NAN_BITS
  | Some v => Z.of_N (to_f64_bits a) = bits_of_b64 (f64_of_N v)
  end.
Proof. exact to_f64_bits_spec. Qed.
Print Assumptions C12_nat_to_f64.

(** ... in terms of real numbers: round to nearest even of the exact value
    while that is below 2^1024 ... *)
Theorem C12_nat_to_f64_round : forall a v, Inv a -> val a = Some v ->
  (Rabs (round radix2 (FLT_exp (-1074) 53) ZnearestE (IZR (Z.of_N v))) < bpow radix2 1024)%R ->
  let f := b64_of_bits (Z.of_N (to_f64_bits a)) in
  is_finite 53 1024 f = true /\
  B2R 53 1024 f = round radix2 (FLT_exp (-1074) 53) ZnearestE (IZR (Z.of_N v)) /\
  Bsign 53 1024 f = false.
Proof. exact to_f64_round. Qed.
Print Assumptions C12_nat_to_f64_round.

(** ... +infinity otherwise ... *)
Theorem C12_nat_to_f64_overflow : forall a v, Inv a -> val a = Some v ->
  (bpow radix2 1024 <= Rabs (round radix2 (FLT_exp (-1074) 53) ZnearestE (IZR (Z.of_N v))))%R ->
  to_f64_bits a = F64_INF_BITS.
Proof. exact to_f64_overflow. Qed.
Print Assumptions C12_nat_to_f64_overflow.

(** ... exact for every number with at most 53 significant bits below 2^1024 *)
Theorem C12_nat_to_f64_exact : forall a v m e, Inv a -> val a = Some v ->
  v = (m * 2 ^ e)%N -> (m < 2 ^ 53)%N -> (v < 2 ^ 1024)%N ->
  let f := b64_of_bits (Z.of_N (to_f64_bits a)) in
  is_finite 53 1024 f = true /\ B2R 53 1024 f = IZR (Z.of_N v) /\ Bsign 53 1024 f = false.
Proof. exact to_f64_exact_gen. Qed.
Print Assumptions C12_nat_to_f64_exact.

Theorem C12_nat_to_f64_nan_pattern :
  Binary.is_nan 53 1024 (b64_of_bits (Z.of_N F64_NAN_BITS)) = true /\ to_f64_bits NAN = F64_NAN_BITS.
Proof. exact (conj to_f64_nan to_f64_NAN). Qed.
Print Assumptions C12_nat_to_f64_nan_pattern.

(** the integer level of the conversion (no floating point involved): the
    pattern is assembled from the bit width and [rnd53], the 53-bit
    round-to-nearest-even significand of the mantissa *)
Theorem C12_nat_to_f64_int : forall a, Inv a -> expo a <> U64MAX ->
  let m := mval a in let bw := (N.size m + expo a)%N in
  to_f64_bits a = if (m =? 0)%N then 0%N else if (1024 <? bw)%N then F64_INF_BITS
                  else ((bw + 1022) * 2 ^ 52 + (rnd53 m - 2 ^ 52))%N.
Proof. exact to_f64_bits_int. Qed.
Print Assumptions C12_nat_to_f64_int.

Theorem C12_nat_to_f64_example :
  to_f64_bits (from_u64 (2 ^ 53 + 1)) = 0x4340000000000000%N /\
  to_f64_bits (from_u64 (2 ^ 53 + 3)) = 0x4340000000000002%N /\
  to_f64_bits (nat_shl (from_u64 1) 1023) = 0x7fe0000000000000%N /\
  to_f64_bits (nat_shl (from_u64 1) 1024) = F64_INF_BITS /\
  to_f64_bits (nat_shl (from_u64 (2 ^ 54 - 1)) 970) = F64_INF_BITS /\
  (Inv (nat_shl (from_u64 (2 ^ 54 - 1)) 970) /\
   val (nat_shl (from_u64 (2 ^ 54 - 1)) 970) = Some ((2 ^ 54 - 1) * 2 ^ 970)%N) /\
  bits_of_b64 (f64_of_N (2 ^ 53 + 1)) = 0x4340000000000000%Z.
Proof.
  exact (conj ex_tof64_tie_even (conj ex_tof64_tie_up (conj ex_tof64_max_pow (conj ex_tof64_inf
        (conj ex_tof64_carry_inf (conj ex_tof64_inv ex_tof64_flocq_tie)))))).
Qed.
Print Assumptions C12_nat_to_f64_example.

(** ** The counting type F64 *)

(** every operation is the correctly rounded exact result (Flocq); [x << k]
    multiplies by [exp2(k)], which is [2^k] for [k <= 1023] ([+inf] above) *)
Theorem C12_f64_add_round : forall x y, is_finite 53 1024 x = true -> is_finite 53 1024 y = true ->
  (Rabs (round radix2 (FLT_exp (-1074) 53) ZnearestE (B2R 53 1024 x + B2R 53 1024 y)) < bpow radix2 1024)%R ->
  is_finite 53 1024 (f64c_add x y) = true /\
  B2R 53 1024 (f64c_add x y) = round radix2 (FLT_exp (-1074) 53) ZnearestE (B2R 53 1024 x + B2R 53 1024 y).
Proof. exact f64c_add_round. Qed.
Print Assumptions C12_f64_add_round.

Theorem C12_f64_add_overflow : forall x y, is_finite 53 1024 x = true -> is_finite 53 1024 y = true ->
  (bpow radix2 1024 <= Rabs (round radix2 (FLT_exp (-1074) 53) ZnearestE (B2R 53 1024 x + B2R 53 1024 y)))%R ->
  Bsign 53 1024 x = Bsign 53 1024 y /\ f64c_add x y = B754_infinity 53 1024 (Bsign 53 1024 x).
Proof. exact f64c_add_overflow. Qed.
Print Assumptions C12_f64_add_overflow.

Theorem C12_f64_shl_round : forall x (k : N), is_finite 53 1024 x = true -> (k <= 1023)%N ->
  (Rabs (round radix2 (FLT_exp (-1074) 53) ZnearestE (B2R 53 1024 x * bpow radix2 (Z.of_N k))) < bpow radix2 1024)%R ->
  is_finite 53 1024 (f64c_shl x k) = true /\
  B2R 53 1024 (f64c_shl x k) = round radix2 (FLT_exp (-1074) 53) ZnearestE (B2R 53 1024 x * bpow radix2 (Z.of_N k)).
Proof. exact f64c_shl_round. Qed.
Print Assumptions C12_f64_shl_round.

Theorem C12_f64_shr_round : forall x (k : N), is_finite 53 1024 x = true -> (k <= 1074)%N ->
  is_finite 53 1024 (f64c_shr x k) = true /\
  B2R 53 1024 (f64c_shr x k) = round radix2 (FLT_exp (-1074) 53) ZnearestE (B2R 53 1024 x * bpow radix2 (- Z.of_N k)).
Proof. exact f64c_shr_round. Qed.
Print Assumptions C12_f64_shr_round.

Theorem C12_f64_sub_round : forall x y, is_finite 53 1024 x = true -> is_finite 53 1024 y = true ->
  (Rabs (round radix2 (FLT_exp (-1074) 53) ZnearestE (B2R 53 1024 x - B2R 53 1024 y)) < bpow radix2 1024)%R ->
  is_finite 53 1024 (f64c_sub x y) = true /\
  B2R 53 1024 (f64c_sub x y) = round radix2 (FLT_exp (-1074) 53) ZnearestE (B2R 53 1024 x - B2R 53 1024 y).
Proof. exact f64c_sub_round. Qed.
Print Assumptions C12_f64_sub_round.

(** exactness: [frep x c j] says that [x] is finite, non-negative and holds
    exactly [c * 2^j] ([dy c j]).  Sums and scalings of numbers with at most
    53 significant bits are exact below 2^1024 and +inf from there on *)
Theorem C12_f64_add_exact : forall x y a b j, frep x a j -> frep y b j -> (a + b <= 2 ^ 53)%N -> (-1074 <= j)%Z ->
  ((dy (a + b) j < bpow radix2 1024)%R -> frep (f64c_add x y) (a + b) j) /\
  ((bpow radix2 1024 <= dy (a + b) j)%R -> f64c_add x y = f64c_pos_inf).
Proof. exact frep_add_cases. Qed.
Print Assumptions C12_f64_add_exact.

Theorem C12_f64_shl_exact : forall x c j (k : N), frep x c j -> (c <= 2 ^ 53)%N -> (-1074 <= j)%Z -> (k <= 1023)%N ->
  ((dy c (j + Z.of_N k) < bpow radix2 1024)%R -> frep (f64c_shl x k) c (j + Z.of_N k)) /\
  (c <> 0%N -> (bpow radix2 1024 <= dy c (j + Z.of_N k))%R -> f64c_shl x k = f64c_pos_inf).
Proof. exact frep_shl_cases. Qed.
Print Assumptions C12_f64_shl_exact.

Theorem C12_f64_shr_exact : forall x c j (k : N), frep x c j -> (c <= 2 ^ 53)%N -> (k <= 1074)%N ->
  (-1074 <= j - Z.of_N k)%Z -> frep (f64c_shr x k) c (j - Z.of_N k).
Proof. exact frep_shr. Qed.
Print Assumptions C12_f64_shr_exact.

(** [x << k] of an exactly held [c * 2^j] is the correctly rounded conversion
    of the exact integer product, for every [k] (operands [>= 1] when
    [k >= 1024]: what sat_count feeds it); 0 stays 0 *)
Theorem C12_f64_shl_of_N : forall x c j (k m : N), frep x c j -> (c <= 2 ^ 53)%N -> (-1074 <= j)%Z ->
  (j + Z.of_N k = Z.of_N m)%Z -> ((1024 <= k)%N -> (0 <= j)%Z) ->
  f64c_shl x k = f64_of_N (c * 2 ^ m).
Proof. exact shl_of_N. Qed.
Print Assumptions C12_f64_shl_of_N.

(** [v as f64]: exact for every integer with at most 53 significant bits below 2^1024, +inf from 2^1024 on *)
Theorem C12_f64_of_N_exact : forall c j : N, (c <= 2 ^ 53)%N -> (c * 2 ^ j < 2 ^ 1024)%N ->
  is_finite 53 1024 (f64_of_N (c * 2 ^ j)) = true /\ B2R 53 1024 (f64_of_N (c * 2 ^ j)) = IZR (Z.of_N (c * 2 ^ j)).
Proof. exact f64_of_N_exact. Qed.
Print Assumptions C12_f64_of_N_exact.

Theorem C12_f64_of_N_overflow : forall c j : N, (c <= 2 ^ 53)%N -> (2 ^ 1024 <= c * 2 ^ j)%N ->
  f64_of_N (c * 2 ^ j) = f64c_pos_inf.
Proof. exact of_N_ovf. Qed.
Print Assumptions C12_f64_of_N_overflow.

(** the hypotheses of the exactness theorems are satisfiable *)
Theorem C12_f64_example_exact :
  frep (f64_of_N 5) 5 0 /\ frep (f64c_add (f64_of_N 5) (f64_of_N 3)) 8 0 /\
  frep (f64c_shl (f64_of_N 5) 1020) 5 1020 /\ f64c_shl (f64_of_N 5) 1022 = f64c_pos_inf /\
  frep (f64c_shr (f64_of_N 6) 1) 6 (-1) /\ f64c_shr (f64_of_N 6) 1 = f64_of_N 3.
Proof. exact ex_frep. Qed.
Print Assumptions C12_f64_example_exact.

Theorem C12_f64_example :
  f64c_bits_from_u32 1 = 0x3ff0000000000000%Z /\
  f64c_bits_shl (f64c_bits_from_u32 1) 1023 = 0x7fe0000000000000%Z /\
  f64c_bits_shl (f64c_bits_from_u32 1) 1024 = 0x7ff0000000000000%Z /\
  f64c_bits_shl 0 5000 = 0%Z /\
  f64c_bits_shr (f64c_bits_from_u32 1) 1074 = 1%Z /\
  f64c_bits_shr (f64c_bits_from_u32 1) 1075 = 0%Z /\
  f64c_bits_add (f64c_bits_from_u32 1) (f64c_bits_from_u32 2) = 0x4008000000000000%Z /\
  f64c_bits_add 0x4340000000000000 (f64c_bits_from_u32 1) = 0x4340000000000000%Z /\
  f64c_bits_sub (f64c_bits_from_u32 1) (f64c_bits_from_u32 2) = 0xbff0000000000000%Z /\
  f64c_bits_is_nan (f64c_bits_sub 0x7ff0000000000000 0x7ff0000000000000) = true /\
  f64c_bits_of_N (2 ^ 53 + 1) = 0x4340000000000000%Z.
Proof. exact ex_f64c_ops. Qed.
Print Assumptions C12_f64_example.

(** ** sat_count::<F64> *)

(** diagrams with at most 53 levels (all partial sums have at most 53
    significant bits), every [vars >= levels], BDD / BCDD / ZBDD, with the
    scale-down by [MIN_EXP] for [vars >= 1021]: the result is the correctly
    rounded exact count ... *)
Theorem C12_sat_f64 : forall s vars e, WF s -> counting_kind (s_kind s) -> nlevels s <= vars ->
  nlevels s <= 53 -> ref_ok s (eref e) ->
  sat_ref f64_ops s vars e = Some (f64_of_N (exact_count s vars e)).
Proof. exact sat_ref_f64. Qed.
Print Assumptions C12_sat_f64.

(** ... i.e. exactly the count while it is below 2^1024 (e.g. vars <= 1023) ... *)
Theorem C12_sat_f64_exact : forall s vars e, WF s -> counting_kind (s_kind s) -> nlevels s <= vars ->
  nlevels s <= 53 -> ref_ok s (eref e) -> (exact_count s vars e < 2 ^ 1024)%N ->
  exists x, sat_ref f64_ops s vars e = Some x /\ is_finite 53 1024 x = true /\
            B2R 53 1024 x = IZR (Z.of_N (exact_count s vars e)).
Proof. exact sat_ref_f64_exact. Qed.
Print Assumptions C12_sat_f64_exact.

Theorem C12_sat_f64_exact_vars : forall s vars e, WF s -> counting_kind (s_kind s) -> nlevels s <= vars ->
  nlevels s <= 53 -> ref_ok s (eref e) -> vars <= 1023 ->
  exists x, sat_ref f64_ops s vars e = Some x /\ is_finite 53 1024 x = true /\
            B2R 53 1024 x = IZR (Z.of_N (exact_count s vars e)).
Proof. exact sat_ref_f64_exact_vars. Qed.
Print Assumptions C12_sat_f64_exact_vars.

(** ... and +inf from there on *)
Theorem C12_sat_f64_overflow : forall s vars e, WF s -> counting_kind (s_kind s) -> nlevels s <= vars ->
  nlevels s <= 53 -> ref_ok s (eref e) -> (2 ^ 1024 <= exact_count s vars e)%N ->
  sat_ref f64_ops s vars e = Some f64c_pos_inf.
Proof. exact sat_ref_f64_overflow. Qed.
Print Assumptions C12_sat_f64_overflow.

(** whole histories on one reused cache object (from the number-type
    independent C12_sat_history_transparent) *)
Theorem C12_sat_f64_history : forall q qs,
  qok q -> hist_ok q qs -> counting (q :: qs) -> small_levels (q :: qs) ->
  exists c', run_queries f64_ops (@cache_default binary64) (q :: qs) =
             Some (map (fun q => f64_of_N (exact_count (q_snap q) (q_vars q) (q_edge q))) (q :: qs), c').
Proof. exact run_queries_f64. Qed.
Print Assumptions C12_sat_f64_history.

(** beyond 53 levels (any diagram, no well-formedness needed): the run of the
    BDD / BCDD recursion from the terminal value [2^k], [k <= 1022], is the
    evaluation of the same expression tree over the reals with Flocq's
    rounding after every addition and every halving *)
Theorem C12_sat_f64_rounded_bdd : forall s (k : N) f r a, (k <= 1022)%N ->
  walk (bdd_schemeR (bpow radix2 (Z.of_N k))) s f r false = Some a ->
  exists x, walk (bdd_scheme f64_ops (f64c_shl (n_one f64_ops) k)) s f r false = Some x /\
            is_finite 53 1024 x = true /\ B2R 53 1024 x = a.
Proof. exact walk_f64_bdd_rounded. Qed.
Print Assumptions C12_sat_f64_rounded_bdd.

Theorem C12_sat_f64_rounded_bcdd : forall s (k : N) f r tag a, (k <= 1022)%N ->
  walk (bcdd_schemeR (bpow radix2 (Z.of_N k))) s f r tag = Some a ->
  exists x, walk (bcdd_scheme f64_ops (f64c_shl (n_one f64_ops) k)) s f r tag = Some x /\
            is_finite 53 1024 x = true /\ B2R 53 1024 x = a.
Proof. exact walk_f64_bcdd_rounded. Qed.
Print Assumptions C12_sat_f64_rounded_bcdd.

Theorem C12_sat_f64_rounded_query : forall s vars e a, s_kind s = KBdd -> vars <= 1020 ->
  walk (bdd_schemeR (bpow radix2 (Z.of_nat vars))) s (S (nlevels s)) (eref e) false = Some a ->
  exists x, sat_ref f64_ops s vars e = Some x /\ is_finite 53 1024 x = true /\ B2R 53 1024 x = a.
Proof. exact sat_ref_f64_bdd_rounded. Qed.
Print Assumptions C12_sat_f64_rounded_query.

(** non-vacuity: (x0 /\ x1) \/ x2 as BDD / BCDD / ZBDD gives 5.0, 10.0,
    5 * 2^1020, +inf (vars = 1100, 3000), 0 stays 0; a history *)
Theorem C12_sat_f64_example :
  sat_f64_bits ex_sat_bdd 3 (xe (RN 4)) = Some 0x4014000000000000%Z /\
  sat_f64_bits ex_sat_bdd 4 (xe (RN 4)) = Some 0x4024000000000000%Z /\
  sat_f64_bits ex_sat_bdd 1023 (xe (RN 4)) = Some 0x7fd4000000000000%Z /\
  sat_f64_bits ex_sat_bdd 1100 (xe (RN 4)) = Some 0x7ff0000000000000%Z /\
  sat_f64_bits ex_sat_bdd 3000 (xe (RN 4)) = Some 0x7ff0000000000000%Z /\
  sat_f64_bits ex_sat_bdd 1100 (xe (RT 0)) = Some 0%Z /\
  sat_f64_bits ex_sat_bcdd 3 (mkEdge (RN 4) true) = Some 0x4008000000000000%Z /\
  sat_f64_bits ex_sat_zbdd 3 (xe (RN 6)) = Some 0x4014000000000000%Z /\
  sat_f64_bits ex_sat_zbdd 1100 (xe (RN 6)) = Some 0x7ff0000000000000%Z /\
  sat_f64_cached_bits true ex_sat_bdd 1023 (xe (RN 4)) = Some 0x7fd4000000000000%Z /\
  f64_count_bits 5 = 0x4014000000000000%Z /\ f64_count_bits (5 * 2 ^ 1020) = 0x7fd4000000000000%Z /\
  f64_count_bits (2 ^ 1024) = 0x7ff0000000000000%Z.
Proof. exact ex_sat_f64. Qed.
Print Assumptions C12_sat_f64_example.

Theorem C12_sat_f64_example_history :
  small_levels ex_history /\
  match run_queries f64_ops (@cache_default binary64) ex_history with
  | Some (vs, c) => map bits_of_b64 vs =
      [0x4014000000000000; 0x4018000000000000; 0x4024000000000000; 0x4020000000000000]%Z
  | None => False
  end.
Proof. exact (conj ex_f64_history_small ex_f64_history_run). Qed.
Print Assumptions C12_sat_f64_example_history.

(** the hypotheses of C12_sat_f64 hold for the example diagram, and the theorem instantiated *)
Theorem C12_sat_f64_example_hyps :
  WF ex_sat_bdd /\ counting_kind (s_kind ex_sat_bdd) /\ nlevels ex_sat_bdd <= 53 /\
  ref_ok ex_sat_bdd (eref (xe (RN 4))) /\
  exact_count ex_sat_bdd 1023 (xe (RN 4)) = (5 * 2 ^ 1020)%N /\
  sat_ref f64_ops ex_sat_bdd 1023 (xe (RN 4)) = Some (f64_of_N (5 * 2 ^ 1020)) /\
  sat_ref f64_ops ex_sat_bdd 1100 (xe (RN 4)) = Some f64c_pos_inf.
Proof. exact ex_sat_f64_hyps. Qed.
Print Assumptions C12_sat_f64_example_hyps.
