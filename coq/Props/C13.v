(** C13 -- cube picking: property theorems.

    Models: coq/DD/Pick.v (mirrors [pick_cube_edge], [pick_cube_dd_edge],
    [pick_cube_dd_set_edge], [pick_cube_uniform_edge], [add_literal_to_cube]).
    Proofs: DD/PickProofs.v (the walk shared by BDD and BCDD), DD/PickBdd.v,
    DD/PickBcdd.v, DD/PickZbdd.v.

    Vocabulary.  [den_* s e : lasg -> bool] is the Boolean function of
    level-assignments an edge denotes ([semk] / [semc] / [semz] of DD/Table.v).
    A cube vector [cb] is indexed by variable as in the code; [cube_lit s cb l]
    is its entry for the variable of level [l]; [agrees s a cb]: assignment [a]
    has the value of every decided entry.  The choice function is stateful
    ([St -> level -> edge -> bool * St], the code's [FnMut]); a trace is the list
    of visited nodes with the value written and whether the choice was called. *)
From Coq Require Import List NArith PArith Bool Arith.
From OxiVerif Require Import DD.Table DD.TableProofs DD.BuildProofs DD.ApplyProofs DD.SatCount
  DD.Pick DD.PickProofs DD.PickBdd DD.PickBcdd DD.PickZbdd DD.PickUniform DD.PickExamples DD.PickThms.
Import ListNotations.

(** * BDD *)

(** the model never fails on a well-formed BDD table (no panic, enough fuel) *)
Theorem C13_bdd_pick_total : forall St choice s st e, BddOK s -> good_bdd s e ->
  exists r, pick_cube_bdd St choice s st e = Some r.
Proof. exact pick_cube_bdd_total. Qed.
Print Assumptions C13_bdd_pick_total.

(** nothing is returned exactly for the unsatisfiable function *)
Theorem C13_bdd_pick_none_iff_false : forall St choice s st e, BddOK s -> good_bdd s e ->
  (pick_cube_bdd St choice s st e = Some None <-> forall a, den_bdd s e a = false).
Proof. exact pick_cube_bdd_none_iff. Qed.
Print Assumptions C13_bdd_pick_none_iff_false.

(** the cube implies the function: every assignment extending it is a model *)
Theorem C13_bdd_pick_implicant : forall St choice s st e cb tr st', BddOK s -> good_bdd s e ->
  pick_cube_bdd St choice s st e = Some (Some (cb, tr, st')) ->
  forall a, agrees s a cb -> den_bdd s e a = true.
Proof. exact pick_cube_bdd_implicant. Qed.
Print Assumptions C13_bdd_pick_implicant.

(** the vector has one entry per variable; the entry of a level is the value
    written at the (unique) visit of that level, and don't-care for every
    level that is not on the path *)
Theorem C13_bdd_pick_cube_entries : forall St choice s st e cb tr st', BddOK s -> good_bdd s e ->
  pick_cube_bdd St choice s st e = Some (Some (cb, tr, st')) ->
  length cb = nlevels s /\
  forall l, l < nlevels s ->
    cube_lit s cb l = match trace_val tr l with Some v => v | None => None end.
Proof. exact c13_bdd_pick_cube_entries_thm. Qed.
Print Assumptions C13_bdd_pick_cube_entries.

(** the choice function: levels strictly increase along the trace (so it is
    called at most once per level); it is called with an edge to an inner node
    of that level, and only where both cofactors are satisfiable; where it is
    not called the other cofactor is unsatisfiable (the value is forced) *)
Theorem C13_bdd_choice_once_per_level : forall St choice s st e cb tr st', BddOK s -> good_bdd s e ->
  pick_cube_bdd St choice s st e = Some (Some (cb, tr, st')) ->
  incr_from (rlevel s (eref e)) (map sp_level tr) /\
  (forall p, In p tr -> sp_level p < nlevels s) /\
  (forall p, In p tr -> call_ok view_plain good_bdd den_bdd s p).
Proof. exact c13_bdd_choice_once_per_level_thm. Qed.
Print Assumptions C13_bdd_choice_once_per_level.

(** ... and its answers are respected: the values recorded at the asked steps
    (= the cube entries of those levels, by [C13_bdd_pick_cube_entries]) are the
    answers of the choice function called in path order with its state threaded *)
Theorem C13_bdd_choice_respected : forall St choice s st e cb tr st', BddOK s -> good_bdd s e ->
  pick_cube_bdd St choice s st e = Some (Some (cb, tr, st')) ->
  replay St choice st tr = (asked_vals tr, st').
Proof. exact c13_bdd_choice_respected_thm. Qed.
Print Assumptions C13_bdd_choice_respected.

(** [pick_cube] and [pick_cube_dd] describe the same cube (same choices) *)
Theorem C13_bdd_pick_same_cube : forall St choice s st e cb tr st', BddOK s -> good_bdd s e ->
  pick_cube_bdd St choice s st e = Some (Some (cb, tr, st')) ->
  exists s' r,
    pick_cube_dd_bdd St choice s st e = Some (s', r, tr, st') /\
    BddOK s' /\ extends s s' /\ good_bdd s' r /\
    forall a, den_bdd s' r a = true <-> agrees s a cb.
Proof. exact pick_dd_bdd_same_cube. Qed.
Print Assumptions C13_bdd_pick_same_cube.

(** [pick_cube_dd] returns false exactly for false, otherwise an implicant *)
Theorem C13_bdd_pick_dd_implicant : forall St choice s st e s' r tr st', BddOK s -> good_bdd s e ->
  pick_cube_dd_bdd St choice s st e = Some (s', r, tr, st') ->
  BddOK s' /\ extends s s' /\ good_bdd s' r /\
  (forall a, den_bdd s' r a = true -> den_bdd s' e a = true) /\
  ((forall a, den_bdd s' r a = false) <-> (forall a, den_bdd s e a = false)).
Proof. exact pick_dd_bdd_implicant. Qed.
Print Assumptions C13_bdd_pick_dd_implicant.

(** [pick_cube_dd_set]: with a literal set that is the diagram of a cube with
    literals [L] ([cube_lits], which then denotes their conjunction), the
    result is that of [pick_cube_dd] with the choice "polarity of the level's
    variable in [L], false if it does not occur": forced values win, otherwise
    the literal set decides (all theorems above apply to the right-hand side) *)
Theorem C13_bdd_pick_dd_set : forall s e set L, BddOK s -> good_bdd s e -> good_bdd s set ->
  cube_lits view_plain (S (nlevels s)) s set = Some L ->
  pick_cube_dd_set_bdd s e set =
  drop_st (pick_cube_dd_bdd unit (mask_choice (lit_pol L)) s tt e) /\
  forall a, den_bdd s set a = forallb (fun p : nat * bool => Bool.eqb (a (fst p)) (snd p)) L.
Proof. exact c13_bdd_pick_dd_set_thm. Qed.
Print Assumptions C13_bdd_pick_dd_set.

(** ... spelled out: false exactly for false, an implicant, exactly the cube of
    the trace, and at every visited node either the value is forced or it is the
    polarity of the level's variable in the literal set *)
Theorem C13_bdd_pick_dd_set_ok : forall s e set L s' r tr, BddOK s -> good_bdd s e -> good_bdd s set ->
  cube_lits view_plain (S (nlevels s)) s set = Some L ->
  pick_cube_dd_set_bdd s e set = Some (s', r, tr) ->
  BddOK s' /\ extends s s' /\ good_bdd s' r /\
  (forall a, den_bdd s' r a = true -> den_bdd s' e a = true) /\
  ((forall a, den_bdd s' r a = false) <-> (forall a, den_bdd s e a = false)) /\
  ((exists a0, den_bdd s e a0 = true) -> forall a, den_bdd s' r a = sat_trace a tr) /\
  forall p, In p tr -> call_ok view_plain good_bdd den_bdd s p /\
    (sp_asked p = true -> sp_val p = Some (lit_pol L (sp_level p))).
Proof. exact pick_dd_set_bdd_ok. Qed.
Print Assumptions C13_bdd_pick_dd_set_ok.

(** uniform picking never returns a non-model, nothing iff unsatisfiable *)
Theorem C13_bdd_uniform_model : forall draws s e cb tr k, BddOK s -> good_bdd s e ->
  pick_uniform_bdd draws s e = Some (Some (cb, tr, k)) ->
  forall a, agrees s a cb -> den_bdd s e a = true.
Proof. exact pick_uniform_bdd_model. Qed.
Print Assumptions C13_bdd_uniform_model.

Theorem C13_bdd_uniform_none_iff_false : forall draws s e, BddOK s -> good_bdd s e ->
  (pick_uniform_bdd draws s e = Some None <-> forall a, den_bdd s e a = false).
Proof. exact pick_uniform_bdd_none_iff. Qed.
Print Assumptions C13_bdd_uniform_none_iff_false.

(** without bias: for every trace the walk can take, the product [num / dn] of
    the branch probabilities count(child) / (count(then) + count(else)) at the
    nodes where a random number is drawn equals
    2^(variables - literals of the cube) / #models: a cube with k don't-cares
    is 2^k times as likely as one total model, every model has probability
    1 / #models *)
Theorem C13_bdd_uniform_prob : forall St choice s st e tr st', BddOK s ->
  Run view_plain St choice s st e tr st' -> good_bdd s e ->
  let (num, dn) := trace_weight view_plain count_bdd s tr in
  (0 < num /\ 0 < dn /\ 0 < count_bdd s e /\
   num * count_bdd s e * 2 ^ N.of_nat (length tr) = dn * 2 ^ N.of_nat (nlevels s))%N.
Proof. exact run_bdd_weight. Qed.
Print Assumptions C13_bdd_uniform_prob.

(** [count_bdd] is the number of models over all levels *)
Theorem C13_bdd_count_is_model_count : forall s e, BddOK s -> good_bdd s e ->
  count_bdd s e = count_levels (nlevels s) (fun_bdd s (eref e)).
Proof. exact count_bdd_spec. Qed.
Print Assumptions C13_bdd_count_is_model_count.

(** * BCDD (complement edges): the same statements for [view_bcdd] / [semc] *)

Theorem C13_bcdd_pick_total : forall St choice s st e, BcddOK s -> good_bcdd s e ->
  exists r, pick_cube_bcdd St choice s st e = Some r.
Proof. exact pick_cube_bcdd_total. Qed.
Print Assumptions C13_bcdd_pick_total.

Theorem C13_bcdd_pick_none_iff_false : forall St choice s st e, BcddOK s -> good_bcdd s e ->
  (pick_cube_bcdd St choice s st e = Some None <-> forall a, den_bcdd s e a = false).
Proof. exact pick_cube_bcdd_none_iff. Qed.
Print Assumptions C13_bcdd_pick_none_iff_false.

Theorem C13_bcdd_pick_implicant : forall St choice s st e cb tr st', BcddOK s -> good_bcdd s e ->
  pick_cube_bcdd St choice s st e = Some (Some (cb, tr, st')) ->
  forall a, agrees s a cb -> den_bcdd s e a = true.
Proof. exact pick_cube_bcdd_implicant. Qed.
Print Assumptions C13_bcdd_pick_implicant.

Theorem C13_bcdd_pick_cube_entries : forall St choice s st e cb tr st', BcddOK s -> good_bcdd s e ->
  pick_cube_bcdd St choice s st e = Some (Some (cb, tr, st')) ->
  length cb = nlevels s /\
  forall l, l < nlevels s ->
    cube_lit s cb l = match trace_val tr l with Some v => v | None => None end.
Proof. exact c13_bcdd_pick_cube_entries_thm. Qed.
Print Assumptions C13_bcdd_pick_cube_entries.

Theorem C13_bcdd_choice_once_per_level : forall St choice s st e cb tr st', BcddOK s -> good_bcdd s e ->
  pick_cube_bcdd St choice s st e = Some (Some (cb, tr, st')) ->
  incr_from (rlevel s (eref e)) (map sp_level tr) /\
  (forall p, In p tr -> sp_level p < nlevels s) /\
  (forall p, In p tr -> call_ok view_bcdd good_bcdd den_bcdd s p).
Proof. exact c13_bcdd_choice_once_per_level_thm. Qed.
Print Assumptions C13_bcdd_choice_once_per_level.

Theorem C13_bcdd_choice_respected : forall St choice s st e cb tr st', BcddOK s -> good_bcdd s e ->
  pick_cube_bcdd St choice s st e = Some (Some (cb, tr, st')) ->
  replay St choice st tr = (asked_vals tr, st').
Proof. exact c13_bcdd_choice_respected_thm. Qed.
Print Assumptions C13_bcdd_choice_respected.

(** incl. [add_literal_to_cube]: the result is in complement-edge normal form
    ([BcddOK s'] contains [WF s']) *)
Theorem C13_bcdd_pick_same_cube : forall St choice s st e cb tr st', BcddOK s -> good_bcdd s e ->
  pick_cube_bcdd St choice s st e = Some (Some (cb, tr, st')) ->
  exists s' r,
    pick_cube_dd_bcdd St choice s st e = Some (s', r, tr, st') /\
    BcddOK s' /\ extends s s' /\ good_bcdd s' r /\
    forall a, den_bcdd s' r a = true <-> agrees s a cb.
Proof. exact pick_dd_bcdd_same_cube. Qed.
Print Assumptions C13_bcdd_pick_same_cube.

Theorem C13_bcdd_pick_dd_implicant : forall St choice s st e s' r tr st', BcddOK s -> good_bcdd s e ->
  pick_cube_dd_bcdd St choice s st e = Some (s', r, tr, st') ->
  BcddOK s' /\ extends s s' /\ good_bcdd s' r /\
  (forall a, den_bcdd s' r a = true -> den_bcdd s' e a = true) /\
  ((forall a, den_bcdd s' r a = false) <-> (forall a, den_bcdd s e a = false)).
Proof. exact pick_dd_bcdd_implicant. Qed.
Print Assumptions C13_bcdd_pick_dd_implicant.

Theorem C13_bcdd_pick_dd_set : forall s e set L, BcddOK s -> good_bcdd s e -> good_bcdd s set ->
  cube_lits view_bcdd (S (nlevels s)) s set = Some L ->
  pick_cube_dd_set_bcdd s e set =
  drop_st (pick_cube_dd_bcdd unit (mask_choice (lit_pol L)) s tt e) /\
  forall a, den_bcdd s set a = forallb (fun p : nat * bool => Bool.eqb (a (fst p)) (snd p)) L.
Proof. exact c13_bcdd_pick_dd_set_thm. Qed.
Print Assumptions C13_bcdd_pick_dd_set.

(** ... spelled out: false exactly for false, an implicant, exactly the cube of
    the trace, and at every visited node either the value is forced or it is the
    polarity of the level's variable in the literal set *)
Theorem C13_bcdd_pick_dd_set_ok : forall s e set L s' r tr, BcddOK s -> good_bcdd s e -> good_bcdd s set ->
  cube_lits view_bcdd (S (nlevels s)) s set = Some L ->
  pick_cube_dd_set_bcdd s e set = Some (s', r, tr) ->
  BcddOK s' /\ extends s s' /\ good_bcdd s' r /\
  (forall a, den_bcdd s' r a = true -> den_bcdd s' e a = true) /\
  ((forall a, den_bcdd s' r a = false) <-> (forall a, den_bcdd s e a = false)) /\
  ((exists a0, den_bcdd s e a0 = true) -> forall a, den_bcdd s' r a = sat_trace a tr) /\
  forall p, In p tr -> call_ok view_bcdd good_bcdd den_bcdd s p /\
    (sp_asked p = true -> sp_val p = Some (lit_pol L (sp_level p))).
Proof. exact pick_dd_set_bcdd_ok. Qed.
Print Assumptions C13_bcdd_pick_dd_set_ok.

Theorem C13_bcdd_uniform_model : forall draws s e cb tr k, BcddOK s -> good_bcdd s e ->
  pick_uniform_bcdd draws s e = Some (Some (cb, tr, k)) ->
  forall a, agrees s a cb -> den_bcdd s e a = true.
Proof. exact pick_uniform_bcdd_model. Qed.
Print Assumptions C13_bcdd_uniform_model.

Theorem C13_bcdd_uniform_none_iff_false : forall draws s e, BcddOK s -> good_bcdd s e ->
  (pick_uniform_bcdd draws s e = Some None <-> forall a, den_bcdd s e a = false).
Proof. exact pick_uniform_bcdd_none_iff. Qed.
Print Assumptions C13_bcdd_uniform_none_iff_false.

Theorem C13_bcdd_uniform_prob : forall St choice s st e tr st', BcddOK s ->
  Run view_bcdd St choice s st e tr st' -> good_bcdd s e ->
  let (num, dn) := trace_weight view_bcdd count_bcdd s tr in
  (0 < num /\ 0 < dn /\ 0 < count_bcdd s e /\
   num * count_bcdd s e * 2 ^ N.of_nat (length tr) = dn * 2 ^ N.of_nat (nlevels s))%N.
Proof. exact run_bcdd_weight. Qed.
Print Assumptions C13_bcdd_uniform_prob.

Theorem C13_bcdd_count_is_model_count : forall s e, BcddOK s -> good_bcdd s e ->
  count_bcdd s e = count_levels (nlevels s) (fun_bcdd s e).
Proof. exact count_bcdd_spec. Qed.
Print Assumptions C13_bcdd_count_is_model_count.

(** * ZBDD: a skipped level forces the variable to false, a node with equal
    children is a don't care; the vector starts all-false *)

Theorem C13_zbdd_pick_total : forall St choice s st e, ZbddOK s -> good_z s e ->
  exists r, pick_cube_z St choice s st e = Some r.
Proof. exact pick_cube_z_total. Qed.
Print Assumptions C13_zbdd_pick_total.

Theorem C13_zbdd_pick_none_iff_false : forall St choice s st e, ZbddOK s -> good_z s e ->
  (pick_cube_z St choice s st e = Some None <-> forall a, den_z s e a = false).
Proof. exact pick_cube_z_none_iff. Qed.
Print Assumptions C13_zbdd_pick_none_iff_false.

Theorem C13_zbdd_pick_implicant : forall St choice s st e cb tr st', ZbddOK s -> good_z s e ->
  pick_cube_z St choice s st e = Some (Some (cb, tr, st')) ->
  forall a, agrees s a cb -> den_z s e a = true.
Proof. exact pick_cube_z_implicant. Qed.
Print Assumptions C13_zbdd_pick_implicant.

(** entries: the value written at the visit of the level; false (not
    don't-care) for the levels that are not on the path *)
Theorem C13_zbdd_pick_cube_entries : forall St choice s st e cb tr st', ZbddOK s -> good_z s e ->
  pick_cube_z St choice s st e = Some (Some (cb, tr, st')) ->
  length cb = nlevels s /\
  forall l, l < nlevels s ->
    cube_lit s cb l = match trace_val tr l with Some v => v | None => Some false end.
Proof. exact c13_zbdd_pick_cube_entries_thm. Qed.
Print Assumptions C13_zbdd_pick_cube_entries.

Theorem C13_zbdd_choice_once_per_level : forall St choice s st e cb tr st', ZbddOK s -> good_z s e ->
  pick_cube_z St choice s st e = Some (Some (cb, tr, st')) ->
  incr_from (rlevel s (eref e)) (map sp_level tr) /\
  (forall p, In p tr -> rlevel s (eref e) <= sp_level p < nlevels s) /\
  (forall p, In p tr -> call_ok_z s p).
Proof. exact c13_zbdd_choice_once_per_level_thm. Qed.
Print Assumptions C13_zbdd_choice_once_per_level.

Theorem C13_zbdd_choice_respected : forall St choice s st e cb tr st', ZbddOK s -> good_z s e ->
  pick_cube_z St choice s st e = Some (Some (cb, tr, st')) ->
  replay St choice st tr = (asked_vals tr, st').
Proof. exact c13_zbdd_choice_respected_thm. Qed.
Print Assumptions C13_zbdd_choice_respected.

Theorem C13_zbdd_pick_same_cube : forall St choice s st e cb tr st', ZbddOK s -> good_z s e ->
  pick_cube_z St choice s st e = Some (Some (cb, tr, st')) ->
  exists s' r,
    pick_cube_dd_z St choice s st e = Some (s', r, tr, st') /\
    ZbddOK s' /\ extends s s' /\ good_z s' r /\
    forall a, den_z s' r a = true <-> agrees s a cb.
Proof. exact pick_dd_z_same_cube. Qed.
Print Assumptions C13_zbdd_pick_same_cube.

Theorem C13_zbdd_pick_dd_implicant : forall St choice s st e s' r tr st', ZbddOK s -> good_z s e ->
  pick_cube_dd_z St choice s st e = Some (s', r, tr, st') ->
  ZbddOK s' /\ extends s s' /\ good_z s' r /\
  (forall a, den_z s' r a = true -> den_z s' e a = true) /\
  ((forall a, den_z s' r a = false) <-> (forall a, den_z s e a = false)).
Proof. exact pick_dd_z_implicant. Qed.
Print Assumptions C13_zbdd_pick_dd_implicant.

(** [pick_cube_dd_set] (ZBDD): with a literal set that is a cube diagram
    ([cube_lits_z]) the result is a satisfiable cube - exactly the literals of
    the trace, false on all other levels - that implies the function; at every
    visited node a forced value wins (else-child Empty: true), otherwise a
    positive literal gives true, a negative one false, and a variable that does
    not occur is left don't-care where the diagram allows ([hi = lo]) and set
    to true otherwise ([set_rule]); the false function is returned unchanged *)
Theorem C13_zbdd_pick_dd_set : forall s e set L, ZbddOK s -> good_z s e -> good_z s set ->
  cube_lits_z (S (nlevels s)) s set = Some L -> is_false view_plain s e = false ->
  exists s' r tr, pick_cube_dd_set_z s e set = Some (s', r, tr) /\
    ZbddOK s' /\ extends s s' /\ good_z s' r /\
    (forall a, den_z s' r a = zsatb s a 0 tr) /\
    (forall a, den_z s' r a = true -> den_z s' e a = true) /\
    (exists a, den_z s' r a = true) /\
    forall p, In p tr -> set_rule s L p.
Proof. exact pick_dd_set_z_ok. Qed.
Print Assumptions C13_zbdd_pick_dd_set.

Theorem C13_zbdd_pick_dd_set_false : forall s e set, is_false view_plain s e = true ->
  pick_cube_dd_set_z s e set = Some (s, e, []).
Proof. exact pick_dd_set_z_false. Qed.
Print Assumptions C13_zbdd_pick_dd_set_false.

Theorem C13_zbdd_uniform_model : forall draws s e cb tr k, ZbddOK s -> good_z s e ->
  pick_uniform_z draws s e = Some (Some (cb, tr, k)) ->
  forall a, agrees s a cb -> den_z s e a = true.
Proof. exact pick_uniform_z_model. Qed.
Print Assumptions C13_zbdd_uniform_model.

Theorem C13_zbdd_uniform_none_iff_false : forall draws s e, ZbddOK s -> good_z s e ->
  (pick_uniform_z draws s e = Some None <-> forall a, den_z s e a = false).
Proof. exact pick_uniform_z_none_iff. Qed.
Print Assumptions C13_zbdd_uniform_none_iff_false.

(** probability of a trace = 2^(don't-care entries) / #models *)
Theorem C13_zbdd_uniform_prob : forall s, ZbddOK s -> forall St choice st e tr st',
  RunZ s St choice st e tr st' -> good_z s e ->
  let (num, dn) := trace_weight view_plain count_zbdd s tr in
  (0 < num /\ 0 < dn /\ 0 < count_zbdd s e /\ num * count_zbdd s e = dn * 2 ^ N.of_nat (dcs tr))%N.
Proof. exact runz_weight. Qed.
Print Assumptions C13_zbdd_uniform_prob.

Theorem C13_zbdd_count_is_model_count : forall s e, ZbddOK s -> good_z s e ->
  count_zbdd s e = count_levels (nlevels s) (fun_zbdd s (eref e)).
Proof. exact count_zbdd_models. Qed.
Print Assumptions C13_zbdd_count_is_model_count.

(** * The checkers used by the driver decide the hypotheses *)

Theorem C13_bcdd_ok_b_spec : forall s, bcdd_ok_b s = true <-> BcddOK s.
Proof. exact bcdd_ok_b_spec. Qed.
Print Assumptions C13_bcdd_ok_b_spec.

Theorem C13_zbdd_ok_b_spec : forall s, zbdd_ok_b s = true <-> ZbddOK s.
Proof. exact zbdd_ok_b_spec. Qed.
Print Assumptions C13_zbdd_ok_b_spec.

(** * The hypotheses are satisfiable (concrete tables of (x0 /\ x1) \/ x2; more
    in DD/PickExamples.v: literal sets built by [mk_cube] satisfy [cube_lits]) *)

Theorem C13_hypotheses_satisfiable :
  (BddOK ex_sat_bdd /\ good_bdd ex_sat_bdd (xe (RN 4))) /\
  (BcddOK ex_sat_bcdd /\ good_bcdd ex_sat_bcdd (mkEdge (RN 4) true)) /\
  (ZbddOK ex_sat_zbdd /\ good_z ex_sat_zbdd (xe (RN 6))).
Proof. exact c13_hypotheses_satisfiable_thm. Qed.
Print Assumptions C13_hypotheses_satisfiable.

(** * Uniform picking: the branch rule, and what [length tr] is *)

(** among the [q = m * (ct + ce)] equally likely draws p/q the rule
    "p / q < ct / (ct + ce)" of [uni_choice] sends exactly [m * ct] to the
    then-branch: the fraction ct / (ct + ce) *)
Theorem C13_uniform_branch_fraction : forall ct ce m : N, (0 < ct + ce)%N ->
  N.of_nat (length (filter (fun p => (N.of_nat p * (ct + ce) <? ct * (m * (ct + ce)))%N)
                           (seq 0 (N.to_nat (m * (ct + ce)))))) = (m * ct)%N.
Proof. exact uni_branch_fraction. Qed.
Print Assumptions C13_uniform_branch_fraction.

Theorem C13_uniform_choice_rule : forall view count draws s k l e l' t x p q,
  view s e = CNode l' t x -> draws k = (p, q) ->
  uni_choice view count draws s k l e =
  ((p * (count s t + count s x) <? count s t * q)%N, S k).
Proof. exact uni_choice_spec. Qed.
Print Assumptions C13_uniform_choice_rule.

(** in [C13_bdd_uniform_prob] / [C13_bcdd_uniform_prob], [nlevels s - length tr]
    is the number of don't-care entries of the returned vector *)
Theorem C13_bdd_dont_care_count : forall St choice s st e cb tr st', BddOK s -> good_bdd s e ->
  pick_cube_bdd St choice s st e = Some (Some (cb, tr, st')) ->
  length (filter (fun l => match cube_lit s cb l with None => true | Some _ => false end)
                 (seq 0 (nlevels s))) = nlevels s - length tr.
Proof. exact pick_cube_bdd_dont_cares. Qed.
Print Assumptions C13_bdd_dont_care_count.

Theorem C13_bcdd_dont_care_count : forall St choice s st e cb tr st', BcddOK s -> good_bcdd s e ->
  pick_cube_bcdd St choice s st e = Some (Some (cb, tr, st')) ->
  length (filter (fun l => match cube_lit s cb l with None => true | Some _ => false end)
                 (seq 0 (nlevels s))) = nlevels s - length tr.
Proof. exact pick_cube_bcdd_dont_cares. Qed.
Print Assumptions C13_bcdd_dont_care_count.
