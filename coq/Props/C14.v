(** C14 - property theorems (proved in Mgr/OomProofs.v, Mgr/OomSafe.v,
    Mgr/OomGc.v, Mgr/OomExamples.v; model Mgr/Oom.v on top of DD/Apply.v).

    [apply_*_c] are the BDD apply algorithms of the code in the error monad of
    the code: a node store with [cap] slots ([get_or_insert_cap]: a unique
    table hit never fails, a NEW node fails when [cap] nodes are stored), every
    [?] propagates the failure, both recursors ([par n = false]: sequential,
    stops at the first failing branch; [par n = true]: the join of the parallel
    recursor, the sibling still runs and its edge is dropped).  [ROk s' c' r] =
    result, [ROom s' c'] = [Err(OutOfMemory)] with the table and cache at that
    point, [RStuck] = a panic ([unwrap]) or divergence (fuel).  The theorems
    hold for every cache implementation that only serves what was added
    ([lossy]), every (unobservable) operand order [gt], every capacity, either
    recursor at every depth, every fuel >= number of levels + 1. *)
From Coq Require Import List NArith PArith Bool Arith FMapPositive.
From OxiVerif Require Import DD.Table DD.TableProofs DD.Sem DD.Build DD.BuildProofs
  DD.Apply DD.ApplyProofs DD.ApplyEvalProofs Mgr.Oom Mgr.OomProofs Mgr.OomSafe Mgr.OomGc Mgr.OomExamples.
Import ListNotations.

(** ** 1. never a wrong handle: a result of the bounded run is literally the
    result (table, cache, edge) of the unbounded run of DD/Apply.v - no
    hypothesis at all *)

Theorem C14_oom_never_wrong_not : forall C cget cadd cap par fuel s (c : C) f s' c' r,
  apply_not_c C cget cadd cap par fuel s c f = ROk s' c' r ->
  apply_not C cget cadd fuel s c f = Some (s', c', r).
Proof. exact oom_never_wrong_not. Qed.
Print Assumptions C14_oom_never_wrong_not.

Theorem C14_oom_never_wrong_bin : forall gt C cget cadd cap par op fuel s (c : C) f g s' c' r,
  apply_bin_c gt C cget cadd cap par fuel s c op f g = ROk s' c' r ->
  apply_bin gt C cget cadd fuel s c op f g = Some (s', c', r).
Proof. exact oom_never_wrong_bin. Qed.
Print Assumptions C14_oom_never_wrong_bin.

Theorem C14_oom_never_wrong_ite : forall gt C cget cadd cap par fuel s (c : C) f g h s' c' r,
  apply_ite_c gt C cget cadd cap par fuel s c f g h = ROk s' c' r ->
  apply_ite gt C cget cadd fuel s c f g h = Some (s', c', r).
Proof. exact oom_never_wrong_ite. Qed.
Print Assumptions C14_oom_never_wrong_ite.

(** ... hence (C02) it denotes the pointwise connective of the operands, in a
    well-formed table in which everything that existed before is intact *)

Theorem C14_oom_never_wrong_not_sem : forall C cget cadd, lossy cget cadd ->
  forall cap par fuel s (c : C) f s' c' r,
  BddOK s -> CacheOK cget s c -> ref_ok s f -> S (nlevels s) <= fuel ->
  apply_not_c C cget cadd cap par fuel s c f = ROk s' c' r ->
  BddOK s' /\ CacheOK cget s' c' /\ intact s s' /\ ref_ok s' r /\
  forall c0, bchoice c0 -> exists x,
    semk s (S (nlevels s)) f c0 = Some (b2c x) /\
    semk s' (S (nlevels s')) r c0 = Some (b2c (negb x)).
Proof. exact oom_never_wrong_not_sem. Qed.
Print Assumptions C14_oom_never_wrong_not_sem.

Theorem C14_oom_never_wrong_bin_sem : forall gt C cget cadd, lossy cget cadd ->
  forall cap par op fuel s (c : C) f g s' c' r,
  BddOK s -> CacheOK cget s c -> ref_ok s f -> ref_ok s g -> S (nlevels s) <= fuel ->
  apply_bin_c gt C cget cadd cap par fuel s c op f g = ROk s' c' r ->
  BddOK s' /\ CacheOK cget s' c' /\ intact s s' /\ ref_ok s' r /\
  forall c0, bchoice c0 -> exists x y,
    semk s (S (nlevels s)) f c0 = Some (b2c x) /\
    semk s (S (nlevels s)) g c0 = Some (b2c y) /\
    semk s' (S (nlevels s')) r c0 = Some (b2c (eval_bop op x y)).
Proof. exact oom_never_wrong_bin_sem. Qed.
Print Assumptions C14_oom_never_wrong_bin_sem.

Theorem C14_oom_never_wrong_ite_sem : forall gt C cget cadd, lossy cget cadd ->
  forall cap par fuel s (c : C) f g h s' c' r,
  BddOK s -> CacheOK cget s c -> ref_ok s f -> ref_ok s g -> ref_ok s h -> S (nlevels s) <= fuel ->
  apply_ite_c gt C cget cadd cap par fuel s c f g h = ROk s' c' r ->
  BddOK s' /\ CacheOK cget s' c' /\ intact s s' /\ ref_ok s' r /\
  forall c0, bchoice c0 -> exists x y z,
    semk s (S (nlevels s)) f c0 = Some (b2c x) /\
    semk s (S (nlevels s)) g c0 = Some (b2c y) /\
    semk s (S (nlevels s)) h c0 = Some (b2c z) /\
    semk s' (S (nlevels s')) r c0 = Some (b2c (if x then y else z)).
Proof. exact oom_never_wrong_ite_sem. Qed.
Print Assumptions C14_oom_never_wrong_ite_sem.

(** ** 2. after an out-of-memory error the manager is intact: the table is a
    well-formed BDD table with a correct cache, it extends the table before the
    operation, all handles are unchanged, valid and denote the same functions,
    the nodes the failed operation left behind are unreachable from every
    handle (a collection removes them); the failure really was for lack of
    space (the store is full) *)

Theorem C14_oom_safe_not : forall C cget cadd, lossy cget cadd ->
  forall cap par fuel s (c : C) f s' c',
  BddOK s -> CacheOK cget s c -> ref_ok s f -> S (nlevels s) <= fuel ->
  apply_not_c C cget cadd cap par fuel s c f = ROom s' c' ->
  BddOK s' /\ CacheOK cget s' c' /\ extends s s' /\ intact s s' /\
  node_count s <= node_count s' /\ cap <= node_count s'.
Proof. exact oom_safe_not. Qed.
Print Assumptions C14_oom_safe_not.

Theorem C14_oom_safe_bin : forall gt C cget cadd, lossy cget cadd ->
  forall cap par op fuel s (c : C) f g s' c',
  BddOK s -> CacheOK cget s c -> ref_ok s f -> ref_ok s g -> S (nlevels s) <= fuel ->
  apply_bin_c gt C cget cadd cap par fuel s c op f g = ROom s' c' ->
  BddOK s' /\ CacheOK cget s' c' /\ extends s s' /\ intact s s' /\
  node_count s <= node_count s' /\ cap <= node_count s'.
Proof. exact oom_safe_bin. Qed.
Print Assumptions C14_oom_safe_bin.

Theorem C14_oom_safe_ite : forall gt C cget cadd, lossy cget cadd ->
  forall cap par fuel s (c : C) f g h s' c',
  BddOK s -> CacheOK cget s c -> ref_ok s f -> ref_ok s g -> ref_ok s h -> S (nlevels s) <= fuel ->
  apply_ite_c gt C cget cadd cap par fuel s c f g h = ROom s' c' ->
  BddOK s' /\ CacheOK cget s' c' /\ extends s s' /\ intact s s' /\
  node_count s <= node_count s' /\ cap <= node_count s'.
Proof. exact oom_safe_ite. Qed.
Print Assumptions C14_oom_safe_ite.

(** what [intact s s'] says *)
Theorem C14_intact_meaning : forall s s', intact s s' ->
  s_handles s' = s_handles s /\
  s_v2l s' = s_v2l s /\ s_l2v s' = s_l2v s /\ s_terms s' = s_terms s /\
  (forall id nd, find_node s id = Some nd -> find_node s' id = Some nd) /\
  (forall r, ref_ok s r -> ref_ok s' r /\ forall k c0, semk s' k r c0 = semk s k r c0) /\
  (forall h, In h (s_handles s) -> forall c0, sem_edge s' (snd h) c0 = sem_edge s (snd h) c0) /\
  (forall id, find_node s id = None -> ~ reachable s' (handle_refs s') (RN id)) /\
  (forall r, reachable s' (handle_refs s') r <-> reachable s (handle_refs s) r).
Proof. exact intact_elim. Qed.
Print Assumptions C14_intact_meaning.

(** ** 3. no panic, no divergence: result or out-of-memory are the only outcomes *)

Theorem C14_oom_no_panic_not : forall C cget cadd, lossy cget cadd ->
  forall cap par fuel s (c : C) f,
  BddOK s -> CacheOK cget s c -> ref_ok s f -> S (nlevels s) <= fuel ->
  apply_not_c C cget cadd cap par fuel s c f <> RStuck.
Proof. exact oom_no_panic_not. Qed.
Print Assumptions C14_oom_no_panic_not.

Theorem C14_oom_no_panic_bin : forall gt C cget cadd, lossy cget cadd ->
  forall cap par op fuel s (c : C) f g,
  BddOK s -> CacheOK cget s c -> ref_ok s f -> ref_ok s g -> S (nlevels s) <= fuel ->
  apply_bin_c gt C cget cadd cap par fuel s c op f g <> RStuck.
Proof. exact oom_no_panic_bin. Qed.
Print Assumptions C14_oom_no_panic_bin.

Theorem C14_oom_no_panic_ite : forall gt C cget cadd, lossy cget cadd ->
  forall cap par fuel s (c : C) f g h,
  BddOK s -> CacheOK cget s c -> ref_ok s f -> ref_ok s g -> ref_ok s h -> S (nlevels s) <= fuel ->
  apply_ite_c gt C cget cadd cap par fuel s c f g h <> RStuck.
Proof. exact oom_no_panic_ite. Qed.
Print Assumptions C14_oom_no_panic_ite.

(** ** 4. exactness: with [su] the table the unbounded run produces, the bounded
    run returns exactly that (correct) result when [su] fits into the store (or
    no node had to be created), and out-of-memory - with the manager intact -
    otherwise *)

Theorem C14_oom_exact_not : forall C cget cadd, lossy cget cadd ->
  forall cap par fuel s (c : C) f,
  BddOK s -> CacheOK cget s c -> ref_ok s f -> S (nlevels s) <= fuel ->
  exists su cu ru, apply_not C cget cadd fuel s c f = Some (su, cu, ru) /\
    (forall c0, bchoice c0 -> exists x,
       semk s (S (nlevels s)) f c0 = Some (b2c x) /\
       semk su (S (nlevels su)) ru c0 = Some (b2c (negb x))) /\
    (node_count su <= Nat.max cap (node_count s) ->
       apply_not_c C cget cadd cap par fuel s c f = ROk su cu ru) /\
    (Nat.max cap (node_count s) < node_count su ->
       exists s' c', apply_not_c C cget cadd cap par fuel s c f = ROom s' c' /\
         BddOK s' /\ CacheOK cget s' c' /\ extends s s' /\ intact s s' /\
         node_count s <= node_count s' /\ cap <= node_count s').
Proof. exact oom_exact_not. Qed.
Print Assumptions C14_oom_exact_not.

Theorem C14_oom_exact_bin : forall gt C cget cadd, lossy cget cadd ->
  forall cap par op fuel s (c : C) f g,
  BddOK s -> CacheOK cget s c -> ref_ok s f -> ref_ok s g -> S (nlevels s) <= fuel ->
  exists su cu ru, apply_bin gt C cget cadd fuel s c op f g = Some (su, cu, ru) /\
    (forall c0, bchoice c0 -> exists x y,
       semk s (S (nlevels s)) f c0 = Some (b2c x) /\
       semk s (S (nlevels s)) g c0 = Some (b2c y) /\
       semk su (S (nlevels su)) ru c0 = Some (b2c (eval_bop op x y))) /\
    (node_count su <= Nat.max cap (node_count s) ->
       apply_bin_c gt C cget cadd cap par fuel s c op f g = ROk su cu ru) /\
    (Nat.max cap (node_count s) < node_count su ->
       exists s' c', apply_bin_c gt C cget cadd cap par fuel s c op f g = ROom s' c' /\
         BddOK s' /\ CacheOK cget s' c' /\ extends s s' /\ intact s s' /\
         node_count s <= node_count s' /\ cap <= node_count s').
Proof. exact oom_exact_bin. Qed.
Print Assumptions C14_oom_exact_bin.

Theorem C14_oom_exact_ite : forall gt C cget cadd, lossy cget cadd ->
  forall cap par fuel s (c : C) f g h,
  BddOK s -> CacheOK cget s c -> ref_ok s f -> ref_ok s g -> ref_ok s h -> S (nlevels s) <= fuel ->
  exists su cu ru, apply_ite gt C cget cadd fuel s c f g h = Some (su, cu, ru) /\
    (forall c0, bchoice c0 -> exists x y z,
       semk s (S (nlevels s)) f c0 = Some (b2c x) /\
       semk s (S (nlevels s)) g c0 = Some (b2c y) /\
       semk s (S (nlevels s)) h c0 = Some (b2c z) /\
       semk su (S (nlevels su)) ru c0 = Some (b2c (if x then y else z))) /\
    (node_count su <= Nat.max cap (node_count s) ->
       apply_ite_c gt C cget cadd cap par fuel s c f g h = ROk su cu ru) /\
    (Nat.max cap (node_count s) < node_count su ->
       exists s' c', apply_ite_c gt C cget cadd cap par fuel s c f g h = ROom s' c' /\
         BddOK s' /\ CacheOK cget s' c' /\ extends s s' /\ intact s s' /\
         node_count s <= node_count s' /\ cap <= node_count s').
Proof. exact oom_exact_ite. Qed.
Print Assumptions C14_oom_exact_ite.

(** whether the operation fails does not depend on the recursor *)
Theorem C14_oom_outcome_recursor_indep_not : forall C cget cadd, lossy cget cadd ->
  forall cap par par' fuel s (c : C) f,
  BddOK s -> CacheOK cget s c -> ref_ok s f -> S (nlevels s) <= fuel ->
  res_code (apply_not_c C cget cadd cap par fuel s c f) =
  res_code (apply_not_c C cget cadd cap par' fuel s c f).
Proof. exact oom_outcome_recursor_indep_not. Qed.
Print Assumptions C14_oom_outcome_recursor_indep_not.

Theorem C14_oom_outcome_recursor_indep_bin : forall gt C cget cadd, lossy cget cadd ->
  forall cap par par' op fuel s (c : C) f g,
  BddOK s -> CacheOK cget s c -> ref_ok s f -> ref_ok s g -> S (nlevels s) <= fuel ->
  res_code (apply_bin_c gt C cget cadd cap par fuel s c op f g) =
  res_code (apply_bin_c gt C cget cadd cap par' fuel s c op f g).
Proof. exact oom_outcome_recursor_indep_bin. Qed.
Print Assumptions C14_oom_outcome_recursor_indep_bin.

Theorem C14_oom_outcome_recursor_indep_ite : forall gt C cget cadd, lossy cget cadd ->
  forall cap par par' fuel s (c : C) f g h,
  BddOK s -> CacheOK cget s c -> ref_ok s f -> ref_ok s g -> ref_ok s h -> S (nlevels s) <= fuel ->
  res_code (apply_ite_c gt C cget cadd cap par fuel s c f g h) =
  res_code (apply_ite_c gt C cget cadd cap par' fuel s c f g h).
Proof. exact oom_outcome_recursor_indep_ite. Qed.
Print Assumptions C14_oom_outcome_recursor_indep_ite.

(** ** 5. retry and monotonicity (no hypothesis): whenever the table of the
    unbounded run fits, the bounded run succeeds with exactly that result; a
    success with capacity [cap] is the same success with every [cap' >= cap],
    under either recursor *)

Theorem C14_oom_retry_not : forall C cget cadd cap par fuel s (c : C) f su cu ru,
  apply_not C cget cadd fuel s c f = Some (su, cu, ru) -> node_count su <= cap ->
  apply_not_c C cget cadd cap par fuel s c f = ROk su cu ru.
Proof. exact oom_retry_not. Qed.
Print Assumptions C14_oom_retry_not.

Theorem C14_oom_retry_bin : forall gt C cget cadd cap par op fuel s (c : C) f g su cu ru,
  apply_bin gt C cget cadd fuel s c op f g = Some (su, cu, ru) -> node_count su <= cap ->
  apply_bin_c gt C cget cadd cap par fuel s c op f g = ROk su cu ru.
Proof. exact oom_retry_bin. Qed.
Print Assumptions C14_oom_retry_bin.

Theorem C14_oom_retry_ite : forall gt C cget cadd cap par fuel s (c : C) f g h su cu ru,
  apply_ite gt C cget cadd fuel s c f g h = Some (su, cu, ru) -> node_count su <= cap ->
  apply_ite_c gt C cget cadd cap par fuel s c f g h = ROk su cu ru.
Proof. exact oom_retry_ite. Qed.
Print Assumptions C14_oom_retry_ite.

Theorem C14_oom_monotone_not : forall C cget cadd cap cap' par par' fuel s (c : C) f s' c' r,
  cap <= cap' ->
  apply_not_c C cget cadd cap par fuel s c f = ROk s' c' r ->
  apply_not_c C cget cadd cap' par' fuel s c f = ROk s' c' r.
Proof. exact oom_monotone_not. Qed.
Print Assumptions C14_oom_monotone_not.

Theorem C14_oom_monotone_bin : forall gt C cget cadd cap cap' par par' op fuel s (c : C) f g s' c' r,
  cap <= cap' ->
  apply_bin_c gt C cget cadd cap par fuel s c op f g = ROk s' c' r ->
  apply_bin_c gt C cget cadd cap' par' fuel s c op f g = ROk s' c' r.
Proof. exact oom_monotone_bin. Qed.
Print Assumptions C14_oom_monotone_bin.

Theorem C14_oom_monotone_ite : forall gt C cget cadd cap cap' par par' fuel s (c : C) f g h s' c' r,
  cap <= cap' ->
  apply_ite_c gt C cget cadd cap par fuel s c f g h = ROk s' c' r ->
  apply_ite_c gt C cget cadd cap' par' fuel s c f g h = ROk s' c' r.
Proof. exact oom_monotone_ite. Qed.
Print Assumptions C14_oom_monotone_ite.

(** ** 6. variable creation (one insertion): the (negated) variable, or
    out-of-memory with the manager untouched, exactly when the store is full
    and the node does not exist yet *)

Theorem C14_oom_var_exact : forall cap s v neg, BddOK s -> v < nlevels s ->
  exists s' r, mk_var s v neg = Some (s', r) /\ BddOK s' /\ extends s s' /\ ref_ok s' r /\
    (forall a, bfun_of s' r a = xorb neg (var_s v a)) /\
    (node_count s' <= Nat.max cap (node_count s) -> mk_var_cap cap s v neg = Some (Some (s', r))) /\
    (Nat.max cap (node_count s) < node_count s' ->
       mk_var_cap cap s v neg = Some None /\ cap <= node_count s).
Proof. exact oom_var_exact. Qed.
Print Assumptions C14_oom_var_exact.

Theorem C14_oom_var_never_wrong : forall cap s v neg s' r,
  mk_var_cap cap s v neg = Some (Some (s', r)) -> mk_var s v neg = Some (s', r).
Proof. exact oom_var_never_wrong. Qed.
Print Assumptions C14_oom_var_never_wrong.

(** ** 7. once space has been freed the same operation succeeds.
    [with_handles s' hs]: handles dropped ([hs] remain); [collected t sg]: [sg]
    is [t] restricted to the nodes reachable from a handle (what gc leaves:
    C05).  The collected table is a well-formed sub-table, ... *)

Theorem C14_collected_ok : forall s sg, BddOK s -> collected s sg ->
  BddOK sg /\ extends sg s /\
  (forall h, In h (s_handles s) -> ref_ok sg (eref (snd h))) /\
  (forall r, ref_ok sg r -> forall k c0, semk sg k r c0 = semk s k r c0) /\
  (forall id nd, find_node sg id = Some nd -> reachable sg (handle_refs sg) (RN id)) /\
  node_count sg <= node_count s.
Proof. exact collected_ok. Qed.
Print Assumptions C14_collected_ok.

(** ... and after failure + drop + gc the retry of the same operation on the
    same operands is again "the correct result (w.r.t. the functions the
    operands denoted before the failure) iff it fits", now measured against the
    collected table, which holds none of the garbage of the failed attempt
    ([node_count sg <= node_count s]) *)

Theorem C14_oom_recover_not : forall C cget cadd, lossy cget cadd ->
  forall cap par fuel s (c : C) f s' c' hs sg cg,
  BddOK s -> CacheOK cget s c -> ref_ok s f -> S (nlevels s) <= fuel ->
  apply_not_c C cget cadd cap par fuel s c f = ROom s' c' ->
  incl hs (s_handles s') -> (exists k, In (k, E f) hs) ->
  collected (with_handles s' hs) sg -> CacheOK cget sg cg ->
  BddOK sg /\ node_count sg <= node_count s /\
  exists su cu ru, apply_not C cget cadd fuel sg cg f = Some (su, cu, ru) /\
    (forall c0, bchoice c0 -> exists x,
       semk s (S (nlevels s)) f c0 = Some (b2c x) /\
       semk su (S (nlevels su)) ru c0 = Some (b2c (negb x))) /\
    (node_count su <= Nat.max cap (node_count sg) ->
       apply_not_c C cget cadd cap par fuel sg cg f = ROk su cu ru) /\
    (Nat.max cap (node_count sg) < node_count su ->
       exists s2 c2, apply_not_c C cget cadd cap par fuel sg cg f = ROom s2 c2 /\
         BddOK s2 /\ CacheOK cget s2 c2 /\ extends sg s2 /\ intact sg s2 /\
         node_count sg <= node_count s2 /\ cap <= node_count s2).
Proof. exact oom_recover_not. Qed.
Print Assumptions C14_oom_recover_not.

Theorem C14_oom_recover_bin : forall gt C cget cadd, lossy cget cadd ->
  forall cap par op fuel s (c : C) f g s' c' hs sg cg,
  BddOK s -> CacheOK cget s c -> ref_ok s f -> ref_ok s g -> S (nlevels s) <= fuel ->
  apply_bin_c gt C cget cadd cap par fuel s c op f g = ROom s' c' ->
  incl hs (s_handles s') -> (exists k, In (k, E f) hs) -> (exists k, In (k, E g) hs) ->
  collected (with_handles s' hs) sg -> CacheOK cget sg cg ->
  BddOK sg /\ node_count sg <= node_count s /\
  exists su cu ru, apply_bin gt C cget cadd fuel sg cg op f g = Some (su, cu, ru) /\
    (forall c0, bchoice c0 -> exists x y,
       semk s (S (nlevels s)) f c0 = Some (b2c x) /\
       semk s (S (nlevels s)) g c0 = Some (b2c y) /\
       semk su (S (nlevels su)) ru c0 = Some (b2c (eval_bop op x y))) /\
    (node_count su <= Nat.max cap (node_count sg) ->
       apply_bin_c gt C cget cadd cap par fuel sg cg op f g = ROk su cu ru) /\
    (Nat.max cap (node_count sg) < node_count su ->
       exists s2 c2, apply_bin_c gt C cget cadd cap par fuel sg cg op f g = ROom s2 c2 /\
         BddOK s2 /\ CacheOK cget s2 c2 /\ extends sg s2 /\ intact sg s2 /\
         node_count sg <= node_count s2 /\ cap <= node_count s2).
Proof. exact oom_recover_bin. Qed.
Print Assumptions C14_oom_recover_bin.

Theorem C14_oom_recover_ite : forall gt C cget cadd, lossy cget cadd ->
  forall cap par fuel s (c : C) f g h s' c' hs sg cg,
  BddOK s -> CacheOK cget s c -> ref_ok s f -> ref_ok s g -> ref_ok s h -> S (nlevels s) <= fuel ->
  apply_ite_c gt C cget cadd cap par fuel s c f g h = ROom s' c' ->
  incl hs (s_handles s') ->
  (exists k, In (k, E f) hs) -> (exists k, In (k, E g) hs) -> (exists k, In (k, E h) hs) ->
  collected (with_handles s' hs) sg -> CacheOK cget sg cg ->
  BddOK sg /\ node_count sg <= node_count s /\
  exists su cu ru, apply_ite gt C cget cadd fuel sg cg f g h = Some (su, cu, ru) /\
    (forall c0, bchoice c0 -> exists x y z,
       semk s (S (nlevels s)) f c0 = Some (b2c x) /\
       semk s (S (nlevels s)) g c0 = Some (b2c y) /\
       semk s (S (nlevels s)) h c0 = Some (b2c z) /\
       semk su (S (nlevels su)) ru c0 = Some (b2c (if x then y else z))) /\
    (node_count su <= Nat.max cap (node_count sg) ->
       apply_ite_c gt C cget cadd cap par fuel sg cg f g h = ROk su cu ru) /\
    (Nat.max cap (node_count sg) < node_count su ->
       exists s2 c2, apply_ite_c gt C cget cadd cap par fuel sg cg f g h = ROom s2 c2 /\
         BddOK s2 /\ CacheOK cget s2 c2 /\ extends sg s2 /\ intact sg s2 /\
         node_count sg <= node_count s2 /\ cap <= node_count s2).
Proof. exact oom_recover_ite. Qed.
Print Assumptions C14_oom_recover_ite.

(** the collection hypothesis is satisfiable: a table without garbage is
    restored exactly by a collection after the failure *)
Theorem C14_gc_restores : forall s s', BddOK s -> extends s s' ->
  (forall id nd, find_node s id = Some nd -> reachable s (handle_refs s) (RN id)) ->
  collected (with_handles s' (s_handles s')) s.
Proof. exact gc_restores. Qed.
Print Assumptions C14_gc_restores.

(** ** 8. the hypotheses are satisfiable and every outcome occurs (concrete
    table [ex3]: 3 levels, 6 nodes, 5 handles) *)

Theorem C14_example_table : BddOK ex3 /\ rc_exact_b ex3 [] = true /\ node_count ex3 = 6.
Proof. exact ex3_ok. Qed.
Print Assumptions C14_example_table.

(* capacity 0, 6 (full): immediate failure, table untouched; 7, 8: failure after
   one resp. two nodes were created; 9: the result *)
Theorem C14_example_not :
  map (fun cap => out (not_nc cap false ex3 (RN 5))) [0; 6; 7; 8; 9; 10] =
  [(1, Some 6, None); (1, Some 6, None); (1, Some 7, None); (1, Some 8, None);
   (0, Some 9, Some (RN 9)); (0, Some 9, Some (RN 9))].
Proof. exact ex3_not. Qed.
Print Assumptions C14_example_not.

Theorem C14_example_recursors :
  let run p := apply_bin_c gt_none acache ac_get ac_add 6 (fun _ => p) 4 ex3 [] OOr (RN 6) (RN 1) in
  (res_code (run false), cache_of (run false)) = (1, Some []) /\
  (res_code (run true), cache_of (run true)) = (1, Some [(2%N, [RN 4; RN 1], RN 1)]).
Proof. exact ex3_recursors. Qed.
Print Assumptions C14_example_recursors.

Theorem C14_example_recover : forall s' c',
  not_nc 8 false ex3 (RN 5) = ROom s' c' ->
  collected (with_handles s' (s_handles s')) ex3 /\
  (forall cap p, 9 <= cap -> exists su ru, not_nc cap p ex3 (RN 5) = ROk su tt ru).
Proof. exact ex3_recover. Qed.
Print Assumptions C14_example_recover.
