(** C14 - property theorems (proved in Mgr/OomProofs.v, Mgr/OomSafe.v,
    Mgr/OomGc.v, Mgr/OomExamples.v; model Mgr/Oom.v on top of DD/Apply.v).

    [apply_*_c] are the BDD apply algorithms of the code in the error monad of
    the code: a node store with [cap] slots ([get_or_insert_cap]: a unique
    table hit never fails, a NEW node fails when [cap] nodes are stored), every
    [?] propagates the failure, both recursors ([par n = false]: sequential,
    stops at the first failing branch; [par n = true]: the join of the parallel
    recursor, the sibling still runs and its edge is dropped).  [ROk s' c' r] =
    result, [ROom s' c'] = [Err(OutOfMemory)] with the table and cache at that
    point, [RStuck] = a panic ([unwrap]) or divergence (fuel).  The theorems
    hold for every cache implementation that only serves what was added
    ([lossy]), every (unobservable) operand order [gt], every capacity, either
    recursor at every depth, every fuel >= number of levels + 1. *)
From Coq Require Import List NArith PArith Bool Arith FMapPositive.
From OxiVerif Require Import DD.Table DD.TableProofs DD.Sem DD.Build DD.BuildProofs
  DD.Apply DD.ApplyProofs DD.ApplyEvalProofs Mgr.Oom Mgr.OomProofs Mgr.OomSafe Mgr.OomGc Mgr.OomExamples.
From Coq Require Import Permutation.
From OxiVerif Require Import Mgr.Conc Mgr.ConcProofs Mgr.ConcGc Mgr.ConcGcProofs
  Mgr.OomOwn Mgr.OomOwnProofs Mgr.OomOwnSafe Mgr.OomOwnGc Mgr.OomOwnThms Mgr.OomOwnExamples.
From OxiVerif Require Import DD.Quant Mgr.OomOwnQ Mgr.OomOwnQProofs Mgr.OomOwnQSafe Mgr.OomOwnQThms.
Import ListNotations.

(** ** 1. never a wrong handle: a result of the bounded run is literally the
    result (table, cache, edge) of the unbounded run of DD/Apply.v - no
    hypothesis at all *)

Theorem C14_oom_never_wrong_not : forall C cget cadd cap par fuel s (c : C) f s' c' r,
  apply_not_c C cget cadd cap par fuel s c f = ROk s' c' r ->
  apply_not C cget cadd fuel s c f = Some (s', c', r).
Proof. exact oom_never_wrong_not. Qed.
Print Assumptions C14_oom_never_wrong_not.

Theorem C14_oom_never_wrong_bin : forall gt C cget cadd cap par op fuel s (c : C) f g s' c' r,
  apply_bin_c gt C cget cadd cap par fuel s c op f g = ROk s' c' r ->
  apply_bin gt C cget cadd fuel s c op f g = Some (s', c', r).
Proof. exact oom_never_wrong_bin. Qed.
Print Assumptions C14_oom_never_wrong_bin.

Theorem C14_oom_never_wrong_ite : forall gt C cget cadd cap par fuel s (c : C) f g h s' c' r,
  apply_ite_c gt C cget cadd cap par fuel s c f g h = ROk s' c' r ->
  apply_ite gt C cget cadd fuel s c f g h = Some (s', c', r).
Proof. exact oom_never_wrong_ite. Qed.
Print Assumptions C14_oom_never_wrong_ite.

(** ... hence (C02) it denotes the pointwise connective of the operands, in a
    well-formed table in which everything that existed before is intact *)

Theorem C14_oom_never_wrong_not_sem : forall C cget cadd, lossy cget cadd ->
  forall cap par fuel s (c : C) f s' c' r,
  BddOK s -> CacheOK cget s c -> ref_ok s f -> S (nlevels s) <= fuel ->
  apply_not_c C cget cadd cap par fuel s c f = ROk s' c' r ->
  BddOK s' /\ CacheOK cget s' c' /\ intact s s' /\ ref_ok s' r /\
  forall c0, bchoice c0 -> exists x,
    semk s (S (nlevels s)) f c0 = Some (b2c x) /\
    semk s' (S (nlevels s')) r c0 = Some (b2c (negb x)).
Proof. exact oom_never_wrong_not_sem. Qed.
Print Assumptions C14_oom_never_wrong_not_sem.

Theorem C14_oom_never_wrong_bin_sem : forall gt C cget cadd, lossy cget cadd ->
  forall cap par op fuel s (c : C) f g s' c' r,
  BddOK s -> CacheOK cget s c -> ref_ok s f -> ref_ok s g -> S (nlevels s) <= fuel ->
  apply_bin_c gt C cget cadd cap par fuel s c op f g = ROk s' c' r ->
  BddOK s' /\ CacheOK cget s' c' /\ intact s s' /\ ref_ok s' r /\
  forall c0, bchoice c0 -> exists x y,
    semk s (S (nlevels s)) f c0 = Some (b2c x) /\
    semk s (S (nlevels s)) g c0 = Some (b2c y) /\
    semk s' (S (nlevels s')) r c0 = Some (b2c (eval_bop op x y)).
Proof. exact oom_never_wrong_bin_sem. Qed.
Print Assumptions C14_oom_never_wrong_bin_sem.

Theorem C14_oom_never_wrong_ite_sem : forall gt C cget cadd, lossy cget cadd ->
  forall cap par fuel s (c : C) f g h s' c' r,
  BddOK s -> CacheOK cget s c -> ref_ok s f -> ref_ok s g -> ref_ok s h -> S (nlevels s) <= fuel ->
  apply_ite_c gt C cget cadd cap par fuel s c f g h = ROk s' c' r ->
  BddOK s' /\ CacheOK cget s' c' /\ intact s s' /\ ref_ok s' r /\
  forall c0, bchoice c0 -> exists x y z,
    semk s (S (nlevels s)) f c0 = Some (b2c x) /\
    semk s (S (nlevels s)) g c0 = Some (b2c y) /\
    semk s (S (nlevels s)) h c0 = Some (b2c z) /\
    semk s' (S (nlevels s')) r c0 = Some (b2c (if x then y else z)).
Proof. exact oom_never_wrong_ite_sem. Qed.
Print Assumptions C14_oom_never_wrong_ite_sem.

(** ** 2. after an out-of-memory error the manager is intact: the table is a
    well-formed BDD table with a correct cache, it extends the table before the
    operation, all handles are unchanged, valid and denote the same functions,
    the nodes the failed operation left behind are unreachable from every
    handle (a collection removes them); the failure really was for lack of
    space (the store is full) *)

Theorem C14_oom_safe_not : forall C cget cadd, lossy cget cadd ->
  forall cap par fuel s (c : C) f s' c',
  BddOK s -> CacheOK cget s c -> ref_ok s f -> S (nlevels s) <= fuel ->
  apply_not_c C cget cadd cap par fuel s c f = ROom s' c' ->
  BddOK s' /\ CacheOK cget s' c' /\ extends s s' /\ intact s s' /\
  node_count s <= node_count s' /\ cap <= node_count s'.
Proof. exact oom_safe_not. Qed.
Print Assumptions C14_oom_safe_not.

Theorem C14_oom_safe_bin : forall gt C cget cadd, lossy cget cadd ->
  forall cap par op fuel s (c : C) f g s' c',
  BddOK s -> CacheOK cget s c -> ref_ok s f -> ref_ok s g -> S (nlevels s) <= fuel ->
  apply_bin_c gt C cget cadd cap par fuel s c op f g = ROom s' c' ->
  BddOK s' /\ CacheOK cget s' c' /\ extends s s' /\ intact s s' /\
  node_count s <= node_count s' /\ cap <= node_count s'.
Proof. exact oom_safe_bin. Qed.
Print Assumptions C14_oom_safe_bin.

Theorem C14_oom_safe_ite : forall gt C cget cadd, lossy cget cadd ->
  forall cap par fuel s (c : C) f g h s' c',
  BddOK s -> CacheOK cget s c -> ref_ok s f -> ref_ok s g -> ref_ok s h -> S (nlevels s) <= fuel ->
  apply_ite_c gt C cget cadd cap par fuel s c f g h = ROom s' c' ->
  BddOK s' /\ CacheOK cget s' c' /\ extends s s' /\ intact s s' /\
  node_count s <= node_count s' /\ cap <= node_count s'.
Proof. exact oom_safe_ite. Qed.
Print Assumptions C14_oom_safe_ite.

(** what [intact s s'] says *)
Theorem C14_intact_meaning : forall s s', intact s s' ->
  s_handles s' = s_handles s /\
  s_v2l s' = s_v2l s /\ s_l2v s' = s_l2v s /\ s_terms s' = s_terms s /\
  (forall id nd, find_node s id = Some nd -> find_node s' id = Some nd) /\
  (forall r, ref_ok s r -> ref_ok s' r /\ forall k c0, semk s' k r c0 = semk s k r c0) /\
  (forall h, In h (s_handles s) -> forall c0, sem_edge s' (snd h) c0 = sem_edge s (snd h) c0) /\
  (forall id, find_node s id = None -> ~ reachable s' (handle_refs s') (RN id)) /\
  (forall r, reachable s' (handle_refs s') r <-> reachable s (handle_refs s) r).
Proof. exact intact_elim. Qed.
Print Assumptions C14_intact_meaning.

(** ** 3. no panic, no divergence: result or out-of-memory are the only outcomes *)

Theorem C14_oom_no_panic_not : forall C cget cadd, lossy cget cadd ->
  forall cap par fuel s (c : C) f,
  BddOK s -> CacheOK cget s c -> ref_ok s f -> S (nlevels s) <= fuel ->
  apply_not_c C cget cadd cap par fuel s c f <> RStuck.
Proof. exact oom_no_panic_not. Qed.
Print Assumptions C14_oom_no_panic_not.

Theorem C14_oom_no_panic_bin : forall gt C cget cadd, lossy cget cadd ->
  forall cap par op fuel s (c : C) f g,
  BddOK s -> CacheOK cget s c -> ref_ok s f -> ref_ok s g -> S (nlevels s) <= fuel ->
  apply_bin_c gt C cget cadd cap par fuel s c op f g <> RStuck.
Proof. exact oom_no_panic_bin. Qed.
Print Assumptions C14_oom_no_panic_bin.

Theorem C14_oom_no_panic_ite : forall gt C cget cadd, lossy cget cadd ->
  forall cap par fuel s (c : C) f g h,
  BddOK s -> CacheOK cget s c -> ref_ok s f -> ref_ok s g -> ref_ok s h -> S (nlevels s) <= fuel ->
  apply_ite_c gt C cget cadd cap par fuel s c f g h <> RStuck.
Proof. exact oom_no_panic_ite. Qed.
Print Assumptions C14_oom_no_panic_ite.

(** ** 4. exactness: with [su] the table the unbounded run produces, the bounded
    run returns exactly that (correct) result when [su] fits into the store (or
    no node had to be created), and out-of-memory - with the manager intact -
    otherwise *)

Theorem C14_oom_exact_not : forall C cget cadd, lossy cget cadd ->
  forall cap par fuel s (c : C) f,
  BddOK s -> CacheOK cget s c -> ref_ok s f -> S (nlevels s) <= fuel ->
  exists su cu ru, apply_not C cget cadd fuel s c f = Some (su, cu, ru) /\
    (forall c0, bchoice c0 -> exists x,
       semk s (S (nlevels s)) f c0 = Some (b2c x) /\
       semk su (S (nlevels su)) ru c0 = Some (b2c (negb x))) /\
    (node_count su <= Nat.max cap (node_count s) ->
       apply_not_c C cget cadd cap par fuel s c f = ROk su cu ru) /\
    (Nat.max cap (node_count s) < node_count su ->
       exists s' c', apply_not_c C cget cadd cap par fuel s c f = ROom s' c' /\
         BddOK s' /\ CacheOK cget s' c' /\ extends s s' /\ intact s s' /\
         node_count s <= node_count s' /\ cap <= node_count s').
Proof. exact oom_exact_not. Qed.
Print Assumptions C14_oom_exact_not.

Theorem C14_oom_exact_bin : forall gt C cget cadd, lossy cget cadd ->
  forall cap par op fuel s (c : C) f g,
  BddOK s -> CacheOK cget s c -> ref_ok s f -> ref_ok s g -> S (nlevels s) <= fuel ->
  exists su cu ru, apply_bin gt C cget cadd fuel s c op f g = Some (su, cu, ru) /\
    (forall c0, bchoice c0 -> exists x y,
       semk s (S (nlevels s)) f c0 = Some (b2c x) /\
       semk s (S (nlevels s)) g c0 = Some (b2c y) /\
       semk su (S (nlevels su)) ru c0 = Some (b2c (eval_bop op x y))) /\
    (node_count su <= Nat.max cap (node_count s) ->
       apply_bin_c gt C cget cadd cap par fuel s c op f g = ROk su cu ru) /\
    (Nat.max cap (node_count s) < node_count su ->
       exists s' c', apply_bin_c gt C cget cadd cap par fuel s c op f g = ROom s' c' /\
         BddOK s' /\ CacheOK cget s' c' /\ extends s s' /\ intact s s' /\
         node_count s <= node_count s' /\ cap <= node_count s').
Proof. exact oom_exact_bin. Qed.
Print Assumptions C14_oom_exact_bin.

Theorem C14_oom_exact_ite : forall gt C cget cadd, lossy cget cadd ->
  forall cap par fuel s (c : C) f g h,
  BddOK s -> CacheOK cget s c -> ref_ok s f -> ref_ok s g -> ref_ok s h -> S (nlevels s) <= fuel ->
  exists su cu ru, apply_ite gt C cget cadd fuel s c f g h = Some (su, cu, ru) /\
    (forall c0, bchoice c0 -> exists x y z,
       semk s (S (nlevels s)) f c0 = Some (b2c x) /\
       semk s (S (nlevels s)) g c0 = Some (b2c y) /\
       semk s (S (nlevels s)) h c0 = Some (b2c z) /\
       semk su (S (nlevels su)) ru c0 = Some (b2c (if x then y else z))) /\
    (node_count su <= Nat.max cap (node_count s) ->
       apply_ite_c gt C cget cadd cap par fuel s c f g h = ROk su cu ru) /\
    (Nat.max cap (node_count s) < node_count su ->
       exists s' c', apply_ite_c gt C cget cadd cap par fuel s c f g h = ROom s' c' /\
         BddOK s' /\ CacheOK cget s' c' /\ extends s s' /\ intact s s' /\
         node_count s <= node_count s' /\ cap <= node_count s').
Proof. exact oom_exact_ite. Qed.
Print Assumptions C14_oom_exact_ite.

(** whether the operation fails does not depend on the recursor *)
Theorem C14_oom_outcome_recursor_indep_not : forall C cget cadd, lossy cget cadd ->
  forall cap par par' fuel s (c : C) f,
  BddOK s -> CacheOK cget s c -> ref_ok s f -> S (nlevels s) <= fuel ->
  res_code (apply_not_c C cget cadd cap par fuel s c f) =
  res_code (apply_not_c C cget cadd cap par' fuel s c f).
Proof. exact oom_outcome_recursor_indep_not. Qed.
Print Assumptions C14_oom_outcome_recursor_indep_not.

Theorem C14_oom_outcome_recursor_indep_bin : forall gt C cget cadd, lossy cget cadd ->
  forall cap par par' op fuel s (c : C) f g,
  BddOK s -> CacheOK cget s c -> ref_ok s f -> ref_ok s g -> S (nlevels s) <= fuel ->
  res_code (apply_bin_c gt C cget cadd cap par fuel s c op f g) =
  res_code (apply_bin_c gt C cget cadd cap par' fuel s c op f g).
Proof. exact oom_outcome_recursor_indep_bin. Qed.
Print Assumptions C14_oom_outcome_recursor_indep_bin.

Theorem C14_oom_outcome_recursor_indep_ite : forall gt C cget cadd, lossy cget cadd ->
  forall cap par par' fuel s (c : C) f g h,
  BddOK s -> CacheOK cget s c -> ref_ok s f -> ref_ok s g -> ref_ok s h -> S (nlevels s) <= fuel ->
  res_code (apply_ite_c gt C cget cadd cap par fuel s c f g h) =
  res_code (apply_ite_c gt C cget cadd cap par' fuel s c f g h).
Proof. exact oom_outcome_recursor_indep_ite. Qed.
Print Assumptions C14_oom_outcome_recursor_indep_ite.

(** ** 5. retry and monotonicity (no hypothesis): whenever the table of the
    unbounded run fits, the bounded run succeeds with exactly that result; a
    success with capacity [cap] is the same success with every [cap' >= cap],
    under either recursor *)

Theorem C14_oom_retry_not : forall C cget cadd cap par fuel s (c : C) f su cu ru,
  apply_not C cget cadd fuel s c f = Some (su, cu, ru) -> node_count su <= cap ->
  apply_not_c C cget cadd cap par fuel s c f = ROk su cu ru.
Proof. exact oom_retry_not. Qed.
Print Assumptions C14_oom_retry_not.

Theorem C14_oom_retry_bin : forall gt C cget cadd cap par op fuel s (c : C) f g su cu ru,
  apply_bin gt C cget cadd fuel s c op f g = Some (su, cu, ru) -> node_count su <= cap ->
  apply_bin_c gt C cget cadd cap par fuel s c op f g = ROk su cu ru.
Proof. exact oom_retry_bin. Qed.
Print Assumptions C14_oom_retry_bin.

Theorem C14_oom_retry_ite : forall gt C cget cadd cap par fuel s (c : C) f g h su cu ru,
  apply_ite gt C cget cadd fuel s c f g h = Some (su, cu, ru) -> node_count su <= cap ->
  apply_ite_c gt C cget cadd cap par fuel s c f g h = ROk su cu ru.
Proof. exact oom_retry_ite. Qed.
Print Assumptions C14_oom_retry_ite.

Theorem C14_oom_monotone_not : forall C cget cadd cap cap' par par' fuel s (c : C) f s' c' r,
  cap <= cap' ->
  apply_not_c C cget cadd cap par fuel s c f = ROk s' c' r ->
  apply_not_c C cget cadd cap' par' fuel s c f = ROk s' c' r.
Proof. exact oom_monotone_not. Qed.
Print Assumptions C14_oom_monotone_not.

Theorem C14_oom_monotone_bin : forall gt C cget cadd cap cap' par par' op fuel s (c : C) f g s' c' r,
  cap <= cap' ->
  apply_bin_c gt C cget cadd cap par fuel s c op f g = ROk s' c' r ->
  apply_bin_c gt C cget cadd cap' par' fuel s c op f g = ROk s' c' r.
Proof. exact oom_monotone_bin. Qed.
Print Assumptions C14_oom_monotone_bin.

Theorem C14_oom_monotone_ite : forall gt C cget cadd cap cap' par par' fuel s (c : C) f g h s' c' r,
  cap <= cap' ->
  apply_ite_c gt C cget cadd cap par fuel s c f g h = ROk s' c' r ->
  apply_ite_c gt C cget cadd cap' par' fuel s c f g h = ROk s' c' r.
Proof. exact oom_monotone_ite. Qed.
Print Assumptions C14_oom_monotone_ite.

(** ** 6. variable creation (one insertion): the (negated) variable, or
    out-of-memory with the manager untouched, exactly when the store is full
    and the node does not exist yet *)

Theorem C14_oom_var_exact : forall cap s v neg, BddOK s -> v < nlevels s ->
  exists s' r, mk_var s v neg = Some (s', r) /\ BddOK s' /\ extends s s' /\ ref_ok s' r /\
    (forall a, bfun_of s' r a = xorb neg (var_s v a)) /\
    (node_count s' <= Nat.max cap (node_count s) -> mk_var_cap cap s v neg = Some (Some (s', r))) /\
    (Nat.max cap (node_count s) < node_count s' ->
       mk_var_cap cap s v neg = Some None /\ cap <= node_count s).
Proof. exact oom_var_exact. Qed.
Print Assumptions C14_oom_var_exact.

Theorem C14_oom_var_never_wrong : forall cap s v neg s' r,
  mk_var_cap cap s v neg = Some (Some (s', r)) -> mk_var s v neg = Some (s', r).
Proof. exact oom_var_never_wrong. Qed.
Print Assumptions C14_oom_var_never_wrong.

(** ** 7. once space has been freed the same operation succeeds.
    [with_handles s' hs]: handles dropped ([hs] remain); [collected t sg]: [sg]
    is [t] restricted to the nodes reachable from a handle (what gc leaves:
    C05).  The collected table is a well-formed sub-table, ... *)

Theorem C14_collected_ok : forall s sg, BddOK s -> collected s sg ->
  BddOK sg /\ extends sg s /\
  (forall h, In h (s_handles s) -> ref_ok sg (eref (snd h))) /\
  (forall r, ref_ok sg r -> forall k c0, semk sg k r c0 = semk s k r c0) /\
  (forall id nd, find_node sg id = Some nd -> reachable sg (handle_refs sg) (RN id)) /\
  node_count sg <= node_count s.
Proof. exact collected_ok. Qed.
Print Assumptions C14_collected_ok.

(** ... and after failure + drop + gc the retry of the same operation on the
    same operands is again "the correct result (w.r.t. the functions the
    operands denoted before the failure) iff it fits", now measured against the
    collected table, which holds none of the garbage of the failed attempt
    ([node_count sg <= node_count s]) *)

Theorem C14_oom_recover_not : forall C cget cadd, lossy cget cadd ->
  forall cap par fuel s (c : C) f s' c' hs sg cg,
  BddOK s -> CacheOK cget s c -> ref_ok s f -> S (nlevels s) <= fuel ->
  apply_not_c C cget cadd cap par fuel s c f = ROom s' c' ->
  incl hs (s_handles s') -> (exists k, In (k, E f) hs) ->
  collected (with_handles s' hs) sg -> CacheOK cget sg cg ->
  BddOK sg /\ node_count sg <= node_count s /\
  exists su cu ru, apply_not C cget cadd fuel sg cg f = Some (su, cu, ru) /\
    (forall c0, bchoice c0 -> exists x,
       semk s (S (nlevels s)) f c0 = Some (b2c x) /\
       semk su (S (nlevels su)) ru c0 = Some (b2c (negb x))) /\
    (node_count su <= Nat.max cap (node_count sg) ->
       apply_not_c C cget cadd cap par fuel sg cg f = ROk su cu ru) /\
    (Nat.max cap (node_count sg) < node_count su ->
       exists s2 c2, apply_not_c C cget cadd cap par fuel sg cg f = ROom s2 c2 /\
         BddOK s2 /\ CacheOK cget s2 c2 /\ extends sg s2 /\ intact sg s2 /\
         node_count sg <= node_count s2 /\ cap <= node_count s2).
Proof. exact oom_recover_not. Qed.
Print Assumptions C14_oom_recover_not.

Theorem C14_oom_recover_bin : forall gt C cget cadd, lossy cget cadd ->
  forall cap par op fuel s (c : C) f g s' c' hs sg cg,
  BddOK s -> CacheOK cget s c -> ref_ok s f -> ref_ok s g -> S (nlevels s) <= fuel ->
  apply_bin_c gt C cget cadd cap par fuel s c op f g = ROom s' c' ->
  incl hs (s_handles s') -> (exists k, In (k, E f) hs) -> (exists k, In (k, E g) hs) ->
  collected (with_handles s' hs) sg -> CacheOK cget sg cg ->
  BddOK sg /\ node_count sg <= node_count s /\
  exists su cu ru, apply_bin gt C cget cadd fuel sg cg op f g = Some (su, cu, ru) /\
    (forall c0, bchoice c0 -> exists x y,
       semk s (S (nlevels s)) f c0 = Some (b2c x) /\
       semk s (S (nlevels s)) g c0 = Some (b2c y) /\
       semk su (S (nlevels su)) ru c0 = Some (b2c (eval_bop op x y))) /\
    (node_count su <= Nat.max cap (node_count sg) ->
       apply_bin_c gt C cget cadd cap par fuel sg cg op f g = ROk su cu ru) /\
    (Nat.max cap (node_count sg) < node_count su ->
       exists s2 c2, apply_bin_c gt C cget cadd cap par fuel sg cg op f g = ROom s2 c2 /\
         BddOK s2 /\ CacheOK cget s2 c2 /\ extends sg s2 /\ intact sg s2 /\
         node_count sg <= node_count s2 /\ cap <= node_count s2).
Proof. exact oom_recover_bin. Qed.
Print Assumptions C14_oom_recover_bin.

Theorem C14_oom_recover_ite : forall gt C cget cadd, lossy cget cadd ->
  forall cap par fuel s (c : C) f g h s' c' hs sg cg,
  BddOK s -> CacheOK cget s c -> ref_ok s f -> ref_ok s g -> ref_ok s h -> S (nlevels s) <= fuel ->
  apply_ite_c gt C cget cadd cap par fuel s c f g h = ROom s' c' ->
  incl hs (s_handles s') ->
  (exists k, In (k, E f) hs) -> (exists k, In (k, E g) hs) -> (exists k, In (k, E h) hs) ->
  collected (with_handles s' hs) sg -> CacheOK cget sg cg ->
  BddOK sg /\ node_count sg <= node_count s /\
  exists su cu ru, apply_ite gt C cget cadd fuel sg cg f g h = Some (su, cu, ru) /\
    (forall c0, bchoice c0 -> exists x y z,
       semk s (S (nlevels s)) f c0 = Some (b2c x) /\
       semk s (S (nlevels s)) g c0 = Some (b2c y) /\
       semk s (S (nlevels s)) h c0 = Some (b2c z) /\
       semk su (S (nlevels su)) ru c0 = Some (b2c (if x then y else z))) /\
    (node_count su <= Nat.max cap (node_count sg) ->
       apply_ite_c gt C cget cadd cap par fuel sg cg f g h = ROk su cu ru) /\
    (Nat.max cap (node_count sg) < node_count su ->
       exists s2 c2, apply_ite_c gt C cget cadd cap par fuel sg cg f g h = ROom s2 c2 /\
         BddOK s2 /\ CacheOK cget s2 c2 /\ extends sg s2 /\ intact sg s2 /\
         node_count sg <= node_count s2 /\ cap <= node_count s2).
Proof. exact oom_recover_ite. Qed.
Print Assumptions C14_oom_recover_ite.

(** the collection hypothesis is satisfiable: a table without garbage is
    restored exactly by a collection after the failure *)
Theorem C14_gc_restores : forall s s', BddOK s -> extends s s' ->
  (forall id nd, find_node s id = Some nd -> reachable s (handle_refs s) (RN id)) ->
  collected (with_handles s' (s_handles s')) s.
Proof. exact gc_restores. Qed.
Print Assumptions C14_gc_restores.

(** ** 8. the hypotheses are satisfiable and every outcome occurs (concrete
    table [ex3]: 3 levels, 6 nodes, 5 handles) *)

Theorem C14_example_table : BddOK ex3 /\ rc_exact_b ex3 [] = true /\ node_count ex3 = 6.
Proof. exact ex3_ok. Qed.
Print Assumptions C14_example_table.

(* capacity 0, 6 (full): immediate failure, table untouched; 7, 8: failure after
   one resp. two nodes were created; 9: the result *)
Theorem C14_example_not :
  map (fun cap => out (not_nc cap false ex3 (RN 5))) [0; 6; 7; 8; 9; 10] =
  [(1, Some 6, None); (1, Some 6, None); (1, Some 7, None); (1, Some 8, None);
   (0, Some 9, Some (RN 9)); (0, Some 9, Some (RN 9))].
Proof. exact ex3_not. Qed.
Print Assumptions C14_example_not.

Theorem C14_example_recursors :
  let run p := apply_bin_c gt_none acache ac_get ac_add 6 (fun _ => p) 4 ex3 [] OOr (RN 6) (RN 1) in
  (res_code (run false), cache_of (run false)) = (1, Some []) /\
  (res_code (run true), cache_of (run true)) = (1, Some [(2%N, [RN 4; RN 1], RN 1)]).
Proof. exact ex3_recursors. Qed.
Print Assumptions C14_example_recursors.

Theorem C14_example_recover : forall s' c',
  not_nc 8 false ex3 (RN 5) = ROom s' c' ->
  collected (with_handles s' (s_handles s')) ex3 /\
  (forall cap p, 9 <= cap -> exists su ru, not_nc cap p ex3 (RN 5) = ROk su tt ru).
Proof. exact ex3_recover. Qed.
Print Assumptions C14_example_recover.


(** ** 9. C14x - ownership of edges on the error paths ("releases everything it had
    acquired"), model Mgr/OomOwn.v: the same algorithms on the state of the interleaving
    model of Mgr/Conc.v (table WITH reference counts [crc] + multiset [cown] of owned
    edges), every clone_edge / drop_edge / get_or_insert / EdgeDropGuard / `?` explicit,
    guard placement of oxidd-rules-bdd/src/recursor.rs ([guards_code]).  [OOk s' c' r] /
    [OErr s' c'] = Err(OutOfMemory) / [OStuck] = double release, count underflow,
    violated get_or_insert precondition, failing unwrap, fuel.  For every capacity
    (= every failure point), cache, recursor [par], operand order [gt], fuel. *)

(* (1) BALANCE + frame + (2) exact counts, no hypothesis: on [OOk] the thread owns the
   caller's tokens plus one for the result, on [OErr] exactly the caller's tokens
   (multisets: nothing leaked, nothing double-released); every old node keeps level
   and children; [CInv] (counts = owners + parents) is preserved *)
Theorem C14_own_balance_not : forall terms nl tid cap C cget cadd par fuel s (c : C) f,
  match not_o terms nl tid cap C cget cadd par guards_code fuel s c f with
  | OOk s' _ r => Permutation (cown s') (tokr tid r ++ cown s) /\ ext s s' /\
                  (CInv KBdd terms nl s -> CInv KBdd terms nl s')
  | OErr s' _ => Permutation (cown s') (cown s) /\ ext s s' /\
                 (CInv KBdd terms nl s -> CInv KBdd terms nl s')
  | OStuck => True
  end.
Proof. exact own_balance_not. Qed.
Print Assumptions C14_own_balance_not.

Theorem C14_own_balance_bin : forall terms nl tid cap gt C cget cadd par fuel s (c : C) op f g,
  match bin_o terms nl tid cap gt C cget cadd par guards_code fuel s c op f g with
  | OOk s' _ r => Permutation (cown s') (tokr tid r ++ cown s) /\ ext s s' /\
                  (CInv KBdd terms nl s -> CInv KBdd terms nl s')
  | OErr s' _ => Permutation (cown s') (cown s) /\ ext s s' /\
                 (CInv KBdd terms nl s -> CInv KBdd terms nl s')
  | OStuck => True
  end.
Proof. exact own_balance_bin. Qed.
Print Assumptions C14_own_balance_bin.

Theorem C14_own_balance_ite : forall terms nl tid cap gt C cget cadd par fuel s (c : C) f g h,
  match ite_o terms nl tid cap gt C cget cadd par guards_code fuel s c f g h with
  | OOk s' _ r => Permutation (cown s') (tokr tid r ++ cown s) /\ ext s s' /\
                  (CInv KBdd terms nl s -> CInv KBdd terms nl s')
  | OErr s' _ => Permutation (cown s') (cown s) /\ ext s s' /\
                 (CInv KBdd terms nl s -> CInv KBdd terms nl s')
  | OStuck => True
  end.
Proof. exact own_balance_ite. Qed.
Print Assumptions C14_own_balance_ite.

(* the meaning of [ext] and of [CInv] (exact counts), spelled out *)
Theorem C14_own_ext_meaning : forall s s',
  ext s s' <-> forall id nd, cfind (cn s) id = Some nd ->
    exists nd', cfind (cn s') id = Some nd' /\ cl nd' = cl nd /\ cch nd' = cch nd.
Proof. exact ext_meaning. Qed.
Print Assumptions C14_own_ext_meaning.

(* (2) as a snapshot of the manager after ANY outcome: well-formed, reference counts exact
   (the audit rc_first_bad / rc_exact_b that checks/C14.py runs after every failing op) *)
Theorem C14_own_counts_not : forall terms nl tid cap C cget cadd par fuel s (c : C) f s',
  CInv KBdd terms nl s -> terms_unique_b terms = true ->
  ores_st (not_o terms nl tid cap C cget cadd par guards_code fuel s c f) = Some s' ->
  CInv KBdd terms nl s' /\ WF (to_snap KBdd terms nl s') /\ rc_exact_b (to_snap KBdd terms nl s') [] = true.
Proof. exact own_counts_not. Qed.
Print Assumptions C14_own_counts_not.

Theorem C14_own_counts_bin : forall terms nl tid cap gt C cget cadd par fuel s (c : C) op f g s',
  CInv KBdd terms nl s -> terms_unique_b terms = true ->
  ores_st (bin_o terms nl tid cap gt C cget cadd par guards_code fuel s c op f g) = Some s' ->
  CInv KBdd terms nl s' /\ WF (to_snap KBdd terms nl s') /\ rc_exact_b (to_snap KBdd terms nl s') [] = true.
Proof. exact own_counts_bin. Qed.
Print Assumptions C14_own_counts_bin.

Theorem C14_own_counts_ite : forall terms nl tid cap gt C cget cadd par fuel s (c : C) f g h s',
  CInv KBdd terms nl s -> terms_unique_b terms = true ->
  ores_st (ite_o terms nl tid cap gt C cget cadd par guards_code fuel s c f g h) = Some s' ->
  CInv KBdd terms nl s' /\ WF (to_snap KBdd terms nl s') /\ rc_exact_b (to_snap KBdd terms nl s') [] = true.
Proof. exact own_counts_ite. Qed.
Print Assumptions C14_own_counts_ite.

(* never stuck: no double release, no underflow, get_or_insert always gets owned edges to
   stored nodes below its level; the result is stored, the cache invariant is kept *)
Theorem C14_own_total_not : forall terms nl tid cap C cget cadd par,
  bterms_ok terms -> lossy cget cadd ->
  forall fuel s (c : C) f, CInv KBdd terms nl s -> COK terms nl C cget (cn s) c ->
  stored terms (cn s) f -> S nl <= fuel ->
  match not_o terms nl tid cap C cget cadd par guards_code fuel s c f with
  | OOk s' c' r => stored terms (cn s') r /\ COK terms nl C cget (cn s') c'
  | OErr s' c' => COK terms nl C cget (cn s') c'
  | OStuck => False
  end.
Proof. exact own_total_not. Qed.
Print Assumptions C14_own_total_not.

Theorem C14_own_total_bin : forall terms nl tid cap gt C cget cadd par,
  bterms_ok terms -> lossy cget cadd ->
  forall fuel s (c : C) op f g, CInv KBdd terms nl s -> COK terms nl C cget (cn s) c ->
  stored terms (cn s) f -> stored terms (cn s) g -> S nl <= fuel ->
  match bin_o terms nl tid cap gt C cget cadd par guards_code fuel s c op f g with
  | OOk s' c' r => stored terms (cn s') r /\ COK terms nl C cget (cn s') c'
  | OErr s' c' => COK terms nl C cget (cn s') c'
  | OStuck => False
  end.
Proof. exact own_total_bin. Qed.
Print Assumptions C14_own_total_bin.

Theorem C14_own_total_ite : forall terms nl tid cap gt C cget cadd par,
  bterms_ok terms -> lossy cget cadd ->
  forall fuel s (c : C) f g h, CInv KBdd terms nl s -> COK terms nl C cget (cn s) c ->
  stored terms (cn s) f -> stored terms (cn s) g -> stored terms (cn s) h -> S nl <= fuel ->
  match ite_o terms nl tid cap gt C cget cadd par guards_code fuel s c f g h with
  | OOk s' c' r => stored terms (cn s') r /\ COK terms nl C cget (cn s') c'
  | OErr s' c' => COK terms nl C cget (cn s') c'
  | OStuck => False
  end.
Proof. exact own_total_ite. Qed.
Print Assumptions C14_own_total_ite.

(* the cache invariant of the TOTAL statements, spelled out *)
Theorem C14_own_cok_meaning : forall terms nl C cget t (c : C),
  COK terms nl C cget t c <->
  forall code args h, cget c code args = Some h ->
    cref_ok_b terms t h = true /\ (forall r, In r args -> cref_ok_b terms t r = true) /\
    (N.ltb code 39 = true -> minlvl nl t args <= crlevel nl t h).
Proof. exact cok_meaning. Qed.
Print Assumptions C14_own_cok_meaning.

(* (3) ROLLBACK: after Err, without dropping anything else, the collection of Mgr/ConcGc.v
   (= Manager::gc, C05) leaves exactly the nodes of the ORIGINAL table reachable from the
   caller's tokens, with their level and children; entry by entry (count included) it is
   the table a collection of the state before the operation would have produced *)
Theorem C14_own_err_collect_not : forall terms nl tid cap C cget cadd par fuel s (c : C) f s' c',
  CInv KBdd terms nl s ->
  not_o terms nl tid cap C cget cadd par guards_code fuel s c f = OErr s' c' ->
  (forall id,
    ((exists nd', cfind (cn (collect KBdd terms nl s')) id = Some nd') <->
     (exists nd, cfind (cn s) id = Some nd) /\
     (exists o, In o (cown s) /\ creach (cn s) (eref (snd o)) (RN id))) /\
    (forall nd', cfind (cn (collect KBdd terms nl s')) id = Some nd' ->
       exists nd, cfind (cn s) id = Some nd /\ cl nd' = cl nd /\ cch nd' = cch nd)) /\
  (forall id, cfind (cn (collect KBdd terms nl s')) id = cfind (cn (collect KBdd terms nl s)) id) /\
  Permutation (cown (collect KBdd terms nl s')) (cown s).
Proof. exact own_err_collect_not. Qed.
Print Assumptions C14_own_err_collect_not.

Theorem C14_own_err_collect_bin : forall terms nl tid cap gt C cget cadd par fuel s (c : C) op f g s' c',
  CInv KBdd terms nl s ->
  bin_o terms nl tid cap gt C cget cadd par guards_code fuel s c op f g = OErr s' c' ->
  (forall id,
    ((exists nd', cfind (cn (collect KBdd terms nl s')) id = Some nd') <->
     (exists nd, cfind (cn s) id = Some nd) /\
     (exists o, In o (cown s) /\ creach (cn s) (eref (snd o)) (RN id))) /\
    (forall nd', cfind (cn (collect KBdd terms nl s')) id = Some nd' ->
       exists nd, cfind (cn s) id = Some nd /\ cl nd' = cl nd /\ cch nd' = cch nd)) /\
  (forall id, cfind (cn (collect KBdd terms nl s')) id = cfind (cn (collect KBdd terms nl s)) id) /\
  Permutation (cown (collect KBdd terms nl s')) (cown s).
Proof. exact own_err_collect_bin. Qed.
Print Assumptions C14_own_err_collect_bin.

Theorem C14_own_err_collect_ite : forall terms nl tid cap gt C cget cadd par fuel s (c : C) f g h s' c',
  CInv KBdd terms nl s ->
  ite_o terms nl tid cap gt C cget cadd par guards_code fuel s c f g h = OErr s' c' ->
  (forall id,
    ((exists nd', cfind (cn (collect KBdd terms nl s')) id = Some nd') <->
     (exists nd, cfind (cn s) id = Some nd) /\
     (exists o, In o (cown s) /\ creach (cn s) (eref (snd o)) (RN id))) /\
    (forall nd', cfind (cn (collect KBdd terms nl s')) id = Some nd' ->
       exists nd, cfind (cn s) id = Some nd /\ cl nd' = cl nd /\ cch nd' = cch nd)) /\
  (forall id, cfind (cn (collect KBdd terms nl s')) id = cfind (cn (collect KBdd terms nl s)) id) /\
  Permutation (cown (collect KBdd terms nl s')) (cown s).
Proof. exact own_err_collect_ite. Qed.
Print Assumptions C14_own_err_collect_ite.

(* (4) the statements have teeth: with the recursor's guards created only after the second
   `?` (the seeded ownership slip of ParallelRecursor::ternary; [p]: parallel / sequential)
   a concrete run (table [ex3o], 8 slots, if x2 then x0 else x1) fails with one token more
   than before - BALANCE is false - and after the collection a node that did not exist
   before is still stored - ROLLBACK is false; the code's placement fails on the same
   input too and satisfies both *)
Theorem C14_own_balance_late_ternary_refuted : forall p,
  (match ite_on ex_terms 3 0 8 p guards_late_ternary ex3o (RN 1) (RN 3) (RN 2) with
   | OErr s' _ =>
       ~ Permutation (cown s') (cown ex3o) /\
       length (cown s') = S (length (cown ex3o)) /\
       exists id, cfind (cn ex3o) id = None /\
                  cfind (cn (collect KBdd ex_terms 3 s')) id <> None
   | _ => False
   end) /\
  own_post ex_terms 3 0 unit ex3o (ite_on ex_terms 3 0 8 p guards_code ex3o (RN 1) (RN 3) (RN 2)) /\
  ores_code (ite_on ex_terms 3 0 8 p guards_code ex3o (RN 1) (RN 3) (RN 2)) = 1.
Proof. exact own_balance_late_ternary_refuted. Qed.
Print Assumptions C14_own_balance_late_ternary_refuted.

Theorem C14_own_balance_late_unary_binary_refuted : forall p,
  leaks ex3o (not_on ex_terms 3 0 8 p guards_late_all ex3o (RN 6)) /\
  leaks ex3o (bin_on ex_terms 3 0 8 p guards_late_all ex3o OXor (RN 1) (RN 6)).
Proof. exact own_balance_late_unary_binary_refuted. Qed.
Print Assumptions C14_own_balance_late_unary_binary_refuted.

(* non-vacuity: [ex3o] (the table of C14_example_table as a state with exact counts and five
   tokens) satisfies every hypothesis; every outcome occurs; a failed run leaves garbage
   with exact counts that the collection removes completely *)
Theorem C14_own_example_state : CInv KBdd ex_terms 3 ex3o /\ bterms_ok ex_terms /\
  terms_unique_b ex_terms = true /\ COK ex_terms 3 acache ac_get (cn ex3o) [] /\
  (forall i, In i [1; 2; 3; 4; 5; 6]%positive -> stored ex_terms (cn ex3o) (RN i)).
Proof. exact ex3o_state. Qed.
Print Assumptions C14_own_example_state.

Theorem C14_own_example_not : forall p,
  map (fun cap => oout (not_on ex_terms 3 0 cap p guards_code ex3o (RN 5))) [0; 6; 7; 8; 9; 10] =
  [(1, Some 6, Some 5, None, Some true); (1, Some 6, Some 5, None, Some true);
   (1, Some 7, Some 5, None, Some true); (1, Some 8, Some 5, None, Some true);
   (0, Some 9, Some 6, Some (RN 9), Some true); (0, Some 9, Some 6, Some (RN 9), Some true)].
Proof. exact ex3o_not. Qed.
Print Assumptions C14_own_example_not.

Theorem C14_own_example_garbage :
  match not_on ex_terms 3 0 8 false guards_code ex3o (RN 5) with
  | OErr s' _ =>
      cown s' = cown ex3o /\
      map (fun p => (fst p, crc (snd p))) (cn s') =
        [(8%positive, 0%N); (7%positive, 1%N); (6%positive, 1%N); (5%positive, 1%N);
         (4%positive, 2%N); (3%positive, 1%N); (2%positive, 2%N); (1%positive, 2%N)] /\
      collect KBdd ex_terms 3 s' = ex3o
  | _ => False
  end.
Proof. exact ex3o_not_garbage. Qed.
Print Assumptions C14_own_example_garbage.


(** ** 10. C14x - the same four statements for the functions that keep guards alive ACROSS
    a fallible call (model Mgr/OomOwnQ.v): [prepare_fill_o] = `substitute_prepare` (the
    `EdgeVecDropGuard` around the cloned replacement edges while a missing variable node is
    created), [substitute_o] = `substitute_edge` (`substitute_prepare`, then `substitute`
    with the two recursor guards alive during `apply_ite`, then the vector guard dropped),
    [quant_o] = `quant` (guards alive during `apply_bin` when the level is quantified) *)

Theorem C14_own_balance_prepare : forall terms nl tid cap s slots,
  match prepare_fill_o terms nl tid cap false s slots 0 [] with
  | VOk s' v => Permutation (cown s') (toks tid v ++ cown s) /\ ext s s' /\
                (CInv KBdd terms nl s -> CInv KBdd terms nl s')
  | VErr s' => Permutation (cown s') (cown s) /\ ext s s' /\
               (CInv KBdd terms nl s -> CInv KBdd terms nl s')
  | VStuck => True
  end.
Proof. exact own_balance_prepare. Qed.
Print Assumptions C14_own_balance_prepare.

Theorem C14_own_balance_substitute : forall terms nl tid cap gt C cget cadd par fuel s (c : C) f slots id,
  match substitute_o terms nl tid cap gt C cget cadd par guards_code fuel s c f slots id with
  | OOk s' _ r => Permutation (cown s') (tokr tid r ++ cown s) /\ ext s s' /\
                  (CInv KBdd terms nl s -> CInv KBdd terms nl s')
  | OErr s' _ => Permutation (cown s') (cown s) /\ ext s s' /\
                 (CInv KBdd terms nl s -> CInv KBdd terms nl s')
  | OStuck => True
  end.
Proof. exact own_balance_substitute. Qed.
Print Assumptions C14_own_balance_substitute.

Theorem C14_own_balance_quant : forall terms nl tid cap gt C cget cadd par fuel s (c : C) q f vars,
  match quant_o terms nl tid cap gt C cget cadd par guards_code fuel s c q f vars with
  | OOk s' _ r => Permutation (cown s') (tokr tid r ++ cown s) /\ ext s s' /\
                  (CInv KBdd terms nl s -> CInv KBdd terms nl s')
  | OErr s' _ => Permutation (cown s') (cown s) /\ ext s s' /\
                 (CInv KBdd terms nl s -> CInv KBdd terms nl s')
  | OStuck => True
  end.
Proof. exact own_balance_quant. Qed.
Print Assumptions C14_own_balance_quant.

Theorem C14_own_counts_substitute : forall terms nl tid cap gt C cget cadd par fuel s (c : C) f slots id s',
  CInv KBdd terms nl s -> terms_unique_b terms = true ->
  ores_st (substitute_o terms nl tid cap gt C cget cadd par guards_code fuel s c f slots id) = Some s' ->
  CInv KBdd terms nl s' /\ WF (to_snap KBdd terms nl s') /\ rc_exact_b (to_snap KBdd terms nl s') [] = true.
Proof. exact own_counts_substitute. Qed.
Print Assumptions C14_own_counts_substitute.

Theorem C14_own_counts_quant : forall terms nl tid cap gt C cget cadd par fuel s (c : C) q f vars s',
  CInv KBdd terms nl s -> terms_unique_b terms = true ->
  ores_st (quant_o terms nl tid cap gt C cget cadd par guards_code fuel s c q f vars) = Some s' ->
  CInv KBdd terms nl s' /\ WF (to_snap KBdd terms nl s') /\ rc_exact_b (to_snap KBdd terms nl s') [] = true.
Proof. exact own_counts_quant. Qed.
Print Assumptions C14_own_counts_quant.

Theorem C14_own_total_substitute : forall terms nl tid cap gt C cget cadd par,
  bterms_ok terms -> lossy cget cadd ->
  forall fuel s (c : C) f slots id, CInv KBdd terms nl s -> COK terms nl C cget (cn s) c ->
  stored terms (cn s) f -> (forall e, In (Some e) slots -> stored terms (cn s) e) ->
  length slots <= nl -> S nl <= fuel ->
  match substitute_o terms nl tid cap gt C cget cadd par guards_code fuel s c f slots id with
  | OOk s' c' r => stored terms (cn s') r /\ COK terms nl C cget (cn s') c'
  | OErr s' c' => COK terms nl C cget (cn s') c'
  | OStuck => False
  end.
Proof. exact own_total_substitute. Qed.
Print Assumptions C14_own_total_substitute.

Theorem C14_own_total_quant : forall terms nl tid cap gt C cget cadd par,
  bterms_ok terms -> lossy cget cadd ->
  forall fuel s (c : C) q f vars, CInv KBdd terms nl s -> COK terms nl C cget (cn s) c ->
  stored terms (cn s) f -> stored terms (cn s) vars -> S nl <= fuel ->
  match quant_o terms nl tid cap gt C cget cadd par guards_code fuel s c q f vars with
  | OOk s' c' r => stored terms (cn s') r /\ COK terms nl C cget (cn s') c'
  | OErr s' c' => COK terms nl C cget (cn s') c'
  | OStuck => False
  end.
Proof. exact own_total_quant. Qed.
Print Assumptions C14_own_total_quant.

Theorem C14_own_err_collect_substitute : forall terms nl tid cap gt C cget cadd par fuel s (c : C) f slots id s' c',
  CInv KBdd terms nl s ->
  substitute_o terms nl tid cap gt C cget cadd par guards_code fuel s c f slots id = OErr s' c' ->
  (forall id,
    ((exists nd', cfind (cn (collect KBdd terms nl s')) id = Some nd') <->
     (exists nd, cfind (cn s) id = Some nd) /\
     (exists o, In o (cown s) /\ creach (cn s) (eref (snd o)) (RN id))) /\
    (forall nd', cfind (cn (collect KBdd terms nl s')) id = Some nd' ->
       exists nd, cfind (cn s) id = Some nd /\ cl nd' = cl nd /\ cch nd' = cch nd)) /\
  (forall id, cfind (cn (collect KBdd terms nl s')) id = cfind (cn (collect KBdd terms nl s)) id) /\
  Permutation (cown (collect KBdd terms nl s')) (cown s).
Proof. exact own_err_collect_substitute. Qed.
Print Assumptions C14_own_err_collect_substitute.

Theorem C14_own_err_collect_quant : forall terms nl tid cap gt C cget cadd par fuel s (c : C) q f vars s' c',
  CInv KBdd terms nl s ->
  quant_o terms nl tid cap gt C cget cadd par guards_code fuel s c q f vars = OErr s' c' ->
  (forall id,
    ((exists nd', cfind (cn (collect KBdd terms nl s')) id = Some nd') <->
     (exists nd, cfind (cn s) id = Some nd) /\
     (exists o, In o (cown s) /\ creach (cn s) (eref (snd o)) (RN id))) /\
    (forall nd', cfind (cn (collect KBdd terms nl s')) id = Some nd' ->
       exists nd, cfind (cn s) id = Some nd /\ cl nd' = cl nd /\ cch nd' = cch nd)) /\
  (forall id, cfind (cn (collect KBdd terms nl s')) id = cfind (cn (collect KBdd terms nl s)) id) /\
  Permutation (cown (collect KBdd terms nl s')) (cown s).
Proof. exact own_err_collect_quant. Qed.
Print Assumptions C14_own_err_collect_quant.

(* the seeded slip of substitute_prepare (vector guard created only for the final Ok):
   x0[x0 := x2] on a table without the variable node of level 1, 2 slots: the cloned
   replacement edge is leaked - one token more, and after the collection x2 has count 2
   where a collection of the state before gives 1; the code's placement fails on the same
   input and satisfies BALANCE *)
Theorem C14_own_balance_late_vec_refuted : forall p,
  (match substitute_on ex_terms 3 0 2 p guards_late_vec ex2o (RN 2) [Some (RN 1); None] with
   | OErr s' _ =>
       ~ Permutation (cown s') (cown ex2o) /\
       length (cown s') = S (length (cown ex2o)) /\
       option_map crc (cfind (cn (collect KBdd ex_terms 3 s')) 1%positive) = Some 2%N /\
       option_map crc (cfind (cn (collect KBdd ex_terms 3 ex2o)) 1%positive) = Some 1%N
   | _ => False
   end) /\
  own_post ex_terms 3 0 unit ex2o
    (substitute_on ex_terms 3 0 2 p guards_code ex2o (RN 2) [Some (RN 1); None]) /\
  ores_code (substitute_on ex_terms 3 0 2 p guards_code ex2o (RN 2) [Some (RN 1); None]) = 1.
Proof. exact own_balance_late_vec_refuted. Qed.
Print Assumptions C14_own_balance_late_vec_refuted.

Theorem C14_own_example_subst_quant :
  CInv KBdd ex_terms 3 ex2o /\
  (forall p, map (fun cap => oout (substitute_on ex_terms 3 0 cap p guards_code ex2o (RN 2) [Some (RN 1); None])) [2; 3] =
     [(1, Some 2, Some 2, None, Some true); (0, Some 3, Some 3, Some (RN 1), Some true)]) /\
  map (fun cap => oout (quant_on ex_terms 3 0 cap false guards_code ex3o QUnique (RN 6) (RN 3))) [6; 7; 8] =
  [(1, Some 6, Some 5, None, Some true); (1, Some 7, Some 5, None, Some true);
   (0, Some 8, Some 6, Some (RN 8), Some true)].
Proof. exact ex_subst_quant. Qed.
Print Assumptions C14_own_example_subst_quant.

(** ** 11. C14y - the same statements for the other rule sets.  Models: Mgr/OomBcdd.v
    (complement-edge BDD: capply_op_c = the 8 operators through apply_bin::<And/Xor> and tag
    flips, capply_ite_c, negation = a tag flip), Mgr/OomZbdd.v (ZBDD: zapply_c = union /
    intersection / difference, zapply_not_c, zapply_op_c = the 8 Boolean operators incl.
    symmetric difference and the two-phase nand / nor / equiv, zapply_ite_c with its
    binary_ternary recursion), Mgr/OomMtbdd.v (MTBDD: mt_apply_bin_c for the 6 arithmetic
    operators, mt_apply_ite_c, mt_restrict_c, constants, variables; TWO budgets: [cap] inner
    nodes and [tcap] terminals - get_terminal fails iff the value is new and all terminal
    slots are in use; the MTBDD code has no recursor: always sequential).  All in the error
    monad [gres] of Mgr/OomGen.v: [GOk s' c' r] / [GOom s' c'] = Err(OutOfMemory) with the
    table and cache at the point of failure / [GStuck] = panic or divergence.  Unbounded
    models and their C02 / C09 / C10 theorems: DD/ApplyBcdd*.v, DD/Zbdd*.v, DD/ApplyMtbdd*.v. *)
From OxiVerif Require Import DD.ApplyBcdd DD.ApplyBcddProofs DD.ApplyBcddIte DD.ApplyBcddEval DD.ApplyBcddExamples.
From OxiVerif Require Import DD.FamSpec DD.FamSpecProofs DD.ZbddOps DD.ZbddOpsProofs DD.ZbddBool DD.ZbddBoolProofs DD.ZbddExamples DD.ZbddBoolExamples.
From OxiVerif Require Import Num.I64 DD.ApplyMtbdd DD.ApplyMtbddBase DD.ApplyMtbddProofs DD.ApplyMtbddTop DD.ApplyMtbddExamples.
From OxiVerif Require Import Mgr.OomGen Mgr.OomGenProofs.
From OxiVerif Require Import Mgr.OomBcdd Mgr.OomBcddProofs Mgr.OomBcddSafe Mgr.OomBcddExamples.
From OxiVerif Require Import Mgr.OomZbdd Mgr.OomZbddProofs Mgr.OomZbddSafe Mgr.OomZbddThms Mgr.OomZbddExamples.
From OxiVerif Require Import Mgr.OomMtbdd Mgr.OomMtbddProofs Mgr.OomMtbddSafe Mgr.OomMtbddExamples.

(** *** 11.1 BCDD (edges = reference + complement tag; the value of an edge under a choice
    is [semc]) *)

(* never a wrong edge: a result of the bounded run is literally the result of the unbounded run *)

Theorem C14_bcdd_never_wrong_op : forall lt C cget cadd cap par o fuel s (c : C) f g s' c' r,
  capply_op_c lt C cget cadd cap par fuel s c o f g = GOk s' c' r ->
  capply_op lt C cget cadd fuel s c o f g = Some (s', c', r).
Proof. exact coom_never_wrong_op. Qed.
Print Assumptions C14_bcdd_never_wrong_op.

Theorem C14_bcdd_never_wrong_ite : forall lt C cget cadd cap par fuel s (c : C) f g h s' c' r,
  capply_ite_c lt C cget cadd cap par fuel s c f g h = GOk s' c' r ->
  capply_ite lt C cget cadd fuel s c f g h = Some (s', c', r).
Proof. exact coom_never_wrong_ite. Qed.
Print Assumptions C14_bcdd_never_wrong_ite.

Theorem C14_bcdd_not_total : forall C s (c : C) f,
  capply_not_c C s c f = GOk s c (enot f) /\ capply_not C s c f = Some (s, c, enot f).
Proof. exact coom_not_total. Qed.
Print Assumptions C14_bcdd_not_total.

Theorem C14_bcdd_never_wrong_op_sem : forall lt C cget cadd, lossyC cget cadd ->
  forall cap par o fuel s (c : C) f g s' c' r,
  BcOK s -> CacheOKC cget s c -> ref_ok s (eref f) -> ref_ok s (eref g) -> S (nlevels s) <= fuel ->
  capply_op_c lt C cget cadd cap par fuel s c o f g = GOk s' c' r ->
  BcOK s' /\ CacheOKC cget s' c' /\ intact_c s s' /\ ref_ok s' (eref r) /\
  forall c0, bchoice c0 -> exists x y,
    semc s (S (nlevels s)) f c0 = Some x /\ semc s (S (nlevels s)) g c0 = Some y /\
    semc s' (S (nlevels s')) r c0 = Some (eval_bop o x y).
Proof. exact coom_never_wrong_op_sem. Qed.
Print Assumptions C14_bcdd_never_wrong_op_sem.

Theorem C14_bcdd_never_wrong_ite_sem : forall lt C cget cadd, lossyC cget cadd ->
  forall cap par fuel s (c : C) f g h s' c' r,
  BcOK s -> CacheOKC cget s c -> ref_ok s (eref f) -> ref_ok s (eref g) -> ref_ok s (eref h) ->
  S (nlevels s) <= fuel ->
  capply_ite_c lt C cget cadd cap par fuel s c f g h = GOk s' c' r ->
  BcOK s' /\ CacheOKC cget s' c' /\ intact_c s s' /\ ref_ok s' (eref r) /\
  forall c0, bchoice c0 -> exists x y z,
    semc s (S (nlevels s)) f c0 = Some x /\ semc s (S (nlevels s)) g c0 = Some y /\
    semc s (S (nlevels s)) h c0 = Some z /\
    semc s' (S (nlevels s')) r c0 = Some (if x then y else z).
Proof. exact coom_never_wrong_ite_sem. Qed.
Print Assumptions C14_bcdd_never_wrong_ite_sem.

(* after Err(OutOfMemory): a well-formed BCDD table with a correct cache that extends the old one;
   everything that existed is intact; the store is full *)

Theorem C14_bcdd_safe_op : forall lt C cget cadd, lossyC cget cadd ->
  forall cap par o fuel s (c : C) f g s' c',
  BcOK s -> CacheOKC cget s c -> ref_ok s (eref f) -> ref_ok s (eref g) -> S (nlevels s) <= fuel ->
  capply_op_c lt C cget cadd cap par fuel s c o f g = GOom s' c' ->
  BcOK s' /\ CacheOKC cget s' c' /\ extends s s' /\ intact_c s s' /\
         node_count s <= node_count s' /\ cap <= node_count s'.
Proof. exact coom_safe_op. Qed.
Print Assumptions C14_bcdd_safe_op.

Theorem C14_bcdd_safe_ite : forall lt C cget cadd, lossyC cget cadd ->
  forall cap par fuel s (c : C) f g h s' c',
  BcOK s -> CacheOKC cget s c -> ref_ok s (eref f) -> ref_ok s (eref g) -> ref_ok s (eref h) ->
  S (nlevels s) <= fuel ->
  capply_ite_c lt C cget cadd cap par fuel s c f g h = GOom s' c' ->
  BcOK s' /\ CacheOKC cget s' c' /\ extends s s' /\ intact_c s s' /\
         node_count s <= node_count s' /\ cap <= node_count s'.
Proof. exact coom_safe_ite. Qed.
Print Assumptions C14_bcdd_safe_ite.

Theorem C14_bcdd_intact_meaning : forall s s', intact_c s s' ->
  s_handles s' = s_handles s /\
  s_v2l s' = s_v2l s /\ s_l2v s' = s_l2v s /\ s_terms s' = s_terms s /\
  (forall id nd, find_node s id = Some nd -> find_node s' id = Some nd) /\
  (forall e, ref_ok s (eref e) -> ref_ok s' (eref e) /\ forall k c0, semc s' k e c0 = semc s k e c0) /\
  (forall h, In h (s_handles s) -> forall c0, sem_edge s' (snd h) c0 = sem_edge s (snd h) c0) /\
  (forall id, find_node s id = None -> ~ reachable s' (handle_refs s') (RN id)) /\
  (forall r, reachable s' (handle_refs s') r <-> reachable s (handle_refs s) r).
Proof. exact intact_c_elim. Qed.
Print Assumptions C14_bcdd_intact_meaning.

Theorem C14_bcdd_no_panic_op : forall lt C cget cadd, lossyC cget cadd ->
  forall cap par o fuel s (c : C) f g,
  BcOK s -> CacheOKC cget s c -> ref_ok s (eref f) -> ref_ok s (eref g) -> S (nlevels s) <= fuel ->
  capply_op_c lt C cget cadd cap par fuel s c o f g <> GStuck.
Proof. exact coom_no_panic_op. Qed.
Print Assumptions C14_bcdd_no_panic_op.

Theorem C14_bcdd_no_panic_ite : forall lt C cget cadd, lossyC cget cadd ->
  forall cap par fuel s (c : C) f g h,
  BcOK s -> CacheOKC cget s c -> ref_ok s (eref f) -> ref_ok s (eref g) -> ref_ok s (eref h) ->
  S (nlevels s) <= fuel ->
  capply_ite_c lt C cget cadd cap par fuel s c f g h <> GStuck.
Proof. exact coom_no_panic_ite. Qed.
Print Assumptions C14_bcdd_no_panic_ite.

(* exactness: the correct result exactly when the table of the unbounded run fits, Err with the
   manager intact otherwise; hence the outcome does not depend on the recursor *)

Theorem C14_bcdd_exact_op : forall lt C cget cadd, lossyC cget cadd ->
  forall cap par o fuel s (c : C) f g,
  BcOK s -> CacheOKC cget s c -> ref_ok s (eref f) -> ref_ok s (eref g) -> S (nlevels s) <= fuel ->
  exists su cu ru, capply_op lt C cget cadd fuel s c o f g = Some (su, cu, ru) /\
    (forall c0, bchoice c0 -> exists x y,
    semc s (S (nlevels s)) f c0 = Some x /\ semc s (S (nlevels s)) g c0 = Some y /\
    semc su (S (nlevels su)) ru c0 = Some (eval_bop o x y)) /\
    (node_count su <= Nat.max cap (node_count s) -> capply_op_c lt C cget cadd cap par fuel s c o f g = GOk su cu ru) /\
    (Nat.max cap (node_count s) < node_count su ->
       exists s' c', capply_op_c lt C cget cadd cap par fuel s c o f g = GOom s' c' /\
         BcOK s' /\ CacheOKC cget s' c' /\ extends s s' /\ intact_c s s' /\
         node_count s <= node_count s' /\ cap <= node_count s').
Proof. exact coom_exact_op. Qed.
Print Assumptions C14_bcdd_exact_op.

Theorem C14_bcdd_exact_ite : forall lt C cget cadd, lossyC cget cadd ->
  forall cap par fuel s (c : C) f g h,
  BcOK s -> CacheOKC cget s c -> ref_ok s (eref f) -> ref_ok s (eref g) -> ref_ok s (eref h) ->
  S (nlevels s) <= fuel ->
  exists su cu ru, capply_ite lt C cget cadd fuel s c f g h = Some (su, cu, ru) /\
    (forall c0, bchoice c0 -> exists x y z,
    semc s (S (nlevels s)) f c0 = Some x /\ semc s (S (nlevels s)) g c0 = Some y /\
    semc s (S (nlevels s)) h c0 = Some z /\
    semc su (S (nlevels su)) ru c0 = Some (if x then y else z)) /\
    (node_count su <= Nat.max cap (node_count s) -> capply_ite_c lt C cget cadd cap par fuel s c f g h = GOk su cu ru) /\
    (Nat.max cap (node_count s) < node_count su ->
       exists s' c', capply_ite_c lt C cget cadd cap par fuel s c f g h = GOom s' c' /\
         BcOK s' /\ CacheOKC cget s' c' /\ extends s s' /\ intact_c s s' /\
         node_count s <= node_count s' /\ cap <= node_count s').
Proof. exact coom_exact_ite. Qed.
Print Assumptions C14_bcdd_exact_ite.

Theorem C14_bcdd_outcome_recursor_indep_op : forall lt C cget cadd, lossyC cget cadd ->
  forall cap par par' o fuel s (c : C) f g,
  BcOK s -> CacheOKC cget s c -> ref_ok s (eref f) -> ref_ok s (eref g) -> S (nlevels s) <= fuel ->
  gres_code (capply_op_c lt C cget cadd cap par fuel s c o f g) =
  gres_code (capply_op_c lt C cget cadd cap par' fuel s c o f g).
Proof. exact coom_outcome_recursor_indep_op. Qed.
Print Assumptions C14_bcdd_outcome_recursor_indep_op.

Theorem C14_bcdd_outcome_recursor_indep_ite : forall lt C cget cadd, lossyC cget cadd ->
  forall cap par par' fuel s (c : C) f g h,
  BcOK s -> CacheOKC cget s c -> ref_ok s (eref f) -> ref_ok s (eref g) -> ref_ok s (eref h) ->
  S (nlevels s) <= fuel ->
  gres_code (capply_ite_c lt C cget cadd cap par fuel s c f g h) =
  gres_code (capply_ite_c lt C cget cadd cap par' fuel s c f g h).
Proof. exact coom_outcome_recursor_indep_ite. Qed.
Print Assumptions C14_bcdd_outcome_recursor_indep_ite.

(* retry and monotonicity (no hypothesis) *)

Theorem C14_bcdd_retry_op : forall lt C cget cadd cap par o fuel s (c : C) f g su cu ru,
  capply_op lt C cget cadd fuel s c o f g = Some (su, cu, ru) -> node_count su <= cap ->
  capply_op_c lt C cget cadd cap par fuel s c o f g = GOk su cu ru.
Proof. exact coom_retry_op. Qed.
Print Assumptions C14_bcdd_retry_op.

Theorem C14_bcdd_retry_ite : forall lt C cget cadd cap par fuel s (c : C) f g h su cu ru,
  capply_ite lt C cget cadd fuel s c f g h = Some (su, cu, ru) -> node_count su <= cap ->
  capply_ite_c lt C cget cadd cap par fuel s c f g h = GOk su cu ru.
Proof. exact coom_retry_ite. Qed.
Print Assumptions C14_bcdd_retry_ite.

Theorem C14_bcdd_monotone_op : forall lt C cget cadd cap cap' par par' o fuel s (c : C) f g s' c' r, cap <= cap' ->
  capply_op_c lt C cget cadd cap par fuel s c o f g = GOk s' c' r ->
  capply_op_c lt C cget cadd cap' par' fuel s c o f g = GOk s' c' r.
Proof. exact coom_monotone_op. Qed.
Print Assumptions C14_bcdd_monotone_op.

Theorem C14_bcdd_monotone_ite : forall lt C cget cadd cap cap' par par' fuel s (c : C) f g h s' c' r, cap <= cap' ->
  capply_ite_c lt C cget cadd cap par fuel s c f g h = GOk s' c' r ->
  capply_ite_c lt C cget cadd cap' par' fuel s c f g h = GOk s' c' r.
Proof. exact coom_monotone_ite. Qed.
Print Assumptions C14_bcdd_monotone_ite.

(* variable creation: one insertion; on failure the manager is untouched *)

Theorem C14_bcdd_var_exact : forall cap s v neg, BcOK s -> v < nlevels s ->
  exists s' r, cmk_var s v neg = Some (s', r) /\ BcOK s' /\ extends s s' /\ ref_ok s' (eref r) /\
    (forall a, cbfun_of s' r a = xorb neg (var_s v a)) /\
    (node_count s' <= Nat.max cap (node_count s) -> cmk_var_cap cap s v neg = Some (Some (s', r))) /\
    (Nat.max cap (node_count s) < node_count s' ->
       cmk_var_cap cap s v neg = Some None /\ cap <= node_count s).
Proof. exact coom_var_exact. Qed.
Print Assumptions C14_bcdd_var_exact.

Theorem C14_bcdd_var_never_wrong : forall cap s v neg s' r,
  cmk_var_cap cap s v neg = Some (Some (s', r)) -> cmk_var s v neg = Some (s', r).
Proof. exact coom_var_never_wrong. Qed.
Print Assumptions C14_bcdd_var_never_wrong.

(* non-vacuity: a concrete table (3 levels, 6 nodes, 5 handles, exact counts); every outcome occurs;
   the recursors differ in the cache of the failed run; the exactness theorem instantiated *)

Theorem C14_bcdd_example_table : BcOK exc3 /\ rc_exact_b exc3 [] = true /\ node_count exc3 = 6.
Proof. exact exc3_ok. Qed.
Print Assumptions C14_bcdd_example_table.

Theorem C14_bcdd_example_xor : forall p,
  map (fun cap => cout (cop_nc cap p exc3 OXor (ce 5) (ce 2))) [0; 6; 7; 8; 9] =
  [(1, Some 6, None); (1, Some 6, None); (1, Some 7, None);
   (0, Some 8, Some (mkEdge (RN 8) true)); (0, Some 8, Some (mkEdge (RN 8) true))].
Proof. exact exc3_xor. Qed.
Print Assumptions C14_bcdd_example_xor.

Theorem C14_bcdd_example_ite : forall p,
  map (fun cap => cout (cite_nc cap p exc3 (ce 2) (ce 5) (enot (ce 1)))) [0; 6; 7; 8; 9; 10] =
  [(1, Some 6, None); (1, Some 6, None); (1, Some 7, None); (1, Some 8, None);
   (0, Some 9, Some (mkEdge (RN 9) false)); (0, Some 9, Some (mkEdge (RN 9) false))].
Proof. exact exc3_ite. Qed.
Print Assumptions C14_bcdd_example_ite.

Theorem C14_bcdd_example_recursors : let run p := capply_op_c lt_id eacache eac_get eac_add 6 (fun _ => p) 4 exc3 [] OOr (ce 6) (ce 1) in
  (gres_code (run false), ccache_of (run false)) = (1, Some []) /\
  (gres_code (run true), ccache_of (run true)) =
    (1, Some [(0%N, [mkEdge (RN 1) true; mkEdge (RN 4) true], mkEdge (RN 1) true)]).
Proof. exact exc3_recursors. Qed.
Print Assumptions C14_bcdd_example_recursors.

Theorem C14_bcdd_example_exact : forall cap p,
  (8 <= cap -> gres_code (cop_nc cap p exc3 OXor (ce 5) (ce 2)) = 0) /\
  (cap < 8 -> exists s' c', cop_nc cap p exc3 OXor (ce 5) (ce 2) = GOom s' c' /\
     BcOK s' /\ CacheOKC enc_get s' c' /\ extends exc3 s' /\ intact_c exc3 s' /\
     node_count exc3 <= node_count s' /\ cap <= node_count s').
Proof. exact exc3_exact_consequence. Qed.
Print Assumptions C14_bcdd_example_exact.


(** *** 11.2 ZBDD (references; a family of sets [fam_of] resp. the Boolean value [semz] of a
    reference under a choice; invariant: [ZbddOK], the tautology chain [ZChainOK], [ZCacheOKB]) *)

(* never a wrong reference *)

Theorem C14_zbdd_never_wrong_set : forall gt C cget cadd cap par op fuel s (c : C) f g s' c' r,
  zapply_c gt C cget cadd cap par fuel s c op f g = GOk s' c' r ->
  zapply gt C cget cadd fuel s c op f g = Some (s', c', r).
Proof. exact zoom_never_wrong_set. Qed.
Print Assumptions C14_zbdd_never_wrong_set.

Theorem C14_zbdd_never_wrong_not : forall gt C cget cadd cap par fuel s (c : C) f s' c' r,
  zapply_not_c gt C cget cadd cap par fuel s c f = GOk s' c' r ->
  zapply_not gt C cget cadd fuel s c f = Some (s', c', r).
Proof. exact zoom_never_wrong_not. Qed.
Print Assumptions C14_zbdd_never_wrong_not.

Theorem C14_zbdd_never_wrong_op : forall gt C cget cadd cap par op fuel s (c : C) f g s' c' r,
  zapply_op_c gt C cget cadd cap par fuel s c op f g = GOk s' c' r ->
  zapply_op gt C cget cadd fuel s c op f g = Some (s', c', r).
Proof. exact zoom_never_wrong_op. Qed.
Print Assumptions C14_zbdd_never_wrong_op.

Theorem C14_zbdd_never_wrong_ite : forall gt C cget cadd cap par fuel s (c : C) f g h s' c' r,
  zapply_ite_c gt C cget cadd cap par fuel s c f g h = GOk s' c' r ->
  zapply_ite gt C cget cadd fuel s c f g h = Some (s', c', r).
Proof. exact zoom_never_wrong_ite. Qed.
Print Assumptions C14_zbdd_never_wrong_ite.

Theorem C14_zbdd_never_wrong_set_sem : forall gt C cget cadd, zlossy C cget cadd ->
  forall cap par op fuel s (c : C) f g s' c' r,
  ZbddOK s -> ZChainOK s -> ZCacheOKB C cget s c -> ref_ok s f -> ref_ok s g -> S (nlevels s) <= fuel ->
  zapply_c gt C cget cadd cap par fuel s c op f g = GOk s' c' r ->
  ZbddOK s' /\ ZChainOK s' /\ ZCacheOKB C cget s' c' /\ intact_z s s' /\ ref_ok s' r /\
  exists F G R, fam_of s f = Some F /\ fam_of s g = Some G /\ fam_of s' r = Some R /\ feq R (f_bin op F G).
Proof. exact zoom_never_wrong_set_sem. Qed.
Print Assumptions C14_zbdd_never_wrong_set_sem.

Theorem C14_zbdd_never_wrong_not_sem : forall gt C cget cadd, zlossy C cget cadd ->
  forall cap par fuel s (c : C) f s' c' r,
  ZbddOK s -> ZChainOK s -> ZCacheOKB C cget s c -> ref_ok s f -> S (nlevels s) <= fuel ->
  zapply_not_c gt C cget cadd cap par fuel s c f = GOk s' c' r ->
  ZbddOK s' /\ ZChainOK s' /\ ZCacheOKB C cget s' c' /\ intact_z s s' /\ ref_ok s' r /\
  forall c0, choice_ok s c0 ->
    exists bf, semz s (S (nlevels s)) 0 f c0 = Some bf /\ semz s' (S (nlevels s')) 0 r c0 = Some (negb bf).
Proof. exact zoom_never_wrong_not_sem. Qed.
Print Assumptions C14_zbdd_never_wrong_not_sem.

Theorem C14_zbdd_never_wrong_op_sem : forall gt C cget cadd, zlossy C cget cadd ->
  forall cap par op fuel s (c : C) f g s' c' r,
  ZbddOK s -> ZChainOK s -> ZCacheOKB C cget s c -> ref_ok s f -> ref_ok s g -> S (nlevels s) <= fuel ->
  zapply_op_c gt C cget cadd cap par fuel s c op f g = GOk s' c' r ->
  ZbddOK s' /\ ZChainOK s' /\ ZCacheOKB C cget s' c' /\ intact_z s s' /\ ref_ok s' r /\
  forall c0, choice_ok s c0 ->
    exists bf bg, semz s (S (nlevels s)) 0 f c0 = Some bf /\ semz s (S (nlevels s)) 0 g c0 = Some bg /\
      semz s' (S (nlevels s')) 0 r c0 = Some (eval_bop op bf bg).
Proof. exact zoom_never_wrong_op_sem. Qed.
Print Assumptions C14_zbdd_never_wrong_op_sem.

Theorem C14_zbdd_never_wrong_ite_sem : forall gt C cget cadd, zlossy C cget cadd ->
  forall cap par fuel s (c : C) f g h s' c' r,
  ZbddOK s -> ZChainOK s -> ZCacheOKB C cget s c -> ref_ok s f -> ref_ok s g -> ref_ok s h ->
  S (nlevels s) <= fuel ->
  zapply_ite_c gt C cget cadd cap par fuel s c f g h = GOk s' c' r ->
  ZbddOK s' /\ ZChainOK s' /\ ZCacheOKB C cget s' c' /\ intact_z s s' /\ ref_ok s' r /\
  forall c0, choice_ok s c0 ->
    exists bf bg bh, semz s (S (nlevels s)) 0 f c0 = Some bf /\ semz s (S (nlevels s)) 0 g c0 = Some bg /\
      semz s (S (nlevels s)) 0 h c0 = Some bh /\
      semz s' (S (nlevels s')) 0 r c0 = Some (if bf then bg else bh).
Proof. exact zoom_never_wrong_ite_sem. Qed.
Print Assumptions C14_zbdd_never_wrong_ite_sem.

(* after Err(OutOfMemory) *)

Theorem C14_zbdd_safe_set : forall gt C cget cadd, zlossy C cget cadd ->
  forall cap par op fuel s (c : C) f g s' c',
  ZbddOK s -> ZChainOK s -> ZCacheOKB C cget s c -> ref_ok s f -> ref_ok s g -> S (nlevels s) <= fuel ->
  zapply_c gt C cget cadd cap par fuel s c op f g = GOom s' c' ->
  ZbddOK s' /\ ZChainOK s' /\ ZCacheOKB C cget s' c' /\ extends s s' /\ intact_z s s' /\
         node_count s <= node_count s' /\ cap <= node_count s'.
Proof. exact zoom_safe_set. Qed.
Print Assumptions C14_zbdd_safe_set.

Theorem C14_zbdd_safe_not : forall gt C cget cadd, zlossy C cget cadd ->
  forall cap par fuel s (c : C) f s' c',
  ZbddOK s -> ZChainOK s -> ZCacheOKB C cget s c -> ref_ok s f -> S (nlevels s) <= fuel ->
  zapply_not_c gt C cget cadd cap par fuel s c f = GOom s' c' ->
  ZbddOK s' /\ ZChainOK s' /\ ZCacheOKB C cget s' c' /\ extends s s' /\ intact_z s s' /\
         node_count s <= node_count s' /\ cap <= node_count s'.
Proof. exact zoom_safe_not. Qed.
Print Assumptions C14_zbdd_safe_not.

Theorem C14_zbdd_safe_op : forall gt C cget cadd, zlossy C cget cadd ->
  forall cap par op fuel s (c : C) f g s' c',
  ZbddOK s -> ZChainOK s -> ZCacheOKB C cget s c -> ref_ok s f -> ref_ok s g -> S (nlevels s) <= fuel ->
  zapply_op_c gt C cget cadd cap par fuel s c op f g = GOom s' c' ->
  ZbddOK s' /\ ZChainOK s' /\ ZCacheOKB C cget s' c' /\ extends s s' /\ intact_z s s' /\
         node_count s <= node_count s' /\ cap <= node_count s'.
Proof. exact zoom_safe_op. Qed.
Print Assumptions C14_zbdd_safe_op.

Theorem C14_zbdd_safe_ite : forall gt C cget cadd, zlossy C cget cadd ->
  forall cap par fuel s (c : C) f g h s' c',
  ZbddOK s -> ZChainOK s -> ZCacheOKB C cget s c -> ref_ok s f -> ref_ok s g -> ref_ok s h ->
  S (nlevels s) <= fuel ->
  zapply_ite_c gt C cget cadd cap par fuel s c f g h = GOom s' c' ->
  ZbddOK s' /\ ZChainOK s' /\ ZCacheOKB C cget s' c' /\ extends s s' /\ intact_z s s' /\
         node_count s <= node_count s' /\ cap <= node_count s'.
Proof. exact zoom_safe_ite. Qed.
Print Assumptions C14_zbdd_safe_ite.

Theorem C14_zbdd_intact_meaning : forall s s', intact_z s s' ->
  s_handles s' = s_handles s /\
  s_v2l s' = s_v2l s /\ s_l2v s' = s_l2v s /\ s_terms s' = s_terms s /\
  (forall id nd, find_node s id = Some nd -> find_node s' id = Some nd) /\
  (forall r, ref_ok s r -> ref_ok s' r /\ forall k lvl c0, semz s' k lvl r c0 = semz s k lvl r c0) /\
  (forall h, In h (s_handles s) -> forall c0, sem_edge s' (snd h) c0 = sem_edge s (snd h) c0) /\
  (forall id, find_node s id = None -> ~ reachable s' (handle_refs s') (RN id)) /\
  (forall r, reachable s' (handle_refs s') r <-> reachable s (handle_refs s) r).
Proof. exact intact_z_elim. Qed.
Print Assumptions C14_zbdd_intact_meaning.

(* no panic, no divergence *)

Theorem C14_zbdd_no_panic_set : forall gt C cget cadd, zlossy C cget cadd ->
  forall cap par op fuel s (c : C) f g,
  ZbddOK s -> ZChainOK s -> ZCacheOKB C cget s c -> ref_ok s f -> ref_ok s g -> S (nlevels s) <= fuel ->
  zapply_c gt C cget cadd cap par fuel s c op f g <> GStuck.
Proof. exact zoom_no_panic_set. Qed.
Print Assumptions C14_zbdd_no_panic_set.

Theorem C14_zbdd_no_panic_not : forall gt C cget cadd, zlossy C cget cadd ->
  forall cap par fuel s (c : C) f,
  ZbddOK s -> ZChainOK s -> ZCacheOKB C cget s c -> ref_ok s f -> S (nlevels s) <= fuel ->
  zapply_not_c gt C cget cadd cap par fuel s c f <> GStuck.
Proof. exact zoom_no_panic_not. Qed.
Print Assumptions C14_zbdd_no_panic_not.

Theorem C14_zbdd_no_panic_op : forall gt C cget cadd, zlossy C cget cadd ->
  forall cap par op fuel s (c : C) f g,
  ZbddOK s -> ZChainOK s -> ZCacheOKB C cget s c -> ref_ok s f -> ref_ok s g -> S (nlevels s) <= fuel ->
  zapply_op_c gt C cget cadd cap par fuel s c op f g <> GStuck.
Proof. exact zoom_no_panic_op. Qed.
Print Assumptions C14_zbdd_no_panic_op.

Theorem C14_zbdd_no_panic_ite : forall gt C cget cadd, zlossy C cget cadd ->
  forall cap par fuel s (c : C) f g h,
  ZbddOK s -> ZChainOK s -> ZCacheOKB C cget s c -> ref_ok s f -> ref_ok s g -> ref_ok s h ->
  S (nlevels s) <= fuel ->
  zapply_ite_c gt C cget cadd cap par fuel s c f g h <> GStuck.
Proof. exact zoom_no_panic_ite. Qed.
Print Assumptions C14_zbdd_no_panic_ite.

(* exactness; the outcome does not depend on the recursor *)

Theorem C14_zbdd_exact_set : forall gt C cget cadd, zlossy C cget cadd ->
  forall cap par op fuel s (c : C) f g,
  ZbddOK s -> ZChainOK s -> ZCacheOKB C cget s c -> ref_ok s f -> ref_ok s g -> S (nlevels s) <= fuel ->
  exists su cu ru, zapply gt C cget cadd fuel s c op f g = Some (su, cu, ru) /\
    (exists F G R, fam_of s f = Some F /\ fam_of s g = Some G /\ fam_of su ru = Some R /\ feq R (f_bin op F G)) /\
    (node_count su <= Nat.max cap (node_count s) -> zapply_c gt C cget cadd cap par fuel s c op f g = GOk su cu ru) /\
    (Nat.max cap (node_count s) < node_count su ->
       exists s' c', zapply_c gt C cget cadd cap par fuel s c op f g = GOom s' c' /\
         ZbddOK s' /\ ZChainOK s' /\ ZCacheOKB C cget s' c' /\ extends s s' /\ intact_z s s' /\
         node_count s <= node_count s' /\ cap <= node_count s').
Proof. exact zoom_exact_set. Qed.
Print Assumptions C14_zbdd_exact_set.

Theorem C14_zbdd_exact_not : forall gt C cget cadd, zlossy C cget cadd ->
  forall cap par fuel s (c : C) f,
  ZbddOK s -> ZChainOK s -> ZCacheOKB C cget s c -> ref_ok s f -> S (nlevels s) <= fuel ->
  exists su cu ru, zapply_not gt C cget cadd fuel s c f = Some (su, cu, ru) /\
    (forall c0, choice_ok s c0 ->
    exists bf, semz s (S (nlevels s)) 0 f c0 = Some bf /\ semz su (S (nlevels su)) 0 ru c0 = Some (negb bf)) /\
    (node_count su <= Nat.max cap (node_count s) -> zapply_not_c gt C cget cadd cap par fuel s c f = GOk su cu ru) /\
    (Nat.max cap (node_count s) < node_count su ->
       exists s' c', zapply_not_c gt C cget cadd cap par fuel s c f = GOom s' c' /\
         ZbddOK s' /\ ZChainOK s' /\ ZCacheOKB C cget s' c' /\ extends s s' /\ intact_z s s' /\
         node_count s <= node_count s' /\ cap <= node_count s').
Proof. exact zoom_exact_not. Qed.
Print Assumptions C14_zbdd_exact_not.

Theorem C14_zbdd_exact_op : forall gt C cget cadd, zlossy C cget cadd ->
  forall cap par op fuel s (c : C) f g,
  ZbddOK s -> ZChainOK s -> ZCacheOKB C cget s c -> ref_ok s f -> ref_ok s g -> S (nlevels s) <= fuel ->
  exists su cu ru, zapply_op gt C cget cadd fuel s c op f g = Some (su, cu, ru) /\
    (forall c0, choice_ok s c0 ->
    exists bf bg, semz s (S (nlevels s)) 0 f c0 = Some bf /\ semz s (S (nlevels s)) 0 g c0 = Some bg /\
      semz su (S (nlevels su)) 0 ru c0 = Some (eval_bop op bf bg)) /\
    (node_count su <= Nat.max cap (node_count s) -> zapply_op_c gt C cget cadd cap par fuel s c op f g = GOk su cu ru) /\
    (Nat.max cap (node_count s) < node_count su ->
       exists s' c', zapply_op_c gt C cget cadd cap par fuel s c op f g = GOom s' c' /\
         ZbddOK s' /\ ZChainOK s' /\ ZCacheOKB C cget s' c' /\ extends s s' /\ intact_z s s' /\
         node_count s <= node_count s' /\ cap <= node_count s').
Proof. exact zoom_exact_op. Qed.
Print Assumptions C14_zbdd_exact_op.

Theorem C14_zbdd_exact_ite : forall gt C cget cadd, zlossy C cget cadd ->
  forall cap par fuel s (c : C) f g h,
  ZbddOK s -> ZChainOK s -> ZCacheOKB C cget s c -> ref_ok s f -> ref_ok s g -> ref_ok s h ->
  S (nlevels s) <= fuel ->
  exists su cu ru, zapply_ite gt C cget cadd fuel s c f g h = Some (su, cu, ru) /\
    (forall c0, choice_ok s c0 ->
    exists bf bg bh, semz s (S (nlevels s)) 0 f c0 = Some bf /\ semz s (S (nlevels s)) 0 g c0 = Some bg /\
      semz s (S (nlevels s)) 0 h c0 = Some bh /\
      semz su (S (nlevels su)) 0 ru c0 = Some (if bf then bg else bh)) /\
    (node_count su <= Nat.max cap (node_count s) -> zapply_ite_c gt C cget cadd cap par fuel s c f g h = GOk su cu ru) /\
    (Nat.max cap (node_count s) < node_count su ->
       exists s' c', zapply_ite_c gt C cget cadd cap par fuel s c f g h = GOom s' c' /\
         ZbddOK s' /\ ZChainOK s' /\ ZCacheOKB C cget s' c' /\ extends s s' /\ intact_z s s' /\
         node_count s <= node_count s' /\ cap <= node_count s').
Proof. exact zoom_exact_ite. Qed.
Print Assumptions C14_zbdd_exact_ite.

Theorem C14_zbdd_outcome_recursor_indep_set : forall gt C cget cadd, zlossy C cget cadd ->
  forall cap par par' op fuel s (c : C) f g,
  ZbddOK s -> ZChainOK s -> ZCacheOKB C cget s c -> ref_ok s f -> ref_ok s g -> S (nlevels s) <= fuel ->
  gres_code (zapply_c gt C cget cadd cap par fuel s c op f g) =
  gres_code (zapply_c gt C cget cadd cap par' fuel s c op f g).
Proof. exact zoom_outcome_recursor_indep_set. Qed.
Print Assumptions C14_zbdd_outcome_recursor_indep_set.

Theorem C14_zbdd_outcome_recursor_indep_not : forall gt C cget cadd, zlossy C cget cadd ->
  forall cap par par' fuel s (c : C) f,
  ZbddOK s -> ZChainOK s -> ZCacheOKB C cget s c -> ref_ok s f -> S (nlevels s) <= fuel ->
  gres_code (zapply_not_c gt C cget cadd cap par fuel s c f) =
  gres_code (zapply_not_c gt C cget cadd cap par' fuel s c f).
Proof. exact zoom_outcome_recursor_indep_not. Qed.
Print Assumptions C14_zbdd_outcome_recursor_indep_not.

Theorem C14_zbdd_outcome_recursor_indep_op : forall gt C cget cadd, zlossy C cget cadd ->
  forall cap par par' op fuel s (c : C) f g,
  ZbddOK s -> ZChainOK s -> ZCacheOKB C cget s c -> ref_ok s f -> ref_ok s g -> S (nlevels s) <= fuel ->
  gres_code (zapply_op_c gt C cget cadd cap par fuel s c op f g) =
  gres_code (zapply_op_c gt C cget cadd cap par' fuel s c op f g).
Proof. exact zoom_outcome_recursor_indep_op. Qed.
Print Assumptions C14_zbdd_outcome_recursor_indep_op.

Theorem C14_zbdd_outcome_recursor_indep_ite : forall gt C cget cadd, zlossy C cget cadd ->
  forall cap par par' fuel s (c : C) f g h,
  ZbddOK s -> ZChainOK s -> ZCacheOKB C cget s c -> ref_ok s f -> ref_ok s g -> ref_ok s h ->
  S (nlevels s) <= fuel ->
  gres_code (zapply_ite_c gt C cget cadd cap par fuel s c f g h) =
  gres_code (zapply_ite_c gt C cget cadd cap par' fuel s c f g h).
Proof. exact zoom_outcome_recursor_indep_ite. Qed.
Print Assumptions C14_zbdd_outcome_recursor_indep_ite.

(* retry and monotonicity (no hypothesis) *)

Theorem C14_zbdd_retry_set : forall gt C cget cadd cap par op fuel s (c : C) f g su cu ru,
  zapply gt C cget cadd fuel s c op f g = Some (su, cu, ru) -> node_count su <= cap ->
  zapply_c gt C cget cadd cap par fuel s c op f g = GOk su cu ru.
Proof. exact zoom_retry_set. Qed.
Print Assumptions C14_zbdd_retry_set.

Theorem C14_zbdd_retry_not : forall gt C cget cadd cap par fuel s (c : C) f su cu ru,
  zapply_not gt C cget cadd fuel s c f = Some (su, cu, ru) -> node_count su <= cap ->
  zapply_not_c gt C cget cadd cap par fuel s c f = GOk su cu ru.
Proof. exact zoom_retry_not. Qed.
Print Assumptions C14_zbdd_retry_not.

Theorem C14_zbdd_retry_op : forall gt C cget cadd cap par op fuel s (c : C) f g su cu ru,
  zapply_op gt C cget cadd fuel s c op f g = Some (su, cu, ru) -> node_count su <= cap ->
  zapply_op_c gt C cget cadd cap par fuel s c op f g = GOk su cu ru.
Proof. exact zoom_retry_op. Qed.
Print Assumptions C14_zbdd_retry_op.

Theorem C14_zbdd_retry_ite : forall gt C cget cadd cap par fuel s (c : C) f g h su cu ru,
  zapply_ite gt C cget cadd fuel s c f g h = Some (su, cu, ru) -> node_count su <= cap ->
  zapply_ite_c gt C cget cadd cap par fuel s c f g h = GOk su cu ru.
Proof. exact zoom_retry_ite. Qed.
Print Assumptions C14_zbdd_retry_ite.

Theorem C14_zbdd_monotone_set : forall gt C cget cadd cap cap' par par' op fuel s (c : C) f g s' c' r, cap <= cap' ->
  zapply_c gt C cget cadd cap par fuel s c op f g = GOk s' c' r ->
  zapply_c gt C cget cadd cap' par' fuel s c op f g = GOk s' c' r.
Proof. exact zoom_monotone_set. Qed.
Print Assumptions C14_zbdd_monotone_set.

Theorem C14_zbdd_monotone_not : forall gt C cget cadd cap cap' par par' fuel s (c : C) f s' c' r, cap <= cap' ->
  zapply_not_c gt C cget cadd cap par fuel s c f = GOk s' c' r ->
  zapply_not_c gt C cget cadd cap' par' fuel s c f = GOk s' c' r.
Proof. exact zoom_monotone_not. Qed.
Print Assumptions C14_zbdd_monotone_not.

Theorem C14_zbdd_monotone_op : forall gt C cget cadd cap cap' par par' op fuel s (c : C) f g s' c' r, cap <= cap' ->
  zapply_op_c gt C cget cadd cap par fuel s c op f g = GOk s' c' r ->
  zapply_op_c gt C cget cadd cap' par' fuel s c op f g = GOk s' c' r.
Proof. exact zoom_monotone_op. Qed.
Print Assumptions C14_zbdd_monotone_op.

Theorem C14_zbdd_monotone_ite : forall gt C cget cadd cap cap' par par' fuel s (c : C) f g h s' c' r, cap <= cap' ->
  zapply_ite_c gt C cget cadd cap par fuel s c f g h = GOk s' c' r ->
  zapply_ite_c gt C cget cadd cap' par' fuel s c f g h = GOk s' c' r.
Proof. exact zoom_monotone_ite. Qed.
Print Assumptions C14_zbdd_monotone_ite.

(* singleton_edge: one insertion; on failure the manager is untouched *)

Theorem C14_zbdd_singleton_exact : forall cap s var, ZbddOK s -> var < length (s_v2l s) ->
  exists vl s' r R, nth_error (s_v2l s) var = Some vl /\ zsingleton s var = Some (s', r) /\
    ZbddOK s' /\ extends s s' /\ ref_ok s' r /\ fam_of s' r = Some R /\ feq R (f_singleton vl) /\
    (node_count s' <= Nat.max cap (node_count s) -> zsingleton_cap cap s var = Some (Some (s', r))) /\
    (Nat.max cap (node_count s) < node_count s' ->
       zsingleton_cap cap s var = Some None /\ cap <= node_count s).
Proof. exact zoom_singleton_exact. Qed.
Print Assumptions C14_zbdd_singleton_exact.

Theorem C14_zbdd_singleton_never_wrong : forall cap s var s' r,
  zsingleton_cap cap s var = Some (Some (s', r)) -> zsingleton s var = Some (s', r).
Proof. exact zoom_singleton_never_wrong. Qed.
Print Assumptions C14_zbdd_singleton_never_wrong.

(* non-vacuity on the table ex_z4 (4 levels, tautology chain + 3 family nodes) *)

Theorem C14_zbdd_example_table : ZbddOK ex_z4 /\ ZChainOK ex_z4 /\ ZCacheOKB unit znc_get ex_z4 tt /\
  ZCacheOKB zacache zac_get ex_z4 [] /\ node_count ex_z4 = 7.
Proof. exact ex_z4_state. Qed.
Print Assumptions C14_zbdd_example_table.

Theorem C14_zbdd_example_not : forall p,
  map (fun cap => zout (znot_nc cap p ex_z4 (RN 3))) [0; 7; 8; 9; 10; 11; 12; 13; 14] =
  [(1, Some 7, None); (1, Some 7, None); (1, Some 8, None); (1, Some 9, None); (1, Some 10, None);
   (1, Some 11, None); (1, Some 12, None); (0, Some 13, Some (RN 13)); (0, Some 13, Some (RN 13))].
Proof. exact ex_z4_not_c. Qed.
Print Assumptions C14_zbdd_example_not.

Theorem C14_zbdd_example_recursors : let run p := zapply_op_c zgt_id zacache zac_get zac_add 7 (fun _ => p) 5 ex_z4 [] OImp (RN 3) (RN 2) in
  (gres_code (run false), zcache_of (run false)) = (1, Some []) /\
  (gres_code (run true), option_map (@length _) (zcache_of (run true))) = (1, Some 4).
Proof. exact ex_z4_recursors. Qed.
Print Assumptions C14_zbdd_example_recursors.

Theorem C14_zbdd_example_exact : forall cap p,
  (13 <= cap -> gres_code (znot_nc cap p ex_z4 (RN 3)) = 0) /\
  (cap < 13 -> exists s' c', znot_nc cap p ex_z4 (RN 3) = GOom s' c' /\
     ZbddOK s' /\ ZChainOK s' /\ ZCacheOKB unit znc_get s' c' /\ extends ex_z4 s' /\ intact_z ex_z4 s' /\
         node_count ex_z4 <= node_count s' /\ cap <= node_count s').
Proof. exact ex_z4_exact_consequence. Qed.
Print Assumptions C14_zbdd_example_exact.


(** *** 11.3 MTBDD (references; terminal values [i64v] coded in [s_terms]; two budgets) *)

(* never a wrong reference *)

Theorem C14_mt_never_wrong_bin : forall gt C cget cadd cap tcap op fuel s (c : C) f g s' c' r,
  mt_apply_bin_c gt C cget cadd cap tcap fuel s c op f g = GOk s' c' r ->
  mt_apply_bin gt C cget cadd fuel s c op f g = Some (s', c', r).
Proof. exact moom_never_wrong_bin. Qed.
Print Assumptions C14_mt_never_wrong_bin.

Theorem C14_mt_never_wrong_ite : forall C cget cadd cap fuel s (c : C) f g h s' c' r,
  mt_apply_ite_c C cget cadd cap fuel s c f g h = GOk s' c' r ->
  mt_apply_ite C cget cadd fuel s c f g h = Some (s', c', r).
Proof. exact moom_never_wrong_ite. Qed.
Print Assumptions C14_mt_never_wrong_ite.

Theorem C14_mt_never_wrong_restrict : forall C cget cadd cap fuel s (c : C) f vars s' c' r,
  mt_restrict_c C cget cadd cap fuel s c f vars = GOk s' c' r ->
  mt_restrict C cget cadd fuel s c f vars = Some (s', c', r).
Proof. exact moom_never_wrong_restrict. Qed.
Print Assumptions C14_mt_never_wrong_restrict.

Theorem C14_mt_never_wrong_bin_sem : forall gt C cget cadd, lossy cget cadd ->
  forall cap tcap op fuel s (c : C) f g s' c' r,
  MtOK s -> MCacheOK cget s c -> ref_ok s f -> ref_ok s g -> S (nlevels s) <= fuel ->
  mt_apply_bin_c gt C cget cadd cap tcap fuel s c op f g = GOk s' c' r ->
  MtOK s' /\ MCacheOK cget s' c' /\ mext s s' /\ intact_m s s' /\ ref_ok s' r /\
  forall c0, bchoice c0 -> exists x y,
    semk s (S (nlevels s)) f c0 = Some (code x) /\ semk s (S (nlevels s)) g c0 = Some (code y) /\
    semk s' (S (nlevels s')) r c0 = Some (code (mop_eval op x y)).
Proof. exact moom_never_wrong_bin_sem. Qed.
Print Assumptions C14_mt_never_wrong_bin_sem.

Theorem C14_mt_never_wrong_ite_sem : forall C cget cadd, lossy cget cadd ->
  forall cap fuel s (c : C) f g h s' c' r,
  MtOK s -> MCacheOK cget s c -> ref_ok s f -> ref_ok s g -> ref_ok s h -> S (nlevels s) <= fuel ->
  mt_apply_ite_c C cget cadd cap fuel s c f g h = GOk s' c' r ->
  MtOK s' /\ MCacheOK cget s' c' /\ mext s s' /\ intact_m s s' /\ term_count s' = term_count s /\
  ref_ok s' r /\
  forall c0, bchoice c0 -> exists x y z,
    semk s (S (nlevels s)) f c0 = Some (code x) /\ semk s (S (nlevels s)) g c0 = Some (code y) /\
    semk s (S (nlevels s)) h c0 = Some (code z) /\
    semk s' (S (nlevels s')) r c0 = Some (code (if i64_is_zero x then z else y)).
Proof. exact moom_never_wrong_ite_sem. Qed.
Print Assumptions C14_mt_never_wrong_ite_sem.

Theorem C14_mt_never_wrong_restrict_sem : forall C cget cadd, lossy cget cadd ->
  forall cap fuel s (c : C) f vars lits s' c' r,
  MtOK s -> MCacheOK cget s c -> ref_ok s f -> Cube s vars lits -> S (nlevels s) <= fuel ->
  mt_restrict_c C cget cadd cap fuel s c f vars = GOk s' c' r ->
  MtOK s' /\ MCacheOK cget s' c' /\ mext s s' /\ intact_m s s' /\ term_count s' = term_count s /\
  ref_ok s' r /\
  forall c0, bchoice c0 -> exists x,
    semk s (S (nlevels s)) f (ovr lits c0) = Some (code x) /\ semk s' (S (nlevels s')) r c0 = Some (code x).
Proof. exact moom_never_wrong_restrict_sem. Qed.
Print Assumptions C14_mt_never_wrong_restrict_sem.

(* after Err(OutOfMemory): well-formed MTBDD table, correct cache, only extended (nodes AND terminals),
   everything that existed intact, one of the two stores full; ite / restrict never touch the terminal store *)

Theorem C14_mt_safe_bin : forall gt C cget cadd, lossy cget cadd ->
  forall cap tcap op fuel s (c : C) f g s' c',
  MtOK s -> MCacheOK cget s c -> ref_ok s f -> ref_ok s g -> S (nlevels s) <= fuel ->
  mt_apply_bin_c gt C cget cadd cap tcap fuel s c op f g = GOom s' c' ->
  MtOK s' /\ MCacheOK cget s' c' /\ mext s s' /\ intact_m s s' /\
         node_count s <= node_count s' /\ term_count s <= term_count s' /\
         (cap <= node_count s' \/ tcap <= term_count s').
Proof. exact moom_safe_bin. Qed.
Print Assumptions C14_mt_safe_bin.

Theorem C14_mt_safe_ite : forall C cget cadd, lossy cget cadd ->
  forall cap fuel s (c : C) f g h s' c',
  MtOK s -> MCacheOK cget s c -> ref_ok s f -> ref_ok s g -> ref_ok s h -> S (nlevels s) <= fuel ->
  mt_apply_ite_c C cget cadd cap fuel s c f g h = GOom s' c' ->
  MtOK s' /\ MCacheOK cget s' c' /\ mext s s' /\ intact_m s s' /\
         node_count s <= node_count s' /\ cap <= node_count s' /\ term_count s' = term_count s.
Proof. exact moom_safe_ite. Qed.
Print Assumptions C14_mt_safe_ite.

Theorem C14_mt_safe_restrict : forall C cget cadd, lossy cget cadd ->
  forall cap fuel s (c : C) f vars lits s' c',
  MtOK s -> MCacheOK cget s c -> ref_ok s f -> Cube s vars lits -> S (nlevels s) <= fuel ->
  mt_restrict_c C cget cadd cap fuel s c f vars = GOom s' c' ->
  MtOK s' /\ MCacheOK cget s' c' /\ mext s s' /\ intact_m s s' /\
         node_count s <= node_count s' /\ cap <= node_count s' /\ term_count s' = term_count s.
Proof. exact moom_safe_restrict. Qed.
Print Assumptions C14_mt_safe_restrict.

Theorem C14_mt_intact_meaning : forall s s', intact_m s s' ->
  s_handles s' = s_handles s /\
  s_v2l s' = s_v2l s /\ s_l2v s' = s_l2v s /\
  (forall t c, term_val s t = Some c -> term_val s' t = Some c) /\
  (forall id nd, find_node s id = Some nd -> find_node s' id = Some nd) /\
  (forall r, ref_ok s r -> ref_ok s' r /\ forall k c0, semk s' k r c0 = semk s k r c0) /\
  (forall h, In h (s_handles s) -> forall c0, sem_edge s' (snd h) c0 = sem_edge s (snd h) c0) /\
  (forall id, find_node s id = None -> ~ reachable s' (handle_refs s') (RN id)) /\
  (forall r, reachable s' (handle_refs s') r <-> reachable s (handle_refs s) r).
Proof. exact intact_m_elim. Qed.
Print Assumptions C14_mt_intact_meaning.

(* no panic, no divergence *)

Theorem C14_mt_no_panic_bin : forall gt C cget cadd, lossy cget cadd ->
  forall cap tcap op fuel s (c : C) f g,
  MtOK s -> MCacheOK cget s c -> ref_ok s f -> ref_ok s g -> S (nlevels s) <= fuel ->
  mt_apply_bin_c gt C cget cadd cap tcap fuel s c op f g <> GStuck.
Proof. exact moom_no_panic_bin. Qed.
Print Assumptions C14_mt_no_panic_bin.

Theorem C14_mt_no_panic_ite : forall C cget cadd, lossy cget cadd ->
  forall cap fuel s (c : C) f g h,
  MtOK s -> MCacheOK cget s c -> ref_ok s f -> ref_ok s g -> ref_ok s h -> S (nlevels s) <= fuel ->
  mt_apply_ite_c C cget cadd cap fuel s c f g h <> GStuck.
Proof. exact moom_no_panic_ite. Qed.
Print Assumptions C14_mt_no_panic_ite.

Theorem C14_mt_no_panic_restrict : forall C cget cadd, lossy cget cadd ->
  forall cap fuel s (c : C) f vars lits,
  MtOK s -> MCacheOK cget s c -> ref_ok s f -> Cube s vars lits -> S (nlevels s) <= fuel ->
  mt_restrict_c C cget cadd cap fuel s c f vars <> GStuck.
Proof. exact moom_no_panic_restrict. Qed.
Print Assumptions C14_mt_no_panic_restrict.

(* exactness: the correct result exactly when BOTH stores suffice for the table of the unbounded run *)

Theorem C14_mt_exact_bin : forall gt C cget cadd, lossy cget cadd ->
  forall cap tcap op fuel s (c : C) f g,
  MtOK s -> MCacheOK cget s c -> ref_ok s f -> ref_ok s g -> S (nlevels s) <= fuel ->
  exists su cu ru, mt_apply_bin gt C cget cadd fuel s c op f g = Some (su, cu, ru) /\
    (forall c0, bchoice c0 -> exists x y,
    semk s (S (nlevels s)) f c0 = Some (code x) /\ semk s (S (nlevels s)) g c0 = Some (code y) /\
    semk su (S (nlevels su)) ru c0 = Some (code (mop_eval op x y))) /\
    (node_count su <= Nat.max cap (node_count s) /\ term_count su <= Nat.max tcap (term_count s) ->
       mt_apply_bin_c gt C cget cadd cap tcap fuel s c op f g = GOk su cu ru) /\
    (Nat.max cap (node_count s) < node_count su \/ Nat.max tcap (term_count s) < term_count su ->
       exists s' c', mt_apply_bin_c gt C cget cadd cap tcap fuel s c op f g = GOom s' c' /\
         MtOK s' /\ MCacheOK cget s' c' /\ mext s s' /\ intact_m s s' /\
         node_count s <= node_count s' /\ term_count s <= term_count s' /\
         (cap <= node_count s' \/ tcap <= term_count s')).
Proof. exact moom_exact_bin. Qed.
Print Assumptions C14_mt_exact_bin.

Theorem C14_mt_exact_ite : forall C cget cadd, lossy cget cadd ->
  forall cap fuel s (c : C) f g h,
  MtOK s -> MCacheOK cget s c -> ref_ok s f -> ref_ok s g -> ref_ok s h -> S (nlevels s) <= fuel ->
  exists su cu ru, mt_apply_ite C cget cadd fuel s c f g h = Some (su, cu, ru) /\
    term_count su = term_count s /\
    (forall c0, bchoice c0 -> exists x y z,
    semk s (S (nlevels s)) f c0 = Some (code x) /\ semk s (S (nlevels s)) g c0 = Some (code y) /\
    semk s (S (nlevels s)) h c0 = Some (code z) /\
    semk su (S (nlevels su)) ru c0 = Some (code (if i64_is_zero x then z else y))) /\
    (node_count su <= Nat.max cap (node_count s) -> mt_apply_ite_c C cget cadd cap fuel s c f g h = GOk su cu ru) /\
    (Nat.max cap (node_count s) < node_count su ->
       exists s' c', mt_apply_ite_c C cget cadd cap fuel s c f g h = GOom s' c' /\
         MtOK s' /\ MCacheOK cget s' c' /\ mext s s' /\ intact_m s s' /\
         node_count s <= node_count s' /\ cap <= node_count s' /\ term_count s' = term_count s).
Proof. exact moom_exact_ite. Qed.
Print Assumptions C14_mt_exact_ite.

Theorem C14_mt_exact_restrict : forall C cget cadd, lossy cget cadd ->
  forall cap fuel s (c : C) f vars lits,
  MtOK s -> MCacheOK cget s c -> ref_ok s f -> Cube s vars lits -> S (nlevels s) <= fuel ->
  exists su cu ru, mt_restrict C cget cadd fuel s c f vars = Some (su, cu, ru) /\
    term_count su = term_count s /\
    (forall c0, bchoice c0 -> exists x,
    semk s (S (nlevels s)) f (ovr lits c0) = Some (code x) /\ semk su (S (nlevels su)) ru c0 = Some (code x)) /\
    (node_count su <= Nat.max cap (node_count s) -> mt_restrict_c C cget cadd cap fuel s c f vars = GOk su cu ru) /\
    (Nat.max cap (node_count s) < node_count su ->
       exists s' c', mt_restrict_c C cget cadd cap fuel s c f vars = GOom s' c' /\
         MtOK s' /\ MCacheOK cget s' c' /\ mext s s' /\ intact_m s s' /\
         node_count s <= node_count s' /\ cap <= node_count s' /\ term_count s' = term_count s).
Proof. exact moom_exact_restrict. Qed.
Print Assumptions C14_mt_exact_restrict.

(* retry and monotonicity in both capacities (no hypothesis) *)

Theorem C14_mt_retry_bin : forall gt C cget cadd cap tcap op fuel s (c : C) f g su cu ru,
  mt_apply_bin gt C cget cadd fuel s c op f g = Some (su, cu, ru) ->
  node_count su <= cap -> term_count su <= tcap ->
  mt_apply_bin_c gt C cget cadd cap tcap fuel s c op f g = GOk su cu ru.
Proof. exact moom_retry_bin. Qed.
Print Assumptions C14_mt_retry_bin.

Theorem C14_mt_retry_ite : forall C cget cadd cap fuel s (c : C) f g h su cu ru,
  mt_apply_ite C cget cadd fuel s c f g h = Some (su, cu, ru) -> node_count su <= cap ->
  mt_apply_ite_c C cget cadd cap fuel s c f g h = GOk su cu ru.
Proof. exact moom_retry_ite. Qed.
Print Assumptions C14_mt_retry_ite.

Theorem C14_mt_retry_restrict : forall C cget cadd cap fuel s (c : C) f vars su cu ru,
  mt_restrict C cget cadd fuel s c f vars = Some (su, cu, ru) -> node_count su <= cap ->
  mt_restrict_c C cget cadd cap fuel s c f vars = GOk su cu ru.
Proof. exact moom_retry_restrict. Qed.
Print Assumptions C14_mt_retry_restrict.

Theorem C14_mt_monotone_bin : forall gt C cget cadd cap cap' tcap tcap' op fuel s (c : C) f g s' c' r,
  cap <= cap' -> tcap <= tcap' ->
  mt_apply_bin_c gt C cget cadd cap tcap fuel s c op f g = GOk s' c' r ->
  mt_apply_bin_c gt C cget cadd cap' tcap' fuel s c op f g = GOk s' c' r.
Proof. exact moom_monotone_bin. Qed.
Print Assumptions C14_mt_monotone_bin.

Theorem C14_mt_monotone_ite : forall C cget cadd cap cap' fuel s (c : C) f g h s' c' r, cap <= cap' ->
  mt_apply_ite_c C cget cadd cap fuel s c f g h = GOk s' c' r ->
  mt_apply_ite_c C cget cadd cap' fuel s c f g h = GOk s' c' r.
Proof. exact moom_monotone_ite. Qed.
Print Assumptions C14_mt_monotone_ite.

Theorem C14_mt_monotone_restrict : forall C cget cadd cap cap' fuel s (c : C) f vars s' c' r, cap <= cap' ->
  mt_restrict_c C cget cadd cap fuel s c f vars = GOk s' c' r ->
  mt_restrict_c C cget cadd cap' fuel s c f vars = GOk s' c' r.
Proof. exact moom_monotone_restrict. Qed.
Print Assumptions C14_mt_monotone_restrict.

(* constants (one terminal; on failure the manager is untouched) and variables (two terminals and a node;
   a failure of a later step leaves what the earlier steps created) *)

Theorem C14_mt_const_never_wrong : forall tcap s v s' r,
  mt_const_cap tcap s v = Some (s', r) -> mt_const s v = (s', r).
Proof. exact moom_const_never_wrong. Qed.
Print Assumptions C14_mt_const_never_wrong.

Theorem C14_mt_const_oom_iff : forall tcap s v, WF s ->
  (mt_const_cap tcap s v = None <->
   (forall t, term_val s t <> Some (code v)) /\ tcap <= term_count s).
Proof. exact moom_const_oom_iff. Qed.
Print Assumptions C14_mt_const_oom_iff.

Theorem C14_mt_const_exact : forall tcap s v, MtOK s -> wf v ->
  exists s' r, mt_const s v = (s', r) /\ MtOK s' /\ mext s s' /\ intact_m s s' /\ ref_ok s' r /\
    (forall a, mfun_of s' r a = v) /\
    node_count s' = node_count s /\ term_count s <= term_count s' /\
    (term_count s' <= Nat.max tcap (term_count s) -> mt_const_cap tcap s v = Some (s', r)) /\
    (Nat.max tcap (term_count s) < term_count s' ->
       mt_const_cap tcap s v = None /\ tcap <= term_count s).
Proof. exact moom_const_exact. Qed.
Print Assumptions C14_mt_const_exact.

Theorem C14_mt_var_never_wrong : forall cap tcap s v s' c' r,
  mt_var_cap cap tcap s v = Some (GOk s' c' r) -> mt_var s v = Some (s', r).
Proof. exact moom_never_wrong_var. Qed.
Print Assumptions C14_mt_var_never_wrong.

Theorem C14_mt_var_no_panic : forall cap tcap s v, MtOK s -> v < nlevels s ->
  exists rb, mt_var_cap cap tcap s v = Some rb /\ rb <> GStuck.
Proof. exact moom_no_panic_var. Qed.
Print Assumptions C14_mt_var_no_panic.

Theorem C14_mt_var_safe : forall cap tcap s v s' c', MtOK s -> v < nlevels s ->
  mt_var_cap cap tcap s v = Some (GOom s' c') ->
  MtOK s' /\ MCacheOK nc_get s' c' /\ mext s s' /\ intact_m s s' /\
         node_count s <= node_count s' /\ term_count s <= term_count s' /\
         (cap <= node_count s' \/ tcap <= term_count s').
Proof. exact moom_safe_var. Qed.
Print Assumptions C14_mt_var_safe.

Theorem C14_mt_var_exact : forall cap tcap s v, MtOK s -> v < nlevels s ->
  exists s' r, mt_var s v = Some (s', r) /\ MtOK s' /\ mext s s' /\ intact_m s s' /\ ref_ok s' r /\
    (forall a, mfun_of s' r a = if a v then i64_one else i64_zero) /\
    exists rb, mt_var_cap cap tcap s v = Some rb /\
      (node_count s' <= Nat.max cap (node_count s) /\ term_count s' <= Nat.max tcap (term_count s) ->
         rb = GOk s' tt r) /\
      (Nat.max cap (node_count s) < node_count s' \/ Nat.max tcap (term_count s) < term_count s' ->
         exists s2 c2, rb = GOom s2 c2 /\
         MtOK s2 /\ MCacheOK nc_get s2 c2 /\ mext s s2 /\ intact_m s s2 /\
         node_count s <= node_count s2 /\ term_count s <= term_count s2 /\
         (cap <= node_count s2 \/ tcap <= term_count s2)).
Proof. exact moom_exact_var. Qed.
Print Assumptions C14_mt_var_exact.

(* non-vacuity on the table exh (2 levels, 5 nodes, 4 terminals, 3 handles): f + x0 needs 7 nodes and
   5 terminals; node budget / terminal budget / garbage; for ALL capacities: success iff both suffice *)

Theorem C14_mt_example_table : MtOK exh /\ node_count exh = 5 /\ term_count exh = 4.
Proof. exact exh_state. Qed.
Print Assumptions C14_mt_example_table.

Theorem C14_mt_example_sweep : forallb (fun cap => forallb (fun tcap =>
     Nat.eqb (gres_code (mbin_nc cap tcap exh MAdd ex_f ex_x0))
             (if Nat.leb 7 cap && Nat.leb 5 tcap then 0 else 1)) (seq 0 8)) (seq 0 10) = true.
Proof. exact ex_add_sweep. Qed.
Print Assumptions C14_mt_example_sweep.

Theorem C14_mt_example_term_garbage : summ (mbin_nc 100 6 exh MMul ex_f ex_f) = (0, Some (7, 6, true), Some (RN 8)) /\
  summ (mbin_nc 100 5 exh MMul ex_f ex_f) = (1, Some (5, 5, true), None) /\
  match gres_snap (mbin_nc 100 5 exh MMul ex_f ex_f) with
  | Some s' => kept_b exh s' = true /\ term_count s' = S (term_count exh)
  | None => False
  end.
Proof. exact ex_mul_term_garbage. Qed.
Print Assumptions C14_mt_example_term_garbage.

Theorem C14_mt_example_exact : forall cap tcap,
  (7 <= cap /\ 5 <= tcap -> gres_code (mbin_nc cap tcap exh MAdd ex_f ex_x0) = 0) /\
  (cap < 7 \/ tcap < 5 -> gres_code (mbin_nc cap tcap exh MAdd ex_f ex_x0) = 1).
Proof. exact ex_exact_consequence. Qed.
Print Assumptions C14_mt_example_exact.

(* ---------------------------------------------------------------------------------------------
   Package ALLOC: the slot allocator of the index-based manager, interleaving model
   coq/Mgr/Alloc.v (Store::add_node / get_slot_from_shared / free_slot / prepare_local_state / guard
   drop), for every schedule of any number of threads.  "reachable": see C05_alloc_reachable_def.
   (Qualified names: the model's identifiers are not imported into this file.) *)
From Coq Require Import ZArith.
From OxiVerif Require Mgr.Alloc Mgr.AllocProofs Mgr.AllocThms Mgr.AllocExamples.
Import ListNotations.

(* add_node is never stuck (no panic: a list head is always a free slot): result or OutOfMemory *)
Theorem C14_alloc_never_stuck : forall c s t, AllocThms.reachable c s -> (t < length (Alloc.th s))%nat ->
  exists s' o, Alloc.step c Alloc.good s (Alloc.AAlloc t) = Some (s', o).
Proof. exact AllocThms.r_alloc_enabled. Qed.
Print Assumptions C14_alloc_never_stuck.

(* (c) OUT OF MEMORY: add_node of thread t fails if and only if no free slot is reachable by t: no
   shared list, nothing left to allocate, nothing in t's own list or range *)
Theorem C14_alloc_oom_iff : forall c s t l, AllocThms.reachable c s -> nth_error (Alloc.th s) t = Some l ->
  ((exists s' p, Alloc.step c Alloc.good s (Alloc.AAlloc t) = Some (s', Alloc.OAlloc None p)) <->
   (Alloc.shared_slots c s = [] /\ Alloc.unalloc_slots c s = [] /\ Alloc.thread_slots c s t = [])).
Proof. exact AllocThms.r_oom_iff. Qed.
Print Assumptions C14_alloc_oom_iff.

(* ... so after a failed add_node every free slot is parked in ANOTHER thread's local list or range
   (the code's documented imprecision); the failed call changes no slot *)
Theorem C14_alloc_oom_only_parked : forall c s t s' p, AllocThms.reachable c s ->
  Alloc.step c Alloc.good s (Alloc.AAlloc t) = Some (s', Alloc.OAlloc None p) ->
  p = Alloc.POom /\ Alloc.sl s' = Alloc.sl s /\
  forall id, In id (Alloc.free_slots c s) -> exists u, u <> t /\ In id (Alloc.thread_slots c s u).
Proof. exact AllocThms.r_oom_only_parked. Qed.
Print Assumptions C14_alloc_oom_only_parked.

(* when no other thread holds a slot (e.g. one thread): OutOfMemory iff all capacity slots hold a node *)
Theorem C14_alloc_oom_single : forall c s t l, AllocThms.reachable c s -> nth_error (Alloc.th s) t = Some l ->
  AllocProofs.others_idle_p c s t ->
  ((exists s' p, Alloc.step c Alloc.good s (Alloc.AAlloc t) = Some (s', Alloc.OAlloc None p)) <->
   Alloc.nlive c s = N.to_nat (Alloc.cap c)).
Proof. exact AllocThms.r_oom_single. Qed.
Print Assumptions C14_alloc_oom_single.

Theorem C14_alloc_others_idle_checker : forall c s t,
  Alloc.others_idle c s t = true -> AllocProofs.others_idle_p c s t.
Proof. exact AllocThms.others_idle_spec. Qed.
Print Assumptions C14_alloc_others_idle_checker.

(* once space has been freed (a slot without node exists, no other thread holds slots) add_node succeeds *)
Theorem C14_alloc_retry_succeeds : forall c s t l, AllocThms.reachable c s -> nth_error (Alloc.th s) t = Some l ->
  AllocProofs.others_idle_p c s t -> (Alloc.nlive c s < N.to_nat (Alloc.cap c))%nat ->
  exists s' id p, Alloc.step c Alloc.good s (Alloc.AAlloc t) = Some (s', Alloc.OAlloc (Some id) p).
Proof. exact AllocThms.r_alloc_succeeds. Qed.
Print Assumptions C14_alloc_retry_succeeds.

(* small managers (capacity <= chunk size: no chunk is ever pre-allocated): add_node changes no other
   thread's local state, and a thread that holds no slot holds none after its own add_node: slots are
   parked with a thread only by its own free_slot calls *)
Theorem C14_alloc_no_hoard_scarce : forall c s t l s' o,
  (Alloc.cap c <= Alloc.chunk c)%N -> nth_error (Alloc.th s) t = Some l ->
  Alloc.step c Alloc.good s (Alloc.AAlloc t) = Some (s', o) ->
  (forall u, u <> t -> nth_error (Alloc.th s') u = nth_error (Alloc.th s) u) /\
  exists l', nth_error (Alloc.th s') t = Some l' /\ Alloc.l_cur l' = Alloc.l_cur l /\
             (AllocProofs.holds_nothing c l -> AllocProofs.holds_nothing c l').
Proof. exact AllocProofs.alloc_no_hoard_scarce. Qed.
Print Assumptions C14_alloc_no_hoard_scarce.

(* the code before /repo 45ba7ac (a worker takes the whole list): worker 1 holds slots 3 and 2 after ONE
   add_node although it never freed a slot, thread 0 gets OutOfMemory with 1 of 3 slots live; the code
   as it is hands slot 3 to thread 0 *)
Theorem C14_alloc_take_all_refuted :
  AllocExamples.summary AllocExamples.sm_cfg
    (Alloc.run AllocExamples.sm_cfg Alloc.var_take_all (Alloc.init AllocExamples.sm_cfg 2) AllocExamples.sched_take_all) =
    Some (Alloc.OAlloc None Alloc.POom, [], 1%Z, 0%Z, 1%nat, [0%N; 3%N], [4%N], ([], [3%N; 2%N], [], []), true) /\
  AllocExamples.summary AllocExamples.sm_cfg
    (Alloc.run AllocExamples.sm_cfg Alloc.good (Alloc.init AllocExamples.sm_cfg 2) AllocExamples.sched_take_all) =
    Some (Alloc.OAlloc (Some 3%N) Alloc.PSharedList, [2%N], 2%Z, 0%Z, 2%nat, [0%N; 0%N], [3%N; 4%N],
          ([2%N], [], [], []), true).
Proof. exact AllocExamples.take_all_refuted. Qed.
Print Assumptions C14_alloc_take_all_refuted.

(* seeded C14f (non-local branch: capacity check before the list lookup): one thread, the store was full
   once, slot 3 is free in the shared list, add_node still fails; the code as it is returns slot 3 *)
Theorem C14_alloc_cap_first_refuted :
  AllocExamples.summary AllocExamples.sm_cfg
    (Alloc.run AllocExamples.sm_cfg Alloc.var_cap_first (Alloc.init AllocExamples.sm_cfg 1) AllocExamples.sched_cap_first) =
    Some (Alloc.OAlloc None Alloc.POom, [3%N], 3%Z, 0%Z, 2%nat, [0%N], [2%N; 4%N], ([3%N], [], [], []), false) /\
  AllocExamples.summary AllocExamples.sm_cfg
    (Alloc.run AllocExamples.sm_cfg Alloc.good (Alloc.init AllocExamples.sm_cfg 1) AllocExamples.sched_cap_first) =
    Some (Alloc.OAlloc (Some 3%N) Alloc.PNonLocalList, [], 3%Z, 0%Z, 3%nat, [0%N], [2%N; 3%N; 4%N], ([], [], [], []), true).
Proof. exact AllocExamples.cap_first_refuted. Qed.
Print Assumptions C14_alloc_cap_first_refuted.

(* the code before the fix "a failed node allocation is not counted": two failed add_node calls leave
   the shared count at 5 with 3 live slots *)
Theorem C14_alloc_oom_drift_refuted :
  AllocExamples.summary AllocExamples.sm_cfg
    (Alloc.run AllocExamples.sm_cfg Alloc.var_oom_drift (Alloc.init AllocExamples.sm_cfg 1) AllocExamples.sched_oom_drift) =
    Some (Alloc.ODrop false 0%N, [], 5%Z, 0%Z, 3%nat, [0%N], [2%N; 3%N; 4%N], ([], [], [], []), false) /\
  AllocExamples.summary AllocExamples.sm_cfg
    (Alloc.run AllocExamples.sm_cfg Alloc.good (Alloc.init AllocExamples.sm_cfg 1) AllocExamples.sched_oom_drift) =
    Some (Alloc.ODrop false 0%N, [], 3%Z, 0%Z, 3%nat, [0%N], [2%N; 3%N; 4%N], ([], [], [], []), true).
Proof. exact AllocExamples.oom_drift_refuted. Qed.
Print Assumptions C14_alloc_oom_drift_refuted.

(** * Package C14z: bounded-store models of the remaining operations

    Sections 14 - 17 use ONE statement per theorem family for every call of the interface: the call is a value
    ([qcall] / [cqcall] / [zvcall] / [tcall]), [*run_c] the bounded run, [*run_u] the unbounded run of the existing
    models, [*call_ok] the hypothesis on the operands, [*call_spec] the specification of the result. *)
From OxiVerif Require Import DD.QuantLemmas DD.QuantSpecProofs DD.QuantTopProofs.
From OxiVerif Require Import Mgr.OomBddQ Mgr.OomBddQProofs Mgr.OomBddQSafe Mgr.OomBddQThms Mgr.OomBddQExamples.
From OxiVerif Require Import DD.QuantBcdd DD.QuantBcddLemmas DD.SubstBcddProofs DD.QuantBcddTop.
From OxiVerif Require Import Mgr.OomBcddQ Mgr.OomBcddQProofs Mgr.OomBcddQSafe Mgr.OomBcddQThms Mgr.OomBcddQExamples.
From OxiVerif Require Import DD.ZbddRestrictTop DD.ZbddEvalProofs.
From OxiVerif Require Import Mgr.OomZbddV Mgr.OomZbddVProofs Mgr.OomZbddVSafe Mgr.OomZbddVThms Mgr.OomZbddVExamples.
From OxiVerif Require Import DD.Tdd DD.ApplyTdd DD.ApplyTddBase DD.ApplyTddProofs DD.ApplyTddTop.
From OxiVerif Require Import Mgr.OomTdd Mgr.OomTddProofs Mgr.OomTddSafe Mgr.OomTddThms Mgr.OomTddExamples.

(** ** 14. Quantification, apply-and-quantify, restrict, substitute of the plain BDD kind (package C14z)

    [qrun_c gt C cget cadd cap par pin s c k] is the bounded run of the call [k : qcall]
    ([KQuant] = forall / exists / unique, [KApplyQuant] = apply_forall / apply_exists / apply_unique with
    any of the 8 operators, [KRestrict], [KSubst] = substitute incl. substitute_prepare) in the error monad of the
    code (Mgr/OomBddQ.v, mirrors quant / apply_quant / restrict / substitute_prepare / substitute of
    oxidd-rules-bdd/src/simple/apply_rec.rs incl. their inner apply_not / apply_bin / apply_ite calls),
    [qrun_u] the unbounded run of DD/Quant.v (C04).  [par] = recursor of the algorithm's own recursion, [pin] =
    recursor of the inner calls; [QCacheOK] = the cache invariant of the C04 theorems; [Sg] = registry of
    substitution objects. *)

Theorem C14_bddq_never_wrong : forall gt C cget cadd, 
  forall cap par pin s c k s' c' r,
  qrun_c gt C cget cadd cap par pin s c k = GOk s' c' r ->
  qrun_u gt C cget cadd s c k = Some (s', c', r).
Proof. exact qoom_never_wrong. Qed.
Print Assumptions C14_bddq_never_wrong.

Theorem C14_bddq_never_wrong_sem : forall gt C cget cadd, lossy cget cadd -> forall Sg, 
  forall cap par pin s c k s' c' r,
  BddOK s -> QCacheOK cget Sg s c -> qcall_ok Sg s k ->
  qrun_c gt C cget cadd cap par pin s c k = GOk s' c' r ->
  BddOK s' /\ QCacheOK cget Sg s' c' /\ intact s s' /\ ref_ok s' r /\ qcall_spec s k s' r.
Proof. exact qoom_never_wrong_sem. Qed.
Print Assumptions C14_bddq_never_wrong_sem.

Theorem C14_bddq_safe : forall gt C cget cadd, lossy cget cadd -> forall Sg, 
  forall cap par pin s c k s' c',
  BddOK s -> QCacheOK cget Sg s c -> qcall_ok Sg s k ->
  qrun_c gt C cget cadd cap par pin s c k = GOom s' c' ->
  qfailed_ok C cget Sg cap s s' c'.
Proof. exact qoom_safe. Qed.
Print Assumptions C14_bddq_safe.

Theorem C14_bddq_no_panic : forall gt C cget cadd, lossy cget cadd -> forall Sg, 
  forall cap par pin s c k,
  BddOK s -> QCacheOK cget Sg s c -> qcall_ok Sg s k ->
  qrun_c gt C cget cadd cap par pin s c k <> GStuck.
Proof. exact qoom_no_panic. Qed.
Print Assumptions C14_bddq_no_panic.

Theorem C14_bddq_exact : forall gt C cget cadd, lossy cget cadd -> forall Sg, 
  forall cap par pin s c k,
  BddOK s -> QCacheOK cget Sg s c -> qcall_ok Sg s k ->
  exists su cu ru, qrun_u gt C cget cadd s c k = Some (su, cu, ru) /\
    qcall_spec s k su ru /\
    qexact C cget Sg cap s (qrun_c gt C cget cadd cap par pin s c k) su cu ru.
Proof. exact qoom_exact. Qed.
Print Assumptions C14_bddq_exact.

Theorem C14_bddq_outcome_recursor_indep : forall gt C cget cadd, lossy cget cadd -> forall Sg, 
  forall cap par par' pin pin' s c k,
  BddOK s -> QCacheOK cget Sg s c -> qcall_ok Sg s k ->
  gres_code (qrun_c gt C cget cadd cap par pin s c k) =
  gres_code (qrun_c gt C cget cadd cap par' pin' s c k).
Proof. exact qoom_outcome_recursor_indep. Qed.
Print Assumptions C14_bddq_outcome_recursor_indep.

Theorem C14_bddq_retry : forall gt C cget cadd, 
  forall cap par pin s c k su cu ru,
  qrun_u gt C cget cadd s c k = Some (su, cu, ru) -> node_count su <= cap ->
  qrun_c gt C cget cadd cap par pin s c k = GOk su cu ru.
Proof. exact qoom_retry. Qed.
Print Assumptions C14_bddq_retry.

Theorem C14_bddq_monotone : forall gt C cget cadd, 
  forall cap cap' par par' pin pin' s c k s' c' r, cap <= cap' ->
  qrun_c gt C cget cadd cap par pin s c k = GOk s' c' r ->
  qrun_c gt C cget cadd cap' par' pin' s c k = GOk s' c' r.
Proof. exact qoom_monotone. Qed.
Print Assumptions C14_bddq_monotone.

(** non-vacuity: every outcome occurs on concrete tables; the hypotheses are satisfiable *)
Theorem C14_bddq_example_garbage : match qrun_nc 7 false ex3 (KApplyQuant QExists OXor (RN 5) (RN 2) (RN 3)) with
  | GOom s' _ =>
      s_handles s' = s_handles ex3 /\ bdd_ok_b s' = true /\ node_count s' = 7 /\
      forallb (fun p => match find_node s' (fst p) with
                        | Some nd => same_node nd (snd p) | None => false end)
              (PositiveMap.elements (s_nodes ex3)) = true
  | _ => False
  end.
Proof. exact ex3_apply_quant_garbage. Qed.
Print Assumptions C14_bddq_example_garbage.

Theorem C14_bddq_example_exact : forall cap p,
  let k := KApplyQuant QExists OXor (RN 5) (RN 2) (RN 3) in
  (8 <= cap -> exists su, qrun_nc cap p ex3 k = GOk su tt (RN 2) /\ node_count su = 8) /\
  (cap < 8 -> exists s', qrun_nc cap p ex3 k = GOom s' tt /\
                         qfailed_ok unit nc_get (sg_one []) cap ex3 s' tt).
Proof. exact ex3_exact. Qed.
Print Assumptions C14_bddq_example_exact.

Theorem C14_bddq_example_subst_exact : forall cap p,
  let k := KSubst (RN 2) [(2, RN 2)] 0%N in
  (4 <= cap -> exists su, qrun_nc cap p exsp k = GOk su tt (RN 2) /\ node_count su = 4) /\
  (cap < 4 -> exists s', qrun_nc cap p exsp k = GOom s' tt /\
                         qfailed_ok unit nc_get (sg_one [(2, RN 2)]) cap exsp s' tt).
Proof. exact exsp_exact. Qed.
Print Assumptions C14_bddq_example_subst_exact.

(** ** 15. The same for the complement-edge BDD kind (package C14z; Mgr/OomBcddQ.v, mirrors
    complement_edge/apply_rec.rs: quant, apply_quant and its two dispatchers, restrict, substitute_prepare, substitute) *)

Theorem C14_bcddq_never_wrong : forall lt C cget cadd cap par pin s c k s' c' r,
  cqrun_c lt C cget cadd cap par pin s c k = GOk s' c' r ->
  cqrun_u lt C cget cadd s c k = Some (s', c', r).
Proof. exact cq_never_wrong. Qed.
Print Assumptions C14_bcddq_never_wrong.

Theorem C14_bcddq_never_wrong_sem : forall lt C cget cadd Sg cap par pin s c k s' c' r,
  lossyC cget cadd -> QInv C cget Sg s c -> cqcall_ok Sg s k ->
  cqrun_c lt C cget cadd cap par pin s c k = GOk s' c' r ->
  QInv C cget Sg s' c' /\ intact_c s s' /\ ref_ok s' (eref r) /\ cqcall_spec s k s' r.
Proof. exact cq_never_wrong_sem. Qed.
Print Assumptions C14_bcddq_never_wrong_sem.

Theorem C14_bcddq_safe : forall lt C cget cadd Sg cap par pin s c k s' c',
  lossyC cget cadd -> QInv C cget Sg s c -> cqcall_ok Sg s k ->
  cqrun_c lt C cget cadd cap par pin s c k = GOom s' c' ->
  cqfailed_ok cget Sg cap s s' c'.
Proof. exact cq_safe. Qed.
Print Assumptions C14_bcddq_safe.

Theorem C14_bcddq_failed_meaning : forall C (cget : C -> N -> list edge -> option edge) Sg cap s s' c',
  cqfailed_ok cget Sg cap s s' c' ->
  BcOK s' /\ QCacheOKC cget Sg s' c' /\ extends s s' /\
  s_handles s' = s_handles s /\
  (forall id nd, find_node s id = Some nd -> find_node s' id = Some nd) /\
  (forall e, ref_ok s (eref e) -> ref_ok s' (eref e) /\ forall k c0, semc s' k e c0 = semc s k e c0) /\
  (forall h, In h (s_handles s) -> forall c0, sem_edge s' (snd h) c0 = sem_edge s (snd h) c0) /\
  (forall id, find_node s id = None -> ~ reachable s' (handle_refs s') (RN id)) /\
  node_count s <= node_count s' /\ cap <= node_count s'.
Proof. exact cq_failed_meaning. Qed.
Print Assumptions C14_bcddq_failed_meaning.

Theorem C14_bcddq_no_panic : forall lt C cget cadd Sg cap par pin s c k,
  lossyC cget cadd -> QInv C cget Sg s c -> cqcall_ok Sg s k ->
  cqrun_c lt C cget cadd cap par pin s c k <> GStuck.
Proof. exact cq_no_panic. Qed.
Print Assumptions C14_bcddq_no_panic.

Theorem C14_bcddq_exact : forall lt C cget cadd Sg cap par pin s c k,
  lossyC cget cadd -> QInv C cget Sg s c -> cqcall_ok Sg s k ->
  exists su cu ru, cqrun_u lt C cget cadd s c k = Some (su, cu, ru) /\
    cqcall_spec s k su ru /\
    (node_count su <= Nat.max cap (node_count s) ->
       cqrun_c lt C cget cadd cap par pin s c k = GOk su cu ru) /\
    (Nat.max cap (node_count s) < node_count su ->
       exists s' c', cqrun_c lt C cget cadd cap par pin s c k = GOom s' c' /\
                     cqfailed_ok cget Sg cap s s' c').
Proof. exact cq_exact. Qed.
Print Assumptions C14_bcddq_exact.

Theorem C14_bcddq_outcome_recursor_indep : forall lt C cget cadd Sg cap par par' pin pin' s c k,
  lossyC cget cadd -> QInv C cget Sg s c -> cqcall_ok Sg s k ->
  gres_code (cqrun_c lt C cget cadd cap par pin s c k) =
  gres_code (cqrun_c lt C cget cadd cap par' pin' s c k).
Proof. exact cq_outcome_recursor_indep. Qed.
Print Assumptions C14_bcddq_outcome_recursor_indep.

Theorem C14_bcddq_retry : forall lt C cget cadd cap par pin s c k su cu ru,
  cqrun_u lt C cget cadd s c k = Some (su, cu, ru) -> node_count su <= cap ->
  cqrun_c lt C cget cadd cap par pin s c k = GOk su cu ru.
Proof. exact cq_retry. Qed.
Print Assumptions C14_bcddq_retry.

Theorem C14_bcddq_monotone : forall lt C cget cadd cap cap' par par' pin pin' s c k s' c' r, cap <= cap' ->
  cqrun_c lt C cget cadd cap par pin s c k = GOk s' c' r ->
  cqrun_c lt C cget cadd cap' par' pin' s c k = GOk s' c' r.
Proof. exact cq_monotone. Qed.
Print Assumptions C14_bcddq_monotone.

Theorem C14_bcddq_call_ok_b_spec : forall s k, cqcall_ok_b s k = true -> cqcall_ok (cq_sg_of k) s k.
Proof. exact cqcall_ok_b_spec. Qed.
Print Assumptions C14_bcddq_call_ok_b_spec.

Theorem C14_bcddq_nc_exact : forall cap p s k, BcOK s -> cqcall_ok_b s k = true ->
  exists su ru, cqrun_u lt_none unit enc_get enc_add s tt k = Some (su, tt, ru) /\
    BcOK su /\ cqcall_spec s k su ru /\
    (node_count su <= Nat.max cap (node_count s) -> cq_run_nc cap p s k = GOk su tt ru) /\
    (Nat.max cap (node_count s) < node_count su ->
       exists s', cq_run_nc cap p s k = GOom s' tt /\ cqfailed_ok enc_get (cq_sg_of k) cap s s' tt).
Proof. exact cq_nc_exact. Qed.
Print Assumptions C14_bcddq_nc_exact.

Theorem C14_bcddq_example_garbage : garbage_ok (cq_quant_nc 12 false exq QExists exf (ce 2)) 12 /\
  garbage_ok (cq_restrict_nc 12 false exq exf (ce 2)) 12 /\
  garbage_ok (cq_aquant_nc 12 true exq QExists OAnd exf (ce 3) (ce 2)) 12 /\
  garbage_ok (cq_subst_nc 14 false exq exf exq_pairs 0%N) 14.
Proof. exact exq_garbage. Qed.
Print Assumptions C14_bcddq_example_garbage.

Theorem C14_bcddq_example_exact : forall cap p,
  (13 <= cap -> exists s' r, cq_quant_nc cap p exq QExists exf (ce 2) = GOk s' tt r /\
                  forall a, cbfun_of s' r a = quant orb [2] (cbfun_of exq exf) a) /\
  (cap < 13 -> gres_code (cq_quant_nc cap p exq QExists exf (ce 2)) = 1).
Proof. exact exq_exact_exists. Qed.
Print Assumptions C14_bcddq_example_exact.

(** ** 16. ZBDD subset0 / subset1 / change, restrict, var_edge / not_var_edge (package C14z; Mgr/OomZbddV.v,
    mirrors subset, restrict, restrict_base, var_edge of oxidd-rules-zbdd/src/apply_rec.rs incl. the don't-care loops) *)

Theorem C14_zbddv_never_wrong : forall gt C cget cadd, 
  forall cap par pin fuel s c k s' c' r,
  zvrun_c gt C cget cadd cap par pin fuel s c k = GOk s' c' r -> zvrun_u gt C cget cadd fuel s c k = Some (s', c', r).
Proof. exact zv_never_wrong. Qed.
Print Assumptions C14_zbddv_never_wrong.

Theorem C14_zbddv_never_wrong_sem : forall gt C cget cadd, zlossy C cget cadd -> 
  forall cap par pin fuel s c k s' c' r,
  ZbddOK s -> ZChainOK s -> ZCacheOKB C cget s c -> zvcall_ok s k -> ZFUEL s <= fuel ->
  zvrun_c gt C cget cadd cap par pin fuel s c k = GOk s' c' r ->
  ZbddOK s' /\ ZChainOK s' /\ ZCacheOKB C cget s' c' /\ intact_z s s' /\ ref_ok s' r /\ zvcall_spec s k s' r.
Proof. exact zv_never_wrong_sem. Qed.
Print Assumptions C14_zbddv_never_wrong_sem.

Theorem C14_zbddv_safe : forall gt C cget cadd, zlossy C cget cadd -> 
  forall cap par pin fuel s c k s' c',
  ZbddOK s -> ZChainOK s -> ZCacheOKB C cget s c -> zvcall_ok s k -> ZFUEL s <= fuel ->
  zvrun_c gt C cget cadd cap par pin fuel s c k = GOom s' c' -> zfailed_ok C cget cap s s' c'.
Proof. exact zv_safe. Qed.
Print Assumptions C14_zbddv_safe.

Theorem C14_zbddv_no_panic : forall gt C cget cadd, zlossy C cget cadd -> 
  forall cap par pin fuel s c k,
  ZbddOK s -> ZChainOK s -> ZCacheOKB C cget s c -> zvcall_ok s k -> ZFUEL s <= fuel ->
  zvrun_c gt C cget cadd cap par pin fuel s c k <> GStuck.
Proof. exact zv_no_panic. Qed.
Print Assumptions C14_zbddv_no_panic.

Theorem C14_zbddv_exact : forall gt C cget cadd, zlossy C cget cadd -> 
  forall cap par pin fuel s c k,
  ZbddOK s -> ZChainOK s -> ZCacheOKB C cget s c -> zvcall_ok s k -> ZFUEL s <= fuel ->
  exists su cu ru, zvrun_u gt C cget cadd fuel s c k = Some (su, cu, ru) /\ zvcall_spec s k su ru /\
    zexact C cget cap s (zvrun_c gt C cget cadd cap par pin fuel s c k) su cu ru.
Proof. exact zv_exact. Qed.
Print Assumptions C14_zbddv_exact.

Theorem C14_zbddv_outcome_recursor_indep : forall gt C cget cadd, zlossy C cget cadd -> 
  forall cap par par' pin pin' fuel s c k,
  ZbddOK s -> ZChainOK s -> ZCacheOKB C cget s c -> zvcall_ok s k -> ZFUEL s <= fuel ->
  gres_code (zvrun_c gt C cget cadd cap par pin fuel s c k) = gres_code (zvrun_c gt C cget cadd cap par' pin' fuel s c k).
Proof. exact zv_outcome_recursor_indep. Qed.
Print Assumptions C14_zbddv_outcome_recursor_indep.

Theorem C14_zbddv_retry : forall gt C cget cadd, 
  forall cap par pin fuel s c k su cu ru,
  zvrun_u gt C cget cadd fuel s c k = Some (su, cu, ru) -> node_count su <= cap ->
  zvrun_c gt C cget cadd cap par pin fuel s c k = GOk su cu ru.
Proof. exact zv_retry. Qed.
Print Assumptions C14_zbddv_retry.

Theorem C14_zbddv_monotone : forall gt C cget cadd, 
  forall cap cap' par par' pin pin' fuel s c k s' c' r, cap <= cap' ->
  zvrun_c gt C cget cadd cap par pin fuel s c k = GOk s' c' r -> zvrun_c gt C cget cadd cap' par' pin' fuel s c k = GOk s' c' r.
Proof. exact zv_monotone. Qed.
Print Assumptions C14_zbddv_monotone.

Theorem C14_zbddv_call_ok_decided : forall s k, zvcall_ok_b s k = true <-> zvcall_ok s k.
Proof. exact zv_call_ok_decided. Qed.
Print Assumptions C14_zbddv_call_ok_decided.

Theorem C14_zbddv_example_garbage : zv_garbage_ok 9 (zv_subset_nc 9 false ex_z4 ZChange (RN 3) 3) /\
  zv_garbage_ok 10 (zv_subset_nc 10 true ex_z4 ZChange (RN 3) 3) /\
  zv_garbage_ok 9 (zv_var_nc 9 ex_z4 3) /\
  zv_garbage_ok 10 (zv_var_nc 10 ex_z4 3) /\
  zv_garbage_ok 11 (zv_notvar_nc 11 false ex_z4 1) /\
  zv_garbage_ok 9 (zv_restrict_nc 9 false ex_z4 (RT 1%N) (RN 4)) /\
  zv_garbage_ok 8 (zv_restrict_nc 8 true ex_z4 (RN 3) (RN 5)).
Proof. exact ex_zv_garbage. Qed.
Print Assumptions C14_zbddv_example_garbage.

Theorem C14_zbddv_example_exact : forall cap p,
  (11 <= cap -> gres_code (zv_subset_nc cap p ex_z4 ZChange (RN 3) 3) = 0 /\ gres_code (zv_var_nc cap ex_z4 3) = 0) /\
  (cap < 11 ->
     (exists s' c', zv_subset_nc cap p ex_z4 ZChange (RN 3) 3 = GOom s' c' /\
        zfailed_ok unit znc_get cap ex_z4 s' c') /\
     (exists s' c', zv_var_nc cap ex_z4 3 = GOom s' c' /\ zfailed_ok unit znc_get cap ex_z4 s' c')) /\
  (10 <= cap -> gres_code (zv_restrict_nc cap p ex_z4 (RT 1%N) (RN 4)) = 0) /\
  (cap < 10 -> exists s' c', zv_restrict_nc cap p ex_z4 (RT 1%N) (RN 4) = GOom s' c' /\
     zfailed_ok unit znc_get cap ex_z4 s' c').
Proof. exact ex_zv_exact_consequence. Qed.
Print Assumptions C14_zbddv_example_exact.

(** ** 17. The TDD rule set: not, the 8 operators, ite, var (package C14z; Mgr/OomTdd.v, mirrors apply_not,
    apply_bin, apply_ite_rec, var_edge of oxidd-rules-tdd/src/apply_rec.rs - sequential code, three recursive calls
    each followed by [?]) *)

Theorem C14_tdd_never_wrong : forall gt C cget cadd cap fuel s (c : C) k s' c' r,
  trun_c gt C cget cadd cap fuel s c k = GOk s' c' r ->
  trun_u gt C cget cadd fuel s c k = Some (s', c', r).
Proof. exact tdd_never_wrong. Qed.
Print Assumptions C14_tdd_never_wrong.

Theorem C14_tdd_never_wrong_sem : forall gt C cget cadd, lossy cget cadd ->
  forall cap fuel s (c : C) k s' c' r,
  TdOK s -> TCacheOK cget s c -> tcall_ok s k -> S (nlevels s) <= fuel ->
  trun_c gt C cget cadd cap fuel s c k = GOk s' c' r ->
  TdOK s' /\ TCacheOK cget s' c' /\ intact_t s s' /\ ref_ok s' r /\ tcall_spec s k s' r.
Proof. exact tdd_never_wrong_sem. Qed.
Print Assumptions C14_tdd_never_wrong_sem.

Theorem C14_tdd_safe : forall gt C cget cadd, lossy cget cadd ->
  forall cap fuel s (c : C) k s' c',
  TdOK s -> TCacheOK cget s c -> tcall_ok s k -> S (nlevels s) <= fuel ->
  trun_c gt C cget cadd cap fuel s c k = GOom s' c' ->
  TdOK s' /\ TCacheOK cget s' c' /\ extends s s' /\ intact_t s s' /\
  node_count s <= node_count s' /\ cap <= node_count s'.
Proof. exact tdd_safe. Qed.
Print Assumptions C14_tdd_safe.

Theorem C14_tdd_intact_meaning : forall s s', intact_t s s' ->
  s_handles s' = s_handles s /\
  s_v2l s' = s_v2l s /\ s_l2v s' = s_l2v s /\ s_terms s' = s_terms s /\
  (forall id nd, find_node s id = Some nd -> find_node s' id = Some nd) /\
  (forall r, ref_ok s r -> ref_ok s' r /\ forall k c0, semk s' k r c0 = semk s k r c0) /\
  (forall r, ref_ok s r -> forall av, tfun_of s' r av = tfun_of s r av) /\
  (forall h, In h (s_handles s) -> forall c0, sem_edge s' (snd h) c0 = sem_edge s (snd h) c0) /\
  (forall id, find_node s id = None -> ~ reachable s' (handle_refs s') (RN id)) /\
  (forall r, reachable s' (handle_refs s') r <-> reachable s (handle_refs s) r).
Proof. exact tdd_intact_meaning. Qed.
Print Assumptions C14_tdd_intact_meaning.

Theorem C14_tdd_no_panic : forall gt C cget cadd, lossy cget cadd ->
  forall cap fuel s (c : C) k,
  TdOK s -> TCacheOK cget s c -> tcall_ok s k -> S (nlevels s) <= fuel ->
  trun_c gt C cget cadd cap fuel s c k <> GStuck.
Proof. exact tdd_no_panic. Qed.
Print Assumptions C14_tdd_no_panic.

Theorem C14_tdd_exact : forall gt C cget cadd, lossy cget cadd ->
  forall cap fuel s (c : C) k,
  TdOK s -> TCacheOK cget s c -> tcall_ok s k -> S (nlevels s) <= fuel ->
  exists su cu ru, trun_u gt C cget cadd fuel s c k = Some (su, cu, ru) /\
    tcall_spec s k su ru /\
    (node_count su <= Nat.max cap (node_count s) ->
       trun_c gt C cget cadd cap fuel s c k = GOk su cu ru) /\
    (Nat.max cap (node_count s) < node_count su ->
       exists s' c', trun_c gt C cget cadd cap fuel s c k = GOom s' c' /\
         TdOK s' /\ TCacheOK cget s' c' /\ extends s s' /\ intact_t s s' /\
         node_count s <= node_count s' /\ cap <= node_count s').
Proof. exact tdd_exact. Qed.
Print Assumptions C14_tdd_exact.

Theorem C14_tdd_retry : forall gt C cget cadd cap fuel s (c : C) k su cu ru,
  trun_u gt C cget cadd fuel s c k = Some (su, cu, ru) -> node_count su <= cap ->
  trun_c gt C cget cadd cap fuel s c k = GOk su cu ru.
Proof. exact tdd_retry. Qed.
Print Assumptions C14_tdd_retry.

Theorem C14_tdd_monotone : forall gt C cget cadd cap cap' fuel s (c : C) k s' c' r, cap <= cap' ->
  trun_c gt C cget cadd cap fuel s c k = GOk s' c' r ->
  trun_c gt C cget cadd cap' fuel s c k = GOk s' c' r.
Proof. exact tdd_monotone. Qed.
Print Assumptions C14_tdd_monotone.

Theorem C14_tdd_var_exact : forall cap s v, TdOK s -> v < nlevels s ->
  exists s' r, td_var s v = Some (s', r) /\ TdOK s' /\ extends s s' /\ intact_t s s' /\ ref_ok s' r /\
    (forall av, tfun_of s' r av = av v) /\
    (node_count s' <= Nat.max cap (node_count s) -> td_var_cap cap s v = Some (Some (s', r))) /\
    (Nat.max cap (node_count s) < node_count s' ->
       td_var_cap cap s v = Some None /\ cap <= node_count s).
Proof. exact tdd_var_exact. Qed.
Print Assumptions C14_tdd_var_exact.

Theorem C14_tdd_var_never_wrong : forall cap s v s' r,
  td_var_cap cap s v = Some (Some (s', r)) -> td_var s v = Some (s', r).
Proof. exact tdd_var_never_wrong. Qed.
Print Assumptions C14_tdd_var_never_wrong.

Theorem C14_tdd_nc_exact : forall cap s k, td_ok_b s = true -> tcall_ok_b s k = true ->
  trun_nc cap s k <> GStuck /\
  exists su cu ru, trun_unc s k = Some (su, cu, ru) /\
    td_ok_b su = true /\ tcall_spec s k su ru /\
    (node_count su <= Nat.max cap (node_count s) -> trun_nc cap s k = GOk su cu ru) /\
    (Nat.max cap (node_count s) < node_count su ->
       exists s' c', trun_nc cap s k = GOom s' c' /\
         td_ok_b s' = true /\ extends s s' /\ intact_t s s' /\
         node_count s <= node_count s' /\ cap <= node_count s').
Proof. exact tdd_nc_exact. Qed.
Print Assumptions C14_tdd_nc_exact.

Theorem C14_tdd_example_garbage : match tnot_nc 8 ext3 (RN 5) with
  | GOom s' _ =>
      s_handles s' = s_handles ext3 /\ td_ok_b s' = true /\ node_count s' = 8 /\
      forallb (fun p => match find_node s' (fst p) with
                        | Some nd => same_node nd (snd p) | None => false end)
              (PositiveMap.elements (s_nodes ext3)) = true
  | _ => False
  end.
Proof. exact ext3_not_garbage. Qed.
Print Assumptions C14_tdd_example_garbage.

Theorem C14_tdd_example_exact : forall cap,
  (10 <= cap -> gres_code (tbin_nc cap ext3 Xor (RN 5) (RN 4)) = 0) /\
  (cap < 10 -> exists s' c', tbin_nc cap ext3 Xor (RN 5) (RN 4) = GOom s' c' /\
                TdOK s' /\ intact_t ext3 s' /\ cap <= node_count s').
Proof. exact ext3_exact_consequence. Qed.
Print Assumptions C14_tdd_example_exact.

(** * 18. Cube picking under a node budget (package C14z, theorems C14_pick_xxx)

    [pick_cube_dd_edge] / [pick_cube_dd_set_edge] of the BDD, BCDD and ZBDD rule
    sets (Mgr/OomPick*.v).  One theorem per family, quantified over the kind
    ([pkind]), the call ([pcall]) and - for [pick_cube_dd] - every choice function
    with every state. *)
From OxiVerif Require Import DD.Pick.
From OxiVerif Require Import Mgr.OomPick Mgr.OomPickProofs Mgr.OomPickSafe Mgr.OomPickThms Mgr.OomPickExamples.

Theorem C14_pick_never_wrong : forall St choice kind cap s (st : St) k s' st' r,
  prun_c St choice kind cap s st k = GOk s' st' r ->
  prun_u St choice kind s st k = Some (s', st', r).
Proof. exact pick_never_wrong. Qed.
Print Assumptions C14_pick_never_wrong.

Theorem C14_pick_retry : forall St choice kind cap s (st : St) k su stu ru,
  prun_u St choice kind s st k = Some (su, stu, ru) -> node_count su <= cap ->
  prun_c St choice kind cap s st k = GOk su stu ru.
Proof. exact pick_retry. Qed.
Print Assumptions C14_pick_retry.

Theorem C14_pick_monotone : forall St choice kind cap cap' s (st : St) k s' st' r, cap <= cap' ->
  prun_c St choice kind cap s st k = GOk s' st' r ->
  prun_c St choice kind cap' s st k = GOk s' st' r.
Proof. exact pick_monotone. Qed.
Print Assumptions C14_pick_monotone.

Theorem C14_pick_never_wrong_sem : forall St choice kind cap s (st : St) k s' st' r,
  pinv kind s -> pcall_ok kind s k ->
  prun_c St choice kind cap s st k = GOk s' st' r ->
  pinv kind s' /\ extends s s' /\ pintact kind s s' /\ pgood kind s' (fst r) /\
  pcall_spec St choice kind s st k s' st' r.
Proof. exact pick_never_wrong_sem. Qed.
Print Assumptions C14_pick_never_wrong_sem.

Theorem C14_pick_safe : forall St choice kind cap s (st : St) k s' st',
  pinv kind s -> pcall_ok kind s k ->
  prun_c St choice kind cap s st k = GOom s' st' ->
  pinv kind s' /\ extends s s' /\ pintact kind s s' /\
  node_count s <= node_count s' /\ cap <= node_count s'.
Proof. exact pick_safe. Qed.
Print Assumptions C14_pick_safe.

Theorem C14_pick_no_panic : forall St choice kind cap s (st : St) k,
  pinv kind s -> pcall_ok kind s k ->
  prun_c St choice kind cap s st k <> GStuck.
Proof. exact pick_no_panic. Qed.
Print Assumptions C14_pick_no_panic.

Theorem C14_pick_exact : forall St choice kind cap s (st : St) k,
  pinv kind s -> pcall_ok kind s k ->
  exists su stu ru, prun_u St choice kind s st k = Some (su, stu, ru) /\
    pinv kind su /\ pgood kind su (fst ru) /\ pcall_spec St choice kind s st k su stu ru /\
    (node_count su <= Nat.max cap (node_count s) ->
       prun_c St choice kind cap s st k = GOk su stu ru) /\
    (Nat.max cap (node_count s) < node_count su ->
       exists s' st', prun_c St choice kind cap s st k = GOom s' st' /\
         pinv kind s' /\ extends s s' /\ pintact kind s s' /\
         node_count s <= node_count s' /\ cap <= node_count s').
Proof. exact pick_exact. Qed.
Print Assumptions C14_pick_exact.

Theorem C14_pick_intact_meaning : forall kind s s', pintact kind s s' ->
  s_handles s' = s_handles s /\
  s_v2l s' = s_v2l s /\ s_l2v s' = s_l2v s /\ s_terms s' = s_terms s /\
  (forall id nd, find_node s id = Some nd -> find_node s' id = Some nd) /\
  (forall h, In h (s_handles s) -> forall c0, sem_edge s' (snd h) c0 = sem_edge s (snd h) c0) /\
  (forall id, find_node s id = None -> ~ reachable s' (handle_refs s') (RN id)) /\
  (forall r, reachable s' (handle_refs s') r <-> reachable s (handle_refs s) r).
Proof. exact pick_intact_meaning. Qed.
Print Assumptions C14_pick_intact_meaning.

Theorem C14_pick_inv_b_spec : forall kind s, pinv_b kind s = true <-> pinv kind s.
Proof. exact pinv_b_spec. Qed.
Print Assumptions C14_pick_inv_b_spec.

Theorem C14_pick_call_ok_decided : forall kind s k, pcall_ok_b kind s k = true <-> pcall_ok kind s k.
Proof. exact pcall_ok_b_spec. Qed.
Print Assumptions C14_pick_call_ok_decided.

Theorem C14_pick_nc_exact : forall kind cap s m k, pinv_b kind s = true -> pcall_ok_b kind s k = true ->
  prun_c unit (mask_choice m) kind cap s tt k <> GStuck /\
  exists su ru, prun_u unit (mask_choice m) kind s tt k = Some (su, tt, ru) /\
    pinv_b kind su = true /\ pedge_ok_b kind su (fst ru) = true /\
    pcall_spec unit (mask_choice m) kind s tt k su tt ru /\
    (node_count su <= Nat.max cap (node_count s) ->
       prun_c unit (mask_choice m) kind cap s tt k = GOk su tt ru) /\
    (Nat.max cap (node_count s) < node_count su ->
       exists s', prun_c unit (mask_choice m) kind cap s tt k = GOom s' tt /\
         pinv_b kind s' = true /\ extends s s' /\ pintact kind s s' /\
         node_count s <= node_count s' /\ cap <= node_count s').
Proof. exact pick_nc_exact. Qed.
Print Assumptions C14_pick_nc_exact.

Theorem C14_pick_nc_eq : forall kind cap s m e set,
  pick_dd_nc kind cap s m e = prun_c unit (mask_choice m) kind cap s tt (PKDd e) /\
  pick_dd_set_nc kind cap s e set = prun_c unit (mask_choice (fun _ => false)) kind cap s tt (PKSet e set) /\
  pick_dd_unc kind s m e = prun_u unit (mask_choice m) kind s tt (PKDd e) /\
  pick_dd_set_unc kind s e set = prun_u unit (mask_choice (fun _ => false)) kind s tt (PKSet e set).
Proof. exact pick_nc_eq. Qed.
Print Assumptions C14_pick_nc_eq.

(** non-vacuity *)
Theorem C14_pick_example_hyps :
  ((pinv PBdd exp3 /\ node_count exp3 = 8) /\
   (pinv PBcdd exc3 /\ node_count exc3 = 6) /\
   (pinv PZbdd exz8 /\ node_count exz8 = 8)) /\
  ((pcall_ok PBdd exp3 (PKDd (E (RN 8))) /\ pcall_ok PBdd exp3 (PKSet (E (RN 8)) (E (RT 1))) /\
    pcall_ok PBdd exp3 (PKSet (E (RN 8)) (E (RN 5))) /\ pcall_ok PBdd exp3 (PKSet (E (RN 6)) (E (RN 4)))) /\
   (pcall_ok PBcdd exc3 (PKDd n6) /\ pcall_ok PBcdd exc3 (PKSet n6 (ce 4))) /\
   (pcall_ok PZbdd exz8 (PKDd (E (RN 8))) /\ pcall_ok PZbdd exz8 (PKDd (E (RN 3))) /\
    pcall_ok PZbdd exz8 (PKSet (E (RN 8)) (E (RN 7))) /\ pcall_ok PZbdd exz8 (PKSet (E (RN 8)) (E (RT 1))))).
Proof. exact (conj pick_ex_inv pick_ex_calls_ok). Qed.
Print Assumptions C14_pick_example_hyps.

Theorem C14_pick_example_garbage :
  match pick_dd_nc PBdd 9 exp3 (fun _ => false) (E (RN 8)) with
  | GOom s' _ =>
      s_handles s' = s_handles exp3 /\ pinv_b PBdd s' = true /\ node_count s' = 9 /\
      forallb (fun p => match find_node s' (fst p) with
                        | Some nd => same_node nd (snd p) | None => false end)
              (PositiveMap.elements (s_nodes exp3)) = true
  | _ => False
  end.
Proof. exact exp3_dd_garbage. Qed.
Print Assumptions C14_pick_example_garbage.

Theorem C14_pick_example_exact : forall cap,
  ((10 <= cap -> gres_code (pick_dd_nc PBdd cap exp3 (fun _ => false) (E (RN 8))) = 0) /\
   (cap < 10 -> exists s', pick_dd_nc PBdd cap exp3 (fun _ => false) (E (RN 8)) = GOom s' tt /\
      pinv PBdd s' /\ extends exp3 s' /\ pintact PBdd exp3 s' /\ cap <= node_count s')) /\
  ((10 <= cap -> gres_code (pick_dd_set_nc PBdd cap exp3 (E (RN 8)) (E (RT 1))) = 0) /\
   (cap < 10 -> exists s', pick_dd_set_nc PBdd cap exp3 (E (RN 8)) (E (RT 1)) = GOom s' tt /\
      pinv PBdd s' /\ extends exp3 s' /\ pintact PBdd exp3 s' /\ cap <= node_count s')) /\
  ((8 <= cap -> gres_code (pick_dd_nc PBcdd cap exc3 (fun l => Nat.eqb l 1) n6) = 0) /\
   (cap < 8 -> exists s', pick_dd_nc PBcdd cap exc3 (fun l => Nat.eqb l 1) n6 = GOom s' tt /\
      pinv PBcdd s' /\ extends exc3 s' /\ pintact PBcdd exc3 s' /\ cap <= node_count s')) /\
  ((8 <= cap -> gres_code (pick_dd_set_nc PBcdd cap exc3 n6 (ce 4)) = 0) /\
   (cap < 8 -> exists s', pick_dd_set_nc PBcdd cap exc3 n6 (ce 4) = GOom s' tt /\
      pinv PBcdd s' /\ extends exc3 s' /\ pintact PBcdd exc3 s' /\ cap <= node_count s')) /\
  ((10 <= cap -> gres_code (pick_dd_nc PZbdd cap exz8 (fun _ => true) (E (RN 8))) = 0) /\
   (cap < 10 -> exists s', pick_dd_nc PZbdd cap exz8 (fun _ => true) (E (RN 8)) = GOom s' tt /\
      pinv PZbdd s' /\ extends exz8 s' /\ pintact PZbdd exz8 s' /\ cap <= node_count s')) /\
  ((10 <= cap -> gres_code (pick_dd_set_nc PZbdd cap exz8 (E (RN 8)) (E (RN 7))) = 0) /\
   (cap < 10 -> exists s', pick_dd_set_nc PZbdd cap exz8 (E (RN 8)) (E (RN 7)) = GOom s' tt /\
      pinv PZbdd s' /\ extends exz8 s' /\ pintact PZbdd exz8 s' /\ cap <= node_count s')).
Proof. exact pick_ex_exact. Qed.
Print Assumptions C14_pick_example_exact.

(* ------------------------------------------------------------------------------------------------
   STORECONC: OutOfMemory of `get_or_insert` in the composed model Mgr/Core.v (unique table of Conc.v
   on the store of IndexStore.v on the allocator of Alloc.v) *)
From OxiVerif Require Mgr.Alloc Mgr.AllocProofs Mgr.IndexStore Mgr.Core Mgr.CoreProofs Mgr.CoreThms Mgr.CoreExamples.

(* the manager is intact: same entries (ids, levels, children), same hash-table edges, same nodes in
   the store; the only count changes are the releases of the child edges the call consumed (the
   state is the one after the thread's own ARelease of each of them); the invariant holds *)
Theorem C14_core_goi_oom_intact : forall k terms nl c s tid lvl ch s' rs,
  CoreProofs.KInv k terms nl c s ->
  Core.kstep k terms nl c s (Core.KGoi tid lvl ch) = Some (s', Core.KROom, rs) ->
  Core.k_cn s' = Conc.dec_children (Core.k_cn s) ch /\
  Conc.cn_shape (Core.k_cn s') = Conc.cn_shape (Core.k_cn s) /\ Core.k_hd s' = Core.k_hd s /\
  (forall j, IndexStore.nget (IndexStore.i_nodes (Core.k_i s')) j <> None <->
             IndexStore.nget (IndexStore.i_nodes (Core.k_i s)) j <> None) /\
  Conc.run k terms nl (Core.kproj s) (map (Conc.ARelease tid) ch) = Some (Core.kproj s') /\
  (exists lk, rs = [IndexStore.IROom lk]) /\ CoreProofs.KInv k terms nl c s'.
Proof. exact CoreThms.goi_oom_intact. Qed.
Print Assumptions C14_core_goi_oom_intact.

(* one thread (no slot parked with another thread): a `get_or_insert` of a node that is not in the
   table fails IFF all capacity slots hold table entries, live or dead *)
Theorem C14_core_goi_oom_single : forall k terms nl c s tid l lvl ch s' r rs,
  CoreProofs.KInv k terms nl c s ->
  nth_error (Alloc.th (IndexStore.i_al (Core.k_i s))) tid = Some l ->
  AllocProofs.others_idle_p c (IndexStore.i_al (Core.k_i s)) tid ->
  Core.kstep k terms nl c s (Core.KGoi tid lvl ch) = Some (s', r, rs) ->
  Conc.find_shape (Core.k_cn s) lvl ch = None ->
  (r = Core.KROom <-> length (Core.k_cn s) = N.to_nat (Alloc.cap c)).
Proof. exact CoreThms.goi_oom_single. Qed.
Print Assumptions C14_core_goi_oom_single.

(* PARTIAL.  Full statement (not proved): "after a whole collection a retry succeeds iff some node
   was dead".  Proved: the collection keeps the invariant and the retry fails iff the table still
   fills the store.  Missing: [kproj (kcollect c t s) = collect (kproj s)] for every state (it holds
   on the example below), which with C05_sm_collect_count gives length = number of reachable nodes *)
Theorem C14_core_retry_after_gc_partial : forall k terms nl c t s s1,
  CoreProofs.KInv k terms nl c s -> s1 = Core.kcollect k terms nl c t s ->
  CoreProofs.KInv k terms nl c s1 /\
  forall tid l lvl ch s' r rs,
    nth_error (Alloc.th (IndexStore.i_al (Core.k_i s1))) tid = Some l ->
    AllocProofs.others_idle_p c (IndexStore.i_al (Core.k_i s1)) tid ->
    Core.kstep k terms nl c s1 (Core.KGoi tid lvl ch) = Some (s', r, rs) ->
    Conc.find_shape (Core.k_cn s1) lvl ch = None ->
    (r = Core.KROom <-> length (Core.k_cn s1) = N.to_nat (Alloc.cap c)).
Proof. exact CoreThms.retry_after_gc_partial. Qed.
Print Assumptions C14_core_retry_after_gc_partial.

(* the example: full store, OutOfMemory (6 entries before and after, two tokens consumed), a whole
   collection = Conc's [collect] on the projection removes the dead node, the retry gets its slot *)
Theorem C14_core_oom_retry_example :
  (exists s s', Core.kstep Table.KBdd CoreExamples.kx_terms 4 AllocExamples.ex_cfg s
                  (Core.KGoi 0 0 [CoreExamples.KE 6; CoreExamples.KE 7]) = Some (s', Core.KROom, [IndexStore.IROom false]) /\
                length (Core.k_cn s) = 6 /\ map fst (Core.k_cn s') = map fst (Core.k_cn s)) /\
  (exists s, let s1 := Core.kcollect Table.KBdd CoreExamples.kx_terms 4 AllocExamples.ex_cfg 2 s in
     Core.kproj s1 = ConcGc.collect Table.KBdd CoreExamples.kx_terms 4 (Core.kproj s) /\
     map fst (Core.k_cn s1) = [7; 5; 3; 4; 2]%positive /\
     option_map (fun x => snd (fst x))
       (Core.krun Table.KBdd CoreExamples.kx_terms 4 AllocExamples.ex_cfg s1
          [Core.KInternal (Alloc.AGcFlush 2); Core.KGoi 0 0 [CoreExamples.KT0; CoreExamples.KT1]]) =
     Some [Core.KRObs (Alloc.OFlush 6); Core.KRNew 6]).
Proof.
  split.
  - destruct CoreExamples.kx_oom as (s & s' & _ & A & B & C & _). exists s, s'. auto.
  - destruct CoreExamples.kx_collect as (s & _ & A & B & _ & _ & C). exists s. auto.
Qed.
Print Assumptions C14_core_oom_retry_example.

(* ------------------------------------------------------------------------------------------------
   STORECONC2: the FULL retry theorem (C14_core_retry_after_gc_partial above is its corollary).
   The collector's removal step is enabled for every dead node in a KInv state ([kgc_progress]), so a
   whole collection by an existing thread t IS Conc's [collect] on the projection -- in every state *)
From OxiVerif Require Mgr.ConcGcCount Mgr.CoreProgress Mgr.CoreProgressExamples.

Theorem C14_core_collect_proj : forall k terms nl c t s,
  CoreProofs.KInv k terms nl c s -> t < CoreProgress.nthreads s ->
  Core.kproj (Core.kcollect k terms nl c t s) = ConcGc.collect k terms nl (Core.kproj s) /\
  CoreProgress.nthreads (Core.kcollect k terms nl c t s) = CoreProgress.nthreads s.
Proof. exact CoreProgress.kcollect_proj. Qed.
Print Assumptions C14_core_collect_proj.

(* [s]: any state of the manager (KInv); the existing thread t runs `Manager::gc` (s1); then any
   allocator-internal actions (the collector's epilogue AGcFlush t, guard drops, ...) (s2); then thread
   tid -- no slot is parked with another thread -- calls `get_or_insert` for a node that is not in
   the table.  The table after the collection = the entries that some owned edge reaches; the call
   fails IFF the table filled the store before the collection AND no stored node was dead
   ([kdead]: stored, reached by no owned edge of any thread); it succeeds IFF there was room or some
   stored node was dead -- after a failure on a full store: iff some stored node was dead *)
Theorem C14_core_retry_after_gc : forall k terms nl c t s s1,
  CoreProofs.KInv k terms nl c s -> t < CoreProgress.nthreads s -> s1 = Core.kcollect k terms nl c t s ->
  CoreProofs.KInv k terms nl c s1 /\ Core.kproj s1 = ConcGc.collect k terms nl (Core.kproj s) /\
  (forall id, In id (map fst (Core.k_cn s1)) <-> In id (map fst (Core.k_cn s)) /\ ~ CoreProgress.kdead s id) /\
  length (Core.k_cn s) = length (Core.k_cn s1) + length (ConcGcCount.garbage nl (Core.kproj s)) /\
  (forall id, In id (ConcGcCount.garbage nl (Core.kproj s)) <-> CoreProgress.kdead s id) /\
  forall ias s2 xs2 rs2 tid l lvl ch s' r rs,
    Core.krun k terms nl c s1 (map Core.KInternal ias) = Some (s2, xs2, rs2) ->
    nth_error (Alloc.th (IndexStore.i_al (Core.k_i s2))) tid = Some l ->
    AllocProofs.others_idle_p c (IndexStore.i_al (Core.k_i s2)) tid ->
    Core.kstep k terms nl c s2 (Core.KGoi tid lvl ch) = Some (s', r, rs) ->
    Conc.find_shape (Core.k_cn s2) lvl ch = None ->
    CoreProofs.KInv k terms nl c s2 /\ Core.k_cn s2 = Core.k_cn s1 /\
    (r = Core.KROom <-> length (Core.k_cn s) = N.to_nat (Alloc.cap c) /\ forall id, ~ CoreProgress.kdead s id) /\
    ((exists fr, r = Core.KRNew fr) <->
     length (Core.k_cn s) < N.to_nat (Alloc.cap c) \/ exists id, CoreProgress.kdead s id).
Proof. exact CoreProgress.retry_after_gc. Qed.
Print Assumptions C14_core_retry_after_gc.

(* the statement in the words of the property: the store was full (the failed call), then a whole
   collection and the retry: it succeeds iff some stored node was dead *)
Theorem C14_core_retry_after_gc_full_store : forall k terms nl c t s s2 xs2 rs2 ias tid l lvl ch s' r rs,
  CoreProofs.KInv k terms nl c s -> t < CoreProgress.nthreads s ->
  length (Core.k_cn s) = N.to_nat (Alloc.cap c) ->
  Core.krun k terms nl c (Core.kcollect k terms nl c t s) (map Core.KInternal ias) = Some (s2, xs2, rs2) ->
  nth_error (Alloc.th (IndexStore.i_al (Core.k_i s2))) tid = Some l ->
  AllocProofs.others_idle_p c (IndexStore.i_al (Core.k_i s2)) tid ->
  Core.kstep k terms nl c s2 (Core.KGoi tid lvl ch) = Some (s', r, rs) ->
  Conc.find_shape (Core.k_cn s2) lvl ch = None ->
  ((exists fr, r = Core.KRNew fr) <-> exists id, CoreProgress.kdead s id) /\
  (r = Core.KROom <-> forall id, ~ CoreProgress.kdead s id).
Proof.
  intros k terms nl c t s s2 xs2 rs2 ias tid l lvl ch s' r rs HK Ht Hfull Hrun Hl Ho H Hfs.
  destruct (CoreProgress.retry_after_gc k terms nl c t s _ HK Ht eq_refl) as (_ & _ & _ & _ & _ & R).
  destruct (R ias s2 xs2 rs2 tid l lvl ch s' r rs Hrun Hl Ho H Hfs) as (_ & _ & R1 & R2). split.
  - rewrite R2. split; [intros [Hlt|D]; [rewrite Hfull in Hlt; exfalso; exact (Nat.lt_irrefl _ Hlt) | exact D] | intros D; right; exact D].
  - rewrite R1. split; [intros [_ D]; exact D | intros D; split; [exact Hfull | exact D]].
Qed.
Print Assumptions C14_core_retry_after_gc_full_store.

(* the hypotheses are satisfiable, both ways: on the run of Mgr/CoreExamples.v (full store, 6 entries)
   with node 6 dead the retry after the collection gets slot 6 (collector 2 + epilogue + thread 0, or
   the collector itself); one action earlier nothing is dead and the retry fails again *)
Theorem C14_core_retry_examples :
  (exists s, CoreProofs.kreachable Table.KBdd CoreExamples.kx_terms 4 AllocExamples.ex_cfg s /\
     2 < CoreProgress.nthreads s /\ length (Core.k_cn s) = N.to_nat (Alloc.cap AllocExamples.ex_cfg) /\
     CoreProgress.kdead s 6 /\
     let s1 := Core.kcollect Table.KBdd CoreExamples.kx_terms 4 AllocExamples.ex_cfg 2 s in
     (exists s2 xs2 rs2 l s' rs,
        Core.krun Table.KBdd CoreExamples.kx_terms 4 AllocExamples.ex_cfg s1 (map Core.KInternal [Alloc.AGcFlush 2]) = Some (s2, xs2, rs2) /\
        nth_error (Alloc.th (IndexStore.i_al (Core.k_i s2))) 0 = Some l /\
        AllocProofs.others_idle_p AllocExamples.ex_cfg (IndexStore.i_al (Core.k_i s2)) 0 /\
        Conc.find_shape (Core.k_cn s2) 0 [CoreExamples.KT0; CoreExamples.KT1] = None /\
        Core.kstep Table.KBdd CoreExamples.kx_terms 4 AllocExamples.ex_cfg s2 (Core.KGoi 0 0 [CoreExamples.KT0; CoreExamples.KT1]) =
          Some (s', Core.KRNew 6, rs)) /\
     (exists l s' rs,
        nth_error (Alloc.th (IndexStore.i_al (Core.k_i s1))) 2 = Some l /\
        AllocProofs.others_idle_p AllocExamples.ex_cfg (IndexStore.i_al (Core.k_i s1)) 2 /\
        Conc.find_shape (Core.k_cn s1) 0 [CoreExamples.KT0; CoreExamples.KT1] = None /\
        Core.kstep Table.KBdd CoreExamples.kx_terms 4 AllocExamples.ex_cfg s1 (Core.KGoi 2 0 [CoreExamples.KT0; CoreExamples.KT1]) =
          Some (s', Core.KRNew 6, rs))) /\
  (exists s, CoreProofs.kreachable Table.KBdd CoreExamples.kx_terms 4 AllocExamples.ex_cfg s /\
     2 < CoreProgress.nthreads s /\ length (Core.k_cn s) = N.to_nat (Alloc.cap AllocExamples.ex_cfg) /\
     (forall id, ~ CoreProgress.kdead s id) /\
     let s1 := Core.kcollect Table.KBdd CoreExamples.kx_terms 4 AllocExamples.ex_cfg 2 s in
     exists s2 xs2 rs2 l s' rs,
        Core.krun Table.KBdd CoreExamples.kx_terms 4 AllocExamples.ex_cfg s1 (map Core.KInternal [Alloc.AGcFlush 2]) = Some (s2, xs2, rs2) /\
        nth_error (Alloc.th (IndexStore.i_al (Core.k_i s2))) 0 = Some l /\
        AllocProofs.others_idle_p AllocExamples.ex_cfg (IndexStore.i_al (Core.k_i s2)) 0 /\
        Conc.find_shape (Core.k_cn s2) 0 [CoreExamples.KT0; CoreExamples.KT1] = None /\
        Core.kstep Table.KBdd CoreExamples.kx_terms 4 AllocExamples.ex_cfg s2 (Core.KGoi 0 0 [CoreExamples.KT0; CoreExamples.KT1]) =
          Some (s', Core.KROom, rs)).
Proof.
  split.
  - destruct CoreProgressExamples.kx_retry_dead as (s & A & _ & B & C & D & _ & E). exists s. auto.
  - destruct CoreProgressExamples.kx_retry_none_dead as (s & A & B & C & _ & D & E). exists s. auto.
Qed.
Print Assumptions C14_core_retry_examples.

(* ------------------------------------------------------------------------------------------ *)
(* 19. Package C14o: ownership (token) models of the zero-suppressed and the complement-edge
   rule sets (coq/Mgr/OomOwnZK.v = kind-generic primitives on tagged edges, OomOwnZ.v = ZBDD
   apply_union / intsec / diff, apply_not, apply_symm_diff, apply_ite incl. binary_ternary, the
   eight operators with the TWO-PHASE nand / nor / equiv; OomOwnC.v = BCDD reduce with its tag
   moves, apply_bin And / Xor, not_edge, the eight operators, apply_ite).  Same statements as
   section C14x (the C14_own family) for the plain BDD: for EVERY capacity (= every failure point), cache,
   recursor choice, operand order and fuel.  [eres] = EOk s' c r | EErr s' c | EStuck. *)
From OxiVerif Require Import Mgr.OomOwnZK Mgr.OomOwnZKProofs Mgr.OomOwnZGc Mgr.OomOwnZ Mgr.OomOwnZProofs
  Mgr.OomOwnZThms Mgr.OomOwnZExamples Mgr.OomOwnC Mgr.OomOwnCProofs Mgr.OomOwnCThms Mgr.OomOwnCExamples.

(* (1) BALANCE + FRAME + COUNTS-preservation, no hypothesis: after a result the thread owns the
   caller's tokens plus one for the result, after Err(OutOfMemory) exactly the caller's (multisets);
   the tokens of other owners - the ZBDD manager's tautology chain - are part of [cown s] and
   untouched; every old node keeps level and children; [CInv] is preserved.
   Statements in the order: apply_union / intsec / diff; apply_not; apply_symm_diff; apply_ite; the operator entry
   points of BooleanFunction for ZBDDFunction (and / or / xor / imp_strict one phase, imp through ite, nand / nor /
   equiv = set operation, then the complement with the intermediate result owned by an EdgeDropGuard) *)


Theorem C14_ownz_balance :
  (forall terms nl tid cap gt C cget cadd par fuel s (c : C) op f g,
  match zapply_o terms nl tid cap gt C cget cadd par guards_code fuel s c op f g with
  | EOk s' _ r => Permutation (cown s') (toke tid r ++ cown s) /\ ext s s' /\
                  (ConcProofs.CInv KZbdd terms nl s -> ConcProofs.CInv KZbdd terms nl s')
  | EErr s' _ => Permutation (cown s') (cown s) /\ ext s s' /\
                 (ConcProofs.CInv KZbdd terms nl s -> ConcProofs.CInv KZbdd terms nl s')
  | EStuck => True
  end) /\
  (forall terms nl tid cap gt C cget cadd par fuel s (c : C) f,
  match zapply_not_o terms nl tid cap gt C cget cadd par guards_code fuel s c f with
  | EOk s' _ r => Permutation (cown s') (toke tid r ++ cown s) /\ ext s s' /\
                  (ConcProofs.CInv KZbdd terms nl s -> ConcProofs.CInv KZbdd terms nl s')
  | EErr s' _ => Permutation (cown s') (cown s) /\ ext s s' /\
                 (ConcProofs.CInv KZbdd terms nl s -> ConcProofs.CInv KZbdd terms nl s')
  | EStuck => True
  end) /\
  (forall terms nl tid cap gt C cget cadd par fuel s (c : C) f g,
  match zsymm_o terms nl tid cap gt C cget cadd par guards_code fuel s c f g with
  | EOk s' _ r => Permutation (cown s') (toke tid r ++ cown s) /\ ext s s' /\
                  (ConcProofs.CInv KZbdd terms nl s -> ConcProofs.CInv KZbdd terms nl s')
  | EErr s' _ => Permutation (cown s') (cown s) /\ ext s s' /\
                 (ConcProofs.CInv KZbdd terms nl s -> ConcProofs.CInv KZbdd terms nl s')
  | EStuck => True
  end) /\
  (forall terms nl tid cap gt C cget cadd par fuel s (c : C) f g h,
  match zite_o terms nl tid cap gt C cget cadd par guards_code fuel s c f g h with
  | EOk s' _ r => Permutation (cown s') (toke tid r ++ cown s) /\ ext s s' /\
                  (ConcProofs.CInv KZbdd terms nl s -> ConcProofs.CInv KZbdd terms nl s')
  | EErr s' _ => Permutation (cown s') (cown s) /\ ext s s' /\
                 (ConcProofs.CInv KZbdd terms nl s -> ConcProofs.CInv KZbdd terms nl s')
  | EStuck => True
  end) /\
  (forall terms nl tid cap gt C cget cadd par fuel s (c : C) op f g,
  match zop_o terms nl tid cap gt C cget cadd par guards_code fuel s c op f g with
  | EOk s' _ r => Permutation (cown s') (toke tid r ++ cown s) /\ ext s s' /\
                  (ConcProofs.CInv KZbdd terms nl s -> ConcProofs.CInv KZbdd terms nl s')
  | EErr s' _ => Permutation (cown s') (cown s) /\ ext s s' /\
                 (ConcProofs.CInv KZbdd terms nl s -> ConcProofs.CInv KZbdd terms nl s')
  | EStuck => True
  end).
Proof. exact (conj ownz_balance_set (conj ownz_balance_not (conj ownz_balance_symm (conj ownz_balance_ite ownz_balance_op)))). Qed.
Print Assumptions C14_ownz_balance.

(* (3) ROLLBACK: after Err(OutOfMemory) `Manager::gc` (collect, Mgr/ConcGc.v) leaves exactly the nodes of the
   ORIGINAL table reachable from the caller's tokens, entry by entry (level, children, count) the table a
   collection of the state before the operation would have produced *)
Theorem C14_own_rolled_back_meaning : forall k terms nl s s',
  krolled_back k terms nl s s' <->
  (forall id,
    ((exists nd', cfind (cn (collect k terms nl s')) id = Some nd') <->
     (exists nd, cfind (cn s) id = Some nd) /\
     (exists o, In o (cown s) /\ creach (cn s) (eref (snd o)) (RN id))) /\
    (forall nd', cfind (cn (collect k terms nl s')) id = Some nd' ->
       exists nd, cfind (cn s) id = Some nd /\ cl nd' = cl nd /\ cch nd' = cch nd)) /\
  (forall id, cfind (cn (collect k terms nl s')) id = cfind (cn (collect k terms nl s)) id) /\
  Permutation (cown (collect k terms nl s')) (cown s).
Proof. intros. reflexivity. Qed.
Print Assumptions C14_own_rolled_back_meaning.

(* (2) COUNTS: as a snapshot of the manager after ANY outcome: well-formed, reference counts exact (set operations; not;
   symm_diff; ite; operators), and (3) ROLLBACK after Err(OutOfMemory) (set operations; ite; operators) *)
Theorem C14_ownz_counts_rollback :
  (forall terms nl tid cap gt C cget cadd par fuel s (c : C) op f g,
  ConcProofs.CInv KZbdd terms nl s -> terms_unique_b terms = true ->
  forall s', eres_st (zapply_o terms nl tid cap gt C cget cadd par guards_code fuel s c op f g) = Some s' ->
  ConcProofs.CInv KZbdd terms nl s' /\ WF (to_snap KZbdd terms nl s') /\ rc_exact_b (to_snap KZbdd terms nl s') [] = true) /\
  (forall terms nl tid cap gt C cget cadd par fuel s (c : C) f,
  ConcProofs.CInv KZbdd terms nl s -> terms_unique_b terms = true ->
  forall s', eres_st (zapply_not_o terms nl tid cap gt C cget cadd par guards_code fuel s c f) = Some s' ->
  ConcProofs.CInv KZbdd terms nl s' /\ WF (to_snap KZbdd terms nl s') /\ rc_exact_b (to_snap KZbdd terms nl s') [] = true) /\
  (forall terms nl tid cap gt C cget cadd par fuel s (c : C) f g,
  ConcProofs.CInv KZbdd terms nl s -> terms_unique_b terms = true ->
  forall s', eres_st (zsymm_o terms nl tid cap gt C cget cadd par guards_code fuel s c f g) = Some s' ->
  ConcProofs.CInv KZbdd terms nl s' /\ WF (to_snap KZbdd terms nl s') /\ rc_exact_b (to_snap KZbdd terms nl s') [] = true) /\
  (forall terms nl tid cap gt C cget cadd par fuel s (c : C) f g h,
  ConcProofs.CInv KZbdd terms nl s -> terms_unique_b terms = true ->
  forall s', eres_st (zite_o terms nl tid cap gt C cget cadd par guards_code fuel s c f g h) = Some s' ->
  ConcProofs.CInv KZbdd terms nl s' /\ WF (to_snap KZbdd terms nl s') /\ rc_exact_b (to_snap KZbdd terms nl s') [] = true) /\
  (forall terms nl tid cap gt C cget cadd par fuel s (c : C) op f g,
  ConcProofs.CInv KZbdd terms nl s -> terms_unique_b terms = true ->
  forall s', eres_st (zop_o terms nl tid cap gt C cget cadd par guards_code fuel s c op f g) = Some s' ->
  ConcProofs.CInv KZbdd terms nl s' /\ WF (to_snap KZbdd terms nl s') /\ rc_exact_b (to_snap KZbdd terms nl s') [] = true) /\
  (forall terms nl tid cap gt C cget cadd par fuel s (c : C) op f g s' c',
  ConcProofs.CInv KZbdd terms nl s ->
  zapply_o terms nl tid cap gt C cget cadd par guards_code fuel s c op f g = EErr s' c' ->
  krolled_back KZbdd terms nl s s') /\
  (forall terms nl tid cap gt C cget cadd par fuel s (c : C) f g h s' c',
  ConcProofs.CInv KZbdd terms nl s ->
  zite_o terms nl tid cap gt C cget cadd par guards_code fuel s c f g h = EErr s' c' ->
  krolled_back KZbdd terms nl s s') /\
  (forall terms nl tid cap gt C cget cadd par fuel s (c : C) op f g s' c',
  ConcProofs.CInv KZbdd terms nl s ->
  zop_o terms nl tid cap gt C cget cadd par guards_code fuel s c op f g = EErr s' c' ->
  krolled_back KZbdd terms nl s s').
Proof. exact (conj ownz_counts_set (conj ownz_counts_not (conj ownz_counts_symm (conj ownz_counts_ite (conj ownz_counts_op (conj ownz_err_collect_set (conj ownz_err_collect_ite ownz_err_collect_op))))))). Qed.
Print Assumptions C14_ownz_counts_rollback.

(* non-vacuity: [exz] = a two-variable ZBDD manager as the code builds it (tautology chain owned by the
   manager = tokens of owner 1, x0 and x1 owned by thread 0) satisfies the hypotheses; every outcome occurs;
   nand / equiv need two slots (two phases) and fail after the first phase with 6 slots *)
(* equiv with 6 slots: the symmetric difference created node 6, the complement ran out of memory; the guard
   released node 6 (count 0), the tokens are literally the caller's, the collection returns [exz] *)
(* teeth: seeded/C14g - equiv holding the symmetric difference as a bare edge while the complement runs
   (`let res = not(&xor)?; drop_edge(xor); Ok(res)`, [guards_late_equiv]): on [exz] with 6 slots the run fails
   owning one token MORE than before (BALANCE false) and after the collection node 6 - which did not exist
   before - is still stored (ROLLBACK false); the code's placement fails on the same input and satisfies the
   statement; with 7 slots (success) the variant is indistinguishable from the code *)
(* teeth: seeded/C14b - `binary_ternary` with the guards created after both `?` ([guards_late_bt]) on [exz3] (three
   variables; ite(x2, x0, node 5) with 9 slots = store full: the intersection branch is a unique-table hit, a new OWNED edge
   without allocation, the ite branch runs out of memory): one token more than before, and after the collection the entry
   of node 8 (its count) is not the one a collection of the original state yields; the code's placement fails on the same
   input and satisfies the statement *)
Theorem C14_ownz_example :
  (ConcProofs.CInv KZbdd zterms 2 exz /\ terms_unique_b zterms = true) /\
  (forall p,
  map (fun op => map (fun cap => zout (zop_on zterms 2 0 cap p guards_code exz op (RN 3) (RN 5))) [5; 6; 7; 8])
      [OAnd; ONand; ONor; OXor; OEquiv; OImp] =
  [ [(1, Some 5, Some 4, None, Some true); (0, Some 6, Some 5, Some (RN 6), Some true);
     (0, Some 6, Some 5, Some (RN 6), Some true); (0, Some 6, Some 5, Some (RN 6), Some true)];
    [(1, Some 5, Some 4, None, Some true); (1, Some 6, Some 4, None, Some true);
     (0, Some 7, Some 5, Some (RN 7), Some true); (0, Some 7, Some 5, Some (RN 7), Some true)];
    [(1, Some 5, Some 4, None, Some true); (0, Some 6, Some 4, Some (RT 1), Some true);
     (0, Some 6, Some 4, Some (RT 1), Some true); (0, Some 6, Some 4, Some (RT 1), Some true)];
    [(1, Some 5, Some 4, None, Some true); (0, Some 6, Some 5, Some (RN 6), Some true);
     (0, Some 6, Some 5, Some (RN 6), Some true); (0, Some 6, Some 5, Some (RN 6), Some true)];
    [(1, Some 5, Some 4, None, Some true); (1, Some 6, Some 4, None, Some true);
     (0, Some 7, Some 5, Some (RN 7), Some true); (0, Some 7, Some 5, Some (RN 7), Some true)];
    [(1, Some 5, Some 4, None, Some true); (0, Some 6, Some 5, Some (RN 6), Some true);
     (0, Some 6, Some 5, Some (RN 6), Some true); (0, Some 6, Some 5, Some (RN 6), Some true)] ]) /\
  (  match zop_on zterms 2 0 6 false guards_code exz OEquiv (RN 3) (RN 5) with
  | EErr s' _ =>
      cown s' = cown exz /\
      map (fun p => (fst p, crc (snd p))) (cn s') =
        [(6%positive, 0%N); (5%positive, 1%N); (4%positive, 3%N); (3%positive, 1%N);
         (2%positive, 1%N); (1%positive, 4%N)] /\
      collect KZbdd zterms 2 s' = exz
  | _ => False
  end) /\
  (forall p,
  (match zop_on zterms 2 0 6 p guards_late_equiv exz OEquiv (RN 3) (RN 5) with
   | EErr s' _ =>
       ~ Permutation (cown s') (cown exz) /\
       length (cown s') = S (length (cown exz)) /\
       exists id, cfind (cn exz) id = None /\
                  cfind (cn (collect KZbdd zterms 2 s')) id <> None
   | _ => False
   end) /\
  kown_post KZbdd zterms 2 0 unit exz (zop_on zterms 2 0 6 p guards_code exz OEquiv (RN 3) (RN 5)) /\
  eres_code (zop_on zterms 2 0 6 p guards_code exz OEquiv (RN 3) (RN 5)) = 1 /\
  zop_on zterms 2 0 7 p guards_late_equiv exz OEquiv (RN 3) (RN 5) =
  zop_on zterms 2 0 7 p guards_code exz OEquiv (RN 3) (RN 5)) /\
  (ConcProofs.CInv KZbdd zterms 3 exz3) /\
  (forall p,
  (match zite_on zterms 3 0 9 p guards_late_bt exz3 (RN 9) (RN 4) (RN 5) with
   | EErr s' _ =>
       ~ Permutation (cown s') (cown exz3) /\
       length (cown s') = S (length (cown exz3)) /\
       exists id, cfind (cn (collect KZbdd zterms 3 s')) id <> cfind (cn (collect KZbdd zterms 3 exz3)) id
   | _ => False
   end) /\
  kown_post KZbdd zterms 3 0 unit exz3 (zite_on zterms 3 0 9 p guards_code exz3 (RN 9) (RN 4) (RN 5)) /\
  eres_code (zite_on zterms 3 0 9 p guards_code exz3 (RN 9) (RN 4) (RN 5)) = 1).
Proof. exact (conj exz_inv (conj exz_ops (conj exz_equiv_garbage (conj ownz_balance_late_equiv_refuted (conj exz3_inv ownz_balance_late_bt_refuted))))). Qed.
Print Assumptions C14_ownz_example.

(* the complement-edge rule set: tokens are TAGGED edges ([toke tid e] = [(tid, e)] for an inner edge);
   `reduce` retags its two owned children and the returned edge, `not_owned` retags the result *)
(* apply_bin And / Xor; not_edge; the eight operators; apply_ite; last: not_edge is a tag flip on a clone, it allocates
   nothing and never reports out-of-memory *)
Theorem C14_ownc_balance :
  (forall terms nl tid cap lt C cget cadd par fuel s (c : C) op f g,
  match cbin_o terms nl tid cap lt C cget cadd par guards_code fuel s c op f g with
  | EOk s' _ r => Permutation (cown s') (toke tid r ++ cown s) /\ ext s s' /\
                  (ConcProofs.CInv KBcdd terms nl s -> ConcProofs.CInv KBcdd terms nl s')
  | EErr s' _ => Permutation (cown s') (cown s) /\ ext s s' /\
                 (ConcProofs.CInv KBcdd terms nl s -> ConcProofs.CInv KBcdd terms nl s')
  | EStuck => True
  end) /\
  (forall terms nl tid C s (c : C) f,
  match cnot_o terms tid C s c f with
  | EOk s' _ r => Permutation (cown s') (toke tid r ++ cown s) /\ ext s s' /\
                  (ConcProofs.CInv KBcdd terms nl s -> ConcProofs.CInv KBcdd terms nl s')
  | EErr s' _ => Permutation (cown s') (cown s) /\ ext s s' /\
                 (ConcProofs.CInv KBcdd terms nl s -> ConcProofs.CInv KBcdd terms nl s')
  | EStuck => True
  end) /\
  (forall terms nl tid cap lt C cget cadd par fuel s (c : C) o f g,
  match cop_o terms nl tid cap lt C cget cadd par guards_code fuel s c o f g with
  | EOk s' _ r => Permutation (cown s') (toke tid r ++ cown s) /\ ext s s' /\
                  (ConcProofs.CInv KBcdd terms nl s -> ConcProofs.CInv KBcdd terms nl s')
  | EErr s' _ => Permutation (cown s') (cown s) /\ ext s s' /\
                 (ConcProofs.CInv KBcdd terms nl s -> ConcProofs.CInv KBcdd terms nl s')
  | EStuck => True
  end) /\
  (forall terms nl tid cap lt C cget cadd par fuel s (c : C) f g h,
  match cite_o terms nl tid cap lt C cget cadd par guards_code fuel s c f g h with
  | EOk s' _ r => Permutation (cown s') (toke tid r ++ cown s) /\ ext s s' /\
                  (ConcProofs.CInv KBcdd terms nl s -> ConcProofs.CInv KBcdd terms nl s')
  | EErr s' _ => Permutation (cown s') (cown s) /\ ext s s' /\
                 (ConcProofs.CInv KBcdd terms nl s -> ConcProofs.CInv KBcdd terms nl s')
  | EStuck => True
  end) /\
  (forall terms tid C s (c : C) f,
  eres_code (cnot_o terms tid C s c f) <> 1).
Proof. exact (conj ownc_balance_bin (conj ownc_balance_not (conj ownc_balance_op (conj ownc_balance_ite ownc_not_never_oom)))). Qed.
Print Assumptions C14_ownc_balance.

(* COUNTS (operators; not_edge; ite) and ROLLBACK (operators; ite) *)
Theorem C14_ownc_counts_rollback :
  (forall terms nl tid cap lt C cget cadd par fuel s (c : C) o f g,
  ConcProofs.CInv KBcdd terms nl s -> terms_unique_b terms = true ->
  forall s', eres_st (cop_o terms nl tid cap lt C cget cadd par guards_code fuel s c o f g) = Some s' ->
  ConcProofs.CInv KBcdd terms nl s' /\ WF (to_snap KBcdd terms nl s') /\ rc_exact_b (to_snap KBcdd terms nl s') [] = true) /\
  (forall terms nl tid C s (c : C) f,
  ConcProofs.CInv KBcdd terms nl s -> terms_unique_b terms = true ->
  forall s', eres_st (cnot_o terms tid C s c f) = Some s' ->
  ConcProofs.CInv KBcdd terms nl s' /\ WF (to_snap KBcdd terms nl s') /\ rc_exact_b (to_snap KBcdd terms nl s') [] = true) /\
  (forall terms nl tid cap lt C cget cadd par fuel s (c : C) f g h,
  ConcProofs.CInv KBcdd terms nl s -> terms_unique_b terms = true ->
  forall s', eres_st (cite_o terms nl tid cap lt C cget cadd par guards_code fuel s c f g h) = Some s' ->
  ConcProofs.CInv KBcdd terms nl s' /\ WF (to_snap KBcdd terms nl s') /\ rc_exact_b (to_snap KBcdd terms nl s') [] = true) /\
  (forall terms nl tid cap lt C cget cadd par fuel s (c : C) o f g s' c',
  ConcProofs.CInv KBcdd terms nl s ->
  cop_o terms nl tid cap lt C cget cadd par guards_code fuel s c o f g = EErr s' c' ->
  krolled_back KBcdd terms nl s s') /\
  (forall terms nl tid cap lt C cget cadd par fuel s (c : C) f g h s' c',
  ConcProofs.CInv KBcdd terms nl s ->
  cite_o terms nl tid cap lt C cget cadd par guards_code fuel s c f g h = EErr s' c' ->
  krolled_back KBcdd terms nl s s').
Proof. exact (conj ownc_counts_op (conj ownc_counts_not (conj ownc_counts_ite (conj ownc_err_collect_op ownc_err_collect_ite)))). Qed.
Print Assumptions C14_ownc_counts_rollback.

(* non-vacuity and teeth on [exc] (three variables, node 4 = (x0 ? x1 : x2), node 5 = (x0 ? x2 : not x1), five
   owned edges two of which are complemented) *)
(* last conjunct: the recursor guards created after both `?` (binary: and; ternary: ite), 6 slots: one token leaked, node 6
   survives the collection; the code's placement fails on the same inputs and satisfies the statement *)
Theorem C14_ownc_example :
  (ConcProofs.CInv KBcdd cterms 3 exc /\ terms_unique_b cterms = true) /\
  (forall p,
  map (fun op => map (fun cap => cout (cop_on cterms 3 0 cap p guards_code exc op (cN 4) (cN 5))) [5; 6; 7; 8])
      [OAnd; OXor; OEquiv] =
  [ [(1, Some 5, Some 5, None, Some true); (1, Some 6, Some 5, None, Some true);
     (1, Some 7, Some 5, None, Some true); (0, Some 8, Some 6, Some (cN 8), Some true)];
    [(1, Some 5, Some 5, None, Some true); (1, Some 6, Some 5, None, Some true);
     (0, Some 7, Some 6, Some (cNn 7), Some true); (0, Some 7, Some 6, Some (cNn 7), Some true)];
    [(1, Some 5, Some 5, None, Some true); (1, Some 6, Some 5, None, Some true);
     (0, Some 7, Some 6, Some (cN 7), Some true); (0, Some 7, Some 6, Some (cN 7), Some true)] ]) /\
  (  match cop_on cterms 3 0 6 false guards_code exc OAnd (cN 4) (cN 5) with
  | EErr s' _ =>
      cown s' = cown exc /\
      map (fun p => (fst p, crc (snd p))) (cn s') =
        [(6%positive, 0%N); (5%positive, 1%N); (4%positive, 1%N); (3%positive, 4%N);
         (2%positive, 3%N); (1%positive, 1%N)] /\
      collect KBcdd cterms 3 s' = exc
  | _ => False
  end) /\
  (forall p,
  (match cop_on cterms 3 0 6 p guards_late_all exc OAnd (cN 4) (cN 5) with
   | EErr s' _ =>
       ~ Permutation (cown s') (cown exc) /\
       length (cown s') = S (length (cown exc)) /\
       exists id, cfind (cn exc) id = None /\
                  cfind (cn (collect KBcdd cterms 3 s')) id <> None
   | _ => False
   end) /\
  (match cite_on cterms 3 0 6 p guards_late_ternary exc (cN 2) (cN 4) (cN 5) with
   | EErr s' _ =>
       ~ Permutation (cown s') (cown exc) /\
       length (cown s') = S (length (cown exc)) /\
       exists id, cfind (cn exc) id = None /\
                  cfind (cn (collect KBcdd cterms 3 s')) id <> None
   | _ => False
   end) /\
  kown_post KBcdd cterms 3 0 unit exc (cop_on cterms 3 0 6 p guards_code exc OAnd (cN 4) (cN 5)) /\
  eres_code (cop_on cterms 3 0 6 p guards_code exc OAnd (cN 4) (cN 5)) = 1 /\
  eres_code (cite_on cterms 3 0 6 p guards_code exc (cN 2) (cN 4) (cN 5)) = 1).
Proof. exact (conj exc_inv (conj exc_ops (conj exc_and_garbage ownc_balance_late_refuted))). Qed.
Print Assumptions C14_ownc_example.
