(** C14 - property theorems (proved in Mgr/OomProofs.v, Mgr/OomSafe.v,
    Mgr/OomGc.v, Mgr/OomExamples.v; model Mgr/Oom.v on top of DD/Apply.v).

    [apply_*_c] are the BDD apply algorithms of the code in the error monad of
    the code: a node store with [cap] slots ([get_or_insert_cap]: a unique
    table hit never fails, a NEW node fails when [cap] nodes are stored), every
    [?] propagates the failure, both recursors ([par n = false]: sequential,
    stops at the first failing branch; [par n = true]: the join of the parallel
    recursor, the sibling still runs and its edge is dropped).  [ROk s' c' r] =
    result, [ROom s' c'] = [Err(OutOfMemory)] with the table and cache at that
    point, [RStuck] = a panic ([unwrap]) or divergence (fuel).  The theorems
    hold for every cache implementation that only serves what was added
    ([lossy]), every (unobservable) operand order [gt], every capacity, either
    recursor at every depth, every fuel >= number of levels + 1. *)
From Coq Require Import List NArith PArith Bool Arith FMapPositive.
From OxiVerif Require Import DD.Table DD.TableProofs DD.Sem DD.Build DD.BuildProofs
  DD.Apply DD.ApplyProofs DD.ApplyEvalProofs Mgr.Oom Mgr.OomProofs Mgr.OomSafe Mgr.OomGc Mgr.OomExamples.
From Coq Require Import Permutation.
From OxiVerif Require Import Mgr.Conc Mgr.ConcProofs Mgr.ConcGc Mgr.ConcGcProofs
  Mgr.OomOwn Mgr.OomOwnProofs Mgr.OomOwnSafe Mgr.OomOwnGc Mgr.OomOwnThms Mgr.OomOwnExamples.
From OxiVerif Require Import DD.Quant Mgr.OomOwnQ Mgr.OomOwnQProofs Mgr.OomOwnQSafe Mgr.OomOwnQThms.
Import ListNotations.

(** ** 1. never a wrong handle: a result of the bounded run is literally the
    result (table, cache, edge) of the unbounded run of DD/Apply.v - no
    hypothesis at all *)

Theorem C14_oom_never_wrong_not : forall C cget cadd cap par fuel s (c : C) f s' c' r,
  apply_not_c C cget cadd cap par fuel s c f = ROk s' c' r ->
  apply_not C cget cadd fuel s c f = Some (s', c', r).
Proof. exact oom_never_wrong_not. Qed.
Print Assumptions C14_oom_never_wrong_not.

Theorem C14_oom_never_wrong_bin : forall gt C cget cadd cap par op fuel s (c : C) f g s' c' r,
  apply_bin_c gt C cget cadd cap par fuel s c op f g = ROk s' c' r ->
  apply_bin gt C cget cadd fuel s c op f g = Some (s', c', r).
Proof. exact oom_never_wrong_bin. Qed.
Print Assumptions C14_oom_never_wrong_bin.

Theorem C14_oom_never_wrong_ite : forall gt C cget cadd cap par fuel s (c : C) f g h s' c' r,
  apply_ite_c gt C cget cadd cap par fuel s c f g h = ROk s' c' r ->
  apply_ite gt C cget cadd fuel s c f g h = Some (s', c', r).
Proof. exact oom_never_wrong_ite. Qed.
Print Assumptions C14_oom_never_wrong_ite.

(** ... hence (C02) it denotes the pointwise connective of the operands, in a
    well-formed table in which everything that existed before is intact *)

Theorem C14_oom_never_wrong_not_sem : forall C cget cadd, lossy cget cadd ->
  forall cap par fuel s (c : C) f s' c' r,
  BddOK s -> CacheOK cget s c -> ref_ok s f -> S (nlevels s) <= fuel ->
  apply_not_c C cget cadd cap par fuel s c f = ROk s' c' r ->
  BddOK s' /\ CacheOK cget s' c' /\ intact s s' /\ ref_ok s' r /\
  forall c0, bchoice c0 -> exists x,
    semk s (S (nlevels s)) f c0 = Some (b2c x) /\
    semk s' (S (nlevels s')) r c0 = Some (b2c (negb x)).
Proof. exact oom_never_wrong_not_sem. Qed.
Print Assumptions C14_oom_never_wrong_not_sem.

Theorem C14_oom_never_wrong_bin_sem : forall gt C cget cadd, lossy cget cadd ->
  forall cap par op fuel s (c : C) f g s' c' r,
  BddOK s -> CacheOK cget s c -> ref_ok s f -> ref_ok s g -> S (nlevels s) <= fuel ->
  apply_bin_c gt C cget cadd cap par fuel s c op f g = ROk s' c' r ->
  BddOK s' /\ CacheOK cget s' c' /\ intact s s' /\ ref_ok s' r /\
  forall c0, bchoice c0 -> exists x y,
    semk s (S (nlevels s)) f c0 = Some (b2c x) /\
    semk s (S (nlevels s)) g c0 = Some (b2c y) /\
    semk s' (S (nlevels s')) r c0 = Some (b2c (eval_bop op x y)).
Proof. exact oom_never_wrong_bin_sem. Qed.
Print Assumptions C14_oom_never_wrong_bin_sem.

Theorem C14_oom_never_wrong_ite_sem : forall gt C cget cadd, lossy cget cadd ->
  forall cap par fuel s (c : C) f g h s' c' r,
  BddOK s -> CacheOK cget s c -> ref_ok s f -> ref_ok s g -> ref_ok s h -> S (nlevels s) <= fuel ->
  apply_ite_c gt C cget cadd cap par fuel s c f g h = ROk s' c' r ->
  BddOK s' /\ CacheOK cget s' c' /\ intact s s' /\ ref_ok s' r /\
  forall c0, bchoice c0 -> exists x y z,
    semk s (S (nlevels s)) f c0 = Some (b2c x) /\
    semk s (S (nlevels s)) g c0 = Some (b2c y) /\
    semk s (S (nlevels s)) h c0 = Some (b2c z) /\
    semk s' (S (nlevels s')) r c0 = Some (b2c (if x then y else z)).
Proof. exact oom_never_wrong_ite_sem. Qed.
Print Assumptions C14_oom_never_wrong_ite_sem.

(** ** 2. after an out-of-memory error the manager is intact: the table is a
    well-formed BDD table with a correct cache, it extends the table before the
    operation, all handles are unchanged, valid and denote the same functions,
    the nodes the failed operation left behind are unreachable from every
    handle (a collection removes them); the failure really was for lack of
    space (the store is full) *)

Theorem C14_oom_safe_not : forall C cget cadd, lossy cget cadd ->
  forall cap par fuel s (c : C) f s' c',
  BddOK s -> CacheOK cget s c -> ref_ok s f -> S (nlevels s) <= fuel ->
  apply_not_c C cget cadd cap par fuel s c f = ROom s' c' ->
  BddOK s' /\ CacheOK cget s' c' /\ extends s s' /\ intact s s' /\
  node_count s <= node_count s' /\ cap <= node_count s'.
Proof. exact oom_safe_not. Qed.
Print Assumptions C14_oom_safe_not.

Theorem C14_oom_safe_bin : forall gt C cget cadd, lossy cget cadd ->
  forall cap par op fuel s (c : C) f g s' c',
  BddOK s -> CacheOK cget s c -> ref_ok s f -> ref_ok s g -> S (nlevels s) <= fuel ->
  apply_bin_c gt C cget cadd cap par fuel s c op f g = ROom s' c' ->
  BddOK s' /\ CacheOK cget s' c' /\ extends s s' /\ intact s s' /\
  node_count s <= node_count s' /\ cap <= node_count s'.
Proof. exact oom_safe_bin. Qed.
Print Assumptions C14_oom_safe_bin.

Theorem C14_oom_safe_ite : forall gt C cget cadd, lossy cget cadd ->
  forall cap par fuel s (c : C) f g h s' c',
  BddOK s -> CacheOK cget s c -> ref_ok s f -> ref_ok s g -> ref_ok s h -> S (nlevels s) <= fuel ->
  apply_ite_c gt C cget cadd cap par fuel s c f g h = ROom s' c' ->
  BddOK s' /\ CacheOK cget s' c' /\ extends s s' /\ intact s s' /\
  node_count s <= node_count s' /\ cap <= node_count s'.
Proof. exact oom_safe_ite. Qed.
Print Assumptions C14_oom_safe_ite.

(** what [intact s s'] says *)
Theorem C14_intact_meaning : forall s s', intact s s' ->
  s_handles s' = s_handles s /\
  s_v2l s' = s_v2l s /\ s_l2v s' = s_l2v s /\ s_terms s' = s_terms s /\
  (forall id nd, find_node s id = Some nd -> find_node s' id = Some nd) /\
  (forall r, ref_ok s r -> ref_ok s' r /\ forall k c0, semk s' k r c0 = semk s k r c0) /\
  (forall h, In h (s_handles s) -> forall c0, sem_edge s' (snd h) c0 = sem_edge s (snd h) c0) /\
  (forall id, find_node s id = None -> ~ reachable s' (handle_refs s') (RN id)) /\
  (forall r, reachable s' (handle_refs s') r <-> reachable s (handle_refs s) r).
Proof. exact intact_elim. Qed.
Print Assumptions C14_intact_meaning.

(** ** 3. no panic, no divergence: result or out-of-memory are the only outcomes *)

Theorem C14_oom_no_panic_not : forall C cget cadd, lossy cget cadd ->
  forall cap par fuel s (c : C) f,
  BddOK s -> CacheOK cget s c -> ref_ok s f -> S (nlevels s) <= fuel ->
  apply_not_c C cget cadd cap par fuel s c f <> RStuck.
Proof. exact oom_no_panic_not. Qed.
Print Assumptions C14_oom_no_panic_not.

Theorem C14_oom_no_panic_bin : forall gt C cget cadd, lossy cget cadd ->
  forall cap par op fuel s (c : C) f g,
  BddOK s -> CacheOK cget s c -> ref_ok s f -> ref_ok s g -> S (nlevels s) <= fuel ->
  apply_bin_c gt C cget cadd cap par fuel s c op f g <> RStuck.
Proof. exact oom_no_panic_bin. Qed.
Print Assumptions C14_oom_no_panic_bin.

Theorem C14_oom_no_panic_ite : forall gt C cget cadd, lossy cget cadd ->
  forall cap par fuel s (c : C) f g h,
  BddOK s -> CacheOK cget s c -> ref_ok s f -> ref_ok s g -> ref_ok s h -> S (nlevels s) <= fuel ->
  apply_ite_c gt C cget cadd cap par fuel s c f g h <> RStuck.
Proof. exact oom_no_panic_ite. Qed.
Print Assumptions C14_oom_no_panic_ite.

(** ** 4. exactness: with [su] the table the unbounded run produces, the bounded
    run returns exactly that (correct) result when [su] fits into the store (or
    no node had to be created), and out-of-memory - with the manager intact -
    otherwise *)

Theorem C14_oom_exact_not : forall C cget cadd, lossy cget cadd ->
  forall cap par fuel s (c : C) f,
  BddOK s -> CacheOK cget s c -> ref_ok s f -> S (nlevels s) <= fuel ->
  exists su cu ru, apply_not C cget cadd fuel s c f = Some (su, cu, ru) /\
    (forall c0, bchoice c0 -> exists x,
       semk s (S (nlevels s)) f c0 = Some (b2c x) /\
       semk su (S (nlevels su)) ru c0 = Some (b2c (negb x))) /\
    (node_count su <= Nat.max cap (node_count s) ->
       apply_not_c C cget cadd cap par fuel s c f = ROk su cu ru) /\
    (Nat.max cap (node_count s) < node_count su ->
       exists s' c', apply_not_c C cget cadd cap par fuel s c f = ROom s' c' /\
         BddOK s' /\ CacheOK cget s' c' /\ extends s s' /\ intact s s' /\
         node_count s <= node_count s' /\ cap <= node_count s').
Proof. exact oom_exact_not. Qed.
Print Assumptions C14_oom_exact_not.

Theorem C14_oom_exact_bin : forall gt C cget cadd, lossy cget cadd ->
  forall cap par op fuel s (c : C) f g,
  BddOK s -> CacheOK cget s c -> ref_ok s f -> ref_ok s g -> S (nlevels s) <= fuel ->
  exists su cu ru, apply_bin gt C cget cadd fuel s c op f g = Some (su, cu, ru) /\
    (forall c0, bchoice c0 -> exists x y,
       semk s (S (nlevels s)) f c0 = Some (b2c x) /\
       semk s (S (nlevels s)) g c0 = Some (b2c y) /\
       semk su (S (nlevels su)) ru c0 = Some (b2c (eval_bop op x y))) /\
    (node_count su <= Nat.max cap (node_count s) ->
       apply_bin_c gt C cget cadd cap par fuel s c op f g = ROk su cu ru) /\
    (Nat.max cap (node_count s) < node_count su ->
       exists s' c', apply_bin_c gt C cget cadd cap par fuel s c op f g = ROom s' c' /\
         BddOK s' /\ CacheOK cget s' c' /\ extends s s' /\ intact s s' /\
         node_count s <= node_count s' /\ cap <= node_count s').
Proof. exact oom_exact_bin. Qed.
Print Assumptions C14_oom_exact_bin.

Theorem C14_oom_exact_ite : forall gt C cget cadd, lossy cget cadd ->
  forall cap par fuel s (c : C) f g h,
  BddOK s -> CacheOK cget s c -> ref_ok s f -> ref_ok s g -> ref_ok s h -> S (nlevels s) <= fuel ->
  exists su cu ru, apply_ite gt C cget cadd fuel s c f g h = Some (su, cu, ru) /\
    (forall c0, bchoice c0 -> exists x y z,
       semk s (S (nlevels s)) f c0 = Some (b2c x) /\
       semk s (S (nlevels s)) g c0 = Some (b2c y) /\
       semk s (S (nlevels s)) h c0 = Some (b2c z) /\
       semk su (S (nlevels su)) ru c0 = Some (b2c (if x then y else z))) /\
    (node_count su <= Nat.max cap (node_count s) ->
       apply_ite_c gt C cget cadd cap par fuel s c f g h = ROk su cu ru) /\
    (Nat.max cap (node_count s) < node_count su ->
       exists s' c', apply_ite_c gt C cget cadd cap par fuel s c f g h = ROom s' c' /\
         BddOK s' /\ CacheOK cget s' c' /\ extends s s' /\ intact s s' /\
         node_count s <= node_count s' /\ cap <= node_count s').
Proof. exact oom_exact_ite. Qed.
Print Assumptions C14_oom_exact_ite.

(** whether the operation fails does not depend on the recursor *)
Theorem C14_oom_outcome_recursor_indep_not : forall C cget cadd, lossy cget cadd ->
  forall cap par par' fuel s (c : C) f,
  BddOK s -> CacheOK cget s c -> ref_ok s f -> S (nlevels s) <= fuel ->
  res_code (apply_not_c C cget cadd cap par fuel s c f) =
  res_code (apply_not_c C cget cadd cap par' fuel s c f).
Proof. exact oom_outcome_recursor_indep_not. Qed.
Print Assumptions C14_oom_outcome_recursor_indep_not.

Theorem C14_oom_outcome_recursor_indep_bin : forall gt C cget cadd, lossy cget cadd ->
  forall cap par par' op fuel s (c : C) f g,
  BddOK s -> CacheOK cget s c -> ref_ok s f -> ref_ok s g -> S (nlevels s) <= fuel ->
  res_code (apply_bin_c gt C cget cadd cap par fuel s c op f g) =
  res_code (apply_bin_c gt C cget cadd cap par' fuel s c op f g).
Proof. exact oom_outcome_recursor_indep_bin. Qed.
Print Assumptions C14_oom_outcome_recursor_indep_bin.

Theorem C14_oom_outcome_recursor_indep_ite : forall gt C cget cadd, lossy cget cadd ->
  forall cap par par' fuel s (c : C) f g h,
  BddOK s -> CacheOK cget s c -> ref_ok s f -> ref_ok s g -> ref_ok s h -> S (nlevels s) <= fuel ->
  res_code (apply_ite_c gt C cget cadd cap par fuel s c f g h) =
  res_code (apply_ite_c gt C cget cadd cap par' fuel s c f g h).
Proof. exact oom_outcome_recursor_indep_ite. Qed.
Print Assumptions C14_oom_outcome_recursor_indep_ite.

(** ** 5. retry and monotonicity (no hypothesis): whenever the table of the
    unbounded run fits, the bounded run succeeds with exactly that result; a
    success with capacity [cap] is the same success with every [cap' >= cap],
    under either recursor *)

Theorem C14_oom_retry_not : forall C cget cadd cap par fuel s (c : C) f su cu ru,
  apply_not C cget cadd fuel s c f = Some (su, cu, ru) -> node_count su <= cap ->
  apply_not_c C cget cadd cap par fuel s c f = ROk su cu ru.
Proof. exact oom_retry_not. Qed.
Print Assumptions C14_oom_retry_not.

Theorem C14_oom_retry_bin : forall gt C cget cadd cap par op fuel s (c : C) f g su cu ru,
  apply_bin gt C cget cadd fuel s c op f g = Some (su, cu, ru) -> node_count su <= cap ->
  apply_bin_c gt C cget cadd cap par fuel s c op f g = ROk su cu ru.
Proof. exact oom_retry_bin. Qed.
Print Assumptions C14_oom_retry_bin.

Theorem C14_oom_retry_ite : forall gt C cget cadd cap par fuel s (c : C) f g h su cu ru,
  apply_ite gt C cget cadd fuel s c f g h = Some (su, cu, ru) -> node_count su <= cap ->
  apply_ite_c gt C cget cadd cap par fuel s c f g h = ROk su cu ru.
Proof. exact oom_retry_ite. Qed.
Print Assumptions C14_oom_retry_ite.

Theorem C14_oom_monotone_not : forall C cget cadd cap cap' par par' fuel s (c : C) f s' c' r,
  cap <= cap' ->
  apply_not_c C cget cadd cap par fuel s c f = ROk s' c' r ->
  apply_not_c C cget cadd cap' par' fuel s c f = ROk s' c' r.
Proof. exact oom_monotone_not. Qed.
Print Assumptions C14_oom_monotone_not.

Theorem C14_oom_monotone_bin : forall gt C cget cadd cap cap' par par' op fuel s (c : C) f g s' c' r,
  cap <= cap' ->
  apply_bin_c gt C cget cadd cap par fuel s c op f g = ROk s' c' r ->
  apply_bin_c gt C cget cadd cap' par' fuel s c op f g = ROk s' c' r.
Proof. exact oom_monotone_bin. Qed.
Print Assumptions C14_oom_monotone_bin.

Theorem C14_oom_monotone_ite : forall gt C cget cadd cap cap' par par' fuel s (c : C) f g h s' c' r,
  cap <= cap' ->
  apply_ite_c gt C cget cadd cap par fuel s c f g h = ROk s' c' r ->
  apply_ite_c gt C cget cadd cap' par' fuel s c f g h = ROk s' c' r.
Proof. exact oom_monotone_ite. Qed.
Print Assumptions C14_oom_monotone_ite.

(** ** 6. variable creation (one insertion): the (negated) variable, or
    out-of-memory with the manager untouched, exactly when the store is full
    and the node does not exist yet *)

Theorem C14_oom_var_exact : forall cap s v neg, BddOK s -> v < nlevels s ->
  exists s' r, mk_var s v neg = Some (s', r) /\ BddOK s' /\ extends s s' /\ ref_ok s' r /\
    (forall a, bfun_of s' r a = xorb neg (var_s v a)) /\
    (node_count s' <= Nat.max cap (node_count s) -> mk_var_cap cap s v neg = Some (Some (s', r))) /\
    (Nat.max cap (node_count s) < node_count s' ->
       mk_var_cap cap s v neg = Some None /\ cap <= node_count s).
Proof. exact oom_var_exact. Qed.
Print Assumptions C14_oom_var_exact.

Theorem C14_oom_var_never_wrong : forall cap s v neg s' r,
  mk_var_cap cap s v neg = Some (Some (s', r)) -> mk_var s v neg = Some (s', r).
Proof. exact oom_var_never_wrong. Qed.
Print Assumptions C14_oom_var_never_wrong.

(** ** 7. once space has been freed the same operation succeeds.
    [with_handles s' hs]: handles dropped ([hs] remain); [collected t sg]: [sg]
    is [t] restricted to the nodes reachable from a handle (what gc leaves:
    C05).  The collected table is a well-formed sub-table, ... *)

Theorem C14_collected_ok : forall s sg, BddOK s -> collected s sg ->
  BddOK sg /\ extends sg s /\
  (forall h, In h (s_handles s) -> ref_ok sg (eref (snd h))) /\
  (forall r, ref_ok sg r -> forall k c0, semk sg k r c0 = semk s k r c0) /\
  (forall id nd, find_node sg id = Some nd -> reachable sg (handle_refs sg) (RN id)) /\
  node_count sg <= node_count s.
Proof. exact collected_ok. Qed.
Print Assumptions C14_collected_ok.

(** ... and after failure + drop + gc the retry of the same operation on the
    same operands is again "the correct result (w.r.t. the functions the
    operands denoted before the failure) iff it fits", now measured against the
    collected table, which holds none of the garbage of the failed attempt
    ([node_count sg <= node_count s]) *)

Theorem C14_oom_recover_not : forall C cget cadd, lossy cget cadd ->
  forall cap par fuel s (c : C) f s' c' hs sg cg,
  BddOK s -> CacheOK cget s c -> ref_ok s f -> S (nlevels s) <= fuel ->
  apply_not_c C cget cadd cap par fuel s c f = ROom s' c' ->
  incl hs (s_handles s') -> (exists k, In (k, E f) hs) ->
  collected (with_handles s' hs) sg -> CacheOK cget sg cg ->
  BddOK sg /\ node_count sg <= node_count s /\
  exists su cu ru, apply_not C cget cadd fuel sg cg f = Some (su, cu, ru) /\
    (forall c0, bchoice c0 -> exists x,
       semk s (S (nlevels s)) f c0 = Some (b2c x) /\
       semk su (S (nlevels su)) ru c0 = Some (b2c (negb x))) /\
    (node_count su <= Nat.max cap (node_count sg) ->
       apply_not_c C cget cadd cap par fuel sg cg f = ROk su cu ru) /\
    (Nat.max cap (node_count sg) < node_count su ->
       exists s2 c2, apply_not_c C cget cadd cap par fuel sg cg f = ROom s2 c2 /\
         BddOK s2 /\ CacheOK cget s2 c2 /\ extends sg s2 /\ intact sg s2 /\
         node_count sg <= node_count s2 /\ cap <= node_count s2).
Proof. exact oom_recover_not. Qed.
Print Assumptions C14_oom_recover_not.

Theorem C14_oom_recover_bin : forall gt C cget cadd, lossy cget cadd ->
  forall cap par op fuel s (c : C) f g s' c' hs sg cg,
  BddOK s -> CacheOK cget s c -> ref_ok s f -> ref_ok s g -> S (nlevels s) <= fuel ->
  apply_bin_c gt C cget cadd cap par fuel s c op f g = ROom s' c' ->
  incl hs (s_handles s') -> (exists k, In (k, E f) hs) -> (exists k, In (k, E g) hs) ->
  collected (with_handles s' hs) sg -> CacheOK cget sg cg ->
  BddOK sg /\ node_count sg <= node_count s /\
  exists su cu ru, apply_bin gt C cget cadd fuel sg cg op f g = Some (su, cu, ru) /\
    (forall c0, bchoice c0 -> exists x y,
       semk s (S (nlevels s)) f c0 = Some (b2c x) /\
       semk s (S (nlevels s)) g c0 = Some (b2c y) /\
       semk su (S (nlevels su)) ru c0 = Some (b2c (eval_bop op x y))) /\
    (node_count su <= Nat.max cap (node_count sg) ->
       apply_bin_c gt C cget cadd cap par fuel sg cg op f g = ROk su cu ru) /\
    (Nat.max cap (node_count sg) < node_count su ->
       exists s2 c2, apply_bin_c gt C cget cadd cap par fuel sg cg op f g = ROom s2 c2 /\
         BddOK s2 /\ CacheOK cget s2 c2 /\ extends sg s2 /\ intact sg s2 /\
         node_count sg <= node_count s2 /\ cap <= node_count s2).
Proof. exact oom_recover_bin. Qed.
Print Assumptions C14_oom_recover_bin.

Theorem C14_oom_recover_ite : forall gt C cget cadd, lossy cget cadd ->
  forall cap par fuel s (c : C) f g h s' c' hs sg cg,
  BddOK s -> CacheOK cget s c -> ref_ok s f -> ref_ok s g -> ref_ok s h -> S (nlevels s) <= fuel ->
  apply_ite_c gt C cget cadd cap par fuel s c f g h = ROom s' c' ->
  incl hs (s_handles s') ->
  (exists k, In (k, E f) hs) -> (exists k, In (k, E g) hs) -> (exists k, In (k, E h) hs) ->
  collected (with_handles s' hs) sg -> CacheOK cget sg cg ->
  BddOK sg /\ node_count sg <= node_count s /\
  exists su cu ru, apply_ite gt C cget cadd fuel sg cg f g h = Some (su, cu, ru) /\
    (forall c0, bchoice c0 -> exists x y z,
       semk s (S (nlevels s)) f c0 = Some (b2c x) /\
       semk s (S (nlevels s)) g c0 = Some (b2c y) /\
       semk s (S (nlevels s)) h c0 = Some (b2c z) /\
       semk su (S (nlevels su)) ru c0 = Some (b2c (if x then y else z))) /\
    (node_count su <= Nat.max cap (node_count sg) ->
       apply_ite_c gt C cget cadd cap par fuel sg cg f g h = ROk su cu ru) /\
    (Nat.max cap (node_count sg) < node_count su ->
       exists s2 c2, apply_ite_c gt C cget cadd cap par fuel sg cg f g h = ROom s2 c2 /\
         BddOK s2 /\ CacheOK cget s2 c2 /\ extends sg s2 /\ intact sg s2 /\
         node_count sg <= node_count s2 /\ cap <= node_count s2).
Proof. exact oom_recover_ite. Qed.
Print Assumptions C14_oom_recover_ite.

(** the collection hypothesis is satisfiable: a table without garbage is
    restored exactly by a collection after the failure *)
Theorem C14_gc_restores : forall s s', BddOK s -> extends s s' ->
  (forall id nd, find_node s id = Some nd -> reachable s (handle_refs s) (RN id)) ->
  collected (with_handles s' (s_handles s')) s.
Proof. exact gc_restores. Qed.
Print Assumptions C14_gc_restores.

(** ** 8. the hypotheses are satisfiable and every outcome occurs (concrete
    table [ex3]: 3 levels, 6 nodes, 5 handles) *)

Theorem C14_example_table : BddOK ex3 /\ rc_exact_b ex3 [] = true /\ node_count ex3 = 6.
Proof. exact ex3_ok. Qed.
Print Assumptions C14_example_table.

(* capacity 0, 6 (full): immediate failure, table untouched; 7, 8: failure after
   one resp. two nodes were created; 9: the result *)
Theorem C14_example_not :
  map (fun cap => out (not_nc cap false ex3 (RN 5))) [0; 6; 7; 8; 9; 10] =
  [(1, Some 6, None); (1, Some 6, None); (1, Some 7, None); (1, Some 8, None);
   (0, Some 9, Some (RN 9)); (0, Some 9, Some (RN 9))].
Proof. exact ex3_not. Qed.
Print Assumptions C14_example_not.

Theorem C14_example_recursors :
  let run p := apply_bin_c gt_none acache ac_get ac_add 6 (fun _ => p) 4 ex3 [] OOr (RN 6) (RN 1) in
  (res_code (run false), cache_of (run false)) = (1, Some []) /\
  (res_code (run true), cache_of (run true)) = (1, Some [(2%N, [RN 4; RN 1], RN 1)]).
Proof. exact ex3_recursors. Qed.
Print Assumptions C14_example_recursors.

Theorem C14_example_recover : forall s' c',
  not_nc 8 false ex3 (RN 5) = ROom s' c' ->
  collected (with_handles s' (s_handles s')) ex3 /\
  (forall cap p, 9 <= cap -> exists su ru, not_nc cap p ex3 (RN 5) = ROk su tt ru).
Proof. exact ex3_recover. Qed.
Print Assumptions C14_example_recover.


(** ** 9. C14x - ownership of edges on the error paths ("releases everything it had
    acquired"), model Mgr/OomOwn.v: the same algorithms on the state of the interleaving
    model of Mgr/Conc.v (table WITH reference counts [crc] + multiset [cown] of owned
    edges), every clone_edge / drop_edge / get_or_insert / EdgeDropGuard / `?` explicit,
    guard placement of oxidd-rules-bdd/src/recursor.rs ([guards_code]).  [OOk s' c' r] /
    [OErr s' c'] = Err(OutOfMemory) / [OStuck] = double release, count underflow,
    violated get_or_insert precondition, failing unwrap, fuel.  For every capacity
    (= every failure point), cache, recursor [par], operand order [gt], fuel. *)

(* (1) BALANCE + frame + (2) exact counts, no hypothesis: on [OOk] the thread owns the
   caller's tokens plus one for the result, on [OErr] exactly the caller's tokens
   (multisets: nothing leaked, nothing double-released); every old node keeps level
   and children; [CInv] (counts = owners + parents) is preserved *)
Theorem C14_own_balance_not : forall terms nl tid cap C cget cadd par fuel s (c : C) f,
  match not_o terms nl tid cap C cget cadd par guards_code fuel s c f with
  | OOk s' _ r => Permutation (cown s') (tokr tid r ++ cown s) /\ ext s s' /\
                  (CInv KBdd terms nl s -> CInv KBdd terms nl s')
  | OErr s' _ => Permutation (cown s') (cown s) /\ ext s s' /\
                 (CInv KBdd terms nl s -> CInv KBdd terms nl s')
  | OStuck => True
  end.
Proof. exact own_balance_not. Qed.
Print Assumptions C14_own_balance_not.

Theorem C14_own_balance_bin : forall terms nl tid cap gt C cget cadd par fuel s (c : C) op f g,
  match bin_o terms nl tid cap gt C cget cadd par guards_code fuel s c op f g with
  | OOk s' _ r => Permutation (cown s') (tokr tid r ++ cown s) /\ ext s s' /\
                  (CInv KBdd terms nl s -> CInv KBdd terms nl s')
  | OErr s' _ => Permutation (cown s') (cown s) /\ ext s s' /\
                 (CInv KBdd terms nl s -> CInv KBdd terms nl s')
  | OStuck => True
  end.
Proof. exact own_balance_bin. Qed.
Print Assumptions C14_own_balance_bin.

Theorem C14_own_balance_ite : forall terms nl tid cap gt C cget cadd par fuel s (c : C) f g h,
  match ite_o terms nl tid cap gt C cget cadd par guards_code fuel s c f g h with
  | OOk s' _ r => Permutation (cown s') (tokr tid r ++ cown s) /\ ext s s' /\
                  (CInv KBdd terms nl s -> CInv KBdd terms nl s')
  | OErr s' _ => Permutation (cown s') (cown s) /\ ext s s' /\
                 (CInv KBdd terms nl s -> CInv KBdd terms nl s')
  | OStuck => True
  end.
Proof. exact own_balance_ite. Qed.
Print Assumptions C14_own_balance_ite.

(* the meaning of [ext] and of [CInv] (exact counts), spelled out *)
Theorem C14_own_ext_meaning : forall s s',
  ext s s' <-> forall id nd, cfind (cn s) id = Some nd ->
    exists nd', cfind (cn s') id = Some nd' /\ cl nd' = cl nd /\ cch nd' = cch nd.
Proof. exact ext_meaning. Qed.
Print Assumptions C14_own_ext_meaning.

(* (2) as a snapshot of the manager after ANY outcome: well-formed, reference counts exact
   (the audit rc_first_bad / rc_exact_b that checks/C14.py runs after every failing op) *)
Theorem C14_own_counts_not : forall terms nl tid cap C cget cadd par fuel s (c : C) f s',
  CInv KBdd terms nl s -> terms_unique_b terms = true ->
  ores_st (not_o terms nl tid cap C cget cadd par guards_code fuel s c f) = Some s' ->
  CInv KBdd terms nl s' /\ WF (to_snap KBdd terms nl s') /\ rc_exact_b (to_snap KBdd terms nl s') [] = true.
Proof. exact own_counts_not. Qed.
Print Assumptions C14_own_counts_not.

Theorem C14_own_counts_bin : forall terms nl tid cap gt C cget cadd par fuel s (c : C) op f g s',
  CInv KBdd terms nl s -> terms_unique_b terms = true ->
  ores_st (bin_o terms nl tid cap gt C cget cadd par guards_code fuel s c op f g) = Some s' ->
  CInv KBdd terms nl s' /\ WF (to_snap KBdd terms nl s') /\ rc_exact_b (to_snap KBdd terms nl s') [] = true.
Proof. exact own_counts_bin. Qed.
Print Assumptions C14_own_counts_bin.

Theorem C14_own_counts_ite : forall terms nl tid cap gt C cget cadd par fuel s (c : C) f g h s',
  CInv KBdd terms nl s -> terms_unique_b terms = true ->
  ores_st (ite_o terms nl tid cap gt C cget cadd par guards_code fuel s c f g h) = Some s' ->
  CInv KBdd terms nl s' /\ WF (to_snap KBdd terms nl s') /\ rc_exact_b (to_snap KBdd terms nl s') [] = true.
Proof. exact own_counts_ite. Qed.
Print Assumptions C14_own_counts_ite.

(* never stuck: no double release, no underflow, get_or_insert always gets owned edges to
   stored nodes below its level; the result is stored, the cache invariant is kept *)
Theorem C14_own_total_not : forall terms nl tid cap C cget cadd par,
  bterms_ok terms -> lossy cget cadd ->
  forall fuel s (c : C) f, CInv KBdd terms nl s -> COK terms nl C cget (cn s) c ->
  stored terms (cn s) f -> S nl <= fuel ->
  match not_o terms nl tid cap C cget cadd par guards_code fuel s c f with
  | OOk s' c' r => stored terms (cn s') r /\ COK terms nl C cget (cn s') c'
  | OErr s' c' => COK terms nl C cget (cn s') c'
  | OStuck => False
  end.
Proof. exact own_total_not. Qed.
Print Assumptions C14_own_total_not.

Theorem C14_own_total_bin : forall terms nl tid cap gt C cget cadd par,
  bterms_ok terms -> lossy cget cadd ->
  forall fuel s (c : C) op f g, CInv KBdd terms nl s -> COK terms nl C cget (cn s) c ->
  stored terms (cn s) f -> stored terms (cn s) g -> S nl <= fuel ->
  match bin_o terms nl tid cap gt C cget cadd par guards_code fuel s c op f g with
  | OOk s' c' r => stored terms (cn s') r /\ COK terms nl C cget (cn s') c'
  | OErr s' c' => COK terms nl C cget (cn s') c'
  | OStuck => False
  end.
Proof. exact own_total_bin. Qed.
Print Assumptions C14_own_total_bin.

Theorem C14_own_total_ite : forall terms nl tid cap gt C cget cadd par,
  bterms_ok terms -> lossy cget cadd ->
  forall fuel s (c : C) f g h, CInv KBdd terms nl s -> COK terms nl C cget (cn s) c ->
  stored terms (cn s) f -> stored terms (cn s) g -> stored terms (cn s) h -> S nl <= fuel ->
  match ite_o terms nl tid cap gt C cget cadd par guards_code fuel s c f g h with
  | OOk s' c' r => stored terms (cn s') r /\ COK terms nl C cget (cn s') c'
  | OErr s' c' => COK terms nl C cget (cn s') c'
  | OStuck => False
  end.
Proof. exact own_total_ite. Qed.
Print Assumptions C14_own_total_ite.

(* the cache invariant of the TOTAL statements, spelled out *)
Theorem C14_own_cok_meaning : forall terms nl C cget t (c : C),
  COK terms nl C cget t c <->
  forall code args h, cget c code args = Some h ->
    cref_ok_b terms t h = true /\ (forall r, In r args -> cref_ok_b terms t r = true) /\
    (N.ltb code 39 = true -> minlvl nl t args <= crlevel nl t h).
Proof. exact cok_meaning. Qed.
Print Assumptions C14_own_cok_meaning.

(* (3) ROLLBACK: after Err, without dropping anything else, the collection of Mgr/ConcGc.v
   (= Manager::gc, C05) leaves exactly the nodes of the ORIGINAL table reachable from the
   caller's tokens, with their level and children; entry by entry (count included) it is
   the table a collection of the state before the operation would have produced *)
Theorem C14_own_err_collect_not : forall terms nl tid cap C cget cadd par fuel s (c : C) f s' c',
  CInv KBdd terms nl s ->
  not_o terms nl tid cap C cget cadd par guards_code fuel s c f = OErr s' c' ->
  (forall id,
    ((exists nd', cfind (cn (collect KBdd terms nl s')) id = Some nd') <->
     (exists nd, cfind (cn s) id = Some nd) /\
     (exists o, In o (cown s) /\ creach (cn s) (eref (snd o)) (RN id))) /\
    (forall nd', cfind (cn (collect KBdd terms nl s')) id = Some nd' ->
       exists nd, cfind (cn s) id = Some nd /\ cl nd' = cl nd /\ cch nd' = cch nd)) /\
  (forall id, cfind (cn (collect KBdd terms nl s')) id = cfind (cn (collect KBdd terms nl s)) id) /\
  Permutation (cown (collect KBdd terms nl s')) (cown s).
Proof. exact own_err_collect_not. Qed.
Print Assumptions C14_own_err_collect_not.

Theorem C14_own_err_collect_bin : forall terms nl tid cap gt C cget cadd par fuel s (c : C) op f g s' c',
  CInv KBdd terms nl s ->
  bin_o terms nl tid cap gt C cget cadd par guards_code fuel s c op f g = OErr s' c' ->
  (forall id,
    ((exists nd', cfind (cn (collect KBdd terms nl s')) id = Some nd') <->
     (exists nd, cfind (cn s) id = Some nd) /\
     (exists o, In o (cown s) /\ creach (cn s) (eref (snd o)) (RN id))) /\
    (forall nd', cfind (cn (collect KBdd terms nl s')) id = Some nd' ->
       exists nd, cfind (cn s) id = Some nd /\ cl nd' = cl nd /\ cch nd' = cch nd)) /\
  (forall id, cfind (cn (collect KBdd terms nl s')) id = cfind (cn (collect KBdd terms nl s)) id) /\
  Permutation (cown (collect KBdd terms nl s')) (cown s).
Proof. exact own_err_collect_bin. Qed.
Print Assumptions C14_own_err_collect_bin.

Theorem C14_own_err_collect_ite : forall terms nl tid cap gt C cget cadd par fuel s (c : C) f g h s' c',
  CInv KBdd terms nl s ->
  ite_o terms nl tid cap gt C cget cadd par guards_code fuel s c f g h = OErr s' c' ->
  (forall id,
    ((exists nd', cfind (cn (collect KBdd terms nl s')) id = Some nd') <->
     (exists nd, cfind (cn s) id = Some nd) /\
     (exists o, In o (cown s) /\ creach (cn s) (eref (snd o)) (RN id))) /\
    (forall nd', cfind (cn (collect KBdd terms nl s')) id = Some nd' ->
       exists nd, cfind (cn s) id = Some nd /\ cl nd' = cl nd /\ cch nd' = cch nd)) /\
  (forall id, cfind (cn (collect KBdd terms nl s')) id = cfind (cn (collect KBdd terms nl s)) id) /\
  Permutation (cown (collect KBdd terms nl s')) (cown s).
Proof. exact own_err_collect_ite. Qed.
Print Assumptions C14_own_err_collect_ite.

(* (4) the statements have teeth: with the recursor's guards created only after the second
   `?` (the seeded ownership slip of ParallelRecursor::ternary; [p]: parallel / sequential)
   a concrete run (table [ex3o], 8 slots, if x2 then x0 else x1) fails with one token more
   than before - BALANCE is false - and after the collection a node that did not exist
   before is still stored - ROLLBACK is false; the code's placement fails on the same
   input too and satisfies both *)
Theorem C14_own_balance_late_ternary_refuted : forall p,
  (match ite_on ex_terms 3 0 8 p guards_late_ternary ex3o (RN 1) (RN 3) (RN 2) with
   | OErr s' _ =>
       ~ Permutation (cown s') (cown ex3o) /\
       length (cown s') = S (length (cown ex3o)) /\
       exists id, cfind (cn ex3o) id = None /\
                  cfind (cn (collect KBdd ex_terms 3 s')) id <> None
   | _ => False
   end) /\
  own_post ex_terms 3 0 unit ex3o (ite_on ex_terms 3 0 8 p guards_code ex3o (RN 1) (RN 3) (RN 2)) /\
  ores_code (ite_on ex_terms 3 0 8 p guards_code ex3o (RN 1) (RN 3) (RN 2)) = 1.
Proof. exact own_balance_late_ternary_refuted. Qed.
Print Assumptions C14_own_balance_late_ternary_refuted.

Theorem C14_own_balance_late_unary_binary_refuted : forall p,
  leaks ex3o (not_on ex_terms 3 0 8 p guards_late_all ex3o (RN 6)) /\
  leaks ex3o (bin_on ex_terms 3 0 8 p guards_late_all ex3o OXor (RN 1) (RN 6)).
Proof. exact own_balance_late_unary_binary_refuted. Qed.
Print Assumptions C14_own_balance_late_unary_binary_refuted.

(* non-vacuity: [ex3o] (the table of C14_example_table as a state with exact counts and five
   tokens) satisfies every hypothesis; every outcome occurs; a failed run leaves garbage
   with exact counts that the collection removes completely *)
Theorem C14_own_example_state : CInv KBdd ex_terms 3 ex3o /\ bterms_ok ex_terms /\
  terms_unique_b ex_terms = true /\ COK ex_terms 3 acache ac_get (cn ex3o) [] /\
  (forall i, In i [1; 2; 3; 4; 5; 6]%positive -> stored ex_terms (cn ex3o) (RN i)).
Proof. exact ex3o_state. Qed.
Print Assumptions C14_own_example_state.

Theorem C14_own_example_not : forall p,
  map (fun cap => oout (not_on ex_terms 3 0 cap p guards_code ex3o (RN 5))) [0; 6; 7; 8; 9; 10] =
  [(1, Some 6, Some 5, None, Some true); (1, Some 6, Some 5, None, Some true);
   (1, Some 7, Some 5, None, Some true); (1, Some 8, Some 5, None, Some true);
   (0, Some 9, Some 6, Some (RN 9), Some true); (0, Some 9, Some 6, Some (RN 9), Some true)].
Proof. exact ex3o_not. Qed.
Print Assumptions C14_own_example_not.

Theorem C14_own_example_garbage :
  match not_on ex_terms 3 0 8 false guards_code ex3o (RN 5) with
  | OErr s' _ =>
      cown s' = cown ex3o /\
      map (fun p => (fst p, crc (snd p))) (cn s') =
        [(8%positive, 0%N); (7%positive, 1%N); (6%positive, 1%N); (5%positive, 1%N);
         (4%positive, 2%N); (3%positive, 1%N); (2%positive, 2%N); (1%positive, 2%N)] /\
      collect KBdd ex_terms 3 s' = ex3o
  | _ => False
  end.
Proof. exact ex3o_not_garbage. Qed.
Print Assumptions C14_own_example_garbage.


(** ** 10. C14x - the same four statements for the functions that keep guards alive ACROSS
    a fallible call (model Mgr/OomOwnQ.v): [prepare_fill_o] = `substitute_prepare` (the
    `EdgeVecDropGuard` around the cloned replacement edges while a missing variable node is
    created), [substitute_o] = `substitute_edge` (`substitute_prepare`, then `substitute`
    with the two recursor guards alive during `apply_ite`, then the vector guard dropped),
    [quant_o] = `quant` (guards alive during `apply_bin` when the level is quantified) *)

Theorem C14_own_balance_prepare : forall terms nl tid cap s slots,
  match prepare_fill_o terms nl tid cap false s slots 0 [] with
  | VOk s' v => Permutation (cown s') (toks tid v ++ cown s) /\ ext s s' /\
                (CInv KBdd terms nl s -> CInv KBdd terms nl s')
  | VErr s' => Permutation (cown s') (cown s) /\ ext s s' /\
               (CInv KBdd terms nl s -> CInv KBdd terms nl s')
  | VStuck => True
  end.
Proof. exact own_balance_prepare. Qed.
Print Assumptions C14_own_balance_prepare.

Theorem C14_own_balance_substitute : forall terms nl tid cap gt C cget cadd par fuel s (c : C) f slots id,
  match substitute_o terms nl tid cap gt C cget cadd par guards_code fuel s c f slots id with
  | OOk s' _ r => Permutation (cown s') (tokr tid r ++ cown s) /\ ext s s' /\
                  (CInv KBdd terms nl s -> CInv KBdd terms nl s')
  | OErr s' _ => Permutation (cown s') (cown s) /\ ext s s' /\
                 (CInv KBdd terms nl s -> CInv KBdd terms nl s')
  | OStuck => True
  end.
Proof. exact own_balance_substitute. Qed.
Print Assumptions C14_own_balance_substitute.

Theorem C14_own_balance_quant : forall terms nl tid cap gt C cget cadd par fuel s (c : C) q f vars,
  match quant_o terms nl tid cap gt C cget cadd par guards_code fuel s c q f vars with
  | OOk s' _ r => Permutation (cown s') (tokr tid r ++ cown s) /\ ext s s' /\
                  (CInv KBdd terms nl s -> CInv KBdd terms nl s')
  | OErr s' _ => Permutation (cown s') (cown s) /\ ext s s' /\
                 (CInv KBdd terms nl s -> CInv KBdd terms nl s')
  | OStuck => True
  end.
Proof. exact own_balance_quant. Qed.
Print Assumptions C14_own_balance_quant.

Theorem C14_own_counts_substitute : forall terms nl tid cap gt C cget cadd par fuel s (c : C) f slots id s',
  CInv KBdd terms nl s -> terms_unique_b terms = true ->
  ores_st (substitute_o terms nl tid cap gt C cget cadd par guards_code fuel s c f slots id) = Some s' ->
  CInv KBdd terms nl s' /\ WF (to_snap KBdd terms nl s') /\ rc_exact_b (to_snap KBdd terms nl s') [] = true.
Proof. exact own_counts_substitute. Qed.
Print Assumptions C14_own_counts_substitute.

Theorem C14_own_counts_quant : forall terms nl tid cap gt C cget cadd par fuel s (c : C) q f vars s',
  CInv KBdd terms nl s -> terms_unique_b terms = true ->
  ores_st (quant_o terms nl tid cap gt C cget cadd par guards_code fuel s c q f vars) = Some s' ->
  CInv KBdd terms nl s' /\ WF (to_snap KBdd terms nl s') /\ rc_exact_b (to_snap KBdd terms nl s') [] = true.
Proof. exact own_counts_quant. Qed.
Print Assumptions C14_own_counts_quant.

Theorem C14_own_total_substitute : forall terms nl tid cap gt C cget cadd par,
  bterms_ok terms -> lossy cget cadd ->
  forall fuel s (c : C) f slots id, CInv KBdd terms nl s -> COK terms nl C cget (cn s) c ->
  stored terms (cn s) f -> (forall e, In (Some e) slots -> stored terms (cn s) e) ->
  length slots <= nl -> S nl <= fuel ->
  match substitute_o terms nl tid cap gt C cget cadd par guards_code fuel s c f slots id with
  | OOk s' c' r => stored terms (cn s') r /\ COK terms nl C cget (cn s') c'
  | OErr s' c' => COK terms nl C cget (cn s') c'
  | OStuck => False
  end.
Proof. exact own_total_substitute. Qed.
Print Assumptions C14_own_total_substitute.

Theorem C14_own_total_quant : forall terms nl tid cap gt C cget cadd par,
  bterms_ok terms -> lossy cget cadd ->
  forall fuel s (c : C) q f vars, CInv KBdd terms nl s -> COK terms nl C cget (cn s) c ->
  stored terms (cn s) f -> stored terms (cn s) vars -> S nl <= fuel ->
  match quant_o terms nl tid cap gt C cget cadd par guards_code fuel s c q f vars with
  | OOk s' c' r => stored terms (cn s') r /\ COK terms nl C cget (cn s') c'
  | OErr s' c' => COK terms nl C cget (cn s') c'
  | OStuck => False
  end.
Proof. exact own_total_quant. Qed.
Print Assumptions C14_own_total_quant.

Theorem C14_own_err_collect_substitute : forall terms nl tid cap gt C cget cadd par fuel s (c : C) f slots id s' c',
  CInv KBdd terms nl s ->
  substitute_o terms nl tid cap gt C cget cadd par guards_code fuel s c f slots id = OErr s' c' ->
  (forall id,
    ((exists nd', cfind (cn (collect KBdd terms nl s')) id = Some nd') <->
     (exists nd, cfind (cn s) id = Some nd) /\
     (exists o, In o (cown s) /\ creach (cn s) (eref (snd o)) (RN id))) /\
    (forall nd', cfind (cn (collect KBdd terms nl s')) id = Some nd' ->
       exists nd, cfind (cn s) id = Some nd /\ cl nd' = cl nd /\ cch nd' = cch nd)) /\
  (forall id, cfind (cn (collect KBdd terms nl s')) id = cfind (cn (collect KBdd terms nl s)) id) /\
  Permutation (cown (collect KBdd terms nl s')) (cown s).
Proof. exact own_err_collect_substitute. Qed.
Print Assumptions C14_own_err_collect_substitute.

Theorem C14_own_err_collect_quant : forall terms nl tid cap gt C cget cadd par fuel s (c : C) q f vars s' c',
  CInv KBdd terms nl s ->
  quant_o terms nl tid cap gt C cget cadd par guards_code fuel s c q f vars = OErr s' c' ->
  (forall id,
    ((exists nd', cfind (cn (collect KBdd terms nl s')) id = Some nd') <->
     (exists nd, cfind (cn s) id = Some nd) /\
     (exists o, In o (cown s) /\ creach (cn s) (eref (snd o)) (RN id))) /\
    (forall nd', cfind (cn (collect KBdd terms nl s')) id = Some nd' ->
       exists nd, cfind (cn s) id = Some nd /\ cl nd' = cl nd /\ cch nd' = cch nd)) /\
  (forall id, cfind (cn (collect KBdd terms nl s')) id = cfind (cn (collect KBdd terms nl s)) id) /\
  Permutation (cown (collect KBdd terms nl s')) (cown s).
Proof. exact own_err_collect_quant. Qed.
Print Assumptions C14_own_err_collect_quant.

(* the seeded slip of substitute_prepare (vector guard created only for the final Ok):
   x0[x0 := x2] on a table without the variable node of level 1, 2 slots: the cloned
   replacement edge is leaked - one token more, and after the collection x2 has count 2
   where a collection of the state before gives 1; the code's placement fails on the same
   input and satisfies BALANCE *)
Theorem C14_own_balance_late_vec_refuted : forall p,
  (match substitute_on ex_terms 3 0 2 p guards_late_vec ex2o (RN 2) [Some (RN 1); None] with
   | OErr s' _ =>
       ~ Permutation (cown s') (cown ex2o) /\
       length (cown s') = S (length (cown ex2o)) /\
       option_map crc (cfind (cn (collect KBdd ex_terms 3 s')) 1%positive) = Some 2%N /\
       option_map crc (cfind (cn (collect KBdd ex_terms 3 ex2o)) 1%positive) = Some 1%N
   | _ => False
   end) /\
  own_post ex_terms 3 0 unit ex2o
    (substitute_on ex_terms 3 0 2 p guards_code ex2o (RN 2) [Some (RN 1); None]) /\
  ores_code (substitute_on ex_terms 3 0 2 p guards_code ex2o (RN 2) [Some (RN 1); None]) = 1.
Proof. exact own_balance_late_vec_refuted. Qed.
Print Assumptions C14_own_balance_late_vec_refuted.

Theorem C14_own_example_subst_quant :
  CInv KBdd ex_terms 3 ex2o /\
  (forall p, map (fun cap => oout (substitute_on ex_terms 3 0 cap p guards_code ex2o (RN 2) [Some (RN 1); None])) [2; 3] =
     [(1, Some 2, Some 2, None, Some true); (0, Some 3, Some 3, Some (RN 1), Some true)]) /\
  map (fun cap => oout (quant_on ex_terms 3 0 cap false guards_code ex3o QUnique (RN 6) (RN 3))) [6; 7; 8] =
  [(1, Some 6, Some 5, None, Some true); (1, Some 7, Some 5, None, Some true);
   (0, Some 8, Some 6, Some (RN 8), Some true)].
Proof. exact ex_subst_quant. Qed.
Print Assumptions C14_own_example_subst_quant.
