(** C15 — property theorems only (proved in IO/DddmpProofs.v; model IO/Dddmp.v). *)
From Coq Require Import List NArith ZArith Bool.
From OxiVerif Require Import IO.Dddmp IO.DddmpProofs IO.DddmpAsciiProofs.
Import ListNotations.
Open Scope N_scope.

(** (a) 7-bit integers: [decode_7bit] reads back what [encode_7bit] wrote, for every usize *)
Theorem C15_varint_roundtrip : forall v rest, v < usize_limit ->
  decode_7bit (encode_7bit v ++ rest) = Ok (v, rest).
Proof. exact decode_encode_7bit. Qed.
Print Assumptions C15_varint_roundtrip.

(** (b) escaping: byte-wise and for whole buffers; reserved bytes never occur *)
Theorem C15_read_unescape_escape : forall b rest,
  read_unescape (escape_byte b ++ rest) = Ok (b, rest).
Proof. exact read_unescape_escape. Qed.
Print Assumptions C15_read_unescape_escape.

Theorem C15_unescape_escape : forall bs, unescape_all (escape bs) = Ok bs.
Proof. exact unescape_escape. Qed.
Print Assumptions C15_unescape_escape.

Theorem C15_escape_no_reserved : forall bs, Forall (fun b => b < 256) bs ->
  Forall (fun b => b <> 10 /\ b <> 13 /\ b <> 26) (escape bs).
Proof. exact escape_no_reserved. Qed.
Print Assumptions C15_escape_no_reserved.

(** (c) node codes *)
Theorem C15_node_code_roundtrip : forall v t c e,
  split_node_code (node_code v t c e) = (v, t, c, e).
Proof. exact split_node_code_roundtrip. Qed.
Print Assumptions C15_node_code_roundtrip.

(** the exporter's choice among Terminal / Relative1 / RelativeID / AbsoluteID for a
    then/else reference is decoded to the same node *)
Theorem C15_ref_roundtrip : forall l j v ch node_id rest,
  node_id = N.of_nat j + 2 -> node_id < usize_limit -> child_ok l j v ch ->
  let '(c, x) := bin_idx (dag_of l) node_id ch in
  idx_ref (opt_arg c x ++ rest) node_id c = Ok (ch - 1, rest).
Proof. exact idx_ref_bin_idx. Qed.
Print Assumptions C15_ref_roundtrip.

(** ... and the choice for the variable is resolved to the same variable *)
Theorem C15_var_code_roundtrip : forall slm nlevels l v t e,
  incr slm -> Forall (fun x => x < level_max) slm ->
  v < N.of_nat (length slm) -> N.of_nat (length slm) < usize_limit ->
  (forall x, xvar (dag_of l) t = Some x -> v < x /\ x < N.of_nat (length slm)) ->
  (forall x, xvar (dag_of l) e = Some x -> v < x /\ x < N.of_nat (length slm)) ->
  let '(vc, vx) := var_code (dag_of l) v t e in
  vc <> CTerminal /\ vx < usize_limit /\
  resolve_vid slm nlevels vc (if has_arg vc then vx else 1)
              (olevel slm (xvar (dag_of l) t)) (olevel slm (xvar (dag_of l) e)) = Ok v.
Proof. exact var_code_decode. Qed.
Print Assumptions C15_var_code_roundtrip.

(** one node: [decode_node (encode_node ctx nd) = nd] in the importer's state *)
Theorem C15_node_roundtrip : forall k slm nlevels l j nd rest,
  k = KBCDD ->
  wf_dag (N.of_nat (length slm)) l -> incr slm -> Forall (fun x => x < level_max) slm ->
  N.of_nat (length slm) < usize_limit ->
  nth_error l j = Some nd ->
  N.of_nat j + 2 < usize_limit ->
  import_bin_node k slm nlevels (mkE (RTerm (TNum 1)) false) (state_of slm l j) (N.of_nat j + 2)
    (export_node (dag_of l) (N.of_nat j + 2) (xi nd) ++ rest)
  = Ok (state_of slm l (S j), rest).
Proof. exact import_bin_node_step. Qed.
Print Assumptions C15_node_roundtrip.

(** the whole binary node section: [import_nodes (export_nodes dag) = dag] with node ID
    [i + 2] renamed to unique-table index [i] *)
Theorem C15_nodes_roundtrip : forall k slm nlevels l rest,
  k = KBCDD ->
  wf_dag (N.of_nat (length slm)) l -> incr slm -> Forall (fun x => x < level_max) slm ->
  N.of_nat (length slm) < usize_limit ->
  N.of_nat (length l) + 1 < usize_limit ->
  import_bin k slm nlevels (N.of_nat (length (dag_of l))) (export_nodes (dag_of l) ++ rest)
  = Ok (state_of slm l (length l), rest).
Proof. exact import_export_bin. Qed.
Print Assumptions C15_nodes_roundtrip.

Theorem C15_nodes_roundtrip_empty : forall k slm nlevels rest,
  import_bin k slm nlevels 0 (export_nodes [] ++ rest) = Ok (empty_state, rest).
Proof. exact import_export_bin_empty. Qed.
Print Assumptions C15_nodes_roundtrip_empty.

(** node section + [.end] + root references *)
Theorem C15_file_body_roundtrip : forall k vin slm nlevels l rootids,
  k = KBCDD ->
  wf_dag (N.of_nat (length slm)) l -> incr slm -> Forall (fun x => x < level_max) slm ->
  N.of_nat (length slm) < usize_limit ->
  N.of_nat (length l) + 1 < usize_limit ->
  Forall (root_ok l) rootids ->
  import_file k false vin slm nlevels (N.of_nat (length (dag_of l))) rootids
              (export_nodes (dag_of l) ++ trailer)
  = Ok (state_of slm l (length l), map (fun r => eref (Z.abs_N r) (r <? 0)%Z) rootids).
Proof. exact import_file_export_bin. Qed.
Print Assumptions C15_file_body_roundtrip.

(** the imported handles denote the functions of the exported nodes *)
Theorem C15_import_semantics : forall slm l fuel env id tag,
  eval_edge (st_store (state_of slm l (length l))) fuel env (eref id tag) = sem slm l fuel env id tag.
Proof. exact eval_state_sem. Qed.
Print Assumptions C15_import_semantics.

(** the hypotheses are satisfiable (concrete diagram, levels 1 < 4 < 5) *)
Theorem C15_example_wf : wf_dag 3 ex_dag /\ incr [1; 4; 5].
Proof. exact (conj ex_dag_wf ex_slm_incr). Qed.
Print Assumptions C15_example_wf.

(** (d) names *)
Theorem C15_var_name_replace_clean : forall s, clean (fst (replace_space_and_control s)).
Proof. exact replace_space_and_control_clean. Qed.
Print Assumptions C15_var_name_replace_clean.

Theorem C15_var_name_replace_id : forall s, clean s -> replace_space_and_control s = (s, false).
Proof. exact replace_space_and_control_id. Qed.
Print Assumptions C15_var_name_replace_id.

Theorem C15_var_name_replace_flag : forall s, snd (replace_space_and_control s) = false <-> clean s.
Proof. exact replace_space_and_control_flag. Qed.
Print Assumptions C15_var_name_replace_flag.

Theorem C15_diagram_name : forall s,
  no_control (fst (write_replacing_control s)) /\
  length (fst (write_replacing_control s)) = length s /\
  (snd (write_replacing_control s) = false <-> no_control s) /\
  (no_control s -> fst (write_replacing_control s) = s).
Proof. exact write_replacing_control_spec. Qed.
Print Assumptions C15_diagram_name.

Theorem C15_root_name : forall i name,
  clean (fst (sanitize_root_name i name)) /\ fst (sanitize_root_name i name) <> [] /\
  (snd (sanitize_root_name i name) = false <-> (clean name /\ name <> [])) /\
  (clean name -> name <> [] -> fst (sanitize_root_name i name) = name).
Proof. exact sanitize_root_name_spec. Qed.
Print Assumptions C15_root_name.

Theorem C15_var_names_clean : forall strict names out err,
  export_var_names strict names = (Some out, err) ->
  Forall (fun n => clean n /\ n <> []) out /\ length out = length names.
Proof. exact export_var_names_clean. Qed.
Print Assumptions C15_var_names_clean.

Theorem C15_var_names_id : forall strict names,
  names <> [] -> Forall (fun n => clean n /\ n <> []) names ->
  export_var_names strict names = (Some names, false).
Proof. exact export_var_names_id. Qed.
Print Assumptions C15_var_names_id.

Theorem C15_var_names_strict : forall names,
  snd (export_var_names true names) = true <->
  (Forall (fun n => n <> []) names /\ exists n, In n names /\ ~ clean n).
Proof. exact export_var_names_strict. Qed.
Print Assumptions C15_var_names_strict.

(** (e) ASCII node lines: decimal numbers and edge lists are read back *)
Theorem C15_decimal_roundtrip : forall n, digits_val (dec n) 0 = Some n.
Proof. exact digits_val_dec. Qed.
Print Assumptions C15_decimal_roundtrip.

Theorem C15_parse_usize_dec : forall n tl, n < usize_limit -> sep_tail tl ->
  parse_usize (dec n ++ tl) = Ok (tl, n).
Proof. exact parse_usize_dec. Qed.
Print Assumptions C15_parse_usize_dec.

Theorem C15_parse_edge_list : forall t e,
  Z.abs_N t <= isize_max -> Z.abs_N e <= isize_max ->
  parse_edge_list (dec_z t ++ [32] ++ dec_z e) = Ok [t; e].
Proof. exact parse_edge_list_two. Qed.
Print Assumptions C15_parse_edge_list.

Theorem C15_ascii_terminal_line : forall k slm st id desc e,
  id < usize_limit -> token desc -> parse_terminal k desc = Some e ->
  import_ascii_line k true slm st id (term_text id desc) = Ok (mkS (st_store st) (st_nodes st ++ [e])).
Proof. exact import_ascii_line_term. Qed.
Print Assumptions C15_ascii_terminal_line.

(** the whole ASCII node section, for BDD, BCDD, ZBDD and MTBDD: terminals [1..T] first,
    node ID [T + 1 + i] is renamed to unique-table index [i] *)
Theorem C15_ascii_nodes_roundtrip : forall k slm descs tedges l rest,
  terms_ok k descs tedges ->
  Forall (fun e => exists v, ce_ref e = RTerm v) tedges ->
  incr slm -> Forall (fun x => x < level_max) slm ->
  awf_dag k slm tedges l ->
  N.of_nat (length tedges) + 1 + N.of_nat (length l) <= isize_max ->
  N.of_nat (length slm) <= 4294967296 ->
  import_ascii k true slm (N.of_nat (length descs + length l))
               (export_ascii_nodes (map ATerm descs ++ map ainner l) ++ rest)
  = Ok (astate slm tedges l (length l), rest).
Proof. exact import_export_ascii. Qed.
Print Assumptions C15_ascii_nodes_roundtrip.

Theorem C15_ascii_example_wf : terms_ok KBDD ex_descs ex_tedges /\ awf_dag KBDD [0; 1] ex_tedges ex_adag.
Proof. exact (conj ex_terms_ok ex_adag_wf). Qed.
Print Assumptions C15_ascii_example_wf.

(* Not proved (checked on every exported file by the correspondence run instead):
   - C15_var_names_unique_partial: pairwise distinct non-empty names are written as
     pairwise distinct names
       forall strict names out err, NoDup (filter nonempty names) ->
         export_var_names strict names = (Some out, err) -> NoDup out *)
