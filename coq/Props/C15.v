(** C15 — property theorems only (proved in IO/DddmpProofs.v; model IO/Dddmp.v). *)
From Coq Require Import List NArith ZArith Bool.
From OxiVerif Require Import IO.Dddmp IO.DddmpProofs IO.DddmpAsciiProofs.
From OxiVerif Require Import IO.DddmpFile IO.DddmpFileProofs IO.DddmpFileSafety IO.DddmpFileRoundtrip IO.DddmpFileWhole IO.DddmpFileNoPanic IO.DddmpFileSem.
From OxiVerif Require Import IO.DddmpTdd IO.DddmpTddProofs IO.DddmpTddSafety IO.DddmpTddExamples.
Import ListNotations.
Open Scope N_scope.

(** (a) 7-bit integers: [decode_7bit] reads back what [encode_7bit] wrote, for every usize *)
Theorem C15_varint_roundtrip : forall v rest, v < usize_limit ->
  decode_7bit (encode_7bit v ++ rest) = Ok (v, rest).
Proof. exact decode_encode_7bit. Qed.
Print Assumptions C15_varint_roundtrip.

(** (b) escaping: byte-wise and for whole buffers; reserved bytes never occur *)
Theorem C15_read_unescape_escape : forall b rest,
  read_unescape (escape_byte b ++ rest) = Ok (b, rest).
Proof. exact read_unescape_escape. Qed.
Print Assumptions C15_read_unescape_escape.

Theorem C15_unescape_escape : forall bs, unescape_all (escape bs) = Ok bs.
Proof. exact unescape_escape. Qed.
Print Assumptions C15_unescape_escape.

Theorem C15_escape_no_reserved : forall bs, Forall (fun b => b < 256) bs ->
  Forall (fun b => b <> 10 /\ b <> 13 /\ b <> 26) (escape bs).
Proof. exact escape_no_reserved. Qed.
Print Assumptions C15_escape_no_reserved.

(** (c) node codes *)
Theorem C15_node_code_roundtrip : forall v t c e,
  split_node_code (node_code v t c e) = (v, t, c, e).
Proof. exact split_node_code_roundtrip. Qed.
Print Assumptions C15_node_code_roundtrip.

(** the exporter's choice among Terminal / Relative1 / RelativeID / AbsoluteID for a
    then/else reference is decoded to the same node *)
Theorem C15_ref_roundtrip : forall l j v ch node_id rest,
  node_id = N.of_nat j + 2 -> node_id < usize_limit -> child_ok l j v ch ->
  let '(c, x) := bin_idx (dag_of l) node_id ch in
  idx_ref (opt_arg c x ++ rest) node_id c = Ok (ch - 1, rest).
Proof. exact idx_ref_bin_idx. Qed.
Print Assumptions C15_ref_roundtrip.

(** ... and the choice for the variable is resolved to the same variable *)
Theorem C15_var_code_roundtrip : forall slm nlevels l v t e,
  incr slm -> Forall (fun x => x < level_max) slm ->
  v < N.of_nat (length slm) -> N.of_nat (length slm) < usize_limit ->
  (forall x, xvar (dag_of l) t = Some x -> v < x /\ x < N.of_nat (length slm)) ->
  (forall x, xvar (dag_of l) e = Some x -> v < x /\ x < N.of_nat (length slm)) ->
  let '(vc, vx) := var_code (dag_of l) v t e in
  vc <> CTerminal /\ vx < usize_limit /\
  resolve_vid slm nlevels vc (if has_arg vc then vx else 1)
              (olevel slm (xvar (dag_of l) t)) (olevel slm (xvar (dag_of l) e)) = Ok v.
Proof. exact var_code_decode. Qed.
Print Assumptions C15_var_code_roundtrip.

(** one node: [decode_node (encode_node ctx nd) = nd] in the importer's state *)
Theorem C15_node_roundtrip : forall k slm nlevels l j nd rest,
  k = KBCDD ->
  wf_dag (N.of_nat (length slm)) l -> incr slm -> Forall (fun x => x < level_max) slm ->
  N.of_nat (length slm) < usize_limit ->
  nth_error l j = Some nd ->
  N.of_nat j + 2 < usize_limit ->
  import_bin_node k slm nlevels (mkE (RTerm (TNum 1)) false) (state_of slm l j) (N.of_nat j + 2)
    (export_node (dag_of l) (N.of_nat j + 2) (xi nd) ++ rest)
  = Ok (state_of slm l (S j), rest).
Proof. exact import_bin_node_step. Qed.
Print Assumptions C15_node_roundtrip.

(** the whole binary node section: [import_nodes (export_nodes dag) = dag] with node ID
    [i + 2] renamed to unique-table index [i] *)
Theorem C15_nodes_roundtrip : forall k slm nlevels l rest,
  k = KBCDD ->
  wf_dag (N.of_nat (length slm)) l -> incr slm -> Forall (fun x => x < level_max) slm ->
  N.of_nat (length slm) < usize_limit ->
  N.of_nat (length l) + 1 < usize_limit ->
  import_bin k slm nlevels (N.of_nat (length (dag_of l))) (export_nodes (dag_of l) ++ rest)
  = Ok (state_of slm l (length l), rest).
Proof. exact import_export_bin. Qed.
Print Assumptions C15_nodes_roundtrip.

Theorem C15_nodes_roundtrip_empty : forall k slm nlevels rest,
  import_bin k slm nlevels 0 (export_nodes [] ++ rest) = Ok (empty_state, rest).
Proof. exact import_export_bin_empty. Qed.
Print Assumptions C15_nodes_roundtrip_empty.

(** node section + [.end] + root references *)
Theorem C15_file_body_roundtrip : forall k vin slm nlevels l rootids,
  k = KBCDD ->
  wf_dag (N.of_nat (length slm)) l -> incr slm -> Forall (fun x => x < level_max) slm ->
  N.of_nat (length slm) < usize_limit ->
  N.of_nat (length l) + 1 < usize_limit ->
  Forall (root_ok l) rootids ->
  import_file k false vin slm nlevels (N.of_nat (length (dag_of l))) rootids
              (export_nodes (dag_of l) ++ trailer)
  = Ok (state_of slm l (length l), map (fun r => eref (Z.abs_N r) (r <? 0)%Z) rootids).
Proof. exact import_file_export_bin. Qed.
Print Assumptions C15_file_body_roundtrip.

(** the imported handles denote the functions of the exported nodes *)
Theorem C15_import_semantics : forall slm l fuel env id tag,
  eval_edge (st_store (state_of slm l (length l))) fuel env (eref id tag) = sem slm l fuel env id tag.
Proof. exact eval_state_sem. Qed.
Print Assumptions C15_import_semantics.

(** the hypotheses are satisfiable (concrete diagram, levels 1 < 4 < 5) *)
Theorem C15_example_wf : wf_dag 3 ex_dag /\ incr [1; 4; 5].
Proof. exact (conj ex_dag_wf ex_slm_incr). Qed.
Print Assumptions C15_example_wf.

(** (d) names *)
Theorem C15_var_name_replace_clean : forall s, clean (fst (replace_space_and_control s)).
Proof. exact replace_space_and_control_clean. Qed.
Print Assumptions C15_var_name_replace_clean.

Theorem C15_var_name_replace_id : forall s, clean s -> replace_space_and_control s = (s, false).
Proof. exact replace_space_and_control_id. Qed.
Print Assumptions C15_var_name_replace_id.

Theorem C15_var_name_replace_flag : forall s, snd (replace_space_and_control s) = false <-> clean s.
Proof. exact replace_space_and_control_flag. Qed.
Print Assumptions C15_var_name_replace_flag.

Theorem C15_diagram_name : forall s,
  no_control (fst (write_replacing_control s)) /\
  length (fst (write_replacing_control s)) = length s /\
  (snd (write_replacing_control s) = false <-> no_control s) /\
  (no_control s -> fst (write_replacing_control s) = s).
Proof. exact write_replacing_control_spec. Qed.
Print Assumptions C15_diagram_name.

Theorem C15_root_name : forall i name,
  clean (fst (sanitize_root_name i name)) /\ fst (sanitize_root_name i name) <> [] /\
  (snd (sanitize_root_name i name) = false <-> (clean name /\ name <> [])) /\
  (clean name -> name <> [] -> fst (sanitize_root_name i name) = name).
Proof. exact sanitize_root_name_spec. Qed.
Print Assumptions C15_root_name.

Theorem C15_var_names_clean : forall strict names out err,
  export_var_names strict names = (Some out, err) ->
  Forall (fun n => clean n /\ n <> []) out /\ length out = length names.
Proof. exact export_var_names_clean. Qed.
Print Assumptions C15_var_names_clean.

Theorem C15_var_names_id : forall strict names,
  names <> [] -> Forall (fun n => clean n /\ n <> []) names ->
  export_var_names strict names = (Some names, false).
Proof. exact export_var_names_id. Qed.
Print Assumptions C15_var_names_id.

Theorem C15_var_names_strict : forall names,
  snd (export_var_names true names) = true <->
  (Forall (fun n => n <> []) names /\ exists n, In n names /\ ~ clean n).
Proof. exact export_var_names_strict. Qed.
Print Assumptions C15_var_names_strict.

(** (e) ASCII node lines: decimal numbers and edge lists are read back *)
Theorem C15_decimal_roundtrip : forall n, digits_val (dec n) 0 = Some n.
Proof. exact digits_val_dec. Qed.
Print Assumptions C15_decimal_roundtrip.

Theorem C15_parse_usize_dec : forall n tl, n < usize_limit -> sep_tail tl ->
  parse_usize (dec n ++ tl) = Ok (tl, n).
Proof. exact parse_usize_dec. Qed.
Print Assumptions C15_parse_usize_dec.

Theorem C15_parse_edge_list : forall t e,
  Z.abs_N t <= isize_max -> Z.abs_N e <= isize_max ->
  parse_edge_list (dec_z t ++ [32] ++ dec_z e) = Ok [t; e].
Proof. exact parse_edge_list_two. Qed.
Print Assumptions C15_parse_edge_list.

Theorem C15_ascii_terminal_line : forall k slm st id desc e,
  id < usize_limit -> token desc -> parse_terminal k desc = Some e ->
  import_ascii_line k true slm st id (term_text id desc) = Ok (mkS (st_store st) (st_nodes st ++ [e])).
Proof. exact import_ascii_line_term. Qed.
Print Assumptions C15_ascii_terminal_line.

(** the whole ASCII node section, for BDD, BCDD, ZBDD and MTBDD: terminals [1..T] first,
    node ID [T + 1 + i] is renamed to unique-table index [i] *)
Theorem C15_ascii_nodes_roundtrip : forall k slm descs tedges l rest,
  terms_ok k descs tedges ->
  Forall (fun e => exists v, ce_ref e = RTerm v) tedges ->
  incr slm -> Forall (fun x => x < level_max) slm ->
  awf_dag k slm tedges l ->
  N.of_nat (length tedges) + 1 + N.of_nat (length l) <= isize_max ->
  N.of_nat (length slm) <= 4294967296 ->
  import_ascii k true slm (N.of_nat (length descs + length l))
               (export_ascii_nodes (map ATerm descs ++ map ainner l) ++ rest)
  = Ok (astate slm tedges l (length l), rest).
Proof. exact import_export_ascii. Qed.
Print Assumptions C15_ascii_nodes_roundtrip.

Theorem C15_ascii_example_wf : terms_ok KBDD ex_descs ex_tedges /\ awf_dag KBDD [0; 1] ex_tedges ex_adag.
Proof. exact (conj ex_terms_ok ex_adag_wf). Qed.
Print Assumptions C15_ascii_example_wf.

(** ** (f) the whole file: header loader [load_header] = DumpHeader::load, [import_whole] =
    DumpHeader::load + import, [print_header] = the header part of export_common
    (model coq/IO/DddmpFile.v; package C15h) *)

(** totality: the loader is a total function; its line loop needs at most one iteration per
    input byte, any fuel above the input length gives the same result *)
Theorem C15_header_fuel : forall f1 f2 st inp,
  (length inp < f1)%nat -> (length inp < f2)%nat -> header_loop f1 st inp = header_loop f2 st inp.
Proof. exact header_loop_fuel. Qed.
Print Assumptions C15_header_fuel.

(** no panic in the loader: the places where the Rust code indexes a vector or unwraps an
    Option (support_var_order[..], varnames[id], orderedvarnames[permid],
    non_suppvarnames.next().unwrap()) and the end of the fuel are unreachable, on every input *)
Theorem C15_header_no_panic : forall inp, load_header inp <> HErr HInternal.
Proof. exact load_header_no_internal. Qed.
Print Assumptions C15_header_no_panic.

(** SAFETY OF ACCEPTANCE, header: whatever bytes are accepted, the relations between the header
    fields hold (ids strictly ascending and below .nvars, as many distinct levels below .nvars,
    .auxids / names / root names absent or of the right length, root references non-zero and at
    most .nnodes, support_var_order = support sorted by level) and the rest is a proper suffix *)
Theorem C15_header_accept_wf : forall inp h rest, load_header inp = HOk (h, rest) ->
  header_wf h /\ exists pre, inp = pre ++ rest /\ pre <> [].
Proof. exact load_header_wf. Qed.
Print Assumptions C15_header_accept_wf.

Theorem C15_header_order_by_level : forall h, header_wf h ->
  forall i j v w l m, nth_error (h_ids h) i = Some v -> nth_error (h_permids h) i = Some l ->
    nth_error (h_ids h) j = Some w -> nth_error (h_permids h) j = Some m -> l < m ->
    exists p q, (p < q)%nat /\ nth_error (h_order h) p = Some v /\ nth_error (h_order h) q = Some w.
Proof. exact header_order_by_level. Qed.
Print Assumptions C15_header_order_by_level.

(** the loader reads back the header the exporter writes (format 2.0 and 3.0, with and without
    variable / root / diagram names, any variable order, any support) and stops exactly after
    the [.nodes] line *)
Theorem C15_header_roundtrip : forall x rest, xwf x ->
  load_header (print_header x ++ rest) = HOk (header_of x, rest).
Proof. exact load_print_header. Qed.
Print Assumptions C15_header_roundtrip.

(** format 2.0 has no .varnames line: the names of all support variables are recovered *)
Theorem C15_header_v2_names : forall x names, xwf x -> x_names x = Some names -> x_ver3 x = false ->
  h_varnames (header_of x) = recover_names x names /\
  len (recover_names x names) = x_nvars x /\
  forall id pm, In (id, pm) (x_supp x) ->
    nth_error (recover_names x names) (N.to_nat id) = Some (name_of names id).
Proof. exact recover_names_support. Qed.
Print Assumptions C15_header_v2_names.

(** SAFETY OF ACCEPTANCE, node section + trailer + roots, for ARBITRARY bytes and header values:
    the unique table is well-formed (children before parents, levels strictly increasing along
    edges, all levels from the support), one valid edge per node ID, valid root edges, root
    references non-zero and at most .nnodes, and .nnodes is at most the number of input bytes *)
Theorem C15_body_accept_wf : forall k ascii vin slm nlevels nnodes rootids inp st roots,
  import_file k ascii vin slm nlevels nnodes rootids inp = Ok (st, roots) ->
  st_wf slm st /\
  length (st_nodes st) = N.to_nat nnodes /\
  Forall (edge_in (st_store st)) roots /\ length roots = length rootids /\
  Forall (fun r => r <> 0%Z /\ Z.abs_N r <= nnodes) rootids /\
  (N.to_nat nnodes <= length inp)%nat.
Proof. exact import_file_safe. Qed.
Print Assumptions C15_body_accept_wf.

(** every valid edge of a well-formed table denotes a well-defined value: the big-step
    evaluation has exactly one result, and the executable evaluation computes it with every
    fuel above the table size (no fuel exhaustion, no dangling index) *)
Theorem C15_accept_denotes : forall s env e, store_wf s -> edge_in s e ->
  exists v, denotes s env e v /\ (forall v', denotes s env e v' -> v' = v) /\
            forall fuel, (length s < fuel)%nat -> eval_edge s fuel env e = v.
Proof. exact edge_denotes. Qed.
Print Assumptions C15_accept_denotes.

(** the same for the evaluation the correspondence run uses (incl. the ZBDD semantics) *)
Theorem C15_eval_root_fuel : forall k s nlevels env e, store_wf s -> edge_in s e ->
  forall fuel, (length s < fuel)%nat ->
  eval_root k s nlevels env e =
  match k with
  | KZBDD => TNum (if zeval_edge s fuel env nlevels 0 e then 1 else 0)
  | _ => eval_edge s fuel env e
  end.
Proof. exact eval_root_fuel. Qed.
Print Assumptions C15_eval_root_fuel.

(** SAFETY OF ACCEPTANCE of the whole importer: "never builds a wrong diagram" *)
Theorem C15_whole_accept_safe : forall k slm nlevels inp h st roots,
  import_whole k slm nlevels inp = WOk (h, st, roots) ->
  header_wf h /\
  length slm = length (h_ids h) /\
  st_wf slm st /\
  length (st_nodes st) = N.to_nat (h_nnodes h) /\
  Forall (edge_in (st_store st)) roots /\ length roots = length (h_rootids h) /\
  forall r, In r roots -> forall env,
    exists v, denotes (st_store st) env r v /\ (forall v', denotes (st_store st) env r v' -> v' = v) /\
              (forall fuel, (length (st_store st) < fuel)%nat -> eval_edge (st_store st) fuel env r = v).
Proof. exact import_whole_safe. Qed.
Print Assumptions C15_whole_accept_safe.

(** NO PANIC, whole importer: on every input the result is an acceptance, one of the error
    values that stand for an io::Error, or "wrong number of support variables passed" *)
Theorem C15_whole_no_panic : forall k slm nlevels inp,
  import_whole k slm nlevels inp <> WHdr HInternal /\ import_whole k slm nlevels inp <> WBody EInternal.
Proof. exact import_whole_no_internal. Qed.
Print Assumptions C15_whole_no_panic.

(** the importer the correspondence run executes (short cut for absurd .nnodes values) accepts
    the same inputs with the same results *)
Theorem C15_guarded_equiv : forall k slm nlevels inp,
  wres_equiv (import_whole k slm nlevels inp) (import_whole_guarded k slm nlevels inp).
Proof. exact import_whole_guarded_equiv. Qed.
Print Assumptions C15_guarded_equiv.

(** whole-file round trip, binary mode (BCDD): header + node section + ".end\n" as written by
    the exporter models is imported to exactly the exported nodes and roots *)
Theorem C15_whole_roundtrip_bin : forall x slm nlevels l,
  xwf x -> x_ascii x = false ->
  x_nnodes x = N.of_nat (length (dag_of l)) ->
  length slm = length (x_ids x) ->
  wf_dag (N.of_nat (length slm)) l -> incr slm -> Forall (fun v => v < level_max) slm ->
  N.of_nat (length slm) < usize_limit -> N.of_nat (length l) + 1 < usize_limit ->
  import_whole KBCDD slm nlevels (export_whole_bin x (dag_of l))
  = WOk (header_of x, state_of slm l (length l),
         map (fun r => eref (Z.abs_N r) (r <? 0)%Z) (x_rootids x)).
Proof. exact import_export_whole_bin. Qed.
Print Assumptions C15_whole_roundtrip_bin.

(** whole-file round trip, ASCII mode (BDD, BCDD, ZBDD, MTBDD) *)
Theorem C15_whole_roundtrip_ascii : forall k x slm nlevels descs tedges l,
  xwf x -> x_ascii x = true ->
  x_nnodes x = N.of_nat (length descs + length l) ->
  length slm = length (x_ids x) ->
  terms_ok k descs tedges -> Forall (fun e => exists v, ce_ref e = RTerm v) tedges ->
  incr slm -> Forall (fun v => v < level_max) slm ->
  awf_dag k slm tedges l ->
  N.of_nat (length tedges) + 1 + N.of_nat (length l) <= isize_max ->
  N.of_nat (length slm) <= 4294967296 ->
  Forall (aroot_ok k tedges l) (x_rootids x) ->
  import_whole k slm nlevels (export_whole_ascii x (map ATerm descs ++ map ainner l))
  = WOk (header_of x, astate slm tedges l (length l), map (sref tedges) (x_rootids x)).
Proof. exact import_export_whole_ascii. Qed.
Print Assumptions C15_whole_roundtrip_ascii.

(** the hypotheses are satisfiable: a header with five variables (three in the support,
    non-identity order, names, root names), the diagram [ex_dag], and names of printable ASCII *)
Theorem C15_whole_example :
  xwf ex_x /\
  import_whole KBCDD [1; 4; 5] 6 (export_whole_bin ex_x (dag_of ex_dag))
  = WOk (header_of ex_x, state_of [1; 4; 5] ex_dag 5, [eref 4 false; eref 5 true; eref 6 false]).
Proof. exact (conj ex_x_wf ex_whole_bin). Qed.
Print Assumptions C15_whole_example.

Theorem C15_good_name_ascii : forall n, n <> [] -> Forall (fun b => 32 < b /\ b < 127) n -> good_name n.
Proof. exact good_name_ascii. Qed.
Print Assumptions C15_good_name_ascii.

(** the manager operations of the importer preserve the meaning: the edge returned by
    reduce(..).then_insert(..) (reduction rule, unique table, complement-edge normalisation;
    BDD, BCDD, MTBDD) denotes "if x_level then t else e" *)
Theorem C15_mk_node_semantics : forall k slm s level t e s' r,
  k <> KZBDD ->
  store_wf s -> levels_in slm s -> In level slm ->
  edge_in s t -> edge_in s e -> level < edge_level s t -> level < edge_level s e ->
  mk_node k s level t e = (s', r) ->
  forall env v, denotes s' env r v <-> denotes s' env (if env level then t else e) v.
Proof. exact mk_node_denotes. Qed.
Print Assumptions C15_mk_node_semantics.

(** a complemented edge (BCDD: flipped tag) denotes the negation *)
Theorem C15_neg_semantics : forall s env e v, denotes s env (neg e) v <-> denotes s env e (tneg v).
Proof. exact denotes_neg. Qed.
Print Assumptions C15_neg_semantics.

(** BDDFunction::not_edge_owned (complement of the BDD importer) builds the negation *)
Theorem C15_bdd_not_semantics : forall slm fuel s e s' e',
  store_wf s -> levels_in slm s -> plain_store s -> edge_in s e -> plain_edge e ->
  bdd_not s fuel e = Ok (s', e') ->
  plain_store s' /\ plain_edge e' /\
  forall env v, denotes s env e v -> denotes s' env e' (tneg v).
Proof. exact bdd_not_denotes. Qed.
Print Assumptions C15_bdd_not_semantics.

(* Not proved (checked on every exported file by the correspondence run instead):
   - C15_var_names_unique_partial: pairwise distinct non-empty names are written as
     pairwise distinct names
       forall strict names out err, NoDup (filter nonempty names) ->
         export_var_names strict names = (Some out, err) -> NoDup out *)

(** ** package C15t: ternary decision diagrams (TDD) and the export settings
    (model IO/DddmpTdd.v, proofs IO/DddmpTddProofs.v, IO/DddmpTddSafety.v, notes/C15t.md).
    [tdd_import_* true] is the generic [import_ascii] of the code with ARITY = 3 (it cannot be
    instantiated: static assertion in [import_bin]); [tdd_import_* false] is the decoder of the
    format the exporter writes (arity check only for inner nodes). *)

(** ExportSettings: every getter returns what the matching builder method stored and leaves
    the other fields alone *)
Theorem C15_tdd_settings_getters : forall s,
  (forall v, get_version3 (set_version s v) = v /\ is_ascii (set_version s v) = is_ascii s /\
             is_strict (set_version s v) = is_strict s /\ get_diagram_name (set_version s v) = get_diagram_name s) /\
  (is_ascii (set_ascii s) = true /\ get_version3 (set_ascii s) = get_version3 s /\
   is_strict (set_ascii s) = is_strict s /\ get_diagram_name (set_ascii s) = get_diagram_name s) /\
  (is_ascii (set_binary s) = false /\ get_version3 (set_binary s) = get_version3 s /\
   is_strict (set_binary s) = is_strict s /\ get_diagram_name (set_binary s) = get_diagram_name s) /\
  (forall b, is_strict (set_strict s b) = b /\ get_version3 (set_strict s b) = get_version3 s /\
             is_ascii (set_strict s b) = is_ascii s /\ get_diagram_name (set_strict s b) = get_diagram_name s) /\
  (forall n, get_diagram_name (set_diagram_name s n) = n /\ get_version3 (set_diagram_name s n) = get_version3 s /\
             is_ascii (set_diagram_name s n) = is_ascii s /\ is_strict (set_diagram_name s n) = is_strict s).
Proof. exact settings_get_set. Qed.
Print Assumptions C15_tdd_settings_getters.

(** any chain of builder calls on the default settings: each field is decided by the last call
    that concerns it (defaults: 2.0, binary if supported, strict, no name) *)
Theorem C15_tdd_settings_chain : forall cs,
  apply_setters cs = mkSet (last_version cs) (last_ascii cs) (last_strict cs) (last_name cs).
Proof. exact settings_chain. Qed.
Print Assumptions C15_tdd_settings_chain.

(** binary_supported is false for ternary nodes, so a TDD is written in ASCII mode whatever the
    settings and the terminals are *)
Theorem C15_tdd_binary_unsupported : forall nterm, binary_supported tdd_arity nterm = false.
Proof. exact tdd_binary_unsupported. Qed.
Print Assumptions C15_tdd_binary_unsupported.

Theorem C15_tdd_export_always_ascii : forall s nterm descs, export_ascii_mode s tdd_arity nterm descs = true.
Proof. exact tdd_export_always_ascii. Qed.
Print Assumptions C15_tdd_export_always_ascii.

(** binary kinds: ".mode B" iff the settings do not force ASCII, the manager has one terminal
    and every exported terminal is printed as "T" (byte 84) *)
Theorem C15_tdd_export_binary_iff : forall s nterm descs,
  export_ascii_mode s 2 nterm descs = false <->
  is_ascii s = false /\ nterm = 1 /\ Forall (fun d => d = [84]) descs.
Proof. exact export_binary_iff. Qed.
Print Assumptions C15_tdd_export_binary_iff.

(** AsciiDisplay then ParseTagged::parse is the identity on False / Unknown / True *)
Theorem C15_tdd_terminal_roundtrip : forall v, tdd_parse_terminal (tdd_desc v) = Some (TRTerm v).
Proof. exact tdd_parse_desc. Qed.
Print Assumptions C15_tdd_terminal_roundtrip.

(** one terminal line "{id} {desc} 0 0": read by the decoder, rejected by the arity check of the code *)
Theorem C15_tdd_line_term : forall slm st id desc r,
  id < usize_limit -> token desc -> tdd_parse_terminal desc = Some r ->
  tdd_import_line false true slm st id (term_text id desc) = Ok (mkTS (ts_store st) (ts_nodes st ++ [r])) /\
  tdd_import_line true true slm st id (term_text id desc) = Err EArity.
Proof.
  intros slm st id desc r H1 H2 H3. split; [apply tdd_import_line_term; assumption|apply tdd_import_line_term_strict; assumption].
Qed.
Print Assumptions C15_tdd_line_term.

(** one inner node line "{id} {var_idx} {then} {unknown} {else}": both readers rebuild the node *)
Theorem C15_tdd_line_inner : forall slm terms, incr slm -> Forall (fun x => x < level_max) slm ->
  forall strict l j nd,
  twf_dag slm terms l -> nth_error l j = Some nd ->
  N.of_nat (length terms) + 1 + N.of_nat j <= isize_max -> N.of_nat (length slm) <= 4294967296 ->
  tdd_import_line strict true slm (tstate slm terms l j) (N.of_nat (length terms) + 1 + N.of_nat j)
                  (tinner_text (N.of_nat (length terms) + 1 + N.of_nat j) (tav nd) (tat nd) (tau nd) (tae nd))
  = Ok (tstate slm terms l (S j)).
Proof. exact tdd_import_line_inner. Qed.
Print Assumptions C15_tdd_line_inner.

(** ROUND TRIP of the node section of every reduced, duplicate-free, bottom-up numbered ternary
    diagram: exactly the exported nodes, nothing after the section is consumed *)
Theorem C15_tdd_nodes_roundtrip : forall slm terms l rest,
  incr slm -> Forall (fun x => x < level_max) slm ->
  twf_dag slm terms l ->
  N.of_nat (length terms) + 1 + N.of_nat (length l) <= isize_max ->
  N.of_nat (length slm) <= 4294967296 ->
  tdd_import_ascii false true slm (N.of_nat (length terms + length l))
                   (tdd_export_nodes (tterm_nodes terms ++ map tainner l) ++ rest)
  = Ok (tstate slm terms l (length l), rest).
Proof. exact tdd_import_export_nodes. Qed.
Print Assumptions C15_tdd_nodes_roundtrip.

(** WHOLE-FILE ROUND TRIP (header of any version / names / order / support + node section +
    ".end"): the decoder returns header_of x, the exported nodes and the exported roots *)
Theorem C15_tdd_whole_roundtrip : forall x slm terms l,
  xwf x -> x_ascii x = true ->
  x_nnodes x = N.of_nat (length terms + length l) ->
  length slm = length (x_ids x) ->
  incr slm -> Forall (fun v => v < level_max) slm ->
  twf_dag slm terms l ->
  N.of_nat (length terms) + 1 + N.of_nat (length l) <= isize_max ->
  N.of_nat (length slm) <= 4294967296 ->
  Forall (troot_ok terms l) (x_rootids x) ->
  tdd_import_whole false slm (tdd_export_whole x (tterm_nodes terms ++ map tainner l))
  = TOk (header_of x, tstate slm terms l (length l), map (tsref terms) (x_rootids x)).
Proof. exact tdd_import_export_whole. Qed.
Print Assumptions C15_tdd_whole_roundtrip.

(** WHAT THE CODE DOES with the exporter's own TDD files: import_ascii with ARITY = 3 rejects
    every non-empty node section at its first (terminal) line: "expected 3 children, got 2" *)
Theorem C15_tdd_code_rejects_nodes : forall slm terms l rest,
  twf_dag slm terms l -> (length terms + length l <> 0)%nat ->
  N.of_nat (length terms) < usize_limit ->
  tdd_import_ascii true true slm (N.of_nat (length terms + length l))
                   (tdd_export_nodes (tterm_nodes terms ++ map tainner l) ++ rest)
  = Err EArity.
Proof. exact tdd_strict_rejects_export. Qed.
Print Assumptions C15_tdd_code_rejects_nodes.

Theorem C15_tdd_code_rejects_whole : forall x slm terms l,
  xwf x -> x_ascii x = true ->
  x_nnodes x = N.of_nat (length terms + length l) -> (length terms + length l <> 0)%nat ->
  length slm = length (x_ids x) ->
  twf_dag slm terms l ->
  tdd_import_whole true slm (tdd_export_whole x (tterm_nodes terms ++ map tainner l)) = TBody EArity.
Proof. exact tdd_strict_rejects_whole. Qed.
Print Assumptions C15_tdd_code_rejects_whole.

(** a ".mode B" header is never followed by a node section a ternary importer reads *)
Theorem C15_tdd_binary_rejected : forall strict slm inp h rest,
  load_header inp = HOk (h, rest) -> length slm = length (h_ids h) -> h_ascii h = false ->
  tdd_import_whole strict slm inp = TBinary.
Proof. exact tdd_binary_rejected. Qed.
Print Assumptions C15_tdd_binary_rejected.

(** the reader of the code is a restriction of the decoder: same result whenever it accepts *)
Theorem C15_tdd_strict_implies_lenient : forall slm inp x,
  tdd_import_whole true slm inp = TOk x -> tdd_import_whole false slm inp = TOk x.
Proof. exact tdd_strict_implies_lenient. Qed.
Print Assumptions C15_tdd_strict_implies_lenient.

(** TOTALITY / NO PANIC on arbitrary bytes, both readers: never the internal-error value that
    stands for an out-of-bounds index (nodes[child - 1]) *)
Theorem C15_tdd_no_panic : forall strict slm inp,
  tdd_import_whole strict slm inp <> THdr HInternal /\ tdd_import_whole strict slm inp <> TBody EInternal.
Proof. exact tdd_import_whole_no_internal. Qed.
Print Assumptions C15_tdd_no_panic.

(** node section + trailer + roots on arbitrary bytes and parameters: no internal error, and
    what is accepted is a well-formed ternary diagram with one reference per node ID *)
Theorem C15_tdd_body_safe : forall strict vin slm nnodes rootids inp,
  tdd_import_file strict vin slm nnodes rootids inp <> Err EInternal /\
  forall st roots, tdd_import_file strict vin slm nnodes rootids inp = Ok (st, roots) ->
    tstore_wf (ts_store st) /\ tlevels_in slm (ts_store st) /\
    Forall (tref_in (ts_store st)) (ts_nodes st) /\ length (ts_nodes st) = N.to_nat nnodes /\
    Forall (tref_in (ts_store st)) roots /\ length roots = length rootids /\
    Forall (fun r => (0 < r)%Z /\ Z.abs_N r <= nnodes) rootids /\
    (N.to_nat nnodes <= length inp)%nat.
Proof. exact tdd_import_file_safe. Qed.
Print Assumptions C15_tdd_body_safe.

(** SAFETY OF ACCEPTANCE for the whole file ("never builds a wrong diagram"): well-formed
    header, acyclic ordered table over the support levels, valid roots, and every root has
    exactly one three-valued meaning = what tdd_eval_root computes *)
Theorem C15_tdd_whole_accept_safe : forall strict slm inp h st roots,
  tdd_import_whole strict slm inp = TOk (h, st, roots) ->
  header_wf h /\ h_ascii h = true /\ length slm = length (h_ids h) /\
  tstore_wf (ts_store st) /\ tlevels_in slm (ts_store st) /\
  Forall (tref_in (ts_store st)) (ts_nodes st) /\ length (ts_nodes st) = N.to_nat (h_nnodes h) /\
  Forall (tref_in (ts_store st)) roots /\ length roots = length (h_rootids h) /\
  forall r, In r roots -> forall env,
    exists v, tdenotes (ts_store st) env r v /\ (forall v', tdenotes (ts_store st) env r v' -> v' = v) /\
              tdd_eval_root (ts_store st) env r = v.
Proof. exact tdd_import_whole_safe. Qed.
Print Assumptions C15_tdd_whole_accept_safe.

(** the short cut used by the extracted reader accepts the same inputs with the same results *)
Theorem C15_tdd_guarded_equiv : forall strict slm inp,
  tres_equiv (tdd_import_whole strict slm inp) (tdd_import_whole_guarded strict slm inp).
Proof. exact tdd_import_whole_guarded_equiv. Qed.
Print Assumptions C15_tdd_guarded_equiv.

(** every valid reference of a well-formed table has a unique value, computed by tdd_eval with
    any fuel above the table size *)
Theorem C15_tdd_ref_denotes : forall s env r, tstore_wf s -> tref_in s r ->
  exists v, tdenotes s env r v /\ (forall v', tdenotes s env r v' -> v' = v) /\
            (forall fuel, (length s < fuel)%nat -> tdd_eval s fuel env r = v) /\
            tdd_eval_root s env r = v.
Proof. exact tref_denotes. Qed.
Print Assumptions C15_tdd_ref_denotes.

(** TDDRules::reduce + unique table preserve the meaning: the returned reference denotes
    "case x_level of true -> t | unknown -> u | false -> e" *)
Theorem C15_tdd_mk_node_semantics : forall s level t u e s' r,
  tdd_mk_node s level t u e = (s', r) ->
  forall env v, tdenotes s' env r v <-> tdenotes s' env (tsel (env level) t u e) v.
Proof. exact tdd_mk_node_denotes. Qed.
Print Assumptions C15_tdd_mk_node_semantics.

(** hypotheses satisfiable: the Kleene conjunction of two of three named variables under a
    non-identity order, two named roots; the theorem applies, the code's reader rejects the
    file, the decoded root has the Kleene truth table *)
Theorem C15_tdd_example :
  xwf ex_tx /\ twf_dag ex_tslm ex_terms ex_tdag /\
  tdd_import_whole false ex_tslm (tdd_export_whole ex_tx (tterm_nodes ex_terms ++ map tainner ex_tdag))
  = TOk (header_of ex_tx, tstate ex_tslm ex_terms ex_tdag 3, [TRNode 2; TRNode 0]) /\
  tdd_import_whole true ex_tslm (tdd_export_whole ex_tx (tterm_nodes ex_terms ++ map tainner ex_tdag))
  = TBody EArity /\
  forall a b : tterm,
    tdd_eval_root (ts_store (tstate ex_tslm ex_terms ex_tdag 3))
                  (fun l => if l =? 1 then a else if l =? 2 then b else TUnknown) (TRNode 2)
    = kleene_and a b.
Proof. exact (conj ex_tx_wf (conj ex_tdag_wf (conj ex_tdd_whole (conj ex_tdd_strict ex_tdd_semantics)))). Qed.
Print Assumptions C15_tdd_example.
