(** C16 — variable and name bookkeeping: property theorems only
    (model in Mgr/Names.v, proofs in Mgr/NamesProofs.v). *)
From Coq Require Import String List NArith Bool.
From OxiVerif Require Import Mgr.Names Mgr.NamesProofs.
Import ListNotations.
Local Open Scope string_scope.
Local Open Scope list_scope.

(** the invariant, spelled out: [index] is exactly the inverse of [names]
    restricted to non-empty names, one entry per key, and the manager has as
    many levels (and var<->level entries) as name slots *)
Theorem C16_inv_unfold : forall g : mgr,
  mgr_inv g <->
  ((forall s v, In (s, v) (index (nm g)) <->
                s <> "" /\ nth_error (names (nm g)) (N.to_nat v) = Some s) /\
   NoDup (map fst (index (nm g)))) /\
  nlevels g = N.of_nat (length (names (nm g))) /\
  nvl g = N.of_nat (length (names (nm g))).
Proof. exact (fun g => iff_refl (mgr_inv g)). Qed.
Print Assumptions C16_inv_unfold.

Theorem C16_inv_init : mgr_inv mgr_new.
Proof. exact mgr_inv_new. Qed.
Print Assumptions C16_inv_init.

(** every call -- add_vars, add_named_vars, set_var_name,
    add_named_vars_from_map with any argument map a caller can build --
    accepted or rejected, preserves the invariant *)
Theorem C16_inv_step : forall (g : mgr) (o : op), mgr_inv g -> mgr_inv (fst (step g o)).
Proof. exact mgr_inv_step. Qed.
Print Assumptions C16_inv_step.

(** the calls on a bare VarNameMap (incl. get_or_add) *)
Theorem C16_vnm_inv_step : forall (m : vnm) (o : mop), names_inv m -> names_inv (fst (mstep m o)).
Proof. exact names_inv_mstep. Qed.
Print Assumptions C16_vnm_inv_step.

(** all call sequences *)
Theorem C16_inv_all_sequences : forall os : list op, mgr_inv (run mgr_new os).
Proof. exact mgr_inv_reachable. Qed.
Print Assumptions C16_inv_all_sequences.

(** the property's sentence for every state reachable by a call sequence *)
Theorem C16_reachable_consistent : forall os : list op,
  let g := run mgr_new os in
  num_vars g = num_levels g /\ num_levels g = vnm_len (nm g) /\
  (forall v, (exists s, m_var_name g v = Some s) <-> N.lt v (num_vars g)) /\
  (forall v s, m_var_name g v = Some s -> s <> "" -> m_name_to_var g s = Some v) /\
  (forall s v, m_name_to_var g s = Some v ->
               m_var_name g v = Some s /\ s <> "" /\ N.lt v (num_vars g)) /\
  m_name_to_var g "" = None /\
  N.to_nat (num_named_vars g) = length (named_vars (nm g)).
Proof. exact (fun os => mgr_consistent (run mgr_new os) (mgr_inv_reachable os)). Qed.
Print Assumptions C16_reachable_consistent.

(** [named_vars] lists exactly the variables with a non-empty name *)
Theorem C16_named_vars_spec : forall (m : vnm) (i : nat),
  In i (named_vars m) <-> exists s, nth_error (names m) i = Some s /\ s <> "".
Proof. exact named_vars_spec. Qed.
Print Assumptions C16_named_vars_spec.

Theorem C16_add_vars_result : forall (g : mgr) (k : N),
  mgr_inv g ->
  snd (m_add_vars g k) = ROk (num_vars g) (N.add (num_vars g) k) /\
  num_vars (fst (m_add_vars g k)) = N.add (num_vars g) k /\
  names (nm (fst (m_add_vars g k))) = names (nm g) ++ repeat "" (N.to_nat k).
Proof. exact add_vars_result. Qed.
Print Assumptions C16_add_vars_result.

(** Ok: all names added; Err: the prefix before the duplicate stays added
    (= added_vars), the error names the rejected name and the variable that
    carries it *)
Theorem C16_add_named_vars_result : forall (g : mgr) (l : list string),
  mgr_inv g ->
  let g' := fst (m_add_named_vars g l) in
  match snd (m_add_named_vars g l) with
  | ROk lo hi =>
    lo = num_vars g /\ hi = num_vars g' /\ names (nm g') = names (nm g) ++ l
  | RErr name present lo hi =>
    lo = num_vars g /\ hi = num_vars g' /\
    (exists pre post, l = pre ++ name :: post /\ names (nm g') = names (nm g) ++ pre) /\
    name <> "" /\ m_var_name g' present = Some name /\ m_name_to_var g' name = Some present
  | _ => False
  end.
Proof. exact add_named_vars_result. Qed.
Print Assumptions C16_add_named_vars_result.

(** accepted: the variable carries the name and nothing else changed;
    rejected: state unchanged, present_var is another variable carrying the
    name; variable out of range: state unchanged *)
Theorem C16_set_var_name_result : forall (g : mgr) (v : N) (s : string),
  mgr_inv g ->
  let g' := fst (m_set_var_name g v s) in
  match snd (m_set_var_name g v s) with
  | RUnit =>
    m_var_name g' v = Some s /\ num_vars g' = num_vars g /\
    (forall w, w <> v -> m_var_name g' w = m_var_name g w)
  | RErr name present lo hi =>
    g' = g /\ name = s /\ s <> "" /\ present <> v /\ m_var_name g present = Some s /\
    lo = num_vars g /\ hi = num_vars g
  | RPanic => g' = g /\ ~ N.lt v (num_vars g)
  | _ => False
  end.
Proof. exact set_var_name_result. Qed.
Print Assumptions C16_set_var_name_result.

(** a rename releases the old name and keeps the count *)
Theorem C16_rename_releases : forall (m : vnm) (v : N) (old new : string),
  names_inv m -> var_name m v = Some old -> old <> "" -> new <> "" -> new <> old ->
  name_to_var m new = None ->
  let m' := fst (set_var_name m v new) in
  snd (set_var_name m v new) = RUnit /\
  name_to_var m' old = None /\ name_to_var m' new = Some v /\
  named_count m' = named_count m.
Proof. exact rename_releases. Qed.
Print Assumptions C16_rename_releases.

(** adding variables (any call sequence) never changes what an existing
    diagram denotes: BDD / BCDD / MTBDD shape ... *)
Theorem C16_add_vars_sem_binary :
  forall (T : Type) (cpl : T -> T) (g : mgr) (os : list op) (d : dd2 T) (e e' : N -> bool),
  mgr_inv g -> below2 (num_vars g) d = true ->
  (forall v, N.lt v (num_vars g) -> e' v = e v) ->
  eval2 cpl e' d = eval2 cpl e d /\ below2 (num_vars (run g os)) d = true.
Proof. exact (@add_vars_sem2). Qed.
Print Assumptions C16_add_vars_sem_binary.

(** ... and TDD shape *)
Theorem C16_add_vars_sem_ternary :
  forall (T : Type) (g : mgr) (os : list op) (d : dd3 T) (e e' : N -> option bool),
  mgr_inv g -> below3 (num_vars g) d = true ->
  (forall v, N.lt v (num_vars g) -> e' v = e v) ->
  eval3 e' d = eval3 e d /\ below3 (num_vars (run g os)) d = true.
Proof. exact (@add_vars_sem3). Qed.
Print Assumptions C16_add_vars_sem_ternary.

(** the hypotheses are satisfiable: a reachable state with a rename, a
    rejected add, a rejected rename, a cleared name and an adopted map *)
Theorem C16_example_state :
  run mgr_new ex_ops =
  mk_mgr (mk_vnm ["c"; ""; ""; ""; "a"; "f"] [("f", 5%N); ("a", 4%N); ("c", 0%N)]) 6 6.
Proof. exact ex_state. Qed.
Print Assumptions C16_example_state.

(** ** ALL histories (HIST): [add_vars] inside the manager state machine of Mgr/History.v
    (node table + handles + apply cache + substitution objects; plain BDD kind) *)
From Coq Require Import Arith FMapPositive.
From OxiVerif Require Import DD.Table DD.TableProofs DD.Sem DD.Apply DD.ApplyProofs DD.ApplyEvalProofs
  Mgr.History Mgr.HistoryProofs Mgr.HistoryThms Mgr.HistoryExamples.

(* in any state the invariant holds in (so: after any history) adding [k] variables touches no node
   and no slot, the new variables sit below all others, every stored function is still stored,
   and it is the old function, which ignores the new variables *)
Theorem C16_hist_add_vars_keeps_functions :
  forall (gt : ref -> ref -> bool) (C : Type) (cget : C -> N -> list ref -> option ref)
         (cadd : C -> N -> list ref -> ref -> C) (cempty : C)
         (st : hstate C) (k : nat) (st' : hstate C),
  HInv C cget st -> hstep gt C cget cadd cempty st (HAddVars k) = Some st' ->
  Table.nlevels (h_s C st') = Table.nlevels (h_s C st) + k /\
  s_nodes (h_s C st') = s_nodes (h_s C st) /\
  s_handles (h_s C st') = s_handles (h_s C st) /\
  (forall v, v < Table.nlevels (h_s C st) ->
     nth_error (s_v2l (h_s C st')) v = nth_error (s_v2l (h_s C st)) v) /\
  (forall i, i < k ->
     nth_error (s_v2l (h_s C st')) (Table.nlevels (h_s C st) + i) = Some (Table.nlevels (h_s C st) + i)) /\
  forall r, ref_ok (h_s C st) r ->
    ref_ok (h_s C st') r /\
    forall a a', (forall v, v < Table.nlevels (h_s C st) -> a v = a' v) ->
      bfun_of (h_s C st') r a = bfun_of (h_s C st) r a'.
Proof. exact hist_add_vars. Qed.
Print Assumptions C16_hist_add_vars_keeps_functions.

(* ... and the invariant (well-formed table, valid cache - which [add_vars] does NOT clear -,
   consistent substitution objects) holds again, every slot keeps edge and function *)
Theorem C16_hist_add_vars_step :
  forall (gt : ref -> ref -> bool) (C : Type) (cget : C -> N -> list ref -> option ref)
         (cadd : C -> N -> list ref -> ref -> C), lossy cget cadd ->
  forall cempty : C, (forall k a, cget cempty k a = None) ->
  forall (st : hstate C) (k : nat), HInv C cget st ->
  exists st', hstep gt C cget cadd cempty st (HAddVars k) = Some st' /\
              HInv C cget st' /\ hframe C st (HAddVars k) st' /\ hpost C st (HAddVars k) st'.
Proof. exact (fun gt C cget cadd L cempty He st k I => hstep_ok gt C cget cadd L cempty He st (HAddVars k) I Logic.I). Qed.
Print Assumptions C16_hist_add_vars_step.

(* non-vacuity: in [ex_ops] (Mgr/HistoryExamples.v) a variable is added after 19 calls (with a
   non-empty cache and a live substitution object) and used afterwards *)
Theorem C16_hist_example :
  hrun gtA acache ac_get ac_add nil (hinit acache nil 3) ex_ops = Some ex_stA /\
  s_l2v (h_s acache ex_stA) = (2 :: 0 :: 1 :: 3 :: nil) /\ wf_b (h_s acache ex_stA) = true.
Proof. exact (conj ex_runA (conj (proj1 (proj2 ex_stA_shape)) (proj1 ex_wfA))). Qed.
Print Assumptions C16_hist_example.

(* along a whole history: however many variables are added meanwhile (and whatever else is
   called), an existing handle that is not overwritten denotes the function it denoted, and that
   function reads only the variables that existed at the time *)
Theorem C16_hist_handle_function_fixed :
  forall (gt : ref -> ref -> bool) (C : Type) (cget : C -> N -> list ref -> option ref)
         (cadd : C -> N -> list ref -> ref -> C), lossy cget cadd ->
  forall cempty : C, (forall k a, cget cempty k a = None) ->
  forall ops (st st' : hstate C), HInv C cget st -> hops_pre gt C cget cadd cempty st ops ->
  hrun gt C cget cadd cempty st ops = Some st' ->
  forall x e, (forall o, In o ops -> hdst o <> Some x) ->
  ConfigApply.hget (s_handles (h_s C st)) x = Some e ->
  ConfigApply.hget (s_handles (h_s C st')) x = Some e /\
  forall a a', (forall v, v < Table.nlevels (h_s C st) -> a v = a' v) ->
    bfun_of (h_s C st') (eref e) a = bfun_of (h_s C st) (eref e) a'.
Proof. exact hist_handle_function_fixed. Qed.
Print Assumptions C16_hist_handle_function_fixed.

(** ** ALL histories, complement-edge kind (HISTc): [add_vars] inside the BCDD manager state
    machine of Mgr/HistoryC.v (node table + handles + apply cache + substitution objects) *)
From OxiVerif Require Import DD.ApplyBcdd DD.ApplyBcddProofs DD.ApplyBcddEval
  Mgr.HistoryC Mgr.HistoryCProofs Mgr.HistoryCThms Mgr.HistoryCExamples.

(* in any state the invariant holds in (so: after any history) adding [k] variables touches no node
   and no slot, the new variables sit below all others, every stored function is still stored,
   and it is the old function, which ignores the new variables *)
Theorem C16_histc_add_vars_keeps_functions :
  forall (lt : edge -> edge -> bool) (C : Type) (cget : C -> N -> list edge -> option edge)
         (cadd : C -> N -> list edge -> edge -> C) (cempty : C)
         (st : hstate_c C) (k : nat) (st' : hstate_c C),
  HInvC C cget st -> hstep_c lt C cget cadd cempty st (HAddVars k) = Some st' ->
  Table.nlevels (hc_s C st') = Table.nlevels (hc_s C st) + k /\
  s_nodes (hc_s C st') = s_nodes (hc_s C st) /\
  s_handles (hc_s C st') = s_handles (hc_s C st) /\
  (forall v, v < Table.nlevels (hc_s C st) ->
     nth_error (s_v2l (hc_s C st')) v = nth_error (s_v2l (hc_s C st)) v) /\
  (forall i, i < k ->
     nth_error (s_v2l (hc_s C st')) (Table.nlevels (hc_s C st) + i) = Some (Table.nlevels (hc_s C st) + i)) /\
  forall e, ref_ok (hc_s C st) (eref e) ->
    ref_ok (hc_s C st') (eref e) /\
    forall a a', (forall v, v < Table.nlevels (hc_s C st) -> a v = a' v) ->
      cbfun_of (hc_s C st') e a = cbfun_of (hc_s C st) e a'.
Proof. exact histc_add_vars. Qed.
Print Assumptions C16_histc_add_vars_keeps_functions.

(* ... and the invariant (well-formed table, valid cache - which [add_vars] does NOT clear -,
   consistent substitution objects) holds again, every slot keeps edge and function *)
Theorem C16_histc_add_vars_step :
  forall (lt : edge -> edge -> bool) (C : Type) (cget : C -> N -> list edge -> option edge)
         (cadd : C -> N -> list edge -> edge -> C), lossyC cget cadd ->
  forall cempty : C, (forall k a, cget cempty k a = None) ->
  forall (st : hstate_c C) (k : nat), HInvC C cget st ->
  exists st', hstep_c lt C cget cadd cempty st (HAddVars k) = Some st' /\
              HInvC C cget st' /\ hframe_c C st (HAddVars k) st' /\ hpost_c C st (HAddVars k) st'.
Proof. exact (fun lt C cget cadd L cempty He st k I => hstep_c_ok lt C cget cadd L cempty He st (HAddVars k) I Logic.I). Qed.
Print Assumptions C16_histc_add_vars_step.

(* non-vacuity: in [exc_ops] (Mgr/HistoryCExamples.v) a variable is added after 19 calls (with a
   non-empty cache and a live substitution object) and used afterwards *)
Theorem C16_histc_example :
  hrun_c ltA eacache eac_get eac_add nil (hinit_c eacache nil 3) exc_ops = Some exc_stA /\
  s_l2v (hc_s eacache exc_stA) = (2 :: 0 :: 1 :: 3 :: nil) /\ wf_b (hc_s eacache exc_stA) = true.
Proof. exact (conj exc_runA (conj (proj1 (proj2 exc_stA_shape)) (proj1 exc_wfA))). Qed.
Print Assumptions C16_histc_example.

(* along a whole history: however many variables are added meanwhile (and whatever else is
   called), an existing handle that is not overwritten denotes the function it denoted, and that
   function reads only the variables that existed at the time *)
Theorem C16_histc_handle_function_fixed :
  forall (lt : edge -> edge -> bool) (C : Type) (cget : C -> N -> list edge -> option edge)
         (cadd : C -> N -> list edge -> edge -> C), lossyC cget cadd ->
  forall cempty : C, (forall k a, cget cempty k a = None) ->
  forall ops (st st' : hstate_c C), HInvC C cget st -> hops_pre_c lt C cget cadd cempty st ops ->
  hrun_c lt C cget cadd cempty st ops = Some st' ->
  forall x e, (forall o, List.In o ops -> hdst o <> Some x) ->
  ConfigApply.hget (s_handles (hc_s C st)) x = Some e ->
  ConfigApply.hget (s_handles (hc_s C st')) x = Some e /\
  forall a a', (forall v, v < Table.nlevels (hc_s C st) -> a v = a' v) ->
    cbfun_of (hc_s C st') e a = cbfun_of (hc_s C st) e a'.
Proof. exact histc_handle_function_fixed. Qed.
Print Assumptions C16_histc_handle_function_fixed.

(** ** ALL histories, ZBDD kind (HISTz, Mgr/HistoryZ.v): add_vars in any state of any history.  For ZBDDs
    adding variables DOES change the Boolean view of a handle (new variables must be false) - what is
    unchanged is the family of sets of variables.  The apply cache is kept across add_vars; its Restrict
    entries are keyed by the number of levels: the examples show the state machine (= the code since f8637cd)
    and the wrong result the un-keyed lookups (the code before) compute. *)
From Coq Require Import Bool List NArith PArith FMapPositive.
From OxiVerif Require Import DD.Sem DD.Build DD.Apply DD.ConfigApply DD.FamSpec DD.ZbddOps DD.ZbddOpsProofs DD.ZbddBool
  DD.ZbddBoolProofs DD.ZbddEvalProofs Mgr.LevelSwapZ Mgr.LevelSwapZProofs Mgr.HistoryExamples
  Mgr.HistoryZ Mgr.HistoryZBase Mgr.HistoryZCache Mgr.HistoryZFam Mgr.HistoryZProofs Mgr.HistoryZThms Mgr.HistoryZSpec Mgr.HistoryZTie
  Mgr.HistoryZExamples.

Theorem C16_histz_add_vars_keeps_families :
  forall (gt : ref -> ref -> bool) (C : Type) (cget : C -> N -> list ref -> list nat -> option ref)
  (cadd : C -> N -> list ref -> list nat -> ref -> C),
  zlossy C cget cadd ->
  forall cempty : C,
  (forall (k : N) (a : list ref) (m : list nat), cget cempty k a m = None) ->
  forall (st : hstate_z C) (k : nat) (st' : hstate_z C),
  HInvZ C cget st ->
  hstep_z gt C cget cadd cempty st (ZHAddVars k) = Some st' ->
  HInvZ C cget st' /\
  nlevels (hz_s C st') = nlevels (hz_s C st) + k /\
  s_handles (hz_s C st') = s_handles (hz_s C st) /\
  (forall (id : positive) (nd : node), find_node (hz_s C st) id = Some nd -> find_node (hz_s C st') id = Some nd) /\
  (forall v : nat, v < nlevels (hz_s C st) -> nth_error (s_v2l (hz_s C st')) v = nth_error (s_v2l (hz_s C st)) v) /\
  (forall i : nat, i < k -> nth_error (s_v2l (hz_s C st')) (nlevels (hz_s C st) + i) = Some (nlevels (hz_s C st) + i)) /\
  (forall r : ref,
  ref_ok (hz_s C st) r ->
  ref_ok (hz_s C st') r /\
  fam_of (hz_s C st') r = fam_of (hz_s C st) r /\
  (forall a : asg, vmem (hz_s C st') r a <-> vmem (hz_s C st) r a) /\
  (forall a : asg,
  zbfun_of (hz_s C st') r a = zbfun_of (hz_s C st) r a && newfalse (nlevels (hz_s C st)) (nlevels (hz_s C st')) a)).
Proof. exact histz_add_vars. Qed.
Print Assumptions C16_histz_add_vars_keeps_families.

(* along any history, however many variables are added meanwhile *)
Theorem C16_histz_handle_family_fixed :
  forall (gt : ref -> ref -> bool) (C : Type) (cget : C -> N -> list ref -> list nat -> option ref)
  (cadd : C -> N -> list ref -> list nat -> ref -> C),
  zlossy C cget cadd ->
  forall cempty : C,
  (forall (k : N) (a : list ref) (m : list nat), cget cempty k a m = None) ->
  forall (ops : list zhop) (st st' : hstate_z C),
  HInvZ C cget st ->
  zhops_pre gt C cget cadd cempty st ops ->
  hrun_z gt C cget cadd cempty st ops = Some st' ->
  forall (x : N) (e : edge),
  (forall o : zhop, In o ops -> zhdst o <> Some x) ->
  hget (s_handles (hz_s C st)) x = Some e ->
  hget (s_handles (hz_s C st')) x = Some e /\
  ref_ok (hz_s C st') (eref e) /\
  nlevels (hz_s C st) <= nlevels (hz_s C st') /\
  (forall a : asg, vmem (hz_s C st') (eref e) a <-> vmem (hz_s C st) (eref e) a) /\
  (forall a : asg,
  zbfun_of (hz_s C st') (eref e) a =
  zbfun_of (hz_s C st) (eref e) a && newfalse (nlevels (hz_s C st)) (nlevels (hz_s C st')) a).
Proof. exact histz_slot_stable. Qed.
Print Assumptions C16_histz_handle_family_fixed.

(* restrict, add_vars, the same restrict: computed afresh, the cofactor; the kept cache holds one entry per number of levels *)
Theorem C16_histz_example_keyed_restrict :
  hget (s_handles (hz_s zacache exz_keyed)) 3 <> hget (s_handles (hz_s zacache exz_keyed)) 2 /\
  bfun_eqb 3 (zbfun_of (hz_s zacache exz_keyed) (zslot_ref zacache exz_keyed 3))
  (restrict_s ((1, true) :: (2, false) :: nil) (zbfun_of (hz_s zacache exz_keyed) (zslot_ref zacache exz_keyed 0))) = true /\
  zac_get (hz_c zacache exz_keyed) zcode_restrict (zslot_ref zacache exz_keyed 0 :: zslot_ref zacache exz_keyed 1 :: nil)
  (2 :: nil) = Some (zslot_ref zacache exz_keyed 2) /\
  zac_get (hz_c zacache exz_keyed) zcode_restrict (zslot_ref zacache exz_keyed 0 :: zslot_ref zacache exz_keyed 1 :: nil)
  (3 :: nil) = Some (zslot_ref zacache exz_keyed 3).
Proof. exact exz_restrict_keyed. Qed.
Print Assumptions C16_histz_example_keyed_restrict.

(* the same calls with un-keyed Restrict lookups on the kept cache: the second call returns the first call's edge, which is not the cofactor *)
Theorem C16_histz_example_unkeyed_restrict :
  match exz_unkeyed with
  | Some (r1, r3, f, s3) =>
  r3 = r1 /\ bfun_eqb 3 (zbfun_of s3 r3) (restrict_s ((1, true) :: (2, false) :: nil) (zbfun_of s3 f)) = false
  | None => False
  end.
Proof. exact exz_restrict_unkeyed. Qed.
Print Assumptions C16_histz_example_unkeyed_restrict.

(* in the 31-call history the restrict after add_vars is computed afresh and is the cofactor *)
Theorem C16_histz_example :
  hget (s_handles (hz_s zacache exz_stA)) 23 <> hget (s_handles (hz_s zacache exz_stA)) 9 /\
  bfun_eqb 4 (zbfun_of (hz_s zacache exz_stA) (zslot_ref zacache exz_stA 23))
  (restrict_s ((0, true) :: (2, false) :: (3, false) :: nil)
  (zbfun_of (hz_s zacache exz_stA) (zslot_ref zacache exz_stA 5))) = true.
Proof. exact exz_restrict_fresh. Qed.
Print Assumptions C16_histz_example.


(** ** ALL histories, MTBDD kind (HISTz part M, Mgr/HistoryM.v): add_vars in any state of any history never
    changes the function denoted by an existing MTBDD handle *)
From Coq Require Import Bool List NArith ZArith PArith FMapPositive.
From OxiVerif Require Import DD.Sem DD.Build DD.Apply DD.ApplyProofs DD.ConfigApply Num.I64 DD.ApplyMtbdd DD.ApplyMtbddBase
  DD.ApplyMtbddProofs DD.ApplyMtbddTop Mgr.HistoryExamples
  Mgr.HistoryM Mgr.HistoryMBase Mgr.HistoryMProofs Mgr.HistoryMThms Mgr.HistoryMSpec Mgr.HistoryMTie Mgr.HistoryMExamples.

Theorem C16_histm_add_vars_keeps_functions :
  forall (gt : ref -> ref -> bool) (C : Type) (cget : C -> N -> list ref -> option ref)
  (cadd : C -> N -> list ref -> ref -> C),
  lossy cget cadd ->
  forall cempty : C,
  (forall (k : N) (a : list ref), cget cempty k a = None) ->
  forall (st : hstate_m C) (k : nat) (st' : hstate_m C),
  HInvM C cget st ->
  hstep_m gt C cget cadd cempty st (MHAddVars k) = Some st' ->
  HInvM C cget st' /\
  nlevels (hm_s C st') = nlevels (hm_s C st) + k /\
  s_nodes (hm_s C st') = s_nodes (hm_s C st) /\
  s_terms (hm_s C st') = s_terms (hm_s C st) /\
  s_handles (hm_s C st') = s_handles (hm_s C st) /\
  (forall v : nat, v < nlevels (hm_s C st) -> nth_error (s_v2l (hm_s C st')) v = nth_error (s_v2l (hm_s C st)) v) /\
  (forall i : nat, i < k -> nth_error (s_v2l (hm_s C st')) (nlevels (hm_s C st) + i) = Some (nlevels (hm_s C st) + i)) /\
  (forall r : ref,
  ref_ok (hm_s C st) r ->
  ref_ok (hm_s C st') r /\
  (forall a a' : nat -> bool,
  (forall v : nat, v < nlevels (hm_s C st) -> a v = a' v) -> mfun_of (hm_s C st') r a = mfun_of (hm_s C st) r a')).
Proof. exact histm_add_vars. Qed.
Print Assumptions C16_histm_add_vars_keeps_functions.

(* along any history, however many variables are added meanwhile *)
Theorem C16_histm_handle_function_fixed :
  forall (gt : ref -> ref -> bool) (C : Type) (cget : C -> N -> list ref -> option ref)
  (cadd : C -> N -> list ref -> ref -> C),
  lossy cget cadd ->
  forall cempty : C,
  (forall (k : N) (a : list ref), cget cempty k a = None) ->
  forall (ops : list mhop) (st st' : hstate_m C),
  HInvM C cget st ->
  mhops_pre gt C cget cadd cempty st ops ->
  hrun_m gt C cget cadd cempty st ops = Some st' ->
  forall (x : N) (e : edge),
  (forall o : mhop, In o ops -> mhdst o <> Some x) ->
  hget (s_handles (hm_s C st)) x = Some e ->
  hget (s_handles (hm_s C st')) x = Some e /\
  (forall a a' : nat -> bool,
  (forall v : nat, v < nlevels (hm_s C st) -> a v = a' v) ->
  mfun_of (hm_s C st') (eref e) a = mfun_of (hm_s C st) (eref e) a').
Proof. exact histm_handle_function_fixed. Qed.
Print Assumptions C16_histm_handle_function_fixed.

