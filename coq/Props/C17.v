(** C17 — property theorems only (proved in Tbl/LinearHashProofs.v). *)
From OxiVerif Require Import Tbl.LinearHash.
From Coq Require Import List NArith.

(* placeholder until the refinement proof lands: the empty table is empty *)
Theorem C17_empty_iter : iter empty = nil.
Proof. reflexivity. Qed.
Print Assumptions C17_empty_iter.
