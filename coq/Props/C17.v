(** C17 — property theorems only (proved in Tbl/LinearHashProofs*.v).

    Vocabulary (all defined in Tbl/LinearHashProofsCore.v / LinearHashProofs.v):
    - [TI sbits hash t]   the table invariant (size 0 or a power of two >= 16 that is
                          addressable with [sbits] status bits, [len] = number of
                          occupied slots, [free] <= number of FREE slots and >= 1 for a
                          non-empty slot array, stored status = status of the hash,
                          no value twice, every occupied slot reachable from its home
                          index by cyclic probing without crossing a FREE slot);
    - [abs t]             the elements in the occupied slots;
    - [spec_step]         the reference finite set (duplicate-free list);
    - [out_agrees]        result agreement (lists up to permutation; a partially
                          consumed drain hands out min(j,len) distinct elements);
    - [op_ok] / [ops_ok]  the capacity an operation requests passes
                          [Status::check_capacity] (the real code panics otherwise);
    - [RDiverge]          the model's value for a probing loop that does not terminate. *)
From Coq Require Import List NArith Permutation.
From OxiVerif Require Import Tbl.LinearHash Tbl.LinearHashProofsBase
  Tbl.LinearHashProofsCore Tbl.LinearHashProofs.
Import ListNotations.

(** every single operation, for any hash function and any number of status bits *)
Theorem C17_step : forall (sbits : N) (hash : N -> N) (t : tbl) (o : op) (t' : tbl) (r : out),
  TI sbits hash t -> op_ok sbits t o -> step sbits hash t o = (t', r) ->
  r <> RDiverge /\ TI sbits hash t' /\ NoDup (abs t') /\
  Permutation (abs t') (fst (spec_step (abs t) o)) /\
  out_agrees o (abs t) r.
Proof. exact step_correct. Qed.
Print Assumptions C17_step.

(** arbitrary operation sequences from the empty table *)
Theorem C17_run : forall (sbits : N) (hash : N -> N) (ops : list op),
  ops_ok sbits hash empty ops ->
  sim_trace [] ops (run sbits hash empty ops) /\ TI sbits hash (final sbits hash empty ops).
Proof. exact run_correct. Qed.
Print Assumptions C17_run.

Theorem C17_run_from : forall (sbits : N) (hash : N -> N) (ops : list op) (t : tbl),
  TI sbits hash t -> ops_ok sbits hash t ops ->
  sim_trace (abs t) ops (run sbits hash t ops) /\ TI sbits hash (final sbits hash t ops).
Proof. exact run_correct_from. Qed.
Print Assumptions C17_run_from.

(** no probing loop diverges *)
Theorem C17_run_terminates : forall (sbits : N) (hash : N -> N) (ops : list op),
  ops_ok sbits hash empty ops -> ~ In RDiverge (run sbits hash empty ops).
Proof. exact run_terminates. Qed.
Print Assumptions C17_run_terminates.

(** the same under a static bound on the sequence instead of [ops_ok]: at most [B]
    operations, reserve / with_capacity arguments at most [B], and a table for
    [2 * B] elements is still addressable with [sbits] status bits *)
Theorem C17_run_small : forall (sbits : N) (hash : N -> N) (B : N) (ops : list op),
  (N.of_nat (length ops) <= B)%N -> Forall (op_small B) ops ->
  (next_capacity (2 * B) <= 2 ^ sbits)%N ->
  sim_trace [] ops (run sbits hash empty ops) /\ ~ In RDiverge (run sbits hash empty ops).
Proof. exact run_correct_small. Qed.
Print Assumptions C17_run_small.

(** the individual operations *)
Theorem C17_lookup : forall (sbits : N) (hash : N -> N) (t : tbl) (k : N),
  TI sbits hash t ->
  exists r, lookup sbits hash t k = Some r /\
    ((r = Some k /\ In k (abs t)) \/ (r = None /\ ~ In k (abs t))).
Proof. exact lookup_spec. Qed.
Print Assumptions C17_lookup.

Theorem C17_insert : forall (sbits : N) (hash : N -> N) (t : tbl) (k : N),
  TI sbits hash t -> reserve_fits sbits t 1 ->
  exists t' b, insert sbits hash t k = Some (t', b) /\ TI sbits hash t' /\
    ((b = true /\ ~ In k (abs t) /\ Permutation (abs t') (k :: abs t)) \/
     (b = false /\ In k (abs t) /\ Permutation (abs t') (abs t))).
Proof. exact insert_spec. Qed.
Print Assumptions C17_insert.

Theorem C17_remove : forall (sbits : N) (hash : N -> N) (t : tbl) (k : N),
  TI sbits hash t ->
  exists t' r, remove sbits hash t k = Some (t', r) /\ TI sbits hash t' /\
    ((r = Some k /\ In k (abs t) /\ Permutation (abs t) (k :: abs t')) \/
     (r = None /\ ~ In k (abs t) /\ t' = t)).
Proof. exact remove_spec. Qed.
Print Assumptions C17_remove.

Theorem C17_reserve : forall (sbits : N) (hash : N -> N) (t : tbl) (a : N),
  TI sbits hash t -> reserve_fits sbits t a ->
  exists t', reserve t a = Some t' /\ TI sbits hash t' /\ Permutation (abs t') (abs t) /\
    ((a = 0%N /\ size t' = 0) \/ (a + 1 <= free t')%N).
Proof. exact reserve_spec. Qed.
Print Assumptions C17_reserve.

Theorem C17_retain : forall (sbits : N) (hash : N -> N) (t : tbl) (pred : N -> bool),
  TI sbits hash t ->
  exists t' dropped, retain t pred = Some (t', dropped) /\ TI sbits hash t' /\
    Permutation (abs t') (filter pred (abs t)) /\
    Permutation dropped (filter (npred pred) (abs t)).
Proof. exact retain_spec. Qed.
Print Assumptions C17_retain.

Theorem C17_iter_len : forall (sbits : N) (hash : N -> N) (t : tbl),
  TI sbits hash t ->
  iter t = abs t /\ NoDup (iter t) /\ len t = N.of_nat (length (abs t)).
Proof. exact iter_len_spec. Qed.
Print Assumptions C17_iter_len.

Theorem C17_clear : forall (sbits : N) (hash : N -> N) (t : tbl),
  TI sbits hash t -> TI sbits hash (clear t) /\ abs (clear t) = [].
Proof. exact clear_spec. Qed.
Print Assumptions C17_clear.

Theorem C17_drain : forall (sbits : N) (hash : N -> N) (t : tbl),
  TI sbits hash t ->
  TI sbits hash (fst (drain t)) /\ abs (fst (drain t)) = [] /\ snd (drain t) = abs t.
Proof. exact drain_spec. Qed.
Print Assumptions C17_drain.

Theorem C17_with_capacity : forall (sbits : N) (hash : N -> N) (c : N),
  (next_capacity c <= 2 ^ sbits)%N ->
  TI sbits hash (with_capacity c) /\ abs (with_capacity c) = [].
Proof. exact with_capacity_spec. Qed.
Print Assumptions C17_with_capacity.

Theorem C17_empty : forall (sbits : N) (hash : N -> N), TI sbits hash empty.
Proof. exact TI_empty. Qed.
Print Assumptions C17_empty.

(** the hypotheses are satisfiable by a non-trivial reachable state (31 status
    bits, total collisions, after growth, tombstones and tombstone reuse) *)
Theorem C17_nonvacuous :
  TI 31 (hash_fn 0) ex_state /\
  op_ok 31 ex_state (OInsert 99) /\ op_ok 31 ex_state (ORetain 2 0) /\
  In Tomb (data ex_state) /\ size ex_state = 32 /\ len ex_state = 12%N.
Proof. exact ex_nonvacuous. Qed.
Print Assumptions C17_nonvacuous.
