(** C18 — property theorems only (proved in IO/CircuitProofs.v, IO/AigerProofs.v). *)
From OxiVerif Require Import IO.Circuit IO.CircuitProofs.
From Coq Require Import List.

(** the run-time audit of the implementation's output decides the normal form *)
Theorem C18_nf_b_spec : forall c, nf_b c = true <-> NF c.
Proof. exact nf_b_spec. Qed.
Print Assumptions C18_nf_b_spec.
