(** C18 — property theorems only (proved in IO/CircuitProofs.v, IO/CircuitSimpProofs.v). *)
From OxiVerif Require Import IO.Circuit IO.CircuitProofs IO.CircuitSimpProofs.
From Coq Require Import List.

(** ** The run-time audits decide the predicates of the property *)

(** normal form: the five documented conditions, scope, topological order *)
Theorem C18_nf_b_spec : forall c, nf_b c = true <-> NF c.
Proof. exact nf_b_spec. Qed.
Print Assumptions C18_nf_b_spec.

(** truth-table comparison = equality of the denoted functions under EVERY assignment *)
Theorem C18_equiv_b_spec : forall n c c' gm ls,
  n_inputs c = n -> n_inputs c' = n ->
  (equiv_b n c c' gm ls = true <->
   forall (a : nat -> bool) l, In l ls -> eval c a l = eval c' a (apply_gate_map gm l)).
Proof. exact equiv_b_spec. Qed.
Print Assumptions C18_equiv_b_spec.

Theorem C18_defined_b_spec : forall n c ls,
  n_inputs c = n ->
  (defined_b n c ls = true <->
   forall (a : nat -> bool) l g, In l ls -> latom l = AGate g -> eval c a l <> None).
Proof. exact defined_b_spec. Qed.
Print Assumptions C18_defined_b_spec.

Theorem C18_map_consistent_b_spec : forall c c' gm roots,
  map_consistent_b c c' gm roots = true <-> MapConsistent c c' gm roots.
Proof. exact map_consistent_b_spec. Qed.
Print Assumptions C18_map_consistent_b_spec.

(** ** The steps of the simplifier preserve the value of a gate *)

Theorem C18_dedup_sem : forall (va : atom -> bool) k ins,
  match dedup k ins with
  | Some ins' => gate_fun k (map (lval va) ins') = gate_fun k (map (lval va) ins)
  | None => k <> Xor /\ gate_fun k (map (lval va) ins) = absorb k
  end.
Proof. exact dedup_sem. Qed.
Print Assumptions C18_dedup_sem.

(** ** The model simplifier *)

(** [simp_nf] *)
Theorem C18_simp_nf : forall c roots c' gm, simplify c roots = Ok (c', gm) -> NF c'.
Proof. exact simp_nf. Qed.
Print Assumptions C18_simp_nf.

(** [simp_equiv]: every literal over gates reachable from the roots (in particular
    every root) has, under every assignment, the same value before and after through
    the gate map, and gate literals do have a value *)
Theorem C18_simp_equiv : forall c roots c' gm, simplify c roots = Ok (c', gm) ->
  forall l, (forall g, latom l = AGate g -> Reach c roots g) ->
  forall a, eval c a l = eval c' a (apply_gate_map gm l) /\
            (forall g, latom l = AGate g -> eval c a l <> None).
Proof. exact simp_equiv. Qed.
Print Assumptions C18_simp_equiv.

Theorem C18_simp_map_consistent : forall c roots c' gm, simplify c roots = Ok (c', gm) ->
  MapConsistent c c' gm roots.
Proof. exact simp_map_consistent. Qed.
Print Assumptions C18_simp_map_consistent.

(** an [Ok] answer is given only if no reachable gate lies on a cycle or mentions an unknown input *)
Theorem C18_simp_ok_no_err_condition : forall c roots c' gm, simplify c roots = Ok (c', gm) ->
  should_err_b c roots = false.
Proof. exact simp_no_err_condition. Qed.
Print Assumptions C18_simp_ok_no_err_condition.

(** every [Ok] answer of the model passes exactly the audit that the driver runs on
    the answers of the implementation *)
Theorem C18_simp_ok_answer : forall c roots c' gm, simplify c roots = Ok (c', gm) ->
  ok_answer_b c roots c' gm = true.
Proof. exact simp_ok_answer. Qed.
Print Assumptions C18_simp_ok_answer.

(** ** Errors and totality of the model *)

Theorem C18_closed_b_spec : forall c roots, closed_b c roots = true <-> Closed c roots.
Proof. exact closed_b_spec. Qed.
Print Assumptions C18_closed_b_spec.

(** [should_err_b] decides: some gate reachable from the roots lies on a cycle or
    mentions an input [>= n_inputs] (incl. UNDEF) *)
Theorem C18_should_err_b_spec : forall c roots, Closed c roots ->
  (should_err_b c roots = true <->
   exists g, Reach c roots g /\
     (Path c g g \/ exists gt l, nth_error (gates c) g = Some gt /\ In l (gins gt) /\
                                 unknown_input_b (n_inputs c) l = true)).
Proof. exact should_err_b_spec. Qed.
Print Assumptions C18_should_err_b_spec.

(** every answer of the model on a closed circuit passes the audit that the driver
    applies to the implementation; no index error, no fuel exhaustion *)
Theorem C18_simp_total : forall c roots, Closed c roots ->
  match simplify c roots with
  | Ok (c', gm) => ok_answer_b c roots c' gm = true
  | Err l => err_answer_b c roots l = true
  | Crash => False
  | Fuel => False
  end.
Proof. exact simp_total. Qed.
Print Assumptions C18_simp_total.

(** [simp_err_iff] *)
Theorem C18_simp_err_iff : forall c roots, Closed c roots ->
  ((exists l, simplify c roots = Err l) <->
   exists g, Reach c roots g /\
     (Path c g g \/ exists gt l, nth_error (gates c) g = Some gt /\ In l (gins gt) /\
                                 unknown_input_b (n_inputs c) l = true)).
Proof. exact simp_err_iff. Qed.
Print Assumptions C18_simp_err_iff.

(** an [Err] answer names a reachable gate on a cycle or an unknown input of a reachable gate *)
Theorem C18_simp_err_justified : forall c roots l, Closed c roots -> simplify c roots = Err l ->
  (exists g, l = gate_lit false g /\ Reach c roots g /\ Path c g g) \/
  (unknown_input_b (n_inputs c) l = true /\
   exists g gt, Reach c roots g /\ nth_error (gates c) g = Some gt /\ In l (gins gt)).
Proof. exact simp_err_justified. Qed.
Print Assumptions C18_simp_err_justified.

(** ** AIGER reader (C18p): model of aiger::parse for both formats (IO/AigerParse.v),
       proved in IO/Aiger{Lex,Sec,Sym,,Total,Sound}Proofs.v *)
From Coq Require Import NArith Relations.
From OxiVerif Require Import IO.Aiger IO.AigerParse IO.AigerLexProofs IO.AigerSecProofs IO.AigerSymProofs
     IO.AigerProofs IO.AigerTotalProofs IO.AigerSoundProofs IO.AigerAcyclicProofs IO.AigerExamples.
Import ListNotations.

(** (a) totality: for ALL byte strings the reader returns a problem or a diagnostic;
    the fuel of its count-driven loops (input length + 1) is never exhausted *)
Theorem C18_aiger_parse_total : forall (check_acyclic : bool) (bs : list N),
  parse_aiger check_acyclic bs <> PFuel.
Proof. exact parse_aiger_total. Qed.
Print Assumptions C18_aiger_parse_total.

(** ... and more fuel does not change a loop's result: every iteration consumes input *)
Theorem C18_aiger_loop_fuel_irrelevant : forall (A : Type) (p : N -> list N -> pres (A * list N)),
  (forall i bs, match p i bs with
                | POk (_, r) => (length r < length bs)%nat
                | PErr => True
                | PFuel => False
                end) ->
  forall f1 f2 n i bs, (length bs < f1)%nat -> (length bs < f2)%nat ->
  collect_i f1 n i p bs = collect_i f2 n i p bs.
Proof. exact @collect_i_fuel_irrelevant. Qed.
Print Assumptions C18_aiger_loop_fuel_irrelevant.

(** the 7-bit delta codec of the binary format, any size below 2^64, with the 64-bit
    [wrapping_shl] of [usize_7bit] *)
Theorem C18_aiger_varint_roundtrip : forall x rest, (x < two64)%N ->
  usize_7bit (encode7 x ++ rest) = POk (x, rest).
Proof. exact usize_7bit_encode7. Qed.
Print Assumptions C18_aiger_varint_roundtrip.

(** one binary AND gate: the two deltas written for [rhs1 <= rhs0 < lhs] are read back *)
Theorem C18_aiger_bin_and_roundtrip : forall i a b rest, (i * 2 < two64)%N -> (a < i * 2)%N -> (b <= a)%N ->
  bin_and i (encode_gate (i * 2) a b ++ rest) = POk ((a, b), rest).
Proof. exact bin_and_print. Qed.
Print Assumptions C18_aiger_bin_and_roundtrip.

(** the symbol table: the name vectors are read back from their symbol lines *)
Theorem C18_aiger_symbol_table_roundtrip : forall h (s : asyms),
  (h_in h + h_lat h <= max_capacity)%N -> (h_out h <= max_capacity)%N -> (h_bad h <= max_capacity)%N ->
  (h_inv h <= max_capacity)%N -> (h_just h <= max_capacity)%N -> (h_fair h <= max_capacity)%N ->
  names_ok_b (h_in h + h_lat h) (sy_in s) = true -> names_ok_b (h_out h) (sy_out s) = true ->
  names_ok_b (h_bad h) (sy_bad s) = true -> names_ok_b (h_inv h) (sy_inv s) = true ->
  names_ok_b (h_just h) (sy_just s) = true -> names_ok_b (h_fair h) (sy_fair s) = true ->
  let ni := N.to_nat (h_in h) in
  symbol_table h
    (print_names 105 0 (firstn ni (sy_in s)) ++ print_names 108 0 (skipn ni (sy_in s))
     ++ print_names 111 0 (sy_out s) ++ print_names 98 0 (sy_bad s) ++ print_names 99 0 (sy_inv s)
     ++ print_names 106 0 (sy_just s) ++ print_names 102 0 (sy_fair s))
  = POk (s, []).
Proof. exact symbol_table_print. Qed.
Print Assumptions C18_aiger_symbol_table_roundtrip.

(** (b) round trips: a well-formed problem (the decidable [wf_b]: variables numbered
    inputs, latches, AND gates in order with [rhs1 <= rhs0 < lhs], literals in
    range, counts within MAX_CAPACITY, default variable map, reproducible names) is
    read back from its ASCII and from its binary file, whatever [check_acyclic] is *)
Theorem C18_aiger_aag_roundtrip : forall (check_acyclic : bool) p, wf_b p = true ->
  parse_aiger check_acyclic (print_aag p) = POk p.
Proof. intros ca p H. apply parse_print_aag. apply wf_b_wf. exact H. Qed.
Print Assumptions C18_aiger_aag_roundtrip.

Theorem C18_aiger_aig_roundtrip : forall (check_acyclic : bool) p, wf_b p = true ->
  parse_aiger check_acyclic (print_aig p) = POk p.
Proof. intros ca p H. apply parse_print_aig. apply wf_b_wf. exact H. Qed.
Print Assumptions C18_aiger_aig_roundtrip.

(** (c) EQUIVALENCE: the ASCII and the binary file of the same well-formed problem
    parse to the same problem *)
Theorem C18_aiger_aag_aig_equiv : forall (ca ca' : bool) p, wf_b p = true ->
  parse_aiger ca (print_aag p) = parse_aiger ca' (print_aig p).
Proof. intros ca ca' p H. apply aag_aig_equiv. apply wf_b_wf. exact H. Qed.
Print Assumptions C18_aiger_aag_aig_equiv.

(** (c, strong direction) every accepted binary file: writing the parsed problem in
    ASCII form and reading that file yields the same problem -- provided the symbol
    names are ones a symbol line can reproduce ([syms_ok]; necessary, see
    [C18_aiger_syms_ok_needed]) *)
Theorem C18_aiger_aig_then_aag : forall (ca ca' : bool) bs p,
  is_binary bs -> parse_aiger ca bs = POk p -> syms_ok p ->
  parse_aiger ca' (print_aag p) = POk p /\ parse_aiger ca' (print_aig p) = POk p.
Proof.
  intros ca ca' bs p Hb H Hs. pose proof (parse_aig_wf ca bs p Hb H Hs) as W.
  split; [apply parse_print_aag|apply parse_print_aig]; exact W.
Qed.
Print Assumptions C18_aiger_aig_then_aag.

(** (d) the AND gates of every accepted binary file are topologically ordered: gate [k]
    reads gates with smaller numbers only, the acyclicity test of the ASCII branch
    would pass, and no gate depends on itself through any chain of gate inputs *)
Theorem C18_aiger_bin_topo : forall (ca : bool) bs p, is_binary bs -> parse_aiger ca bs = POk p ->
  (forall k g, nth_error (ap_ands p) k = Some g ->
     (forall s j, fst g = ALGate s j -> (N.to_nat j < k)%nat) /\
     (forall s j, snd g = ALGate s j -> (N.to_nat j < k)%nat)) /\
  acyclic_b (ap_ands p) = true /\
  forall g, ~ clos_trans nat (reads (ap_ands p)) g g.
Proof. exact parse_aig_topo. Qed.
Print Assumptions C18_aiger_bin_topo.

(** the acyclicity test of the ASCII branch (the model's counterpart of
    Circuit::find_cycle) is sound for ARBITRARY gate lists, and so every problem
    accepted with [check_acyclic = true], ASCII or binary, has no gate that depends
    on itself *)
Theorem C18_aiger_acyclic_b_sound : forall gates, acyclic_b gates = true ->
  forall g, ~ clos_trans nat (reads gates) g g.
Proof. exact acyclic_b_sound. Qed.
Print Assumptions C18_aiger_acyclic_b_sound.

Theorem C18_aiger_accepted_acyclic : forall bs p, parse_aiger true bs = POk p ->
  forall g, ~ clos_trans nat (reads (ap_ands p)) g g.
Proof. exact parse_aiger_acyclic. Qed.
Print Assumptions C18_aiger_accepted_acyclic.

(** the hypotheses are satisfiable by a non-trivial problem (latches with reset 1 /
    uninitialised, three gates, justice, names) *)
Theorem C18_aiger_wf_example :
  wf_b ex_problem = true /\
  is_binary (print_aig ex_problem) /\ parse_aiger true (print_aig ex_problem) = POk ex_problem /\
  syms_ok ex_problem /\ ap_ands ex_problem <> [] /\ ap_latches ex_problem <> [].
Proof. split; [exact ex_wf|exact ex_strong_hyps]. Qed.
Print Assumptions C18_aiger_wf_example.

(** [syms_ok] cannot be dropped: a binary file that names input 0 twice with an empty
    name is accepted with the name " ", which no symbol line reproduces *)
Theorem C18_aiger_syms_ok_needed :
  exists p, is_binary dup_file /\ parse_aiger true dup_file = POk p /\
            sy_in (ap_syms p) = [Some [32%N]] /\ ~ syms_ok p /\
            parse_aiger true (print_aag p) <> POk p.
Proof. exact dup_file_not_reproducible. Qed.
Print Assumptions C18_aiger_syms_ok_needed.

(** ** DIMACS CNF reader (C18p): model of dimacs::parse for [p cnf] files without
       variable order / clause tree options (IO/DimacsParse.v) *)
From OxiVerif Require Import IO.DimacsParse IO.DimacsProofs.

(** totality: a problem, a diagnostic or "SAT format" (not modelled) for ALL byte
    strings; the fuel of the token loop (input length + 1) is never exhausted *)
Theorem C18_dimacs_cnf_total : forall bs : list N, parse_cnf bs <> DFuel.
Proof. exact parse_cnf_total. Qed.
Print Assumptions C18_dimacs_cnf_total.

(** round trip: a CNF printed by [print_cnf] (variables below [nvars], counts within
    MAX_CAPACITY; clauses may be empty, unit, XOR) is read back as exactly the circuit
    [cnf::parse] builds: one gate per clause with two or more literals, unit clauses
    as literals, an AND gate over them as root; FALSE if some clause is empty, TRUE if
    there is no clause *)
Theorem C18_dimacs_cnf_roundtrip : forall nvars (clauses : list (bool * list (bool * N))),
  (nvars <= max_capacity)%N /\ (lenN clauses <= max_capacity)%N /\
  Forall (fun c => Forall (fun l : bool * N => (snd l < nvars)%N) (snd c)) clauses ->
  parse_cnf (print_cnf nvars clauses) =
  match map gate_of clauses with
  | [] => DOk (mkDProblem nvars [] (ALConst true))
  | gs => match retain gs 0 with
          | None => DOk (mkDProblem nvars [] (ALConst false))
          | Some (kept, cj) => DOk (mkDProblem nvars (kept ++ [(DAnd, cj)]) (ALGate false (lenN kept)))
          end
  end.
Proof.
  intros nvars clauses H. rewrite (parse_print_cnf nvars clauses H). unfold result_of.
  destruct (map gate_of clauses); reflexivity.
Qed.
Print Assumptions C18_dimacs_cnf_roundtrip.

(** ** Order / clause trees and the variable-order preamble (C18q): model of util::tree,
       util::var_order_record and the [if parse_var_order ..] branch of nnf::preamble /
       dimacs::preamble (IO/TreeParse.v) *)
From OxiVerif Require Import IO.TreeParse IO.TreeProofs IO.GateAcyclicProofs IO.PreambleProofs IO.PreambleRtProofs.
From Coq Require Import Permutation Relations.
Local Open Scope N_scope.

(** totality of the tree reader: never the fuel value (fuel = 2 * length + 1 for the two mutually
    recursive functions), for both flags and ALL byte strings *)
Theorem C18_tree_total : forall (ob uq : bool) (bs : list N), p_tree ob uq bs <> PFuel.
Proof. exact p_tree_total. Qed.
Print Assumptions C18_tree_total.

(** the short cut in the model's "number missing in tree" test does not change its value *)
Theorem C18_tree_bitset_complete_spec : forall ins,
  ins_complete ins = forallb (fun i => memN i ins) (seqN 0 (list_maxN ins + 1)).
Proof. exact ins_complete_spec. Qed.
Print Assumptions C18_tree_bitset_complete_spec.

(** every accepted tree has a leaf, the reported maximum is the maximal leaf, every number up to
    it occurs, and with [unique_leaves] none occurs twice *)
Theorem C18_tree_accept : forall ob uq bs t mx r, p_tree ob uq bs = POk (t, mx, r) ->
  flatten t <> [] /\ mx = list_maxN (flatten t) /\
  (forall i, i <= mx <-> In i (flatten t)) /\
  (uq = true -> NoDup (flatten t)).
Proof. exact p_tree_accept. Qed.
Print Assumptions C18_tree_accept.

(** order tree ([unique_leaves]): the flattened order is a permutation of the variables mentioned,
    which are exactly 0 .. max *)
Theorem C18_tree_order_perm : forall ob bs t mx r, p_tree ob true bs = POk (t, mx, r) ->
  Permutation (flatten t) (seqN 0 (mx + 1)) /\ lenN (flatten t) = mx + 1.
Proof. exact p_tree_perm. Qed.
Print Assumptions C18_tree_order_perm.

(** round trip of util::tree for every printable tree (numbers within MAX_CAPACITY, no inner
    node with exactly one child, at least one leaf, leaves cover 0 .. max, distinct if required) *)
Theorem C18_tree_roundtrip : forall ob uq t rest, tree_top_ok_b ob uq t = true ->
  nodigit rest -> space0 rest = rest ->
  p_tree ob uq (print_tree ob t ++ rest) = POk (t, list_maxN (flatten t), rest).
Proof. exact p_tree_print. Qed.
Print Assumptions C18_tree_roundtrip.

(** totality of the preamble loop: fuel above the input length is never exhausted, whatever the
    options ([co = None]: NNF, [Some b]: DIMACS with clause_tree = b) and the state *)
Theorem C18_tree_preamble_total : forall co f st bs, (length bs < f)%nat -> pre_loop f co st bs <> PFuel.
Proof. exact pre_loop_nofuel. Qed.
Print Assumptions C18_tree_preamble_total.

(** the variable set of every accepted preamble satisfies the three assertions of
    VarSet::check_valid and has no name beyond the number of variables; its linear order is empty
    or a permutation of ALL variables, and equal to the flattened tree if there is one *)
Theorem C18_tree_varset_valid : forall co f bs st r nv,
  pre_loop f co ps_init bs = POk (st, r) -> pre_before st = true -> pre_after st nv = true ->
  ((vs_order (varset_of st nv) = [] \/ lenN (vs_order (varset_of st nv)) = vs_len (varset_of st nv)) /\
   (vs_order (varset_of st nv) = [] -> vs_tree (varset_of st nv) = None) /\
   (vs_names (varset_of st nv) = [] \/ last (vs_names (varset_of st nv)) None <> None) /\
   lenN (vs_names (varset_of st nv)) <= vs_len (varset_of st nv)) /\
  ((vs_order (varset_of st nv) = [] \/ Permutation (vs_order (varset_of st nv)) (seqN 0 (vs_len (varset_of st nv)))) /\
   (forall t, vs_tree (varset_of st nv) = Some t -> vs_order (varset_of st nv) = flatten t)).
Proof. exact pre_loop_varset. Qed.
Print Assumptions C18_tree_varset_valid.

(** round trip of the preamble: the lines written for a well-formed variable set (order tree and /
    or one record per variable, names) are read back as that variable set *)
Theorem C18_tree_preamble_roundtrip : forall co vs R, wf_vars_b vs = true -> starts_with 99 R = false ->
  exists st, pre_loop (S (length (print_vars vs ++ R))) co ps_init (print_vars vs ++ R) = POk (st, R) /\
             pre_before st = true /\ pre_after st (vs_len vs) = true /\ varset_of st (vs_len vs) = vs.
Proof. exact pre_loop_print_vars. Qed.
Print Assumptions C18_tree_preamble_roundtrip.

(** the acyclicity test for gates of any arity (the model's counterpart of Circuit::find_cycle)
    is sound, and complete on topologically ordered lists *)
Theorem C18_tree_acyclic_g_sound : forall gates, acyclic_g gates = true ->
  forall g, ~ clos_trans nat (reads_g gates) g g.
Proof. exact acyclic_g_sound. Qed.
Print Assumptions C18_tree_acyclic_g_sound.

Theorem C18_tree_acyclic_g_topo : forall gates,
  (forall k x s h, nth_error gates k = Some x -> In (ALGate s h) (snd x) -> (N.to_nat h < k)%nat) ->
  acyclic_g gates = true.
Proof. exact acyclic_g_topo. Qed.
Print Assumptions C18_tree_acyclic_g_topo.

(** ** NNF reader (C18q): model of nnf::parse (IO/NnfParse.v) *)
From OxiVerif Require Import IO.NnfParse IO.NnfProofs IO.NnfRtProofs.

(** totality: a problem or a diagnostic for ALL byte strings, both values of var_order and
    check_acyclic *)
Theorem C18_nnf_total : forall (vo ca : bool) (bs : list N), parse_nnf vo ca bs <> PFuel.
Proof. exact parse_nnf_total. Qed.
Print Assumptions C18_nnf_total.

(** every accepted file: valid variable set (as C18_tree_varset_valid), every gate has an input,
    every gate input is a constant, an input literal below the number of variables or a positive
    reference to an EXISTING gate, the root is the last node (constant, input literal, or the last
    gate), and with check_acyclic no gate depends on itself.  The code does not require node
    references to point backwards (see C18_nnf_forward_reference_accepted), so "acyclic" is what
    holds, and only with check_acyclic. *)
Theorem C18_nnf_accept : forall vo ca bs p, parse_nnf vo ca bs = POk p ->
  let nv := vs_len (rp_vars p) in
  let ng := lenN (rp_gates p) in
  varset_valid (rp_vars p) /\ varset_order_ok (rp_vars p) /\
  (forall g, In g (rp_gates p) -> snd g <> [] /\ forallb (nnf_lit_ok_b nv ng) (snd g) = true) /\
  nnf_root_ok_b nv ng (rp_root p) = true /\
  (ca = true -> acyclic_g (rp_gates p) = true /\ forall g, ~ clos_trans nat (reads_g (rp_gates p)) g g).
Proof. exact parse_nnf_accept. Qed.
Print Assumptions C18_nnf_accept.

Theorem C18_nnf_forward_reference_accepted :
  parse_nnf false true forward_ref_file
  = POk (mkRProblem (varset_new 1) [(DAnd, [ALIn false 0])] (ALIn false 0)).
Proof. exact forward_ref_accepted. Qed.
Print Assumptions C18_nnf_forward_reference_accepted.

(** round trips: for every well-formed problem (decidable wf_nnf_b: gates with >= 1 input, literals
    in range, positive gate references -- forward ones allowed --, root = constant / input literal /
    last gate, acyclic if check_acyclic, sizes within MAX_CAPACITY) parse (print p) = Ok p;
    without var_order for a plain variable set, with var_order for any well-formed variable set *)
Theorem C18_nnf_roundtrip : forall ca p, wf_nnf_b ca p = true -> rp_vars p = varset_new (vs_len (rp_vars p)) ->
  parse_nnf false ca (print_nnf p) = POk p.
Proof. exact parse_print_nnf. Qed.
Print Assumptions C18_nnf_roundtrip.

Theorem C18_nnf_roundtrip_var_order : forall ca p, wf_nnf_b ca p = true -> wf_vars_b (rp_vars p) = true ->
  parse_nnf true ca (print_nnf_vo p) = POk p.
Proof. exact parse_print_nnf_vo. Qed.
Print Assumptions C18_nnf_roundtrip_var_order.

(** the hypotheses hold for a concrete problem: order tree, names, a forward reference, all gate kinds *)
Theorem C18_nnf_wf_example :
  wf_nnf_b true ex_nnf = true /\ wf_vars_b (rp_vars ex_nnf) = true /\
  parse_nnf true true (print_nnf_vo ex_nnf) = POk ex_nnf.
Proof. exact ex_nnf_wf. Qed.
Print Assumptions C18_nnf_wf_example.

(** ** Complete DIMACS reader (C18q): cnf / sat / satx / sate / satex, variable orders, order and
       clause trees, all option combinations (IO/DimacsSatParse.v) *)
From OxiVerif Require Import IO.DimacsSatParse IO.DimacsSatProofs IO.DimacsRtProofs.

(** totality for ALL byte strings and all options *)
Theorem C18_sat_total : forall (vo ct : bool) (bs : list N), parse_dimacs vo ct bs <> PFuel.
Proof. exact parse_dimacs_total. Qed.
Print Assumptions C18_sat_total.

(** every accepted DIMACS file has a valid variable set (as C18_tree_varset_valid) *)
Theorem C18_sat_accept_varset : forall vo ct bs p, parse_dimacs vo ct bs = POk p ->
  varset_valid (rp_vars p) /\ varset_order_ok (rp_vars p).
Proof. exact parse_dimacs_varset. Qed.
Print Assumptions C18_sat_accept_varset.

(** round trip of the SAT formats: [p <fmt> <n>\n<formula>\n] is read back as exactly the circuit
    sat::formula builds (nested n-ary * + xor =, negated variables, -( ), ( ); empty and unary
    operators; '=' with an even number of operands negated).  The operators allowed are the ones
    the code allows for the file's format: xor for satx/satex, '=' for satex only -- the code
    reads 'sate' with eq = false (const SATE), see C18_sat_sate_rejects_eq *)
Theorem C18_sat_roundtrip : forall ax ae nv f, nv <= max_capacity -> sform_ok_b ax (andb ax ae) nv f = true ->
  parse_dimacs false false (print_sat_body ax ae nv f) = POk (sat_problem (varset_new nv) f).
Proof. exact sat_roundtrip. Qed.
Print Assumptions C18_sat_roundtrip.

Theorem C18_sat_roundtrip_var_order : forall vo ct vars ax ae f,
  orb vo ct = true -> wf_vars_b vars = true -> sform_ok_b ax (andb ax ae) (vs_len vars) f = true ->
  parse_dimacs vo ct (print_dimacs_vo vars None (print_sat_body ax ae (vs_len vars) f))
  = POk (sat_problem vars f).
Proof. exact sat_roundtrip_vo. Qed.
Print Assumptions C18_sat_roundtrip_var_order.

(** model = code: a 'p sate' file that uses '=' gets a diagnostic, the same formula in a 'p satex'
    file is accepted (a wrong diagnostic of the code, not a panic: outside the property text) *)
Theorem C18_sat_sate_rejects_eq :
  parse_dimacs false false (print_sat_body false true 1 (SOp OpEq [SLit false 0; SLit false 0])) = PErr /\
  parse_dimacs false false (print_sat_body true true 1 (SOp OpEq [SLit false 0; SLit false 0]))
  = POk (mkRProblem (varset_new 1) [(DXor, [ALIn false 0; ALIn false 0])] (ALGate true 0)).
Proof. exact (conj sate_rejects_eq satex_accepts_eq). Qed.
Print Assumptions C18_sat_sate_rejects_eq.

(** CNF through the complete model: without options, and behind a preamble with variable order
    and / or clause tree -- the result is the circuit cnf::parse builds, with the AND gates of
    make_conj_tree along the clause tree *)
Theorem C18_sat_cnf_roundtrip : forall nv clauses, nv <= max_capacity -> clauses_ok nv clauses ->
  parse_dimacs false false (print_cnf nv clauses) = cnf_result (varset_new nv) None (map gate_of clauses).
Proof. exact cnf_roundtrip_plain. Qed.
Print Assumptions C18_sat_cnf_roundtrip.

Theorem C18_sat_cnf_roundtrip_trees : forall vo ct vars ctree clauses,
  orb vo ct = true -> wf_vars_b vars = true -> clauses_ok (vs_len vars) clauses ->
  ctree_ok ct ctree FCnf (lenN clauses) ->
  parse_dimacs vo ct (print_dimacs_vo vars ctree (print_cnf (vs_len vars) clauses))
  = cnf_result vars ctree (map gate_of clauses).
Proof. exact cnf_roundtrip_vo. Qed.
Print Assumptions C18_sat_cnf_roundtrip_trees.

(** the hypotheses hold for a concrete file: order tree, a name, XOR and unit clauses, a clause
    tree that uses a clause twice *)
Theorem C18_sat_cnf_example :
  wf_vars_b ex_vars = true /\ clauses_ok 2 ex_clauses /\ ctree_ok true (Some ex_ctree) FCnf 3 /\
  parse_dimacs true true (print_dimacs_vo ex_vars (Some ex_ctree) (print_cnf 2 ex_clauses))
  = POk (mkRProblem ex_vars
           [(DOr, [ALIn false 0; ALIn true 1]); (DXor, [ALIn false 0; ALIn false 1]);
            (DAnd, [ALGate false 0; ALIn true 0]); (DAnd, [ALGate false 2; ALGate false 1; ALGate false 0])]
           (ALGate false 3)).
Proof. exact ex_cnf_hyps. Qed.
Print Assumptions C18_sat_cnf_example.

(** the hypotheses of the SAT round trips hold for a concrete formula with all operators *)
Theorem C18_sat_example :
  sform_ok_b true (andb true true) 3 ex_sform = true /\
  parse_dimacs false false (print_sat_body true true 3 ex_sform)
  = POk (mkRProblem (varset_new 3)
           [(DXor, [ALIn false 0; ALIn true 1]); (DAnd, [ALIn false 1; ALIn false 2; ALConst false]);
            (DOr, [ALIn false 0; ALIn false 2]);
            (DXor, [ALGate false 0; ALGate false 1; ALGate true 2; ALIn true 2])]
           (ALGate true 3)).
Proof. exact ex_sform_hyps. Qed.
Print Assumptions C18_sat_example.

(** every accepted DIMACS file (CNF or a SAT format, any options): gate [k] only reads input
    variables below the number of variables and gates with a SMALLER number, the root is in range;
    hence the circuit is topologically ordered, passes the acyclicity test and has no gate that
    depends on itself *)
From OxiVerif Require Import IO.DimacsAcceptProofs.
Theorem C18_sat_accept_topo : forall vo ct bs p, parse_dimacs vo ct bs = POk p ->
  (forall k x l, nth_error (rp_gates p) k = Some x -> In l (snd x) ->
     match l with
     | ALConst _ => True
     | ALIn _ i => i < vs_len (rp_vars p)
     | ALGate _ g => g < N.of_nat k
     | ALUndef _ => False
     end) /\
  match rp_root p with
  | ALConst _ => True
  | ALIn _ i => i < vs_len (rp_vars p)
  | ALGate _ g => g < lenN (rp_gates p)
  | ALUndef _ => False
  end /\
  topo_g (rp_gates p) /\ acyclic_g (rp_gates p) = true /\
  forall g, ~ clos_trans nat (reads_g (rp_gates p)) g g.
Proof. exact parse_dimacs_topo. Qed.
Print Assumptions C18_sat_accept_topo.
